import CanvasProofs.Lemmas.C03Split
import Mathlib.Tactic.Ring
import Mathlib.Tactic.Linarith
import Mathlib.Tactic.FieldSimp
import Mathlib.Tactic.LinearCombination
/-! C03: `xmonotoneQuadraticBezier` (path_util.go:705) over the abstract field — the pieces are the
original curve and each piece is x-monotone. The Float transcription is `C03F.xmonoQuad` (Drv/C03.lean,
bit-exact `XQ` correspondence). `Equal(tdenom, 0)` is exact equality here. -/
set_option linter.unusedSectionVars false
namespace C03L
open Canvas GenK
variable {K : Type} [Field K] [LinearOrder K] [IsStrictOrderedRing K] [Env K]

/-- control polygons of the pieces returned by xmonotoneQuadraticBezier -/
def xmonoQuadK (p0 p1 p2 : Pt K) : List (Pt K × Pt K × Pt K) :=
  let tdenom := p0.x - 2 * p1.x + p2.x
  if tdenom = 0 then [(p0, p1, p2)] else
    let t := (p0.x - p1.x) / tdenom
    if 0 < t ∧ t < 1 then [quadL p0 p1 p2 t, quadR p0 p1 p2 t] else [(p0, p1, p2)]

/-- x-component of the derivative of a quadratic Bézier is affine in s -/
theorem quad_deriv_x (p0 p1 p2 : Pt K) (s : K) :
    (quadraticBezierDeriv p0 p1 p2 s).x = 2 * (p1.x - p0.x) + 2 * (p0.x - 2 * p1.x + p2.x) * s := by
  simp only [quadraticBezierDeriv, Point.Mul, Point.Add]; ring

/-- a piece is x-monotone when x' does not change sign on [0,1] -/
def XMonotone (q : Pt K × Pt K × Pt K) : Prop :=
  ∀ s1 s2 : K, 0 ≤ s1 → s1 ≤ 1 → 0 ≤ s2 → s2 ≤ 1 →
    0 ≤ (quadraticBezierDeriv q.1 q.2.1 q.2.2 s1).x * (quadraticBezierDeriv q.1 q.2.1 q.2.2 s2).x

/-- affine function with its root outside (0,1) (or constant) keeps its sign on [0,1] -/
theorem affine_same_sign (al be s1 s2 : K) (h0 : 0 ≤ s1) (h1 : s1 ≤ 1) (h0' : 0 ≤ s2) (h1' : s2 ≤ 1)
    (hroot : be = 0 ∨ -al / be ≤ 0 ∨ 1 ≤ -al / be) : 0 ≤ (al + be * s1) * (al + be * s2) := by
  rcases hroot with hb | hr | hr
  · rw [hb]; simp only [zero_mul, add_zero]; exact mul_self_nonneg al
  · by_cases hb : be = 0
    · rw [hb]; simp only [zero_mul, add_zero]; exact mul_self_nonneg al
    · set r := -al / be with hr'
      have hal : al = -r * be := by rw [hr']; field_simp
      have e : (al + be * s1) * (al + be * s2) = be * be * ((s1 - r) * (s2 - r)) := by rw [hal]; ring
      rw [e]
      exact mul_nonneg (mul_self_nonneg be) (mul_nonneg (by linarith) (by linarith))
  · by_cases hb : be = 0
    · rw [hb]; simp only [zero_mul, add_zero]; exact mul_self_nonneg al
    · set r := -al / be with hr'
      have hal : al = -r * be := by rw [hr']; field_simp
      have e : (al + be * s1) * (al + be * s2) = be * be * ((r - s1) * (r - s2)) := by rw [hal]; ring
      rw [e]
      exact mul_nonneg (mul_self_nonneg be) (mul_nonneg (by linarith) (by linarith))

theorem xmono_of_root (q0 q1 q2 : Pt K)
    (hroot : q0.x - 2 * q1.x + q2.x = 0 ∨ (q0.x - q1.x) / (q0.x - 2 * q1.x + q2.x) ≤ 0
      ∨ 1 ≤ (q0.x - q1.x) / (q0.x - 2 * q1.x + q2.x)) : XMonotone (q0, q1, q2) := by
  intro s1 s2 a b c d
  simp only [quad_deriv_x]
  apply affine_same_sign _ _ s1 s2 a b c d
  have e : -(2 * (q1.x - q0.x)) / (2 * (q0.x - 2 * q1.x + q2.x)) = (q0.x - q1.x) / (q0.x - 2 * q1.x + q2.x) := by
    rw [show -(2 * (q1.x - q0.x)) = 2 * (q0.x - q1.x) by ring, mul_div_mul_left _ _ (two_ne_zero)]
  rcases hroot with h | h | h
  · left; rw [h]; ring
  · right; left; rw [e]; exact h
  · right; right; rw [e]; exact h

/-- every piece returned by the model is x-monotone -/
theorem xmonoQuadK_monotone (p0 p1 p2 : Pt K) : ∀ q ∈ xmonoQuadK p0 p1 p2, XMonotone q := by
  intro q hq
  unfold xmonoQuadK at hq
  simp only at hq
  by_cases hd : p0.x - 2 * p1.x + p2.x = 0
  · simp only [hd, if_true, List.mem_singleton] at hq
    rw [hq]; exact xmono_of_root p0 p1 p2 (Or.inl hd)
  · simp only [hd, if_false] at hq
    set t := (p0.x - p1.x) / (p0.x - 2 * p1.x + p2.x) with ht
    by_cases hin : 0 < t ∧ t < 1
    · simp only [hin, and_self, if_true, List.mem_cons, List.mem_singleton, List.not_mem_nil, or_false] at hq
      have htd : t * (p0.x - 2 * p1.x + p2.x) = p0.x - p1.x := by rw [ht]; exact div_mul_cancel₀ _ hd
      rcases hq with rfl | rfl
      · -- left piece: x' = 2 t (1−s)(p1.x − p0.x)·…: root of the piece's derivative at s = 1
        intro s1 s2 a b c d
        simp only [quadL, quadraticBezierSplit, quad_deriv_x, Point.Interpolate]
        have e : ∀ s : K, 2 * ((1 - t) * p0.x + t * p1.x - p0.x) +
            2 * (p0.x - 2 * ((1 - t) * p0.x + t * p1.x) + ((1 - t) * ((1 - t) * p0.x + t * p1.x) + t * ((1 - t) * p1.x + t * p2.x))) * s
            = 2 * t * (p1.x - p0.x) * (1 - s) := by
          intro s
          linear_combination (2 * t * s) * htd
        rw [e s1, e s2]
        have : 0 ≤ (1 - s1) * (1 - s2) := mul_nonneg (by linarith) (by linarith)
        nlinarith [mul_self_nonneg (2 * t * (p1.x - p0.x)), this]
      · -- right piece: root of the piece's derivative at s = 0
        intro s1 s2 a b c d
        simp only [quadR, quadraticBezierSplit, quad_deriv_x, Point.Interpolate]
        have e : ∀ s : K, 2 * ((1 - t) * p1.x + t * p2.x - ((1 - t) * ((1 - t) * p0.x + t * p1.x) + t * ((1 - t) * p1.x + t * p2.x))) +
            2 * ((1 - t) * ((1 - t) * p0.x + t * p1.x) + t * ((1 - t) * p1.x + t * p2.x) - 2 * ((1 - t) * p1.x + t * p2.x) + p2.x) * s
            = 2 * (1 - t) * (1 - t) * (p0.x - 2 * p1.x + p2.x) * s := by
          intro s
          linear_combination (2 * (1 - t)) * htd
        rw [e s1, e s2]
        have : 0 ≤ s1 * s2 := mul_nonneg a c
        nlinarith [mul_self_nonneg (2 * (1 - t) * (1 - t) * (p0.x - 2 * p1.x + p2.x)), this]
    · simp only [hin, if_false, List.mem_singleton] at hq
      rw [hq]
      apply xmono_of_root
      right
      rcases not_and_or.mp hin with h | h
      · left; exact le_of_not_gt h
      · right; exact le_of_not_gt h

/-- the pieces are the original curve: first piece on [0,t], second on [t,1] (or the curve itself) -/
theorem xmonoQuadK_exact (p0 p1 p2 : Pt K) :
    xmonoQuadK p0 p1 p2 = [(p0, p1, p2)] ∨
      ∃ t : K, 0 < t ∧ t < 1 ∧ xmonoQuadK p0 p1 p2 = [quadL p0 p1 p2 t, quadR p0 p1 p2 t]
        ∧ (quadraticBezierDeriv p0 p1 p2 t).x = 0 := by
  unfold xmonoQuadK
  simp only
  by_cases hd : p0.x - 2 * p1.x + p2.x = 0
  · left; simp [hd]
  · by_cases hin : 0 < (p0.x - p1.x) / (p0.x - 2 * p1.x + p2.x) ∧ (p0.x - p1.x) / (p0.x - 2 * p1.x + p2.x) < 1
    · right
      refine ⟨_, hin.1, hin.2, by simp [hd, hin], ?_⟩
      rw [quad_deriv_x]; field_simp; ring
    · left; simp [hd, hin]

end C03L
