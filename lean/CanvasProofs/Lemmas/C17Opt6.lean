import CanvasProofs.Lemmas.C17Opt5
/-! C17, towards `optimal_statement`, part 6: the direct-sum measures of the L3 specification agree
with the running-sum measures of the code on every line that matters (well-formed paragraphs). -/
set_option linter.unusedSectionVars false
set_option linter.unusedVariables false
namespace Canvas.C17

section field
variable {K : Type} [Field K] [LinearOrder K] [IsStrictOrderedRing K]

/-- keep a ratio only if it lies in `[-1, tol]` -/
def keepFeas (tol : K) (o : Option K) : Option K :=
  match o with
  | some r => if feasAt (some tol) r = true then some r else none
  | none => none

theorem feasAt_some (tol r : K) : feasAt (some tol) r = true ↔ (-1 ≤ r ∧ r ≤ tol) := by
  unfold feasAt leTol
  simp [k1]

/-- the specification's ratio and the code's ratio agree on feasibility and value -/
theorem keepFeas_ratio (P : Params K) (lineW tol : K) (it : Item K) (W Y Z aw ay az : K)
    (hinf : 0 < P.infinity) (htol : tol < P.infinity) (hlw : 0 < lineW) :
    keepFeas tol (ratioOf lineW (if it.ty = Ty.penalty then W - aw + it.width else W - aw) (Y - ay) (Z - az)) =
    keepFeas tol (adjRatio0 P lineW it W Y Z aw ay az) := by
  unfold ratioOf adjRatio0 ratioCore lineLen
  simp only [k0, k1, beq_iff_eq, id]
  generalize (if it.ty = Ty.penalty then W - aw + it.width else W - aw) = L
  by_cases h1 : L < lineW
  · rw [if_pos h1, if_pos h1]
    by_cases hy : Y - ay ≤ 0
    · rw [if_pos hy, if_pos hy]
      have hpos : 0 < (lineW - L) / lineW := div_pos (by linarith) hlw
      have hbig : tol < P.infinity * (1 + (lineW - L) / lineW) := by
        have : P.infinity * 1 ≤ P.infinity * (1 + (lineW - L) / lineW) :=
          mul_le_mul_of_nonneg_left (by linarith) (le_of_lt hinf)
        linarith
      simp only [keepFeas]
      rw [if_neg]
      intro hf
      have := ((feasAt_some tol _).mp hf).2
      linarith
    · rw [if_neg hy, if_neg hy]
      by_cases hr : (lineW - L) / (Y - ay) < P.infinity
      · rw [if_pos hr]
      · rw [if_neg hr]
        simp only [keepFeas]
        rw [if_neg, if_neg]
        · intro hf; have := ((feasAt_some tol _).mp hf).2; linarith
        · intro hf; have := ((feasAt_some tol _).mp hf).2; linarith
  · rw [if_neg h1, if_neg h1]
    by_cases h2 : lineW < L
    · rw [if_pos h2, if_pos h2]
      by_cases hz : Z - az = 0
      · rw [if_pos hz, if_pos hz]
      · rw [if_neg hz, if_neg hz]
        by_cases hr : (lineW - L) / (Z - az) < P.infinity
        · rw [if_pos hr]
        · rw [if_neg hr]
          simp only [keepFeas]
          rw [if_neg, if_neg]
          · intro hf; have := ((feasAt_some tol _).mp hf).2; linarith
          · intro hf; have := ((feasAt_some tol _).mp hf).2; linarith
    · rw [if_neg h2, if_neg h2, if_pos hinf]

/-- direct sums over the line equal differences of running sums (all three components) -/
theorem lineNat_eq (P : Params K) (items : List (Item K)) (prev : Option Nat) (b : Nat) (it : Item K)
    (hit : items[b]? = some it) (h : lineStart P items prev ≤ b) :
    lineNat P items prev b =
      ((if it.ty = Ty.penalty then (pre items b).1 - (afterSums P items prev).1 + it.width
        else (pre items b).1 - (afterSums P items prev).1),
       (pre items b).2.1 - (afterSums P items prev).2.1, (pre items b).2.2 - (afterSums P items prev).2.2) := by
  have hs : (afterSums P items prev) = pre items (lineStart P items prev) := by
    cases prev with
    | none => simp [afterSums, lineStart, pre, k]
    | some a => exact sumsAfter_eq_pre P items a
  rw [hs]
  have hp := pre_eq_add_range items (lineStart P items prev) b h
  have hp1 : (pre items b).1 = (pre items (lineStart P items prev)).1 + (sumRange items (lineStart P items prev) b).1 :=
    congrArg (·.1) hp
  have hp2 : (pre items b).2.1 = (pre items (lineStart P items prev)).2.1 + (sumRange items (lineStart P items prev) b).2.1 :=
    congrArg (·.2.1) hp
  have hp3 : (pre items b).2.2 = (pre items (lineStart P items prev)).2.2 + (sumRange items (lineStart P items prev) b).2.2 :=
    congrArg (·.2.2) hp
  unfold lineNat
  simp only [h, if_true, hit]
  split
  · refine Prod.ext ?_ (Prod.ext ?_ ?_)
    · simp only; rw [hp1]; ring
    · simp only; rw [hp2]; ring
    · simp only; rw [hp3]; ring
  · refine Prod.ext ?_ (Prod.ext ?_ ?_)
    · simp only; rw [hp1]; ring
    · simp only; rw [hp2]; ring
    · simp only; rw [hp3]; ring

/-- cost and class of the line `prev → b` according to the specification (direct sums) -/
def specStep (P : Params K) (items : List (Item K)) (lineW tol : K) (prev : Option Nat) (fit : Nat) (b : Nat) :
    Option (K × Nat) :=
  if legalAt P items b = true then
    match items[b]? with
    | none => none
    | some it =>
      match keepFeas tol (lineRatio P items lineW prev b) with
      | some r => some (lineDemerits P it r (flaggedAtOpt items prev) fit, fitClass r)
      | none => none
  else none

/-- cost and class of the line `prev → b` as the code measures it (running sums) -/
def codeStep (P : Params K) (items : List (Item K)) (lineW tol : K) (prev : Option Nat) (fit : Nat) (b : Nat) :
    Option (K × Nat) :=
  if legalAt P items b = true then
    match items[b]? with
    | none => none
    | some it =>
      match keepFeas tol (adjRatio P lineW it (pre items b).1 (pre items b).2.1 (pre items b).2.2
          (afterSums P items prev).1 (afterSums P items prev).2.1 (afterSums P items prev).2.2) with
      | some r => some (lineDemerits P it r (flaggedAtOpt items prev) fit, fitClass r)
      | none => none
  else none

theorem step_equiv (P : Params K) (items : List (Item K)) (lineW tol : K) (hwf : WF P items lineW)
    (htol : tol < P.infinity) (prev : Option Nat) (fit b : Nat)
    (hprev : ∀ a, prev = some a → a < b ∧ legalAt P items a = true) :
    specStep P items lineW tol prev fit b = codeStep P items lineW tol prev fit b := by
  unfold specStep codeStep
  by_cases hleg : legalAt P items b = true
  · rw [if_pos hleg, if_pos hleg]
    cases hit : items[b]? with
    | none => rfl
    | some it =>
      simp only
      have hs : lineStart P items prev ≤ b := by
        cases prev with
        | none => exact Nat.zero_le _
        | some a => exact hwf.box a b (hprev a rfl).1 (hprev a rfl).2 hleg
      have : keepFeas tol (lineRatio P items lineW prev b) =
          keepFeas tol (adjRatio P lineW it (pre items b).1 (pre items b).2.1 (pre items b).2.2
            (afterSums P items prev).1 (afterSums P items prev).2.1 (afterSums P items prev).2.2) := by
        unfold lineRatio
        simp only
        rw [lineNat_eq P items prev b it hit hs, hwf.snap prev b it hit (fun a ha => legalAt_lt (hprev a ha).2)]
        exact keepFeas_ratio P lineW tol it _ _ _ _ _ _ hwf.inf htol hwf.lw
      rw [this]
  · rw [if_neg hleg, if_neg hleg]

end field
end Canvas.C17
