import CanvasModel.Wn
import Mathlib.Tactic.Ring
import Mathlib.Tactic.Linarith
import Mathlib.Tactic.Positivity
import Mathlib.Tactic.ByContra
import Mathlib.Tactic.Push
set_option linter.unusedSimpArgs false

/-! Laws of the exact winding-number specification `Canvas.Wn` (so that the oracle cannot be wrong
in the way the code is wrong): reversal negates, start vertex irrelevant, additivity over contours,
translation invariance, invariance under the positive dyadic rescaling used when decoding floats. -/
namespace Canvas.Wn

theorem isLeft_swap (a b p : IPt) : isLeft b a p = - isLeft a b p := by
  simp only [isLeft]; ring

theorem edgeW_swap (p a b : IPt) : edgeW p b a = - edgeW p a b := by
  simp only [edgeW, isLeft_swap a b p]
  by_cases h1 : a.y ≤ p.y ∧ p.y < b.y
  · have h2 : ¬ (b.y ≤ p.y ∧ p.y < a.y) := by omega
    simp only [h1, h2, and_self, if_true, if_false]
    by_cases h3 : 0 < isLeft a b p
    · have : - isLeft a b p < 0 := by omega
      simp [h3, this]
    · have : ¬ (- isLeft a b p < 0) := by omega
      simp [h3, this]
  · by_cases h2 : b.y ≤ p.y ∧ p.y < a.y
    · simp only [h1, h2, and_self, if_true, if_false]
      by_cases h3 : isLeft a b p < 0
      · have : 0 < - isLeft a b p := by omega
        simp [h3, this]
      · have : ¬ (0 < - isLeft a b p) := by omega
        simp [h3, this]
    · simp [h1, h2]

theorem chainW_append_single (p : IPt) (l : List IPt) (a b : IPt) :
    chainW p (l ++ [a, b]) = chainW p (l ++ [a]) + edgeW p a b := by
  induction l with
  | nil => simp [chainW]
  | cons x xs ih =>
    cases xs with
    | nil => simp [chainW]
    | cons y ys =>
      simp only [List.cons_append, chainW] at ih ⊢
      omega

theorem chainW_snoc (p : IPt) (l : List IPt) (a b : IPt) :
    chainW p ((l ++ [a]) ++ [b]) = chainW p (l ++ [a]) + edgeW p a b := by
  rw [List.append_assoc]; exact chainW_append_single p l a b

/-- traversing an open chain backwards negates its crossing sum -/
theorem chainW_reverse (p : IPt) (l : List IPt) : chainW p l.reverse = - chainW p l := by
  induction l with
  | nil => simp [chainW]
  | cons a t ih =>
    cases t with
    | nil => simp [chainW]
    | cons b t' =>
      have : (a :: b :: t').reverse = ((b :: t').reverse.dropLast ++ [b]) ++ [a] := by
        simp [List.reverse_cons, List.dropLast_concat]
      rw [this, chainW_snoc]
      have h2 : (b :: t').reverse.dropLast ++ [b] = (b :: t').reverse := by
        simp [List.reverse_cons, List.dropLast_concat]
      rw [h2, ih, edgeW_swap]
      simp only [chainW]; omega

/-- Start vertex irrelevant: rotating the vertex list keeps the winding number. -/
theorem wn1_rotate (p : IPt) (a : IPt) (l : List IPt) : wn1 p (l ++ [a]) = wn1 p (a :: l) := by
  cases l with
  | nil => simp [wn1]
  | cons b t =>
    simp only [wn1, List.cons_append]
    -- chainW (b :: t ++ [a] ++ [b]) = chainW (b :: t ++ [a]) + edgeW a b
    have h1 : chainW p (b :: (t ++ [a]) ++ [b]) = chainW p (b :: t ++ [a]) + edgeW p a b := by
      have := chainW_snoc p (b :: t) a b
      simpa using this
    have h2 : chainW p (a :: (b :: t) ++ [a]) = edgeW p a b + chainW p (b :: t ++ [a]) := by
      simp [chainW]
    simp only [List.cons_append] at h1 h2
    rw [h1, h2]; omega

/-- Reversing a contour negates its winding number around every point. -/
theorem wn1_reverse (p : IPt) (poly : List IPt) : wn1 p poly.reverse = - wn1 p poly := by
  cases poly with
  | nil => simp [wn1]
  | cons a t =>
    rw [List.reverse_cons, wn1_rotate]
    simp only [wn1]
    have : a :: t.reverse ++ [a] = (a :: t ++ [a]).reverse := by simp
    rw [this, chainW_reverse]

theorem foldl_add_map_neg (l : List Int) (acc : Int) :
    (l.map (fun x => -x)).foldl (· + ·) (-acc) = - l.foldl (· + ·) acc := by
  induction l generalizing acc with
  | nil => simp
  | cons x xs ih =>
    simp only [List.map_cons, List.foldl_cons]
    have : -acc + -x = -(acc + x) := by omega
    rw [this, ih]

/-- Reversing every contour negates the winding number of a multi-contour polygon. -/
theorem wn_reverse (p : IPt) (polys : List (List IPt)) :
    wn p (polys.map List.reverse) = - wn p polys := by
  simp only [wn, List.map_map]
  have : (wn1 p ∘ List.reverse) = (fun x => -x) ∘ wn1 p := by
    funext l; simp [wn1_reverse]
  rw [this, ← List.map_map]
  have := foldl_add_map_neg (polys.map (wn1 p)) 0
  simpa using this

theorem foldl_add_acc (l : List Int) (acc : Int) : l.foldl (· + ·) acc = acc + l.foldl (· + ·) 0 := by
  induction l generalizing acc with
  | nil => simp
  | cons x xs ih => simp only [List.foldl_cons]; rw [ih, ih (0 + x)]; omega

/-- Winding numbers add over contours (so subpaths can be treated independently). -/
theorem wn_append (p : IPt) (a b : List (List IPt)) : wn p (a ++ b) = wn p a + wn p b := by
  simp only [wn, List.map_append, List.foldl_append]
  rw [foldl_add_acc]

/-! translation and positive rescaling -/

def IPt.add (a t : IPt) : IPt := ⟨a.x + t.x, a.y + t.y⟩
def IPt.smul (k : Int) (a : IPt) : IPt := ⟨k * a.x, k * a.y⟩

theorem isLeft_translate (a b p t : IPt) : isLeft (a.add t) (b.add t) (p.add t) = isLeft a b p := by
  simp only [isLeft, IPt.add]; ring

theorem edgeW_translate (p a b t : IPt) : edgeW (p.add t) (a.add t) (b.add t) = edgeW p a b := by
  simp only [edgeW, isLeft_translate]
  simp only [IPt.add]
  have e1 : (a.y + t.y ≤ p.y + t.y ∧ p.y + t.y < b.y + t.y) ↔ (a.y ≤ p.y ∧ p.y < b.y) := by omega
  have e2 : (b.y + t.y ≤ p.y + t.y ∧ p.y + t.y < a.y + t.y) ↔ (b.y ≤ p.y ∧ p.y < a.y) := by omega
  simp only [e1, e2]

theorem chainW_translate (p t : IPt) (l : List IPt) : chainW (p.add t) (l.map (·.add t)) = chainW p l := by
  induction l with
  | nil => simp [chainW]
  | cons a r ih =>
    cases r with
    | nil => simp [chainW]
    | cons b r' =>
      simp only [List.map_cons, chainW] at ih ⊢
      rw [edgeW_translate, ih]

/-- The winding number is invariant under translation of polygon and query point. -/
theorem wn1_translate (p t : IPt) (poly : List IPt) : wn1 (p.add t) (poly.map (·.add t)) = wn1 p poly := by
  cases poly with
  | nil => simp [wn1]
  | cons a r =>
    simp only [wn1, List.map_cons]
    have := chainW_translate p t (a :: r ++ [a])
    simpa using this

theorem isLeft_smul (k : Int) (a b p : IPt) : isLeft (IPt.smul k a) (IPt.smul k b) (IPt.smul k p) = k * k * isLeft a b p := by
  simp only [isLeft, IPt.smul]; ring

theorem edgeW_smul (k : Int) (hk : 0 < k) (p a b : IPt) :
    edgeW (IPt.smul k p) (IPt.smul k a) (IPt.smul k b) = edgeW p a b := by
  simp only [edgeW, isLeft_smul]
  simp only [IPt.smul]
  have kk : 0 < k * k := Int.mul_pos hk hk
  have m1 : ∀ u v : Int, k * u ≤ k * v ↔ u ≤ v := fun u v => by
    constructor
    · intro h; exact le_of_mul_le_mul_left h hk
    · intro h; exact Int.mul_le_mul_of_nonneg_left h (le_of_lt hk)
  have m2 : ∀ u v : Int, k * u < k * v ↔ u < v := fun u v => by
    constructor
    · intro h; exact lt_of_mul_lt_mul_left h (le_of_lt hk)
    · intro h; exact Int.mul_lt_mul_of_pos_left h hk
  have s1 : 0 < k * k * isLeft a b p ↔ 0 < isLeft a b p := by
    constructor
    · intro h; by_contra hc; push Not at hc; nlinarith
    · intro h; exact Int.mul_pos kk h
  have s2 : k * k * isLeft a b p < 0 ↔ isLeft a b p < 0 := by
    constructor
    · intro h; by_contra hc; push Not at hc; nlinarith
    · intro h; nlinarith
  simp only [m1, m2, s1, s2]

theorem chainW_smul (k : Int) (hk : 0 < k) (p : IPt) (l : List IPt) :
    chainW (IPt.smul k p) (l.map (IPt.smul k)) = chainW p l := by
  induction l with
  | nil => simp [chainW]
  | cons a r ih =>
    cases r with
    | nil => simp [chainW]
    | cons b r' =>
      simp only [List.map_cons, chainW] at ih ⊢
      rw [edgeW_smul k hk, ih]

/-- Rescaling all coordinates by a positive integer (bringing dyadic rationals to one common
exponent) does not change the winding number: the integer decoding is faithful. -/
theorem wn1_smul (k : Int) (hk : 0 < k) (p : IPt) (poly : List IPt) :
    wn1 (IPt.smul k p) (poly.map (IPt.smul k)) = wn1 p poly := by
  cases poly with
  | nil => simp [wn1]
  | cons a r =>
    simp only [wn1, List.map_cons]
    have := chainW_smul k hk p (a :: r ++ [a])
    simpa using this

end Canvas.Wn
