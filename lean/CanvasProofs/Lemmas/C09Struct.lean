import CanvasProofs.Lemmas.C09Reverse
/-! C09 helper lemmas: `Reverse` of a structured path is the reversed list of reversed subpaths;
involution. Core Lean only. -/
namespace C09L
open Canvas Canvas.Path Canvas.C09
variable {α : Type}

theorem flat_reverse (s : SubPath α) :
    (SubPath.flat s).reverse = (if s.closed then [.close s.start] else []) ++ (s.segs.reverse ++ [.move s.start]) := by
  unfold SubPath.flat
  cases s.closed <;> simp

theorem reverseF_eq (eq : Pt α → Pt α → Bool) (z : Pt α) (cs : RPath α) :
    reverseF eq z cs = match cs with
      | [] => []
      | c :: r => .move c.endp :: revLoop eq z false c.endp (c :: r) := by
  cases cs <;> rfl

variable (eq : Pt α → Pt α → Bool) (z : Pt α)

theorem revLoop_close (cl : Bool) (first p : Pt α) (rest : RPath α) :
    revLoop eq z cl first (.close p :: rest) =
      (if eq p (headEnd z rest) then [] else [.line (headEnd z rest)]) ++ revLoop eq z true first rest := by
  simp [revLoop]

theorem tail_match (older : RPath α) :
    (match older with
      | [] => []
      | c :: r => Cmd.move c.endp :: revLoop eq z false c.endp (c :: r)) = reverseF eq z older := by
  cases older <;> rfl

/-- the loop over one subpath -/
theorem revLoop_sub (s : SubPath α) (older : RPath α) (hd : s.drawOnly = true) :
    .move s.last :: revLoop eq z false s.last ((SubPath.flat s).reverse ++ older) =
      SubPath.flat (revSub eq s) ++ reverseF eq z older := by
  obtain ⟨start, segs, closed⟩ := s
  simp only [SubPath.drawOnly] at hd
  have hdr : segs.reverse.all Cmd.isDraw = true := by simpa using hd
  rw [flat_reverse]
  cases closed with
  | false =>
    have e1 : (([] : List (Cmd α)) ++ (segs.reverse ++ [Cmd.move start])) ++ older
        = segs.reverse ++ Cmd.move start :: older := by simp
    simp only [SubPath.last, revSub, Bool.false_eq_true, if_false]
    rw [e1, revLoop_open eq z _ start _ older hdr, revChainR_reverse, revLoop_move]
    simp [SubPath.flat]
  | true =>
    have e1 : ([Cmd.close start] ++ (segs.reverse ++ [Cmd.move start])) ++ older
        = Cmd.close start :: (segs.reverse ++ Cmd.move start :: older) := by simp
    have he : headEnd z (segs.reverse ++ .move start :: older) = chainEnd start segs := by
      rw [headEnd_append_move, headEnd_reverse]
    simp only [SubPath.last, revSub, if_true]
    rw [e1, revLoop_close, he, revLoop_closed eq z start start _ older hdr]
    cases segs with
    | nil =>
      rw [revLoop_move]
      simp [closedOut, stillClosed, revClosedBody, SubPath.flat]
    | cons c1 rest =>
      rw [closedOut_reverse, stillClosed_reverse, revLoop_move]
      by_cases hl : isLine c1 = true
      · simp [hl, revClosedBody, SubPath.flat]
      · simp [hl, revClosedBody, SubPath.flat]

theorem flatF_append (xs ys : List (SubPath α)) : flatF (xs ++ ys) = flatF xs ++ flatF ys := by
  simp [flatF]

theorem flatR_snoc (xs : List (SubPath α)) (s : SubPath α) : flatR (xs ++ [s]) = (SubPath.flat s).reverse ++ flatR xs := by
  simp [flatR, flatF]

theorem flat_reverse_head (s : SubPath α) : ∃ c r, (SubPath.flat s).reverse = c :: r ∧ c.endp = s.last := by
  obtain ⟨start, segs, closed⟩ := s
  rw [flat_reverse]
  cases closed with
  | true => exact ⟨_, _, rfl, rfl⟩
  | false =>
    simp only [Bool.false_eq_true, if_false, List.nil_append, SubPath.last]
    induction segs using rev_ind with
    | nil => exact ⟨_, _, rfl, rfl⟩
    | snoc xs y _ => exact ⟨y, xs.reverse ++ [.move start], by simp, by simp⟩

/-- `Reverse` of a structured path: the subpaths in reverse order, each reversed -/
theorem reverseF_flat (subs : List (SubPath α)) (hd : ∀ s ∈ subs, s.drawOnly = true) :
    reverseF eq z (flatR subs) = flatF ((subs.map (revSub eq)).reverse) := by
  induction subs using rev_ind with
  | nil => rfl
  | snoc xs s ih =>
    have hs : s.drawOnly = true := hd s (by simp)
    have hx : ∀ t ∈ xs, t.drawOnly = true := fun t ht => hd t (by simp [ht])
    rw [flatR_snoc]
    obtain ⟨c, r, hcr, hc⟩ := flat_reverse_head s
    have : reverseF eq z ((SubPath.flat s).reverse ++ flatR xs) =
        .move s.last :: revLoop eq z false s.last ((SubPath.flat s).reverse ++ flatR xs) := by
      rw [hcr, ← hc]; rfl
    rw [this, revLoop_sub eq z s _ hs, ih hx]
    simp [flatF]

theorem reverse_flat (subs : List (SubPath α)) (hd : ∀ s ∈ subs, s.drawOnly = true) :
    reverse eq z (flatR subs) = flatR ((subs.map (revSub eq)).reverse) := by
  show (reverseF eq z (flatR subs)).reverse = _
  rw [reverseF_flat eq z subs hd]
  rfl

theorem revSub_drawOnly (s : SubPath α) (h : s.drawOnly = true) : (revSub eq s).drawOnly = true := by
  obtain ⟨start, segs, closed⟩ := s
  simp only [SubPath.drawOnly] at h
  cases closed with
  | false => simpa [revSub, SubPath.drawOnly] using revChain_all_draw start segs h
  | true =>
    simp only [revSub, SubPath.drawOnly, if_true, List.all_append, Bool.and_eq_true]
    constructor
    · by_cases he : eq start (chainEnd start segs) = true <;> simp [he, Cmd.isDraw]
    · cases segs with
      | nil => rfl
      | cons c1 rest =>
        simp only [List.all_cons, Bool.and_eq_true] at h
        by_cases hl : isLine c1 = true
        · simpa [revClosedBody, hl] using revChain_all_draw c1.endp rest h.2
        · have := revChain_all_draw start (c1 :: rest) (by simp [h.1, h.2])
          simpa [revClosedBody, hl] using this

end C09L
