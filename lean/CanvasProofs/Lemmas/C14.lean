import CanvasModel.C14
import Mathlib.Tactic.Ring
import Mathlib.Tactic.Linarith
import Mathlib.Tactic.FieldSimp
import Mathlib.Tactic.Positivity
import Mathlib.Tactic.NormNum
import Mathlib.Tactic.Push
set_option linter.unusedSimpArgs false
set_option linter.unusedVariables false

/-! Helper lemmas for C14: truncation toward zero over ℚ, list facts for the slice model. -/
namespace Canvas.C14

/-! ### truncation -/

theorem floor_le' (q : Rat) : ((q.floor : Int) : Rat) ≤ q := Rat.floor_le q

theorem lt_floor_add_one' (q : Rat) : q < ((q.floor : Int) : Rat) + 1 := by
  have h := Rat.lt_floor_add_one q
  push_cast at h
  exact h

theorem truncQ_of_nonneg {q : Rat} (h : 0 ≤ q) : truncQ q = q.floor := by
  simp [truncQ, h]

theorem truncQ_of_neg {q : Rat} (h : q < 0) : truncQ q = -((-q).floor) := by
  have : ¬ (0 ≤ q) := not_le.mpr h
  simp [truncQ, this]

/-- for q ≥ 0: trunc q ≤ q < trunc q + 1 -/
theorem truncQ_nonneg_bounds {q : Rat} (h : 0 ≤ q) : ((truncQ q : Int) : Rat) ≤ q ∧ q < ((truncQ q : Int) : Rat) + 1 := by
  rw [truncQ_of_nonneg h]
  exact ⟨floor_le' q, lt_floor_add_one' q⟩

/-- for q < 0: trunc q − 1 < q ≤ trunc q -/
theorem truncQ_neg_bounds {q : Rat} (h : q < 0) : q ≤ ((truncQ q : Int) : Rat) ∧ ((truncQ q : Int) : Rat) < q + 1 := by
  rw [truncQ_of_neg h]
  have h1 := floor_le' (-q)
  have h2 := lt_floor_add_one' (-q)
  push_cast
  constructor <;> linarith

theorem truncQ_intCast (i : Int) : truncQ (i : Rat) = i := by
  by_cases h : (0 : Rat) ≤ (i : Rat)
  · rw [truncQ_of_nonneg h]; exact Rat.floor_intCast i
  · have h' : (i : Rat) < 0 := not_le.mp h
    rw [truncQ_of_neg h']
    have : (-(i : Rat)) = ((-i : Int) : Rat) := by push_cast; ring
    rw [this, Rat.floor_intCast]; omega

theorem truncQ_nonneg_of_nonneg {q : Rat} (h : 0 ≤ q) : 0 ≤ truncQ q := by
  rw [truncQ_of_nonneg h]
  exact Rat.le_floor_iff.mpr (by simpa using h)

theorem truncQ_nonpos_of_neg {q : Rat} (h : q < 0) : truncQ q ≤ 0 := by
  rw [truncQ_of_neg h]
  have : 0 ≤ (-q).floor := Rat.le_floor_iff.mpr (by simp; linarith)
  omega

/-! ### slices -/

theorem getD_set_same {α} (m : List (List α)) (a : Nat) (x : List α) (h : a < m.length) :
    (m.set a x).getD a [] = x := by
  simp [List.getD_eq_getElem?_getD, h]

theorem view_getElem? {α} (m : Mem α) (s : Slice) (k : Nat) :
    (view m s)[k]? = if k < s.len then (m.getD s.arr [])[s.off + k]? else none := by
  simp only [view, List.getElem?_take, List.getElem?_drop]

theorem view_store_getElem? {α} (m : Mem α) (s : Slice) (i : Nat) (v : α) (k : Nat)
    (ha : s.arr < m.length) :
    (view (store m s i v) s)[k]? =
      if k < s.len then (if i = k ∧ s.off + k < (m.getD s.arr []).length then some v else (m.getD s.arr [])[s.off + k]?) else none := by
  rw [view_getElem?]
  unfold store
  rw [getD_set_same _ _ _ ha]
  generalize m.getD s.arr [] = A
  by_cases hk : k < s.len
  · simp only [hk, if_true, List.getElem?_set]
    by_cases hik : i = k
    · subst hik
      by_cases hl : s.off + i < A.length
      · simp [hl]
      · have : A[s.off + i]? = none := by simp; omega
        simp [hl, this]
    · have : ¬ (s.off + i = s.off + k) := by omega
      simp [hik, this]
  · simp [hk]

theorem store_length {α} (m : Mem α) (s : Slice) (i : Nat) (v : α) : (store m s i v).length = m.length := by
  simp [store]

theorem store_inner_length {α} (m : Mem α) (s : Slice) (i : Nat) (v : α) (ha : s.arr < m.length) :
    ((store m s i v).getD s.arr []).length = (m.getD s.arr []).length := by
  unfold store
  rw [getD_set_same _ _ _ ha]
  simp

/-- elementwise description of the in-place loop -/
theorem mapInPlaceFrom_getElem? {α} (f : α → α) (s : Slice) :
    ∀ (n i : Nat) (m : Mem α), s.arr < m.length → s.off + s.len ≤ (m.getD s.arr []).length → i + n = s.len →
      ∀ k, (view (mapInPlaceFrom f s n i m) s)[k]? = if i ≤ k then ((view m s)[k]?).map f else (view m s)[k]? := by
  intro n
  induction n with
  | zero =>
    intro i m ha hl hin k
    simp only [mapInPlaceFrom]
    by_cases hik : i ≤ k
    · have : ¬ k < s.len := by omega
      simp [hik, view_getElem?, this]
    · simp [hik]
  | succ n ih =>
    intro i m ha hl hin k
    have hi : i < s.len := by omega
    have hiA : s.off + i < (m.getD s.arr []).length := by omega
    have hvi : (view m s)[i]? = some ((m.getD s.arr [])[s.off + i]'hiA) := by
      rw [view_getElem?]; simp [hi, hiA]
    simp only [mapInPlaceFrom, hvi]
    have ha' : s.arr < (store m s i (f ((m.getD s.arr [])[s.off + i]'hiA))).length := by
      rw [store_length]; exact ha
    have hl' : s.off + s.len ≤ ((store m s i (f ((m.getD s.arr [])[s.off + i]'hiA))).getD s.arr []).length := by
      rw [store_inner_length _ _ _ _ ha]; exact hl
    rw [ih (i + 1) _ ha' hl' (by omega) k]
    rw [view_store_getElem? _ _ _ _ _ ha]
    rw [view_getElem?]
    by_cases hk : k < s.len
    · have hkA : s.off + k < (m.getD s.arr []).length := by omega
      by_cases h1 : i + 1 ≤ k
      · have : ¬ i = k := by omega
        have h2 : i ≤ k := by omega
        simp only [hk, h1, this, h2, if_true, false_and, if_false]
      · by_cases h2 : i = k
        · subst h2
          have hg : (m.getD s.arr [])[s.off + i]? = some ((m.getD s.arr [])[s.off + i]'hiA) := List.getElem?_eq_getElem hiA
          simp only [hk, hkA, h1, if_true, if_false, true_and, and_self, Nat.le_refl, hg, Option.map_some]
        · have h3 : ¬ i ≤ k := by omega
          simp only [hk, h1, h2, h3, if_true, if_false, false_and]
    · simp [hk]

theorem view_length {α} (m : Mem α) (s : Slice) (hl : s.off + s.len ≤ (m.getD s.arr []).length) :
    (view m s).length = s.len := by
  simp only [view, List.length_take, List.length_drop]; omega

/-- the caller's view after the in-place loop is the mapped view -/
theorem mapInPlace_view {α} (f : α → α) (m : Mem α) (s : Slice)
    (ha : s.arr < m.length) (hl : s.off + s.len ≤ (m.getD s.arr []).length) :
    view (mapInPlace f m s) s = (view m s).map f := by
  apply List.ext_getElem?
  intro k
  unfold mapInPlace
  rw [mapInPlaceFrom_getElem? f s s.len 0 m ha hl (by omega) k]
  simp

/-! ### the in-place loop touches only its own array; copies -/

theorem store_getD_other {α} (m : Mem α) (s : Slice) (i : Nat) (v : α) (a : Nat) (h : a ≠ s.arr) :
    (store m s i v).getD a [] = m.getD a [] := by
  unfold store
  simp only [List.getD_eq_getElem?_getD]
  rw [List.getElem?_set_ne (by omega)]

theorem mapInPlaceFrom_getD_other {α} (f : α → α) (s : Slice) (a : Nat) (h : a ≠ s.arr) :
    ∀ (n i : Nat) (m : Mem α), (mapInPlaceFrom f s n i m).getD a [] = m.getD a [] := by
  intro n
  induction n with
  | zero => intro i m; rfl
  | succ n ih =>
    intro i m
    simp only [mapInPlaceFrom]
    split
    · rw [ih, store_getD_other _ _ _ _ _ h]
    · rfl

theorem getD_append_left {α} (m : Mem α) (x : List α) (a : Nat) (h : a < m.length) :
    (m ++ [x]).getD a [] = m.getD a [] := by
  simp [List.getD_eq_getElem?_getD, List.getElem?_append_left h]

theorem getD_append_new {α} (m : Mem α) (x : List α) : (m ++ [x]).getD m.length [] = x := by
  simp [List.getD_eq_getElem?_getD]

/-- the copy shows what the original shows -/
theorem view_copySlice {α} (m : Mem α) (s : Slice) : view (copySlice m s).1 (copySlice m s).2 = view m s := by
  simp only [copySlice]
  unfold view
  simp only [getD_append_new, List.drop_zero]
  apply List.take_of_length_le
  simp only [List.length_take, List.length_drop]
  omega

/-! ### replay -/

theorem replay_local {Px Col} (ds : List (Draw Px Col)) (p : Px) (i1 i2 : Px → Col) (h : i1 p = i2 p) :
    replay ds i1 p = replay ds i2 p := by
  induction ds generalizing i1 i2 with
  | nil => simpa [replay] using h
  | cons e es ihe =>
    simp only [replay]
    apply ihe
    simp only [paintOne, h]

theorem lastCover_foldl {Px Col} (ds : List (Draw Px Col)) (p : Px) (acc : Option Col) (dflt : Col)
    (img : Px → Col) (h : img p = acc.getD dflt) :
    (ds.foldl (fun acc d => if d.covers p then some d.paint else acc) acc).getD dflt = replay ds img p := by
  induction ds generalizing acc img with
  | nil => simp [replay, h]
  | cons d ds ih =>
    simp only [List.foldl_cons, replay]
    apply ih
    simp only [paintOne]
    by_cases hc : d.covers p <;> simp [hc, h]

end Canvas.C14
