import CanvasProofs.Lemmas.C09Struct
/-! C09 helper lemmas: reversing a subpath twice. Core Lean only. -/
namespace C09L
open Canvas Canvas.Path Canvas.C09
variable {α : Type}

theorem revClosedBody_not_line (a : Pt α) (l : List (Cmd α)) (h : firstIsLine l = false) :
    revClosedBody a l = revChain a l := by
  cases l with
  | nil => rfl
  | cons c cs =>
    simp only [firstIsLine] at h
    simp [revClosedBody, h]

theorem lastIsLine_cons (c : Cmd α) (cs : List (Cmd α)) (h : cs ≠ []) : lastIsLine (c :: cs) = lastIsLine cs := by
  cases cs with
  | nil => exact absurd rfl h
  | cons d ds => rfl

theorem revClosedBody_line (a : Pt α) (c1 : Cmd α) (rest : List (Cmd α)) (h : isLine c1 = true) :
    revClosedBody a (c1 :: rest) = revChain c1.endp rest := by
  simp [revClosedBody, h]

theorem revClosedBody_line' (a e : Pt α) (rest : List (Cmd α)) :
    revClosedBody a (.line e :: rest) = revChain e rest := rfl

variable (eq : Pt α → Pt α → Bool)

theorem revSub_closed (start : Pt α) (segs : List (Cmd α)) :
    revSub eq ⟨start, segs, true⟩ =
      ⟨start, (if eq start (chainEnd start segs) then [] else [.line (chainEnd start segs)]) ++
        revClosedBody start segs, true⟩ := by
  simp [revSub]

theorem revSub_closed_pos (start : Pt α) (segs : List (Cmd α)) (h : eq start (chainEnd start segs) = true) :
    revSub eq ⟨start, segs, true⟩ = ⟨start, revClosedBody start segs, true⟩ := by
  rw [revSub_closed]; simp [h]

theorem revSub_closed_neg (start : Pt α) (segs : List (Cmd α)) (h : eq start (chainEnd start segs) = false) :
    revSub eq ⟨start, segs, true⟩ =
      ⟨start, .line (chainEnd start segs) :: revClosedBody start segs, true⟩ := by
  rw [revSub_closed]; simp [h]

theorem revSub_revSub (s : SubPath α) (h : s.RevOK eq) : revSub eq (revSub eq s) = s := by
  obtain ⟨start, segs, closed⟩ := s
  obtain ⟨_, hc⟩ := h
  cases closed with
  | false =>
    simp [revSub, chainEnd_revChain_self, revChain_revChain]
  | true =>
    obtain ⟨hrefl, hfirst, hlast, hzero⟩ := hc rfl
    simp only at hrefl hfirst hlast hzero
    cases segs with
    | nil =>
      rw [revSub_closed_pos eq start [] hrefl]
      simp only [revClosedBody]
      rw [revSub_closed_pos eq start [] hrefl]
      rfl
    | cons c1 rest =>
      have hen : chainEnd start (c1 :: rest) = chainEnd c1.endp rest := rfl
      have hnl_of : eq start (chainEnd start (c1 :: rest)) = true → lastIsLine (c1 :: rest) = false := by
        intro he
        cases hll : lastIsLine (c1 :: rest) with
        | false => rfl
        | true => have := hlast hll; rw [he] at this; exact absurd this (by simp)
      by_cases hl : isLine c1 = true
      · have hc1 : eq start c1.endp = false := hfirst c1 rest rfl hl
        have hline : Cmd.line c1.endp = c1 := (isLine_eq c1 hl).symm
        by_cases he : eq start (chainEnd start (c1 :: rest)) = true
        · -- the closing segment is zero: the last command is not a LineTo, so rest ≠ []
          have hz : chainEnd c1.endp rest = start := hzero he
          have hnl := hnl_of he
          have hrest : rest ≠ [] := by
            intro h0; subst h0; simp [lastIsLine, hl] at hnl
          have hnl' : lastIsLine rest = false := by rw [← lastIsLine_cons c1 rest hrest]; exact hnl
          have hce : chainEnd start (revChain c1.endp rest) = c1.endp := chainEnd_revChain _ _ _ hrest
          have hrr : revChain start (revChain c1.endp rest) = rest := by
            have := revChain_revChain c1.endp rest
            rw [hz] at this; exact this
          rw [revSub_closed_pos eq _ _ he, revClosedBody_line _ _ _ hl,
            revSub_closed_neg eq _ _ (by rw [hce]; exact hc1), hce,
            revClosedBody_not_line _ _ (by rw [firstIsLine_revChain]; exact hnl'), hrr, hline]
        · have he' : eq start (chainEnd start (c1 :: rest)) = false := by simpa using he
          have hce : chainEnd start (Cmd.line (chainEnd start (c1 :: rest)) :: revChain c1.endp rest) = c1.endp := by
            rw [chainEnd_cons, hen]; exact chainEnd_revChain_self _ _
          rw [revSub_closed_neg eq _ _ he', revClosedBody_line _ _ _ hl,
            revSub_closed_neg eq _ _ (by rw [hce]; exact hc1), hce, revClosedBody_line', hen,
            revChain_revChain, hline]
      · have hl' : isLine c1 = false := by simpa using hl
        have hbody : revClosedBody start (c1 :: rest) = revChain start (c1 :: rest) :=
          revClosedBody_not_line _ _ (by simp [firstIsLine, hl'])
        by_cases he : eq start (chainEnd start (c1 :: rest)) = true
        · have hz : chainEnd start (c1 :: rest) = start := hzero he
          have hnl := hnl_of he
          have hce : chainEnd start (revChain start (c1 :: rest)) = start :=
            chainEnd_revChain _ _ _ (by simp)
          have hrr : revChain start (revChain start (c1 :: rest)) = c1 :: rest := by
            have := revChain_revChain start (c1 :: rest)
            rw [hz] at this; exact this
          rw [revSub_closed_pos eq _ _ he, hbody,
            revSub_closed_pos eq _ _ (by rw [hce]; exact hrefl),
            revClosedBody_not_line _ _ (by rw [firstIsLine_revChain]; exact hnl), hrr]
        · have he' : eq start (chainEnd start (c1 :: rest)) = false := by simpa using he
          have hce : chainEnd start (Cmd.line (chainEnd start (c1 :: rest)) :: revChain start (c1 :: rest)) = start := by
            rw [chainEnd_cons]; exact chainEnd_revChain _ _ _ (by simp)
          rw [revSub_closed_neg eq _ _ he', hbody,
            revSub_closed_pos eq _ _ (by rw [hce]; exact hrefl), revClosedBody_line',
            revChain_revChain]

theorem revSub_RevOK_drawOnly (s : SubPath α) (h : s.RevOK eq) : (revSub eq s).drawOnly = true :=
  revSub_drawOnly eq s h.1

/-- `Reverse` is an involution on structured paths whose subpaths satisfy `RevOK` -/
theorem reverse_reverse_flat (z : Pt α) (subs : List (SubPath α)) (h : ∀ s ∈ subs, s.RevOK eq) :
    reverse eq z (reverse eq z (flatR subs)) = flatR subs := by
  rw [reverse_flat eq z subs (fun s hs => (h s hs).1)]
  rw [reverse_flat eq z _ (by
    intro t ht
    simp only [List.mem_reverse, List.mem_map] at ht
    obtain ⟨s, hs, rfl⟩ := ht
    exact revSub_drawOnly eq s (h s hs).1)]
  congr 1
  rw [List.map_reverse, List.reverse_reverse, List.map_map]
  have : ∀ s ∈ subs, (revSub eq ∘ revSub eq) s = s := fun s hs => revSub_revSub eq s (h s hs)
  calc List.map (revSub eq ∘ revSub eq) subs = List.map id subs := List.map_congr_left this
    _ = subs := List.map_id subs

end C09L
