import CanvasProofs.Lemmas.C03Whole
import Mathlib.Tactic.Ring
import Mathlib.Tactic.Linarith
import Mathlib.Tactic.FieldSimp
import Mathlib.Tactic.Positivity
/-! C03 helper lemmas: the step rule of the repaired `flattenQuadraticBezier`, written over the abstract
field with `Env.sqrt` / `Env.hypot`, satisfies the hypotheses of the whole-loop invariant. The Float
instance of the same rule is `C03F.quadStep` in Drv/C03.lean (bit-exact correspondence with the code). -/
set_option linter.unusedSectionVars false
namespace C03L
open Canvas Canvas.C03 GenK
variable {K : Type} [Field K] [LinearOrder K] [IsStrictOrderedRing K] [Env K]

/-- what the theorems assume about the square root and hypot of the environment -/
structure SqrtOK (K : Type) [Field K] [LinearOrder K] [IsStrictOrderedRing K] [Env K] : Prop where
  sqrt_nonneg : ∀ x : K, 0 ≤ Env.sqrt x
  sqrt_sq : ∀ x : K, 0 ≤ x → Env.sqrt x * Env.sqrt x = x
  hypot_nonneg : ∀ x y : K, 0 ≤ Env.hypot x y
  hypot_sq : ∀ x y : K, Env.hypot x y * Env.hypot x y = x * x + y * y

/-- path_util.go:724-748 over K. `eqp` is `Point.Equals`; the float `+Inf` that the code obtains from
`denom/0` is the branch `s2 = 0` (no flatness bound). Returns `none` when the loop is left. -/
def quadStepK (tol : K) (eqp : Pt K → Pt K → Bool) (q0 q1 q2 : Pt K) : Option K :=
  if eqp q0 q1 then none else
    let D := Point.Sub q1 q0
    let denom := Env.hypot D.x D.y
    let s2 := Point.PerpDot D (Point.Sub q2 q0)
    let turn := Point.Dot D (Point.Sub q2 q1)
    let cap := Point.Dot D D / (Point.Dot D D - turn)
    if s2 = 0 then
      (if turn < 0 then some cap else none)
    else
      let t := 2 * Env.sqrt (tol * |denom / s2|)
      let t' := if turn < 0 then min t cap else t
      if 1 ≤ t' then none else some t'

theorem dd_pos_of_ne (q0 q1 : Pt K) (h : q0 ≠ q1) : 0 < dd q0 q1 := by
  rcases lt_or_eq_of_le (dd_nonneg q0 q1) with h' | h'
  · exact h'
  · exfalso; apply h
    simp only [dd, Point.Dot, Point.Sub] at h'
    have hx : (q1.x - q0.x) * (q1.x - q0.x) = 0 := by nlinarith [mul_self_nonneg (q1.x - q0.x), mul_self_nonneg (q1.y - q0.y)]
    have hy : (q1.y - q0.y) * (q1.y - q0.y) = 0 := by nlinarith [mul_self_nonneg (q1.x - q0.x), mul_self_nonneg (q1.y - q0.y)]
    have hx' := mul_self_eq_zero.mp hx
    have hy' := mul_self_eq_zero.mp hy
    cases q0; cases q1; simp only [Pt.mk.injEq] at *
    constructor <;> linarith

theorem stepOK_degenerate (tol : K) (q0 q2 : Pt K) : StepOK tol q0 q0 q2 1 := by
  refine ⟨0, ?_, ?_, ?_⟩ <;> simp [dd, turnDot, s2nom, Point.Dot, Point.Sub, Point.PerpDot]

/-- flatness bound from `t ≤ 2·sqrt(tol·|d/s2|)` -/
theorem flat_of_le (h : SqrtOK K) (tol d s2 t : K) (htol : 0 ≤ tol) (hd : 0 ≤ d) (hs : s2 ≠ 0) (ht0 : 0 ≤ t)
    (ht : t ≤ 2 * Env.sqrt (tol * |d / s2|)) : t * t * |s2| ≤ 4 * tol * d := by
  have habs : 0 < |s2| := abs_pos.mpr hs
  have hx : 0 ≤ tol * |d / s2| := mul_nonneg htol (abs_nonneg _)
  have hsq := h.sqrt_sq _ hx
  have hs0 := h.sqrt_nonneg (tol * |d / s2|)
  have h1 : t * t ≤ 4 * (tol * |d / s2|) := by
    have := mul_le_mul ht ht ht0 (by positivity)
    nlinarith [this, hsq]
  have h2 : |d / s2| * |s2| = d := by
    rw [abs_div, abs_of_nonneg hd, div_mul_cancel₀ _ (ne_of_gt habs)]
  calc t * t * |s2| ≤ 4 * (tol * |d / s2|) * |s2| := mul_le_mul_of_nonneg_right h1 (le_of_lt habs)
    _ = 4 * tol * (|d / s2| * |s2|) := by ring
    _ = 4 * tol * d := by rw [h2]

theorem quadStepK_ok (h : SqrtOK K) (tol : K) (htol : 0 < tol) (eqp : Pt K → Pt K → Bool)
    (heq : ∀ a b, eqp a b = true → a = b) (q0 q1 q2 : Pt K) :
    (∀ t, quadStepK tol eqp q0 q1 q2 = some t → 0 < t ∧ t < 1 ∧ StepOK tol q0 q1 q2 t)
      ∧ (quadStepK tol eqp q0 q1 q2 = none → StepOK tol q0 q1 q2 1) := by
  unfold quadStepK
  by_cases he : eqp q0 q1 = true
  · simp only [he, if_true]
    refine ⟨(by intro t ht; cases ht), fun _ => ?_⟩
    rw [← heq _ _ he]; exact stepOK_degenerate tol q0 q2
  · have hne : q0 ≠ q1 ∨ q0 = q1 := (em (q0 = q1)).symm
    simp only [he, Bool.false_eq_true, if_false]
    -- names for the quantities of the code
    set DD := Point.Dot (Point.Sub q1 q0) (Point.Sub q1 q0) with hDD
    set turn := Point.Dot (Point.Sub q1 q0) (Point.Sub q2 q1) with hturn
    set s2 := Point.PerpDot (Point.Sub q1 q0) (Point.Sub q2 q0) with hs2
    set d := Env.hypot (Point.Sub q1 q0).x (Point.Sub q1 q0).y with hd
    have hd0 : 0 ≤ d := h.hypot_nonneg _ _
    have hd2 : d * d = dd q0 q1 := by rw [hd, h.hypot_sq]; simp [dd, Point.Dot]
    have hDDdd : DD = dd q0 q1 := rfl
    have hturnT : turn = turnDot q0 q1 q2 := rfl
    have hs2S : s2 = s2nom q0 q1 q2 := rfl
    have hDDnn : 0 ≤ DD := by rw [hDDdd]; exact dd_nonneg q0 q1
    rcases hne with hne | hee
    swap
    · -- q0 = q1 although eqp says no: still degenerate, everything is zero
      subst hee
      have z1 : DD = 0 := by simp [hDD, Point.Dot, Point.Sub]
      have z2 : turn = 0 := by simp [hturn, Point.Dot, Point.Sub]
      have z3 : s2 = 0 := by simp [hs2, Point.PerpDot, Point.Sub]
      simp only [z3, if_true, z2, lt_self_iff_false, if_false]
      exact ⟨(by intro t ht; cases ht), fun _ => stepOK_degenerate tol q0 q2⟩
    have hDDpos : 0 < DD := by rw [hDDdd]; exact dd_pos_of_ne q0 q1 hne
    have hdpos : 0 < d := by
      rcases lt_or_eq_of_le hd0 with h' | h'
      · exact h'
      · exfalso
        have hz0 : dd q0 q1 = 0 := by rw [← hd2, ← h']; ring
        have := hDDpos; rw [hDDdd, hz0] at this; exact lt_irrefl _ this
    have capfacts : turn < 0 → 0 < DD / (DD - turn) ∧ DD / (DD - turn) < 1
        ∧ DD / (DD - turn) * (dd q0 q1 - turnDot q0 q1 q2) ≤ dd q0 q1 := by
      intro ht
      have hpos : 0 < DD - turn := by linarith
      refine ⟨div_pos hDDpos hpos, ?_, ?_⟩
      · rw [div_lt_one hpos]; linarith
      · rw [← hDDdd, ← hturnT, div_mul_cancel₀ _ (ne_of_gt hpos)]
    by_cases hz : s2 = 0
    · simp only [hz, if_true]
      by_cases ht : turn < 0
      · simp only [ht, if_true]
        obtain ⟨c0, c1, c2⟩ := capfacts ht
        refine ⟨?_, by intro hh; cases hh⟩
        intro t hsome
        simp only [Option.some.injEq] at hsome
        subst hsome
        refine ⟨c0, c1, d, hd2, ?_, c2⟩
        rw [← hs2S, hz]; simp; positivity
      · simp only [ht, if_false]
        refine ⟨(by intro t hh; cases hh), fun _ => ⟨d, hd2, ?_, ?_⟩⟩
        · rw [← hs2S, hz]; simp; positivity
        · exact no_turn_gives_hcap q0 q1 q2 1 (by norm_num) (le_refl _) (by rw [← hturnT]; linarith)
    · simp only [hz, if_false]
      set tc := 2 * Env.sqrt (tol * |d / s2|) with htc
      have hx : 0 < tol * |d / s2| := mul_pos htol (abs_pos.mpr (div_ne_zero (ne_of_gt hdpos) hz))
      have htcpos : 0 < tc := by
        have h0 := h.sqrt_nonneg (tol * |d / s2|)
        have hsq := h.sqrt_sq _ (le_of_lt hx)
        rcases lt_or_eq_of_le h0 with h' | h'
        · rw [htc]; linarith
        · exfalso
          have hx0 : tol * |d / s2| = 0 := by rw [← hsq, ← h']; ring
          linarith
      by_cases ht : turn < 0
      · simp only [ht, if_true]
        obtain ⟨c0, c1, c2⟩ := capfacts ht
        have hmin1 : min tc (DD / (DD - turn)) < 1 := lt_of_le_of_lt (min_le_right _ _) c1
        have hnot : ¬ (1 ≤ min tc (DD / (DD - turn))) := not_le.mpr hmin1
        simp only [hnot, if_false]
        refine ⟨?_, by intro hh; cases hh⟩
        intro t hsome
        simp only [Option.some.injEq] at hsome
        subst hsome
        have hpos : 0 < min tc (DD / (DD - turn)) := lt_min htcpos c0
        refine ⟨hpos, hmin1, d, hd2, ?_, ?_⟩
        · rw [← hs2S]; exact flat_of_le h tol d s2 _ (le_of_lt htol) hd0 hz (le_of_lt hpos) (min_le_left _ _)
        · exact cap_gives_hcap q0 q1 q2 _ (by rw [← hturnT]; exact ht) (by rw [← hDDdd, ← hturnT]; exact min_le_right _ _)
      · simp only [ht, if_false]
        have hturn0 : 0 ≤ turnDot q0 q1 q2 := by rw [← hturnT]; linarith
        by_cases h1 : 1 ≤ tc
        · simp only [h1, if_true]
          refine ⟨(by intro t hh; cases hh), fun _ => ⟨d, hd2, ?_, ?_⟩⟩
          · rw [← hs2S]; exact flat_of_le h tol d s2 1 (le_of_lt htol) hd0 hz (by norm_num) h1
          · exact no_turn_gives_hcap q0 q1 q2 1 (by norm_num) (le_refl _) hturn0
        · simp only [h1, if_false]
          refine ⟨?_, by intro hh; cases hh⟩
          intro t hsome
          simp only [Option.some.injEq] at hsome
          subst hsome
          have hlt : tc < 1 := not_le.mp h1
          refine ⟨htcpos, hlt, d, hd2, ?_, ?_⟩
          · rw [← hs2S]; exact flat_of_le h tol d s2 tc (le_of_lt htol) hd0 hz (le_of_lt htcpos) (le_refl _)
          · exact no_turn_gives_hcap q0 q1 q2 tc (le_of_lt htcpos) (le_of_lt hlt) hturn0

end C03L
