import CanvasModel.C16
/-! Lemmas for C16 (c): reorderSpans only moves spans (levels, widths and logical order are kept). -/
namespace Canvas.C16
variable {α : Type} [Add α] [Sub α] [LT α] [∀ a b : α, Decidable (a < b)]

theorem takeWhile_append_drop {β : Type} (p : β → Bool) (l : List β) :
    l.takeWhile p ++ l.drop (l.takeWhile p).length = l := by
  induction l with
  | nil => simp
  | cons a r ih => simp only [List.takeWhile]; split <;> simp [ih]

def lw (s : Span α) : Nat × α := (s.level, s.w)

theorem map_mir_lw (lo hi : α) (l : List (Span α)) : (l.map (mir lo hi)).map lw = l.map lw := by
  induction l with
  | nil => rfl
  | cons s r ih => simp [mir, lw, ih]

theorem mirror_lw (l : List (Span α)) : (mirror l).map lw = l.map lw := by
  unfold mirror
  split
  · rfl
  · rfl
  · exact map_mir_lw _ _ _

theorem fixGo_lw : ∀ (fuel prev : Nat) (l : List (Span α)), (fixGo fuel prev l).map lw = l.map lw := by
  intro fuel
  induction fuel with
  | zero => intro prev l; simp [fixGo]
  | succ fuel ih =>
    intro prev l
    cases l with
    | nil => simp [fixGo]
    | cons s rest =>
      simp only [fixGo]
      split
      · have hsplit := takeWhile_append_drop (fun t : Span α => decide (prev + 1 ≤ t.level)) rest
        generalize List.takeWhile (fun t : Span α => decide (prev + 1 ≤ t.level)) rest = inRun at hsplit ⊢
        generalize List.drop inRun.length rest = tail at hsplit ⊢
        subst hsplit
        rw [List.map_append, ih, ih, mirror_lw]
        simp
      · simp [ih]

theorem reorder_lw (l : List (Span α)) : (reorder l).map lw = l.map lw := fixGo_lw _ _ _

end Canvas.C16
