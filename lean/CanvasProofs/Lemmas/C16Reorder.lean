import CanvasModel.C16
/-! Lemmas for C16 (c): reorderSpans only moves spans (levels, widths and logical order are kept). -/
namespace Canvas.C16
variable {α : Type} [Add α]

theorem takeWhile_append_drop {β : Type} (p : β → Bool) (l : List β) :
    l.takeWhile p ++ l.drop (l.takeWhile p).length = l := by
  induction l with
  | nil => simp
  | cons a r ih => simp only [List.takeWhile]; split <;> simp [ih]

def lw (s : Span α) : Nat × α := (s.level, s.w)

theorem relayRev_lw (l : List (Span α)) : ∀ x : α, (relayRev x l).map lw = l.map lw := by
  induction l with
  | nil => intro x; rfl
  | cons s r ih => intro x; simp [relayRev, ih, lw]

theorem relayout_lw (run : List (Span α)) (x0 : α) : (relayout run x0).map lw = run.map lw := by
  unfold relayout
  rw [List.map_reverse, relayRev_lw, List.map_reverse, List.reverse_reverse]

theorem reorderGo_lw : ∀ (fuel prev : Nat) (l : List (Span α)), (reorderGo fuel prev l).map lw = l.map lw := by
  intro fuel
  induction fuel with
  | zero => intro prev l; simp [reorderGo]
  | succ fuel ih =>
    intro prev l
    cases l with
    | nil => simp [reorderGo]
    | cons s rest =>
      simp only [reorderGo]
      split
      · have hsplit : (s :: List.takeWhile (fun t => decide (s.level ≤ t.level)) rest)
            ++ List.drop (List.takeWhile (fun t => decide (s.level ≤ t.level)) rest).length rest = s :: rest := by
          have := takeWhile_append_drop (fun t : Span α => decide (s.level ≤ t.level)) rest
          simp [this]
        split
        · rename_i heq
          have := congrArg (List.map lw) heq
          rw [List.map_append] at this
          split at this
          · rw [relayout_lw, ← List.map_append, hsplit] at this; simpa using this.symm
          · rw [← List.map_append, hsplit] at this; simpa using this.symm
        · rename_i s' rest' heq
          have := congrArg (List.map lw) heq
          rw [List.map_append] at this
          simp only [List.map_cons, ih]
          split at this
          · rw [relayout_lw, ← List.map_append, hsplit] at this; simpa using this.symm
          · rw [← List.map_append, hsplit] at this; simpa using this.symm
      · simp [ih]

theorem reorder_lw (l : List (Span α)) : (reorder l).map lw = l.map lw := reorderGo_lw _ _ _

end Canvas.C16

namespace Canvas.C16
theorem mem_takeWhile_level (lv : Nat) (l : List (Span Int)) :
    ∀ t ∈ l.takeWhile (fun t => decide (lv ≤ t.level)), lv ≤ t.level := by
  induction l with
  | nil => intro t h; simp at h
  | cons a r ih =>
    intro t h
    simp only [List.takeWhile] at h
    split at h
    · rename_i ha
      simp only [List.mem_cons] at h
      rcases h with rfl | h
      · simpa using ha
      · exact ih t h
    · simp at h
end Canvas.C16
