import CanvasModel.C04
import CanvasGen.CoreK
import CanvasGen.StrokeK
import Mathlib.Tactic.Ring
import Mathlib.Tactic.Linarith
import Mathlib.Tactic.FieldSimp
import Mathlib.Tactic.Positivity
import Mathlib.Tactic.LinearCombination
/-! C04 helper lemmas: the kernels of `CanvasModel.C04` over an ordered field `K`.
`hypot` and `sqrt` are the abstract `Env` functions; the theorems assume only
`hypot x y ≥ 0`, `hypot x y ² = x² + y²` and `sqrt x ² = x`, `sqrt x ≥ 0` for `x ≥ 0` (as hypotheses). -/
set_option linter.unusedSectionVars false
set_option linter.unusedVariables false
namespace C04L
open Canvas Canvas.C04
variable {K : Type} [Field K] [LinearOrder K] [IsStrictOrderedRing K] [Env K]

instance opsK : Ops K where
  hypot := Env.hypot
  sqrt := Env.sqrt
  equal := GenK.Equal
  isZero := fun d => decide (d = 0)
  minLimit := 1001 / 1000

/-- what is assumed of `math.Hypot` -/
def HypotSpec (K : Type) [Field K] [LinearOrder K] [Env K] : Prop :=
  ∀ x y : K, 0 ≤ (Env.hypot x y : K) ∧ (Env.hypot x y : K) ^ 2 = x ^ 2 + y ^ 2

/-- what is assumed of `math.Sqrt` -/
def SqrtSpec (K : Type) [Field K] [LinearOrder K] [Env K] : Prop :=
  ∀ x : K, 0 ≤ x → 0 ≤ (Env.sqrt x : K) ∧ (Env.sqrt x : K) ^ 2 = x

/-- squared distance -/
def dist2 (p q : Pt K) : K := (p.x - q.x) ^ 2 + (p.y - q.y) ^ 2

/-! ## the offset normal -/

theorem normTo_eq_generated (p : Pt K) (len : K) : normTo p len = GenK.Point.Norm p len := by
  simp only [normTo, GenK.Point.Norm, GenK.Point.Length, Ops.hypot, Ops.isZero]
  by_cases h : (Env.hypot p.x p.y : K) = 0 <;> simp [h]

theorem normTo_of_ne (p : Pt K) (len : K) (h : (Env.hypot p.x p.y : K) ≠ 0) :
    normTo p len = ⟨p.x / Env.hypot p.x p.y * len, p.y / Env.hypot p.x p.y * len⟩ := by
  rw [normTo_eq_generated]
  simp [GenK.Point.Norm, GenK.Point.Length, h]

theorem offsetNormal_eq_generated (a b : Pt K) (hw : K) :
    offsetNormal a b hw = GenK.Point.Norm (GenK.Point.Rot90CW (GenK.Point.Sub b a)) hw := by
  rw [offsetNormal, normTo_eq_generated]; rfl

theorem hypot_pos (hH : HypotSpec K) (x y : K) (h : x ≠ 0 ∨ y ≠ 0) : 0 < (Env.hypot x y : K) := by
  obtain ⟨h0, h2⟩ := hH x y
  rcases lt_or_eq_of_le h0 with hlt | heq
  · exact hlt
  · exfalso
    rw [← heq] at h2
    have hx := sq_nonneg x
    have hy := sq_nonneg y
    have : x ^ 2 + y ^ 2 = 0 := by rw [← h2]; ring
    have hx0 : x ^ 2 = 0 := by linarith
    have hy0 : y ^ 2 = 0 := by linarith
    rcases h with h | h
    · exact h (pow_eq_zero_iff (two_ne_zero) |>.mp hx0)
    · exact h (pow_eq_zero_iff (two_ne_zero) |>.mp hy0)

theorem offsetNormal_formula (hH : HypotSpec K) (a b : Pt K) (hw : K) (hab : a.x ≠ b.x ∨ a.y ≠ b.y) :
    offsetNormal a b hw =
      ⟨(b.y - a.y) / Env.hypot (b.y - a.y) (-(b.x - a.x)) * hw,
       -(b.x - a.x) / Env.hypot (b.y - a.y) (-(b.x - a.x)) * hw⟩ := by
  have hd : (Env.hypot (b.y - a.y) (-(b.x - a.x)) : K) ≠ 0 := by
    apply ne_of_gt
    apply hypot_pos hH
    rcases hab with h | h
    · right; intro h0; apply h; linarith
    · left; intro h0; apply h; linarith
  have hd' : (Env.hypot (rotCW (psub b a)).x (rotCW (psub b a)).y : K) ≠ 0 := hd
  unfold offsetNormal
  rw [normTo_of_ne _ _ hd']
  rfl

theorem offsetNormal_sq (hH : HypotSpec K) (a b : Pt K) (hw : K) (hab : a.x ≠ b.x ∨ a.y ≠ b.y) :
    dot (offsetNormal a b hw) (offsetNormal a b hw) = hw * hw := by
  have hpos : 0 < (Env.hypot (b.y - a.y) (-(b.x - a.x)) : K) := by
    apply hypot_pos hH
    rcases hab with h | h
    · right; intro h0; apply h; linarith
    · left; intro h0; apply h; linarith
  obtain ⟨_, h2⟩ := hH (b.y - a.y) (-(b.x - a.x))
  rw [offsetNormal_formula hH a b hw hab]
  simp only [dot]
  generalize hD : (Env.hypot (b.y - a.y) (-(b.x - a.x)) : K) = D at *
  have hD0 : D ≠ 0 := ne_of_gt hpos
  field_simp
  nlinarith [h2]

theorem offsetNormal_perp (hH : HypotSpec K) (a b : Pt K) (hw : K) (hab : a.x ≠ b.x ∨ a.y ≠ b.y) :
    dot (offsetNormal a b hw) (psub b a) = 0 := by
  rw [offsetNormal_formula hH a b hw hab]
  simp only [dot, psub]
  ring

/-- the normal points to the right of the direction of travel: `(b − a) × n = −hw·|b − a|` -/
theorem offsetNormal_right (hH : HypotSpec K) (a b : Pt K) (hw : K) (hab : a.x ≠ b.x ∨ a.y ≠ b.y) :
    (b.x - a.x) * (offsetNormal a b hw).y - (b.y - a.y) * (offsetNormal a b hw).x
      = -(hw * Env.hypot (b.y - a.y) (-(b.x - a.x))) := by
  have hpos : 0 < (Env.hypot (b.y - a.y) (-(b.x - a.x)) : K) := by
    apply hypot_pos hH
    rcases hab with h | h
    · right; intro h0; apply h; linarith
    · left; intro h0; apply h; linarith
  obtain ⟨_, h2⟩ := hH (b.y - a.y) (-(b.x - a.x))
  rw [offsetNormal_formula hH a b hw hab]
  simp only
  generalize hD : (Env.hypot (b.y - a.y) (-(b.x - a.x)) : K) = D at *
  have hD0 : D ≠ 0 := ne_of_gt hpos
  field_simp
  linear_combination hw * h2

/-- `rotCCW n` is `hw/|b−a|` times the direction of travel (what the square cap extends along) -/
theorem rotCCW_offsetNormal (hH : HypotSpec K) (a b : Pt K) (hw : K) (hab : a.x ≠ b.x ∨ a.y ≠ b.y) :
    rotCCW (offsetNormal a b hw)
      = smul (hw / Env.hypot (b.y - a.y) (-(b.x - a.x))) (psub b a) := by
  rw [offsetNormal_formula hH a b hw hab]
  simp only [rotCCW, smul, psub]
  congr 1 <;> ring

/-! ## miter -/

theorem dot_comm' (p q : Pt K) : dot p q = dot q p := by simp only [dot]; ring

/-- the tip minus the pivot -/
theorem miterTip_sub (hw : K) (pivot n0 n1 : Pt K) :
    psub (miterTip hw pivot n0 n1) pivot
      = smul (if cwTurn n0 n1 then -(hw * hw / miterDen hw n0 n1) else hw * hw / miterDen hw n0 n1) (padd n0 n1) := by
  simp only [miterTip, psub, padd, smul]
  congr 1 <;> ring

theorem miter_tip_on_lines_left (hw : K) (pivot n0 n1 : Pt K)
    (h0 : dot n0 n0 = hw * hw) (h1 : dot n1 n1 = hw * hw) (hden : miterDen hw n0 n1 ≠ 0)
    (hcw : cwTurn n0 n1 = false) :
    dot (psub (miterTip hw pivot n0 n1) (padd pivot n0)) n0 = 0 ∧
    dot (psub (miterTip hw pivot n0 n1) (padd pivot n1)) n1 = 0 := by
  have hs : hw * hw / miterDen hw n0 n1 * miterDen hw n0 n1 = hw * hw := div_mul_cancel₀ _ hden
  have hD : miterDen hw n0 n1 = hw * hw + (n0.x * n1.x + n0.y * n1.y) := rfl
  simp only [miterTip, hcw, Bool.false_eq_true, if_false]
  generalize hw * hw / miterDen hw n0 n1 = s at *
  generalize miterDen hw n0 n1 = D at *
  simp only [dot, psub, padd, smul] at *
  constructor
  · linear_combination (s - 1) * h0 + hs - s * hD
  · linear_combination (s - 1) * h1 + hs - s * hD

theorem miter_tip_on_lines_right (hw : K) (pivot n0 n1 : Pt K)
    (h0 : dot n0 n0 = hw * hw) (h1 : dot n1 n1 = hw * hw) (hden : miterDen hw n0 n1 ≠ 0)
    (hcw : cwTurn n0 n1 = true) :
    dot (psub (miterTip hw pivot n0 n1) (psub pivot n0)) n0 = 0 ∧
    dot (psub (miterTip hw pivot n0 n1) (psub pivot n1)) n1 = 0 := by
  have hs : hw * hw / miterDen hw n0 n1 * miterDen hw n0 n1 = hw * hw := div_mul_cancel₀ _ hden
  have hD : miterDen hw n0 n1 = hw * hw + (n0.x * n1.x + n0.y * n1.y) := rfl
  simp only [miterTip, hcw, if_true]
  generalize hw * hw / miterDen hw n0 n1 = s at *
  generalize miterDen hw n0 n1 = D at *
  simp only [dot, psub, padd, smul] at *
  constructor
  · linear_combination (1 - s) * h0 - hs + s * hD
  · linear_combination (1 - s) * h1 - hs + s * hD

/-- squared distance of the miter tip from the vertex: `2 hw⁴ / (hw² + n0·n1)` -/
theorem miter_tip_dist2 (hw : K) (pivot n0 n1 : Pt K)
    (h0 : dot n0 n0 = hw * hw) (h1 : dot n1 n1 = hw * hw) (hden : miterDen hw n0 n1 ≠ 0) :
    dist2 (miterTip hw pivot n0 n1) pivot = 2 * (hw * hw) * (hw * hw) / miterDen hw n0 n1 := by
  have hs : hw * hw / miterDen hw n0 n1 * miterDen hw n0 n1 = hw * hw := div_mul_cancel₀ _ hden
  have hD : miterDen hw n0 n1 = hw * hw + (n0.x * n1.x + n0.y * n1.y) := rfl
  rw [mul_div_assoc]
  simp only [miterTip, dist2]
  generalize hw * hw / miterDen hw n0 n1 = s at *
  generalize miterDen hw n0 n1 = D at *
  simp only [dot, padd, smul] at *
  by_cases hcw : cwTurn n0 n1 = true
  · simp only [hcw, if_true]
    linear_combination s ^ 2 * h0 + s ^ 2 * h1 + 2 * s * hs - 2 * s ^ 2 * hD
  · simp only [hcw, Bool.false_eq_true, if_false]
    linear_combination s ^ 2 * h0 + s ^ 2 * h1 + 2 * s * hs - 2 * s ^ 2 * hD

end C04L
