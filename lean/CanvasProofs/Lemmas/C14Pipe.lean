import CanvasModel.C14
import CanvasProofs.Lemmas.C14
import CanvasGen.CoreK
import Mathlib.Tactic.Ring
import Mathlib.Tactic.Linarith
import Mathlib.Tactic.FieldSimp
set_option linter.unusedSimpArgs false
set_option linter.unusedVariables false
set_option linter.unusedSectionVars false

/-! C14: the canvas → pixel pipeline over the L1 translations of Matrix.Mul / Matrix.Dot (GenK),
truncation monotonicity, and the integer compositing model. -/
namespace Canvas.C14
open Canvas GenK

section Pipeline
variable {K : Type} [Field K] [LinearOrder K] [IsStrictOrderedRing K] [Env K]

/-! local copies of the four matrix laws the pipeline theorems need (C07 proves the full algebra; they
are repeated here so that C14 does not depend on another property's proof file) -/

def identK : Mat K := Mat.mk 1 0 0 0 1 0

theorem dot_mulK (m q : Mat K) (p : Pt K) : Matrix.Dot (Matrix.Mul m q) p = Matrix.Dot m (Matrix.Dot q p) := by
  simp only [Matrix.Mul, Matrix.Dot]; congr 1 <;> ring

theorem det_mulK (m q : Mat K) : Matrix.Det (Matrix.Mul m q) = Matrix.Det m * Matrix.Det q := by
  simp only [Matrix.Mul, Matrix.Det]; ring

theorem inv_mulK (m : Mat K) (h : Matrix.Det m ≠ 0) : Matrix.Mul (Matrix.Inv m) m = identK := by
  cases m with | mk a b c d e f =>
  simp only [Matrix.Det] at h
  simp only [Matrix.Mul, Matrix.Inv, Matrix.Det, identK]
  generalize hD : a * e - b * d = D at h ⊢
  congr 1 <;> field_simp <;> rw [← hD] <;> ring

theorem inv_dotK (m : Mat K) (p : Pt K) (h : Matrix.Det m ≠ 0) : Matrix.Dot (Matrix.Inv m) (Matrix.Dot m p) = p := by
  rw [← dot_mulK, inv_mulK m h]
  cases p; simp [Matrix.Dot, identK]

/-- ToScanxScanner's pixel map over a field: (x·dpmm, dy − y·dpmm) -/
def pxK (d x : K) : K := x * d
def pyK (dy d y : K) : K := dy - y * d

/-- the same map as a matrix -/
def pixelAff (d h : K) : Mat K := ⟨d, 0, 0, 0, -d, h⟩

theorem pixelAff_dot (d h : K) (p : Pt K) : Matrix.Dot (pixelAff d h) p = ⟨pxK d p.x, pyK h d p.y⟩ := by
  simp only [Matrix.Dot, pixelAff, pxK, pyK]; congr 1 <;> ring

theorem pixelAff_det (d h : K) : Matrix.Det (pixelAff d h) = -(d * d) := by
  simp only [Matrix.Det, pixelAff]; ring

end Pipeline

/-! ### truncation is monotone on the non-negative side -/

theorem truncQ_mono_nonneg {a b : Rat} (ha : 0 ≤ a) (hab : a ≤ b) : truncQ a ≤ truncQ b := by
  rw [truncQ_of_nonneg ha, truncQ_of_nonneg (le_trans ha hab)]
  exact Rat.floor_monotone hab

theorem truncQ_int_add_half (n : Int) (hn : 0 ≤ n) : truncQ ((n : Rat) + 1 / 2) = n := by
  have h0 : (0 : Rat) ≤ (n : Rat) + 1 / 2 := by
    have : (0 : Rat) ≤ (n : Rat) := by exact_mod_cast hn
    linarith
  rw [truncQ_of_nonneg h0]
  have hle : ((n : Int) : Rat) ≤ (n : Rat) + 1 / 2 := by linarith
  have hlt : (n : Rat) + 1 / 2 < ((n + 1 : Int) : Rat) := by push_cast; linarith
  have a := Rat.le_floor_iff.mpr hle
  have b := Rat.floor_lt_iff.mpr hlt
  omega

/-! ### compositing: bounds of the integer blend -/

theorem spanBlendNum_lt (c ca ma d : Nat) (hc : c ≤ ca) (hca : ca ≤ 65535) (hma : ma ≤ 65535) (hd : d ≤ 255) :
    spanBlendNum c ca ma d < 65535 * 65536 := by
  unfold spanBlendNum m16
  have hx : c * ma ≤ ca * ma := Nat.mul_le_mul_right ma hc
  have ht : ca * ma ≤ 65535 * 65535 := Nat.mul_le_mul hca hma
  generalize ca * ma = t at hx ht
  generalize c * ma = x at hx
  have h1 : d * ((65535 - t / 65535) * 257) ≤ 255 * ((65535 - t / 65535) * 257) := Nat.mul_le_mul_right _ hd
  generalize d * ((65535 - t / 65535) * 257) = y at h1
  omega

end Canvas.C14
