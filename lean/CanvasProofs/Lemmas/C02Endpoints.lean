import CanvasModel.C02.Endpoints
import CanvasProofs.Lemmas.C02Column
/-! Operand preparation: flags of the sweep segments of a subpath, and the balance of a closed
contour across any vertical line (which makes the region above the top of every real column
unfilled). Core Lean only. -/
namespace Canvas.C02
open Canvas.C01 Canvas.Wn

theorem epChain_open (o : Bool) (seg : Nat) (l : List IPt) : ∀ e ∈ epChain o seg l, e.flags.open_ = o ∧ e.flags.clipping = false := by
  induction l generalizing seg with
  | nil => intro e he; simp [epChain] at he
  | cons a rest ih =>
    cases rest with
    | nil => intro e he; simp [epChain] at he
    | cons b rest' =>
      intro e he
      simp only [epChain, List.mem_append] at he
      rcases he with he | he
      · by_cases hab : a = b
        · simp [hab] at he
        · simp only [hab, if_false, List.mem_singleton] at he
          subst he; exact ⟨rfl, rfl⟩
      · exact ih (seg + 1) e he

/-- side of an abscissa relative to the line x = c -/
def sideX (c x : Int) : Int := if c < x then 1 else 0

/-- side of a vertex relative to the line x = c -/
def side (c : Int) (v : IPt) : Int := sideX c v.x

theorem crossX_side (ax bx c : Int) (ha : ax ≠ c) (hb : bx ≠ c) :
    crossX ax bx c = sideX c bx - sideX c ax := by
  unfold crossX sideX
  by_cases h1 : c < ax <;> by_cases h2 : c < bx
  · have h3 : ¬ ax < c := by omega
    have h4 : ¬ bx < c := by omega
    simp [h1, h2, h3, h4]
  · have h3 : ¬ ax < c := by omega
    have h4 : bx < c := by omega
    simp [h1, h2, h3, h4]
  · have h3 : ax < c := by omega
    have h4 : ¬ bx < c := by omega
    simp [h1, h2, h3, h4]
  · have h3 : ax < c := by omega
    have h4 : bx < c := by omega
    simp [h1, h2, h3, h4]

theorem crossDir_side (c : Int) (o : Bool) (seg : Nat) (a b : IPt) (ha : a.x ≠ c) (hb : b.x ≠ c) :
    crossDir c (mkEP o seg a b) = side c b - side c a := crossX_side a.x b.x c ha hb

theorem crossSum_append (c : Int) (l1 l2 : List EP) : crossSum c (l1 ++ l2) = crossSum c l1 + crossSum c l2 := by
  induction l1 with
  | nil => simp [crossSum]
  | cons e l ih => simp only [List.cons_append, crossSum, ih]; omega

theorem crossSum_step (c : Int) (o : Bool) (seg : Nat) (a b : IPt) (ha : a.x ≠ c) (hb : b.x ≠ c) :
    crossSum c (if a = b then [] else [mkEP o seg a b]) = side c b - side c a := by
  by_cases hab : a = b
  · subst hab; simp [crossSum]
  · simp only [hab, if_false, crossSum, crossDir_side c o seg a b ha hb]; omega

/-- the crossings of a vertex chain telescope to the sides of its two ends -/
theorem crossSum_chain (c : Int) (o : Bool) (seg : Nat) (a : IPt) (l : List IPt) (z : IPt)
    (h : ∀ v ∈ a :: (l ++ [z]), v.x ≠ c) :
    crossSum c (epChain o seg (a :: (l ++ [z]))) = side c z - side c a := by
  induction l generalizing a seg with
  | nil =>
    have ha := h a List.mem_cons_self
    have hz := h z (by simp)
    simp only [List.nil_append, epChain, crossSum_append, crossSum_step c o (seg + 1) a z ha hz]
    simp [crossSum]
  | cons b rest ih =>
    have hb : ∀ v ∈ b :: (rest ++ [z]), v.x ≠ c := fun v hv => h v (List.mem_cons_of_mem _ hv)
    have := ih (seg + 1) b hb
    have ha := h a List.mem_cons_self
    have hbx := h b (by simp)
    simp only [List.cons_append, epChain, crossSum_append, this, crossSum_step c o (seg + 1) a b ha hbx]
    omega

/-- a closed contour crosses every vertical line (through no vertex) as often left-to-right as
right-to-left -/
theorem crossSum_closed (c : Int) (seg : Nat) (verts : List IPt) (h : ∀ v ∈ verts, v.x ≠ c) :
    crossSum c (addPathEndpoints seg verts true) = 0 := by
  cases verts with
  | nil => simp [addPathEndpoints, epVerts, epChain, crossSum]
  | cons v0 rest =>
    simp only [addPathEndpoints, epVerts, if_true]
    have hall : ∀ v ∈ v0 :: (rest ++ [v0]), v.x ≠ c := by
      intro v hv
      rcases List.mem_cons.mp hv with rfl | hv
      · exact h _ List.mem_cons_self
      · rcases List.mem_append.mp hv with hv | hv
        · exact h v (List.mem_cons_of_mem _ hv)
        · rw [List.mem_singleton.mp hv]; exact h _ List.mem_cons_self
    have h1 := crossSum_chain c (!true) seg v0 rest v0 hall
    simp only [List.cons_append]
    rw [h1]; omega

/-- the flags say what `crossDir` says: a segment that crosses the line is not vertical, and it
crosses left-to-right iff `increasing`; its self winding in a column (closed subpath) is its
crossing direction -/
theorem crossDir_flags (c : Int) (seg : Nat) (a b : IPt) (h : crossDir c (mkEP false seg a b) ≠ 0) :
    (mkEP false seg a b).flags.vertical = false ∧ selfW (mkEP false seg a b).flags = crossDir c (mkEP false seg a b) := by
  have hx : crossDir c (mkEP false seg a b) = crossX a.x b.x c := rfl
  rw [hx] at h ⊢
  unfold crossX at h ⊢
  simp only [mkEP, selfW]
  by_cases h1 : a.x < c ∧ c < b.x
  · have hne : a.x ≠ b.x := by omega
    have h2 : a.x < b.x := by omega
    simp [hne, h1, h2]
  · by_cases h3 : b.x < c ∧ c < a.x
    · have hne : a.x ≠ b.x := by omega
      have h2 : ¬ a.x < b.x := by omega
      simp [hne, h1, h3, h2]
    · rw [if_neg h1, if_neg h3] at h; exact absurd rfl h

end Canvas.C02
