import CanvasModel.C17.Spec
/-! C17 helper lemmas, part 1: what `mainLoop` does to the lists (any scalar, no laws). -/
set_option linter.unusedSectionVars false
set_option linter.unusedVariables false
namespace Canvas.C17

section
variable {α : Type} [Add α] [Sub α] [Mul α] [Div α] [Neg α] [LT α] [LE α] [BEq α]
  [DecidableLT α] [DecidableLE α] [NatCast α]

/-- `cand` is the candidate the inner loop computes for the active node `a` -/
def IsCand (cx : Ctx α) (a : Node α) (cand : Cand α) : Prop :=
  ∃ r, adjRatio cx.P cx.lineW cx.it cx.W cx.Y cx.Z a.d.w a.d.y a.d.z = some r ∧
    feasibleR cx r = true ∧
    cand = ⟨lineDemerits cx.P cx.it r (flaggedAt cx.items a.d.pos) a.d.fit + a.d.dem, a, r⟩

/-- the breakpoint created from candidate `cand` in class `c` -/
def mkNode (cx : Ctx α) (width : α) (s : α × α × α) (c : Nat) (cand : Cand α) : Node α :=
  ⟨⟨cx.b, cand.par.d.line + 1, c, width, s.1, s.2.1, s.2.2, cand.ratio, cand.dem⟩, cand.par.d :: cand.par.anc⟩

/-- `n` is a breakpoint created in this call of `mainLoop` from an active node of `L` -/
def Emitted (cx : Ctx α) (width : α) (s : α × α × α) (L : List (Node α)) (n : Node α) : Prop :=
  ∃ a, a ∈ L ∧ ∃ cand c, IsCand cx a cand ∧ n = mkNode cx width s c cand

/-- `nextTolerance` only ever becomes a ratio the loop has seen above the tolerance -/
def TolFrom (cx : Ctx α) (L : List (Node α)) (t0 t : Option α) : Prop :=
  t = t0 ∨ ∃ a, a ∈ L ∧ ∃ r, adjRatio cx.P cx.lineW cx.it cx.W cx.Y cx.Z a.d.w a.d.y a.d.z = some r ∧
    ltTol cx.tol r = true ∧ t = some r

theorem TolFrom.mono {cx : Ctx α} {L L' : List (Node α)} {t0 t : Option α} (h : TolFrom cx L t0 t)
    (hL : ∀ a, a ∈ L → a ∈ L') : TolFrom cx L' t0 t := by
  rcases h with h | ⟨a, ha, r, h1, h2, h3⟩
  · exact Or.inl h
  · exact Or.inr ⟨a, hL a ha, r, h1, h2, h3⟩

theorem TolFrom.trans {cx : Ctx α} {L : List (Node α)} {t0 t1 t2 : Option α} (h1 : TolFrom cx L t0 t1)
    (h2 : TolFrom cx L t1 t2) : TolFrom cx L t0 t2 := by
  rcases h2 with h | h
  · rw [h]; exact h1
  · exact Or.inr h

theorem minOpt_cases (m : Option α) (x : α) : minOpt m x = x ∨ m = some (minOpt m x) := by
  unfold minOpt
  cases m with
  | none => left; rfl
  | some m => simp only; split <;> simp

theorem moveNode_nextTol (cx : Ctx α) (a : Node α) (r : Option α) (o : MOut α) :
    (moveNode cx a r o).nextTol = o.nextTol := by
  unfold moveNode; split <;> rfl

theorem moveNode_lists (cx : Ctx α) (a : Node α) (r : Option α) (o : MOut α) :
    ((moveNode cx a r o).act = o.act ++ [a] ∧ (moveNode cx a r o).inact = o.inact ∧
        isForced cx.P cx.it = false) ∨
    ((moveNode cx a r o).act = o.act ∧ (moveNode cx a r o).inact = o.inact ++ [a]) := by
  unfold moveNode
  by_cases hd : deactivates cx a r = true
  · right; simp [hd]
  · left
    have hf : isForced cx.P cx.it = false := by
      unfold deactivates at hd
      cases h : isForced cx.P cx.it
      · rfl
      · rw [h, Bool.or_true] at hd; exact absurd rfl hd
    simp [hd, hf]

theorem updTol_lists (cx : Ctx α) (r : α) (o : MOut α) :
    (updTol cx r o).act = o.act ∧ (updTol cx r o).inact = o.inact := by
  unfold updTol; split
  · exact ⟨rfl, rfl⟩
  · split <;> exact ⟨rfl, rfl⟩

theorem stepNode_lists (cx : Ctx α) (a : Node α) (g : Grp α) (o : MOut α) :
    ((stepNode cx a g o).2.act = o.act ++ [a] ∧ (stepNode cx a g o).2.inact = o.inact ∧
        isForced cx.P cx.it = false) ∨
    ((stepNode cx a g o).2.act = o.act ∧ (stepNode cx a g o).2.inact = o.inact ++ [a]) := by
  unfold stepNode
  cases hr : adjRatio cx.P cx.lineW cx.it cx.W cx.Y cx.Z a.d.w a.d.y a.d.z with
  | none => exact moveNode_lists cx a none o
  | some r =>
    simp only
    rw [(updTol_lists cx r _).1, (updTol_lists cx r _).2]
    exact moveNode_lists cx a (some r) o

theorem stepNode_tol (cx : Ctx α) (a : Node α) (g : Grp α) (o : MOut α) :
    TolFrom cx [a] o.nextTol (stepNode cx a g o).2.nextTol := by
  unfold stepNode
  cases hr : adjRatio cx.P cx.lineW cx.it cx.W cx.Y cx.Z a.d.w a.d.y a.d.z with
  | none => left; exact moveNode_nextTol cx a none o
  | some r =>
    simp only
    unfold updTol
    split
    · left; exact moveNode_nextTol cx a _ o
    · split
      · rename_i hlt
        simp only [moveNode_nextTol]
        rcases minOpt_cases o.nextTol r with h | h
        · right; exact ⟨a, by simp, r, hr, hlt, by rw [h]⟩
        · left; exact h.symm
      · left; exact moveNode_nextTol cx a _ o

theorem updGrp_slots (cx : Ctx α) (a : Node α) (r : α) (g : Grp α) (cand : Cand α)
    (hr : adjRatio cx.P cx.lineW cx.it cx.W cx.Y cx.Z a.d.w a.d.y a.d.z = some r)
    (h : some cand ∈ (updGrp cx a r g).slots) : some cand ∈ g.slots ∨ IsCand cx a cand := by
  unfold updGrp at h
  split at h
  · rename_i hfeas
    simp only at h
    split at h
    · rcases List.mem_or_eq_of_mem_set h with h | h
      · exact Or.inl h
      · exact Or.inr ⟨r, hr, hfeas, Option.some.inj h⟩
    · exact Or.inl h
  · exact Or.inl h

theorem stepNode_slots (cx : Ctx α) (a : Node α) (g : Grp α) (o : MOut α) (cand : Cand α)
    (h : some cand ∈ (stepNode cx a g o).1.slots) : some cand ∈ g.slots ∨ IsCand cx a cand := by
  unfold stepNode at h
  cases hr : adjRatio cx.P cx.lineW cx.it cx.W cx.Y cx.Z a.d.w a.d.y a.d.z with
  | none => rw [hr] at h; exact Or.inl h
  | some r => rw [hr] at h; exact updGrp_slots cx a r g cand hr h

/-- every breakpoint `emit` creates comes from a filled slot -/
theorem emit_mem (cx : Ctx α) (width : α) (s : α × α × α) (dm : α) (n : Node α) :
    ∀ (slots : List (Option (Cand α))) (c : Nat), n ∈ emit cx width s dm c slots →
      ∃ cand c', some cand ∈ slots ∧ n = mkNode cx width s c' cand := by
  intro slots
  induction slots with
  | nil => intro c h; simp [emit] at h
  | cons x rest ih =>
    intro c h
    cases x with
    | none =>
      simp only [emit] at h
      obtain ⟨cand, c', h1, h2⟩ := ih _ h
      exact ⟨cand, c', List.mem_cons_of_mem _ h1, h2⟩
    | some cand0 =>
      simp only [emit] at h
      split at h
      · rcases List.mem_cons.mp h with h | h
        · exact ⟨cand0, c, List.mem_cons_self, h⟩
        · obtain ⟨cand, c', h1, h2⟩ := ih _ h
          exact ⟨cand, c', List.mem_cons_of_mem _ h1, h2⟩
      · obtain ⟨cand, c', h1, h2⟩ := ih _ h
        exact ⟨cand, c', List.mem_cons_of_mem _ h1, h2⟩

theorem flush_spec (cx : Ctx α) (width : α) (s : α × α × α) (g : Grp α) (o : MOut α) :
    (flush cx width s g o).inact = o.inact ∧ (flush cx width s g o).nextTol = o.nextTol ∧
    (∀ n, n ∈ (flush cx width s g o).act → n ∈ o.act ∨
      ∃ cand c, some cand ∈ g.slots ∧ n = mkNode cx width s c cand) ∧
    (∀ n, n ∈ o.act → n ∈ (flush cx width s g o).act) := by
  unfold flush
  cases hd : g.dmin with
  | none => exact ⟨rfl, rfl, fun n h => Or.inl h, fun n h => h⟩
  | some dm =>
    refine ⟨rfl, rfl, ?_, ?_⟩
    · intro n h
      rcases List.mem_append.mp h with h | h
      · exact Or.inl h
      · exact Or.inr (emit_mem cx width s dm n _ _ h)
    · intro n h; exact List.mem_append_left _ h

/-- slots invariant: every filled slot holds a candidate of a node of `L` -/
def SlotsFrom (cx : Ctx α) (L : List (Node α)) (g : Grp α) : Prop :=
  ∀ cand, some cand ∈ g.slots → ∃ a, a ∈ L ∧ IsCand cx a cand

theorem slotsFrom_empty (cx : Ctx α) (L : List (Node α)) : SlotsFrom cx L emptyGrp := by
  intro cand h; simp [emptyGrp] at h

/-- the complete effect of `mainLoop` on the three pieces of state -/
structure MainSpec (cx : Ctx α) (width : α) (s : α × α × α) (L : List (Node α)) (o out : MOut α) : Prop where
  act : ∀ n, n ∈ out.act → n ∈ o.act ∨ (n ∈ L ∧ isForced cx.P cx.it = false) ∨ Emitted cx width s L n
  inact : ∀ n, n ∈ out.inact → n ∈ o.inact ∨ n ∈ L
  keep : ∀ n, (n ∈ o.act → n ∈ out.act) ∧ (n ∈ o.inact → n ∈ out.inact)
  tol : TolFrom cx L o.nextTol out.nextTol

theorem mainGo_spec (cx : Ctx α) (width : α) (s : α × α × α) (L : List (Node α)) :
    ∀ (l : List (Node α)) (g : Grp α) (o : MOut α), (∀ a, a ∈ l → a ∈ L) → SlotsFrom cx L g →
      MainSpec cx width s L o (mainGo cx width s l g o) ∧
      (∀ n, n ∈ l → n ∈ (mainGo cx width s l g o).act ∨ n ∈ (mainGo cx width s l g o).inact) := by
  intro l
  induction l with
  | nil =>
    intro g o hl hg
    simp only [mainGo]
    obtain ⟨h1, h2, h3, h4⟩ := flush_spec cx width s g o
    refine ⟨⟨?_, ?_, ?_, ?_⟩, ?_⟩
    · intro n hn
      rcases h3 n hn with h | ⟨cand, c, hc, hn⟩
      · exact Or.inl h
      · obtain ⟨a, ha, hca⟩ := hg cand hc
        exact Or.inr (Or.inr ⟨a, ha, cand, c, hca, hn⟩)
    · intro n hn; rw [h1] at hn; exact Or.inl hn
    · intro n; exact ⟨h4 n, fun h => by rw [h1]; exact h⟩
    · left; exact h2
    · intro n hn; cases hn
  | cons a rest ih =>
    intro g o hl hg
    have haL : a ∈ L := hl a List.mem_cons_self
    have hrestL : ∀ x, x ∈ rest → x ∈ L := fun x hx => hl x (List.mem_cons_of_mem _ hx)
    have hg1 : SlotsFrom cx L (stepNode cx a g o).1 := by
      intro cand hc
      rcases stepNode_slots cx a g o cand hc with h | h
      · exact hg cand h
      · exact ⟨a, haL, h⟩
    have htol1 : TolFrom cx L o.nextTol (stepNode cx a g o).2.nextTol :=
      (stepNode_tol cx a g o).mono (fun x hx => by
        rcases List.mem_singleton.mp hx with rfl; exact haL)
    -- effect of the step on the lists
    have hstep := stepNode_lists cx a g o
    -- common: flushing after the step
    obtain ⟨f1, f2, f3, f4⟩ := flush_spec cx width s (stepNode cx a g o).1 (stepNode cx a g o).2
    have hflushSpec : MainSpec cx width s L o (flush cx width s (stepNode cx a g o).1 (stepNode cx a g o).2) := by
      refine ⟨?_, ?_, ?_, ?_⟩
      · intro n hn
        rcases f3 n hn with h | ⟨cand, c, hc, hn⟩
        · rcases hstep with ⟨e1, e2, e3⟩ | ⟨e1, e2⟩
          · rw [e1] at h
            rcases List.mem_append.mp h with h | h
            · exact Or.inl h
            · rcases List.mem_singleton.mp h with rfl; exact Or.inr (Or.inl ⟨haL, e3⟩)
          · rw [e1] at h; exact Or.inl h
        · obtain ⟨a', ha', hca⟩ := hg1 cand hc
          exact Or.inr (Or.inr ⟨a', ha', cand, c, hca, hn⟩)
      · intro n hn
        rw [f1] at hn
        rcases hstep with ⟨e1, e2, e3⟩ | ⟨e1, e2⟩
        · rw [e2] at hn; exact Or.inl hn
        · rw [e2] at hn
          rcases List.mem_append.mp hn with h | h
          · exact Or.inl h
          · rcases List.mem_singleton.mp h with rfl; exact Or.inr haL
      · intro n
        constructor
        · intro h
          apply f4
          rcases hstep with ⟨e1, e2, e3⟩ | ⟨e1, e2⟩
          · rw [e1]; exact List.mem_append_left _ h
          · rw [e1]; exact h
        · intro h
          rw [f1]
          rcases hstep with ⟨e1, e2, e3⟩ | ⟨e1, e2⟩
          · rw [e2]; exact h
          · rw [e2]; exact List.mem_append_left _ h
      · rw [f2]; exact htol1
    have haOut : a ∈ (flush cx width s (stepNode cx a g o).1 (stepNode cx a g o).2).act ∨
        a ∈ (flush cx width s (stepNode cx a g o).1 (stepNode cx a g o).2).inact := by
      rcases hstep with ⟨e1, e2, e3⟩ | ⟨e1, e2⟩
      · left; apply f4; rw [e1]; exact List.mem_append_right _ (List.mem_singleton.mpr rfl)
      · right; rw [f1, e2]; exact List.mem_append_right _ (List.mem_singleton.mpr rfl)
    have haStep : a ∈ (stepNode cx a g o).2.act ∨ a ∈ (stepNode cx a g o).2.inact := by
      rcases hstep with ⟨e1, e2, e3⟩ | ⟨e1, e2⟩
      · left; rw [e1]; exact List.mem_append_right _ (List.mem_singleton.mpr rfl)
      · right; rw [e2]; exact List.mem_append_right _ (List.mem_singleton.mpr rfl)
    have hstepSpec : MainSpec cx width s L o (stepNode cx a g o).2 := by
      refine ⟨?_, ?_, ?_, htol1⟩
      · intro n h
        rcases hstep with ⟨e1, e2, e3⟩ | ⟨e1, e2⟩
        · rw [e1] at h
          rcases List.mem_append.mp h with h | h
          · exact Or.inl h
          · rcases List.mem_singleton.mp h with rfl; exact Or.inr (Or.inl ⟨haL, e3⟩)
        · rw [e1] at h; exact Or.inl h
      · intro n hn
        rcases hstep with ⟨e1, e2, e3⟩ | ⟨e1, e2⟩
        · rw [e2] at hn; exact Or.inl hn
        · rw [e2] at hn
          rcases List.mem_append.mp hn with h | h
          · exact Or.inl h
          · rcases List.mem_singleton.mp h with rfl; exact Or.inr haL
      · intro n
        rcases hstep with ⟨e1, e2, e3⟩ | ⟨e1, e2⟩
        · rw [e1, e2]; exact ⟨fun h => List.mem_append_left _ h, fun h => h⟩
        · rw [e1, e2]; exact ⟨fun h => h, fun h => List.mem_append_left _ h⟩
    -- compose a spec for the prefix with the spec of the recursive call
    have compose : ∀ (o1 out : MOut α), MainSpec cx width s L o o1 → (a ∈ o1.act ∨ a ∈ o1.inact) →
        MainSpec cx width s L o1 out → (∀ n, n ∈ rest → n ∈ out.act ∨ n ∈ out.inact) →
        MainSpec cx width s L o out ∧ (∀ n, n ∈ a :: rest → n ∈ out.act ∨ n ∈ out.inact) := by
      intro o1 out s1 ha1 s2 hall
      refine ⟨⟨?_, ?_, ?_, s1.tol.trans s2.tol⟩, ?_⟩
      · intro n hn
        rcases s2.act n hn with h | h | h
        · exact s1.act n h
        · exact Or.inr (Or.inl h)
        · exact Or.inr (Or.inr h)
      · intro n hn
        rcases s2.inact n hn with h | h
        · exact s1.inact n h
        · exact Or.inr h
      · intro n
        exact ⟨fun h => (s2.keep n).1 ((s1.keep n).1 h), fun h => (s2.keep n).2 ((s1.keep n).2 h)⟩
      · intro n hn
        rcases List.mem_cons.mp hn with rfl | hn
        · rcases ha1 with h | h
          · exact Or.inl ((s2.keep n).1 h)
          · exact Or.inr ((s2.keep n).2 h)
        · exact hall n hn
    simp only [mainGo]
    cases rest with
    | nil =>
      refine ⟨hflushSpec, ?_⟩
      intro n hn
      rcases List.mem_singleton.mp hn with rfl
      exact haOut
    | cons nx rest' =>
      simp only
      split
      · obtain ⟨r1, r2⟩ := ih emptyGrp (flush cx width s (stepNode cx a g o).1 (stepNode cx a g o).2) hrestL
          (slotsFrom_empty cx L)
        exact compose _ _ hflushSpec haOut r1 r2
      · obtain ⟨r1, r2⟩ := ih (stepNode cx a g o).1 (stepNode cx a g o).2 hrestL hg1
        exact compose _ _ hstepSpec haStep r1 r2

end
end Canvas.C17
