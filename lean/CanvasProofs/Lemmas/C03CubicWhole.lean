import CanvasProofs.Lemmas.C03CubicDev
import Mathlib.Tactic.Ring
import Mathlib.Tactic.Linarith
import Mathlib.Tactic.FieldSimp
/-! C03: the whole `flattenSmoothCubicBezier` loop — every piece cut off (and the last one) is within r of
its chord segment, as a statement about the ORIGINAL curve, whenever the step function only returns steps
whose left piece passed the flatness test (the exit condition of the halving loop). -/
set_option linter.unusedSectionVars false
namespace C03L
open Canvas Canvas.C03 GenK
variable {K : Type} [Field K] [LinearOrder K] [IsStrictOrderedRing K] [Env K]

/-- left part of the generated `cubicBezierSplit` -/
def cubSplitLK (c : Cub K) (t : K) : Cub K :=
  ⟨(cubL c.p0 c.p1 c.p2 c.p3 t).1, (cubL c.p0 c.p1 c.p2 c.p3 t).2.1,
   (cubL c.p0 c.p1 c.p2 c.p3 t).2.2.1, (cubL c.p0 c.p1 c.p2 c.p3 t).2.2.2⟩

theorem cubSplitLK_pos (c : Cub K) (t s : K) : cubPos (cubSplitLK c t) s = cubPos c (t * s) :=
  cub_left c.p0 c.p1 c.p2 c.p3 t s

theorem cubSplitLK_p0 (c : Cub K) (t : K) : (cubSplitLK c t).p0 = c.p0 := rfl

theorem cubSplitLK_p3 (c : Cub K) (t : K) : (cubSplitLK c t).p3 = cubPos c t := by
  have := cubSplitLK_pos c t 1
  rw [cubPos, cub_pos_one, mul_one] at this
  exact this

theorem cubPos_zero (c : Cub K) : cubPos c 0 = c.p0 := cub_pos_zero _ _ _ _
theorem cubPos_one (c : Cub K) : cubPos c 1 = c.p3 := cub_pos_one _ _ _ _

/-- the original curve between parameters a ≤ b stays within r of the segment [B(a), B(b)] -/
def cubPieceOK (r : K) (p : Cub K) (a b : K) : Prop :=
  ∀ x : K, a ≤ x → x ≤ b → ∃ m : K, 0 ≤ m ∧ m ≤ 1 ∧ dsq (cubPos p x) (segPt (cubPos p a) (cubPos p b) m) ≤ r * r

def cubChainOK (r : K) (p : Cub K) : K → List K → Prop
  | a, [] => cubPieceOK r p a 1
  | a, T :: Ts => cubPieceOK r p a T ∧ cubChainOK r p T Ts

/-- a flat sub-piece [0,t] of the current polygon (= original restricted to [a,1]) is a flat piece
[a, a + (1−a)·t] of the original -/
theorem cubPiece_of_current (r : K) (p c : Cub K) (a t : K) (ha1 : a < 1) (ht0 : 0 < t)
    (hpos : ∀ s, cubPos c s = cubPos p (a + (1 - a) * s))
    (hflat : PieceFlat r (cubSplitLK c t)) :
    cubPieceOK r p a (a + (1 - a) * t) := by
  intro x hx0 hx1
  have h1a : 0 < 1 - a := by linarith
  have hden : 0 < (1 - a) * t := mul_pos h1a ht0
  set u := (x - a) / ((1 - a) * t) with hu
  have hu0 : 0 ≤ u := div_nonneg (by linarith) (le_of_lt hden)
  have hu1 : u ≤ 1 := by rw [hu, div_le_one hden]; linarith
  have hx : x = a + (1 - a) * (t * u) := by rw [hu]; field_simp; ring
  obtain ⟨m, hm0, hm1, hd⟩ := hflat u hu0 hu1
  refine ⟨m, hm0, hm1, ?_⟩
  have e0 : cubPos p a = (cubSplitLK c t).p0 := by
    rw [cubSplitLK_p0, ← cubPos_zero c, hpos]; congr 1; ring
  have e3 : cubPos p (a + (1 - a) * t) = (cubSplitLK c t).p3 := by rw [cubSplitLK_p3, hpos]
  have ex : cubPos p x = cubPos (cubSplitLK c t) u := by rw [cubSplitLK_pos, hpos, ← hx]
  rw [e0, e3, ex]; exact hd

/-- a flat current polygon is a flat last piece [a,1] of the original -/
theorem cubPiece_of_rest (r : K) (p c : Cub K) (a : K) (ha1 : a < 1) (hc3 : c.p3 = p.p3)
    (hpos : ∀ s, cubPos c s = cubPos p (a + (1 - a) * s)) (hflat : PieceFlat r c) :
    cubPieceOK r p a 1 := by
  intro x hx0 hx1
  have h1a : 0 < 1 - a := by linarith
  set u := (x - a) / (1 - a) with hu
  have hu0 : 0 ≤ u := div_nonneg (by linarith) (le_of_lt h1a)
  have hu1 : u ≤ 1 := by rw [hu, div_le_one h1a]; linarith
  have hx : x = a + (1 - a) * u := by rw [hu]; field_simp; ring
  obtain ⟨m, hm0, hm1, hd⟩ := hflat u hu0 hu1
  refine ⟨m, hm0, hm1, ?_⟩
  have e0 : cubPos p a = c.p0 := by rw [← cubPos_zero c, hpos]; congr 1; ring
  have e3 : cubPos p 1 = c.p3 := by rw [cubPos_one, hc3]
  have ex : cubPos p x = cubPos c u := by rw [hpos, ← hx]
  rw [e0, e3, ex]; exact hd

/-- WHOLE LOOP: cut parameters strictly increasing in (a,1), every piece (and the rest) flat within r as a
piece of the original curve, and the emitted vertices are a sublist of the piece end points (pieces that
`addCubicBezierLine` regards as degenerate contribute no vertex). -/
theorem cub_loop_within (r : K) (step : Cub K → CStep K) (keep : Cub K → Bool)
    (hcut : ∀ q t, step q = .cut t → 0 < t ∧ t < 1 ∧ PieceFlat r (cubSplitLK q t))
    (hstop : ∀ q, step q = .stop → PieceFlat r q)
    (hstraight : ∀ q, step q = .straight → PieceFlat r q) (p : Cub K) :
    ∀ (fuel : Nat) (c : Cub K) (a : K) (vs : List (Pt K)),
      0 ≤ a → a < 1 → c.p3 = p.p3 →
      (∀ s, cubPos c s = cubPos p (a + (1 - a) * s)) →
      flattenCubicLoop step keep cubSplitR fuel c = some vs →
      ∃ Ts : List K, Ts.Pairwise (· < ·) ∧ (∀ T ∈ Ts, a < T ∧ T < 1) ∧ cubChainOK r p a Ts
        ∧ vs.Sublist (Ts.map (cubPos p) ++ [p.p3]) ∧ vs.length ≤ fuel := by
  intro fuel
  induction fuel with
  | zero => intro c a vs _ _ _ _ h; simp [flattenCubicLoop] at h
  | succ n ih =>
    intro c a vs ha0 ha1 hc3 hpos h
    unfold flattenCubicLoop at h
    cases hs : step c with
    | straight =>
      rw [hs] at h
      simp only [Option.some.injEq] at h
      refine ⟨[], List.Pairwise.nil, by simp, cubPiece_of_rest r p c a ha1 hc3 hpos (hstraight c hs), ?_, by simp [← h]⟩
      rw [← h, hc3]; simp
    | stop =>
      rw [hs] at h
      simp only [Option.some.injEq] at h
      refine ⟨[], List.Pairwise.nil, by simp, cubPiece_of_rest r p c a ha1 hc3 hpos (hstop c hs), ?_, ?_⟩
      · rw [← h]; by_cases hk : keep c = true
        · simp [hk, hc3]
        · simp [hk]
      · rw [← h]; by_cases hk : keep c = true <;> simp [hk]
    | cut t =>
      rw [hs] at h
      obtain ⟨ht0, ht1, hflat⟩ := hcut _ _ hs
      simp only [Option.map_eq_some_iff] at h
      obtain ⟨vs', hrec, hvs⟩ := h
      have ha' : a < a + (1 - a) * t := by nlinarith
      have ha'1 : a + (1 - a) * t < 1 := by nlinarith
      have hposR : ∀ s, cubPos (cubSplitR c t) s
          = cubPos p ((a + (1 - a) * t) + (1 - (a + (1 - a) * t)) * s) := by
        intro s
        rw [cubSplitR_pos, hpos]
        congr 1; ring
      obtain ⟨Ts, hpw, hrange, hchain, hsub, hlen⟩ := ih _ (a + (1 - a) * t) vs'
        (le_of_lt (lt_of_le_of_lt ha0 ha')) ha'1 (by rw [cubSplitR_end, hc3]) hposR hrec
      have hfirst : (cubSplitR c t).p0 = cubPos p (a + (1 - a) * t) := by
        have h0 := hposR 0
        rw [cubPos_zero] at h0
        rw [h0]; congr 1; ring
      refine ⟨(a + (1 - a) * t) :: Ts, List.Pairwise.cons (fun T hT => (hrange T hT).1) hpw, ?_,
        ⟨cubPiece_of_current r p c a t ha1 ht0 hpos hflat, hchain⟩, ?_, ?_⟩
      · intro T hT
        rcases List.mem_cons.mp hT with rfl | hT
        · exact ⟨ha', ha'1⟩
        · exact ⟨lt_trans ha' (hrange T hT).1, (hrange T hT).2⟩
      · rw [← hvs]
        by_cases hk : keep (cubSplitR c t) = true
        · simp only [hk, if_true, List.map_cons, List.cons_append, hfirst]
          exact List.Sublist.cons_cons _ hsub
        · simp only [hk, Bool.false_eq_true, if_false, List.map_cons, List.cons_append]
          exact List.Sublist.cons _ hsub
      · rw [← hvs]
        by_cases hk : keep (cubSplitR c t) = true <;> simp [hk] <;> omega

/-- a cubic with p0 = p1 = p2 is the straight segment p0 → p3 -/
theorem straight_flat (r : K) (q : Cub K) (h1 : q.p1 = q.p0) (h2 : q.p2 = q.p0) : PieceFlat r q := by
  intro s hs0 hs1
  refine ⟨s * s * s, by positivity, ?_, ?_⟩
  · have : s * s ≤ 1 := by nlinarith
    nlinarith [mul_nonneg hs0 hs0]
  · have : dsq (cubPos q s) (segPt q.p0 q.p3 (s * s * s)) = 0 := by
      simp only [dsq, cubPos, cubicBezierPos, segPt, Point.Mul, Point.Add, h1, h2]; ring
    rw [this]; exact mul_self_nonneg r

end C03L
