import CanvasProofs.Lemmas.C15Ops
import CanvasProofs.Lemmas.C15Mat
import Mathlib.Tactic.Ring
import Mathlib.Tactic.Linarith
/-! # C15 — `Canvas.Fit`: after fitting with margin `μ`, every (non-degenerate) layer lies inside
`[μ, W-μ] × [μ, H-μ]`. -/
set_option linter.unusedSectionVars false
namespace C15
open Canvas Canvas.C15 GenK
variable {K : Type} [Field K] [LinearOrder K] [IsStrictOrderedRing K] [Env K]
variable (tr : K → K) (cd : K → List K → K → List K × Bool)

/-! ## projections of `opsK` -/

@[simp] theorem opsK_rectTransform : (opsK tr cd).rectTransform = Rect.Transform := rfl
@[simp] theorem opsK_rectAdd : (opsK tr cd).rectAdd = Rect.Add := rfl
@[simp] theorem opsK_mmul : (opsK tr cd).mmul = Matrix.Mul := rfl
@[simp] theorem opsK_translate : (opsK tr cd).translate = Matrix.Translate := rfl
@[simp] theorem opsK_ident : (opsK tr cd).ident = (⟨1, 0, 0, 0, 1, 0⟩ : Mat K) := rfl
@[simp] theorem opsK_zero : (opsK tr cd).zero = (0 : K) := rfl
@[simp] theorem opsK_neg (a : K) : (opsK tr cd).neg a = -a := rfl
@[simp] theorem opsK_add (a b : K) : (opsK tr cd).add a b = a + b := rfl
@[simp] theorem opsK_sub (a b : K) : (opsK tr cd).sub a b = a - b := rfl

theorem rectEmpty_opsK (r : Rct K) :
    rectEmpty (opsK tr cd) r = (Equal (r.x1 - r.x0) 0 || Equal (r.y1 - r.y0) 0) := rfl

/-! ## rectangles -/

/-- well-formed rectangle -/
def RWF (r : Rct K) : Prop := r.x0 ≤ r.x1 ∧ r.y0 ≤ r.y1

/-- `q` is contained in `r` -/
def Sub (q r : Rct K) : Prop := r.x0 ≤ q.x0 ∧ q.x1 ≤ r.x1 ∧ r.y0 ≤ q.y0 ∧ q.y1 ≤ r.y1

theorem Sub.refl (r : Rct K) : Sub r r := ⟨le_rfl, le_rfl, le_rfl, le_rfl⟩

theorem Sub.trans {p q r : Rct K} (h1 : Sub p q) (h2 : Sub q r) : Sub p r :=
  ⟨h2.1.trans h1.1, h1.2.1.trans h2.2.1, h2.2.2.1.trans h1.2.2.1, h1.2.2.2.trans h2.2.2.2⟩

theorem equal_zero_false_iff {a : K} (h : 0 ≤ a) :
    Equal a 0 = false ↔ (Env.epsilon : K) < a := by
  unfold Equal
  rw [if_neg (not_lt.mpr h)]
  simp

theorem rectEmpty_false_iff {r : Rct K} (h : RWF r) :
    rectEmpty (opsK tr cd) r = false ↔
      (Env.epsilon : K) < r.x1 - r.x0 ∧ (Env.epsilon : K) < r.y1 - r.y0 := by
  rw [rectEmpty_opsK, Bool.or_eq_false_iff,
    equal_zero_false_iff (sub_nonneg.mpr h.1), equal_zero_false_iff (sub_nonneg.mpr h.2)]

theorem transform_wf (r : Rct K) (m : Mat K) : RWF (Rect.Transform r m) := by
  simp only [Rect.Transform, RWF]
  exact ⟨(min_le_left _ _).trans (le_max_left _ _), (min_le_left _ _).trans (le_max_left _ _)⟩

theorem add_wf_left {r : Rct K} (q : Rct K) (h : RWF r) : RWF (Rect.Add r q) := by
  simp only [Rect.Add, RWF]
  exact ⟨(min_le_left _ _).trans (h.1.trans (le_max_left _ _)),
    (min_le_left _ _).trans (h.2.trans (le_max_left _ _))⟩

theorem sub_add_left (r q : Rct K) : Sub r (Rect.Add r q) := by
  simp only [Rect.Add, Sub]
  exact ⟨min_le_left _ _, le_max_left _ _, min_le_left _ _, le_max_left _ _⟩

theorem sub_add_right (r q : Rct K) : Sub q (Rect.Add r q) := by
  simp only [Rect.Add, Sub]
  exact ⟨min_le_right _ _, le_max_right _ _, min_le_right _ _, le_max_right _ _⟩

/-- a well-formed rectangle containing a well-formed non-empty one is non-empty -/
theorem nonempty_of_sub {q r : Rct K} (hq : RWF q) (hr : RWF r) (hs : Sub q r)
    (hne : rectEmpty (opsK tr cd) q = false) : rectEmpty (opsK tr cd) r = false := by
  rw [rectEmpty_false_iff tr cd hq] at hne
  rw [rectEmpty_false_iff tr cd hr]
  obtain ⟨h1, h2, h3, h4⟩ := hs
  constructor <;> linarith [hne.1, hne.2]

/-! ## the fold of `Fit` -/

/-- the layer's bounds are not (Epsilon-)empty: the layer takes part in `Fit` -/
def NE (c : Call K) : Prop := rectEmpty (opsK tr cd) (itemBounds (opsK tr cd) c.item) = false

/-- the transformed bounds of a layer -/
def tb (c : Call K) : Rct K := Rect.Transform (itemBounds (opsK tr cd) c.item) c.m

/-- loop invariant: `r` is the running rectangle, `S` the layers processed so far -/
structure Good (r : Rct K) (S : List (Call K)) : Prop where
  wf : RWF r
  sub : ∀ c ∈ S, NE tr cd c → Sub (tb tr cd c) r
  ne : (∃ c ∈ S, NE tr cd c) → rectEmpty (opsK tr cd) r = false

theorem good_init : Good tr cd (⟨0, 0, 0, 0⟩ : Rct K) [] :=
  ⟨⟨le_rfl, le_rfl⟩, fun _ h => absurd h List.not_mem_nil,
    fun ⟨_, h, _⟩ => absurd h List.not_mem_nil⟩

theorem fitStep_good {r : Rct K} {S : List (Call K)} (c : Call K) (hg : Good tr cd r S)
    (hc : NE tr cd c → rectEmpty (opsK tr cd) (tb tr cd c) = false) :
    Good tr cd (fitStep (opsK tr cd) r c) (S ++ [c]) := by
  unfold fitStep
  by_cases hb : rectEmpty (opsK tr cd) (itemBounds (opsK tr cd) c.item) = true
  · -- empty bounds: skipped
    rw [if_pos hb]
    have hnc : ¬ NE tr cd c := by unfold NE; rw [hb]; exact Bool.noConfusion
    refine ⟨hg.wf, ?_, ?_⟩
    · intro c' hc' hne
      rcases List.mem_append.mp hc' with h | h
      · exact hg.sub c' h hne
      · rw [List.mem_singleton.mp h] at hne; exact absurd hne hnc
    · rintro ⟨c', hc', hne⟩
      rcases List.mem_append.mp hc' with h | h
      · exact hg.ne ⟨c', h, hne⟩
      · rw [List.mem_singleton.mp h] at hne; exact absurd hne hnc
  · rw [if_neg hb]
    have hnc : NE tr cd c := by unfold NE; simpa using hb
    have hT := hc hnc
    by_cases hr : rectEmpty (opsK tr cd) r = true
    · -- first contributing layer
      rw [if_pos hr]
      have hS : ∀ c' ∈ S, ¬ NE tr cd c' := by
        intro c' h hne
        have := hg.ne ⟨c', h, hne⟩
        rw [hr] at this; exact Bool.noConfusion this
      refine ⟨transform_wf _ _, ?_, fun _ => hT⟩
      intro c' hc' hne
      rcases List.mem_append.mp hc' with h | h
      · exact absurd hne (hS c' h)
      · rw [List.mem_singleton.mp h]; exact Sub.refl _
    · rw [if_neg hr]
      simp only [opsK_rectAdd, opsK_rectTransform]
      have hwf := add_wf_left (tb tr cd c) hg.wf
      refine ⟨hwf, ?_, fun _ =>
        nonempty_of_sub tr cd (transform_wf _ _) hwf (sub_add_right r (tb tr cd c)) hT⟩
      intro c' hc' hne
      rcases List.mem_append.mp hc' with h | h
      · exact (hg.sub c' h hne).trans (sub_add_left _ _)
      · rw [List.mem_singleton.mp h]; exact sub_add_right _ _

theorem foldl_fitStep_good (l : List (Call K)) :
    ∀ {r : Rct K} {S : List (Call K)}, Good tr cd r S →
      (∀ c ∈ l, NE tr cd c → rectEmpty (opsK tr cd) (tb tr cd c) = false) →
      Good tr cd (l.foldl (fitStep (opsK tr cd)) r) (S ++ l) := by
  induction l with
  | nil => intro r S hg _; simpa using hg
  | cons c l ih =>
    intro r S hg hl
    have h1 := fitStep_good tr cd c hg (hl c List.mem_cons_self)
    have h2 := ih h1 (fun c' h => hl c' (List.mem_cons_of_mem _ h))
    simpa [List.foldl_cons, List.append_assoc] using h2

theorem foldl_layers_good (layers : List (Int × List (Call K))) :
    ∀ {r : Rct K} {S : List (Call K)}, Good tr cd r S →
      (∀ kl ∈ layers, ∀ c ∈ kl.2, NE tr cd c → rectEmpty (opsK tr cd) (tb tr cd c) = false) →
      Good tr cd (layers.foldl (fun r kl => kl.2.foldl (fitStep (opsK tr cd)) r) r)
        (S ++ layers.flatMap (·.2)) := by
  induction layers with
  | nil => intro r S hg _; simpa using hg
  | cons kl layers ih =>
    intro r S hg hl
    have h1 := foldl_fitStep_good tr cd kl.2 hg (hl kl List.mem_cons_self)
    have h2 := ih h1 (fun kl' h => hl kl' (List.mem_cons_of_mem _ h))
    simpa [List.foldl_cons, List.flatMap_cons, List.append_assoc] using h2

/-- every layer whose bounds are not (Epsilon-)empty has transformed bounds that are not
(Epsilon-)empty -/
def NonDegenerate (cv : Canvas K) : Prop :=
  ∀ kl ∈ cv.layers, ∀ c ∈ kl.2,
    rectEmpty (opsK tr cd) (itemBounds (opsK tr cd) c.item) = false →
      rectEmpty (opsK tr cd) (Rect.Transform (itemBounds (opsK tr cd) c.item) c.m) = false

/-- the rectangle computed by `Fit` contains the transformed bounds of every contributing layer -/
theorem fitRect_contains (cv : Canvas K) (hnd : NonDegenerate tr cd cv) :
    ∀ kl ∈ cv.layers, ∀ c ∈ kl.2,
      rectEmpty (opsK tr cd) (itemBounds (opsK tr cd) c.item) = false →
      Sub (Rect.Transform (itemBounds (opsK tr cd) c.item) c.m) (fitRect (opsK tr cd) cv.layers) := by
  intro kl hkl c hc hne
  have hg := foldl_layers_good tr cd cv.layers (good_init tr cd) hnd
  have hmem : c ∈ ([] : List (Call K)) ++ cv.layers.flatMap (·.2) := by
    rw [List.nil_append, List.mem_flatMap]; exact ⟨kl, hkl, hc⟩
  exact hg.sub c hmem hne

/-- the rectangle computed by `Fit` is well formed -/
theorem fitRect_wf (cv : Canvas K) (hnd : NonDegenerate tr cd cv) :
    RWF (fitRect (opsK tr cd) cv.layers) :=
  (foldl_layers_good tr cd cv.layers (good_init tr cd) hnd).wf

/-! ## `Fit` -/

theorem fit_layers (cv : Canvas K) (μ : K) :
    (cv.fit (opsK tr cd) μ).layers =
      cv.layers.map (fun kl => (kl.1, kl.2.map (Call.pre (opsK tr cd)
        (Matrix.Translate ⟨1, 0, 0, 0, 1, 0⟩
          (-((fitRect (opsK tr cd) cv.layers).x0 - μ))
          (-((fitRect (opsK tr cd) cv.layers).y0 - μ)))))) := rfl

theorem fit_W (cv : Canvas K) (μ : K) :
    (cv.fit (opsK tr cd) μ).W =
      ((fitRect (opsK tr cd) cv.layers).x1 + μ) - ((fitRect (opsK tr cd) cv.layers).x0 - μ) := rfl

theorem fit_H (cv : Canvas K) (μ : K) :
    (cv.fit (opsK tr cd) μ).H =
      ((fitRect (opsK tr cd) cv.layers).y1 + μ) - ((fitRect (opsK tr cd) cv.layers).y0 - μ) := rfl

theorem pre_translate_dot (x y : K) (c : Call K) (p : Pt K) :
    Matrix.Dot (Call.pre (opsK tr cd) (Matrix.Translate ⟨1, 0, 0, 0, 1, 0⟩ x y) c).m p =
      ⟨(Matrix.Dot c.m p).x + x, (Matrix.Dot c.m p).y + y⟩ := by
  show Matrix.Dot (Matrix.Mul (Matrix.Translate ⟨1, 0, 0, 0, 1, 0⟩ x y) c.m) p = _
  rw [C15M.dot_mul, C15M.translate_dot]
  simp [Matrix.Dot]

theorem fit_inside_layers (cv : Canvas K) (μ : K) (hnd : NonDegenerate tr cd cv) :
    let cv' := cv.fit (opsK tr cd) μ
    ∀ kl ∈ cv'.layers, ∀ c ∈ kl.2,
      rectEmpty (opsK tr cd) (itemBounds (opsK tr cd) c.item) = false →
      ∀ p : Pt K, (itemBounds (opsK tr cd) c.item).x0 ≤ p.x → p.x ≤ (itemBounds (opsK tr cd) c.item).x1 →
                  (itemBounds (opsK tr cd) c.item).y0 ≤ p.y → p.y ≤ (itemBounds (opsK tr cd) c.item).y1 →
        μ ≤ (Matrix.Dot c.m p).x ∧ (Matrix.Dot c.m p).x ≤ cv'.W - μ ∧
        μ ≤ (Matrix.Dot c.m p).y ∧ (Matrix.Dot c.m p).y ≤ cv'.H - μ := by
  intro cv' kl' hkl' c' hc' hne p hx0 hx1 hy0 hy1
  have hW : cv'.W = _ := fit_W tr cd cv μ
  have hH : cv'.H = _ := fit_H tr cd cv μ
  have hL : cv'.layers = _ := fit_layers tr cd cv μ
  rw [hL, List.mem_map] at hkl'
  obtain ⟨kl, hkl, rfl⟩ := hkl'
  rw [List.mem_map] at hc'
  obtain ⟨c, hc, rfl⟩ := hc'
  have hitem : ∀ m, (Call.pre (opsK tr cd) m c).item = c.item := fun _ => rfl
  rw [hitem] at hne hx0 hx1 hy0 hy1
  obtain ⟨s1, s2, s3, s4⟩ := fitRect_contains tr cd cv hnd kl hkl c hc hne
  obtain ⟨t1, t2, t3, t4⟩ := C15M.rect_transform_contains c.m _ p ⟨hx0, hx1⟩ ⟨hy0, hy1⟩
  rw [pre_translate_dot, hW, hH]
  refine ⟨?_, ?_, ?_, ?_⟩ <;> linarith

end C15
