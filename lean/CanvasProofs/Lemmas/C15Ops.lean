import CanvasModel.C15
import CanvasGen.CoreK
/-! The C15 model instantiated with the generated (`GenK`) definitions over an arbitrary linearly
ordered field. `tr` (float→int truncation) and `cd` (`Path.checkDash`) stay abstract. -/
namespace C15
open Canvas Canvas.C15 GenK
variable {K : Type} [Field K] [LinearOrder K] [IsStrictOrderedRing K] [Env K]

def arithK (tr : K → K) : Arith K :=
  { zero := 0, one := 1, two := 2, half := 1 / 2,
    neg := fun x => -x, add := fun a b => a + b, sub := fun a b => a - b, mul := fun a b => a * b,
    div := fun a b => a / b,
    lt := fun a b => decide (a < b), le := fun a b => decide (a ≤ b), beq := fun a b => decide (a = b),
    equal := GenK.Equal, trunc := tr,
    sqrt2 := Env.sqrt 2, c1001 := 1001 / 1000, fmax := max, hypot1 := fun x => Env.hypot x 1 }

def opsK (tr : K → K) (cd : K → List K → K → List K × Bool) : Ops K :=
  { arithK tr with
    ident := ⟨1, 0, 0, 0, 1, 0⟩,
    mmul := Matrix.Mul, dot := Matrix.Dot, translate := Matrix.Translate,
    scale := Matrix.Scale, shear := Matrix.Shear,
    reflectX := Matrix.ReflectX, reflectY := Matrix.ReflectY,
    reflectXAbout := Matrix.ReflectXAbout, reflectYAbout := Matrix.ReflectYAbout,
    scaleAbout := Matrix.ScaleAbout, shearAbout := Matrix.ShearAbout,
    rectTransform := Rect.Transform, rectAdd := Rect.Add,
    isSquareCap := fun k => k == 2,
    joinLimit := fun k => if k == 0 || k == 3 || k == 4 then some 4 else none,
    joinClips := fun k => k == 4,
    checkDash := cd }

end C15
