import CanvasProofs.Lemmas.C09Chain
/-! C09 helper lemmas: every record array that `toSubs` accepts is the array of the structured path it
returns (so theorems about structured paths cover every well-formed array). Core Lean only. -/
namespace C09L
open Canvas Canvas.Path Canvas.C09
variable {α : Type}

theorem takeBody_spec (cs : List (Cmd α)) :
    (takeBody cs).1 ++ (takeBody cs).2 = cs ∧ (takeBody cs).1.all Cmd.isDraw = true := by
  induction cs with
  | nil => exact ⟨rfl, rfl⟩
  | cons c cs ih =>
    by_cases h : c.isDraw = true
    · simp only [takeBody, h, if_true, List.cons_append, ih.1, List.all_cons, ih.2, Bool.and_self, and_self]
    · simp [takeBody, h]

theorem toSubsN_flat [DecidableEq α] (n : Nat) : ∀ (cs : List (Cmd α)) (subs : List (SubPath α)),
    toSubsN n cs = some subs → flatF subs = cs ∧ ∀ s ∈ subs, s.drawOnly = true := by
  induction n with
  | zero =>
    intro cs subs h
    cases cs with
    | nil => simp only [toSubsN, Option.some.injEq] at h; subst h; exact ⟨rfl, by simp⟩
    | cons c cs => simp [toSubsN] at h
  | succ n ih =>
    intro cs subs h
    cases cs with
    | nil => simp only [toSubsN, Option.some.injEq] at h; subst h; exact ⟨rfl, by simp⟩
    | cons c cs =>
      cases c with
      | move p =>
        have hb := takeBody_spec cs
        simp only [toSubsN] at h
        split at h
        · rename_i q rest' hr
          by_cases hq : q = p
          · simp only [hq, if_true, Option.map_eq_some_iff] at h
            obtain ⟨l, hl, rfl⟩ := h
            obtain ⟨h1, h2⟩ := ih rest' l hl
            refine ⟨?_, ?_⟩
            · have : cs = (takeBody cs).1 ++ (Cmd.close p :: rest') := by
                rw [← hq, ← hr]; exact hb.1.symm
              simp only [flatF, List.flatMap_cons, SubPath.flat, if_true] at h1 ⊢
              rw [h1]
              conv => rhs; rw [this]
              simp
            · intro s hs
              simp only [List.mem_cons] at hs
              rcases hs with rfl | hs
              · exact hb.2
              · exact h2 s hs
          · simp [hq] at h
        · rename_i rest hnc
          simp only [Option.map_eq_some_iff] at h
          obtain ⟨l, hl, rfl⟩ := h
          obtain ⟨h1, h2⟩ := ih _ l hl
          refine ⟨?_, ?_⟩
          · simp only [flatF, List.flatMap_cons, SubPath.flat, Bool.false_eq_true, if_false,
              List.append_nil] at h1 ⊢
            rw [h1]
            conv => rhs; rw [← hb.1]
            simp
          · intro s hs
            simp only [List.mem_cons] at hs
            rcases hs with rfl | hs
            · exact hb.2
            · exact h2 s hs
      | _ => simp [toSubsN] at h

theorem toSubs_flat [DecidableEq α] (cs : List (Cmd α)) (subs : List (SubPath α)) (h : toSubs cs = some subs) :
    flatF subs = cs ∧ ∀ s ∈ subs, s.drawOnly = true :=
  toSubsN_flat cs.length cs subs h

end C09L
