import CanvasModel.C09.Length
import Mathlib.Algebra.Group.Basic
/-! C09 helper lemmas: the accumulation loop of `Path.Length` is additive over concatenation of record
arrays whose second part begins with a MoveTo; additivity over `Append` and over `Join` without a
junction (the C10 path model's `append` / `join`). Exact addition (any additive commutative monoid). -/
namespace C09L
open Canvas Canvas.Path Canvas.C09
variable {K : Type} [AddCommMonoid K]

/-- end point after the records `cs` when the pen was at `start` -/
def endOf (start : Pt K) : List (Cmd K) → Pt K
  | [] => start
  | c :: cs => endOf c.endp cs

theorem lengthFrom_append (f : Pt K → Cmd K → K) (xs ys : List (Cmd K)) : ∀ (start : Pt K) (d : K),
    lengthFrom (· + ·) f start d (xs ++ ys) =
      lengthFrom (· + ·) f (endOf start xs) (lengthFrom (· + ·) f start d xs) ys := by
  induction xs with
  | nil => intro start d; rfl
  | cons c cs ih =>
    intro start d
    cases c <;> simp only [List.cons_append, lengthFrom, endOf, Cmd.endp] <;> exact ih _ _

theorem lengthFrom_acc (f : Pt K → Cmd K → K) (cs : List (Cmd K)) : ∀ (start : Pt K) (d : K),
    lengthFrom (· + ·) f start d cs = d + lengthFrom (· + ·) f start 0 cs := by
  induction cs with
  | nil => intro start d; simp [lengthFrom]
  | cons c cs ih =>
    intro start d
    cases c with
    | move p => simp only [lengthFrom]; exact ih p d
    | line p | quad cp p | cube c1 c2 p | arc rx ry phi l sw p | close p =>
      simp only [lengthFrom]
      rw [ih _ (d + _), ih _ (0 + _), zero_add, add_assoc]

/-- the start point is irrelevant for records that begin with a MoveTo -/
theorem lengthFrom_move_start (f : Pt K → Cmd K → K) (p : Pt K) (cs : List (Cmd K)) (s s' : Pt K) (d : K) :
    lengthFrom (· + ·) f s d (.move p :: cs) = lengthFrom (· + ·) f s' d (.move p :: cs) := rfl

/-- Length is additive over concatenation when the second array begins with a MoveTo -/
theorem pathLength_append (f : Pt K → Cmd K → K) (z p : Pt K) (xs ys : List (Cmd K)) :
    pathLength 0 (· + ·) f z (xs ++ .move p :: ys) =
      pathLength 0 (· + ·) f z xs + pathLength 0 (· + ·) f z (.move p :: ys) := by
  unfold pathLength
  rw [lengthFrom_append, lengthFrom_acc f (.move p :: ys) _ (lengthFrom (· + ·) f z 0 xs)]
  rfl

/-- empty, or beginning with a MoveTo -/
def StartsWithMove (l : List (Cmd K)) : Prop := l = [] ∨ ∃ p r, l = Cmd.move p :: r

theorem pathLength_small (f : Pt K → Cmd K → K) (z : Pt K) (l : RPath K)
    (h : StartsWithMove l.reverse) (he : isEmpty l = true) : pathLength 0 (· + ·) f z l.reverse = 0 := by
  cases l with
  | nil => rfl
  | cons c cs =>
    cases cs with
    | nil =>
      rcases h with h | ⟨p, r, h⟩
      · simp at h
      · simp only [List.reverse_cons, List.reverse_nil, List.nil_append, List.cons.injEq] at h
        rw [List.reverse_cons, List.reverse_nil, List.nil_append, h.1]; rfl
    | cons d ds => simp [isEmpty] at he

/-- a trailing MoveTo carries no length -/
theorem pathLength_dropTrailingMove (f : Pt K → Cmd K → K) (z : Pt K) (p : RPath K) :
    pathLength 0 (· + ·) f z (dropTrailingMove p).reverse = pathLength 0 (· + ·) f z p.reverse := by
  cases p with
  | nil => rfl
  | cons c cs =>
    cases c with
    | move m =>
      simp only [dropTrailingMove, List.reverse_cons, pathLength]
      rw [lengthFrom_append]; rfl
    | _ => rfl

/-- `p.Append(q)`: the length of the result is the sum of the lengths -/
theorem pathLength_appendPath (f : Pt K → Cmd K → K) (z : Pt K) (p q : RPath K)
    (hp : StartsWithMove p.reverse) (hq : StartsWithMove q.reverse) :
    pathLength 0 (· + ·) f z (Path.append p q).reverse =
      pathLength 0 (· + ·) f z p.reverse + pathLength 0 (· + ·) f z q.reverse := by
  unfold Path.append
  by_cases hep : isEmpty p = true
  · have h0 := pathLength_small f z p hp hep
    by_cases heq : isEmpty q = true
    · simp only [hep, heq, if_true]
      rw [h0, pathLength_small f z q hq heq]; simp [pathLength, lengthFrom]
    · simp only [hep, heq, if_true, if_false, Bool.false_eq_true, dropTrailingMove, List.append_nil]
      rw [h0, zero_add]
  · by_cases heq : isEmpty q = true
    · simp only [hep, heq, if_true, if_false, Bool.false_eq_true]
      rw [pathLength_small f z q hq heq, add_zero]
    · simp only [hep, heq, if_false, Bool.false_eq_true, List.reverse_append]
      rcases hq with h | ⟨m, r, h⟩
      · have : q = [] := by simpa using h
        subst this; simp [isEmpty] at heq
      · rw [h, pathLength_append, pathLength_dropTrailingMove]

/-- `p.Join(q)` when no junction is made (the receiver ends with a Close, or its end point differs from
the start of `q`): the records are concatenated and the lengths add up.  (With a junction the first
command of `q` is re-issued through the builder, which may merge it with the last LineTo of `p`; the
length is then additive only for an exact geometric segment length - not covered.) -/
theorem pathLength_join_partial (G : Geo K) (f : Pt K → Cmd K → K) (z : Pt K) (p q : RPath K)
    (hp : StartsWithMove p.reverse) (hq : StartsWithMove q.reverse)
    (hnoj : ∀ m c1 restf, q.reverse = m :: c1 :: restf →
      (headIsClose p || !G.ptEq (pos G p) m.arg12) = true) :
    pathLength 0 (· + ·) f z (Path.join G p q).reverse =
      pathLength 0 (· + ·) f z p.reverse + pathLength 0 (· + ·) f z q.reverse := by
  unfold Path.join
  by_cases heq : isEmpty q = true
  · simp only [heq, if_true]
    rw [pathLength_small f z q hq heq, add_zero]
  · by_cases hep : isEmpty p = true
    · simp only [heq, hep, if_true, if_false, Bool.false_eq_true]
      rw [pathLength_small f z p hp hep, zero_add]
    · simp only [heq, hep, if_false, Bool.false_eq_true]
      have hcat : pathLength 0 (· + ·) f z (q ++ p).reverse =
          pathLength 0 (· + ·) f z p.reverse + pathLength 0 (· + ·) f z q.reverse := by
        rcases hq with h | ⟨m, r, h⟩
        · have : q = [] := by simpa using h
          subst this; simp [isEmpty] at heq
        · rw [List.reverse_append, h, pathLength_append]
      split
      · rename_i m c1 restf hrev
        rw [if_pos (hnoj m c1 restf hrev)]
        exact hcat
      · exact hcat

end C09L
