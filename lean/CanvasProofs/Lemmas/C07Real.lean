import CanvasProofs.Lemmas.C07Basics
import Mathlib.Analysis.SpecialFunctions.Complex.Arg
import Mathlib.Analysis.SpecialFunctions.Sqrt

/-! # C07: the assumptions `Laws` about the abstract `Env` functions are satisfiable — the real square
root, sine, cosine, `π`, and `atan2 y x = arg (x + y i)`, with exact comparisons (`Epsilon = 0`). -/
namespace C07
open Canvas

@[instance_reducible] noncomputable def envReal : Env ℝ where
  epsilon := 0
  tolerance := 0
  pi := Real.pi
  sqrt := Real.sqrt
  sin := Real.sin
  cos := Real.cos
  atan2 := fun y x => Complex.arg ⟨x, y⟩
  acos := id
  hypot := fun x y => Real.sqrt (x * x + y * y)
  round := id
  cbrt := id
  pow := fun _ _ => 0
  isNaN := fun _ => false

theorem norm_mk (x y : ℝ) : ‖(⟨x, y⟩ : ℂ)‖ = Real.sqrt (x * x + y * y) := by
  rw [Complex.norm_def, Complex.normSq_mk]

attribute [local instance] envReal

theorem lawsReal : Laws ℝ where
  sqrt_sq := fun x hx => Real.mul_self_sqrt hx
  hypot_sq := fun x y => Real.mul_self_sqrt (add_nonneg (mul_self_nonneg x) (mul_self_nonneg y))
  cos_add := Real.cos_add
  sin_add := Real.sin_add
  cos_sub := Real.cos_sub
  sin_sub := Real.sin_sub
  cos_zero := Real.cos_zero
  sin_zero := Real.sin_zero
  atan2_cos := by
    intro x y
    show Real.sqrt (x * x + y * y) * Real.cos (Complex.arg ⟨x, y⟩) = x
    by_cases h : (⟨x, y⟩ : ℂ) = 0
    · have hx : x = 0 := by simpa using congrArg Complex.re h
      have hy : y = 0 := by simpa using congrArg Complex.im h
      subst hx hy
      simp
    · rw [Complex.cos_arg h, norm_mk]
      have : Real.sqrt (x * x + y * y) ≠ 0 := by
        rw [← norm_mk]; exact norm_ne_zero_iff.mpr h
      show Real.sqrt (x * x + y * y) * (x / Real.sqrt (x * x + y * y)) = x
      rw [mul_div_assoc', mul_comm, mul_div_assoc, div_self this, mul_one]
  atan2_sin := by
    intro x y
    show Real.sqrt (x * x + y * y) * Real.sin (Complex.arg ⟨x, y⟩) = y
    by_cases h : (⟨x, y⟩ : ℂ) = 0
    · have hx : x = 0 := by simpa using congrArg Complex.re h
      have hy : y = 0 := by simpa using congrArg Complex.im h
      subst hx hy
      simp
    · rw [Complex.sin_arg, norm_mk]
      have : Real.sqrt (x * x + y * y) ≠ 0 := by
        rw [← norm_mk]; exact norm_ne_zero_iff.mpr h
      show Real.sqrt (x * x + y * y) * (y / Real.sqrt (x * x + y * y)) = y
      rw [mul_div_assoc', mul_comm, mul_div_assoc, div_self this, mul_one]
  pi_ne := Real.pi_ne_zero

theorem epsReal : (Env.epsilon : ℝ) = 0 := rfl

end C07
