import CanvasProofs.Lemmas.C19Ops
import Mathlib.Tactic.Ring
import Mathlib.Tactic.Linarith
/-! Helper lemmas for C19 over an ordered field: every transform function is a right multiplication,
and the command lists the shapes of shapes.go produce. -/
set_option linter.unusedSectionVars false
set_option linter.unusedVariables false
namespace C19
open Canvas Canvas.C19 GenK
variable {K : Type} [Field K] [LinearOrder K] [IsStrictOrderedRing K] [Env K] (cd : K → K → List K → K → List K × Bool)

def identK : Mat K := ⟨1, 0, 0, 0, 1, 0⟩

/-! The four laws of the generated `GenK.Matrix.Mul`/`Dot` (the definitions property C07 is about; C07 proves
the same laws in CanvasProofs/C07.lean — restated here so that this file depends only on the generated
definitions, not on another property's proof files). -/
namespace M
theorem mul_assoc (m q r : Mat K) : Matrix.Mul (Matrix.Mul m q) r = Matrix.Mul m (Matrix.Mul q r) := by
  simp only [Matrix.Mul]; congr 1 <;> ring
theorem identity_mul (m : Mat K) : Matrix.Mul identK m = m := by
  cases m; simp [Matrix.Mul, identK]
theorem mul_identity (m : Mat K) : Matrix.Mul m identK = m := by
  cases m; simp [Matrix.Mul, identK]
theorem dot_mul (m q : Mat K) (p : Pt K) : Matrix.Dot (Matrix.Mul m q) p = Matrix.Dot m (Matrix.Dot q p) := by
  simp only [Matrix.Mul, Matrix.Dot]; congr 1 <;> ring
end M

/-- the matrix one transform function contributes -/
def fnMatrix (f : String × List K) : Mat K := (xformStep (opsK cd) (identK, false) f).1

theorem xformStep_mul (m : Mat K) (e : Bool) (f : String × List K) :
    (xformStep (opsK cd) (m, e) f).1 = Matrix.Mul m (fnMatrix cd f) := by
  obtain ⟨name, args⟩ := f
  cases m with | mk a b c d e' f' =>
  unfold fnMatrix xformStep identK
  simp only []
  split
  all_goals (simp only [opsK, arithK, rotate, Matrix.Translate, Matrix.Scale, Matrix.Mul]; congr 1 <;> ring)

theorem foldl_xform (l : List (String × List K)) : ∀ (m : Mat K) (e : Bool),
    (l.foldl (xformStep (opsK cd)) (m, e)).1 = Matrix.Mul m (l.foldl (xformStep (opsK cd)) (identK, false)).1 := by
  induction l with
  | nil => intro m e; simp only [List.foldl_nil]; exact (M.mul_identity m).symm
  | cons f t ih =>
    intro m e
    simp only [List.foldl_cons]
    have h1 : xformStep (opsK cd) (m, e) f = ((xformStep (opsK cd) (m, e) f).1, (xformStep (opsK cd) (m, e) f).2) := rfl
    have h2 : xformStep (opsK cd) (identK, false) f = ((xformStep (opsK cd) (identK, false) f).1, (xformStep (opsK cd) (identK, false) f).2) := rfl
    rw [h1, h2, ih, ih (xformStep (opsK cd) (identK, false) f).1, xformStep_mul, xformStep_mul cd identK]
    rw [show Matrix.Mul (identK : Mat K) (fnMatrix cd f) = fnMatrix cd f from M.identity_mul _]
    exact M.mul_assoc _ _ _

/-! ## transform lists: product and error flag -/

/-- the arity table of the six transform functions (anything else is ignored without error) -/
def badArity (f : String × List K) : Bool :=
  match f.1 with
  | "matrix" => f.2.length != 6
  | "translate" => f.2.length != 1 && f.2.length != 2
  | "scale" => f.2.length != 1 && f.2.length != 2
  | "rotate" => f.2.length != 1 && f.2.length != 3
  | "skewx" => f.2.length != 1
  | "skewy" => f.2.length != 1
  | _ => false

theorem len1 (l : List K) (h : ∀ a, ¬ l = [a]) : ¬ l.length = 1 := by
  intro hl
  rcases l with _ | ⟨a1, _ | ⟨a2, rest⟩⟩ <;> simp at hl
  exact h _ rfl
theorem len2 (l : List K) (h : ∀ a b, ¬ l = [a, b]) : ¬ l.length = 2 := by
  intro hl
  rcases l with _ | ⟨a1, _ | ⟨a2, _ | ⟨a3, rest⟩⟩⟩ <;> simp at hl
  exact h _ _ rfl
theorem len3 (l : List K) (h : ∀ a b c, ¬ l = [a, b, c]) : ¬ l.length = 3 := by
  intro hl
  rcases l with _ | ⟨a1, _ | ⟨a2, _ | ⟨a3, _ | ⟨a4, rest⟩⟩⟩⟩ <;> simp at hl
  exact h _ _ _ rfl
theorem len6 (l : List K) (h : ∀ a b c d e f, ¬ l = [a, b, c, d, e, f]) : ¬ l.length = 6 := by
  intro hl
  rcases l with _ | ⟨a1, _ | ⟨a2, _ | ⟨a3, _ | ⟨a4, _ | ⟨a5, _ | ⟨a6, _ | ⟨a7, rest⟩⟩⟩⟩⟩⟩⟩ <;> simp at hl
  exact h _ _ _ _ _ _ rfl

theorem xformStep_err (m : Mat K) (e : Bool) (f : String × List K) :
    (xformStep (opsK cd) (m, e) f).2 = (e || badArity f) := by
  obtain ⟨name, args⟩ := f
  unfold xformStep
  simp only []
  split <;> simp_all [badArity]
  all_goals first
    | exact Or.inr (len6 _ (by assumption))
    | exact Or.inr ⟨len1 _ (by assumption), len2 _ (by assumption)⟩
    | exact Or.inr ⟨len1 _ (by assumption), len3 _ (by assumption)⟩
    | exact Or.inr (len1 _ (by assumption))

theorem transform_product_aux (l : List (String × List K)) : ∀ (m : Mat K) (e : Bool),
    (l.foldl (xformStep (opsK cd)) (m, e)).1 = (l.map (fnMatrix cd)).foldl Matrix.Mul m ∧
    (l.foldl (xformStep (opsK cd)) (m, e)).2 = (e || l.any badArity) := by
  induction l with
  | nil => intro m e; simp
  | cons f t ih =>
    intro m e
    simp only [List.foldl_cons, List.map_cons, List.any_cons]
    have h : xformStep (opsK cd) (m, e) f = ((xformStep (opsK cd) (m, e) f).1, (xformStep (opsK cd) (m, e) f).2) := rfl
    rw [h, (ih _ _).1, (ih _ _).2, xformStep_mul, xformStep_err, Bool.or_assoc]
    exact ⟨rfl, rfl⟩

/-! ## shapes -/

theorem sameDir_perp (a b : Pt K) (h : Point.PerpDot a b ≠ 0) : sameDir a b = false := by
  unfold sameDir; simp [h]


theorem rectangle_path (w h : K) (heps : (0 : K) ≤ Env.epsilon)
    (hw : GenK.Equal w 0 = false) (hh : GenK.Equal h 0 = false) :
    (rectangle (opsK cd) w h).reverse =
      [.move ⟨0, 0⟩, .line ⟨w, 0⟩, .line ⟨w, h⟩, .line ⟨0, h⟩, .close ⟨0, 0⟩] := by
  have w0 : w ≠ 0 := ne_of_not_equal w 0 heps hw
  have h0 : h ≠ 0 := ne_of_not_equal h 0 heps hh
  have hw' : GenK.Equal 0 w = false := by rw [equal_comm]; exact hw
  have hh' : GenK.Equal 0 h = false := by rw [equal_comm]; exact hh
  have e1 : lineExtendsK (⟨0, 0⟩ : Pt K) ⟨w, 0⟩ ⟨w, h⟩ = false := by
    apply sameDir_perp; simp [psub, Point.PerpDot, w0, h0]
  have e2 : lineExtendsK (⟨w, 0⟩ : Pt K) ⟨w, h⟩ ⟨0, h⟩ = false := by
    apply sameDir_perp; simp [psub, Point.PerpDot, w0, h0]
  have e3 : closeExtendsK (⟨w, h⟩ : Pt K) ⟨0, h⟩ ⟨0, 0⟩ = false := by
    apply sameDir_perp; simp [psub, Point.PerpDot, w0, h0]
  simp [rectangle, lineTo, close, pos, startPos, ptEquals, prep, origin, PCmd.endp, opsK, arithK,
    hw, hh, hw', hh', e1, e2, e3]

/-- a radius the code does not regard as zero is not regarded as equal to its negative either -/
theorem equal_neg (r : K) (heps : (0 : K) ≤ Env.epsilon) (h : GenK.Equal r 0 = false) :
    GenK.Equal r (-r) = false ∧ GenK.Equal (-r) r = false := by
  have key : GenK.Equal r (-r) = false := by
    unfold GenK.Equal at h ⊢
    by_cases h1 : r < 0
    · have h2 : r < -r := by linarith
      simp only [h1, h2, if_true, decide_eq_false_iff_not, not_le] at h ⊢
      linarith
    · have h2 : ¬ r < -r := by intro hh; apply h1; linarith
      simp only [h1, h2, if_false, decide_eq_false_iff_not, not_le] at h ⊢
      linarith
  exact ⟨key, by rw [equal_comm]; exact key⟩

theorem ellipse_path (rx ry : K) (heps : (0 : K) ≤ Env.epsilon)
    (hx : GenK.Equal rx 0 = false) (hy : GenK.Equal ry 0 = false) :
    (ellipse (opsK cd) rx ry).reverse =
      [.move ⟨rx, 0⟩,
       .arc (arcFixK ⟨rx, 0⟩ rx ry ⟨-rx, 0⟩).1 (arcFixK ⟨rx, 0⟩ rx ry ⟨-rx, 0⟩).2.1 (arcFixK ⟨rx, 0⟩ rx ry ⟨-rx, 0⟩).2.2 false true ⟨-rx, 0⟩,
       .arc (arcFixK ⟨-rx, 0⟩ rx ry ⟨rx, 0⟩).1 (arcFixK ⟨-rx, 0⟩ rx ry ⟨rx, 0⟩).2.1 (arcFixK ⟨-rx, 0⟩ rx ry ⟨rx, 0⟩).2.2 false true ⟨rx, 0⟩,
       .close ⟨rx, 0⟩] := by
  obtain ⟨n1, n2⟩ := equal_neg rx heps hx
  simp [ellipse, arcTo0, moveTo, close, pos, startPos, ptEquals, prep, PCmd.endp, opsK, arithK,
    hx, hy, n1, n2]

theorem arcFix_circle (s e : Pt K) (r : K) (hr : 0 < r) (heps : (0 : K) ≤ Env.epsilon) :
    arcFixK s r r e = (r, r, 0) := by
  unfold arcFixK
  simp [abs_of_pos hr, equal_self r heps]

theorem line_path (p1 p2 : Pt K) (hne : ptEquals (opsK cd) p1 p2 = false) :
    (lineTo (opsK cd) p2 (moveTo p1 [])).reverse = [.move p1, .line p2] := by
  simp [lineTo, moveTo, pos, PCmd.endp, prep, hne]

theorem triangle_path (ax ay bx by' cx cy : K)
    (hab : (GenK.Equal ax bx && GenK.Equal ay by') = false)
    (hbc : (GenK.Equal bx cx && GenK.Equal by' cy) = false)
    (hca : (GenK.Equal cx ax && GenK.Equal cy ay) = false)
    (hncol : Point.PerpDot (psub ⟨bx, by'⟩ ⟨ax, ay⟩) (psub ⟨cx, cy⟩ ⟨bx, by'⟩) ≠ 0) :
    (close (opsK cd) (polyPoints (opsK cd) true [ax, ay, bx, by', cx, cy] [])).reverse =
      [.move ⟨ax, ay⟩, .line ⟨bx, by'⟩, .line ⟨cx, cy⟩, .close ⟨ax, ay⟩] := by
  have e1 : lineExtendsK (⟨ax, ay⟩ : Pt K) ⟨bx, by'⟩ ⟨cx, cy⟩ = false := sameDir_perp _ _ hncol
  have e2 : closeExtendsK (⟨bx, by'⟩ : Pt K) ⟨cx, cy⟩ ⟨ax, ay⟩ = false := by
    apply sameDir_perp
    intro h; apply hncol
    simp only [psub, Point.PerpDot] at h ⊢
    linarith
  simp [polyPoints, lineTo, moveTo, close, pos, startPos, ptEquals, PCmd.endp, prep, opsK, arithK,
    hab, hbc, hca, e1, e2]

theorem roundedRectangle_path (W h r : K) (hr : 0 < r) (heps : (0 : K) ≤ Env.epsilon)
    (hW0 : GenK.Equal W 0 = false) (hh0 : GenK.Equal h 0 = false) (hr0 : GenK.Equal r 0 = false)
    (hA : GenK.Equal r (W - r) = false) (hB : GenK.Equal r (h - r) = false)
    (hC : GenK.Equal (h - r) h = false)
    (hrW : r ≤ W / 2) (hrh : r ≤ h / 2) :
    (roundedRectangle (opsK cd) W h r).reverse =
      [.move ⟨0, r⟩, .arc r r 0 false true ⟨r, 0⟩, .line ⟨W - r, 0⟩, .arc r r 0 false true ⟨W, r⟩,
       .line ⟨W, h - r⟩, .arc r r 0 false true ⟨W - r, h⟩, .line ⟨r, h⟩, .arc r r 0 false true ⟨0, h - r⟩,
       .close ⟨0, r⟩] := by
  have h0r : GenK.Equal 0 r = false := by rw [equal_comm]; exact hr0
  have hD : GenK.Equal (W - r) r = false := by rw [equal_comm]; exact hA
  have hnl : ¬ r < 0 := not_lt.mpr (le_of_lt hr)
  have af : ∀ s e : Pt K, arcFixK s r r e = (r, r, 0) := fun s e => arcFix_circle s e r hr heps
  have m1 : min r (W / 2) = r := min_eq_left hrW
  have m2 : min r (h / 2) = r := min_eq_left hrh
  simp [roundedRectangle, arcTo0, lineTo, moveTo, close, pos, startPos, ptEquals, prep, PCmd.endp, opsK, arithK,
    hW0, hh0, hr0, h0r, hA, hB, hC, hD, hnl, af, m1, m2]

/-- scaling a circular corner of radius r by s > 0 in x gives the elliptical corner (s r) x r, larger radius first -/
theorem transformArc_scaleX (s r : K) (hs : 0 < s) (hr : 0 < r) (sweep : Bool) :
    transformArcK (Matrix.Scale identK s 1) r r 0 sweep =
      (if s * r < r then (r, s * r, Env.pi / 2, sweep) else (s * r, r, 0, sweep)) := by
  have hn : ¬ (s < 0) := not_lt.mpr (le_of_lt hs)
  simp [transformArcK, Matrix.Scale, Matrix.Mul, identK, abs_of_pos hs, hn]

theorem transformPath_reverse (m : Mat K) (cs : RPath K) :
    (transformPath (opsK cd) m cs).reverse = transformPath (opsK cd) m cs.reverse := by
  unfold transformPath; rw [List.map_reverse]

end C19
