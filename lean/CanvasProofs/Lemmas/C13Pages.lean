import CanvasProofs.Lemmas.C13Core

/-! Helper definitions and lemmas for C13: page counting, text-object discipline, info entries. -/
namespace C13L
open Canvas.C13

theorem sinv_init0 : SInv ({} : St) := sinv_init

def isNewPage : Op → Bool
  | .newPage .. => true
  | _ => false

def pagesSoFar (s : St) : Nat := s.pages.length + (if s.page.isSome then 1 else 0)

theorem flushPage_pages (env : Env) (s : St) :
    (flushPage env s).pages.length = pagesSoFar s ∧ (flushPage env s).page = none := by
  unfold flushPage pagesSoFar
  cases hp : s.page with
  | none => simp [hp]
  | some p => simp

theorem setAlpha_inText (p : Page) (k pr : Bytes) : (p.setAlpha k pr).inText = p.inText := by
  unfold Page.setAlpha; split <;> (try split) <;> simp [Page.write]

theorem setGradient_inText (env : Env) (p : Page) (st : Bool) (k a1 : Bytes) :
    (p.setGradient env st k a1).inText = p.inText := by
  unfold Page.setGradient
  cases st
  · simp only [Bool.false_eq_true, if_false]
    split
    · exact setAlpha_inText p _ _
    · simp [Page.write, setAlpha_inText]
  · simp only [if_true]
    split
    · exact setAlpha_inText p _ _
    · simp [Page.write, setAlpha_inText]

theorem embedImage_pages (env : Env) (s : St) (id : Nat) : (embedImage env s id).1.pages = s.pages := by
  unfold embedImage; split <;> rfl

theorem drawImage_pages (env : Env) (s : St) (p : Page) (id : Nat) (clip cm a1 : Bytes) :
    (drawImage env s p id clip cm a1).pages = s.pages ∧ (drawImage env s p id clip cm a1).page.isSome = true := by
  unfold drawImage
  simp [embedImage_pages]

theorem drawImage_inText (env : Env) (s : St) (p : Page) (id : Nat) (clip cm a1 : Bytes) :
    ∃ q, (drawImage env s p id clip cm a1).page = some q ∧ q.inText = p.inText := by
  unfold drawImage
  exact ⟨_, rfl, by simp [Page.write, setAlpha_inText]⟩

theorem step_pages (env : Env) (s s' : St) (op : Op) (h : step env s op = some s') :
    pagesSoFar s' = pagesSoFar s + (if isNewPage op then 1 else 0) := by
  cases op with
  | newPage w hh cm =>
    simp [step] at h; subst h
    have := flushPage_pages env s
    simp [pagesSoFar, isNewPage, this.1] at *
  | setCompress b => simp [step] at h; subst h; simp [pagesSoFar, isNewPage]
  | setMeta k rs => simp [step] at h; subst h; simp [pagesSoFar, isNewPage]
  | writeObj v => simp [step] at h; subst h; simp [pagesSoFar, isNewPage]
  | getFont id vert =>
    simp [step] at h; subst h
    simp only [pagesSoFar, isNewPage, getFont]
    split <;> (try split) <;> simp
  | pageWrite bs => simp [step] at h; obtain ⟨p, hp, rfl⟩ := h; simp [pagesSoFar, isNewPage, hp]
  | setAlpha k pr => simp [step] at h; obtain ⟨p, hp, rfl⟩ := h; simp [pagesSoFar, isNewPage, hp]
  | addURI u a b c d => simp [step] at h; obtain ⟨p, hp, rfl⟩ := h; simp [pagesSoFar, isNewPage, hp]
  | setGradient st k a1 => simp [step] at h; obtain ⟨p, hp, rfl⟩ := h; simp [pagesSoFar, isNewPage, hp]
  | startText =>
    simp only [step] at h
    split at h
    · simp at h
    · next p hp => split at h <;> simp at h; subst h; simp [pagesSoFar, isNewPage, hp]
  | endText =>
    simp only [step] at h
    split at h
    · simp at h
    · next p hp => split at h <;> simp at h; subst h; simp [pagesSoFar, isNewPage, hp]
  | setRenderMode m =>
    simp only [step] at h
    split at h
    · simp at h
    · next p hp =>
      split at h
      · simp at h
      · split at h <;> simp at h <;> subst h <;> simp [pagesSoFar, isNewPage, hp]
  | setFont id k pr vert =>
    simp only [step] at h
    split at h
    · simp at h
    · next p hp =>
      split at h
      · simp at h
      · split at h
        · simp at h; subst h; simp [pagesSoFar, isNewPage, hp]
        · simp at h; subst h
          simp only [pagesSoFar, isNewPage, getFont]
          split <;> (try split) <;> simp [hp]

  | drawImage id clip cm a1 =>
    simp only [step] at h
    split at h
    · simp at h
    · next p hp =>
      simp at h; subst h
      have := drawImage_pages env s p id clip cm a1
      simp [pagesSoFar, isNewPage, hp, this.1, this.2]

theorem run_pages (env : Env) : ∀ (ops : List Op) (s s' : St), run env s ops = some s' →
    pagesSoFar s' = pagesSoFar s + ops.countP isNewPage
  | [], s, s', h => by simp [run] at h; subst h; simp
  | op :: ops, s, s', h => by
    simp only [run] at h
    split at h
    · simp at h
    · next s1 h1 =>
      rw [run_pages env ops s1 s' h, step_pages env s s1 op h1, List.countP_cons]
      omega

/-- the discipline the content stream must obey: BT/ET alternate, text-state operators only inside -/
def textOK : Bool → List Op → Bool
  | _, [] => true
  | inT, .startText :: r => !inT && textOK true r
  | inT, .endText :: r => inT && textOK false r
  | inT, .setFont .. :: r => inT && textOK inT r
  | inT, .setRenderMode .. :: r => inT && textOK inT r
  | _, .newPage .. :: r => textOK false r
  | inT, _ :: r => textOK inT r

def inText (s : St) : Bool := match s.page with
  | none => false
  | some p => p.inText

theorem getFont_page (s : St) (id : Nat) (vert : Bool) : (getFont s id vert).1.page = s.page := by
  unfold getFont
  cases vert <;> simp only [if_true, Bool.false_eq_true, if_false] <;> split <;> rfl

theorem text_run (env : Env) : ∀ (ops : List Op) (s s' : St), run env s ops = some s' → textOK (inText s) ops = true
  | [], _, _, _ => rfl
  | op :: ops, s, s', h => by
    simp only [run] at h
    split at h
    · simp at h
    · next s1 h1 =>
      have ih := text_run env ops s1 s' h
      cases op with
      | newPage w hh cm =>
        simp [step] at h1; subst h1
        simpa [textOK, inText] using ih
      | setCompress b => simp [step] at h1; subst h1; simpa [textOK, inText] using ih
      | setMeta k rs => simp [step] at h1; subst h1; simpa [textOK, inText] using ih
      | writeObj v => simp [step] at h1; subst h1; simpa [textOK, inText] using ih
      | getFont id vert =>
        simp [step] at h1; subst h1
        simpa [textOK, inText, getFont_page] using ih
      | pageWrite bs =>
        simp [step] at h1; obtain ⟨p, hp, rfl⟩ := h1
        simpa [textOK, inText, hp, Page.write] using ih
      | setAlpha k pr =>
        simp [step] at h1; obtain ⟨p, hp, rfl⟩ := h1
        have : (p.setAlpha k pr).inText = p.inText := by
          unfold Page.setAlpha; split <;> (try split) <;> simp [Page.write]
        simpa [textOK, inText, hp, this] using ih
      | addURI u a b c d =>
        simp [step] at h1; obtain ⟨p, hp, rfl⟩ := h1
        simpa [textOK, inText, hp] using ih
      | setGradient st k a1 =>
        simp [step] at h1; obtain ⟨p, hp, rfl⟩ := h1
        simpa [textOK, inText, hp, setGradient_inText] using ih
      | startText =>
        simp only [step] at h1
        split at h1
        · simp at h1
        · next p hp =>
          split at h1
          · simp at h1
          · next hin =>
            simp at h1; subst h1
            simp [textOK, inText, hp, hin] at ih ⊢
            exact ih
      | endText =>
        simp only [step] at h1
        split at h1
        · simp at h1
        · next p hp =>
          split at h1
          · next hin =>
            simp at h1; subst h1
            simp [textOK, inText, hp, hin] at ih ⊢
            exact ih
          · simp at h1
      | setRenderMode m =>
        simp only [step] at h1
        split at h1
        · simp at h1
        · next p hp =>
          split at h1
          · simp at h1
          · next hin =>
            simp at hin
            split at h1 <;> simp at h1 <;> subst h1 <;> simp [textOK, inText, hp, hin, Page.write] at ih ⊢ <;> exact ih
      | setFont id k pr vert =>
        simp only [step] at h1
        split at h1
        · simp at h1
        · next p hp =>
          split at h1
          · simp at h1
          · next hin =>
            simp at hin
            split at h1
            · simp at h1; subst h1; simp [textOK, inText, hp, hin] at ih ⊢; exact ih
            · simp at h1; subst h1; simp [textOK, inText, hp, hin, Page.write] at ih ⊢; exact ih

      | drawImage id clip cm a1 =>
        simp only [step] at h1
        split at h1
        · simp at h1
        · next p hp =>
          simp at h1; subst h1
          obtain ⟨q, hq, hin⟩ := drawImage_inText env s p id clip cm a1
          simpa [textOK, inText, hp, hq, hin] using ih

theorem mem_infoEntry (s : St) (k : Nat) (key key' : Bytes) (v : Val) :
    (key', v) ∈ infoEntry s k key ↔ (metaGet s k ≠ [] ∧ key' = key ∧ v = .str (encodeText (metaGet s k))) := by
  unfold infoEntry
  split
  · next h => simp at h; simp [h]
  · next h => simp at h; simp [h]


end C13L
