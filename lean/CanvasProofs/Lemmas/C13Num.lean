import CanvasModel.C13

/-! Helper lemmas for C13: decimal printing, literal strings, text strings. -/
namespace C13L
open Canvas.C13

def digitVal (c : UInt8) : Nat := c.toNat - 48

/-- what a reader does with a run of decimal digits -/
def parseNatAux (acc : Nat) (b : Bytes) : Nat := b.foldl (fun a c => a * 10 + digitVal c) acc
def parseNat (b : Bytes) : Nat := parseNatAux 0 b

theorem toUInt8_toNat (n : Nat) : (Nat.toUInt8 n).toNat = n % 256 := rfl

theorem digit_roundtrip (d : Nat) (h : d < 10) : digitVal (48 + d).toUInt8 = d := by
  unfold digitVal; rw [toUInt8_toNat]; omega

theorem parseNatAux_append (acc : Nat) (a b : Bytes) : parseNatAux acc (a ++ b) = parseNatAux (parseNatAux acc a) b := by
  simp [parseNatAux, List.foldl_append]

theorem parseNatAux_natBytes (n : Nat) : ∀ acc, parseNatAux acc (natBytes n) = acc * 10 ^ (natBytes n).length + n := by
  induction n using natBytes.induct with
  | case1 x hx =>
    intro acc
    rw [natBytes.eq_1]; simp only [hx, if_true]
    simp only [parseNatAux, List.foldl_cons, List.foldl_nil, List.length_cons, List.length_nil]
    rw [digit_roundtrip x hx]
  | case2 x hx ih =>
    intro acc
    rw [natBytes.eq_1]; simp only [hx, if_false]
    rw [parseNatAux_append, ih]
    simp only [parseNatAux, List.foldl_cons, List.foldl_nil, List.length_append, List.length_cons, List.length_nil]
    rw [digit_roundtrip _ (Nat.mod_lt _ (by omega))]
    rw [Nat.pow_succ]
    have := Nat.div_add_mod x 10
    rw [Nat.add_mul, Nat.mul_assoc]
    omega

theorem parseNat_natBytes (n : Nat) : parseNat (natBytes n) = n := by
  unfold parseNat; rw [parseNatAux_natBytes]; simp

theorem parseNatAux_zeros (k : Nat) : ∀ acc, parseNatAux acc (List.replicate k 0x30) = acc * 10 ^ k := by
  induction k with
  | zero => intro acc; simp [parseNatAux]
  | succ k ih =>
    intro acc
    rw [List.replicate_succ]
    show parseNatAux (acc * 10 + digitVal 0x30) (List.replicate k 0x30) = _
    rw [ih]
    have : digitVal 0x30 = 0 := by decide
    rw [this, Nat.pow_succ]; simp [Nat.mul_assoc, Nat.mul_comm]

/-- a reader recovers the offset from a `%010d` field (leading zeros are harmless) -/
theorem parseNat_pad10 (n : Nat) : parseNat (pad10 n) = n := by
  unfold parseNat pad10
  simp only []
  rw [parseNatAux_append, parseNatAux_zeros, parseNatAux_natBytes]; simp

theorem natBytes_length_pos (n : Nat) : 0 < (natBytes n).length := by
  rw [natBytes.eq_1]; split <;> simp

theorem natBytes_length_le (k : Nat) : ∀ n, n < 10 ^ (k + 1) → (natBytes n).length ≤ k + 1 := by
  induction k with
  | zero => intro n hn; rw [natBytes.eq_1]; simp at hn; simp [hn]
  | succ k ih =>
    intro n hn
    rw [natBytes.eq_1]
    split
    · simp
    · have : n / 10 < 10 ^ (k + 1) := by
        rw [Nat.pow_succ] at hn
        exact Nat.div_lt_of_lt_mul (by rw [Nat.mul_comm]; exact hn)
      have := ih (n / 10) this
      simp; omega

theorem pad10_length (n : Nat) (h : n < 10 ^ 10) : (pad10 n).length = 10 := by
  have := natBytes_length_le 9 n h
  unfold pad10
  simp only [List.length_append, List.length_replicate]
  omega

/-! ### literal strings -/

theorem readLit_escStr (s : Bytes) (tail : Bytes) :
    readLit 0 (escStr s ++ 0x29 :: tail) = some (s, tail) := by
  induction s with
  | nil => rw [readLit.eq_def]; simp [escStr]
  | cons c cs ih =>
    have o1 : isOct 0x5C = false := by decide
    have o2 : isOct 0x28 = false := by decide
    have o3 : isOct 0x29 = false := by decide
    unfold escStr
    by_cases h1 : c = 0x5C
    · subst h1
      simp only [if_true, List.cons_append]
      rw [readLit.eq_def]
      simp [ih, consRes, o1]
    · by_cases h2 : c = 0x28
      · subst h2
        simp only [List.cons_append]
        rw [readLit.eq_def]
        simp [ih, consRes, o2, o3]
      · by_cases h3 : c = 0x29
        · subst h3
          simp only [List.cons_append]
          rw [readLit.eq_def]
          simp [ih, consRes, o2, o3]
        · by_cases h4 : c = 0x0D
          · subst h4
            simp only [List.cons_append]
            rw [readLit.eq_def]
            simp [ih, consRes]
          · simp only [h1, h2, h3, h4, if_false, List.cons_append]
            rw [readLit.eq_def]
            simp [h1, h2, h3, h4, ih, consRes]

/-! ### text strings -/

def ValidScalar (r : Nat) : Prop := r < 0xD800 ∨ (0xE000 ≤ r ∧ r < 0x110000)

theorem u8_hi (u : Nat) (h : u < 65536) : (u / 256).toUInt8.toNat = u / 256 := by
  rw [toUInt8_toNat]; omega
theorem u8_lo (u : Nat) : (u % 256).toUInt8.toNat = u % 256 := by
  rw [toUInt8_toNat]; omega


def EvenTail (rest : Bytes) : Prop := rest = [] ∨ ∃ c d r', rest = c :: d :: r'

theorem decode_unit (u : Nat) (hu : u < 65536) (hs : ¬ (0xD800 ≤ u ∧ u < 0xDC00)) (rest : Bytes) (hr : EvenTail rest) :
    decodeUtf16 (utf16Unit u ++ rest) = u :: decodeUtf16 rest := by
  have e : (u / 256).toUInt8.toNat * 256 + (u % 256).toUInt8.toNat = u := by
    rw [u8_hi u hu, u8_lo]; omega
  rcases hr with rfl | ⟨c, d, r', rfl⟩
  · simp only [utf16Unit, List.append_nil]
    rw [decodeUtf16.eq_def]; simp only [e]
    rw [decodeUtf16.eq_def]
  · simp only [utf16Unit, List.cons_append, List.nil_append]
    rw [decodeUtf16.eq_def]; simp only [e]
    have : ¬ (0xD800 ≤ u ∧ u < 0xDC00 ∧ 0xDC00 ≤ c.toNat * 256 + d.toNat ∧ c.toNat * 256 + d.toNat < 0xE000) :=
      fun h => hs ⟨h.1, h.2.1⟩
    simp only [this, if_false]

theorem unit_val (u : Nat) (h : u < 65536) : (u / 256).toUInt8.toNat * 256 + (u % 256).toUInt8.toNat = u := by
  rw [u8_hi u h, u8_lo]; omega

theorem decode_pair' (hi lo : Nat) (h1 : 0xD800 ≤ hi) (h2 : hi < 0xDC00) (h3 : 0xDC00 ≤ lo) (h4 : lo < 0xE000) (rest : Bytes) :
    decodeUtf16 (utf16Unit hi ++ utf16Unit lo ++ rest)
      = (0x10000 + (hi - 0xD800) * 1024 + (lo - 0xDC00)) :: decodeUtf16 rest := by
  have e1 := unit_val hi (by omega)
  have e2 := unit_val lo (by omega)
  simp only [utf16Unit, List.cons_append, List.nil_append]
  rw [decodeUtf16.eq_def]
  simp only [e1, e2]
  have c : 0xD800 ≤ hi ∧ hi < 0xDC00 ∧ 0xDC00 ≤ lo ∧ lo < 0xE000 := ⟨h1, h2, h3, h4⟩
  rw [if_pos c]

theorem decode_pair (r : Nat) (h1 : 0x10000 ≤ r) (h2 : r < 0x110000) (rest : Bytes) :
    decodeUtf16 (utf16Unit (0xD800 + (r - 0x10000) / 1024) ++ utf16Unit (0xDC00 + (r - 0x10000) % 1024) ++ rest)
      = r :: decodeUtf16 rest := by
  generalize hhi : 0xD800 + (r - 0x10000) / 1024 = hi
  generalize hlo : 0xDC00 + (r - 0x10000) % 1024 = lo
  have a1 : 0xD800 ≤ hi := by omega
  have a2 : hi < 0xDC00 := by omega
  have a3 : 0xDC00 ≤ lo := by omega
  have a4 : lo < 0xE000 := by omega
  rw [decode_pair' hi lo a1 a2 a3 a4]
  have e : 0x10000 + (hi - 0xD800) * 1024 + (lo - 0xDC00) = r := by omega
  rw [e]

theorem utf16Rune_cases (r : Nat) (hv : ValidScalar r) :
    (r < 0x10000 ∧ ¬ (0xD800 ≤ r ∧ r < 0xDC00) ∧ utf16Rune r = utf16Unit r) ∨
    (0x10000 ≤ r ∧ r < 0x110000 ∧
      utf16Rune r = utf16Unit (0xD800 + (r - 0x10000) / 1024) ++ utf16Unit (0xDC00 + (r - 0x10000) % 1024)) := by
  unfold ValidScalar at hv
  unfold utf16Rune
  split
  · left; exact ⟨by omega, by omega, rfl⟩
  · split
    · omega
    · split
      · left; exact ⟨by omega, by omega, rfl⟩
      · split
        · right; exact ⟨by omega, by omega, rfl⟩
        · omega

theorem utf16Rune_evenTail (rs : List Nat) : EvenTail (rs.map utf16Rune).flatten := by
  cases rs with
  | nil => left; rfl
  | cons r rs =>
    right
    simp only [List.map_cons, List.flatten_cons, utf16Rune, utf16Unit]
    split
    · exact ⟨_, _, _, rfl⟩
    · split
      · exact ⟨_, _, _, rfl⟩
      · split
        · exact ⟨_, _, _, rfl⟩
        · split
          · exact ⟨_, _, _, rfl⟩
          · exact ⟨_, _, _, rfl⟩

theorem decode_encode_utf16 (rs : List Nat) (h : ∀ r ∈ rs, ValidScalar r) :
    decodeUtf16 (rs.map utf16Rune).flatten = rs := by
  induction rs with
  | nil => rw [decodeUtf16.eq_def]; rfl
  | cons r rs ih =>
    have ih' := ih (fun x hx => h x (by simp [hx]))
    have hv := h r (by simp)
    have ht := utf16Rune_evenTail rs
    simp only [List.map_cons, List.flatten_cons]
    rcases utf16Rune_cases r hv with ⟨h1, h2, e⟩ | ⟨h1, h2, e⟩
    · rw [e, decode_unit r h1 h2 _ ht, ih']
    · rw [e, decode_pair r h1 h2, ih']

theorem decodeText_encodeText (rs : List Nat) (h : ∀ r ∈ rs, ValidScalar r) : decodeText (encodeText rs) = rs := by
  unfold encodeText
  split
  · next hall =>
    have hall' : ∀ r ∈ rs, r < 0x80 := by simpa using hall
    have hmap : (rs.map Nat.toUInt8).map UInt8.toNat = rs := by
      rw [List.map_map]
      conv => rhs; rw [← List.map_id rs]
      apply List.map_congr_left
      intro r hr
      have := hall' r hr
      simp only [Function.comp, toUInt8_toNat, id]; omega
    cases rs with
    | nil => rfl
    | cons a t =>
      have ha := hall' a (by simp)
      rw [decodeText.eq_def]
      simp only [List.map_cons]
      split
      · next heq =>
        simp only [List.cons.injEq] at heq
        have : (Nat.toUInt8 a).toNat = 0xFE := by rw [heq.1]; rfl
        rw [toUInt8_toNat] at this; omega
      · simpa using hmap
  · rw [decodeText.eq_def]
    exact decode_encode_utf16 rs h

end C13L
