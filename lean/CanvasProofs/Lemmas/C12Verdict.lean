import CanvasModel.C12.Verdict
/-!
Soundness of the verdict spec `matchItems` (CanvasModel/C12/Verdict.lean): verdict "no difference" implies
that the observed list has the expected length and every pair of items agrees in kind, path, rule / closing,
colour, alpha and stroke parameters up to the closeness predicate; the verdict is monotone in the closeness
predicate; exact observations pass when closeness is reflexive.
-/
namespace Canvas.C12.Verdict
section
variable {ν : Type} {close close' : ν → ν → Bool}

/-- what "the observed item is the expected one" means -/
def ItemAgrees (close : ν → ν → Bool) (b : Bind) : TItem ν → TItem ν → Prop
  | .fill o eo sh a, .fill o' eo' sh' a' =>
    o = o' ∧ eo = eo' ∧ (shadeOk close b sh sh').1 = true ∧ close a a' = true
  | .stroke o cl sh a lw c j ml da ph, .stroke o' cl' sh' a' lw' c' j' ml' da' ph' =>
    o = o' ∧ cl = cl' ∧ (shadeOk close b sh sh').1 = true ∧ close a a' = true ∧ close lw lw' = true ∧ c = c' ∧ j = j' ∧
      closeOpt close ml ml' = true ∧ closeList close da da' = true ∧ close ph ph' = true
  | .image a, .image a' => close a a' = true
  | _, _ => False

theorem firstFail_none (l : List (Bool × String)) : firstFail l = none ↔ ∀ p ∈ l, p.1 = false := by
  induction l with
  | nil => simp [firstFail]
  | cons p rest ih =>
    obtain ⟨bad, c⟩ := p
    cases bad <;> simp [firstFail, ih]

theorem itemDiff_sound (b : Bind) (e o : TItem ν) (h : (itemDiff close b e o).1 = none) : ItemAgrees close b e o := by
  cases e with
  | fill o1 eo sh a =>
    cases o with
    | fill o2 eo2 sh2 a2 =>
      simp only [itemDiff, firstFail_none] at h
      simp only [ItemAgrees]
      simp at h
      simp_all
    | stroke => simp [itemDiff] at h
    | image => simp [itemDiff] at h
    | invalid => simp [itemDiff] at h
  | stroke o1 cl sh a lw c j ml da ph =>
    cases o with
    | stroke o2 cl2 sh2 a2 lw2 c2 j2 ml2 da2 ph2 =>
      simp only [itemDiff, firstFail_none] at h
      simp only [ItemAgrees]
      simp at h
      simp_all
    | fill => simp [itemDiff] at h
    | image => simp [itemDiff] at h
    | invalid => simp [itemDiff] at h
  | image a =>
    cases o with
    | image a2 =>
      simp only [itemDiff, firstFail_none] at h
      simp only [ItemAgrees]
      simp at h
      simp_all
    | fill => simp [itemDiff] at h
    | stroke => simp [itemDiff] at h
    | invalid => simp [itemDiff] at h
  | invalid why => cases o <;> simp [itemDiff] at h

/-- every pair agrees (with the binding in force at that point) -/
inductive AllAgree (close : ν → ν → Bool) : Bind → List (TItem ν) → List (TItem ν) → Prop
  | nil (b : Bind) : AllAgree close b [] []
  | cons {b : Bind} {e o : TItem ν} {es os : List (TItem ν)} :
      ItemAgrees close b e o → AllAgree close (itemDiff close b e o).2 es os → AllAgree close b (e :: es) (o :: os)

/-- SOUNDNESS: verdict `none` ⇒ same number of items, pairwise agreement -/
theorem matchItems_sound : ∀ (b : Bind) (es os : List (TItem ν)), (matchItems close b es os).1 = none →
    AllAgree close b es os
  | b, [], [], _ => AllAgree.nil b
  | b, [], o :: os, h => by
    cases o <;> simp [matchItems] at h
  | b, e :: es, [], h => by simp [matchItems] at h
  | b, e :: es, o :: os, h => by
    simp only [matchItems] at h
    split at h
    · simp at h
    · rename_i b' hd
      have h1 : (itemDiff close b e o).1 = none := by rw [hd]
      have h2 : (itemDiff close b e o).2 = b' := by rw [hd]
      exact AllAgree.cons (itemDiff_sound b e o h1) (h2 ▸ matchItems_sound b' es os h)

theorem AllAgree.length {b : Bind} {es os : List (TItem ν)} (h : AllAgree close b es os) : es.length = os.length := by
  induction h with
  | nil => rfl
  | cons _ _ ih => simp [ih]

theorem matchItems_length (b : Bind) (es os : List (TItem ν)) (h : (matchItems close b es os).1 = none) :
    es.length = os.length := (matchItems_sound b es os h).length

/-- an observed `invalid` item (unknown operator, bad operands, undefined resource, Q without q) never passes -/
theorem matchItems_invalid (b : Bind) (es : List (TItem ν)) (why : String) (os : List (TItem ν)) :
    (matchItems close b es (.invalid why :: os)).1 ≠ none := by
  cases es with
  | nil => simp [matchItems]
  | cons e es =>
    simp only [matchItems]
    cases e <;> simp [itemDiff]

/-! ### monotone in the closeness predicate -/

theorem closeList_mono (hm : ∀ x y, close x y = true → close' x y = true) :
    ∀ a b : List ν, closeList close a b = true → closeList close' a b = true
  | [], [], _ => by simp [closeList]
  | [], _ :: _, h => by simp [closeList] at h
  | _ :: _, [], h => by simp [closeList] at h
  | x :: xs, y :: ys, h => by
    simp only [closeList, Bool.and_eq_true] at h ⊢
    exact ⟨hm _ _ h.1, closeList_mono hm xs ys h.2⟩

theorem closeOpt_mono (hm : ∀ x y, close x y = true → close' x y = true) (a b : Option ν)
    (h : closeOpt close a b = true) : closeOpt close' a b = true := by
  cases a <;> cases b <;> simp_all [closeOpt]

theorem shadeOk_mono (hm : ∀ x y, close x y = true → close' x y = true) (b : Bind) (s t : TShade ν)
    (h : (shadeOk close b s t).1 = true) : (shadeOk close' b s t).1 = true ∧ (shadeOk close' b s t).2 = (shadeOk close b s t).2 := by
  cases s <;> cases t <;> simp_all [shadeOk]

theorem itemDiff_mono (hm : ∀ x y, close x y = true → close' x y = true) (b : Bind) (e o : TItem ν)
    (h : (itemDiff close b e o).1 = none) :
    (itemDiff close' b e o).1 = none ∧ (itemDiff close' b e o).2 = (itemDiff close b e o).2 := by
  have hs := itemDiff_sound b e o h
  cases e with
  | fill o1 eo sh a =>
    cases o with
    | fill o2 eo2 sh2 a2 =>
      simp only [ItemAgrees] at hs
      obtain ⟨h1, h2, h3, h4⟩ := hs
      have hk := shadeOk_mono hm b sh sh2 h3
      simp [itemDiff, firstFail_none, h1, h2, hk.1, hk.2, hm _ _ h4]
    | stroke => simp [ItemAgrees] at hs
    | image => simp [ItemAgrees] at hs
    | invalid => simp [ItemAgrees] at hs
  | stroke o1 cl sh a lw c j ml da ph =>
    cases o with
    | stroke o2 cl2 sh2 a2 lw2 c2 j2 ml2 da2 ph2 =>
      simp only [ItemAgrees] at hs
      obtain ⟨h1, h2, h3, h4, h5, h6, h7, h8, h9, h10⟩ := hs
      have hk := shadeOk_mono hm b sh sh2 h3
      simp [itemDiff, firstFail_none, h1, h2, hk.1, hk.2, hm _ _ h4, hm _ _ h5, h6, h7, closeOpt_mono hm _ _ h8,
        closeList_mono hm _ _ h9, hm _ _ h10]
    | fill => simp [ItemAgrees] at hs
    | image => simp [ItemAgrees] at hs
    | invalid => simp [ItemAgrees] at hs
  | image a =>
    cases o with
    | image a2 =>
      simp only [ItemAgrees] at hs
      simp [itemDiff, firstFail_none, hm _ _ hs]
    | fill => simp [ItemAgrees] at hs
    | stroke => simp [ItemAgrees] at hs
    | invalid => simp [ItemAgrees] at hs
  | invalid why => cases o <;> simp [ItemAgrees] at hs

/-- MONOTONE: a verdict "no difference" survives any weakening of the closeness predicate (larger tolerance) -/
theorem matchItems_mono (hm : ∀ x y, close x y = true → close' x y = true) :
    ∀ (b : Bind) (es os : List (TItem ν)), (matchItems close b es os).1 = none → (matchItems close' b es os).1 = none
  | b, [], [], _ => by simp [matchItems]
  | b, [], o :: os, h => by cases o <;> simp [matchItems] at h
  | b, e :: es, [], h => by simp [matchItems] at h
  | b, e :: es, o :: os, h => by
    simp only [matchItems] at h ⊢
    split at h
    · simp at h
    · rename_i b' hd
      have h1 : (itemDiff close b e o).1 = none := by rw [hd]
      have h2 : (itemDiff close b e o).2 = b' := by rw [hd]
      have hm' := itemDiff_mono hm b e o h1
      have : itemDiff close' b e o = (none, b') := by
        rw [← h2, ← hm'.2]; exact Prod.ext hm'.1 rfl
      rw [this]
      exact matchItems_mono hm b' es os h

/-! ### exact observations pass (completeness on the reference itself, device colours) -/

def plainItem : TItem ν → Prop
  | .fill _ _ (.rgb _ _ _) _ => True
  | .stroke _ _ (.rgb _ _ _) _ _ _ _ _ _ _ => True
  | .image _ => True
  | _ => False

theorem closeList_refl (hr : ∀ x, close x x = true) : ∀ a : List ν, closeList close a a = true
  | [] => rfl
  | x :: xs => by simp [closeList, hr, closeList_refl hr xs]

theorem itemDiff_refl (hr : ∀ x, close x x = true) (b : Bind) (e : TItem ν) (hp : plainItem e) :
    itemDiff close b e e = (none, b) := by
  cases e with
  | fill o eo sh a =>
    cases sh with
    | rgb r g bl => simp [itemDiff, firstFail, shadeOk, hr]
    | pat n => simp [plainItem] at hp
  | stroke o cl sh a lw c j ml da ph =>
    cases sh with
    | rgb r g bl =>
      cases ml <;> simp [itemDiff, firstFail, shadeOk, hr, closeOpt, closeList_refl hr]
    | pat n => simp [plainItem] at hp
  | image a => simp [itemDiff, firstFail, hr]
  | invalid why => simp [plainItem] at hp

theorem matchItems_refl (hr : ∀ x, close x x = true) (b : Bind) :
    ∀ es : List (TItem ν), (∀ e ∈ es, plainItem e) → (matchItems close b es es).1 = none
  | [], _ => by simp [matchItems]
  | e :: es, h => by
    simp only [matchItems, itemDiff_refl hr b e (h e (by simp))]
    exact matchItems_refl hr b es (fun e' he' => h e' (by simp [he']))

end
end Canvas.C12.Verdict
