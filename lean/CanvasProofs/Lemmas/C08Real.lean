import CanvasProofs.Lemmas.C08
import CanvasProofs.Lemmas.C08Angle
import Mathlib.Analysis.Real.Sqrt

/-! # C08 — the hypotheses of the theorems are satisfiable: the real numbers with `Real.sqrt`,
`Epsilon = 0` and floor-based `math.Mod` (non-vacuity only; nothing else is proved here). -/
namespace C08
open Canvas Canvas.C08

@[instance_reducible] noncomputable def envR : Env ℝ :=
  ⟨0, 0, 3, Real.sqrt, fun _ => 0, fun _ => 1, fun _ _ => 0, id, fun _ _ => 0, id, id, fun _ _ => 0, fun _ => false⟩
@[instance_reducible] noncomputable def arcR : ArcFns ℝ := ⟨fun x y => x - ⌊x / y⌋ * y⟩

attribute [local instance] envR arcR

theorem envR_eps : (Env.epsilon : ℝ) = 0 := rfl
theorem envR_sqrt : ∀ x : ℝ, 0 ≤ x → Env.sqrt x * Env.sqrt x = x := fun x hx => Real.mul_self_sqrt hx
theorem envR_sqrt' : ∀ x : ℝ, 0 ≤ x → Env.sqrt x * Env.sqrt x = x ∧ 0 ≤ Env.sqrt x :=
  fun x hx => ⟨Real.mul_self_sqrt hx, Real.sqrt_nonneg x⟩
theorem envR_pi : 0 < (Env.pi : ℝ) := by show (0 : ℝ) < 3; norm_num

theorem fmodSpecR : FmodSpec ℝ := by
  intro x y hy
  show |x - ⌊x / y⌋ * y| < y ∧ ∃ k : ℤ, x = x - ⌊x / y⌋ * y + k * y
  refine ⟨?_, ⌊x / y⌋, by ring⟩
  have h1 : (⌊x / y⌋ : ℝ) ≤ x / y := Int.floor_le _
  have h2 : x / y < ⌊x / y⌋ + 1 := Int.lt_floor_add_one _
  rw [le_div_iff₀ hy] at h1
  rw [div_lt_iff₀ hy] at h2
  rw [abs_lt]; constructor <;> nlinarith

end C08
