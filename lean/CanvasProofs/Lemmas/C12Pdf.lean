import CanvasProofs.Lemmas.C12
/-!
C12, PDF: the blocks of `PDF.RenderPath` (fill block, stroke set-up, painting) simulated by the
interpreter, with the cache after each block, assuming lawful `==` (since 8a6095d/413caa6 every
paint sets its own alpha, no assumption on the cache's alpha is left).
-/
namespace Canvas.C12
section
variable {ν : Type} {N : Num ν}

/-- the cache after the five stroke setters -/
def strokeCache (N : Num ν) (d : Draw ν) (c : PC ν) : PC ν :=
  { c with stroke := d.stroke, alpha := d.stroke.alpha, lw := d.w' N true, cap := d.cap, join := joinCode d.join,
           ml := (match joinLimit d.join with | some l => l | none => c.ml),
           dashes := pdfDashArr (d.dashes' N true), phase := pdfPhaseOf N (d.off' N true) (d.dashes' N true) }

theorem strokeSetup_c (L : Lawful N) (d : Draw ν) (w : PW ν) (hs : d.stroke ≠ .none) (hj : d.join.pdfOk = true)
    (hi : PInv N w.c) :
    (PAct.seq (pdfStrokeSetup N d) w).1.c = strokeCache N d w.c := by
  simp only [pdfStrokeSetup, hj, PAct.seq]
  have e1 := setStroke_c d.stroke hs w
  have e2 := setLineWidth_c L (d.w' N true) (setStroke d.stroke w).1
  rw [e1] at e2
  have e3 := setLineCap_c d.cap (setLineWidth N (d.w' N true) (setStroke d.stroke w).1).1
  rw [e2] at e3
  have e4 := setLineJoin_c L d.join hj (setLineCap d.cap (setLineWidth N (d.w' N true) (setStroke d.stroke w).1).1).1
  rw [e3] at e4
  have hi4 : PInv N (setLineJoin N d.join (setLineCap d.cap (setLineWidth N (d.w' N true) (setStroke d.stroke w).1).1).1).1.c := by
    rw [e4]; exact hi
  have e5 := setDashes_c L (d.off' N true) (d.dashes' N true) _ hi4
  rw [e4] at e5
  rw [e5]
  rfl

theorem strokeSetup_sim (d : Draw ν) (w : PW ν) (hs : d.stroke ≠ .none) (hj : d.join.pdfOk = true) :
    PSim (PAct.seq (pdfStrokeSetup N d)) w [] := by
  simp only [pdfStrokeSetup]
  have := PSim.cons (setStroke_sim d.stroke hs w)
    (PSim.cons (setLineWidth_sim (N := N) (d.w' N d.join.pdfOk) _)
      (PSim.cons (setLineCap_sim d.cap _)
        (PSim.cons (setLineJoin_sim (N := N) d.join hj _)
          (PSim.cons (setDashes_sim (N := N) (d.off' N d.join.pdfOk) (d.dashes' N d.join.pdfOk) _) (PSim.nil _)))))
  simpa using this

theorem strokeCache_alpha (d : Draw ν) (c : PC ν) : (strokeCache N d c).alpha = d.stroke.alpha := rfl
theorem strokeCache_fill (d : Draw ν) (c : PC ν) : (strokeCache N d c).fill = c.fill := rfl

theorem strokeCache_inv (d : Draw ν) (c : PC ν) : PInv N (strokeCache N d c) := by
  intro h
  simp only [strokeCache] at h
  simp [strokeCache, pdfPhaseOf, h]

/-- the limit the interpreter attaches to a miter join is the style's -/
theorem strokeCache_ml (d : Draw ν) (c : PC ν) (hj : d.join.pdfOk = true) :
    (if (gOf (strokeCache N d c)).join == 0 then some (gOf (strokeCache N d c)).ml else none) = joinLimit d.join := by
  cases hjn : d.join with
  | bevel => simp [gOf, strokeCache, hjn, joinCode, joinLimit]
  | round => simp [gOf, strokeCache, hjn, joinCode, joinLimit]
  | arcs g l => simp [hjn, Join.pdfOk] at hj
  | miter g l =>
    cases l with
    | none => simp [hjn, Join.pdfOk] at hj
    | some l => simp [gOf, strokeCache, hjn, joinCode, joinLimit]

/-- the stroke item the reference states for a native stroke -/
def refStroke (N : Num ν) (d : Draw ν) : Painted ν :=
  .stroke [.orig d.pid] d.closed (shadeOf d.stroke) d.stroke.alpha (d.w' N true) d.cap (joinCode d.join) (joinLimit d.join)
    (pdfDashArr (d.dashes' N true)) (pdfPhaseOf N (d.off' N true) (d.dashes' N true))

theorem strokeItem_ref (d : Draw ν) (c : PC ν) (hj : d.join.pdfOk = true) :
    (gOf (strokeCache N d c)).strokeItem (.orig d.pid) d.closed = refStroke N d := by
  unfold PG.strokeItem refStroke
  rw [strokeCache_ml (N := N) d c hj]
  simp [gOf, strokeCache]

theorem fillItem_ref (p : Paint) (c : PC ν) (r : PathRef) (eo : Bool) :
    (gOf { c with fill := p, alpha := p.alpha }).fillItem r eo = .fill [r] eo (shadeOf p) p.alpha := by
  simp [PG.fillItem, gOf]

end
end Canvas.C12

namespace Canvas.C12
section
variable {ν : Type} {N : Num ν}

theorem pdfPaint_fillK (g : PG ν) (p : PathRef) (eo : Bool) : pdfPaint g p (fillK eo) = [g.fillItem p eo] := by
  cases eo <;> simp [fillK, pdfPaint]

theorem pdfPaint_strokeK (g : PG ν) (p : PathRef) (cl : Bool) : pdfPaint g p (strokeK cl) = [g.strokeItem p cl] := by
  cases cl <;> simp [strokeK, pdfPaint]

theorem pdfPaint_bothK (g : PG ν) (p : PathRef) (cl eo : Bool) :
    pdfPaint g p (bothK cl eo) = [g.fillItem p eo, g.strokeItem p cl] := by
  cases cl <;> cases eo <;> simp [bothK, pdfPaint]

/-- fill block: `SetFill; data; f|f*` -/
theorem blockFill (p : Paint) (hp : p ≠ .none) (w : PW ν) (r : PathRef) (eo : Bool) :
    PSim (PAct.seq [setFill p, say [.path r, .paint (fillK eo)]]) w [.fill [r] eo (shadeOf p) p.alpha] ∧
    (PAct.seq [setFill p, say [.path r, .paint (fillK eo)]] w).1.c = { w.c with fill := p, alpha := p.alpha } := by
  have hc := setFill_c p hp w
  constructor
  · have h := PSim.cons (setFill_sim p hp w) (PSim.single (say_path_paint_sim r (fillK eo) (setFill p w).1))
    rw [hc, pdfPaint_fillK, fillItem_ref p w.c] at h
    simpa using h
  · simp [PAct.seq, say, hc]

/-- stroke block: the five setters, `data`, one painting operator -/
theorem blockStroke (L : Lawful N) (d : Draw ν) (w : PW ν) (hs : d.stroke ≠ .none) (hj : d.join.pdfOk = true)
    (hi : PInv N w.c) (r : PathRef) (k : PK) :
    PSim (PAct.seq (pdfStrokeSetup N d ++ [say [.path r, .paint k]])) w (pdfPaint (gOf (strokeCache N d w.c)) r k) ∧
    (PAct.seq (pdfStrokeSetup N d ++ [say [.path r, .paint k]]) w).1.c = strokeCache N d w.c := by
  have hc := strokeSetup_c L d w hs hj hi
  constructor
  · have h := PSim.append (strokeSetup_sim (N := N) d w hs hj)
      (PSim.single (say_path_paint_sim r k (PAct.seq (pdfStrokeSetup N d) w).1))
    rw [hc] at h
    simpa using h
  · simp [PAct.seq_append, PAct.seq, say, hc]

theorem Paint.has_ne {p : Paint} (h : p.has = true) : p ≠ .none := by
  cases p <;> simp_all [Paint.has]

theorem pdfRef_eq (d : Draw ν) :
    pdfRef N d = refPaint N d.join.pdfOk pdfDashArr (fun ph a => pdfPhaseOf N ph a) d := rfl

theorem sameAlpha_eq {d : Draw ν} (h : d.sameAlpha = true) : d.fill.alpha = d.stroke.alpha := by
  simp [Draw.sameAlpha] at h
  omega

/-- one `PDF.RenderPath` call from ANY cache: the interpreter paints the reference and ends in the state the
new cache claims; cache well-formedness is kept -/
theorem pdfDraw_refines (L : Lawful N) (d : Draw ν) (w : PW ν) (hi : PInv N w.c) :
    PSim (pdfDraw N d) w (pdfRef N d) ∧ PInv N (pdfDraw N d w).1.c := by
  rw [pdfRef_eq]
  by_cases hs : d.hasStroke N d.join.pdfOk = true
  · have hsn : d.stroke ≠ .none := Paint.has_ne (by simp [Draw.hasStroke] at hs; exact hs.1)
    by_cases hn : d.native d.join.pdfOk = true
    · have hj : d.join.pdfOk = true := by simp [Draw.native] at hn; exact hn.1
      have hs' : d.hasStroke N true = true := hj ▸ hs
      have hn' : d.native true = true := hj ▸ hn
      by_cases hf : d.hasFill = true
      · have hfn : d.fill ≠ .none := Paint.has_ne hf
        by_cases hsa : d.sameAlpha = true
        · -- SetFill, stroke set-up, data, b|B[*]
          have e : pdfDraw N d = PAct.seq ([setFill d.fill] ++ (pdfStrokeSetup N d ++
              [say [.path (.orig d.pid), .paint (bothK d.closed d.evenOdd)]])) := by
            funext w; simp [pdfDraw, hs, hn, hf, hsa]
          have hc1 := setFill_c d.fill hfn w
          have hi1 : PInv N (PAct.seq [setFill d.fill] w).1.c := by
            rw [PAct.seq_single, hc1]; exact hi
          have b := blockStroke L d (PAct.seq [setFill d.fill] w).1 hsn hj hi1 (.orig d.pid) (bothK d.closed d.evenOdd)
          have h := PSim.append (PSim.single (setFill_sim d.fill hfn w)) b.1
          rw [e]
          refine ⟨?_, ?_⟩
          · rw [PAct.seq_single, hc1, pdfPaint_bothK, strokeItem_ref d _ hj] at h
            have hfi : (gOf (strokeCache N d { w.c with fill := d.fill, alpha := d.fill.alpha })).fillItem (.orig d.pid) d.evenOdd =
                .fill [.orig d.pid] d.evenOdd (shadeOf d.fill) d.fill.alpha := by
              simp [PG.fillItem, gOf, strokeCache, sameAlpha_eq hsa]
            rw [hfi] at h
            simpa [refPaint, hj, hs', hn', hf, refStroke] using h
          · rw [PAct.seq_append, b.2]; exact strokeCache_inv d _
        · -- SetFill, data, f[*]; stroke set-up, data, s|S
          have e : pdfDraw N d = PAct.seq ([setFill d.fill, say [.path (.orig d.pid), .paint (fillK d.evenOdd)]] ++
              (pdfStrokeSetup N d ++ [say [.path (.orig d.pid), .paint (strokeK d.closed)]])) := by
            funext w; simp [pdfDraw, hs, hn, hf, hsa]
          have bf := blockFill d.fill hfn w (.orig d.pid) d.evenOdd
          have hi1 : PInv N (PAct.seq [setFill d.fill, say [.path (.orig d.pid), .paint (fillK d.evenOdd)]] w).1.c := by
            rw [bf.2]; exact hi
          have b := blockStroke L d _ hsn hj hi1 (.orig d.pid) (strokeK d.closed)
          have h := PSim.append bf.1 b.1
          rw [e]
          refine ⟨?_, ?_⟩
          · rw [bf.2, pdfPaint_strokeK, strokeItem_ref d _ hj] at h
            simpa [refPaint, hj, hs', hn', hf, refStroke] using h
          · rw [PAct.seq_append, b.2]; exact strokeCache_inv d _
      · -- stroke only
        have e : pdfDraw N d = PAct.seq (pdfStrokeSetup N d ++ [say [.path (.orig d.pid), .paint (strokeK d.closed)]]) := by
          funext w; simp [pdfDraw, hs, hn, hf]
        have b := blockStroke L d w hsn hj hi (.orig d.pid) (strokeK d.closed)
        rw [e]
        refine ⟨?_, ?_⟩
        · have h := b.1
          rw [pdfPaint_strokeK, strokeItem_ref d _ hj] at h
          simpa [refPaint, hj, hs', hn', hf, refStroke] using h
        · rw [b.2]; exact strokeCache_inv d _
    · -- explicit outline
      by_cases hoe : d.outlineEmpty = true
      · -- empty outline: nothing is written for the stroke
        by_cases hf : d.hasFill = true
        · have hfn : d.fill ≠ .none := Paint.has_ne hf
          have e : pdfDraw N d = PAct.seq [setFill d.fill, say [.path (.orig d.pid), .paint (fillK d.evenOdd)]] := by
            funext w; simp [pdfDraw, hs, hn, hf, hoe]
          have bf := blockFill d.fill hfn w (.orig d.pid) d.evenOdd
          rw [e]
          refine ⟨?_, ?_⟩
          · simpa [refPaint, hs, hn, hf, hoe] using bf.1
          · rw [bf.2]; exact hi
        · have e : pdfDraw N d = PAct.seq [] := by
            funext w; simp [pdfDraw, hs, hn, hf, hoe]
          rw [e]
          refine ⟨?_, hi⟩
          simp [PSim, PAct.seq, pdfRun, refPaint, hs, hn, hf, hoe]
      · by_cases hf : d.hasFill = true
        · have hfn : d.fill ≠ .none := Paint.has_ne hf
          have e : pdfDraw N d = PAct.seq ([setFill d.fill, say [.path (.orig d.pid), .paint (fillK d.evenOdd)]] ++
              [setFill d.stroke, say [.path (.outline d.pid), .paint (fillK false)]]) := by
            funext w; simp [pdfDraw, hs, hn, hf, hoe, fillK]
          have bf := blockFill d.fill hfn w (.orig d.pid) d.evenOdd
          have bs := blockFill d.stroke hsn (PAct.seq [setFill d.fill, say [.path (.orig d.pid), .paint (fillK d.evenOdd)]] w).1
            (.outline d.pid) false
          have h := PSim.append bf.1 bs.1
          rw [e]
          refine ⟨?_, ?_⟩
          · simpa [refPaint, hs, hn, hf, hoe] using h
          · rw [PAct.seq_append, bs.2, bf.2]; exact hi
        · have e : pdfDraw N d = PAct.seq [setFill d.stroke, say [.path (.outline d.pid), .paint (fillK false)]] := by
            funext w; simp [pdfDraw, hs, hn, hf, hoe, fillK]
          have bs := blockFill d.stroke hsn w (.outline d.pid) false
          rw [e]
          refine ⟨?_, ?_⟩
          · simpa [refPaint, hs, hn, hf, hoe] using bs.1
          · rw [bs.2]; exact hi
  · by_cases hf : d.hasFill = true
    · have hfn : d.fill ≠ .none := Paint.has_ne hf
      have e : pdfDraw N d = PAct.seq [setFill d.fill, say [.path (.orig d.pid), .paint (fillK d.evenOdd)]] := by
        funext w; simp [pdfDraw, hs, hf]
      have bf := blockFill d.fill hfn w (.orig d.pid) d.evenOdd
      rw [e]
      refine ⟨?_, ?_⟩
      · simpa [refPaint, hs, hf] using bf.1
      · rw [bf.2]; exact hi
    · have e : pdfDraw N d = say [] := by
        funext w; simp [pdfDraw, hs, hf]
      rw [e]
      refine ⟨?_, hi⟩
      simp [PSim, say, pdfRun, refPaint, hs, hf]

end
end Canvas.C12

namespace Canvas.C12
section
variable {ν : Type} {N : Num ν}

/-! ### unconditional: cache = graphics state after every call (no assumption on `==`, alpha, dashes) -/

def PSimE (a : PAct ν) (w : PW ν) : Prop := ∃ out, PSim a w out

theorem PSimE.nil (w : PW ν) : PSimE (PAct.seq []) w := ⟨[], PSim.nil w⟩

theorem PSimE.cons {a : PAct ν} {as : List (PAct ν)} {w : PW ν}
    (h1 : PSimE a w) (h2 : ∀ w', PSimE (PAct.seq as) w') : PSimE (PAct.seq (a :: as)) w := by
  obtain ⟨o1, h1⟩ := h1
  obtain ⟨o2, h2⟩ := h2 (a w).1
  exact ⟨o1 ++ o2, PSim.cons h1 h2⟩

theorem PSimE.append {as bs : List (PAct ν)} {w : PW ν}
    (h1 : PSimE (PAct.seq as) w) (h2 : ∀ w', PSimE (PAct.seq bs) w') : PSimE (PAct.seq (as ++ bs)) w := by
  obtain ⟨o1, h1⟩ := h1
  obtain ⟨o2, h2⟩ := h2 (PAct.seq as w).1
  exact ⟨o1 ++ o2, PSim.append h1 h2⟩

theorem sayPaint_simE (r : PathRef) (k : PK) (w : PW ν) : PSimE (PAct.seq [say [.path r, .paint k]]) w :=
  ⟨_, PSim.single (say_path_paint_sim r k w)⟩

theorem fillBlock_simE (p : Paint) (hp : p ≠ .none) (r : PathRef) (k : PK) (w : PW ν) :
    PSimE (PAct.seq [setFill p, say [.path r, .paint k]]) w :=
  PSimE.cons ⟨[], setFill_sim p hp w⟩ (fun w' => sayPaint_simE r k w')

theorem pdfDraw_simE (d : Draw ν) (w : PW ν) : PSimE (pdfDraw N d) w := by
  by_cases hs : d.hasStroke N d.join.pdfOk = true
  · have hsn : d.stroke ≠ .none := Paint.has_ne (by simp [Draw.hasStroke] at hs; exact hs.1)
    by_cases hn : d.native d.join.pdfOk = true
    · have hj : d.join.pdfOk = true := by simp [Draw.native] at hn; exact hn.1
      have hsetup : ∀ w', PSimE (PAct.seq (pdfStrokeSetup N d)) w' := fun w' => ⟨[], strokeSetup_sim d w' hsn hj⟩
      by_cases hf : d.hasFill = true
      · have hfn : d.fill ≠ .none := Paint.has_ne hf
        by_cases hsa : d.sameAlpha = true
        · have e : pdfDraw N d = PAct.seq ([setFill d.fill] ++ (pdfStrokeSetup N d ++
              [say [.path (.orig d.pid), .paint (bothK d.closed d.evenOdd)]])) := by
            funext w; simp [pdfDraw, hs, hn, hf, hsa]
          rw [e]
          exact PSimE.append ⟨[], PSim.single (setFill_sim d.fill hfn w)⟩
            (fun w' => PSimE.append (hsetup w') (fun w'' => sayPaint_simE _ _ w''))
        · have e : pdfDraw N d = PAct.seq ([setFill d.fill, say [.path (.orig d.pid), .paint (fillK d.evenOdd)]] ++
              (pdfStrokeSetup N d ++ [say [.path (.orig d.pid), .paint (strokeK d.closed)]])) := by
            funext w; simp [pdfDraw, hs, hn, hf, hsa]
          rw [e]
          exact PSimE.append (fillBlock_simE d.fill hfn _ _ w)
            (fun w' => PSimE.append (hsetup w') (fun w'' => sayPaint_simE _ _ w''))
      · have e : pdfDraw N d = PAct.seq (pdfStrokeSetup N d ++ [say [.path (.orig d.pid), .paint (strokeK d.closed)]]) := by
          funext w; simp [pdfDraw, hs, hn, hf]
        rw [e]
        exact PSimE.append (hsetup w) (fun w'' => sayPaint_simE _ _ w'')
    · by_cases hoe : d.outlineEmpty = true
      · by_cases hf : d.hasFill = true
        · have hfn : d.fill ≠ .none := Paint.has_ne hf
          have e : pdfDraw N d = PAct.seq [setFill d.fill, say [.path (.orig d.pid), .paint (fillK d.evenOdd)]] := by
            funext w; simp [pdfDraw, hs, hn, hf, hoe]
          rw [e]
          exact fillBlock_simE d.fill hfn _ _ w
        · have e : pdfDraw N d = PAct.seq [] := by
            funext w; simp [pdfDraw, hs, hn, hf, hoe]
          rw [e]
          exact PSimE.nil w
      · by_cases hf : d.hasFill = true
        · have hfn : d.fill ≠ .none := Paint.has_ne hf
          have e : pdfDraw N d = PAct.seq ([setFill d.fill, say [.path (.orig d.pid), .paint (fillK d.evenOdd)]] ++
              [setFill d.stroke, say [.path (.outline d.pid), .paint .f]]) := by
            funext w; simp [pdfDraw, hs, hn, hf, hoe]
          rw [e]
          exact PSimE.append (fillBlock_simE d.fill hfn _ _ w) (fun w' => fillBlock_simE d.stroke hsn _ _ w')
        · have e : pdfDraw N d = PAct.seq [setFill d.stroke, say [.path (.outline d.pid), .paint .f]] := by
            funext w; simp [pdfDraw, hs, hn, hf, hoe]
          rw [e]
          exact fillBlock_simE d.stroke hsn _ _ w
  · by_cases hf : d.hasFill = true
    · have hfn : d.fill ≠ .none := Paint.has_ne hf
      have e : pdfDraw N d = PAct.seq [setFill d.fill, say [.path (.orig d.pid), .paint (fillK d.evenOdd)]] := by
        funext w; simp [pdfDraw, hs, hf]
      rw [e]
      exact fillBlock_simE d.fill hfn _ _ w
    · have e : pdfDraw N d = say [] := by
        funext w; simp [pdfDraw, hs, hf]
      rw [e]
      exact ⟨[], by simp [PSim, say, pdfRun]⟩

/-- the emitter never produces an operator the interpreter rejects: every painted item of a call is
a fill or a stroke (no `invalid`) -/
def Painted.valid : Painted ν → Bool
  | .invalid _ => false
  | _ => true

end
end Canvas.C12
