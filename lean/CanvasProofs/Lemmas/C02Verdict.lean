import CanvasModel.C02.Verdict
import Mathlib.Tactic.Linarith
/-! Soundness and completeness of the C02 verdict function, monotonicity in the tolerance, and the
symmetries of the per-point judgement. -/
namespace Canvas.C02
open Canvas Canvas.Wn

/-- what the property demands of one judged point, in terms of the two winding numbers -/
def PointOK (rule : Rule) (wp wr : Int) : Prop :=
  rule.fills wp = Rule.nonZero.fills wr ∧ (wr = 0 ∨ wr = 1)

theorem pointClass_none_iff (rule : Rule) (wp wr : Int) :
    pointClass rule wp wr = none ↔ PointOK rule wp wr := by
  unfold pointClass PointOK
  by_cases h1 : rule.fills wp = Rule.nonZero.fills wr
  · by_cases h2 : wr = 0
    · simp [h1, h2]
    · by_cases h3 : wr = 1
      · simp [h1, h3]
      · simp [h1, h2, h3]
  · simp [h1]

/-- a point that passes reads the same under NonZero, EvenOdd and Positive in the result -/
theorem pointOK_rules_agree (rule : Rule) (wp wr : Int) (h : PointOK rule wp wr) :
    Rule.evenOdd.fills wr = rule.fills wp ∧ Rule.positive.fills wr = rule.fills wp ∧
      Rule.negative.fills wr = false := by
  obtain ⟨h1, h2⟩ := h
  rw [h1]
  rcases h2 with rfl | rfl <;> decide

theorem scanPts_ok (rule : Rule) (P R : List (List IPt)) (d2 : Int) (pts : List IPt) (idx c k c' k' : Nat)
    (h : scanPts rule P R d2 pts idx c k = .ok c' k') :
    (∀ p ∈ pts, judged P R d2 p = true → PointOK rule (wn p P) (wn p R)) ∧ c' + k' = c + k + pts.length ∧
      c ≤ c' ∧ k ≤ k' := by
  induction pts generalizing idx c k with
  | nil =>
    simp only [scanPts, Verdict.ok.injEq] at h
    obtain ⟨rfl, rfl⟩ := h
    exact ⟨fun p hp => (by cases hp), (by simp), Nat.le_refl _, Nat.le_refl _⟩
  | cons p rest ih =>
    simp only [scanPts] at h
    by_cases hj : judged P R d2 p = true
    · rw [if_pos hj] at h
      cases hc : pointClass rule (wn p P) (wn p R) with
      | some cls => rw [hc] at h; cases h
      | none =>
        rw [hc] at h
        obtain ⟨a, b, c1, c2⟩ := ih _ _ _ h
        refine ⟨?_, by simp only [List.length_cons]; omega, by omega, c2⟩
        intro q hq hjq
        rcases List.mem_cons.mp hq with rfl | hq
        · exact (pointClass_none_iff _ _ _).mp hc
        · exact a q hq hjq
    · rw [if_neg hj] at h
      obtain ⟨a, b, c1, c2⟩ := ih _ _ _ h
      refine ⟨?_, by simp only [List.length_cons]; omega, c1, by omega⟩
      intro q hq hjq
      rcases List.mem_cons.mp hq with rfl | hq
      · exact absurd hjq hj
      · exact a q hq hjq

theorem scanPts_complete (rule : Rule) (P R : List (List IPt)) (d2 : Int) (pts : List IPt) (idx c k : Nat)
    (h : ∀ p ∈ pts, judged P R d2 p = true → PointOK rule (wn p P) (wn p R)) :
    ∃ c' k', scanPts rule P R d2 pts idx c k = .ok c' k' := by
  induction pts generalizing idx c k with
  | nil => exact ⟨c, k, rfl⟩
  | cons p rest ih =>
    simp only [scanPts]
    have hr : ∀ q ∈ rest, judged P R d2 q = true → PointOK rule (wn q P) (wn q R) :=
      fun q hq => h q (List.mem_cons_of_mem _ hq)
    by_cases hj : judged P R d2 p = true
    · rw [if_pos hj]
      have := (pointClass_none_iff _ _ _).mpr (h p List.mem_cons_self hj)
      rw [this]
      exact ih _ _ _ hr
    · rw [if_neg hj]; exact ih _ _ _ hr

theorem scanPts_not_crosses (rule : Rule) (P R : List (List IPt)) (d2 : Int) (pts : List IPt) (idx c k i j : Nat) :
    scanPts rule P R d2 pts idx c k ≠ .crosses i j := by
  induction pts generalizing idx c k with
  | nil => simp [scanPts]
  | cons p rest ih =>
    simp only [scanPts]
    split
    · split
      · simp
      · exact ih _ _ _
    · exact ih _ _ _

theorem firstCrossWith_none (d2 : Int) (s : IPt × IPt) (l : List (IPt × IPt)) (j : Nat) :
    firstCrossWith d2 s l j = none ↔ ∀ t ∈ l, crossFar d2 s t = false := by
  induction l generalizing j with
  | nil => simp [firstCrossWith]
  | cons t rest ih =>
    simp only [firstCrossWith]
    by_cases hc : crossFar d2 s t = true
    · simp [hc]
    · have hc' : crossFar d2 s t = false := by simpa using hc
      simp [hc', ih]

def NoCross (d2 : Int) (l : List (IPt × IPt)) : Prop := l.Pairwise (fun s t => crossFar d2 s t = false)

theorem firstCross_none (d2 : Int) (l : List (IPt × IPt)) (i : Nat) :
    firstCross d2 l i = none ↔ NoCross d2 l := by
  induction l generalizing i with
  | nil => simp [firstCross, NoCross]
  | cons s rest ih =>
    simp only [firstCross, NoCross, List.pairwise_cons]
    cases h : firstCrossWith d2 s rest (i + 1) with
    | some j =>
      simp only [reduceCtorEq, false_iff, not_and]
      intro hall
      have := (firstCrossWith_none d2 s rest (i + 1)).mpr hall
      rw [h] at this; cases this
    | none =>
      have h' := (firstCrossWith_none d2 s rest (i + 1)).mp h
      simp only [ih (i + 1)]
      exact ⟨fun hn => ⟨h', hn⟩, fun hn => hn.2⟩

/-- what the property demands of one observation (input P, result R, query points, tolerance) -/
def Holds (rule : Rule) (P R : List (List IPt)) (pts : List IPt) (d2 : Int) : Prop :=
  (∀ p ∈ pts, judged P R d2 p = true → PointOK rule (wn p P) (wn p R)) ∧ NoCross d2 (allSegs R)

/-- soundness: verdict ok ⇒ every judged point has equal fill and winding 0 or 1, no two result
segments cross, and the counts account for every query point -/
theorem verdict_ok_sound (rule : Rule) (P R : List (List IPt)) (pts : List IPt) (d2 : Int) (c k : Nat)
    (h : verdict rule P R pts d2 = .ok c k) : Holds rule P R pts d2 ∧ c + k = pts.length := by
  unfold verdict at h
  cases hs : scanPts rule P R d2 pts 0 0 0 with
  | ok c' k' =>
    rw [hs] at h
    simp only at h
    cases hf : firstCross d2 (allSegs R) 0 with
    | some ij => rw [hf] at h; obtain ⟨i, j⟩ := ij; cases h
    | none =>
      rw [hf] at h
      simp only [Verdict.ok.injEq] at h
      obtain ⟨rfl, rfl⟩ := h
      obtain ⟨a, b, -, -⟩ := scanPts_ok rule P R d2 pts 0 0 0 c' k' hs
      exact ⟨⟨a, (firstCross_none d2 _ 0).mp hf⟩, by omega⟩
  | failPoint cls idx wp wr => rw [hs] at h; cases h
  | crosses i j => exact absurd hs (scanPts_not_crosses _ _ _ _ _ _ _ _ _ _)

/-- completeness: if the observation satisfies the predicate the verdict is ok -/
theorem verdict_ok_complete (rule : Rule) (P R : List (List IPt)) (pts : List IPt) (d2 : Int)
    (h : Holds rule P R pts d2) : ∃ c k, verdict rule P R pts d2 = .ok c k := by
  obtain ⟨c, k, hs⟩ := scanPts_complete rule P R d2 pts 0 0 0 h.1
  have hf := (firstCross_none d2 (allSegs R) 0).mpr h.2
  exact ⟨c, k, by simp [verdict, hs, hf]⟩

/-! ### monotonicity in the tolerance -/

theorem farFromSeg_mono (p a b : IPt) (d d' : Int) (hd : d ≤ d') (h : farFromSeg p a b d' = true) :
    farFromSeg p a b d = true := by
  unfold farFromSeg at h ⊢
  simp only at h ⊢
  split
  · rename_i hc; rw [if_pos hc] at h
    simp only [decide_eq_true_eq] at h ⊢; omega
  · rename_i hc; rw [if_neg hc] at h
    split
    · rename_i hc2; rw [if_pos hc2] at h
      simp only [decide_eq_true_eq] at h ⊢; omega
    · rename_i hc2; rw [if_neg hc2] at h
      simp only [decide_eq_true_eq] at h ⊢
      have hl : 0 ≤ (b.x - a.x) * (b.x - a.x) + (b.y - a.y) * (b.y - a.y) := by nlinarith [mul_self_nonneg (b.x - a.x), mul_self_nonneg (b.y - a.y)]
      nlinarith [Int.mul_le_mul_of_nonneg_right hd hl]

theorem farFromChain_mono (p : IPt) (d d' : Int) (hd : d ≤ d') (l : List IPt)
    (h : farFromChain p d' l = true) : farFromChain p d l = true := by
  induction l with
  | nil => rfl
  | cons a rest ih =>
    cases rest with
    | nil => rfl
    | cons b rest' =>
      simp only [farFromChain, Bool.and_eq_true] at h ⊢
      exact ⟨farFromSeg_mono p a b d d' hd h.1, ih h.2⟩

theorem farFromPoly_mono (p : IPt) (d d' : Int) (hd : d ≤ d') (poly : List IPt)
    (h : farFromPoly p d' poly = true) : farFromPoly p d poly = true := by
  unfold farFromPoly at h ⊢
  split at h
  · rfl
  · exact farFromSeg_mono _ _ _ _ _ hd h
  · exact farFromChain_mono p d d' hd _ h

theorem farFromAll_mono (p : IPt) (d d' : Int) (hd : d ≤ d') (polys : List (List IPt))
    (h : farFromAll p d' polys = true) : farFromAll p d polys = true := by
  unfold farFromAll at h ⊢
  rw [List.all_eq_true] at h ⊢
  exact fun x hx => farFromPoly_mono p d d' hd x (h x hx)

theorem judged_mono (P R : List (List IPt)) (d d' : Int) (hd : d ≤ d') (p : IPt)
    (h : judged P R d' p = true) : judged P R d p = true := by
  simp only [judged, Bool.and_eq_true] at h ⊢
  exact ⟨farFromAll_mono p d d' hd P h.1, farFromAll_mono p d d' hd R h.2⟩

theorem crossFar_mono (d d' : Int) (hd : d ≤ d') (s t : IPt × IPt) (h : crossFar d s t = false) :
    crossFar d' s t = false := by
  by_cases h' : crossFar d' s t = true
  · exfalso
    simp only [crossFar, Bool.and_eq_true] at h'
    obtain ⟨⟨⟨⟨a, b⟩, c⟩, e⟩, f⟩ := h'
    have : crossFar d s t = true := by
      simp only [crossFar, Bool.and_eq_true]
      exact ⟨⟨⟨⟨a, farFromSeg_mono _ _ _ _ _ hd b⟩, farFromSeg_mono _ _ _ _ _ hd c⟩,
        farFromSeg_mono _ _ _ _ _ hd e⟩, farFromSeg_mono _ _ _ _ _ hd f⟩
    rw [h] at this; cases this
  · simpa using h'

/-- an observation accepted at tolerance δ is accepted at every larger tolerance -/
theorem holds_mono (rule : Rule) (P R : List (List IPt)) (pts : List IPt) (d d' : Int) (hd : d ≤ d')
    (h : Holds rule P R pts d) : Holds rule P R pts d' :=
  ⟨fun p hp hj => h.1 p hp (judged_mono P R d d' hd p hj),
   List.Pairwise.imp (fun {s t} hst => crossFar_mono d d' hd s t hst) h.2⟩

/-! ### symmetries of the per-point judgement -/

theorem pointClass_input_reversed (rule : Rule) (hr : rule = .nonZero ∨ rule = .evenOdd) (wp wr : Int) :
    pointClass rule (-wp) wr = pointClass rule wp wr := by
  have : rule.fills (-wp) = rule.fills wp := by
    rcases hr with rfl | rfl
    · simp [Rule.fills]
    · simp only [Rule.fills]
      simp
  simp [pointClass, this]

theorem pointClass_positive_negative (wp wr : Int) :
    pointClass .positive (-wp) wr = pointClass .negative wp wr := by
  have : Rule.positive.fills (-wp) = Rule.negative.fills wp := by
    simp only [Rule.fills]
    simp
  simp [pointClass, this]

end Canvas.C02
