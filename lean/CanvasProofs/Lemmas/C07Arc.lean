import CanvasProofs.Lemmas.C07Eigen

/-! # C07 helper lemmas: the ellipse equation `Path.Transform` builds for an arc, and its relation to the
image of the original ellipse. -/
set_option linter.unusedSectionVars false
set_option linter.unusedVariables false
namespace C07
open Canvas Canvas.C07 GenK

variable {K : Type} [Field K] [LinearOrder K] [IsStrictOrderedRing K] [Env K]

/-- `T⁻ᵀ · diag(p, q) · T⁻¹` as the library computes it with `Inv`, `T`, `Scale`, `Mul` (the translation
entries are carried along and ignored) -/
theorem qOfT (t00 t01 tc t10 t11 tf p q : K) (hD : t00 * t11 - t01 * t10 ≠ 0) :
    let T : Mat K := Mat.mk t00 t01 tc t10 t11 tf
    let Q := Matrix.Mul (Matrix.Mul (Matrix.T (Matrix.Inv T)) (Matrix.Scale (Mat.mk 1 0 0 0 1 0) p q)) (Matrix.Inv T)
    let D := t00 * t11 - t01 * t10
    Q.a = (p * t11 * t11 + q * t10 * t10) / (D * D) ∧
    Q.b = -(p * t01 * t11 + q * t00 * t10) / (D * D) ∧
    Q.d = -(p * t01 * t11 + q * t00 * t10) / (D * D) ∧
    Q.e = (p * t01 * t01 + q * t00 * t00) / (D * D) := by
  intro T Q D
  simp only [Q, T, D, Matrix.Mul, Matrix.T, Matrix.Inv, Matrix.Scale, Matrix.Det]
  refine ⟨?_, ?_, ?_, ?_⟩ <;> field_simp <;> ring

/-- The scaled ellipse equation `Q` of `Path.Transform` is `s` times the form of the image ellipse
(`s = rx·ry·|det m|`), entry by entry; in particular it is symmetric. -/
theorem arcQ_eq (m : Mat K) (rx ry s c : K) (hcs : c * c + s * s = 1) (hdet : Matrix.Det m ≠ 0)
    (hrx : rx ≠ 0) (hry : ry ≠ 0) :
    (arcQ m rx ry (s, c)).a = rx * ry * |Matrix.Det m| * ((ellipseForm rx ry c s).push m.a m.b m.d m.e).a ∧
    (arcQ m rx ry (s, c)).b = rx * ry * |Matrix.Det m| * ((ellipseForm rx ry c s).push m.a m.b m.d m.e).b ∧
    (arcQ m rx ry (s, c)).d = rx * ry * |Matrix.Det m| * ((ellipseForm rx ry c s).push m.a m.b m.d m.e).b ∧
    (arcQ m rx ry (s, c)).e = rx * ry * |Matrix.Det m| * ((ellipseForm rx ry c s).push m.a m.b m.d m.e).c := by
  have hDT : (m.a * c + m.b * s) * (m.e * c - m.d * s) - (m.b * c - m.a * s) * (m.d * c + m.e * s) = m.a * m.e - m.b * m.d := by
    linear_combination (m.a * m.e - m.b * m.d) * hcs
  have hD0 : m.a * m.e - m.b * m.d ≠ 0 := by simpa [Matrix.Det] using hdet
  have hD : (m.a * c + m.b * s) * (m.e * c - m.d * s) - (m.b * c - m.a * s) * (m.d * c + m.e * s) ≠ 0 := by
    rw [hDT]; exact hD0
  obtain ⟨qa, qb, qd, qe⟩ := qOfT (m.a * c + m.b * s) (m.b * c - m.a * s) m.c (m.d * c + m.e * s) (m.e * c - m.d * s) m.f
    (rx * ry * |Matrix.Det m| / rx / rx) (rx * ry * |Matrix.Det m| / ry / ry) hD
  simp only [hDT] at qa qb qd qe
  simp only [arcQ, rotateSC_eq, ops_minv, ops_mT, ops_mmul, ops_mscale, ops_mdet, ops_abs, identity]
  rw [qa, qb, qd, qe]
  generalize |Matrix.Det m| = A
  simp only [ellipseForm, Form.push]
  refine ⟨?_, ?_, ?_, ?_⟩ <;> field_simp <;> ring

/-- The ellipse equation of `Path.Transform` is positive definite (trace and determinant positive). -/
theorem arcQ_pos (m : Mat K) (rx ry s c : K) (hcs : c * c + s * s = 1) (hdet : Matrix.Det m ≠ 0)
    (hrx : 0 < rx) (hry : 0 < ry) :
    0 < (arcQ m rx ry (s, c)).a + (arcQ m rx ry (s, c)).e ∧
    0 < (arcQ m rx ry (s, c)).a * (arcQ m rx ry (s, c)).e - (arcQ m rx ry (s, c)).b * (arcQ m rx ry (s, c)).d := by
  have hDT : (m.a * c + m.b * s) * (m.e * c - m.d * s) - (m.b * c - m.a * s) * (m.d * c + m.e * s) = m.a * m.e - m.b * m.d := by
    linear_combination (m.a * m.e - m.b * m.d) * hcs
  have hD0 : m.a * m.e - m.b * m.d ≠ 0 := by simpa [Matrix.Det] using hdet
  have hD : (m.a * c + m.b * s) * (m.e * c - m.d * s) - (m.b * c - m.a * s) * (m.d * c + m.e * s) ≠ 0 := by
    rw [hDT]; exact hD0
  have hA : 0 < |Matrix.Det m| := abs_pos.mpr hdet
  obtain ⟨qa, qb, qd, qe⟩ := qOfT (m.a * c + m.b * s) (m.b * c - m.a * s) m.c (m.d * c + m.e * s) (m.e * c - m.d * s) m.f
    (rx * ry * |Matrix.Det m| / rx / rx) (rx * ry * |Matrix.Det m| / ry / ry) hD
  simp only [arcQ, rotateSC_eq, ops_minv, ops_mT, ops_mmul, ops_mscale, ops_mdet, ops_abs, identity]
  rw [qa, qb, qd, qe]
  have hp : 0 < rx * ry * |Matrix.Det m| / rx / rx := by positivity
  have hq : 0 < rx * ry * |Matrix.Det m| / ry / ry := by positivity
  generalize rx * ry * |Matrix.Det m| / rx / rx = p at hp ⊢
  generalize rx * ry * |Matrix.Det m| / ry / ry = q at hq ⊢
  generalize m.a * c + m.b * s = t00 at hD ⊢
  generalize m.b * c - m.a * s = t01 at hD ⊢
  generalize m.d * c + m.e * s = t10 at hD ⊢
  generalize m.e * c - m.d * s = t11 at hD ⊢
  have hDD : 0 < (t00 * t11 - t01 * t10) * (t00 * t11 - t01 * t10) := mul_self_pos.mpr hD
  constructor
  · have hnum : 0 < (p * t11 * t11 + q * t10 * t10) + (p * t01 * t01 + q * t00 * t00) := by
      have hs : 0 < t00 * t00 + t01 * t01 + t10 * t10 + t11 * t11 := by
        by_contra hcon
        have h1 := mul_self_nonneg t00
        have h2 := mul_self_nonneg t01
        have h3 := mul_self_nonneg t10
        have h4 := mul_self_nonneg t11
        have e1 : t00 * t00 = 0 := by linarith
        have e2 : t01 * t01 = 0 := by linarith
        have z1 : t00 = 0 := mul_self_eq_zero.mp e1
        have z2 : t01 = 0 := mul_self_eq_zero.mp e2
        apply hD
        rw [z1, z2]; ring
      nlinarith [mul_self_nonneg t00, mul_self_nonneg t01, mul_self_nonneg t10, mul_self_nonneg t11,
        mul_pos hp (show (0:K) < 1 by norm_num), mul_nonneg hp.le (mul_self_nonneg t11), mul_nonneg hp.le (mul_self_nonneg t01),
        mul_nonneg hq.le (mul_self_nonneg t10), mul_nonneg hq.le (mul_self_nonneg t00),
        mul_pos (lt_min hp hq) hs, min_le_left p q, min_le_right p q,
        mul_nonneg (sub_nonneg.mpr (min_le_left p q)) (add_nonneg (mul_self_nonneg t11) (mul_self_nonneg t01)),
        mul_nonneg (sub_nonneg.mpr (min_le_right p q)) (add_nonneg (mul_self_nonneg t10) (mul_self_nonneg t00))]
    rw [← add_div]
    exact div_pos hnum hDD
  · have hne : (t00 * t11 - t01 * t10) * (t00 * t11 - t01 * t10) ≠ 0 := ne_of_gt hDD
    have hnumid : (p * t11 * t11 + q * t10 * t10) * (p * t01 * t01 + q * t00 * t00) -
        (p * t01 * t11 + q * t00 * t10) * (p * t01 * t11 + q * t00 * t10) =
        p * q * ((t00 * t11 - t01 * t10) * (t00 * t11 - t01 * t10)) := by ring
    generalize (t00 * t11 - t01 * t10) * (t00 * t11 - t01 * t10) = DD at hne hDD hnumid ⊢
    have hid : (p * t11 * t11 + q * t10 * t10) / DD * ((p * t01 * t01 + q * t00 * t00) / DD) -
        -(p * t01 * t11 + q * t00 * t10) / DD * (-(p * t01 * t11 + q * t00 * t10) / DD) = p * q / DD := by
      field_simp
      linear_combination hnumid
    rw [hid]
    exact div_pos (mul_pos hp hq) hDD

theorem pos_of_sum_prod {x y : K} (hs : 0 < x + y) (hp : 0 < x * y) : 0 < x ∧ 0 < y := by
  rcases pos_and_pos_or_neg_and_neg_of_mul_pos hp with h | h
  · exact h
  · linarith [h.1, h.2]

/-- the form of an ellipse with semi-axes `√(σ/l1), √(σ/l2)` along `v, v⊥` is `(l1 v vᵀ + l2 v⊥ v⊥ᵀ)/σ` -/
theorem ellipseForm_of_spec (L : Laws K) (Q : Mat K) (l1 l2 σ : K) (v : Pt K) (hσ : 0 < σ) (h1 : 0 < l1) (h2 : 0 < l2)
    (hS : SpecAt Q l1 l2 v) (W : Form K) (ha : Q.a = σ * W.a) (hb : Q.b = σ * W.b) (hc : Q.e = σ * W.c) :
    ellipseForm (Env.sqrt (σ / l1)) (Env.sqrt (σ / l2)) v.x v.y = W := by
  obtain ⟨sa, sb, se, _⟩ := hS
  have q1 := L.sqrt_sq (σ / l1) (by positivity)
  have q2 := L.sqrt_sq (σ / l2) (by positivity)
  cases W with | mk wa wb wc =>
  simp only at ha hb hc
  simp only [ellipseForm, q1, q2, Form.mk.injEq]
  have hσ' : σ ≠ 0 := hσ.ne'
  have h1' : l1 ≠ 0 := h1.ne'
  have h2' : l2 ≠ 0 := h2.ne'
  refine ⟨?_, ?_, ?_⟩
  · have : wa = Q.a / σ := by rw [ha]; field_simp
    rw [this, sa]; field_simp
  · have : wb = Q.b / σ := by rw [hb]; field_simp
    rw [this, sb]; field_simp
  · have : wc = Q.e / σ := by rw [hc]; field_simp
    rw [this, se]; field_simp

/-- **The ArcTo case of `Path.Transform`.** For an invertible `m`, positive radii and a unit axis vector
`(c, s)`, the model of the Go code returns radii `r.rx, r.ry` and a unit vector `r.v` such that the
quadratic form of the new ellipse is *exactly* the push-forward `M⁻ᵀ q M⁻¹` of the form of the original
ellipse. Assumes exact comparisons (`Epsilon = 0`), `sqrt(x)² = x` for `x ≥ 0` and `hypot(x,y)² = x²+y²`. -/
theorem arcCore_image (L : Laws K) (h0 : (Env.epsilon : K) = 0) (m : Mat K) (rx ry s c : K)
    (hcs : c * c + s * s = 1) (hdet : Matrix.Det m ≠ 0) (hrx : 0 < rx) (hry : 0 < ry) :
    ∃ r : ArcR K, arcCore m rx ry (s, c) = some r ∧
      ellipseForm r.rx r.ry r.v.x r.v.y = (ellipseForm rx ry c s).push m.a m.b m.d m.e ∧
      r.v.x * r.v.x + r.v.y * r.v.y = 1 := by
  obtain ⟨ea, eb, ed, ee⟩ := arcQ_eq m rx ry s c hcs hdet hrx.ne' hry.ne'
  obtain ⟨htr, hdt⟩ := arcQ_pos m rx ry s c hcs hdet hrx hry
  have hsym : (arcQ m rx ry (s, c)).b = (arcQ m rx ry (s, c)).d := by rw [eb, ed]
  obtain ⟨l1, l2, hl1, hl2, hsum, hprod, hS1, hS2⟩ := eigen_spectral L h0 (arcQ m rx ry (s, c)) hsym
  have hpos : 0 < l1 ∧ 0 < l2 := by
    apply pos_of_sum_prod
    · rw [hsum]; exact htr
    · rw [hprod]; simpa [Matrix.Det] using hdt
  have hσ : 0 < rx * ry * |Matrix.Det m| := by
    have := abs_pos.mpr hdet
    positivity
  unfold arcCore
  simp only [hl1, hl2, ops_sqrt, ops_abs, ops_mdet]
  split_ifs with hlt
  · refine ⟨_, rfl, ?_, hS2.2.2.2⟩
    exact ellipseForm_of_spec L _ l2 l1 _ _ hσ hpos.2 hpos.1 hS2 _ ea eb ee
  · refine ⟨_, rfl, ?_, hS1.2.2.2⟩
    exact ellipseForm_of_spec L _ l1 l2 _ _ hσ hpos.1 hpos.2 hS1 _ ea eb ee

end C07
