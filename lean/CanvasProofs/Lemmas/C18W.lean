import CanvasModel.C18
/-! Helper lemmas for C18 (b): loop invariant of the W-array run-length encoder. -/
namespace C18L
open Canvas.C18

theorem wLook_append (A B : List WEnt) (cid : Nat) : wLook (A ++ B) cid = (wLook A cid).or (wLook B cid) := by
  simp [wLook, List.findSome?_append]

theorem wLook_single (e : WEnt) (cid : Nat) : wLook [e] cid = e.width? cid := by
  simp [wLook, List.findSome?]
  cases e.width? cid <;> rfl

theorem wLoop_succ (thr : Nat) (widths : List Int) (dw : Int) (m : Nat) :
    wLoop thr widths dw (m + 1) = wStep thr widths dw (wLoop thr widths dw m) m := by
  simp [wLoop, List.range_succ, List.foldl_append]

theorem wLoop_two (thr : Nat) (widths : List Int) (dw : Int) : wLoop thr widths dw 2 = ⟨1, 1, []⟩ := by
  rw [wLoop_succ, wLoop_succ]
  have h0 : wLoop thr widths dw 0 = ⟨1, 1, []⟩ := by simp [wLoop]
  rw [h0]
  simp [wStep]

theorem arr_width (widths : List Int) (i j cid : Nat) (h1 : i ≤ cid) (h2 : cid < j) :
    (WEnt.arr i ((widths.drop i).take (j - i))).width? cid = widths[cid]? := by
  simp only [WEnt.width?, h1, if_true]
  rw [List.getElem?_take]
  have : cid - i < j - i := by omega
  simp only [this, if_true]
  rw [List.getElem?_drop]
  congr 1; omega

theorem arr_width_none (widths : List Int) (i j cid : Nat) (hij : i ≤ j) (h : cid < i ∨ j ≤ cid) :
    (WEnt.arr i ((widths.drop i).take (j - i))).width? cid = none := by
  simp only [WEnt.width?]
  split
  · rw [List.getElem?_take]
    have : ¬ cid - i < j - i := by omega
    simp [this]
  · rfl

theorem arrTail_width (widths : List Int) (i cid : Nat) (h1 : i ≤ cid) :
    (WEnt.arr i (widths.drop i)).width? cid = widths[cid]? := by
  simp only [WEnt.width?, h1, if_true]
  rw [List.getElem?_drop]
  congr 1; omega

theorem getD_of_lt (widths : List Int) (cid : Nat) (h : cid < widths.length) :
    widths[cid]? = some (widths.getD cid 0) := by
  simp [List.getD, List.getElem?_eq_getElem h]

/-- loop invariant after the iterations `k = 0 … m-1` -/
structure WInv (widths : List Int) (dw : Int) (m : Nat) (st : WSt) : Prop where
  ipos : 1 ≤ st.i
  ij : st.i ≤ st.j
  jm : st.j + 1 ≤ m
  run : ∀ t, st.j ≤ t → t < m → widths.getD t 0 = widths.getD st.j 0
  done : ∀ cid, 1 ≤ cid → cid < st.i → (wLook st.out cid).getD dw = widths.getD cid 0
  free : ∀ cid, (cid = 0 ∨ st.i ≤ cid) → wLook st.out cid = none

theorem winv_two (thr : Nat) (widths : List Int) (dw : Int) : WInv widths dw 2 (wLoop thr widths dw 2) := by
  rw [wLoop_two]
  refine ⟨by simp, by simp, by simp, ?_, ?_, ?_⟩
  · intro t h1 h2
    have : t = 1 := by simp at h1; omega
    subst this; rfl
  · intro cid h1 h2; simp at h2; omega
  · intro cid _; simp [wLook]

theorem winv_step (thr : Nat) (widths : List Int) (dw : Int) (m : Nat) (st : WSt) (hm2 : 2 ≤ m) (hml : m < widths.length)
    (h : WInv widths dw m st) : WInv widths dw (m + 1) (wStep thr widths dw st m) := by
  obtain ⟨ipos, ij, jm, run, done, free⟩ := h
  unfold wStep
  have hm0 : m ≠ 0 := by omega
  by_cases heq : widths.getD m 0 = widths.getD st.j 0
  · -- the run goes on
    have : ¬ (m ≠ 0 ∧ widths.getD m 0 ≠ widths.getD st.j 0) := fun hh => hh.2 heq
    rw [if_neg this]
    refine ⟨ipos, ij, by omega, ?_, done, free⟩
    intro t h1 h2
    by_cases htm : t = m
    · subst htm; exact heq
    · exact run t h1 (by omega)
  · have hc : (m ≠ 0 ∧ widths.getD m 0 ≠ widths.getD st.j 0) := ⟨hm0, heq⟩
    rw [if_pos hc]
    by_cases hlong : thr < m - st.j
    · rw [if_pos hlong]
      -- describe the lookup in the extended output
      have key : ∀ cid, wLook
          (if widths.getD st.j 0 ≠ dw then
            (if st.i < st.j then st.out ++ [WEnt.arr st.i ((widths.drop st.i).take (st.j - st.i))] else st.out) ++
              [WEnt.range st.j (m - 1) (widths.getD st.j 0)]
           else (if st.i < st.j then st.out ++ [WEnt.arr st.i ((widths.drop st.i).take (st.j - st.i))] else st.out)) cid
          = (wLook st.out cid).or
              ((if st.i < st.j then (WEnt.arr st.i ((widths.drop st.i).take (st.j - st.i))).width? cid else none).or
               (if widths.getD st.j 0 ≠ dw then (WEnt.range st.j (m - 1) (widths.getD st.j 0)).width? cid else none)) := by
        intro cid
        by_cases c1 : st.i < st.j <;> by_cases c2 : widths.getD st.j 0 ≠ dw
        · simp only [if_pos c1, if_pos c2, wLook_append, wLook_single, Option.or_assoc]
        · simp only [if_pos c1, if_neg c2, wLook_append, wLook_single, Option.or_none]
        · simp only [if_neg c1, if_pos c2, wLook_append, wLook_single, Option.none_or]
        · simp only [if_neg c1, if_neg c2, Option.or_none]
      refine ⟨by dsimp only; omega, Nat.le_refl _, by dsimp only; omega, ?_, ?_, ?_⟩
      · intro t h1 h2
        have : t = m := by dsimp only at h1; omega
        subst this; rfl
      · intro cid h1 h2
        dsimp only at h2
        simp only [key]
        by_cases ca : cid < st.i
        · -- already emitted; the new entries do not cover it
          have e1 : (if st.i < st.j then (WEnt.arr st.i ((widths.drop st.i).take (st.j - st.i))).width? cid else none) = none := by
            split
            · exact arr_width_none widths st.i st.j cid ij (Or.inl ca)
            · rfl
          have e2 : (if widths.getD st.j 0 ≠ dw then (WEnt.range st.j (m - 1) (widths.getD st.j 0)).width? cid else none) = none := by
            split
            · simp only [WEnt.width?]
              have : ¬ (st.j ≤ cid ∧ cid ≤ m - 1) := by omega
              rw [if_neg this]
            · rfl
          rw [e1, e2]
          simp only [Option.or_none]
          exact done cid h1 ca
        · have hfree := free cid (Or.inr (by omega))
          rw [hfree]
          simp only [Option.none_or]
          by_cases cb : cid < st.j
          · have hlt : st.i < st.j := by omega
            rw [if_pos hlt]
            rw [arr_width widths st.i st.j cid (by omega) cb, getD_of_lt widths cid (by omega)]
            rfl
          · have e1 : (if st.i < st.j then (WEnt.arr st.i ((widths.drop st.i).take (st.j - st.i))).width? cid else none) = none := by
              split
              · exact arr_width_none widths st.i st.j cid ij (Or.inr (by omega))
              · rfl
            rw [e1]
            simp only [Option.none_or]
            have hrun := run cid (by omega) h2
            by_cases c2 : widths.getD st.j 0 ≠ dw
            · rw [if_pos c2]
              simp only [WEnt.width?]
              have : (st.j ≤ cid ∧ cid ≤ m - 1) := by omega
              rw [if_pos this, hrun]; rfl
            · rw [if_neg c2]
              have : widths.getD st.j 0 = dw := by
                by_cases q : widths.getD st.j 0 = dw
                · exact q
                · exact absurd q c2
              rw [hrun, this]; rfl
      · intro cid hcid
        dsimp only at hcid
        simp only [key]
        have hfree := free cid (by omega)
        rw [hfree]
        have e1 : (if st.i < st.j then (WEnt.arr st.i ((widths.drop st.i).take (st.j - st.i))).width? cid else none) = none := by
          split
          · exact arr_width_none widths st.i st.j cid ij (by omega)
          · rfl
        have e2 : (if widths.getD st.j 0 ≠ dw then (WEnt.range st.j (m - 1) (widths.getD st.j 0)).width? cid else none) = none := by
          split
          · simp only [WEnt.width?]
            have : ¬ (st.j ≤ cid ∧ cid ≤ m - 1) := by omega
            rw [if_neg this]
          · rfl
        rw [e1, e2]; rfl
    · rw [if_neg hlong]
      refine ⟨ipos, by dsimp only; omega, by dsimp only; omega, ?_, done, free⟩
      intro t h1 h2
      have : t = m := by dsimp only at h1; omega
      subst this; rfl

theorem winv_all (thr : Nat) (widths : List Int) (dw : Int) : ∀ m, 2 ≤ m → m ≤ widths.length →
    WInv widths dw m (wLoop thr widths dw m) := by
  intro m
  induction m with
  | zero => intro h; omega
  | succ m ih =>
    intro h2 hl
    by_cases hm : m + 1 = 2
    · rw [hm]; exact winv_two thr widths dw
    · rw [wLoop_succ]
      exact winv_step thr widths dw m _ (by omega) (by omega) (ih (by omega) (by omega))

/-- what a reader sees for every CID of the encoded list -/
theorem lookup_finish (widths : List Int) (dw : Int) (st : WSt) (hl : 2 ≤ widths.length)
    (hdw : dw = widths.getD 0 0) (h : WInv widths dw widths.length st) (cid : Nat) (hc : cid < widths.length) :
    lookupW dw (wFinish widths st) cid = widths.getD cid 0 := by
  obtain ⟨ipos, ij, jm, run, done, free⟩ := h
  have hi : st.i < widths.length := by omega
  simp only [lookupW, wFinish, hi, if_true, wLook_append, wLook_single]
  by_cases c0 : cid = 0
  · subst c0
    rw [free 0 (Or.inl rfl)]
    have : (WEnt.arr st.i (widths.drop st.i)).width? 0 = none := by
      simp only [WEnt.width?]
      have : ¬ st.i ≤ 0 := by omega
      simp [this]
    rw [this, hdw]; rfl
  · by_cases ca : cid < st.i
    · have : (WEnt.arr st.i (widths.drop st.i)).width? cid = none := by
        simp only [WEnt.width?]
        have : ¬ st.i ≤ cid := by omega
        simp [this]
      rw [this]
      simp only [Option.or_none]
      exact done cid (by omega) ca
    · rw [free cid (Or.inr (by omega)), arrTail_width widths st.i cid (by omega), getD_of_lt widths cid hc]
      rfl

end C18L
