import CanvasModel.C15
/-!
# C15 — what each call of the model touches (generic in the scalar type and in `Ops`)

`loopCalls` is the list of renderer calls made by the loop of `DrawPath`; `drawCalls op c` the calls
made by any single history operation.  Every operation leaves `emitted` a prefix-extension, draws do
not touch the Context state, setters do not touch the renderer.
-/
namespace C15
open Canvas Canvas.C15
variable {α : Type}

/-- the renderer calls of the loop in `DrawPath` (every path starts from the same style) -/
def loopCalls (o : Ops α) (off : α) (dashes : List α) (m : Mat α) : Style α → List (PathRef α) → List (Call α)
  | _, [] => []
  | style, p :: ps =>
    let r := drawDashes o style.width off dashes p.len
    let style' := { style with dashes := r.1, stroke := if r.2 then style.stroke else Paint.none }
    ⟨.path p style', m⟩ :: loopCalls o off dashes m style ps

/-- recording a list of calls -/
def emitAll (c : Ctx α) : List (Call α) → Ctx α
  | [] => c
  | k :: ks => emitAll (c.emit k) ks

theorem emitAll_append (c : Ctx α) (a b : List (Call α)) : emitAll c (a ++ b) = emitAll (emitAll c a) b := by
  induction a generalizing c with
  | nil => rfl
  | cons k ks ih => exact ih _

theorem drawPathLoop_eq (o : Ops α) (off : α) (dashes : List α) (m : Mat α) (style : Style α)
    (ps : List (PathRef α)) (c : Ctx α) :
    drawPathLoop o off dashes m style ps c = emitAll c (loopCalls o off dashes m style ps) := by
  induction ps generalizing style c with
  | nil => rfl
  | cons p ps ih => simp only [drawPathLoop, loopCalls, emitAll]; exact ih _ _

theorem emitAll_st (c : Ctx α) (ks : List (Call α)) : (emitAll c ks).st = c.st := by
  induction ks generalizing c with
  | nil => rfl
  | cons k ks ih => rw [emitAll, ih]; rfl

theorem emitAll_stack (c : Ctx α) (ks : List (Call α)) : (emitAll c ks).stack = c.stack := by
  induction ks generalizing c with
  | nil => rfl
  | cons k ks ih => rw [emitAll, ih]; rfl

theorem emitAll_emitted (c : Ctx α) (ks : List (Call α)) : (emitAll c ks).emitted = c.emitted ++ ks := by
  induction ks generalizing c with
  | nil => simp [emitAll]
  | cons k ks ih => rw [emitAll, ih]; simp [Ctx.emit]

theorem emitAll_log (c : Ctx α) (ks : List (Call α)) :
    (emitAll c ks).cv.log = c.cv.log ++ ks.map (fun k => (c.cv.z, k)) := by
  induction ks generalizing c with
  | nil => simp [emitAll]
  | cons k ks ih => rw [emitAll, ih]; simp [Ctx.emit, Canvas.render]

theorem emitAll_z (c : Ctx α) (ks : List (Call α)) : (emitAll c ks).cv.z = c.cv.z := by
  induction ks generalizing c with
  | nil => rfl
  | cons k ks ih => rw [emitAll, ih]; rfl

theorem emitAll_W (c : Ctx α) (ks : List (Call α)) : (emitAll c ks).cv.W = c.cv.W := by
  induction ks generalizing c with
  | nil => rfl
  | cons k ks ih => rw [emitAll, ih]; rfl

theorem emitAll_H (c : Ctx α) (ks : List (Call α)) : (emitAll c ks).cv.H = c.cv.H := by
  induction ks generalizing c with
  | nil => rfl
  | cons k ks ih => rw [emitAll, ih]; rfl

theorem loopCalls_length (o : Ops α) (off : α) (dashes : List α) (m : Mat α) (style : Style α)
    (ps : List (PathRef α)) : (loopCalls o off dashes m style ps).length = ps.length := by
  induction ps generalizing style with
  | nil => rfl
  | cons p ps ih => simp [loopCalls, ih]

theorem loopCalls_m (o : Ops α) (off : α) (dashes : List α) (m : Mat α) (style : Style α)
    (ps : List (PathRef α)) : ∀ k ∈ loopCalls o off dashes m style ps, k.m = m := by
  induction ps generalizing style with
  | nil => simp [loopCalls]
  | cons p ps ih =>
    intro k hk
    simp only [loopCalls, List.mem_cons] at hk
    rcases hk with rfl | hk
    · rfl
    · exact ih _ k hk

/-- the renderer calls of `DrawPath(x, y, ps…)` in context `c` -/
def pathCalls (o : Ops α) (c : Ctx α) (x y : α) (ps : List (PathRef α)) : List (Call α) :=
  if !c.st.style.hasFill && !c.st.style.hasStroke o then []
  else loopCalls o c.st.style.dashOff c.st.style.dashes (c.baseMatrix o x y) c.st.style ps

/-- the renderer calls made by one history operation in context `c` -/
def drawCalls (o : Ops α) (op : Op α) (c : Ctx α) : List (Call α) :=
  match op with
  | .drawPath x y ps => pathCalls o c x y ps
  | .drawText x y t =>
    if t.empty then [] else
      [⟨.text t, (fun m => if c.st.cs.flipX then o.reflectX m else m)
        ((fun m => if c.st.cs.flipY then o.reflectY m else m) (c.baseMatrix o x y))⟩]
  | .drawImage x y i res =>
    if o.beq i.w o.zero && o.beq i.h o.zero then [] else
      [⟨.image i, imageFlip o c.st.cs (o.scale (c.baseMatrix o x y) (o.div o.one res) (o.div o.one res)) i.w i.h⟩]
  | .fitImage i r fit => (step o (.fitImage i r fit) { c with emitted := [] }).emitted
  | .fill p => pathCalls o (c.withStyle { c.st.style with stroke := Paint.none }) o.zero o.zero [p]
  | .stroke p => pathCalls o (c.withStyle { c.st.style with fill := Paint.none }) o.zero o.zero [p]
  | .fillStroke p => pathCalls o c o.zero o.zero [p]
  | _ => []

def _root_.Canvas.C15.Op.isDraw : Op α → Bool
  | .drawPath .. => true | .drawText .. => true | .drawImage .. => true | .fitImage .. => true
  | .fill .. => true | .stroke .. => true | .fillStroke .. => true | _ => false
def _root_.Canvas.C15.Op.isCanvasOp : Op α → Bool
  | .cvTransform .. => true | .cvClip .. => true | .cvFit .. => true | .cvReset => true | .cvNest .. => true | _ => false
def _root_.Canvas.C15.Op.isStack : Op α → Bool
  | .push => true | .pop => true | _ => false

theorem drawPath_eq' (o : Ops α) (c : Ctx α) (x y : α) (ps : List (PathRef α)) :
    c.drawPath o x y ps = emitAll c (pathCalls o c x y ps) := by
  simp only [Ctx.drawPath, pathCalls]
  split
  · rfl
  · exact drawPathLoop_eq ..

theorem drawPath_eq (o : Ops α) (c : Ctx α) (x y : α) (ps : List (PathRef α)) :
    c.drawPath o x y ps = emitAll c (drawCalls o (.drawPath x y ps) c) := drawPath_eq' o c x y ps

theorem emitAll_withStyle (c : Ctx α) (s : Style α) (ks : List (Call α)) :
    emitAll (c.withStyle s) ks = (emitAll c ks).withStyle s := by
  induction ks generalizing c with
  | nil => rfl
  | cons k ks ih => exact ih (c.emit k)

/-- Fill()/Stroke(): the calls are those of DrawPath under the modified style; the style is back afterwards -/
theorem drawWith_eq (o : Ops α) (c : Ctx α) (s : Style α) (p : PathRef α) :
    c.drawWith o s p = emitAll c (pathCalls o (c.withStyle s) o.zero o.zero [p]) := by
  unfold Ctx.drawWith
  rw [drawPath_eq', emitAll_withStyle]
  generalize pathCalls o (c.withStyle s) o.zero o.zero [p] = ks
  have h := emitAll_st c ks
  show ({ (emitAll c ks) with st := { ((emitAll c ks).withStyle s).st with style := c.st.style } } : Ctx α) = emitAll c ks
  simp only [Ctx.withStyle]
  rw [h]
  generalize hx : emitAll c ks = x at h
  obtain ⟨st, stack, cv, emitted⟩ := x
  simp only at h
  subst h
  rfl

theorem drawText_eq (o : Ops α) (c : Ctx α) (x y : α) (t : TextRef α) :
    c.drawText o x y t = emitAll c (drawCalls o (.drawText x y t) c) := by
  simp only [Ctx.drawText, drawCalls]
  split <;> rfl

theorem drawImage_eq (o : Ops α) (c : Ctx α) (x y : α) (i : ImgRef α) (res : α) :
    c.drawImage o x y i res = emitAll c (drawCalls o (.drawImage x y i res) c) := by
  simp only [drawCalls, Ctx.drawImage]
  split <;> rfl

theorem fitImage_eq (o : Ops α) (c : Ctx α) (i : ImgRef α) (r : Rct α) (fit : Nat) :
    c.fitImage o i r fit = emitAll c (drawCalls o (.fitImage i r fit) c) := by
  simp only [drawCalls, step, Ctx.fitImage]
  split
  · rfl
  · simp [emitAll, Ctx.emit, Ctx.baseMatrix, Ctx.csv]

/-- a draw is exactly: record `drawCalls` -/
theorem step_draw (o : Ops α) (op : Op α) (c : Ctx α) (h : op.isDraw = true) :
    step o op c = emitAll c (drawCalls o op c) := by
  cases op <;> simp [Op.isDraw] at h
  · exact drawPath_eq ..
  · exact drawText_eq ..
  · exact drawImage_eq ..
  · exact fitImage_eq ..
  · exact drawWith_eq ..
  · exact drawWith_eq ..
  · exact drawPath_eq' ..

/-- the Context state (style, view, coordinate view and system) is not touched by draws and canvas operations -/
theorem step_st_of_draw (o : Ops α) (op : Op α) (c : Ctx α) (h : op.isDraw = true ∨ op.isCanvasOp = true) :
    (step o op c).st = c.st ∧ (step o op c).stack = c.stack := by
  rcases h with h | h
  · rw [step_draw o op c h]; exact ⟨emitAll_st .., emitAll_stack ..⟩
  · cases op <;> simp [Op.isCanvasOp] at h <;> exact ⟨rfl, rfl⟩

/-- only Push and Pop change the stack -/
theorem step_stack (o : Ops α) (op : Op α) (c : Ctx α) (h : op.isStack = false) :
    (step o op c).stack = c.stack := by
  by_cases hd : op.isDraw = true
  · exact (step_st_of_draw o op c (Or.inl hd)).2
  · cases op <;> simp [Op.isStack] at h <;> simp [Op.isDraw] at hd <;> rfl

/-- whatever is not a draw makes no renderer call and records nothing -/
theorem step_emitted_of_not_draw (o : Ops α) (op : Op α) (c : Ctx α) (h : op.isDraw = false) :
    (step o op c).emitted = c.emitted := by
  cases op <;> simp [Op.isDraw] at h <;> first | rfl | (simp only [step]; split <;> rfl)

theorem step_emitted (o : Ops α) (op : Op α) (c : Ctx α) :
    (step o op c).emitted = c.emitted ++ drawCalls o op c := by
  by_cases hd : op.isDraw = true
  · rw [step_draw o op c hd, emitAll_emitted]
  · have hd' : op.isDraw = false := by simpa using hd
    rw [step_emitted_of_not_draw o op c hd']
    cases op <;> simp [Op.isDraw] at hd' <;> simp [drawCalls]

/-- setters, view/coordinate operations, Push/Pop: the canvas is untouched (SetZIndex: only `z`) -/
theorem step_cv_of_setter (o : Ops α) (op : Op α) (c : Ctx α) (hd : op.isDraw = false)
    (hc : op.isCanvasOp = false) :
    (step o op c).cv.layers = c.cv.layers ∧ (step o op c).cv.log = c.cv.log ∧
    (step o op c).cv.W = c.cv.W ∧ (step o op c).cv.H = c.cv.H := by
  cases op <;> simp [Op.isDraw] at hd <;> simp [Op.isCanvasOp] at hc <;>
    first | exact ⟨rfl, rfl, rfl, rfl⟩ | (simp only [step]; split <;> exact ⟨rfl, rfl, rfl, rfl⟩)

/-- a draw appends its calls to the log with the current z-index -/
theorem step_log_of_draw (o : Ops α) (op : Op α) (c : Ctx α) (h : op.isDraw = true) :
    (step o op c).cv.log = c.cv.log ++ (drawCalls o op c).map (fun k => (c.cv.z, k)) := by
  rw [step_draw o op c h, emitAll_log]

theorem step_pop_of_stack (o : Ops α) (c : Ctx α) (s : CState α) (rest : List (CState α))
    (h : c.stack = s :: rest) : step o Op.pop c = { c with st := s, stack := rest } := by
  simp only [step, h]

theorem run_append (o : Ops α) (a b : List (Op α)) (c : Ctx α) : run o (a ++ b) c = run o b (run o a c) := by
  induction a generalizing c with
  | nil => rfl
  | cons op ops ih => exact ih _

theorem run_emitted_prefix (o : Ops α) (h : List (Op α)) (c : Ctx α) : c.emitted <+: (run o h c).emitted := by
  induction h generalizing c with
  | nil => exact List.prefix_refl _
  | cons op ops ih =>
    refine List.IsPrefix.trans ?_ (ih (step o op c))
    rw [step_emitted]; exact List.prefix_append _ _

end C15
