import CanvasModel.C18
/-! Helper lemmas for C18 (a): FontSubsetter invariant over arbitrary `Get` histories. -/
namespace C18L
open Canvas.C18

/-- pigeonhole: a duplicate-free list of naturals below `n` has at most `n` elements -/
theorem nodup_bounded_length : ∀ (n : Nat) (l : List Nat), l.Nodup → (∀ x ∈ l, x < n) → l.length ≤ n := by
  intro n
  induction n with
  | zero =>
    intro l _ hb
    cases l with
    | nil => simp
    | cons a t => exact absurd (hb a (by simp)) (by omega)
  | succ n ih =>
    intro l hnd hb
    have h1 : (l.erase n).Nodup := hnd.erase n
    have h2 : ∀ x ∈ l.erase n, x < n := by
      intro x hx
      have := (List.Nodup.mem_erase_iff hnd).1 hx
      have := hb x this.2
      omega
    have h3 := ih (l.erase n) h1 h2
    have h4 := @List.length_erase _ _ _ n l
    split at h4 <;> omega

/-- The representation invariant of the subsetter: `IDMap` is the inverse of `IDs`, `.notdef` is at 0,
all glyph IDs are `uint16`. -/
structure Inv (s : Sub) : Prop where
  head : s.ids[0]? = some 0
  inv : ∀ g c, s.map.lookup g = some c ↔ s.ids[c]? = some g
  bound : ∀ g ∈ s.ids, g < 65536

theorem inv_new : Inv Sub.new := by
  refine ⟨by simp [Sub.new], ?_, by simp [Sub.new]⟩
  intro g c
  simp only [Sub.new, List.lookup]
  by_cases hg : g = 0
  · subst hg
    cases c with
    | zero => simp
    | succ c => simp
  · have : (g == 0) = false := by simp [hg]
    simp only [this]
    cases c with
    | zero => simp; omega
    | succ c => simp

theorem Inv.nodup {s : Sub} (h : Inv s) : s.ids.Nodup := by
  rw [List.nodup_iff_pairwise_ne, List.pairwise_iff_getElem]
  intro i j hi hj hij heq
  have e1 : s.ids[i]? = some s.ids[i] := List.getElem?_eq_getElem hi
  have e2 : s.ids[j]? = some s.ids[i] := by rw [List.getElem?_eq_getElem hj, heq]
  have a := (h.inv _ _).2 e1
  have b := (h.inv _ _).2 e2
  rw [a] at b
  injection b with b
  omega

theorem Inv.not_mem_of_lookup_none {s : Sub} (h : Inv s) {g : Nat} (hn : s.map.lookup g = none) : g ∉ s.ids := by
  intro hm
  obtain ⟨c, hc, hcg⟩ := List.getElem_of_mem hm
  have : s.ids[c]? = some g := by rw [List.getElem?_eq_getElem hc, hcg]
  have := (h.inv g c).2 this
  rw [hn] at this
  cases this

theorem Inv.length_lt {s : Sub} (h : Inv s) {g : Nat} (hg : g < 65536) (hn : s.map.lookup g = none) :
    s.ids.length < 65536 := by
  have hnm := h.not_mem_of_lookup_none hn
  have hnd : (g :: s.ids).Nodup := List.nodup_cons.2 ⟨hnm, h.nodup⟩
  have hb : ∀ x ∈ g :: s.ids, x < 65536 := by
    intro x hx
    rcases List.mem_cons.1 hx with rfl | hx
    · exact hg
    · exact h.bound x hx
  have := nodup_bounded_length 65536 _ hnd hb
  simp at this
  omega

/-- One `Get`: invariant kept, the returned code names `g` in the new `IDs`, `IDs` only grows at the end. -/
theorem get_spec {s : Sub} (h : Inv s) {g : Nat} (hg : g < 65536) :
    Inv (s.get g).1 ∧ (s.get g).1.ids[(s.get g).2]? = some g ∧ s.ids <+: (s.get g).1.ids := by
  unfold Sub.get
  split
  · rename_i c hc
    exact ⟨h, (h.inv g c).1 hc, List.prefix_refl _⟩
  · rename_i hn
    have hlt := h.length_lt hg hn
    have hmod : s.ids.length % 65536 = s.ids.length := Nat.mod_eq_of_lt hlt
    have hnm := h.not_mem_of_lookup_none hn
    simp only [hmod]
    refine ⟨⟨?_, ?_, ?_⟩, by simp, List.prefix_append _ _⟩
    · have := h.head
      have hpos : 0 < s.ids.length := by
        cases hl : s.ids with
        | nil => rw [hl] at this; simp at this
        | cons a t => simp
      rw [List.getElem?_append_left hpos]; exact this
    · intro g' c
      simp only [List.lookup_cons]
      by_cases hgg : g' = g
      · subst hgg
        simp only [beq_self_eq_true]
        constructor
        · intro hc; injection hc with hc; subst hc; simp
        · intro hc
          by_cases hcl : c < s.ids.length
          · rw [List.getElem?_append_left hcl] at hc
            exact absurd (List.mem_of_getElem? hc) hnm
          · by_cases hce : c = s.ids.length
            · rw [hce]
            · have : (s.ids ++ [g'])[c]? = none := by
                apply List.getElem?_eq_none; simp; omega
              rw [this] at hc; cases hc
      · have hb : (g' == g) = false := by simp [hgg]
        simp only [hb]
        rw [h.inv g' c]
        constructor
        · intro hc
          have hcl : c < s.ids.length := by
            have := List.getElem?_eq_some_iff.1 hc; exact this.1
          rw [List.getElem?_append_left hcl]; exact hc
        · intro hc
          by_cases hcl : c < s.ids.length
          · rw [List.getElem?_append_left hcl] at hc; exact hc
          · by_cases hce : c = s.ids.length
            · rw [hce] at hc; simp at hc; exact absurd hc.symm hgg
            · have : (s.ids ++ [g])[c]? = none := by
                apply List.getElem?_eq_none; simp; omega
              rw [this] at hc; cases hc
    · intro x hx
      rcases List.mem_append.1 hx with hx | hx
      · exact h.bound x hx
      · simp at hx; omega

theorem getElem?_of_prefix {l l' : List Nat} (hp : l <+: l') {c g : Nat} (h : l[c]? = some g) : l'[c]? = some g := by
  obtain ⟨t, rfl⟩ := hp
  have := List.getElem?_eq_some_iff.1 h
  rw [List.getElem?_append_left this.1]; exact h

/-- Any history: invariant kept, `IDs` grows at the end only, and every (glyph, returned code) pair of the
history is in the final table. -/
theorem run_spec : ∀ (h : List Nat) (s : Sub), Inv s → (∀ g ∈ h, g < 65536) →
    Inv (s.run h).1 ∧ s.ids <+: (s.run h).1.ids ∧ (s.run h).2.length = h.length ∧
    ∀ p ∈ h.zip (s.run h).2, (s.run h).1.ids[p.2]? = some p.1 := by
  intro h
  induction h with
  | nil => intro s hs _; simp [Sub.run, hs]
  | cons g h ih =>
    intro s hs hb
    have hg := hb g (by simp)
    obtain ⟨i1, i2, i3⟩ := get_spec hs hg
    obtain ⟨j1, j2, j3, j4⟩ := ih (s.get g).1 i1 (fun x hx => hb x (by simp [hx]))
    simp only [Sub.run]
    refine ⟨j1, List.IsPrefix.trans i3 j2, by simp [j3], ?_⟩
    intro p hp
    simp only [List.zip_cons_cons, List.mem_cons] at hp
    rcases hp with rfl | hp
    · exact getElem?_of_prefix j2 i2
    · exact j4 p hp

end C18L
