import CanvasModel.C09
import CanvasGen.CoreK
import CanvasGen.BezierK
import CanvasProofs.Lemmas.C03Split
import Mathlib.Tactic.Ring
import Mathlib.Tactic.FieldSimp
import Mathlib.Tactic.LinearCombination
import Mathlib.Tactic.Linarith
/-!
C09 helper lemmas: the cutting loops of `SplitAt` for one segment, for ANY cut parameters (whatever
the Chebyshev inverse arc length returns), over any ordered field; the flag logic of `ellipseSplit`.
The split functions are the definitions generated from path_util.go (`GenK`).
-/
set_option linter.unusedSectionVars false
namespace C09L
open Canvas GenK C03L
variable {K : Type} [Field K] [LinearOrder K] [IsStrictOrderedRing K] [Env K]

abbrev Quad (K : Type) := Pt K × Pt K × Pt K
abbrev Cubic (K : Type) := Pt K × Pt K × Pt K × Pt K

def Quad.pos (q : Quad K) (s : K) : Pt K := quadraticBezierPos q.1 q.2.1 q.2.2 s
def Cubic.pos (q : Cubic K) (s : K) : Pt K := cubicBezierPos q.1 q.2.1 q.2.2.1 q.2.2.2 s

/-- the loop of the QuadToCmd case of SplitAt (path.go:1563-1575): `Canvas.C09.cutsGen` with the
generated `quadraticBezierSplit` (left part = outputs 1-3, right part = outputs 4-6) -/
def quadCuts (r : Quad K) (t0 : K) (ts : List K) : List (Quad K) × Quad K :=
  Canvas.C09.cutsGen (fun a b => decide (a < b)) (· - ·) (· / ·) 1 (fun (q : Quad K) t => quadL q.1 q.2.1 q.2.2 t)
    (fun (q : Quad K) t => quadR q.1 q.2.1 q.2.2 t) r t0 ts

/-- the loop of the CubeToCmd case (path.go:1598-1610) -/
def cubeCuts (r : Cubic K) (t0 : K) (ts : List K) : List (Cubic K) × Cubic K :=
  Canvas.C09.cutsGen (fun a b => decide (a < b)) (· - ·) (· / ·) 1 (fun (q : Cubic K) t => cubL q.1 q.2.1 q.2.2.1 q.2.2.2 t)
    (fun (q : Cubic K) t => cubR q.1 q.2.1 q.2.2.1 q.2.2.2 t) r t0 ts

theorem quadCuts_cons (r : Quad K) (t0 t : K) (ts : List K) (h : t0 < 1) :
    quadCuts r t0 (t :: ts) =
      (quadL r.1 r.2.1 r.2.2 ((t - t0) / (1 - t0)) ::
          (quadCuts (quadR r.1 r.2.1 r.2.2 ((t - t0) / (1 - t0))) t ts).1,
        (quadCuts (quadR r.1 r.2.1 r.2.2 ((t - t0) / (1 - t0))) t ts).2) := by
  simp only [quadCuts, Canvas.C09.cutsGen, decide_eq_true h, if_true]

theorem cubeCuts_cons (r : Cubic K) (t0 t : K) (ts : List K) (h : t0 < 1) :
    cubeCuts r t0 (t :: ts) =
      (cubL r.1 r.2.1 r.2.2.1 r.2.2.2 ((t - t0) / (1 - t0)) ::
          (cubeCuts (cubR r.1 r.2.1 r.2.2.1 r.2.2.2 ((t - t0) / (1 - t0))) t ts).1,
        (cubeCuts (cubR r.1 r.2.1 r.2.2.1 r.2.2.2 ((t - t0) / (1 - t0))) t ts).2) := by
  simp only [cubeCuts, Canvas.C09.cutsGen, decide_eq_true h, if_true]

/-- once the previous cut parameter has reached 1 (5884f31) the loop splits at `tsub = 1` -/
theorem quadCuts_cons_end (r : Quad K) (t0 t : K) (ts : List K) (h : ¬ t0 < 1) :
    quadCuts r t0 (t :: ts) =
      (quadL r.1 r.2.1 r.2.2 1 :: (quadCuts (quadR r.1 r.2.1 r.2.2 1) t ts).1,
        (quadCuts (quadR r.1 r.2.1 r.2.2 1) t ts).2) := by
  simp only [quadCuts, Canvas.C09.cutsGen, decide_eq_false h, Bool.false_eq_true, if_false]

theorem cubeCuts_cons_end (r : Cubic K) (t0 t : K) (ts : List K) (h : ¬ t0 < 1) :
    cubeCuts r t0 (t :: ts) =
      (cubL r.1 r.2.1 r.2.2.1 r.2.2.2 1 :: (cubeCuts (cubR r.1 r.2.1 r.2.2.1 r.2.2.2 1) t ts).1,
        (cubeCuts (cubR r.1 r.2.1 r.2.2.1 r.2.2.2 1) t ts).2) := by
  simp only [cubeCuts, Canvas.C09.cutsGen, decide_eq_false h, Bool.false_eq_true, if_false]

/-- splitting at 1: the left part is the whole curve, the right part is its end point -/
theorem quad_split_at_one (r : Quad K) (s : K) :
    Quad.pos (quadL r.1 r.2.1 r.2.2 1) s = r.pos s ∧ Quad.pos (quadR r.1 r.2.1 r.2.2 1) s = r.pos 1 := by
  constructor
  · have := quad_left r.1 r.2.1 r.2.2 1 s
    simp only [Quad.pos] at this ⊢; rw [this, one_mul]
  · have := quad_right r.1 r.2.1 r.2.2 1 s
    simp only [Quad.pos] at this ⊢; rw [this]; congr 1; ring

theorem cube_split_at_one (r : Cubic K) (s : K) :
    Cubic.pos (cubL r.1 r.2.1 r.2.2.1 r.2.2.2 1) s = r.pos s ∧
      Cubic.pos (cubR r.1 r.2.1 r.2.2.1 r.2.2.2 1) s = r.pos 1 := by
  constructor
  · have := cub_left r.1 r.2.1 r.2.2.1 r.2.2.2 1 s
    simp only [Cubic.pos] at this ⊢; rw [this, one_mul]
  · have := cub_right r.1 r.2.1 r.2.2.1 r.2.2.2 1 s
    simp only [Cubic.pos] at this ⊢; rw [this]; congr 1; ring

/-- the loop of the LineToCmd case (path.go:1541-1551): every cut is interpolated on the whole segment -/
def lineCuts (a b : Pt K) (prev : Pt K) : List K → List (Pt K × Pt K) × (Pt K × Pt K)
  | [] => ([], (prev, b))
  | t :: ts =>
    let pos := Point.Interpolate a b t
    let rest := lineCuts a b pos ts
    ((prev, pos) :: rest.1, rest.2)

/-- every cut parameter before the last one is below 1 (the loop then divides by `1 - t0 > 0`; once a
parameter has reached 1 the loop splits at 1, see `quadCuts_cons_end`) -/
def okCuts : K → List K → Prop
  | _, [] => True
  | t0, t :: ts => t0 < 1 ∧ okCuts t ts

def lastCut : K → List K → K
  | t0, [] => t0
  | _, t :: ts => lastCut t ts

/-- consecutive pieces are the restrictions of `f` to the consecutive parameter intervals
`[t0,t1], [t1,t2], …` (each re-parametrised to [0,1]) -/
def piecesOK {Q : Type} (pos : Q → K → Pt K) (f : K → Pt K) : K → List K → List Q → Prop
  | _, [], [] => True
  | a, t :: ts, q :: qs => (∀ s, pos q s = f (a + (t - a) * s)) ∧ piecesOK pos f t ts qs
  | _, _, _ => False

theorem quadCuts_ok (f : K → Pt K) (ts : List K) : ∀ (t0 : K) (r : Quad K), okCuts t0 ts →
    (∀ s, r.pos s = f (t0 + (1 - t0) * s)) →
    piecesOK Quad.pos f t0 ts (quadCuts r t0 ts).1 ∧
      ∀ s, (quadCuts r t0 ts).2.pos s = f (lastCut t0 ts + (1 - lastCut t0 ts) * s) := by
  induction ts with
  | nil => intro t0 r _ hr; exact ⟨trivial, hr⟩
  | cons t ts ih =>
    intro t0 r hok hr
    obtain ⟨h1, hok'⟩ := hok
    have hne : (1 - t0) ≠ 0 := (sub_pos.mpr h1).ne'
    have hk : (1 - t0) * ((t - t0) / (1 - t0)) = t - t0 := by field_simp
    rw [quadCuts_cons _ _ _ _ h1]
    simp only [piecesOK, lastCut]
    refine ⟨⟨?_, (ih t _ hok' ?_).1⟩, (ih t _ hok' ?_).2⟩
    · intro s
      have := quad_left r.1 r.2.1 r.2.2 ((t - t0) / (1 - t0)) s
      simp only [Quad.pos] at hr ⊢
      rw [this, hr]
      congr 1
      linear_combination s * hk
    · intro s
      have := quad_right r.1 r.2.1 r.2.2 ((t - t0) / (1 - t0)) s
      simp only [Quad.pos] at hr ⊢
      rw [this, hr]
      congr 1
      linear_combination (1 - s) * hk
    · intro s
      have := quad_right r.1 r.2.1 r.2.2 ((t - t0) / (1 - t0)) s
      simp only [Quad.pos] at hr ⊢
      rw [this, hr]
      congr 1
      linear_combination (1 - s) * hk

theorem cubeCuts_ok (f : K → Pt K) (ts : List K) : ∀ (t0 : K) (r : Cubic K), okCuts t0 ts →
    (∀ s, r.pos s = f (t0 + (1 - t0) * s)) →
    piecesOK Cubic.pos f t0 ts (cubeCuts r t0 ts).1 ∧
      ∀ s, (cubeCuts r t0 ts).2.pos s = f (lastCut t0 ts + (1 - lastCut t0 ts) * s) := by
  induction ts with
  | nil => intro t0 r _ hr; exact ⟨trivial, hr⟩
  | cons t ts ih =>
    intro t0 r hok hr
    obtain ⟨h1, hok'⟩ := hok
    have hne : (1 - t0) ≠ 0 := (sub_pos.mpr h1).ne'
    have hk : (1 - t0) * ((t - t0) / (1 - t0)) = t - t0 := by field_simp
    rw [cubeCuts_cons _ _ _ _ h1]
    simp only [piecesOK, lastCut]
    refine ⟨⟨?_, (ih t _ hok' ?_).1⟩, (ih t _ hok' ?_).2⟩
    · intro s
      have := cub_left r.1 r.2.1 r.2.2.1 r.2.2.2 ((t - t0) / (1 - t0)) s
      simp only [Cubic.pos] at hr ⊢
      rw [this, hr]
      congr 1
      linear_combination s * hk
    · intro s
      have := cub_right r.1 r.2.1 r.2.2.1 r.2.2.2 ((t - t0) / (1 - t0)) s
      simp only [Cubic.pos] at hr ⊢
      rw [this, hr]
      congr 1
      linear_combination (1 - s) * hk
    · intro s
      have := cub_right r.1 r.2.1 r.2.2.1 r.2.2.2 ((t - t0) / (1 - t0)) s
      simp only [Cubic.pos] at hr ⊢
      rw [this, hr]
      congr 1
      linear_combination (1 - s) * hk

def linePos (q : Pt K × Pt K) (s : K) : Pt K := Point.Interpolate q.1 q.2 s

theorem interpolate_interpolate (a b : Pt K) (u v s : K) :
    Point.Interpolate (Point.Interpolate a b u) (Point.Interpolate a b v) s
      = Point.Interpolate a b (u + (v - u) * s) := by
  simp only [Point.Interpolate]
  congr 1 <;> ring

theorem lineCuts_ok (a b : Pt K) (ts : List K) : ∀ (t0 : K),
    piecesOK linePos (Point.Interpolate a b) t0 ts (lineCuts a b (Point.Interpolate a b t0) ts).1 ∧
      ∀ s, linePos (lineCuts a b (Point.Interpolate a b t0) ts).2 s
        = Point.Interpolate a b (lastCut t0 ts + (1 - lastCut t0 ts) * s) := by
  induction ts with
  | nil =>
    intro t0
    refine ⟨trivial, fun s => ?_⟩
    simp only [lineCuts, linePos, lastCut, Point.Interpolate]
    congr 1 <;> ring
  | cons t ts ih =>
    intro t0
    simp only [lineCuts, piecesOK, lastCut]
    exact ⟨⟨fun s => interpolate_interpolate a b t0 t s, (ih t).1⟩, (ih t).2⟩

theorem interpolate_zero (a b : Pt K) : Point.Interpolate a b 0 = a := by
  cases a; simp [Point.Interpolate]

/-! ### ellipseSplit flags -/

omit [Env K] in
/-- `ellipseSplit`'s flags for `theta` between `theta0` and `theta1` on an arc of at most a full turn:
each flag says exactly that its part spans more than π, and the two are never both set. -/
theorem splitFlags_spec (pi th0 th1 th : K)
    (hb : (th0 ≤ th ∧ th ≤ th1) ∨ (th1 ≤ th ∧ th ≤ th0)) (hext : |th1 - th0| ≤ 2 * pi) :
    ((Canvas.C09.splitFlags (fun x => decide (pi < x)) |th - th0| |th - th1|).1 = true ↔ pi < |th - th0|) ∧
    ((Canvas.C09.splitFlags (fun x => decide (pi < x)) |th - th0| |th - th1|).2 = true ↔ pi < |th - th1|) ∧
    ¬ ((Canvas.C09.splitFlags (fun x => decide (pi < x)) |th - th0| |th - th1|).1 = true ∧
       (Canvas.C09.splitFlags (fun x => decide (pi < x)) |th - th0| |th - th1|).2 = true) := by
  have hsum : |th - th0| + |th - th1| = |th1 - th0| := by
    rcases hb with ⟨h1, h2⟩ | ⟨h1, h2⟩
    · rw [abs_of_nonneg (by linarith), abs_of_nonpos (by linarith), abs_of_nonneg (by linarith)]; ring
    · rw [abs_of_nonpos (by linarith), abs_of_nonneg (by linarith), abs_of_nonpos (by linarith)]; ring
  unfold Canvas.C09.splitFlags
  by_cases h0 : pi < |th - th0|
  · have h1 : ¬ pi < |th - th1| := by intro h; linarith
    simp [h0, h1]
  · by_cases h1 : pi < |th - th1| <;> simp [h0, h1]

end C09L
