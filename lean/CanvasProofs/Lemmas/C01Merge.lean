import CanvasModel.C01Merge
import CanvasProofs.Lemmas.C01Column
/-! `mergeOverlapping` over a run of coincident segments in a column keeps the crossing sums of
`C01Column` (what every segment above the run sees) and zeroes the absorbed segments. Core only. -/
namespace Canvas.C01Merge
open Canvas.C01

/-- view of a chain as the (segment, fields) pairs of the column model -/
def pairs (l : List Ent) : List (Seg × Fields) := l.map fun e => (e.seg, e.f)

theorem sums_cons (e : Ent) (l : List Ent) :
    sums (pairs (e :: l)) = ((contrib e.seg e.f).1 + (sums (pairs l)).1, (contrib e.seg e.f).2 + (sums (pairs l)).2) := rfl

theorem addSelf_seg (s p : Ent) : (addSelf s p).seg = s.seg ∧ (addSelf s p).geom = s.geom ∧
    (addSelf s p).overlapped = s.overlapped := by
  unfold addSelf; split <;> simp

theorem addSelf_contrib (s p : Ent) (hv : p.seg.vertical = s.seg.vertical) :
    contrib (addSelf s p).seg (addSelf s p).f
      = ((contrib s.seg s.f).1 + (contrib p.seg p.f).1, (contrib s.seg s.f).2 + (contrib p.seg p.f).2) := by
  unfold addSelf contrib
  cases hsv : s.seg.vertical <;> cases hsc : s.seg.clipping <;> cases hpc : p.seg.clipping <;>
    simp_all

theorem contrib_zero (sg : Seg) : contrib sg zeroF = (0, 0) := by
  unfold contrib zeroF; split <;> (try split) <;> rfl

/-- 51f64dd `if s.open && !prev.open { s.open = false }`: only the `open_` flag of the receiver can
change, and only from true to false -/
theorem closeOn_seg (s p : Ent) :
    (closeOn s p).seg.clipping = s.seg.clipping ∧ (closeOn s p).seg.vertical = s.seg.vertical ∧
    (closeOn s p).seg.increasing = s.seg.increasing ∧ (closeOn s p).geom = s.geom ∧
    (closeOn s p).overlapped = s.overlapped ∧ (closeOn s p).f = s.f := by
  unfold closeOn; split <;> simp

/-- the receiver stays open exactly when it was open and the absorbed segment is open -/
theorem closeOn_open (s p : Ent) : (closeOn s p).seg.open_ = (s.seg.open_ && p.seg.open_) := by
  unfold closeOn
  cases hs : s.seg.open_ <;> cases hp : p.seg.open_ <;> simp [hs, hp]

/-- `contrib` (hence the crossing sums) does not read `open_` -/
theorem contrib_closeOn (s p : Ent) (f : Fields) : contrib (closeOn s p).seg f = contrib s.seg f := by
  obtain ⟨h1, h2, _⟩ := closeOn_seg s p
  unfold contrib; rw [h1, h2]

/-- `expected` does not read `open_` either: it depends on `clipping` only -/
theorem expected_congr (a b : Seg) (h : a.clipping = b.clipping) (sc : Int × Int) :
    expected a sc = expected b sc := by
  unfold expected; rw [h]

/-- the absorbing loop keeps the crossing sums of the whole chain, given that coincident segments
agree on being vertical (they have the same endpoints) -/
theorem absorb_sums (s : Ent) (below : List Ent)
    (hv : ∀ p ∈ below, p.geom = s.geom → p.seg.vertical = s.seg.vertical) :
    sums (pairs ((absorb s below).1 :: ((absorb s below).2.1 ++ (absorb s below).2.2)))
      = sums (pairs (s :: below)) ∧
    (absorb s below).1.seg.clipping = s.seg.clipping ∧
    (absorb s below).1.seg.vertical = s.seg.vertical ∧
    (absorb s below).1.seg.increasing = s.seg.increasing ∧ (absorb s below).1.geom = s.geom ∧
    (absorb s below).1.overlapped = s.overlapped ∧
    (absorb s below).1.f.w = s.f.w ∧ (absorb s below).1.f.ow = s.f.ow := by
  induction below generalizing s with
  | nil => simp [absorb]
  | cons p rest ih =>
    simp only [absorb]
    by_cases hc : (p.overlapped || p.geom != s.geom) = true
    · rw [if_pos hc]; simp
    · rw [if_neg hc]
      have hg : p.geom = s.geom := by
        simp only [Bool.or_eq_true, bne_iff_ne, ne_eq, not_or, Decidable.not_not] at hc; exact hc.2
      have hpv := hv p (List.mem_cons_self) hg
      obtain ⟨cc, cv, ci, cgeo, cov, cf⟩ := closeOn_seg s p
      obtain ⟨sg, sgeo, sov⟩ := addSelf_seg (closeOn s p) p
      have ih' := ih (addSelf (closeOn s p) p) (by
        intro q hq hqg
        rw [sg, cv]
        exact hv q (List.mem_cons_of_mem _ hq) (by rw [hqg, sgeo, cgeo]))
      obtain ⟨e1, e2, e2v, e2i, e3, e4, e5, e6⟩ := ih'
      refine ⟨?_, by rw [e2, sg, cc], by rw [e2v, sg, cv], by rw [e2i, sg, ci], by rw [e3, sgeo, cgeo],
        by rw [e4, sov, cov], ?_, ?_⟩
      · simp only [List.cons_append, sums_cons] at e1 ⊢
        simp only [contrib_zero]
        have := addSelf_contrib (closeOn s p) p (by rw [cv]; exact hpv)
        rw [this, contrib_closeOn, cf] at e1
        simp only [Prod.mk.injEq] at e1 ⊢
        omega
      · rw [e5, ← cf]; unfold addSelf; split <;> rfl
      · rw [e6, ← cf]; unfold addSelf; split <;> rfl

/-- clipping / vertical / increasing of the receiver never change (no hypothesis needed) -/
theorem absorb_seg_flags (s : Ent) (below : List Ent) :
    (absorb s below).1.seg.clipping = s.seg.clipping ∧
    (absorb s below).1.seg.vertical = s.seg.vertical ∧
    (absorb s below).1.seg.increasing = s.seg.increasing := by
  induction below generalizing s with
  | nil => simp [absorb]
  | cons p rest ih =>
    simp only [absorb]
    by_cases hc : (p.overlapped || p.geom != s.geom) = true
    · rw [if_pos hc]; simp
    · rw [if_neg hc]
      obtain ⟨a, b, c⟩ := ih (addSelf (closeOn s p) p)
      obtain ⟨cc, cv, ci, _⟩ := closeOn_seg s p
      rw [a, b, c, (addSelf_seg (closeOn s p) p).1]
      exact ⟨cc, cv, ci⟩

/-- `open_` of the receiver can only go from true to false in the absorbing loop … -/
theorem absorb_open_mono (s : Ent) (below : List Ent) :
    (absorb s below).1.seg.open_ = true → s.seg.open_ = true := by
  induction below generalizing s with
  | nil => simp [absorb]
  | cons p rest ih =>
    simp only [absorb]
    by_cases hc : (p.overlapped || p.geom != s.geom) = true
    · rw [if_pos hc]; exact id
    · rw [if_neg hc]
      intro h
      have h1 := ih _ h
      rw [(addSelf_seg (closeOn s p) p).1, closeOn_open] at h1
      simp only [Bool.and_eq_true] at h1
      exact h1.1

/-- … exactly: afterwards the receiver is open iff it was open and every absorbed segment is open
(the absorbed entries keep their `seg`) -/
theorem absorb_open_iff (s : Ent) (below : List Ent) :
    (absorb s below).1.seg.open_ = true ↔
      s.seg.open_ = true ∧ ∀ e ∈ (absorb s below).2.1, e.seg.open_ = true := by
  induction below generalizing s with
  | nil => simp [absorb]
  | cons p rest ih =>
    simp only [absorb]
    by_cases hc : (p.overlapped || p.geom != s.geom) = true
    · rw [if_pos hc]; simp
    · rw [if_neg hc]
      rw [ih, (addSelf_seg (closeOn s p) p).1, closeOn_open]
      simp only [Bool.and_eq_true, List.mem_cons, forall_eq_or_imp]
      constructor
      · rintro ⟨⟨a, b⟩, c⟩; exact ⟨a, b, c⟩
      · rintro ⟨a, b, c⟩; exact ⟨⟨a, b⟩, c⟩

theorem absorb_zeroed (s : Ent) (below : List Ent) :
    ∀ e ∈ (absorb s below).2.1, e.f = zeroF ∧ e.overlapped = true := by
  induction below generalizing s with
  | nil => simp [absorb]
  | cons p rest ih =>
    simp only [absorb]
    by_cases hc : (p.overlapped || p.geom != s.geom) = true
    · rw [if_pos hc]; simp
    · rw [if_neg hc]
      intro e he
      simp only [List.mem_cons] at he
      rcases he with rfl | he
      · exact ⟨rfl, rfl⟩
      · exact ih _ e he

theorem sums_zeroed (a rest : List Ent) (hz : ∀ e ∈ a, e.f = zeroF ∧ e.overlapped = true) :
    sums (pairs (a ++ rest)) = sums (pairs rest) := by
  induction a with
  | nil => rfl
  | cons e a ih =>
    have h1 := (hz e List.mem_cons_self).1
    have h2 := ih (fun q hq => hz q (List.mem_cons_of_mem _ hq))
    simp only [List.cons_append, sums_cons, h1, contrib_zero, h2]
    simp

theorem contrib_merged (s : Ent) (rest : List Ent) :
    contrib s.seg (mergedFields s rest) = contrib s.seg s.f := by
  cases rest with
  | nil => rfl
  | cons p r => simp only [mergedFields]; split <;> rfl

theorem merge_untouched (s : Ent) (below : List Ent)
    (h : s.overlapped = true ∨ (absorb s below).2.1.isEmpty = true) :
    (merge s below).s = s ∧ (merge s below).below = below ∧ (merge s below).touched = false := by
  unfold merge
  by_cases h1 : s.overlapped = true
  · rw [if_pos h1]; exact ⟨rfl, rfl, rfl⟩
  · rw [if_neg h1]
    have h2 : (absorb s below).2.1.isEmpty = true := by rcases h with h | h; exact absurd h h1; exact h
    simp [h2]

theorem merge_touched (s : Ent) (below : List Ent) (h1 : ¬ s.overlapped = true)
    (h2 : ¬ (absorb s below).2.1.isEmpty = true) :
    (merge s below).s = { (absorb s below).1 with f := mergedFields (absorb s below).1 (absorb s below).2.2 } ∧
    (merge s below).below = (absorb s below).2.1 ++ (absorb s below).2.2 ∧
    (merge s below).touched = true := by
  unfold merge
  rw [if_neg h1]
  simp only [h2]
  exact ⟨rfl, rfl, rfl⟩

theorem touched_cases (s : Ent) (below : List Ent) (ht : (merge s below).touched = true) :
    ¬ s.overlapped = true ∧ ¬ (absorb s below).2.1.isEmpty = true := by
  by_cases h1 : s.overlapped = true
  · rw [(merge_untouched s below (Or.inl h1)).2.2] at ht; cases ht
  · by_cases h2 : (absorb s below).2.1.isEmpty = true
    · rw [(merge_untouched s below (Or.inr h2)).2.2] at ht; cases ht
    · exact ⟨h1, h2⟩

/-- `mergeOverlapping` leaves the crossing sums of the chain unchanged: every segment above the
run sees the same signed crossings per polygon before and after -/
theorem merge_sums (s : Ent) (below : List Ent)
    (hv : ∀ p ∈ below, p.geom = s.geom → p.seg.vertical = s.seg.vertical) :
    sums (pairs ((merge s below).s :: (merge s below).below)) = sums (pairs (s :: below)) := by
  by_cases h : s.overlapped = true ∨ (absorb s below).2.1.isEmpty = true
  · obtain ⟨e1, e2, _⟩ := merge_untouched s below h
    rw [e1, e2]
  · have h1 : ¬ s.overlapped = true := fun x => h (Or.inl x)
    have h2 : ¬ (absorb s below).2.1.isEmpty = true := fun x => h (Or.inr x)
    obtain ⟨e1, e2, _⟩ := merge_touched s below h1 h2
    rw [e1, e2]
    have := (absorb_sums s below hv).1
    simp only [sums_cons, contrib_merged] at this ⊢
    exact this

/-- the absorbed segments are zeroed and marked, the segments below them untouched -/
theorem merge_below (s : Ent) (below : List Ent) (ht : (merge s below).touched = true) :
    (merge s below).below = (absorb s below).2.1 ++ (absorb s below).2.2 ∧
    (∀ e ∈ (absorb s below).2.1, e.f = zeroF ∧ e.overlapped = true) ∧
    ∃ pre, below = pre ++ (absorb s below).2.2 ∧ pre.length = (absorb s below).2.1.length := by
  have hsplit : ∀ (s : Ent) (below : List Ent),
      ∃ pre, below = pre ++ (absorb s below).2.2 ∧ pre.length = (absorb s below).2.1.length := by
    intro s below
    induction below generalizing s with
    | nil => exact ⟨[], by simp [absorb]⟩
    | cons p rest ih =>
      simp only [absorb]
      by_cases hc : (p.overlapped || p.geom != s.geom) = true
      · rw [if_pos hc]; exact ⟨[], by simp⟩
      · rw [if_neg hc]
        obtain ⟨pre, e1, e2⟩ := ih (addSelf (closeOn s p) p)
        exact ⟨p :: pre, by simp only [List.cons_append]; rw [← e1], by simp [e2]⟩
  obtain ⟨h1, h2⟩ := touched_cases s below ht
  exact ⟨(merge_touched s below h1 h2).2.1, absorb_zeroed s below, hsplit s below⟩

/-- after the merge the receiver's windings are again the crossing sums of what lies below it,
provided the first segment that was not absorbed had correct windings and is not vertical
(`mergeOverlapping`, unlike `computeSweepFields`, does not skip vertical segments; in the sweep the
`prev` of a non-vertical segment is always a status member, hence non-vertical) -/
theorem merge_fields_expected (s : Ent) (below : List Ent) (ht : (merge s below).touched = true)
    (hp : ∀ p rest', (absorb s below).2.2 = p :: rest' →
      p.seg.vertical = false ∧ (p.f.w, p.f.ow) = expected p.seg (sums (pairs rest'))) :
    ((merge s below).s.f.w, (merge s below).s.f.ow)
      = expected (merge s below).s.seg (sums (pairs (merge s below).below)) := by
  have hz := absorb_zeroed s below
  obtain ⟨h1, h2⟩ := touched_cases s below ht
  obtain ⟨e1, e2, _⟩ := merge_touched s below h1 h2
  rw [e1, e2, sums_zeroed _ _ hz]
  cases hr : (absorb s below).2.2 with
  | nil => simp [mergedFields, expected, pairs, sums]
  | cons p rest' =>
    obtain ⟨pv, pe⟩ := hp p rest' hr
    have pe1 : p.f.w = (expected p.seg (sums (pairs rest'))).1 := by rw [← pe]
    have pe2 : p.f.ow = (expected p.seg (sums (pairs rest'))).2 := by rw [← pe]
    simp only [mergedFields, sums_cons, contrib, pv, expected] at pe1 pe2 ⊢
    cases hc1 : (absorb s below).1.seg.clipping <;> cases hc2 : p.seg.clipping <;>
      simp [hc1, hc2] at pe1 pe2 ⊢ <;> omega

/-- 51f64dd at the level of `mergeOverlapping`: afterwards the receiver is open only if it was open
and every absorbed segment was open (an open segment lying on a closed one disappears in it); when
segments were absorbed this is an equivalence. The other flags of the receiver never change. -/
theorem merge_open (s : Ent) (below : List Ent) :
    ((merge s below).s.seg.open_ = true → s.seg.open_ = true) ∧
    ((merge s below).touched = true →
      ((merge s below).s.seg.open_ = true ↔
        s.seg.open_ = true ∧ ∀ e ∈ (absorb s below).2.1, e.seg.open_ = true)) ∧
    (merge s below).s.seg.clipping = s.seg.clipping ∧ (merge s below).s.seg.vertical = s.seg.vertical ∧
    (merge s below).s.seg.increasing = s.seg.increasing := by
  by_cases h : s.overlapped = true ∨ (absorb s below).2.1.isEmpty = true
  · obtain ⟨e1, _, e3⟩ := merge_untouched s below h
    rw [e1, e3]
    exact ⟨id, by simp, rfl, rfl, rfl⟩
  · have h1 : ¬ s.overlapped = true := fun x => h (Or.inl x)
    have h2 : ¬ (absorb s below).2.1.isEmpty = true := fun x => h (Or.inr x)
    obtain ⟨e1, _, _⟩ := merge_touched s below h1 h2
    rw [e1]
    refine ⟨absorb_open_mono s below, fun _ => absorb_open_iff s below, ?_, ?_, ?_⟩
    · exact (absorb_seg_flags s below).1
    · exact (absorb_seg_flags s below).2.1
    · exact (absorb_seg_flags s below).2.2

end Canvas.C01Merge
