import CanvasModel.C03
/-! C03 helper lemmas: the `replace` driver model keeps the subpath structure (core Lean only). -/
namespace C03L
open Canvas Canvas.C03

theorem advance_advance {α : Type} (st : Option (SubSig α)) (v p : Pt α) :
    advance (advance st v) p = advance st p := by
  cases st <;> rfl

theorem sigGo_lines {α κ : Type} (vs : List (Pt α)) (p : Pt α) (tl : List (Cmd α κ)) :
    ∀ st : Option (SubSig α), sigGo st (vs.map Cmd.L ++ Cmd.L p :: tl) = sigGo (advance st p) tl := by
  induction vs with
  | nil => intro st; simp [sigGo]
  | cons v vs ih => intro st; simp only [List.map_cons, List.cons_append, sigGo]; rw [ih, advance_advance]

theorem sigGo_flatten {α κ : Type} (f : Pt α → κ → Pt α → List (Pt α)) (cs : List (Cmd α κ)) :
    ∀ (st : Option (SubSig α)) (cur : Pt α), sigGo st (flattenCmds f cur cs) = sigGo st cs := by
  induction cs with
  | nil => intro st cur; simp [flattenCmds]
  | cons c rest ih =>
    intro st cur
    cases c with
    | M p => simp only [flattenCmds, sigGo, Cmd.endp]; rw [ih]
    | L p => simp only [flattenCmds, sigGo, Cmd.endp]; rw [ih]
    | Z p => simp only [flattenCmds, sigGo, Cmd.endp]; rw [ih]
    | Curve k p => simp only [flattenCmds, sigGo]; rw [sigGo_lines, ih]

theorem flatten_isFlat {α κ : Type} (f : Pt α → κ → Pt α → List (Pt α)) (cs : List (Cmd α κ)) :
    ∀ (cur : Pt α) (c : Cmd α κ), c ∈ flattenCmds f cur cs → c.isFlat = true := by
  induction cs with
  | nil => intro cur c h; simp [flattenCmds] at h
  | cons c0 rest ih =>
    intro cur c h
    cases c0 with
    | M p =>
      simp only [flattenCmds, List.mem_cons] at h
      rcases h with rfl | h
      · rfl
      · exact ih _ _ h
    | L p =>
      simp only [flattenCmds, List.mem_cons] at h
      rcases h with rfl | h
      · rfl
      · exact ih _ _ h
    | Z p =>
      simp only [flattenCmds, List.mem_cons] at h
      rcases h with rfl | h
      · rfl
      · exact ih _ _ h
    | Curve k p =>
      simp only [flattenCmds, List.mem_append, List.mem_map, List.mem_cons] at h
      rcases h with ⟨v, _, rfl⟩ | rfl | h
      · rfl
      · rfl
      · exact ih _ _ h

/-- flat input is returned unchanged -/
theorem flatten_flat_id {α κ : Type} (f : Pt α → κ → Pt α → List (Pt α)) (cs : List (Cmd α κ)) :
    (∀ c ∈ cs, c.isFlat = true) → ∀ cur : Pt α, flattenCmds f cur cs = cs := by
  induction cs with
  | nil => intro _ cur; simp [flattenCmds]
  | cons c0 rest ih =>
    intro h cur
    have hr := ih (fun c hc => h c (List.mem_cons_of_mem _ hc))
    cases c0 with
    | M p => simp [flattenCmds, hr]
    | L p => simp [flattenCmds, hr]
    | Z p => simp [flattenCmds, hr]
    | Curve k p => have := h _ (List.mem_cons_self); simp [Cmd.isFlat] at this

end C03L
