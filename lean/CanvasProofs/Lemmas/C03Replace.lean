import CanvasModel.C03
/-! C03 helper lemmas: the `replace` driver model keeps the subpath structure (core Lean only). -/
namespace C03L
open Canvas Canvas.C03

theorem advance_advance {α : Type} (st : Option (SubSig α)) (v p : Pt α) :
    advance (advance st v) p = advance st p := by
  cases st <;> rfl

theorem sigGo_lines {α κ : Type} (vs : List (Pt α)) (p : Pt α) (tl : List (Cmd α κ)) :
    ∀ st : Option (SubSig α), sigGo st (vs.map Cmd.L ++ Cmd.L p :: tl) = sigGo (advance st p) tl := by
  induction vs with
  | nil => intro st; simp [sigGo]
  | cons v vs ih => intro st; simp only [List.map_cons, List.cons_append, sigGo]; rw [ih, advance_advance]

theorem sigGo_flatten {α κ : Type} (f : Pt α → κ → Pt α → List (Pt α)) (cs : List (Cmd α κ)) :
    ∀ (st : Option (SubSig α)) (cur : Pt α), sigGo st (flattenCmds f cur cs) = sigGo st cs := by
  induction cs with
  | nil => intro st cur; simp [flattenCmds]
  | cons c rest ih =>
    intro st cur
    cases c with
    | M p => simp only [flattenCmds, sigGo, Cmd.endp]; rw [ih]
    | L p => simp only [flattenCmds, sigGo, Cmd.endp]; rw [ih]
    | Z p => simp only [flattenCmds, sigGo, Cmd.endp]; rw [ih]
    | Curve k p => simp only [flattenCmds, sigGo]; rw [sigGo_lines, ih]

theorem flatten_isFlat {α κ : Type} (f : Pt α → κ → Pt α → List (Pt α)) (cs : List (Cmd α κ)) :
    ∀ (cur : Pt α) (c : Cmd α κ), c ∈ flattenCmds f cur cs → c.isFlat = true := by
  induction cs with
  | nil => intro cur c h; simp [flattenCmds] at h
  | cons c0 rest ih =>
    intro cur c h
    cases c0 with
    | M p =>
      simp only [flattenCmds, List.mem_cons] at h
      rcases h with rfl | h
      · rfl
      · exact ih _ _ h
    | L p =>
      simp only [flattenCmds, List.mem_cons] at h
      rcases h with rfl | h
      · rfl
      · exact ih _ _ h
    | Z p =>
      simp only [flattenCmds, List.mem_cons] at h
      rcases h with rfl | h
      · rfl
      · exact ih _ _ h
    | Curve k p =>
      simp only [flattenCmds, List.mem_append, List.mem_map, List.mem_cons] at h
      rcases h with ⟨v, _, rfl⟩ | rfl | h
      · rfl
      · rfl
      · exact ih _ _ h

/-- flat input is returned unchanged -/
theorem flatten_flat_id {α κ : Type} (f : Pt α → κ → Pt α → List (Pt α)) (cs : List (Cmd α κ)) :
    (∀ c ∈ cs, c.isFlat = true) → ∀ cur : Pt α, flattenCmds f cur cs = cs := by
  induction cs with
  | nil => intro _ cur; simp [flattenCmds]
  | cons c0 rest ih =>
    intro h cur
    have hr := ih (fun c hc => h c (List.mem_cons_of_mem _ hc))
    cases c0 with
    | M p => simp [flattenCmds, hr]
    | L p => simp [flattenCmds, hr]
    | Z p => simp [flattenCmds, hr]
    | Curve k p => have := h _ (List.mem_cons_self); simp [Cmd.isFlat] at this

theorem countP_map_L {α κ : Type} (vs : List (Pt α)) :
    (vs.map (Cmd.L : Pt α → Cmd α κ)).countP Cmd.isMove = 0 := by
  induction vs with
  | nil => rfl
  | cons v vs ih => simp [List.countP_cons, Cmd.isMove, ih]

/-- The bridging rule: when the `LineTo(end)` is skipped only in situations in which `Join` regards
the two points as coincident (`skip a b → eq a b`; in the library both are `Point.Equals`), and `eq`
is reflexive, the rest of the path always continues the current subpath: no MoveTo is introduced. -/
theorem replaceCmds_count {α κ : Type} (skip eq : Pt α → Pt α → Bool) (f : Pt α → κ → Pt α → List (Pt α))
    (hse : ∀ a b, skip a b = true → eq a b = true) (hrefl : ∀ a, eq a a = true) (cs : List (Cmd α κ)) :
    ∀ cur : Pt α, subpathCount (replaceCmds skip eq f cur cs) = subpathCount cs := by
  induction cs with
  | nil => intro cur; simp [replaceCmds, subpathCount]
  | cons c rest ih =>
    intro cur
    cases c with
    | M p => simp only [replaceCmds, subpathCount, List.countP_cons, Cmd.endp] at *; rw [ih]
    | L p => simp only [replaceCmds, subpathCount, List.countP_cons, Cmd.endp] at *; rw [ih]
    | Z p => simp only [replaceCmds, subpathCount, List.countP_cons, Cmd.endp] at *; rw [ih]
    | Curve k p =>
      simp only [replaceCmds, subpathCount, List.countP_cons, List.countP_append, Cmd.isMove] at *
      rw [countP_map_L]
      by_cases hs : skip ((f cur k p).getLast?.getD cur) p = true
      · have he := hse _ _ hs
        simp only [hs, if_true, he, List.countP_nil]
        rw [ih]; simp
      · have hs' : skip ((f cur k p).getLast?.getD cur) p = false := by simpa using hs
        simp only [hs', Bool.false_eq_true, if_false, List.getLast?_append, List.getLast?_singleton,
          Option.some_or, Option.getD_some, hrefl, if_true, List.countP_nil]
        rw [ih]; simp

end C03L
