import CanvasProofs.Lemmas.C08

/-! # C08 — Bounds contains a cubic exactly (Epsilon = 0)

No calculus: over an arbitrary ordered field the cubic coordinate `f` and a third of its derivative
`g(u) = a u² + b u + c` satisfy Simpson's identity `f t − f s = (t−s)/2 · (g s + 4 g((s+t)/2) + g t)`,
so `f` is monotone wherever `g` keeps one sign. `solveQuadratic` returns every point in (0,1) at which
`g` can change sign (`solveQuadratic_spec`), hence every `t ∈ [0,1]` sits between two consecutive
candidates (end points or returned roots) on a stretch where `f` is monotone. -/
set_option linter.unusedSectionVars false
set_option linter.unusedVariables false
namespace C08
open Canvas Canvas.C08 GenK
variable {K : Type} [Field K] [LinearOrder K] [IsStrictOrderedRing K] [Env K] [ArcFns K]

/-- `g` keeps one sign on `[p,q]` -/
def SC (g : K → K) (p q : K) : Prop :=
  (∀ u, p ≤ u → u ≤ q → 0 ≤ g u) ∨ (∀ u, p ≤ u → u ≤ q → g u ≤ 0)

theorem sc_nonneg (g : K → K) (p q : K) (h : ∀ u, 0 ≤ g u) : SC g p q := Or.inl fun u _ _ => h u
theorem sc_nonpos (g : K → K) (p q : K) (h : ∀ u, g u ≤ 0) : SC g p q := Or.inr fun u _ _ => h u

/-- a linear factor keeps its sign on an interval that does not contain its root in the interior -/
theorem lin_sign (r p q : K) (h : r ≤ p ∨ q ≤ r) :
    (∀ u, p ≤ u → u ≤ q → 0 ≤ u - r) ∨ (∀ u, p ≤ u → u ≤ q → u - r ≤ 0) := by
  rcases h with h | h
  · exact Or.inl fun u hp _ => by linarith
  · exact Or.inr fun u _ hq => by linarith

theorem sc_one (g : K → K) (k r p q : K) (hg : ∀ u, g u = k * (u - r)) (h : r ≤ p ∨ q ≤ r) : SC g p q := by
  rcases lin_sign r p q h with s | s <;> rcases le_total 0 k with hk | hk
  · exact Or.inl fun u hp hq => by rw [hg]; exact mul_nonneg hk (s u hp hq)
  · exact Or.inr fun u hp hq => by rw [hg]; exact mul_nonpos_of_nonpos_of_nonneg hk (s u hp hq)
  · exact Or.inr fun u hp hq => by rw [hg]; exact mul_nonpos_of_nonneg_of_nonpos hk (s u hp hq)
  · exact Or.inl fun u hp hq => by rw [hg]; exact mul_nonneg_of_nonpos_of_nonpos hk (s u hp hq)

theorem sc_two (g : K → K) (k r1 r2 p q : K) (hg : ∀ u, g u = k * ((u - r1) * (u - r2)))
    (h1 : r1 ≤ p ∨ q ≤ r1) (h2 : r2 ≤ p ∨ q ≤ r2) : SC g p q := by
  have prod : (∀ u, p ≤ u → u ≤ q → 0 ≤ (u - r1) * (u - r2)) ∨ (∀ u, p ≤ u → u ≤ q → (u - r1) * (u - r2) ≤ 0) := by
    rcases lin_sign r1 p q h1 with s1 | s1 <;> rcases lin_sign r2 p q h2 with s2 | s2
    · exact Or.inl fun u hp hq => mul_nonneg (s1 u hp hq) (s2 u hp hq)
    · exact Or.inr fun u hp hq => mul_nonpos_of_nonneg_of_nonpos (s1 u hp hq) (s2 u hp hq)
    · exact Or.inr fun u hp hq => mul_nonpos_of_nonpos_of_nonneg (s1 u hp hq) (s2 u hp hq)
    · exact Or.inl fun u hp hq => mul_nonneg_of_nonpos_of_nonpos (s1 u hp hq) (s2 u hp hq)
  rcases prod with s | s <;> rcases le_total 0 k with hk | hk
  · exact Or.inl fun u hp hq => by rw [hg]; exact mul_nonneg hk (s u hp hq)
  · exact Or.inr fun u hp hq => by rw [hg]; exact mul_nonpos_of_nonpos_of_nonneg hk (s u hp hq)
  · exact Or.inr fun u hp hq => by rw [hg]; exact mul_nonpos_of_nonneg_of_nonpos hk (s u hp hq)
  · exact Or.inl fun u hp hq => by rw [hg]; exact mul_nonneg_of_nonpos_of_nonpos hk (s u hp hq)

/-- Simpson's identity makes `f` monotone where `g` keeps its sign -/
theorem between_of_sc (f g : K → K)
    (simpson : ∀ s t, f t - f s = (t - s) / 2 * (g s + 4 * g ((s + t) / 2) + g t))
    (p q t : K) (hpt : p ≤ t) (htq : t ≤ q) (sc : SC g p q) :
    (f p ≤ f t ∧ f t ≤ f q) ∨ (f q ≤ f t ∧ f t ≤ f p) := by
  have m1 : p ≤ (p + t) / 2 ∧ (p + t) / 2 ≤ q := ⟨by linarith, by linarith⟩
  have m2 : p ≤ (t + q) / 2 ∧ (t + q) / 2 ≤ q := ⟨by linarith, by linarith⟩
  have hpq : p ≤ q := hpt.trans htq
  have w1 : 0 ≤ (t - p) / 2 := by linarith
  have w2 : 0 ≤ (q - t) / 2 := by linarith
  rcases sc with s | s
  · left
    have a := simpson p t
    have b := simpson t q
    have s1 : 0 ≤ g p + 4 * g ((p + t) / 2) + g t := by
      linarith [s p (le_refl _) hpq, s _ m1.1 m1.2, s t hpt htq]
    have s2 : 0 ≤ g t + 4 * g ((t + q) / 2) + g q := by
      linarith [s q hpq (le_refl _), s _ m2.1 m2.2, s t hpt htq]
    exact ⟨by nlinarith [mul_nonneg w1 s1], by nlinarith [mul_nonneg w2 s2]⟩
  · right
    have a := simpson p t
    have b := simpson t q
    have s1 : g p + 4 * g ((p + t) / 2) + g t ≤ 0 := by
      linarith [s p (le_refl _) hpq, s _ m1.1 m1.2, s t hpt htq]
    have s2 : g t + 4 * g ((t + q) / 2) + g q ≤ 0 := by
      linarith [s q hpq (le_refl _), s _ m2.1 m2.2, s t hpt htq]
    exact ⟨by nlinarith [mul_nonneg w2 (neg_nonneg.2 s2)], by nlinarith [mul_nonneg w1 (neg_nonneg.2 s1)]⟩

/-- shrink `[p,q] ∋ t` so that `r` is not in its interior; a new end point is `r` itself -/
theorem refine_interval (p q r t : K) (hpt : p ≤ t) (htq : t ≤ q) :
    ∃ p' q', p ≤ p' ∧ p' ≤ t ∧ t ≤ q' ∧ q' ≤ q ∧ (r ≤ p' ∨ q' ≤ r) ∧
      (p' = p ∨ (p' = r ∧ p < r ∧ r < q)) ∧ (q' = q ∨ (q' = r ∧ p < r ∧ r < q)) := by
  by_cases h : p < r ∧ r < q
  · rcases le_total r t with hr | hr
    · exact ⟨r, q, h.1.le, hr, htq, le_refl _, Or.inl (le_refl _), Or.inr ⟨rfl, h⟩, Or.inl rfl⟩
    · exact ⟨p, r, le_refl _, hpt, hr, h.2.le, Or.inr (le_refl _), Or.inl rfl, Or.inr ⟨rfl, h⟩⟩
  · refine ⟨p, q, le_refl _, hpt, htq, le_refl _, ?_, Or.inl rfl, Or.inl rfl⟩
    rw [not_and_or, not_lt, not_lt] at h; exact h

/-- the box spanned by the end values and the values at the sign-change candidates inside (0,1)
contains `f` on all of [0,1] -/
theorem cubic_box (f g : K → K)
    (simpson : ∀ s t, f t - f s = (t - s) / 2 * (g s + 4 * g ((s + t) / 2) + g t))
    (r1 r2 : K)
    (hSC : ∀ p q, p ≤ q → (r1 ≤ p ∨ q ≤ r1) → (r2 ≤ p ∨ q ≤ r2) → SC g p q)
    (L H : K) (h0 : L ≤ f 0 ∧ f 0 ≤ H) (h1 : L ≤ f 1 ∧ f 1 ≤ H)
    (hr1 : 0 < r1 → r1 < 1 → L ≤ f r1 ∧ f r1 ≤ H) (hr2 : 0 < r2 → r2 < 1 → L ≤ f r2 ∧ f r2 ≤ H)
    (t : K) (t0 : 0 ≤ t) (t1 : t ≤ 1) : L ≤ f t ∧ f t ≤ H := by
  obtain ⟨p1, q1, a1, a2, a3, a4, a5, a6, a7⟩ := refine_interval 0 1 r1 t t0 t1
  obtain ⟨p2, q2, b1, b2, b3, b4, b5, b6, b7⟩ := refine_interval p1 q1 r2 t a2 a3
  have fp1 : L ≤ f p1 ∧ f p1 ≤ H := by
    rcases a6 with e | ⟨e, l, u⟩
    · rw [e]; exact h0
    · rw [e]; exact hr1 l u
  have fq1 : L ≤ f q1 ∧ f q1 ≤ H := by
    rcases a7 with e | ⟨e, l, u⟩
    · rw [e]; exact h1
    · rw [e]; exact hr1 l u
  have fp2 : L ≤ f p2 ∧ f p2 ≤ H := by
    rcases b6 with e | ⟨e, l, u⟩
    · rw [e]; exact fp1
    · rw [e]; exact hr2 (lt_of_le_of_lt a1 l) (lt_of_lt_of_le u a4)
  have fq2 : L ≤ f q2 ∧ f q2 ≤ H := by
    rcases b7 with e | ⟨e, l, u⟩
    · rw [e]; exact fq1
    · rw [e]; exact hr2 (lt_of_le_of_lt a1 l) (lt_of_lt_of_le u a4)
  have r1out : r1 ≤ p2 ∨ q2 ≤ r1 := by
    rcases a5 with h | h
    · exact Or.inl (h.trans b1)
    · exact Or.inr (b4.trans h)
  rcases between_of_sc f g simpson p2 q2 t b2 b3 (hSC p2 q2 (b2.trans b3) r1out b5) with ⟨x, y⟩ | ⟨x, y⟩
  · exact ⟨fp2.1.trans x, y.trans fq2.2⟩
  · exact ⟨fq2.1.trans x, y.trans fp2.2⟩

/-- What `solveQuadratic` guarantees (Epsilon = 0, `sqrt` a square root on non-negatives): there are
two points `r1 r2` such that `g(u) = a u² + b u + c` keeps one sign on every interval avoiding both in
its interior, and each of them that lies in (0,1) is among the returned values. (All seven branches.) -/
theorem solveQuadratic_spec (hε : (Env.epsilon : K) = 0)
    (hs : ∀ x : K, 0 ≤ x → Env.sqrt x * Env.sqrt x = x) (a b c : K) :
    ∃ r1 r2 : K,
      (∀ p q, p ≤ q → (r1 ≤ p ∨ q ≤ r1) → (r2 ≤ p ∨ q ≤ r2) → SC (fun u => a * u * u + b * u + c) p q) ∧
      (∀ r, (r = r1 ∨ r = r2) → 0 < r → r < 1 →
        ((solveQuadratic a b c).1 = some r ∨ (solveQuadratic a b c).2 = some r)) := by
  have eq0 := equal_zero_iff hε
  by_cases ha : a = 0
  · by_cases hb : b = 0
    · -- constant
      refine ⟨0, 0, fun p q _ _ _ => ?_, fun r hr h0 _ => ?_⟩
      · subst ha; subst hb
        rcases le_total 0 c with hc | hc
        · exact sc_nonneg _ p q fun u => by simpa using hc
        · exact sc_nonpos _ p q fun u => by simpa using hc
      · rcases hr with e | e <;> (rw [e] at h0; exact absurd h0 (lt_irrefl _))
    · -- linear
      refine ⟨-c / b, -c / b, fun p q _ h1 _ => ?_, fun r hr _ _ => ?_⟩
      · exact sc_one _ b (-c / b) p q (fun u => by subst ha; field_simp; ring) h1
      · have e : r = -c / b := by rcases hr with e | e <;> exact e
        left
        unfold solveQuadratic
        simp only [ops_equal]
        rw [if_pos ((eq0 a).2 ha), if_neg (fun e => hb ((eq0 b).1 e)), e]
  · by_cases hc : c = 0
    · by_cases hb : b = 0
      · refine ⟨0, 0, fun p q _ h1 h2 => ?_, fun r hr h0 _ => ?_⟩
        · exact sc_two _ a 0 0 p q (fun u => by subst hb; subst hc; ring) h1 h2
        · rcases hr with e | e <;> (rw [e] at h0; exact absurd h0 (lt_irrefl _))
      · refine ⟨0, -b / a, fun p q _ h1 h2 => ?_, fun r hr h0 _ => ?_⟩
        · exact sc_two _ a 0 (-b / a) p q (fun u => by subst hc; field_simp; ring) h1 h2
        · rcases hr with e | e
          · rw [e] at h0; exact absurd h0 (lt_irrefl _)
          · right
            unfold solveQuadratic
            simp only [ops_equal]
            rw [if_neg (fun e => ha ((eq0 a).1 e)), if_pos ((eq0 c).2 hc), if_neg (fun e => hb ((eq0 b).1 e)), e]
    · by_cases hd : b * b - 4 * a * c < 0
      · -- no real root: 4a·g(u) = (2au+b)² − disc > 0
        refine ⟨0, 0, fun p q _ _ _ => ?_, fun r hr h0 _ => ?_⟩
        · rcases lt_or_gt_of_ne ha with an | ap
          · refine sc_nonpos _ p q fun u => ?_
            nlinarith [mul_self_nonneg (2 * a * u + b)]
          · refine sc_nonneg _ p q fun u => ?_
            nlinarith [mul_self_nonneg (2 * a * u + b)]
        · rcases hr with e | e <;> (rw [e] at h0; exact absurd h0 (lt_irrefl _))
      · by_cases hz : b * b - 4 * a * c = 0
        · refine ⟨-b / (2 * a), -b / (2 * a), fun p q _ h1 h2 => ?_, fun r hr _ _ => ?_⟩
          · refine sc_two _ a (-b / (2 * a)) (-b / (2 * a)) p q (fun u => ?_) h1 h2
            field_simp
            linear_combination (-1 : K) * hz
          · have e : r = -b / (2 * a) := by rcases hr with e | e <;> exact e
            left
            unfold solveQuadratic
            simp only [ops_equal]
            rw [if_neg (fun e => ha ((eq0 a).1 e)), if_neg (fun e => hc ((eq0 c).1 e))]
            rw [if_neg hd, if_pos ((eq0 _).2 hz), e]
        · have hq := hs _ (not_lt.1 hd)
          generalize hqq : (if b < 0 then -Env.sqrt (b * b - 4 * a * c) else Env.sqrt (b * b - 4 * a * c)) = q
          have hq2 : q * q = b * b - 4 * a * c := by
            rw [← hqq]; split <;> simp [hq]
          generalize hx1 : -(b + q) / (2 * a) = x1
          have r1 : a * x1 * x1 + b * x1 + c = 0 := by
            rw [← hx1]; field_simp; linear_combination hq2
          have x1ne : x1 ≠ 0 := by
            intro e; rw [e] at r1; simp at r1; exact hc r1
          have v1 : a * (c / (a * x1)) * x1 = c := by field_simp
          have v2 : a * (x1 + c / (a * x1)) = -b := by
            field_simp; linear_combination r1
          have val : solveQuadratic a b c =
              (if c / (a * x1) < x1 then (some (c / (a * x1)), some x1) else (some x1, some (c / (a * x1)))) := by
            unfold solveQuadratic
            simp only [ops_equal, ops_sqrt]
            rw [if_neg (fun e => ha ((eq0 a).1 e)), if_neg (fun e => hc ((eq0 c).1 e))]
            rw [if_neg hd, if_neg (fun e => hz ((eq0 _).1 e)), hqq, hx1]
          refine ⟨x1, c / (a * x1), fun p q _ h1 h2 => ?_, fun r hr _ _ => ?_⟩
          · refine sc_two _ a x1 (c / (a * x1)) p q (fun u => ?_) h1 h2
            linear_combination u * v2 - v1
          · rw [val]
            split <;> rcases hr with e | e <;> simp [e]

theorem cb_zero (a0 a1 a2 a3 : K) : cb a0 a1 a2 a3 0 = a0 := by unfold cb; ring

theorem cb_simpson (a0 a1 a2 a3 s t : K) :
    cb a0 a1 a2 a3 t - cb a0 a1 a2 a3 s = (t - s) / 2 *
      (((-a0 + 3 * a1 - 3 * a2 + a3) * s * s + (2 * a0 - 4 * a1 + 2 * a2) * s + (-a0 + a1))
        + 4 * ((-a0 + 3 * a1 - 3 * a2 + a3) * ((s + t) / 2) * ((s + t) / 2) + (2 * a0 - 4 * a1 + 2 * a2) * ((s + t) / 2) + (-a0 + a1))
        + ((-a0 + 3 * a1 - 3 * a2 + a3) * t * t + (2 * a0 - 4 * a1 + 2 * a2) * t + (-a0 + a1))) := by
  unfold cb; ring

theorem cand_hit (val : K → K) (r : K) (lh : K × K) (h : GenK.IntervalExclusive r 0 1 = true) :
    (cand val (some r) lh).1 ≤ val r ∧ val r ≤ (cand val (some r) lh).2 := by
  simp only [cand, ops_ivx, h, if_true]
  exact ⟨min_le_right _ _, le_max_right _ _⟩

/-- a returned root inside (0,1) is evaluated and included -/
theorem cubeAxis_hit (a0 a1 a2 a3 : K) (val : K → K) (lo hi r : K)
    (hr : (solveQuadratic (-a0 + 3 * a1 - 3 * a2 + a3) (2 * a0 - 4 * a1 + 2 * a2) (-a0 + a1)).1 = some r ∨
          (solveQuadratic (-a0 + 3 * a1 - 3 * a2 + a3) (2 * a0 - 4 * a1 + 2 * a2) (-a0 + a1)).2 = some r)
    (h : GenK.IntervalExclusive r 0 1 = true) :
    (cubeAxis a0 a1 a2 a3 val lo hi).1 ≤ val r ∧ val r ≤ (cubeAxis a0 a1 a2 a3 val lo hi).2 := by
  simp only [cubeAxis]
  rcases hr with e | e
  · rw [e]
    have h1 := cand_hit val r (Ops.mn lo a3, Ops.mx hi a3) h
    have h2 := cand_mono val (solveQuadratic (-a0 + 3 * a1 - 3 * a2 + a3) (2 * a0 - 4 * a1 + 2 * a2) (-a0 + a1)).2
      (cand val (some r) (Ops.mn lo a3, Ops.mx hi a3))
    exact ⟨h2.1.trans h1.1, h1.2.trans h2.2⟩
  · rw [e]
    exact cand_hit val r _ h

/-- one axis of the CubeTo case of `Bounds` contains the coordinate of every point of the cubic -/
theorem cubeAxis_contains (hε : (Env.epsilon : K) = 0) (hs : ∀ x : K, 0 ≤ x → Env.sqrt x * Env.sqrt x = x)
    (a0 a1 a2 a3 : K) (val : K → K) (lo hi t : K)
    (hval : ∀ u, val u = cb a0 a1 a2 a3 u) (hlo : lo ≤ a0) (hhi : a0 ≤ hi) (t0 : 0 ≤ t) (t1 : t ≤ 1) :
    (cubeAxis a0 a1 a2 a3 val lo hi).1 ≤ cb a0 a1 a2 a3 t ∧ cb a0 a1 a2 a3 t ≤ (cubeAxis a0 a1 a2 a3 val lo hi).2 := by
  obtain ⟨r1, r2, hSC, hret⟩ := solveQuadratic_spec hε hs (-a0 + 3 * a1 - 3 * a2 + a3) (2 * a0 - 4 * a1 + 2 * a2) (-a0 + a1)
  have mono := cubeAxis_mono a0 a1 a2 a3 val lo hi
  have inside : ∀ r, (r = r1 ∨ r = r2) → 0 < r → r < 1 →
      (cubeAxis a0 a1 a2 a3 val lo hi).1 ≤ cb a0 a1 a2 a3 r ∧ cb a0 a1 a2 a3 r ≤ (cubeAxis a0 a1 a2 a3 val lo hi).2 := by
    intro r hr h0 h1
    have hi' : GenK.IntervalExclusive r 0 1 = true := by rw [ivx01, hε]; exact ⟨h0, by linarith⟩
    have := cubeAxis_hit a0 a1 a2 a3 val lo hi r (hret r hr h0 h1) hi'
    rwa [hval] at this
  refine cubic_box (cb a0 a1 a2 a3)
    (fun u => (-a0 + 3 * a1 - 3 * a2 + a3) * u * u + (2 * a0 - 4 * a1 + 2 * a2) * u + (-a0 + a1))
    (cb_simpson a0 a1 a2 a3) r1 r2 hSC _ _ ?_ ?_ (inside r1 (Or.inl rfl)) (inside r2 (Or.inr rfl)) t t0 t1
  · rw [cb_zero]
    exact ⟨(mono.1.trans (min_le_left _ _)).trans hlo, hhi.trans ((le_max_left _ _).trans mono.2)⟩
  · rw [cb_one]
    exact ⟨mono.1.trans (min_le_right _ _), (le_max_right _ _).trans mono.2⟩

/-- `Bounds` as a `GoodStep` on all of M/L/Q/C/Z (Epsilon = 0, exact square root) -/
theorem boundsStep_good_full (hε : (Env.epsilon : K) = 0) (hs : ∀ x : K, 0 ≤ x → Env.sqrt x * Env.sqrt x = x)
    (sw : Bool) : GoodStep (fun c : Cmd K => c.isArc = false) (boundsStepG sw) where
  start_eq := boundsStep_start sw
  mono := boundsStep_mono sw
  seg := by
    intro s c q ok hs' h
    cases c with
    | C cp1 cp2 p =>
      obtain ⟨t, t0, t1, rfl⟩ := h
      obtain ⟨s1, s2, s3, s4⟩ := hs'
      have X := cubeAxis_contains hε hs s.start.x cp1.x cp2.x p.x (fun t => (Ops.cubePos s.start cp1 cp2 p t).x) s.xmin s.xmax t
        (fun u => cubePos_x _ _ _ _ u) s1 s2 t0 t1
      have Y := cubeAxis_contains hε hs s.start.y cp1.y cp2.y p.y (fun t => (Ops.cubePos s.start cp1 cp2 p t).y) s.ymin s.ymax t
        (fun u => cubePos_y _ _ _ _ u) s3 s4 t0 t1
      simp only [StIn, cubePos_x, cubePos_y]
      exact ⟨X.1, X.2, Y.1, Y.2⟩
    | A rx ry phi l sw' p => exact h.elim
    | M p => exact (boundsStep_good hε sw).seg s (.M p) q ⟨rfl, rfl⟩ hs' h
    | L p => exact (boundsStep_good hε sw).seg s (.L p) q ⟨rfl, rfl⟩ hs' h
    | Z p => exact (boundsStep_good hε sw).seg s (.Z p) q ⟨rfl, rfl⟩ hs' h
    | Q cp p => exact (boundsStep_good hε sw).seg s (.Q cp p) q ⟨rfl, rfl⟩ hs' h
  endIn := by
    intro s c ok hs'
    cases c with
    | C cp1 cp2 p =>
      have X := cubeAxis_mono s.start.x cp1.x cp2.x p.x (fun t => (Ops.cubePos s.start cp1 cp2 p t).x) s.xmin s.xmax
      have Y := cubeAxis_mono s.start.y cp1.y cp2.y p.y (fun t => (Ops.cubePos s.start cp1 cp2 p t).y) s.ymin s.ymax
      exact ⟨X.1.trans (min_le_right _ _), (le_max_right _ _).trans X.2, Y.1.trans (min_le_right _ _), (le_max_right _ _).trans Y.2⟩
    | A rx ry phi l sw' p => simp [Cmd.isArc] at ok
    | M p => exact (boundsStep_good hε sw).endIn s (.M p) ⟨rfl, rfl⟩ hs'
    | L p => exact (boundsStep_good hε sw).endIn s (.L p) ⟨rfl, rfl⟩ hs'
    | Z p => exact (boundsStep_good hε sw).endIn s (.Z p) ⟨rfl, rfl⟩ hs'
    | Q cp p => exact (boundsStep_good hε sw).endIn s (.Q cp p) ⟨rfl, rfl⟩ hs'

end C08
