import CanvasProofs.Lemmas.C13ParseD

/-! C13 serialise-then-parse, part E: a sufficient condition for `canonOK` — the entries are the
optional Type entry, the optional Subtype entry, then the other keys in strictly increasing order. -/
namespace C13L
open Canvas.C13 Canvas.C13.Rd Canvas.C13.P

def noTS (es : List Entry) : Bool := es.all (fun e => e.1 != kType && e.1 != kSubtype)

def sortedKeys : List Entry → Bool
  | [] => true
  | [_] => true
  | e :: x :: r => bytesLt e.1 x.1 && sortedKeys (x :: r)

def optList : Option Entry → List Entry
  | none => []
  | some e => [e]

theorem sortEntries_sorted : ∀ (es : List Entry), sortedKeys es = true → sortEntries es = es
  | [], _ => rfl
  | [e], _ => rfl
  | e :: x :: r, h => by
    simp only [sortedKeys, Bool.and_eq_true] at h
    have ih := sortEntries_sorted (x :: r) h.2
    simp only [sortEntries] at ih ⊢
    rw [ih]
    simp [insertEntry, h.1]

theorem find_noTS (k : Bytes) (es : List Entry) (h : noTS es = true) (hk : k = kType ∨ k = kSubtype) :
    findEntry k es = none := by
  unfold findEntry
  rw [List.find?_eq_none]
  intro e he
  unfold noTS at h
  have := (List.all_eq_true.mp h) e he
  simp only [Bool.and_eq_true, bne_iff_ne, ne_eq] at this
  rcases hk with rfl | rfl
  · simpa using this.1
  · simpa using this.2

theorem filter_noTS (es : List Entry) (h : noTS es = true) :
    es.filter (fun e => e.1 != kType && e.1 != kSubtype) = es := by
  unfold noTS at h
  exact List.filter_eq_self.mpr (fun e he => (List.all_eq_true.mp h) e he)

/-- entries in the writer's canonical order serialise in the given order -/
theorem canonOK_of_canonical (tE sE : Option Entry) (rest : List Entry)
    (ht : ∀ e, tE = some e → e.1 = kType) (hs : ∀ e, sE = some e → e.1 = kSubtype)
    (hn : noTS rest = true) (hsrt : sortedKeys rest = true) :
    canonOK (optList tE ++ optList sE ++ rest) = true := by
  have ne1 : (kSubtype == kType) = false := by decide
  have ne2 : (kType == kSubtype) = false := by decide
  have fT : findEntry kType (optList tE ++ optList sE ++ rest) = tE := by
    cases tE with
    | some t =>
      have := ht t rfl
      simp [optList, findEntry, this]
    | none =>
      cases sE with
      | some s =>
        have := hs s rfl
        simp only [optList, List.nil_append, List.singleton_append, findEntry, List.find?_cons, this, ne1]
        exact find_noTS kType rest hn (Or.inl rfl)
      | none => simpa [optList] using find_noTS kType rest hn (Or.inl rfl)
  have fS : findEntry kSubtype (optList tE ++ optList sE ++ rest) = sE := by
    cases tE with
    | some t =>
      have h1 := ht t rfl
      cases sE with
      | some s =>
        have h2 := hs s rfl
        simp [optList, findEntry, h1, h2, ne2]
      | none =>
        simp only [optList, List.singleton_append, List.append_nil, findEntry, List.find?_cons, h1, ne2]
        exact find_noTS kSubtype rest hn (Or.inr rfl)
    | none =>
      cases sE with
      | some s =>
        have h2 := hs s rfl
        simp [optList, findEntry, h2]
      | none => simpa [optList] using find_noTS kSubtype rest hn (Or.inr rfl)
  have fF : (optList tE ++ optList sE ++ rest).filter (fun e => e.1 != kType && e.1 != kSubtype) = rest := by
    rw [List.filter_append, List.filter_append, filter_noTS rest hn]
    have a : (optList tE).filter (fun e => e.1 != kType && e.1 != kSubtype) = [] := by
      cases tE with
      | none => rfl
      | some t => simp [optList, ht t rfl]
    have b : (optList sE).filter (fun e => e.1 != kType && e.1 != kSubtype) = [] := by
      cases sE with
      | none => rfl
      | some s => simp [optList, hs s rfl]
    rw [a, b]; rfl
  unfold canonOK dictBytes
  rw [fT, fS, fF, sortEntries_sorted rest hsrt]
  simp only [beq_iff_eq, List.map_append, List.flatten_append, List.append_assoc]
  cases tE <;> cases sE <;> simp [optBytes, optList]

/-! ### printed numbers -/

theorem all_digit_numChar (b : Bytes) (h : b.all isDigit = true) : b.all numChar = true := by
  simp only [List.all_eq_true] at *
  exact fun c hc => isDigit_numChar c (h c hc)

theorem decShape_numTok (neg : Bool) (ip fr : Bytes) (hip : ip.all isDigit = true) (hfr : fr.all isDigit = true)
    (hne : ip ≠ [] ∨ fr ≠ []) : numTok (decShape neg ip fr) = true := by
  have a := all_digit_numChar ip hip
  have b := all_digit_numChar fr hfr
  unfold numTok decShape
  simp only [Bool.and_eq_true, Bool.not_eq_true', List.all_append, List.isEmpty_iff]
  constructor
  · cases neg
    · cases ip with
      | cons c r => simp
      | nil =>
        cases fr with
        | cons c r => simp
        | nil => simp at hne
    · simp
  · refine ⟨by cases neg <;> decide, a, ?_⟩
    cases fr with
    | nil => simp
    | cons c r =>
      have hb : (c :: r).all numChar = true := b
      have hd : numChar 0x2E = true := by decide
      simp [hb, hd]

theorem numBody_dec (ip fr : Bytes) (hip : ip.all isDigit = true) (hfr : fr.all isDigit = true)
    (hne : ip ≠ [] ∨ fr ≠ []) : numBody (ip ++ (if fr.isEmpty then [] else 0x2E :: fr)) = true := by
  have a1 : ∀ d : Bytes, d.all isDigit = true → d.all (fun c => isDigit c || c == 0x2E) = true := by
    intro d hd; simp only [List.all_eq_true] at *; intro c hc; simp [hd c hc]
  have anyd : ∀ d : Bytes, d.all isDigit = true → d ≠ [] → d.any isDigit = true := by
    intro d hd hn
    cases d with
    | nil => exact absurd rfl hn
    | cons c r => simp only [List.all_cons, Bool.and_eq_true] at hd; simp [hd.1]
  cases fr with
  | nil =>
    simp only [List.isEmpty_nil, if_true, List.append_nil]
    exact numBody_digits ip hip (by rcases hne with h | h; exact h; exact absurd rfl h)
  | cons c r =>
    simp only [List.isEmpty_cons, Bool.false_eq_true, if_false]
    unfold numBody
    have f1 : (ip ++ 0x2E :: c :: r).filter (· == 0x2E) = [0x2E] := by
      rw [List.filter_append, filter_dot_digits ip hip]
      have : (c :: r).filter (· == 0x2E) = [] := filter_dot_digits _ hfr
      simp [List.filter_cons, this]
    have f2 : (ip ++ 0x2E :: c :: r).all (fun c => isDigit c || c == 0x2E) = true := by
      have := a1 (c :: r) hfr
      simp only [List.all_append, List.all_cons, Bool.and_eq_true] at this ⊢
      exact ⟨a1 ip hip, by decide, this⟩
    have f3 : (ip ++ 0x2E :: c :: r).any isDigit = true := by
      have := anyd (c :: r) hfr (by simp)
      simp only [List.any_append, List.any_cons, Bool.or_eq_true] at this ⊢
      exact Or.inr (Or.inr this)
    rw [f1, f2, f3]
    cases ip <;> simp

theorem decShape_isNumTok (neg : Bool) (ip fr : Bytes) (hip : ip.all isDigit = true) (hfr : fr.all isDigit = true)
    (hne : ip ≠ [] ∨ fr ≠ []) : isNumTok (decShape neg ip fr) = true := by
  have hb := numBody_dec ip fr hip hfr hne
  unfold isNumTok decShape
  cases neg
  · simp only [Bool.false_eq_true, if_false, List.nil_append]
    cases ip with
    | cons c r =>
      have hc : isDigit c = true := by simp only [List.all_cons, Bool.and_eq_true] at hip; exact hip.1
      rw [List.cons_append, stripSign_digit c _ (isDigit_props c hc).2]
      exact hb
    | nil =>
      cases fr with
      | nil => simp at hne
      | cons c r =>
        simp only [List.nil_append, List.isEmpty_cons, Bool.false_eq_true, if_false] at hb ⊢
        rw [stripSign_digit 0x2E _ (by decide)]
        exact hb
  · simp only [if_true, List.cons_append, List.nil_append]
    have : stripSign (0x2D :: (ip ++ if fr.isEmpty = true then [] else 0x2E :: fr)) = ip ++ if fr.isEmpty = true then [] else 0x2E :: fr := by
      simp [stripSign]
    rw [this]; exact hb

end C13L
