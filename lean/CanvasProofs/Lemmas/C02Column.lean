import CanvasModel.C02
import CanvasProofs.Lemmas.C01Column
import CanvasProofs.Lemmas.C01Merge
/-! Column-level theory of Settle: region preservation, winding ∈ {0,1}, alternation of the kept
edges, Settle as a function on columns (`outCol`) with canonical output and idempotence, and
stability of the invariant under `mergeOverlapping`. Core Lean only. -/
namespace Canvas.C02
open Canvas.C01 Canvas.Wn

/-- Settle invariant of a processed column (top first): only subject segments, and every entry
either carries the crossing sum of what lies below it, or contributes nothing to what lies above
(`sw = 0`: absorbed by `mergeOverlapping`, or open), or is vertical (skipped by the sums) -/
def GoodS : List (Seg × Fields) → Prop
  | [] => True
  | (s, f) :: below =>
    s.clipping = false ∧ (f.w = (sums below).1 ∨ f.sw = 0 ∨ s.vertical = true) ∧ GoodS below

/-- open segments carry no self winding (what `computeSweepFields` leaves for `open`) -/
def OpenZero (L : List (Seg × Fields)) : Prop := ∀ e ∈ L, e.1.open_ = true → e.2.sw = 0

theorem fills_zero (r : Rule) : r.fills 0 = false := by cases r <;> decide

theorem ind_cases (b : Bool) : ind b = 0 ∨ ind b = 1 := by cases b <;> simp [ind]

theorem sums_fst (s : Seg) (f : Fields) (below : List (Seg × Fields)) (hc : s.clipping = false) :
    (sums ((s, f) :: below)).1 = (if s.vertical then 0 else f.sw) + (sums below).1 := by
  simp only [sums, contrib, hc]
  cases s.vertical <;> simp

theorem resSW_of_sw_zero (r : Rule) (f : Fields) (h : f.sw = 0) : resSW r f = 0 := by
  simp [resSW, h]

theorem resSW_range (r : Rule) (f : Fields) : resSW r f = -1 ∨ resSW r f = 0 ∨ resSW r f = 1 := by
  unfold resSW
  rcases ind_cases (r.fills (f.w + f.sw)) with a | a <;> rcases ind_cases (r.fills f.w) with b | b <;>
    rw [a, b] <;> decide

/-- region preservation along a column: the canonical result's winding number above any prefix of
the column is 1 where the input is filled under the rule and 0 elsewhere -/
theorem resSum_region (r : Rule) (L : List (Seg × Fields)) (h : GoodS L) :
    resSum r L = ind (r.fills (sums L).1) := by
  induction L with
  | nil => simp [resSum, sums, fills_zero, ind]
  | cons e below ih =>
    obtain ⟨s, f⟩ := e
    obtain ⟨hc, hw, hb⟩ := h
    have ih := ih hb
    rw [sums_fst s f below hc]
    simp only [resSum]
    by_cases hv : s.vertical = true
    · simp [hv, ih]
    · have hv' : s.vertical = false := by simpa using hv
      simp only [hv', Bool.false_eq_true, if_false]
      rcases hw with hw | hw | hw
      · have e1 : f.w + f.sw = f.sw + (sums below).1 := by omega
        rw [ih, resSW, e1, hw]; omega
      · rw [resSW_of_sw_zero r f hw, hw, ih]; simp
      · rw [hv'] at hw; cases hw

theorem resSum_01 (r : Rule) (L : List (Seg × Fields)) (h : GoodS L) : resSum r L = 0 ∨ resSum r L = 1 := by
  rw [resSum_region r L h]; exact ind_cases _

theorem altDown_keptDirs (r : Rule) (L : List (Seg × Fields)) (h : GoodS L) :
    altDown (r.fills (sums L).1) (keptDirs r L) = true := by
  induction L with
  | nil => simp [keptDirs, altDown, sums, fills_zero]
  | cons e below ih =>
    obtain ⟨s, f⟩ := e
    obtain ⟨hc, hw, hb⟩ := h
    have ih := ih hb
    rw [sums_fst s f below hc]
    simp only [keptDirs]
    by_cases hv : s.vertical = true
    · simp [hv, ih]
    · have hv' : s.vertical = false := by simpa using hv
      simp only [hv', Bool.false_eq_true, if_false, Bool.false_or]
      rcases hw with hw | hw | hw
      · have e1 : f.w + f.sw = f.sw + (sums below).1 := by omega
        simp only [resSW, hw]
        cases hT : r.fills (f.sw + (sums below).1) <;> cases hS : r.fills (sums below).1 <;>
          simp_all [ind, altDown]
      · simp [resSW_of_sw_zero r f hw, hw, ih]
      · rw [hv'] at hw; cases hw

/-! ### Settle as a function on columns -/

def CanonEntry (s : Seg) (f : Fields) : Prop :=
  s.clipping = false ∧ s.vertical = false ∧ f.ow = 0 ∧ f.osw = 0 ∧ f.sw = selfW s ∧
    (f.w = 0 ∨ f.w = 1) ∧ (f.w + f.sw = 0 ∨ f.w + f.sw = 1)

/-- canonical column: subject only, no vertical entries, self windings as `computeSweepFields` sets
them, and the winding number is 0 or 1 below and above every edge -/
def Canonical (L : List (Seg × Fields)) : Prop := ∀ e ∈ L, CanonEntry e.1 e.2

theorem goodS_tail {e : Seg × Fields} {L : List (Seg × Fields)} (h : GoodS (e :: L)) : GoodS L := by
  obtain ⟨s, f⟩ := e; exact h.2.2

theorem openZero_tail {e : Seg × Fields} {L : List (Seg × Fields)} (h : OpenZero (e :: L)) : OpenZero L :=
  fun x hx => h x (List.mem_cons_of_mem _ hx)

theorem sums_outCol (r : Rule) (L : List (Seg × Fields)) (h : GoodS L) (ho : OpenZero L) :
    sums (outCol r L) = (resSum r L, 0) := by
  induction L with
  | nil => rfl
  | cons e below ih =>
    obtain ⟨s, f⟩ := e
    have ih := ih (goodS_tail h) (openZero_tail ho)
    obtain ⟨hc, -, -⟩ := h
    simp only [outCol, resSum]
    by_cases hv : s.vertical = true
    · simp [hv, ih]
    · have hv' : s.vertical = false := by simpa using hv
      simp only [hv', Bool.false_eq_true, if_false]
      by_cases hop : s.open_ = true
      · have hz : f.sw = 0 := ho (s, f) List.mem_cons_self hop
        simp only [hop, if_true, sums, contrib, hv', hc, ih, resSW_of_sw_zero r f hz]
        simp
      · simp only [hop, if_false]
        by_cases hz : resSW r f = 0
        · simp [hz, ih]
        · simp [hz, sums, contrib, outSeg, ih]

theorem good_outCol (r : Rule) (L : List (Seg × Fields)) (h : GoodS L) (ho : OpenZero L) :
    Good (outCol r L) := by
  induction L with
  | nil => trivial
  | cons e below ih =>
    obtain ⟨s, f⟩ := e
    have hb := goodS_tail h
    have hob := openZero_tail ho
    have ih := ih hb hob
    have hs := sums_outCol r below hb hob
    obtain ⟨hc, -, -⟩ := h
    simp only [outCol]
    by_cases hv : s.vertical = true
    · simpa [hv] using ih
    · have hv' : s.vertical = false := by simpa using hv
      simp only [hv', Bool.false_eq_true, if_false]
      by_cases hop : s.open_ = true
      · simp only [hop, if_true]
        exact ⟨by simp [expected, hc, hs], ih⟩
      · simp only [hop, if_false]
        by_cases hz : resSW r f = 0
        · simpa [hz] using ih
        · simp only [hz, if_false]
          exact ⟨by simp [expected, outSeg, hs], ih⟩

/-- region preservation for the output column -/
theorem outCol_region (r : Rule) (L : List (Seg × Fields)) (h : GoodS L) (ho : OpenZero L) :
    (sums (outCol r L)).1 = ind (r.fills (sums L).1) := by
  rw [sums_outCol r L h ho, resSum_region r L h]

theorem canonical_outCol (r : Rule) (L : List (Seg × Fields)) (h : GoodS L) (ho : OpenZero L) :
    Canonical (outCol r L) := by
  induction L with
  | nil => intro e he; cases he
  | cons e below ih =>
    obtain ⟨s, f⟩ := e
    have hb := goodS_tail h
    have hob := openZero_tail ho
    have ih := ih hb hob
    have h01 := resSum_01 r below hb
    have h01' := resSum_01 r ((s, f) :: below) h
    obtain ⟨hc, -, -⟩ := h
    simp only [outCol]
    by_cases hv : s.vertical = true
    · simpa [hv] using ih
    · have hv' : s.vertical = false := by simpa using hv
      simp only [hv', Bool.false_eq_true, if_false]
      simp only [resSum, hv', Bool.false_eq_true, if_false] at h01'
      by_cases hop : s.open_ = true
      · simp only [hop, if_true]
        intro e he
        rcases List.mem_cons.mp he with rfl | he
        · refine ⟨hc, hv', rfl, rfl, by simp [selfW, hop], h01, by simpa using h01⟩
        · exact ih e he
      · simp only [hop, if_false]
        by_cases hz : resSW r f = 0
        · simpa [hz] using ih
        · simp only [hz, if_false]
          intro e he
          rcases List.mem_cons.mp he with rfl | he
          · refine ⟨rfl, rfl, rfl, rfl, ?_, h01, ?_⟩
            · rcases resSW_range r f with h1 | h1 | h1
              · simp [outSeg, selfW, h1]
              · exact absurd h1 hz
              · simp [outSeg, selfW, h1]
            · show resSum r below + resSW r f = 0 ∨ resSum r below + resSW r f = 1
              omega
          · exact ih e he

theorem goodS_of_good (L : List (Seg × Fields)) (hg : Good L) (hc : ∀ e ∈ L, e.1.clipping = false) :
    GoodS L := by
  induction L with
  | nil => trivial
  | cons e below ih =>
    obtain ⟨s, f⟩ := e
    have hcs : s.clipping = false := hc (s, f) List.mem_cons_self
    refine ⟨hcs, Or.inl ?_, ih hg.2 (fun x hx => hc x (List.mem_cons_of_mem _ hx))⟩
    have := hg.1
    simp only [expected, hcs] at this
    exact (Prod.mk.inj this).1

theorem canonical_goodS (L : List (Seg × Fields)) (hg : Good L) (hk : Canonical L) :
    GoodS L ∧ OpenZero L :=
  ⟨goodS_of_good L hg (fun e he => (hk e he).1), fun e he hop => by
    have := (hk e he).2.2.2.2.1
    rw [this]; simp [selfW, hop]⟩

def threeRules (r : Rule) : Prop := r = .nonZero ∨ r = .evenOdd ∨ r = .positive

theorem ind_fills_01 (r : Rule) (hr : threeRules r) (w : Int) (hw : w = 0 ∨ w = 1) : ind (r.fills w) = w := by
  rcases hr with rfl | rfl | rfl <;> rcases hw with rfl | rfl <;> decide

/-- a canonical column is a fixed point of Settle under NonZero, EvenOdd and Positive: every edge
is kept, with its direction and its winding fields -/
theorem outCol_fixed (r : Rule) (hr : threeRules r) (L : List (Seg × Fields)) (hg : Good L)
    (hk : Canonical L) : outCol r L = L := by
  induction L with
  | nil => rfl
  | cons e below ih =>
    obtain ⟨s, f⟩ := e
    have ih := ih hg.2 (fun x hx => hk x (List.mem_cons_of_mem _ hx))
    obtain ⟨hc, hv, how, hosw, hsw, hw, hws⟩ := hk (s, f) List.mem_cons_self
    simp only at hc hv how hosw hsw hw hws
    have hgs := (canonical_goodS below hg.2 (fun x hx => hk x (List.mem_cons_of_mem _ hx))).1
    have hfw : f.w = (sums below).1 := by
      have := hg.1
      simp only [expected, hc] at this
      exact (Prod.mk.inj this).1
    have hrs : resSum r below = f.w := by
      rw [resSum_region r below hgs, ← hfw]; exact ind_fills_01 r hr f.w hw
    simp only [outCol, hv, Bool.false_eq_true, if_false, ih, hrs]
    obtain ⟨cl, ve, inc, op⟩ := s
    obtain ⟨w, ow, sw, osw⟩ := f
    simp only at hc hv how hosw hsw hw hws hfw hrs
    subst hc hv how hosw
    cases op
    · -- closed
      have hres : resSW r ⟨w, 0, sw, 0⟩ = sw := by
        simp only [resSW]
        rw [ind_fills_01 r hr _ hws, ind_fills_01 r hr _ hw]; omega
      cases inc <;> simp [selfW] at hsw <;> subst hsw <;> simp [hres, outSeg]
    · simp [selfW] at hsw
      subst hsw
      simp

/-- under Negative a canonical column has no boundary at all -/
theorem keptDirs_negative (L : List (Seg × Fields)) (hk : Canonical L) : keptDirs .negative L = [] := by
  induction L with
  | nil => rfl
  | cons e below ih =>
    obtain ⟨s, f⟩ := e
    have ih := ih (fun x hx => hk x (List.mem_cons_of_mem _ hx))
    obtain ⟨-, -, -, -, -, hw, hws⟩ := hk (s, f) List.mem_cons_self
    simp only at hw hws
    have : resSW .negative f = 0 := by
      simp only [resSW]
      rcases hw with h | h <;> rcases hws with h' | h' <;> rw [h'] <;> rw [h] <;> decide
    simp [keptDirs, this, ih]

/-! ### sweeping the output column again -/

theorem foldl_snoc_step (xs : List Seg) (x : Seg) :
    foldColumn (xs ++ [x]) = (x, compute (foldColumn xs) x) :: foldColumn xs := by
  simp [foldColumn, List.foldl_append]

/-- `computeSweepFields` folded over the segments of a canonical column recomputes exactly its
fields -/
theorem refold (L : List (Seg × Fields)) (hg : Good L) (hk : Canonical L) : foldColumn (segsOf L) = L := by
  induction L with
  | nil => rfl
  | cons e below ih =>
    obtain ⟨s, f⟩ := e
    have hkb : Canonical below := fun x hx => hk x (List.mem_cons_of_mem _ hx)
    have ih := ih hg.2 hkb
    have e1 : segsOf ((s, f) :: below) = segsOf below ++ [s] := by simp [segsOf]
    rw [e1, foldl_snoc_step, ih]
    obtain ⟨hc, hv, how, hosw, hsw, hw, hws⟩ := hk (s, f) List.mem_cons_self
    simp only at hc hv how hosw hsw hw hws
    have hfw := hg.1
    simp only [expected, hc] at hfw
    obtain ⟨hfw1, hfw2⟩ := Prod.mk.inj hfw
    congr 1
    congr 1
    obtain ⟨w, ow, sw, osw⟩ := f
    simp only at how hosw hsw hfw1 hfw2
    subst how hosw hsw
    cases below with
    | nil =>
      simp only [sums] at hfw1
      simp [compute, firstNonVertical, hfw1]
    | cons p rest =>
      obtain ⟨ps, pf⟩ := p
      obtain ⟨pc, pv, pow, posw, -, -, -⟩ := hk (ps, pf) (List.mem_cons_of_mem _ List.mem_cons_self)
      simp only at pc pv pow posw
      have hp := hg.2.1
      simp only [expected, pc] at hp
      obtain ⟨hp1, -⟩ := Prod.mk.inj hp
      simp only [sums, contrib, pv, pc, Bool.false_eq_true, if_false] at hfw1
      simp only [compute, firstNonVertical, pv, Bool.false_eq_true, if_false, hc, pc, if_true]
      simp only [Fields.mk.injEq, and_true, true_and]
      constructor
      · omega
      · omega

/-! ### columns produced by `computeSweepFields` -/

theorem foldl_mem (col : List Seg) (acc : List (Seg × Fields))
    (ha : ∀ e ∈ acc, e.1.clipping = false ∧ e.2.sw = selfW e.1) (hc : ∀ s ∈ col, s.clipping = false) :
    ∀ e ∈ col.foldl (fun acc s => (s, compute acc s) :: acc) acc, e.1.clipping = false ∧ e.2.sw = selfW e.1 := by
  induction col generalizing acc with
  | nil => exact ha
  | cons s rest ih =>
    apply ih
    · intro e he
      rcases List.mem_cons.mp he with rfl | he
      · refine ⟨hc _ List.mem_cons_self, ?_⟩
        simp only [compute]
        split <;> (try split) <;> rfl
      · exact ha e he
    · exact fun x hx => hc x (List.mem_cons_of_mem _ hx)

theorem goodS_foldColumn (col : List Seg) (hc : ∀ s ∈ col, s.clipping = false) :
    GoodS (foldColumn col) ∧ OpenZero (foldColumn col) := by
  have hm := foldl_mem col [] (fun e he => by cases he) hc
  refine ⟨goodS_of_good _ (good_foldColumn col) (fun e he => (hm e he).1), fun e he hop => ?_⟩
  rw [(hm e he).2]; simp [selfW, hop]

/-! ### `mergeOverlapping` keeps the invariant -/

open Canvas.C01Merge in
theorem goodS_congr_below (A L1 L2 : List (Seg × Fields)) (hs : sums L1 = sums L2) (h2 : GoodS L2)
    (h : GoodS (A ++ L1)) : GoodS (A ++ L2) := by
  induction A with
  | nil => exact h2
  | cons e A ih =>
    obtain ⟨s, f⟩ := e
    obtain ⟨hc, hw, hb⟩ := h
    have hsum : sums (A ++ L1) = sums (A ++ L2) := by
      clear ih hw hb
      induction A with
      | nil => exact hs
      | cons x A ihA => obtain ⟨xs, xf⟩ := x; simp only [List.cons_append, sums, ihA]
    have hw' : f.w = (sums (A ++ L1)).1 ∨ f.sw = 0 ∨ s.vertical = true := hw
    rw [hsum] at hw'
    exact ⟨hc, hw', ih hb⟩

theorem goodS_suffix (A L : List (Seg × Fields)) (h : GoodS (A ++ L)) : GoodS L := by
  induction A with
  | nil => exact h
  | cons e A ih => exact ih (goodS_tail h)

section Merge
open Canvas.C01Merge

def zeroed (p : Ent) : Ent := { p with f := zeroF, overlapped := true }

/-- shape of the absorbing loop: a prefix of the chain is zeroed in place, the rest is untouched -/
theorem absorb_shape (s : Ent) (below : List Ent) :
    ∃ pre, below = pre ++ (absorb s below).2.2 ∧ (absorb s below).2.1 = pre.map zeroed := by
  induction below generalizing s with
  | nil => exact ⟨[], rfl, rfl⟩
  | cons p rest ih =>
    simp only [absorb]
    by_cases hc : (p.overlapped || p.geom != s.geom) = true
    · rw [if_pos hc]; exact ⟨[], rfl, rfl⟩
    · rw [if_neg hc]
      obtain ⟨pre, e1, e2⟩ := ih (addSelf (closeOn s p) p)
      refine ⟨p :: pre, ?_, ?_⟩
      · simp only [List.cons_append]; rw [← e1]
      · simp only [List.map_cons, e2]; rfl

/-- the receiver keeps its clipping flag through the absorbing loop (since 51f64dd its `open` flag
may be cleared when it lies on a closed segment) -/
theorem absorb_clipping (s : Ent) (below : List Ent) : (absorb s below).1.seg.clipping = s.seg.clipping := by
  induction below generalizing s with
  | nil => rfl
  | cons p rest ih =>
    simp only [absorb]
    by_cases hc : (p.overlapped || p.geom != s.geom) = true
    · rw [if_pos hc]
    · rw [if_neg hc]; rw [ih, (addSelf_seg (closeOn s p) p).1, (closeOn_seg s p).1]

theorem goodS_zeroed (pre : List Ent) (L : List (Seg × Fields)) (hL : GoodS L)
    (hc : ∀ p ∈ pre, p.seg.clipping = false) : GoodS (pairs (pre.map zeroed) ++ L) := by
  induction pre with
  | nil => exact hL
  | cons p pre ih =>
    refine ⟨hc p List.mem_cons_self, Or.inr (Or.inl rfl), ?_⟩
    exact ih (fun q hq => hc q (List.mem_cons_of_mem _ hq))

theorem goodS_clipping (L : List (Seg × Fields)) (h : GoodS L) : ∀ e ∈ L, e.1.clipping = false := by
  induction L with
  | nil => intro e he; cases he
  | cons x L ih =>
    obtain ⟨s, f⟩ := x
    intro e he
    rcases List.mem_cons.mp he with rfl | he
    · exact h.1
    · exact ih h.2.2 e he

/-- `mergeOverlapping` on the receiver `s` of a chain that satisfies the Settle invariant gives a
chain that satisfies it again, provided the first segment that is not absorbed is not vertical and
itself correct (`mergeOverlapping` does not skip vertical segments as `computeSweepFields` does) -/
theorem goodS_merge (s : Ent) (below : List Ent) (hg : GoodS (pairs (s :: below)))
    (hp : ∀ p rest', (absorb s below).2.2 = p :: rest' →
      p.seg.vertical = false ∧ p.f.w = (sums (pairs rest')).1) :
    GoodS (pairs ((merge s below).s :: (merge s below).below)) := by
  by_cases ht : (merge s below).touched = true
  · obtain ⟨h1, h2⟩ := touched_cases s below ht
    obtain ⟨e1, e2, -⟩ := merge_touched s below h1 h2
    obtain ⟨pre, hbelow, hz⟩ := absorb_shape s below
    have hgb : GoodS (pairs below) := hg.2.2
    have hcl := goodS_clipping _ hgb
    have hrest : GoodS (pairs (absorb s below).2.2) := by
      have : pairs below = pairs pre ++ pairs (absorb s below).2.2 := by
        conv => lhs; rw [hbelow]
        simp [pairs]
      rw [this] at hgb
      exact goodS_suffix _ _ hgb
    have hpre : ∀ p ∈ pre, p.seg.clipping = false := by
      intro p hp'
      have : (p.seg, p.f) ∈ pairs below := by
        rw [hbelow]; simp only [pairs, List.map_append, List.mem_append, List.mem_map]
        exact Or.inl ⟨p, hp', rfl⟩
      exact hcl _ this
    have hbel : GoodS (pairs ((absorb s below).2.1 ++ (absorb s below).2.2)) := by
      rw [hz]
      have := goodS_zeroed pre _ hrest hpre
      simpa [pairs] using this
    have hseg : (absorb s below).1.seg.clipping = s.seg.clipping := absorb_clipping s below
    rw [e1, e2]
    refine ⟨by simp only [pairs, List.map_cons]; rw [hseg]; exact hg.1, ?_, hbel⟩
    left
    have hsz : sums (pairs ((absorb s below).2.1 ++ (absorb s below).2.2)) = sums (pairs (absorb s below).2.2) :=
      sums_zeroed _ _ (absorb_zeroed s below)
    simp only [pairs, List.map_cons] at hsz ⊢
    show (mergedFields (absorb s below).1 (absorb s below).2.2).w = _
    rw [show (List.map (fun e => (e.seg, e.f)) ((absorb s below).2.1 ++ (absorb s below).2.2)) = pairs ((absorb s below).2.1 ++ (absorb s below).2.2) from rfl, sums_zeroed _ _ (absorb_zeroed s below)]
    cases hr : (absorb s below).2.2 with
    | nil => simp [mergedFields, pairs, sums]
    | cons p rest' =>
      obtain ⟨hpv, hpw⟩ := hp p rest' hr
      have hpc : p.seg.clipping = false := by
        have : (p.seg, p.f) ∈ pairs (absorb s below).2.2 := by rw [hr]; simp [pairs]
        exact goodS_clipping _ hrest _ this
      have hsc : (absorb s below).1.seg.clipping = false := by rw [hseg]; exact hg.1
      simp only [mergedFields, hsc, hpc, if_true]
      rw [sums_cons]
      simp only [contrib, hpv, hpc, Bool.false_eq_true, if_false]
      omega
  · have ht' : (merge s below).touched = false := by simpa using ht
    have : (merge s below).s = s ∧ (merge s below).below = below := by
      by_cases h1 : s.overlapped = true
      · exact ⟨(merge_untouched s below (Or.inl h1)).1, (merge_untouched s below (Or.inl h1)).2.1⟩
      · by_cases h2 : (absorb s below).2.1.isEmpty = true
        · exact ⟨(merge_untouched s below (Or.inr h2)).1, (merge_untouched s below (Or.inr h2)).2.1⟩
        · rw [(merge_touched s below h1 h2).2.2] at ht'; cases ht'
    rw [this.1, this.2]; exact hg

end Merge

end Canvas.C02
