import CanvasProofs.Lemmas.C17Main
/-! C17 helper lemmas, part 2: the invariant of the item loop (any scalar, no laws except
reflexivity of `==` where stated). -/
set_option linter.unusedSectionVars false
set_option linter.unusedVariables false
namespace Canvas.C17

section
variable {α : Type} [Add α] [Sub α] [Mul α] [Div α] [Neg α] [LT α] [LE α] [BEq α]
  [DecidableLT α] [DecidableLE α] [NatCast α]

def rootD : ND α := ⟨0, 0, 1, k 0, k 0, k 0, k 0, k 0, k 0⟩

theorem root_eq : (root : Node α) = ⟨rootD, []⟩ := rfl

/-- `-1 <= r && r <= tol` -/
def feasAt (tol : Option α) (r : α) : Bool := decide (-(k 1 : α) ≤ r) && leTol r tol

/-- Well-formed chain of breakpoints (nearest first, root last). `fb`: breakpoints made by the
overflow fallback are allowed. A normal breakpoint records exactly the measures of its line. -/
inductive ChainOK (P : Params α) (items : List (Item α)) (lineW : α) (tol : Option α) (fb : Bool) :
    List (ND α) → Prop
  | root : ChainOK P items lineW tol fb [rootD]
  | normal (c p : ND α) (rest : List (ND α)) (it : Item α) :
      legalAt P items c.pos = true → c.line = p.line + 1 → (p.pos < c.pos ∨ rest = []) →
      items[c.pos]? = some it →
      (c.w, c.y, c.z) = sumsAfter P items c.pos →
      c.width = widthAt items c.pos →
      adjRatio P lineW it (pre items c.pos).1 (pre items c.pos).2.1 (pre items c.pos).2.2 p.w p.y p.z
        = some c.ratio →
      feasAt tol c.ratio = true →
      c.dem = lineDemerits P it c.ratio (flaggedAt items p.pos) p.fit + p.dem →
      ChainOK P items lineW tol fb (p :: rest) → ChainOK P items lineW tol fb (c :: p :: rest)
  | fallback (c p : ND α) (rest : List (ND α)) :
      fb = true →
      legalAt P items c.pos = true → c.line = p.line + 1 → (p.pos < c.pos ∨ rest = []) →
      (c.w, c.y, c.z) = sumsAfter P items c.pos → c.width = widthAt items c.pos → c.ratio = k 0 → c.fit = 1 →
      c.dem = p.dem + k 1000 →
      ChainOK P items lineW tol fb (p :: rest) → ChainOK P items lineW tol fb (c :: p :: rest)

theorem ChainOK.mono {P : Params α} {items : List (Item α)} {lineW : α} {tol : Option α} {fb : Bool}
    {ch : List (ND α)} (h : ChainOK P items lineW tol fb ch) : ChainOK P items lineW tol true ch := by
  induction h with
  | root => exact ChainOK.root
  | normal c p rest it h1 h2 h3 h4 h5 h6 h7 h8 h9 _ ih => exact ChainOK.normal c p rest it h1 h2 h3 h4 h5 h6 h7 h8 h9 ih
  | fallback c p rest h0 h1 h2 h3 h4 h5 h6 h7 h8 _ ih => exact ChainOK.fallback c p rest rfl h1 h2 h3 h4 h5 h6 h7 h8 ih

/-- positions of the breakpoints of a chain (root excluded), nearest first -/
def nonRootPos : List (ND α) → List Nat
  | [] => []
  | [_] => []
  | c :: p :: rest => c.pos :: nonRootPos (p :: rest)

/-- node-level invariant while item `b` is about to be processed -/
def NodeOK (P : Params α) (items : List (Item α)) (lineW : α) (tol : Option α) (fb : Bool) (b : Nat)
    (n : Node α) : Prop :=
  ChainOK P items lineW tol fb (n.d :: n.anc) ∧ (n.d.pos < b ∨ n.anc = [])

/-- the sums a node can carry: zero, `Σ after(a)` or a running sum -/
def IsT (P : Params α) (items : List (Item α)) (t : α × α × α) : Prop :=
  t = (k 0, k 0, k 0) ∨ ∃ a, a < items.length ∧ (t = sumsAfter P items a ∨ t = pre items (a + 1))

/-- the ratios the item loop can meet -/
def InS (P : Params α) (items : List (Item α)) (lineW : α) (r : α) : Prop :=
  ∃ b it t, items[b]? = some it ∧ IsT P items t ∧
    adjRatio P lineW it (pre items b).1 (pre items b).2.1 (pre items b).2.2 t.1 t.2.1 t.2.2 = some r

structure Inv (P : Params α) (items : List (Item α)) (lineW : α) (tol : Option α) (b : Nat) (lb : LB α) : Prop where
  sums : (lb.W, lb.Y, lb.Z) = pre items b
  act : ∀ n, n ∈ lb.act → NodeOK P items lineW tol lb.ovf b n
  inact : ∀ n, n ∈ lb.inact → NodeOK P items lineW tol lb.ovf b n
  ne : lb.act ≠ []
  last : ∀ f, f + 1 = b → forcedAt P items f = true → legalAt P items f = true →
    ∀ n, n ∈ lb.act → n.d.pos = f ∧ n.anc ≠ []
  forced : ∀ n, n ∈ lb.act → ∀ f, f < b → forcedAt P items f = true →
    legalAt P items f = true → f ∈ nonRootPos (n.d :: n.anc)
  forcedI : ∀ n, n ∈ lb.inact → ∀ f, f + 1 < b → forcedAt P items f = true →
    legalAt P items f = true → f ∈ nonRootPos (n.d :: n.anc)
  ntol : lb.nextTol = none ∨ ∃ r, lb.nextTol = some r ∧ ltTol tol r = true ∧ InS P items lineW r

/-! ### list facts -/

theorem drop_getElem? {β : Type} {l : List β} {b : Nat} {x : β} {rest : List β} (h : l.drop b = x :: rest) :
    l[b]? = some x := by
  have := List.getElem?_drop (xs := l) (i := b) (j := 0)
  rw [h] at this
  simpa using this.symm

theorem drop_succ_of_drop {β : Type} {l : List β} {b : Nat} {x : β} {rest : List β} (h : l.drop b = x :: rest) :
    l.drop (b + 1) = rest := by
  have : l.drop (b + 1) = (l.drop b).drop 1 := by rw [List.drop_drop]
  rw [this, h]; rfl

theorem drop_lt_length {β : Type} {l : List β} {b : Nat} {x : β} {rest : List β} (h : l.drop b = x :: rest) :
    b < l.length := by
  have := drop_getElem? h
  exact (List.getElem?_eq_some_iff.mp this).1

theorem pre_succ (items : List (Item α)) (b : Nat) (it : Item α) (h : items[b]? = some it) :
    pre items (b + 1) = addItem (pre items b) it := by
  unfold pre
  rw [List.take_add_one, h]
  simp [List.foldl_append]

theorem sumsAfter_eq (P : Params α) (items : List (Item α)) (b : Nat) (it : Item α) (rest : List (Item α))
    (h : items.drop b = it :: rest) : sumsAfter P items b = sumAfter P true (it :: rest) (pre items b) := by
  unfold sumsAfter; rw [h]

/-! ### `mainLoop` -/

def mlCx (P : Params α) (items : List (Item α)) (lineW : α) (tol : Option α) (b : Nat) (it : Item α)
    (lb : LB α) : Ctx α := ⟨P, items, lineW, tol, b, it, lb.W, lb.Y, lb.Z⟩

def mlS (P : Params α) (it : Item α) (rest : List (Item α)) (lb : LB α) : α × α × α :=
  sumAfter P true (it :: rest) (lb.W, lb.Y, lb.Z)

def mlWidth (it : Item α) (lb : LB α) : α := if it.ty = Ty.penalty then lb.W + it.width else lb.W

theorem mainLoop_spec (P : Params α) (items : List (Item α)) (lineW : α) (tol : Option α) (b : Nat)
    (it : Item α) (rest : List (Item α)) (lb : LB α) :
    let lb' := mainLoop P items lineW tol b it rest lb
    (lb'.W = lb.W ∧ lb'.Y = lb.Y ∧ lb'.Z = lb.Z ∧ lb'.ovf = lb.ovf) ∧
    (∀ n, n ∈ lb'.act → (n ∈ lb.act ∧ isForced P it = false) ∨
      Emitted (mlCx P items lineW tol b it lb) (mlWidth it lb) (mlS P it rest lb) lb.act n) ∧
    (∀ n, n ∈ lb'.inact → n ∈ lb.inact ∨ n ∈ lb.act) ∧
    (∀ n, n ∈ lb.inact → n ∈ lb'.inact) ∧
    (∀ n, n ∈ lb.act → n ∈ lb'.act ∨ n ∈ lb'.inact) ∧
    TolFrom (mlCx P items lineW tol b it lb) lb.act lb.nextTol lb'.nextTol := by
  intro lb'
  obtain ⟨sp, hall⟩ := mainGo_spec (mlCx P items lineW tol b it lb) (mlWidth it lb) (mlS P it rest lb) lb.act
    lb.act emptyGrp ⟨[], lb.inact, lb.nextTol⟩ (fun a h => h) (slotsFrom_empty _ _)
  refine ⟨⟨rfl, rfl, rfl, rfl⟩, ?_, ?_, ?_, ?_, ?_⟩
  · intro n hn
    rcases sp.act n hn with h | h | h
    · cases h
    · exact Or.inl h
    · exact Or.inr h
  · intro n hn; exact sp.inact n hn
  · intro n hn; exact (sp.keep n).2 hn
  · intro n hn; exact hall n hn
  · exact sp.tol

/-! ### `itemStep` -/

theorem legalAt_eq (P : Params α) (items : List (Item α)) (b : Nat) (it : Item α) (rest : List (Item α))
    (h : items.drop b = it :: rest) :
    legalAt P items b = legalLocal P (prevOf items b) it rest[0]? := by
  unfold legalAt
  rw [drop_getElem? h]
  have : items[b + 1]? = rest[0]? := by
    have := List.getElem?_drop (xs := items) (i := b + 1) (j := 0)
    rw [drop_succ_of_drop h] at this
    simpa using this.symm
  simp only [this]

/-- what the first half of the iteration adds to the running sums (a box's width) -/
def boxAdd (s : α × α × α) (it : Item α) : α × α × α :=
  if it.ty = Ty.box then (s.1 + it.width, s.2.1, s.2.2) else s

/-- what the end of the iteration adds (the glue's own width, stretch, shrink) -/
def glueAdd (s : α × α × α) (it : Item α) : α × α × α :=
  if it.ty = Ty.glue then (s.1 + it.width, s.2.1 + it.stretch, s.2.2 + it.shrink) else s

theorem glueAdd_boxAdd (s : α × α × α) (it : Item α) : glueAdd (boxAdd s it) it = addItem s it := by
  unfold glueAdd boxAdd addItem
  cases h : it.ty <;> simp

theorem boxAdd_of_not_box (s : α × α × α) (it : Item α) (h : it.ty ≠ Ty.box) : boxAdd s it = s := by
  unfold boxAdd; rw [if_neg h]

theorem addGlue_spec (it : Item α) (lb : LB α) :
    ((addGlue it lb).W, (addGlue it lb).Y, (addGlue it lb).Z) = glueAdd (lb.W, lb.Y, lb.Z) it ∧
    (addGlue it lb).act = lb.act ∧ (addGlue it lb).inact = lb.inact ∧ (addGlue it lb).nextTol = lb.nextTol ∧
    (addGlue it lb).ovf = lb.ovf := by
  unfold addGlue glueAdd
  split <;> exact ⟨rfl, rfl, rfl, rfl, rfl⟩

theorem legalAt_not_box {P : Params α} {items : List (Item α)} {b : Nat} {it : Item α}
    (hit : items[b]? = some it) (h : legalAt P items b = true) : it.ty ≠ Ty.box := by
  unfold legalAt at h
  rw [hit] at h
  simp only at h
  unfold legalLocal at h
  intro hb
  rw [hb] at h
  cases h

theorem itemStep_cases (P : Params α) (items : List (Item α)) (lineW : α) (tol : Option α) (b : Nat)
    (it : Item α) (rest : List (Item α)) (lb lb1 : LB α) (hdrop : items.drop b = it :: rest)
    (h : itemStep P items lineW tol b (prevOf items b) it rest lb = some lb1) :
    ∃ lbm, ((legalAt P items b = false ∧ lbm = lb) ∨
        (legalAt P items b = true ∧ lbm = mainLoop P items lineW tol b it rest lb)) ∧
      (lb1.W, lb1.Y, lb1.Z) = boxAdd (lbm.W, lbm.Y, lbm.Z) it ∧ lb1.act = lbm.act ∧
      lb1.inact = lbm.inact ∧ lb1.nextTol = lbm.nextTol ∧ lb1.ovf = lbm.ovf := by
  have hleg := legalAt_eq P items b it rest hdrop
  unfold legalLocal at hleg
  unfold itemStep at h
  cases hty : it.ty with
  | box =>
    rw [hty] at h hleg
    simp only at h hleg
    cases h
    exact ⟨lb, Or.inl ⟨hleg, rfl⟩, by simp [boxAdd, hty], rfl, rfl, rfl, rfl⟩
  | penalty =>
    rw [hty] at h hleg
    simp only at h hleg
    by_cases hp : it.penalty < P.infinity
    · simp only [hp, if_true] at h
      cases h
      refine ⟨_, Or.inr ⟨by simpa using (by simpa [hp] using hleg), rfl⟩, ?_, rfl, rfl, rfl, rfl⟩
      simp [boxAdd, hty]
    · simp only [hp, if_false] at h
      cases h
      refine ⟨lb, Or.inl ⟨by simpa [hp] using hleg, rfl⟩, ?_, rfl, rfl, rfl, rfl⟩
      simp [boxAdd, hty]
  | glue =>
    rw [hty] at h hleg
    simp only at h hleg
    cases hpb : prevIsBox (prevOf items b) with
    | true =>
      rw [hpb] at h hleg
      rw [if_pos rfl] at h
      rw [Bool.true_and] at hleg
      cases rest with
      | nil => simp at h
      | cons nx tl =>
        simp only [List.getElem?_cons_zero, nextNotPenalty] at hleg
        simp only at h
        by_cases hnx : nx.ty ≠ Ty.penalty
        · rw [if_pos hnx] at h
          cases h
          refine ⟨_, Or.inr ⟨by simpa [hnx] using hleg, rfl⟩, ?_, rfl, rfl, rfl, rfl⟩
          simp [boxAdd, hty]
        · rw [if_neg hnx] at h
          cases h
          refine ⟨lb, Or.inl ⟨by simpa [hnx] using hleg, rfl⟩, ?_, rfl, rfl, rfl, rfl⟩
          simp [boxAdd, hty]
    | false =>
      rw [hpb] at h hleg
      rw [if_neg (by simp)] at h
      rw [Bool.false_and] at hleg
      cases h
      exact ⟨lb, Or.inl ⟨hleg, rfl⟩, by simp [boxAdd, hty], rfl, rfl, rfl, rfl⟩

/-! ### node lemmas -/

theorem NodeOK.succ {P : Params α} {items : List (Item α)} {lineW : α} {tol : Option α} {fb : Bool} {b : Nat}
    {n : Node α} (h : NodeOK P items lineW tol fb b n) : NodeOK P items lineW tol fb (b + 1) n :=
  ⟨h.1, h.2.elim (fun h => Or.inl (Nat.lt_succ_of_lt h)) Or.inr⟩

theorem NodeOK.toFb {P : Params α} {items : List (Item α)} {lineW : α} {tol : Option α} {fb : Bool} {b : Nat}
    {n : Node α} (h : NodeOK P items lineW tol fb b n) : NodeOK P items lineW tol true b n :=
  ⟨h.1.mono, h.2⟩

theorem legalAt_lt {P : Params α} {items : List (Item α)} {b : Nat} (h : legalAt P items b = true) :
    b < items.length := by
  unfold legalAt at h
  cases hb : items[b]? with
  | none => rw [hb] at h; cases h
  | some it => exact (List.getElem?_eq_some_iff.mp hb).1

theorem forcedAt_eq {P : Params α} {items : List (Item α)} {b : Nat} {it : Item α} (h : items[b]? = some it) :
    forcedAt P items b = isForced P it := by
  unfold forcedAt; rw [h]

/-- the sums carried by a well-formed node are among the finitely many `IsT` triples -/
theorem chain_isT {P : Params α} {items : List (Item α)} {lineW : α} {tol : Option α} {fb : Bool}
    {c : ND α} {rest : List (ND α)} (h : ChainOK P items lineW tol fb (c :: rest)) :
    IsT P items (c.w, c.y, c.z) := by
  cases h with
  | root => left; rfl
  | normal _ p rest it h1 h2 h3 h4 h5 h6 h7 h8 h9 h10 =>
    right; exact ⟨c.pos, legalAt_lt h1, Or.inl h5⟩
  | fallback _ p rest h0 h1 h2 h3 h4 h5 h6 h7 h8 h9 =>
    right; exact ⟨c.pos, legalAt_lt h1, Or.inl h4⟩

theorem emitted_nodeOK {P : Params α} {items : List (Item α)} {lineW : α} {tol : Option α} {b : Nat}
    {it : Item α} {rest : List (Item α)} {lb : LB α} (hdrop : items.drop b = it :: rest)
    (hsums : (lb.W, lb.Y, lb.Z) = pre items b) (hleg : legalAt P items b = true)
    (hact : ∀ n, n ∈ lb.act → NodeOK P items lineW tol lb.ovf b n) {n : Node α}
    (h : Emitted (mlCx P items lineW tol b it lb) (mlWidth it lb) (mlS P it rest lb) lb.act n) :
    NodeOK P items lineW tol lb.ovf (b + 1) n ∧ n.d.pos = b ∧
      ∃ a, a ∈ lb.act ∧ n.anc = a.d :: a.anc := by
  obtain ⟨a, ha, cand, c, ⟨r, hr, hfeas, hcand⟩, hn⟩ := h
  have hW : lb.W = (pre items b).1 := congrArg (·.1) hsums
  have hY : lb.Y = (pre items b).2.1 := congrArg (·.2.1) hsums
  have hZ : lb.Z = (pre items b).2.2 := congrArg (·.2.2) hsums
  have hit : items[b]? = some it := drop_getElem? hdrop
  subst hn
  subst hcand
  refine ⟨⟨?_, Or.inl (Nat.lt_succ_self b)⟩, rfl, a, ha, rfl⟩
  simp only [mkNode, mlCx]
  refine ChainOK.normal _ a.d a.anc it hleg rfl (hact a ha).2 hit ?_ ?_ ?_ hfeas rfl (hact a ha).1
  · show mlS P it rest lb = sumsAfter P items b
    rw [sumsAfter_eq P items b it rest hdrop, ← hsums]; rfl
  · show mlWidth it lb = widthAt items b
    unfold widthAt mlWidth
    rw [hit]; simp only [hW]
  · simp only [mlCx] at hr
    rw [← hW, ← hY, ← hZ]; exact hr

theorem fallbackNodes_mem (b : Nat) (width : α) (s : α × α × α) (W mw : α) (n : Node α) :
    ∀ l : List (Node α), n ∈ fallbackNodes b width s W mw l →
      ∃ p, p ∈ l ∧ n = ⟨⟨b, p.d.line + 1, 1, width, s.1, s.2.1, s.2.2, k 0, p.d.dem + k 1000⟩, p.d :: p.anc⟩ := by
  intro l
  induction l with
  | nil => intro h; simp [fallbackNodes] at h
  | cons p rest ih =>
    intro h
    simp only [fallbackNodes] at h
    split at h
    · rcases List.mem_cons.mp h with h | h
      · exact ⟨p, List.mem_cons_self, h⟩
      · obtain ⟨q, hq, hn⟩ := ih h
        exact ⟨q, List.mem_cons_of_mem _ hq, hn⟩
    · obtain ⟨q, hq, hn⟩ := ih h
      exact ⟨q, List.mem_cons_of_mem _ hq, hn⟩

theorem minWidthOf_spec (W mw : α) : ∀ (l : List (Node α)) (m : Option α), minWidthOf W l m = some mw →
    m = some mw ∨ ∃ p, p ∈ l ∧ mw = W - p.d.w := by
  intro l
  induction l with
  | nil => intro m h; simp only [minWidthOf] at h; exact Or.inl h
  | cons p rest ih =>
    intro m h
    simp only [minWidthOf] at h
    rcases ih _ h with h | ⟨q, hq, hm⟩
    · have h' : minOpt m (W - p.d.w) = mw := Option.some.inj h
      rcases minOpt_cases m (W - p.d.w) with h2 | h2
      · right; exact ⟨p, List.mem_cons_self, by rw [← h', h2]⟩
      · left; rw [h2, h']
    · right; exact ⟨q, List.mem_cons_of_mem _ hq, hm⟩

theorem minWidthOf_some (W : α) : ∀ (l : List (Node α)) (x : α), ∃ y, minWidthOf W l (some x) = some y := by
  intro l
  induction l with
  | nil => intro x; exact ⟨x, rfl⟩
  | cons p rest ih => intro x; simp only [minWidthOf]; exact ih _

theorem fallbackNodes_ne (hrefl : ∀ a : α, (a == a) = true) (b : Nat) (width : α) (s : α × α × α) (W mw : α)
    (q : Node α) : ∀ l : List (Node α), q ∈ l → mw = W - q.d.w → fallbackNodes b width s W mw l ≠ [] := by
  intro l
  induction l with
  | nil => intro h; cases h
  | cons p rest ih =>
    intro hq hm
    simp only [fallbackNodes]
    split
    · simp
    · rename_i hne
      rcases List.mem_cons.mp hq with rfl | hq
      · rw [hm] at hne; exact absurd (hrefl _) hne
      · exact ih hq hm

theorem drastic_cases (P : Params α) (tol : Option α) (b : Nat) (it : Item α) (rest : List (Item α))
    (lb1 lb2 : LB α) (h : drastic P tol b it rest lb1 = some lb2) :
    (lb1.act ≠ [] ∧ lb2 = lb1) ∨
    (lb1.act = [] ∧ lb2.ovf = true ∧ lb2.W = lb1.W ∧ lb2.Y = lb1.Y ∧ lb2.Z = lb1.Z ∧ lb2.inact = lb1.inact ∧
      lb2.nextTol = lb1.nextTol ∧
      ((minWidthOf lb1.W lb1.inact none = none ∧ lb2.act = []) ∨
       ∃ mw, minWidthOf lb1.W lb1.inact none = some mw ∧
         lb2.act = fallbackNodes b (mlWidth it lb1) (mlS P it rest lb1) lb1.W mw lb1.inact)) := by
  unfold drastic at h
  cases hact : lb1.act with
  | cons x xs =>
    rw [hact] at h; simp only at h
    left; exact ⟨by simp, (Option.some.inj h).symm⟩
  | nil =>
    rw [hact] at h; simp only at h
    split at h
    · cases h
    · right
      cases hm : minWidthOf lb1.W lb1.inact none with
      | none =>
        rw [hm] at h; simp only at h
        cases h
        exact ⟨rfl, rfl, rfl, rfl, rfl, rfl, rfl, Or.inl ⟨rfl, rfl⟩⟩
      | some mw =>
        rw [hm] at h; simp only at h
        cases h
        exact ⟨rfl, rfl, rfl, rfl, rfl, rfl, rfl, Or.inr ⟨mw, rfl, rfl⟩⟩

end
end Canvas.C17
