import CanvasModel.C10.Heap
/-! Lemmas about the heap model of Go slices. -/
namespace Canvas.Heap
variable {α : Type}

theorem store_outside (cells : Nat → α) (a : Nat) (vs : List α) (x : Nat) (h : x < a ∨ a + vs.length ≤ x) :
    store cells a vs x = cells x := by
  unfold store
  split
  · rename_i hh; omega
  · rfl

theorem store_inside (cells : Nat → α) (a : Nat) (vs : List α) (i : Nat) (h : i < vs.length) :
    store cells a vs (a + i) = vs[i] := by
  unfold store
  have : a ≤ a + i ∧ a + i < a + vs.length := by omega
  rw [dif_pos this]
  congr 1; omega

theorem read_eq_of_cells (h h' : Heap α) (s : Slice) (hc : ∀ x, s.base ≤ x → x < s.base + s.len → h'.cells x = h.cells x) :
    read h' s = read h s := by
  unfold read
  apply List.map_congr_left
  intro i hi
  have := List.mem_range.1 hi
  exact hc _ (by omega) (by omega)

theorem read_length (h : Heap α) (s : Slice) : (read h s).length = s.len := by simp [read]

theorem read_store (cells : Nat → α) (next : Nat) (a : Nat) (vs : List α) :
    read ⟨store cells a vs, next⟩ ⟨a, vs.length, vs.length⟩ = vs := by
  apply List.ext_getElem
  · simp [read]
  · intro i h1 h2
    simp only [read, List.getElem_map, List.getElem_range]
    exact store_inside cells a vs i h2

end Canvas.Heap

namespace Canvas.Heap
variable {α : Type}

theorem append_realloc_cells (h : Heap α) (s : Slice) (vs : List α) (hfull : ¬ s.len + vs.length ≤ s.cap)
    (x : Nat) (hx : x < h.next) : (appendGo h s vs).1.cells x = h.cells x := by
  unfold appendGo
  rw [if_neg hfull]
  simp only
  rw [store_outside _ _ _ _ (Or.inl (by omega)), store_outside _ _ _ _ (Or.inl hx)]

theorem append_realloc_base (h : Heap α) (s : Slice) (vs : List α) (hfull : ¬ s.len + vs.length ≤ s.cap) :
    (appendGo h s vs).2.base = h.next := by
  unfold appendGo; rw [if_neg hfull]

theorem read_getElem (h : Heap α) (s : Slice) (i : Nat) (hi : i < (read h s).length) :
    (read h s)[i] = h.cells (s.base + i) := by
  simp [read]

theorem append_read (h : Heap α) (s : Slice) (vs : List α) (ha : s.Allocated h) :
    read (appendGo h s vs).1 (appendGo h s vs).2 = read h s ++ vs := by
  have hlen : (read h s).length = s.len := read_length h s
  by_cases hfit : s.len + vs.length ≤ s.cap
  · have e1 : appendGo h s vs = ((⟨store h.cells (s.base + s.len) vs, h.next⟩ : Heap α), (⟨s.base, s.len + vs.length, s.cap⟩ : Slice)) := by
      unfold appendGo; rw [if_pos hfit]
    rw [e1]
    apply List.ext_getElem
    · rw [read_length, List.length_append, hlen]
    · intro i h1 h2
      rw [read_getElem]
      have hi' : i < s.len + vs.length := by rw [read_length] at h1; exact h1
      show store h.cells (s.base + s.len) vs (s.base + i) = _
      by_cases hi : i < s.len
      · rw [List.getElem_append_left (by omega), read_getElem]
        exact store_outside _ _ _ _ (Or.inl (by omega))
      · rw [List.getElem_append_right (by omega)]
        have hi2 : i - s.len < vs.length := by omega
        have := store_inside h.cells (s.base + s.len) vs (i - s.len) hi2
        have e : s.base + s.len + (i - s.len) = s.base + i := by omega
        rw [e] at this
        rw [this]
        congr 1; omega
  · have e1 : appendGo h s vs = ((⟨store (store h.cells h.next (read h s)) (h.next + s.len) vs,
        h.next + 2 * (s.len + vs.length)⟩ : Heap α), (⟨h.next, s.len + vs.length, 2 * (s.len + vs.length)⟩ : Slice)) := by
      unfold appendGo; rw [if_neg hfit]
    rw [e1]
    apply List.ext_getElem
    · rw [read_length, List.length_append, hlen]
    · intro i h1 h2
      rw [read_getElem]
      have hi' : i < s.len + vs.length := by rw [read_length] at h1; exact h1
      show store (store h.cells h.next (read h s)) (h.next + s.len) vs (h.next + i) = _
      by_cases hi : i < s.len
      · rw [List.getElem_append_left (by omega)]
        rw [store_outside _ _ _ _ (Or.inl (by omega))]
        exact store_inside h.cells h.next (read h s) i (by omega)
      · rw [List.getElem_append_right (by omega)]
        have hi2 : i - s.len < vs.length := by omega
        have := store_inside (store h.cells h.next (read h s)) (h.next + s.len) vs (i - s.len) hi2
        have e : h.next + s.len + (i - s.len) = h.next + i := by omega
        rw [e] at this
        rw [this]
        congr 1; omega

theorem append_inplace_writes (h : Heap α) (s : Slice) (v : α) (vs : List α) (hfit : s.len + (v :: vs).length ≤ s.cap) :
    (appendGo h s (v :: vs)).1.cells (s.base + s.len) = v := by
  unfold appendGo
  rw [if_pos hfit]
  simp only
  have := store_inside h.cells (s.base + s.len) (v :: vs) 0 (by simp)
  simpa using this

theorem copy_cells (h : Heap α) (s : Slice) (x : Nat) (hx : x < h.next) : (copyGo h s).1.cells x = h.cells x := by
  unfold copyGo
  exact store_outside _ _ _ _ (Or.inl hx)

theorem copy_read (h : Heap α) (s : Slice) : read (copyGo h s).1 (copyGo h s).2 = read h s := by
  unfold copyGo
  have := read_store h.cells (h.next + s.len) h.next (read h s)
  rw [read_length] at this
  exact this

end Canvas.Heap
