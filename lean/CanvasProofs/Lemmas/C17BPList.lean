import CanvasModel.C17.BPList
/-! C17 — the doubly linked `Breakpoints` lists: representation invariant of the pointer-level
model and refinement of `Push` / `InsertBefore` / `Remove` / `Has` to list operations. Core Lean only. -/
set_option linter.unusedVariables false
namespace Canvas.C17.BP

/-! ### heap updates -/

theorem upd_same (f : Nat → Option Nat) (i : Nat) (v : Option Nat) : upd f i v i = v := by simp [upd]
theorem upd_other (f : Nat → Option Nat) (i j : Nat) (v : Option Nat) (h : j ≠ i) : upd f i v j = f j := by
  simp [upd, h]

/-! ### linked segments -/

/-- head of `l`, or the boundary `s` -/
def hd : List Nat → Option Nat → Option Nat
  | [], s => s
  | x :: _, _ => some x

/-- last element of `l`, or the boundary `p` -/
def lst : List Nat → Option Nat → Option Nat
  | [], p => p
  | [x], _ => some x
  | _ :: y :: rest, p => lst (y :: rest) p

/-- the nodes `xs` are linked one after the other; the first has `prev = p`, the last `next = s` -/
def Seg (h : Heap) : Option Nat → List Nat → Option Nat → Prop
  | _, [], _ => True
  | p, x :: rest, s => h.prev x = p ∧ h.next x = hd rest s ∧ Seg h (some x) rest s

theorem lst_indep : ∀ (l : List Nat) (x : Nat) (p q : Option Nat), lst (x :: l) p = lst (x :: l) q := by
  intro l
  induction l with
  | nil => intro x p q; rfl
  | cons y rest ih => intro x p q; exact ih y p q

theorem lst_cons (x : Nat) (l : List Nat) (p : Option Nat) : lst (x :: l) p = lst l (some x) := by
  cases l with
  | nil => rfl
  | cons y rest => exact lst_indep rest y p (some x)

theorem lst_append_singleton (l : List Nat) (b : Nat) (p : Option Nat) : lst (l ++ [b]) p = some b := by
  induction l generalizing p with
  | nil => rfl
  | cons x rest ih => rw [List.cons_append, lst_cons, ih]

theorem lst_eq_getLast? (l : List Nat) : lst l none = l.getLast? := by
  induction l with
  | nil => rfl
  | cons x rest ih =>
    cases rest with
    | nil => rfl
    | cons y r => rw [List.getLast?_cons_cons, ← ih]; rfl

theorem hd_eq_head? (l : List Nat) : hd l none = l.head? := by cases l <;> rfl

theorem seg_append (h : Heap) : ∀ (l1 l2 : List Nat) (p s : Option Nat),
    Seg h p (l1 ++ l2) s ↔ (Seg h p l1 (hd l2 s) ∧ Seg h (lst l1 p) l2 s) := by
  intro l1
  induction l1 with
  | nil => intro l2 p s; simp [Seg, lst]
  | cons x rest ih =>
    intro l2 p s
    simp only [List.cons_append, Seg]
    rw [ih l2 (some x) s, lst_cons]
    have hh : hd (rest ++ l2) s = hd rest (hd l2 s) := by cases rest <;> rfl
    rw [hh]
    constructor
    · rintro ⟨a, b, c, d⟩; exact ⟨⟨a, b, c⟩, d⟩
    · rintro ⟨⟨a, b, c⟩, d⟩; exact ⟨a, b, c, d⟩

/-- frame: a heap that agrees on the nodes of the segment keeps the segment -/
theorem seg_frame (h h' : Heap) : ∀ (l : List Nat) (p s : Option Nat),
    (∀ x, x ∈ l → h'.prev x = h.prev x ∧ h'.next x = h.next x) → Seg h p l s → Seg h' p l s := by
  intro l
  induction l with
  | nil => intro _ _ _ _; trivial
  | cons x rest ih =>
    intro p s hag hs
    obtain ⟨a, b, c⟩ := hs
    have hx := hag x List.mem_cons_self
    exact ⟨by rw [hx.1]; exact a, by rw [hx.2]; exact b,
      ih (some x) s (fun y hy => hag y (List.mem_cons_of_mem _ hy)) c⟩

/-- change the right boundary: only the `next` of the last node matters -/
theorem seg_set_right (h h' : Heap) : ∀ (l : List Nat) (p s s' : Option Nat), l.Nodup →
    (∀ x, x ∈ l → h'.prev x = h.prev x) →
    (∀ x, x ∈ l → some x ≠ lst l p → h'.next x = h.next x) →
    (∀ t, lst l p = some t → t ∈ l → h'.next t = s') →
    Seg h p l s → Seg h' p l s' := by
  intro l
  induction l with
  | nil => intro _ _ _ _ _ _ _ _; trivial
  | cons x rest ih =>
    intro p s s' hnd hp hn hl hs
    obtain ⟨a, b, c⟩ := hs
    have hnd' := (List.nodup_cons.mp hnd)
    refine ⟨by rw [hp x List.mem_cons_self]; exact a, ?_, ?_⟩
    · cases rest with
      | nil =>
        simp only [hd]
        exact hl x rfl List.mem_cons_self
      | cons y r =>
        simp only [hd] at b ⊢
        rw [hn x List.mem_cons_self]
        · exact b
        · rw [lst_cons]
          intro he
          have : x ∈ y :: r := by
            have hm : ∀ (l : List Nat) (q : Option Nat) (t : Nat), l ≠ [] → lst l q = some t → t ∈ l := by
              intro l
              induction l with
              | nil => intro q t hne _; exact absurd rfl hne
              | cons u v ihl =>
                intro q t _ ht
                cases v with
                | nil => simp only [lst, Option.some.injEq] at ht; rw [← ht]; exact List.mem_cons_self
                | cons w z =>
                  rw [lst_cons] at ht
                  exact List.mem_cons_of_mem _ (ihl (some u) t (by simp) ht)
            exact hm (y :: r) (some x) x (by simp) he.symm
          exact hnd'.1 this
    · apply ih (some x) s s' hnd'.2 (fun y hy => hp y (List.mem_cons_of_mem _ hy))
      · intro y hy hne
        apply hn y (List.mem_cons_of_mem _ hy)
        rw [lst_cons]; exact hne
      · intro t ht htm
        apply hl t _ (List.mem_cons_of_mem _ htm)
        rw [lst_cons]; exact ht
      · exact c

/-- change the left boundary: only the `prev` of the first node matters -/
theorem seg_set_left (h h' : Heap) (x : Nat) (rest : List Nat) (p p' s : Option Nat) (hnd : (x :: rest).Nodup)
    (hx : h'.prev x = p' ∧ h'.next x = h.next x)
    (hr : ∀ y, y ∈ rest → h'.prev y = h.prev y ∧ h'.next y = h.next y)
    (hs : Seg h p (x :: rest) s) : Seg h' p' (x :: rest) s := by
  obtain ⟨a, b, c⟩ := hs
  exact ⟨hx.1, by rw [hx.2]; exact b, seg_frame h h' rest (some x) s hr c⟩

/-! ### representation invariant -/

/-- the list header `l` and the heap `h` represent the sequence `xs` -/
def Rep (h : Heap) (l : Hdr) (xs : List Nat) : Prop :=
  xs.Nodup ∧ l.head = hd xs none ∧ l.tail = lst xs none ∧ Seg h none xs none

/-- a node outside every list has nil pointers -/
def Free (h : Heap) (b : Nat) : Prop := h.prev b = none ∧ h.next b = none

theorem lst_mem : ∀ (l : List Nat) (q : Option Nat) (t : Nat), l ≠ [] → lst l q = some t → t ∈ l := by
  intro l
  induction l with
  | nil => intro q t hne _; exact absurd rfl hne
  | cons u v ihl =>
    intro q t _ ht
    cases v with
    | nil => simp only [lst, Option.some.injEq] at ht; rw [← ht]; exact List.mem_cons_self
    | cons w z =>
      rw [lst_cons] at ht
      exact List.mem_cons_of_mem _ (ihl (some u) t (by simp) ht)

theorem lst_some_of_ne : ∀ (l : List Nat) (q : Option Nat), l ≠ [] → ∃ t, lst l q = some t ∧ t ∈ l := by
  intro l
  induction l with
  | nil => intro q hne; exact absurd rfl hne
  | cons u v ih =>
    intro q _
    cases v with
    | nil => exact ⟨u, rfl, List.mem_cons_self⟩
    | cons w z =>
      obtain ⟨t, ht, hm⟩ := ih (some u) (by simp)
      exact ⟨t, by rw [lst_cons]; exact ht, List.mem_cons_of_mem _ hm⟩

theorem seg_prev_some (h : Heap) : ∀ (l : List Nat) (q : Nat) (s : Option Nat) (b : Nat),
    Seg h (some q) l s → b ∈ l → (h.prev b).isSome = true := by
  intro l
  induction l with
  | nil => intro q s b _ hb; cases hb
  | cons x rest ih =>
    intro q s b hs hb
    obtain ⟨a, _, c⟩ := hs
    rcases List.mem_cons.mp hb with rfl | hb
    · rw [a]; rfl
    · exact ih x s b c hb

theorem seg_link (h : Heap) (x y : Nat) (rest : List Nat) (p s : Option Nat) (b : Nat)
    (hs : Seg h p (x :: y :: rest) s) (hb : b ∈ x :: y :: rest) :
    (h.prev b).isSome = true ∨ (h.next b).isSome = true := by
  obtain ⟨_, bn, c⟩ := hs
  rcases List.mem_cons.mp hb with rfl | hb
  · right; rw [bn]; rfl
  · left; exact seg_prev_some h (y :: rest) x s b c hb

/-- `Has` decides membership for the list's own nodes and for free nodes -/
theorem has_iff_mem (h : Heap) (l : Hdr) (xs : List Nat) (b : Nat) (hr : Rep h l xs)
    (hf : b ∉ xs → Free h b) : has h l b = decide (b ∈ xs) := by
  obtain ⟨hnd, hh, ht, hs⟩ := hr
  by_cases hb : b ∈ xs
  · rw [decide_eq_true hb]
    cases xs with
    | nil => cases hb
    | cons x rest =>
      cases rest with
      | nil =>
        have : b = x := by simpa using hb
        subst this
        simp only [hd] at hh
        simp [has, hh]
      | cons y r =>
        rcases seg_link h x y r none none b hs hb with h1 | h1
        · cases hp : h.prev b with
          | none => rw [hp] at h1; cases h1
          | some v => simp [has, hp]
        · cases hn : h.next b with
          | none => rw [hn] at h1; cases h1
          | some v => simp [has, hn]
  · rw [decide_eq_false hb]
    obtain ⟨f1, f2⟩ := hf hb
    cases xs with
    | nil =>
      simp only [hd] at hh
      simp [has, f1, f2, hh]
    | cons x rest =>
      simp only [hd] at hh
      have hne : x ≠ b := fun e => hb (e ▸ List.mem_cons_self)
      simp [has, f1, f2, hh, hne]

/-! ### `Push` -/

/-- `Push(b)` of a free node appends it; nodes outside the list and different from `b` are untouched -/
theorem push_rep (h : Heap) (l : Hdr) (xs : List Nat) (b : Nat) (hr : Rep h l xs) (hb : b ∉ xs)
    (hf : Free h b) :
    ∃ h' l', push h l b = some (h', l') ∧ Rep h' l' (xs ++ [b]) ∧
      (∀ y, y ∉ xs → y ≠ b → h'.prev y = h.prev y ∧ h'.next y = h.next y) := by
  have hhas := has_iff_mem h l xs b hr (fun _ => hf)
  rw [decide_eq_false hb] at hhas
  obtain ⟨hnd, hh, ht, hs⟩ := hr
  cases xs with
  | nil =>
    simp only [hd] at hh
    refine ⟨h, ⟨some b, some b⟩, by simp [push, hh], ⟨by simp, rfl, rfl, hf.1, hf.2, trivial⟩, fun y _ _ => ⟨rfl, rfl⟩⟩
  | cons x rest =>
    simp only [hd] at hh
    obtain ⟨t, hlt, htm⟩ := lst_some_of_ne (x :: rest) none (by simp)
    rw [hlt] at ht
    have htb : t ≠ b := fun e => hb (e ▸ htm)
    refine ⟨(h.setPrev b l.tail).setNext t (some b), ⟨l.head, some b⟩, by simp [push, hh, hhas, ht], ?_, ?_⟩
    · refine ⟨?_, ?_, ?_, ?_⟩
      · exact List.nodup_append.mpr ⟨hnd, by simp, by
          intro a ha c hc
          have : c = b := by simpa using hc
          subst this
          intro e; exact hb (e ▸ ha)⟩
      · simp [hd, hh]
      · show some b = lst ((x :: rest) ++ [b]) none
        rw [lst_append_singleton]
      · rw [seg_append]
        constructor
        · apply seg_set_right h _ (x :: rest) none none (some b) hnd
          · intro y hy
            have : y ≠ b := fun e => hb (e ▸ hy)
            simp [Heap.setPrev, Heap.setNext, upd, this]
          · intro y hy hne
            have : y ≠ t := fun e => hne (by rw [hlt, e])
            simp [Heap.setPrev, Heap.setNext, upd, this]
          · intro t' ht' _
            rw [hlt] at ht'
            cases ht'
            simp [Heap.setPrev, Heap.setNext, upd]
          · exact hs
        · rw [hlt]
          refine ⟨?_, ?_, trivial⟩
          · simp [Heap.setPrev, Heap.setNext, upd, ht]
          · simp only [hd, Heap.setPrev, Heap.setNext, upd]
            rw [if_neg (Ne.symm htb)]
            exact hf.2
    · intro y hy hyb
      have : y ≠ t := fun e => hy (e ▸ htm)
      simp [Heap.setPrev, Heap.setNext, upd, hyb, this]

/-! ### `Remove` -/

/-- pointwise description of what `Remove(b)` does to a member of the list -/
theorem remove_char (h : Heap) (l : Hdr) (b : Nat) (hhas : has h l b = true)
    (hp : h.prev b ≠ some b) (hn : h.next b ≠ some b) :
    (∀ y, (remove h l b).1.prev y = if y = b then none else if h.next b = some y then h.prev b else h.prev y) ∧
    (∀ y, (remove h l b).1.next y = if y = b then none else if h.prev b = some y then h.next b else h.next y) ∧
    (remove h l b).2.head = (if h.prev b = none then h.next b else l.head) ∧
    (remove h l b).2.tail = (if h.next b = none then h.prev b else l.tail) := by
  unfold remove
  rw [hhas]
  simp only [Bool.not_true, Bool.false_eq_true, if_false]
  cases hpb : h.prev b with
  | none =>
    cases hnb : h.next b with
    | none =>
      refine ⟨fun y => ?_, fun y => ?_, ?_, ?_⟩ <;>
        simp only [Heap.setPrev, Heap.setNext, upd, hnb, hpb] <;> (try split) <;> simp_all
    | some n =>
      have hnb' : ¬ n = b := fun e => hn (by rw [hnb, e])
      have hbn : ¬ b = n := fun e => hnb' e.symm
      refine ⟨fun y => ?_, fun y => ?_, ?_, ?_⟩
      · simp only [Heap.setPrev, Heap.setNext, upd, hnb, hpb]
        by_cases hy : y = b <;> by_cases hyn : y = n <;> simp_all
        intro e; exact absurd e.symm hyn
      · simp only [Heap.setPrev, Heap.setNext, upd, hnb, hpb]
        by_cases hy : y = b <;> simp_all
      · simp [hnb]
      · simp [hnb]
  | some p =>
    have hpb' : ¬ p = b := fun e => hp (by rw [hpb, e])
    have hbp : ¬ b = p := fun e => hpb' e.symm
    cases hnb : h.next b with
    | none =>
      refine ⟨fun y => ?_, fun y => ?_, ?_, ?_⟩
      · simp only [Heap.setPrev, Heap.setNext, upd, hnb, hpb, hbp, if_false]
        by_cases hy : y = b <;> simp_all
      · simp only [Heap.setPrev, Heap.setNext, upd, hnb, hpb, hbp, if_false]
        by_cases hy : y = b <;> by_cases hyp : y = p <;> simp_all
        intro e; exact absurd e.symm hyp
      · simp [Heap.setNext, upd, hnb, hbp]
      · simp [Heap.setNext, upd, hnb, hbp, hpb]
    | some n =>
      have hnb' : ¬ n = b := fun e => hn (by rw [hnb, e])
      have hbn : ¬ b = n := fun e => hnb' e.symm
      refine ⟨fun y => ?_, fun y => ?_, ?_, ?_⟩
      · simp only [Heap.setPrev, Heap.setNext, upd, hnb, hpb, hbp, if_false]
        by_cases hy : y = b <;> by_cases hyn : y = n <;> simp_all
        intro e; exact absurd e.symm hyn
      · simp only [Heap.setPrev, Heap.setNext, upd, hnb, hpb, hbp, if_false]
        by_cases hy : y = b <;> by_cases hyp : y = p <;> simp_all
        intro e; exact absurd e.symm hyp
      · simp [Heap.setNext, upd, hnb, hbp]
      · simp [Heap.setNext, upd, hnb, hbp]

theorem erase_mid (b : Nat) : ∀ (l1 l2 : List Nat), b ∉ l1 → (l1 ++ b :: l2).erase b = l1 ++ l2 := by
  intro l1
  induction l1 with
  | nil => intro l2 _; simp
  | cons x rest ih =>
    intro l2 hb
    have hx : x ≠ b := fun e => hb (e ▸ List.mem_cons_self)
    have hr : b ∉ rest := fun e => hb (List.mem_cons_of_mem _ e)
    simp only [List.cons_append]
    rw [List.erase_cons_tail (by simpa using hx), ih l2 hr]

theorem lst_append_ne : ∀ (l1 l2 : List Nat) (p q : Option Nat), l2 ≠ [] → lst (l1 ++ l2) p = lst l2 q := by
  intro l1
  induction l1 with
  | nil =>
    intro l2 p q hne
    cases l2 with
    | nil => exact absurd rfl hne
    | cons x r => exact lst_indep r x p q
  | cons x rest ih =>
    intro l2 p q hne
    rw [List.cons_append, lst_cons]
    exact ih l2 (some x) q hne

theorem hd_mem (l : List Nat) (n : Nat) (h : hd l none = some n) : n ∈ l := by
  cases l with
  | nil => cases h
  | cons x r => simp only [hd, Option.some.injEq] at h; rw [← h]; exact List.mem_cons_self

/-- `Remove(b)` of a member erases it, leaves `b` free and touches no node outside the list -/
theorem remove_rep (h : Heap) (l : Hdr) (xs : List Nat) (b : Nat) (hr : Rep h l xs) (hb : b ∈ xs) :
    Rep (remove h l b).1 (remove h l b).2 (xs.erase b) ∧ Free (remove h l b).1 b ∧
      (∀ y, y ∉ xs → (remove h l b).1.prev y = h.prev y ∧ (remove h l b).1.next y = h.next y) := by
  have hhas := has_iff_mem h l xs b hr (fun hn => absurd hb hn)
  rw [decide_eq_true hb] at hhas
  obtain ⟨hnd, hh, ht, hs⟩ := hr
  obtain ⟨l1, l2, rfl⟩ := List.append_of_mem hb
  obtain ⟨hnd1, hnd2, hdis⟩ := List.nodup_append.mp hnd
  have hb1 : b ∉ l1 := fun e => hdis b e b List.mem_cons_self rfl
  have hb2 : b ∉ l2 := (List.nodup_cons.mp hnd2).1
  have hnd2' : l2.Nodup := (List.nodup_cons.mp hnd2).2
  have hdis12 : ∀ a, a ∈ l1 → a ∉ l2 := fun a ha e => hdis a ha a (List.mem_cons_of_mem _ e) rfl
  rw [seg_append] at hs
  obtain ⟨hs1, hpb, hnb, hs2⟩ := hs
  simp only [hd] at hs1
  -- prev b and next b are not b
  have hp : h.prev b ≠ some b := by
    rw [hpb]; intro e
    cases l1 with
    | nil => cases e
    | cons x r => exact hb1 (lst_mem (x :: r) none b (by simp) e)
  have hn : h.next b ≠ some b := by
    rw [hnb]; intro e; exact hb2 (hd_mem l2 b e)
  obtain ⟨cp, cn, ch, ct⟩ := remove_char h l b hhas hp hn
  rw [erase_mid b l1 l2 hb1]
  refine ⟨⟨?_, ?_, ?_, ?_⟩, ⟨?_, ?_⟩, ?_⟩
  · exact List.nodup_append.mpr ⟨hnd1, hnd2', fun a ha c hc e => hdis12 a ha (e ▸ hc)⟩
  · rw [ch, hpb]
    cases l1 with
    | nil => simp only [lst, if_true, List.nil_append]; exact hnb
    | cons x r =>
      obtain ⟨t, ht', _⟩ := lst_some_of_ne (x :: r) none (by simp)
      rw [ht']; simp only [reduceCtorEq, if_false]
      rw [hh]; rfl
  · rw [ct, hnb]
    cases l2 with
    | nil => simp only [hd, if_true, List.append_nil]; exact hpb
    | cons n r =>
      simp only [hd, reduceCtorEq, if_false]
      rw [ht, lst_append_ne l1 (b :: n :: r) none none (by simp), lst_append_ne l1 (n :: r) none none (by simp)]
      exact lst_cons b (n :: r) none |>.trans (lst_indep r n (some b) none)
  · rw [seg_append]
    constructor
    · apply seg_set_right h _ l1 none (some b) (hd l2 none) hnd1
      · intro y hy
        have hyb : y ≠ b := fun e => hb1 (e ▸ hy)
        rw [cp y, if_neg hyb, if_neg]
        rw [hnb]; intro e; exact hdis12 y hy (hd_mem l2 y e)
      · intro y hy hne
        have hyb : y ≠ b := fun e => hb1 (e ▸ hy)
        rw [cn y, if_neg hyb, if_neg]
        rw [hpb]; exact fun e => hne e.symm
      · intro t ht' _
        have htb : t ≠ b := fun e => hb1 (e ▸ lst_mem l1 none t (by intro e2; rw [e2] at ht'; cases ht') ht')
        rw [cn t, if_neg htb, hpb, if_pos ht', hnb]
      · exact hs1
    · cases l2 with
      | nil => trivial
      | cons n r =>
        have hnb' : n ≠ b := fun e => hb2 (e ▸ List.mem_cons_self)
        simp only [hd] at hnb
        apply seg_set_left h _ n r (some b) (lst l1 none) none hnd2'
        · constructor
          · rw [cp n, if_neg hnb', if_pos hnb, hpb]
          · rw [cn n, if_neg hnb', if_neg]
            rw [hpb]; intro e
            cases l1 with
            | nil => cases e
            | cons x q => exact hdis12 n (lst_mem (x :: q) none n (by simp) e) List.mem_cons_self
        · intro y hy
          have hyb : y ≠ b := fun e => hb2 (e ▸ List.mem_cons_of_mem _ hy)
          have hyn : y ≠ n := fun e => (List.nodup_cons.mp hnd2').1 (e ▸ hy)
          constructor
          · rw [cp y, if_neg hyb, if_neg]
            rw [hnb]; intro e; exact hyn (Option.some.inj e).symm
          · rw [cn y, if_neg hyb, if_neg]
            rw [hpb]; intro e
            cases l1 with
            | nil => cases e
            | cons x q => exact hdis12 y (lst_mem (x :: q) none y (by simp) e) (List.mem_cons_of_mem _ hy)
        · exact hs2
  · rw [cp b, if_pos rfl]
  · rw [cn b, if_pos rfl]
  · intro y hy
    have hyb : y ≠ b := fun e => hy (e ▸ hb)
    constructor
    · rw [cp y, if_neg hyb, if_neg]
      rw [hnb]; intro e
      exact hy (List.mem_append_right _ (List.mem_cons_of_mem _ (hd_mem l2 y e)))
    · rw [cn y, if_neg hyb, if_neg]
      rw [hpb]; intro e
      cases l1 with
      | nil => cases e
      | cons x q => exact hy (List.mem_append_left _ (lst_mem (x :: q) none y (by simp) e))

/-! ### `InsertBefore` -/

/-- insert `b` before the first occurrence of `a` -/
def insBefore (b a : Nat) : List Nat → List Nat
  | [] => []
  | x :: rest => if x = a then b :: x :: rest else x :: insBefore b a rest

theorem insBefore_mid (b a : Nat) : ∀ (l1 l2 : List Nat), a ∉ l1 → insBefore b a (l1 ++ a :: l2) = l1 ++ b :: a :: l2 := by
  intro l1
  induction l1 with
  | nil => intro l2 _; simp [insBefore]
  | cons x rest ih =>
    intro l2 ha
    have hx : x ≠ a := fun e => ha (e ▸ List.mem_cons_self)
    have hr : a ∉ rest := fun e => ha (List.mem_cons_of_mem _ e)
    simp only [List.cons_append, insBefore, if_neg hx, ih l2 hr]

/-- pointwise description of what `InsertBefore(b, at)` does to a free `b` and a member `at` -/
theorem insert_char (h : Heap) (l : Hdr) (b a : Nat) (hb : has h l b = false) (ha : has h l a = true)
    (hba : b ≠ a) (hpb : h.prev b = none) (hpa : h.prev a ≠ some b) :
    (∀ y, (insertBefore h l b a).1.prev y = if y = a then some b else if y = b then h.prev a else h.prev y) ∧
    (∀ y, (insertBefore h l b a).1.next y = if y = b then some a else if h.prev a = some y then some b else h.next y) ∧
    (insertBefore h l b a).2.head = (if h.prev a = none then some b else l.head) ∧
    (insertBefore h l b a).2.tail = l.tail := by
  unfold insertBefore
  rw [hb, ha]
  simp only [Bool.not_true, Bool.or_self, Bool.false_eq_true, if_false]
  have hab : ¬ a = b := fun e => hba e.symm
  have h1p : (h.setNext b (some a)).prev a = h.prev a := rfl
  rw [h1p]
  cases hp : h.prev a with
  | none =>
    refine ⟨fun y => ?_, fun y => ?_, ?_, ?_⟩
    · simp only [Heap.setPrev, Heap.setNext, upd]
      by_cases hy : y = a <;> by_cases hyb : y = b <;> simp_all
    · simp only [Heap.setPrev, Heap.setNext, upd]
      by_cases hyb : y = b <;> simp_all
    · simp
    · simp
  | some p =>
    have hpb' : ¬ p = b := fun e => hpa (by rw [hp, e])
    refine ⟨fun y => ?_, fun y => ?_, ?_, ?_⟩
    · simp only [Heap.setPrev, Heap.setNext, upd]
      all_goals (by_cases hy : y = a <;> by_cases hyb : y = b <;> simp_all)
    · simp only [Heap.setPrev, Heap.setNext, upd]
      by_cases hyb : y = b <;> by_cases hyp : y = p <;> simp_all
      intro e; exact absurd e.symm hyp
    · simp
    · simp

/-- `InsertBefore(b, at)` of a free node before a member inserts it there -/
theorem insert_rep (h : Heap) (l : Hdr) (xs : List Nat) (b a : Nat) (hr : Rep h l xs) (hb : b ∉ xs)
    (hf : Free h b) (ha : a ∈ xs) :
    Rep (insertBefore h l b a).1 (insertBefore h l b a).2 (insBefore b a xs) ∧
      (∀ y, y ∉ xs → y ≠ b → (insertBefore h l b a).1.prev y = h.prev y ∧ (insertBefore h l b a).1.next y = h.next y) := by
  have hhb := has_iff_mem h l xs b hr (fun _ => hf)
  rw [decide_eq_false hb] at hhb
  have hha := has_iff_mem h l xs a hr (fun hn => absurd ha hn)
  rw [decide_eq_true ha] at hha
  have hba : b ≠ a := fun e => hb (e ▸ ha)
  obtain ⟨hnd, hh, ht, hs⟩ := hr
  obtain ⟨l1, l2, rfl⟩ := List.append_of_mem ha
  obtain ⟨hnd1, hnd2, hdis⟩ := List.nodup_append.mp hnd
  have ha1 : a ∉ l1 := fun e => hdis a e a List.mem_cons_self rfl
  have ha2 : a ∉ l2 := (List.nodup_cons.mp hnd2).1
  have hdis12 : ∀ c, c ∈ l1 → c ∉ l2 := fun c hc e => hdis c hc c (List.mem_cons_of_mem _ e) rfl
  have hb1 : b ∉ l1 := fun e => hb (List.mem_append_left _ e)
  have hb2 : b ∉ l2 := fun e => hb (List.mem_append_right _ (List.mem_cons_of_mem _ e))
  rw [seg_append] at hs
  obtain ⟨hs1, hs2⟩ := hs
  simp only [hd] at hs1
  have hpa : h.prev a = lst l1 none := hs2.1
  have hpab : h.prev a ≠ some b := by
    rw [hpa]; intro e
    cases l1 with
    | nil => cases e
    | cons x r => exact hb1 (lst_mem (x :: r) none b (by simp) e)
  obtain ⟨cp, cn, ch, ct⟩ := insert_char h l b a hhb hha hba hf.1 hpab
  rw [insBefore_mid b a l1 l2 ha1]
  refine ⟨⟨?_, ?_, ?_, ?_⟩, ?_⟩
  · refine List.nodup_append.mpr ⟨hnd1, List.nodup_cons.mpr ⟨?_, hnd2⟩, ?_⟩
    · intro e
      rcases List.mem_cons.mp e with e | e
      · exact hba e
      · exact hb2 e
    · intro c hc d hd' e
      rcases List.mem_cons.mp hd' with rfl | hd'
      · exact hb1 (e ▸ hc)
      · exact hdis c hc d hd' e
  · rw [ch, hpa]
    cases l1 with
    | nil => simp [lst, hd]
    | cons x r =>
      obtain ⟨t, ht', _⟩ := lst_some_of_ne (x :: r) none (by simp)
      rw [ht']; simp only [reduceCtorEq, if_false]
      rw [hh]; rfl
  · rw [ct, ht, lst_append_ne l1 (a :: l2) none none (by simp), lst_append_ne l1 (b :: a :: l2) none none (by simp)]
    exact (lst_cons b (a :: l2) none |>.trans (lst_indep l2 a (some b) none)).symm
  · rw [seg_append]
    constructor
    · simp only [hd]
      apply seg_set_right h _ l1 none (some a) (some b) hnd1
      · intro y hy
        have hya : y ≠ a := fun e => ha1 (e ▸ hy)
        have hyb : y ≠ b := fun e => hb1 (e ▸ hy)
        rw [cp y, if_neg hya, if_neg hyb]
      · intro y hy hne
        have hyb : y ≠ b := fun e => hb1 (e ▸ hy)
        rw [cn y, if_neg hyb, if_neg]
        rw [hpa]; exact fun e => hne e.symm
      · intro t ht' _
        have htb : t ≠ b := fun e => hb1 (e ▸ lst_mem l1 none t (by intro e2; rw [e2] at ht'; cases ht') ht')
        rw [cn t, if_neg htb, hpa, if_pos ht']
      · exact hs1
    · refine ⟨?_, ?_, ?_⟩
      · rw [cp b, if_neg hba, if_pos rfl, hpa]
      · rw [cn b, if_pos rfl]; rfl
      · have hab : a ≠ b := fun e => hba e.symm
        apply seg_set_left h _ a l2 (lst l1 none) (some b) none hnd2
        · constructor
          · rw [cp a, if_pos rfl]
          · rw [cn a, if_neg hab, if_neg]
            rw [hpa]; intro e
            cases l1 with
            | nil => cases e
            | cons x q => exact ha1 (lst_mem (x :: q) none a (by simp) e)
        · intro y hy
          have hya : y ≠ a := fun e => ha2 (e ▸ hy)
          have hyb : y ≠ b := fun e => hb2 (e ▸ hy)
          constructor
          · rw [cp y, if_neg hya, if_neg hyb]
          · rw [cn y, if_neg hyb, if_neg]
            rw [hpa]; intro e
            cases l1 with
            | nil => cases e
            | cons x q => exact hdis12 y (lst_mem (x :: q) none y (by simp) e) hy
        · exact hs2
  · intro y hy hyb
    have hya : y ≠ a := fun e => hy (e ▸ ha)
    constructor
    · rw [cp y, if_neg hya, if_neg hyb]
    · rw [cn y, if_neg hyb, if_neg]
      rw [hpa]; intro e
      cases l1 with
      | nil => cases e
      | cons x q => exact hy (List.mem_append_left _ (lst_mem (x :: q) none y (by simp) e))

/-! ### two lists over one heap, arbitrary disciplined histories -/

/-- this list represents `L`, the other list `M`, they share no node and every other node is free -/
structure Pair (h : Heap) (l : Hdr) (L : List Nat) (l' : Hdr) (M : List Nat) : Prop where
  this : Rep h l L
  other : Rep h l' M
  dis : ∀ a, a ∈ L → a ∉ M
  free : ∀ b, b ∉ L → b ∉ M → Free h b

theorem Pair.symm {h : Heap} {l l' : Hdr} {L M : List Nat} (p : Pair h l L l' M) : Pair h l' M l L :=
  ⟨p.other, p.this, fun a ha hb => p.dis a hb ha, fun b h1 h2 => p.free b h2 h1⟩

theorem rep_frame (h h' : Heap) (l : Hdr) (M : List Nat) (hr : Rep h l M)
    (hf : ∀ y, y ∈ M → h'.prev y = h.prev y ∧ h'.next y = h.next y) : Rep h' l M :=
  ⟨hr.1, hr.2.1, hr.2.2.1, seg_frame h h' M none none hf hr.2.2.2⟩

/-- abstract effect of the list methods -/
def absPush (L : List Nat) (b : Nat) : List Nat := if b ∈ L then L else L ++ [b]
def absInsert (L : List Nat) (b a : Nat) : List Nat := if b ∈ L ∨ a ∉ L then L else insBefore b a L

theorem mem_insBefore (b a : Nat) : ∀ (L : List Nat) (y : Nat), y ∈ insBefore b a L → y = b ∨ y ∈ L := by
  intro L
  induction L with
  | nil => intro y hy; cases hy
  | cons x rest ih =>
    intro y hy
    simp only [insBefore] at hy
    split at hy
    · rcases List.mem_cons.mp hy with h | h
      · exact Or.inl h
      · exact Or.inr h
    · rcases List.mem_cons.mp hy with h | h
      · exact Or.inr (h ▸ List.mem_cons_self)
      · rcases ih y h with h | h
        · exact Or.inl h
        · exact Or.inr (List.mem_cons_of_mem _ h)

theorem mem_insBefore_of_mem (b a : Nat) : ∀ (L : List Nat) (y : Nat), y ∈ L → y ∈ insBefore b a L := by
  intro L
  induction L with
  | nil => intro y hy; cases hy
  | cons x rest ih =>
    intro y hy
    simp only [insBefore]
    split
    · exact List.mem_cons_of_mem _ hy
    · rcases List.mem_cons.mp hy with h | h
      · exact h ▸ List.mem_cons_self
      · exact List.mem_cons_of_mem _ (ih y h)

theorem self_mem_insBefore (b a : Nat) : ∀ (L : List Nat), a ∈ L → b ∈ insBefore b a L := by
  intro L
  induction L with
  | nil => intro h; cases h
  | cons x rest ih =>
    intro h
    simp only [insBefore]
    split
    · exact List.mem_cons_self
    · rename_i hx
      rcases List.mem_cons.mp h with h | h
      · exact absurd h.symm hx
      · exact List.mem_cons_of_mem _ (ih h)

theorem push_pair (h : Heap) (l l' : Hdr) (L M : List Nat) (b : Nat) (hp : Pair h l L l' M) (hb : b ∉ M) :
    ∃ h' lnew, push h l b = some (h', lnew) ∧ Pair h' lnew (absPush L b) l' M := by
  unfold absPush
  by_cases hbl : b ∈ L
  · -- guarded: `Has(b)` holds, nothing happens (or the list is a single node: impossible as b ∈ L)
    rw [if_pos hbl]
    have hhas := has_iff_mem h l L b hp.this (fun hn => absurd hbl hn)
    rw [decide_eq_true hbl] at hhas
    refine ⟨h, l, ?_, hp⟩
    unfold push
    cases hh : l.head with
    | none =>
      exfalso
      have := hp.this.2.1
      rw [hh] at this
      cases L with
      | nil => cases hbl
      | cons x r => cases this
    | some x => simp [hhas]
  · rw [if_neg hbl]
    obtain ⟨h', lnew, he, hr, hfr⟩ := push_rep h l L b hp.this hbl (hp.free b hbl hb)
    refine ⟨h', lnew, he, hr, ?_, ?_, ?_⟩
    · exact rep_frame h h' l' M hp.other (fun y hy =>
        hfr y (fun e => hp.dis y e hy) (fun e => hb (e ▸ hy)))
    · intro a ha
      rcases List.mem_append.mp ha with ha | ha
      · exact hp.dis a ha
      · have : a = b := by simpa using ha
        rw [this]; exact hb
    · intro y hy hym
      have hyl : y ∉ L := fun e => hy (List.mem_append_left _ e)
      have hyb : y ≠ b := fun e => hy (List.mem_append_right _ (by simp [e]))
      have := hfr y hyl hyb
      exact ⟨by rw [this.1]; exact (hp.free y hyl hym).1, by rw [this.2]; exact (hp.free y hyl hym).2⟩

theorem remove_pair (h : Heap) (l l' : Hdr) (L M : List Nat) (b : Nat) (hp : Pair h l L l' M) (hb : b ∉ M) :
    Pair (remove h l b).1 (remove h l b).2 (L.erase b) l' M := by
  by_cases hbl : b ∈ L
  · obtain ⟨hr, hfb, hfr⟩ := remove_rep h l L b hp.this hbl
    refine ⟨hr, ?_, ?_, ?_⟩
    · exact rep_frame h _ l' M hp.other (fun y hy => hfr y (fun e => hp.dis y e hy))
    · intro a ha; exact hp.dis a (List.mem_of_mem_erase ha)
    · intro y hy hym
      by_cases hyb : y = b
      · rw [hyb]; exact hfb
      · have hyl : y ∉ L := fun e => hy ((List.mem_erase_of_ne hyb).mpr e)
        have := hfr y hyl
        exact ⟨by rw [this.1]; exact (hp.free y hyl hym).1, by rw [this.2]; exact (hp.free y hyl hym).2⟩
  · have hhas := has_iff_mem h l L b hp.this (fun _ => hp.free b hbl hb)
    rw [decide_eq_false hbl] at hhas
    have he : remove h l b = (h, l) := by simp [remove, hhas]
    rw [he, List.erase_of_not_mem hbl]
    exact hp

theorem insert_pair (h : Heap) (l l' : Hdr) (L M : List Nat) (b a : Nat) (hp : Pair h l L l' M) (hb : b ∉ M)
    (ha : a ∉ M) : Pair (insertBefore h l b a).1 (insertBefore h l b a).2 (absInsert L b a) l' M := by
  unfold absInsert
  by_cases hg : b ∈ L ∨ a ∉ L
  · rw [if_pos hg]
    have he : insertBefore h l b a = (h, l) := by
      rcases hg with hg | hg
      · have hhas := has_iff_mem h l L b hp.this (fun hn => absurd hg hn)
        rw [decide_eq_true hg] at hhas
        simp [insertBefore, hhas]
      · have hhas := has_iff_mem h l L a hp.this (fun _ => hp.free a hg ha)
        rw [decide_eq_false hg] at hhas
        simp [insertBefore, hhas]
    rw [he]; exact hp
  · rw [if_neg hg]
    have hbl : b ∉ L := fun e => hg (Or.inl e)
    have hal : a ∈ L := Classical.not_not.mp (fun e => hg (Or.inr e))
    obtain ⟨hr, hfr⟩ := insert_rep h l L b a hp.this hbl (hp.free b hbl hb) hal
    refine ⟨hr, ?_, ?_, ?_⟩
    · exact rep_frame h _ l' M hp.other (fun y hy =>
        hfr y (fun e => hp.dis y e hy) (fun e => hb (e ▸ hy)))
    · intro c hc
      rcases mem_insBefore b a L c hc with h1 | h1
      · rw [h1]; exact hb
      · exact hp.dis c h1
    · intro y hy hym
      have hyl : y ∉ L := fun e => hy (mem_insBefore_of_mem b a L y e)
      have hyb : y ≠ b := by
        intro e
        exact hy (e ▸ self_mem_insBefore b a L hal)
      have := hfr y hyl hyb
      exact ⟨by rw [this.1]; exact (hp.free y hyl hym).1, by rw [this.2]; exact (hp.free y hyl hym).2⟩

/-- the system state represents the active sequence `xs` and the inactive sequence `ys` -/
def Rep2 (s : Sys) (xs ys : List Nat) : Prop := Pair s.heap s.l0 xs s.l1 ys

/-- abstract semantics of one operation on the two sequences and the `Has` observations -/
def absStep (xs ys : List Nat) (obs : List Bool) : Op → List Nat × List Nat × List Bool
  | Op.push i b => if i = 0 then (absPush xs b, ys, obs) else (xs, absPush ys b, obs)
  | Op.insertBefore i b a => if i = 0 then (absInsert xs b a, ys, obs) else (xs, absInsert ys b a, obs)
  | Op.remove i b => if i = 0 then (xs.erase b, ys, obs) else (xs, ys.erase b, obs)
  | Op.has i b => (xs, ys, obs ++ [if i = 0 then decide (b ∈ xs) else decide (b ∈ ys)])

/-- discipline of the algorithm: an operation on one list never names a member of the other list -/
def Disc (xs ys : List Nat) : Op → Prop
  | Op.push i b => if i = 0 then b ∉ ys else b ∉ xs
  | Op.insertBefore i b a => if i = 0 then b ∉ ys ∧ a ∉ ys else b ∉ xs ∧ a ∉ xs
  | Op.remove i b => if i = 0 then b ∉ ys else b ∉ xs
  | Op.has i b => if i = 0 then b ∉ ys else b ∉ xs

theorem step_rep2 (s : Sys) (xs ys : List Nat) (obs : List Bool) (op : Op) (hr : Rep2 s xs ys)
    (hd : Disc xs ys op) :
    ∃ s' obs', step s obs op = some (s', obs') ∧
      Rep2 s' (absStep xs ys obs op).1 (absStep xs ys obs op).2.1 ∧ obs' = (absStep xs ys obs op).2.2 := by
  cases op with
  | push i b =>
    simp only [Disc, absStep, step] at hd ⊢
    by_cases hi : i = 0
    · simp only [hi, if_true] at hd ⊢
      obtain ⟨h', ln, he, hp⟩ := push_pair s.heap s.l0 s.l1 xs ys b hr hd
      simp only [Sys.hdr, if_true, he]
      exact ⟨_, _, rfl, by simpa [Sys.set, Rep2] using hp, rfl⟩
    · simp only [hi, if_false] at hd ⊢
      obtain ⟨h', ln, he, hp⟩ := push_pair s.heap s.l1 s.l0 ys xs b hr.symm hd
      simp only [Sys.hdr, hi, if_false, he]
      exact ⟨_, _, rfl, by simpa [Sys.set, Rep2, hi] using hp.symm, rfl⟩
  | insertBefore i b a =>
    simp only [Disc, absStep, step] at hd ⊢
    by_cases hi : i = 0
    · simp only [hi, if_true] at hd ⊢
      have hp := insert_pair s.heap s.l0 s.l1 xs ys b a hr hd.1 hd.2
      exact ⟨_, _, rfl, by simpa [Sys.set, Sys.hdr, Rep2] using hp, rfl⟩
    · simp only [hi, if_false] at hd ⊢
      have hp := insert_pair s.heap s.l1 s.l0 ys xs b a hr.symm hd.1 hd.2
      exact ⟨_, _, rfl, by simpa [Sys.set, Sys.hdr, Rep2, hi] using hp.symm, rfl⟩
  | remove i b =>
    simp only [Disc, absStep, step] at hd ⊢
    by_cases hi : i = 0
    · simp only [hi, if_true] at hd ⊢
      have hp := remove_pair s.heap s.l0 s.l1 xs ys b hr hd
      exact ⟨_, _, rfl, by simpa [Sys.set, Sys.hdr, Rep2] using hp, rfl⟩
    · simp only [hi, if_false] at hd ⊢
      have hp := remove_pair s.heap s.l1 s.l0 ys xs b hr.symm hd
      exact ⟨_, _, rfl, by simpa [Sys.set, Sys.hdr, Rep2, hi] using hp.symm, rfl⟩
  | has i b =>
    simp only [Disc, absStep, step] at hd ⊢
    refine ⟨s, _, rfl, hr, ?_⟩
    by_cases hi : i = 0
    · simp only [hi, if_true] at hd ⊢
      rw [show s.hdr 0 = s.l0 from rfl,
        has_iff_mem s.heap s.l0 xs b hr.this (fun hn => hr.free b hn hd)]
    · simp only [hi, if_false] at hd ⊢
      rw [show s.hdr i = s.l1 by simp [Sys.hdr, hi],
        has_iff_mem s.heap s.l1 ys b hr.other (fun hn => hr.free b hd hn)]

/-- abstract run and the discipline along it -/
def absRun : List Nat → List Nat → List Bool → List Op → List Nat × List Nat × List Bool
  | xs, ys, obs, [] => (xs, ys, obs)
  | xs, ys, obs, op :: rest =>
    absRun (absStep xs ys obs op).1 (absStep xs ys obs op).2.1 (absStep xs ys obs op).2.2 rest

def DiscAll : List Nat → List Nat → List Bool → List Op → Prop
  | _, _, _, [] => True
  | xs, ys, obs, op :: rest =>
    Disc xs ys op ∧ DiscAll (absStep xs ys obs op).1 (absStep xs ys obs op).2.1 (absStep xs ys obs op).2.2 rest

theorem rep2_init : Rep2 ⟨emptyHeap, emptyHdr, emptyHdr⟩ [] [] :=
  ⟨⟨List.nodup_nil, rfl, rfl, trivial⟩, ⟨List.nodup_nil, rfl, rfl, trivial⟩, (fun a ha => by cases ha),
    fun b _ _ => ⟨rfl, rfl⟩⟩

/-- every disciplined history of `Push` / `InsertBefore` / `Remove` / `Has` on the two lists runs without
nil dereference, keeps the representation invariant and computes exactly the abstract sequences -/
theorem run_rep2 : ∀ (ops : List Op) (s : Sys) (xs ys : List Nat) (obs : List Bool), Rep2 s xs ys →
    DiscAll xs ys obs ops →
    ∃ s' obs', run s obs ops = some (s', obs') ∧
      Rep2 s' (absRun xs ys obs ops).1 (absRun xs ys obs ops).2.1 ∧ obs' = (absRun xs ys obs ops).2.2 := by
  intro ops
  induction ops with
  | nil => intro s xs ys obs hr _; exact ⟨s, obs, rfl, hr, rfl⟩
  | cons op rest ih =>
    intro s xs ys obs hr hd
    obtain ⟨s1, obs1, he, hr1, ho1⟩ := step_rep2 s xs ys obs op hr hd.1
    simp only [run, he, absRun]
    rw [ho1]
    exact ih s1 _ _ _ hr1 hd.2

end Canvas.C17.BP
