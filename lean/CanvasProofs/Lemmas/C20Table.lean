import CanvasProofs.Lemmas.C20
/-! # C20 lemmas: from the extracted access table to the trace discipline -/
namespace Canvas.C20

/-- the protection the table assigns to a variable (none: undisciplined) -/
def protOf (v : VarFact) : Option Prot :=
  if v.readOnly then some .readOnly
  else if v.onceDisciplined then v.onceOf.map Prot.byOnce
  else if v.lockDisciplined then v.lockOf.map (fun m => Prot.guarded (Tok.mu m))
  else if v.atomicDisciplined then some .atomicOnly
  else none

/-- the synchronisation context recorded for a site really holds at the plain read/write event `k` of
thread `t`. Sites inside a once body are not plain events of the model (they are the `body` of the
once) and atomic sites are `atomicOp` events. -/
structure Site.HoldsAt (s : Site) (tr : Trace) (t : Tid) (k : Nat) : Prop where
  lock : ∀ m, s.sync = .lock m → heldBy tr t (Tok.mu m) k = true
  after : ∀ o, s.sync = .afterOnce o → ∃ k', k' < k ∧ tr[k']? = some (t, Ev.onceDo o)
  notOnce : ∀ o, s.sync ≠ .once o
  notAtomic : s.sync ≠ .atomic

/-- the trace's accesses to variable `v` are instances of the table's sites (reads of a variable that
is never written are not listed in the table and need no site) -/
structure Realises (body : String → List String) (v : VarFact) (tr : Trace) : Prop where
  rd : ∀ (k : Nat) (t : Tid), tr[k]? = some (t, Ev.read v.qname) →
    v.readOnly = true ∨ ∃ s, s ∈ v.reads ∧ s.HoldsAt tr t k
  wr : ∀ (k : Nat) (t : Tid), tr[k]? = some (t, Ev.write v.qname) → ∃ s, s ∈ v.writes ∧ s.HoldsAt tr t k
  atom : ∀ (k : Nat) (t : Tid), tr[k]? = some (t, Ev.atomicOp v.qname) →
    ∃ s, (s ∈ v.writes ∨ s ∈ v.reads) ∧ s.sync = .atomic
  bd : ∀ o, v.qname ∈ body o → ∃ s, s ∈ v.writes ∧ s.sync = .once o

theorem disciplined_obeys (body : String → List String) (v : VarFact) (p : Prot) (tr : Trace)
    (hp : protOf v = some p) (hr : Realises body v tr) : ObeysAt body p tr v.qname := by
  unfold protOf at hp
  by_cases hro : v.readOnly = true
  · simp only [hro, if_true, Option.some.injEq] at hp
    subst hp
    simp only [VarFact.readOnly, Bool.and_eq_true, List.isEmpty_iff, List.all_eq_true] at hro
    obtain ⟨⟨hw, _⟩, hrd⟩ := hro
    refine ⟨?_, ?_, ?_, ?_, ?_, ?_, ?_, ?_, ?_⟩
    · intro k t tok _ h; cases h
    · intro k t o _ h; cases h
    · intro k t tok _ h; cases h
    · intro k t o h; obtain ⟨s, hs, _⟩ := hr.wr k t h; rw [hw] at hs; cases hs
    · intro k t h; obtain ⟨s, hs, _⟩ := hr.wr k t h; rw [hw] at hs; cases hs
    · intro o ho; obtain ⟨s, hs, _⟩ := hr.bd o ho; rw [hw] at hs; cases hs
    · intro k t _ h; cases h
    · intro k t _ h; cases h
    · intro k t h
      obtain ⟨s, hs, hsa⟩ := hr.atom k t h
      rcases hs with hs | hs
      · rw [hw] at hs; cases hs
      · have := hrd s hs; simp [hsa] at this
  · have hro' := hro
    simp only [hro, Bool.false_eq_true, if_false] at hp
    by_cases hon : v.onceDisciplined = true
    · simp only [hon, if_true] at hp
      cases hoo : v.onceOf with
      | none => rw [hoo] at hp; cases hp
      | some o =>
        rw [hoo] at hp; simp only [Option.map_some, Option.some.injEq] at hp; subst hp
        simp only [VarFact.onceDisciplined, hoo, Bool.and_eq_true, List.all_eq_true] at hon
        obtain ⟨hws, hrs⟩ := hon
        have wrAbs : ∀ (k : Nat) (t : Tid), tr[k]? = some (t, Ev.write v.qname) → False := by
          intro k t h
          obtain ⟨s, hs, hh⟩ := hr.wr k t h
          have := hws s hs
          simp only [Site.inOnce, beq_iff_eq] at this
          exact hh.notOnce o this
        refine ⟨?_, ?_, ?_, ?_, ?_, ?_, ?_, ?_, ?_⟩
        · intro k t tok _ h; cases h
        · intro k t o' h hb
          cases hb
          rcases hr.rd k t h with h0 | ⟨s, hs, hh⟩
          · exact absurd h0 hro'
          · have := hrs s hs
            simp only [Site.inOrAfterOnce, Bool.or_eq_true, beq_iff_eq] at this
            rcases this with h1 | h1
            · exact absurd h1 (hh.notOnce o)
            · exact hh.after o h1
        · intro k t tok _ h; cases h
        · intro k t o' h; exact (wrAbs k t h).elim
        · intro k t h; exact (wrAbs k t h).elim
        · intro o' ho'
          obtain ⟨s, hs, hso⟩ := hr.bd o' ho'
          have := hws s hs
          simp only [Site.inOnce, beq_iff_eq] at this
          rw [hso] at this; cases this; rfl
        · intro k t _ h; cases h
        · intro k t _ h; cases h
        · intro k t h
          obtain ⟨s, hs, hsa⟩ := hr.atom k t h
          rcases hs with hs | hs
          · have := hws s hs; simp [Site.inOnce, hsa] at this
          · have := hrs s hs; simp [Site.inOrAfterOnce, hsa] at this
    · simp only [hon, Bool.false_eq_true, if_false] at hp
      by_cases hld : v.lockDisciplined = true
      · simp only [hld, if_true] at hp
        cases hlo : v.lockOf with
        | none => rw [hlo] at hp; cases hp
        | some m =>
          rw [hlo] at hp; simp only [Option.map_some, Option.some.injEq] at hp; subst hp
          simp only [VarFact.lockDisciplined, hlo, Bool.and_eq_true, List.all_eq_true] at hld
          obtain ⟨hws, hrs⟩ := hld
          refine ⟨?_, ?_, ?_, ?_, ?_, ?_, ?_, ?_, ?_⟩
          · intro k t tok h hb
            cases hb
            rcases hr.rd k t h with h0 | ⟨s, hs, hh⟩
            · exact absurd h0 hro'
            · have := hrs s hs
              simp only [Site.underLock, beq_iff_eq] at this
              exact hh.lock m this
          · intro k t o _ h; cases h
          · intro k t tok h hb
            cases hb
            obtain ⟨s, hs, hh⟩ := hr.wr k t h
            have := hws s hs
            simp only [Site.underLock, beq_iff_eq] at this
            exact hh.lock m this
          · intro k t o _ h; cases h
          · intro k t _ h; cases h
          · intro o ho
            obtain ⟨s, hs, hso⟩ := hr.bd o ho
            have := hws s hs
            simp only [Site.underLock, beq_iff_eq] at this
            rw [hso] at this; cases this
          · intro k t _ h; cases h
          · intro k t _ h; cases h
          · intro k t h
            obtain ⟨s, hs, hsa⟩ := hr.atom k t h
            rcases hs with hs | hs
            · have := hws s hs; simp [Site.underLock, hsa] at this
            · have := hrs s hs; simp [Site.underLock, hsa] at this
      · simp only [hld, Bool.false_eq_true, if_false] at hp
        by_cases had : v.atomicDisciplined = true
        · simp only [had, if_true, Option.some.injEq] at hp
          subst hp
          simp only [VarFact.atomicDisciplined, Bool.and_eq_true, List.all_eq_true, beq_iff_eq] at had
          obtain ⟨⟨_, hws⟩, hrs⟩ := had
          have rdAbs : ∀ (k : Nat) (t : Tid), tr[k]? = some (t, Ev.read v.qname) → False := by
            intro k t h
            rcases hr.rd k t h with h0 | ⟨s, hs, hh⟩
            · exact absurd h0 hro'
            · exact hh.notAtomic (hrs s hs)
          have wrAbs : ∀ (k : Nat) (t : Tid), tr[k]? = some (t, Ev.write v.qname) → False := by
            intro k t h
            obtain ⟨s, hs, hh⟩ := hr.wr k t h
            exact hh.notAtomic (hws s hs)
          refine ⟨?_, ?_, ?_, ?_, ?_, ?_, ?_, ?_, ?_⟩
          · intro k t tok _ h; cases h
          · intro k t o _ h; cases h
          · intro k t tok _ h; cases h
          · intro k t o _ h; cases h
          · intro k t _ h; cases h
          · intro o ho
            obtain ⟨s, hs, hso⟩ := hr.bd o ho
            have := hws s hs
            rw [hso] at this; cases this
          · intro k t h; exact (rdAbs k t h).elim
          · intro k t h; exact (wrAbs k t h).elim
          · intro k t _; rfl
        · simp [had] at hp

end Canvas.C20
