import CanvasProofs.Lemmas.C08

/-! # C08 — arcs: extreme box of the ellipse, attainment, and FastBounds ⊇ Bounds step by step

An arc point is `(cx + rx·c·C − ry·s·S, cy + rx·c·S + ry·s·C)` with `(c,s)` the cosine/sine of the
eccentric angle and `(C,S)` those of the rotation. Everything here is algebra over an ordered field;
the trigonometric functions enter only through `c²+s² = 1` and the square root through
`√x·√x = x`, `0 ≤ √x`. -/
set_option linter.unusedSectionVars false
set_option linter.unusedVariables false
namespace C08
open Canvas Canvas.C08 GenK
variable {K : Type} [Field K] [LinearOrder K] [IsStrictOrderedRing K] [Env K] [ArcFns K]

theorem abs_le_of_mul_self_le (v D : K) (hD : 0 ≤ D) (h : v * v ≤ D * D) : |v| ≤ D := by
  rw [abs_le]
  constructor
  · by_contra hc
    rw [not_le] at hc
    nlinarith [mul_pos (by linarith : 0 < -v - D) (by linarith : 0 < -v + D + 0 * D + (D - D) + (-v - D) + 2 * D)]
  · by_contra hc
    rw [not_le] at hc
    nlinarith [mul_pos (by linarith : 0 < v - D) (by linarith : (0:K) < v + D)]

/-- Cauchy–Schwarz: no point of the ellipse is further than `dx = √(rx²C² + ry²S²)` from the centre in
x, nor than `dy = √(rx²S² + ry²C²)` in y — the four values `cx ± dx`, `cy ± dy` that `Bounds` applies
are outer bounds of the whole ellipse. -/
theorem arc_extreme_box (rx ry c s C S Dx Dy : K) (h1 : c * c + s * s = 1)
    (hDx : Dx * Dx = rx * rx * C * C + ry * ry * S * S) (hDx0 : 0 ≤ Dx)
    (hDy : Dy * Dy = rx * rx * S * S + ry * ry * C * C) (hDy0 : 0 ≤ Dy) :
    |rx * c * C - ry * s * S| ≤ Dx ∧ |rx * c * S + ry * s * C| ≤ Dy := by
  constructor
  · apply abs_le_of_mul_self_le _ _ hDx0
    nlinarith [mul_self_nonneg (rx * C * s + ry * S * c)]
  · apply abs_le_of_mul_self_le _ _ hDy0
    nlinarith [mul_self_nonneg (rx * S * s - ry * C * c)]

/-- …and they are attained: at the direction `(sinθ, cosθ) ∝ (−ry·S, rx·C)` — the one
`thetaRight = atan2(−ry·sinφ, rx·cosφ)` denotes — x equals `cx + dx`; at `(ry·C, rx·S)` — the corrected
`thetaTop = atan2(ry·cosφ, rx·sinφ)` — y equals `cy + dy`. -/
theorem arc_extreme_attained (rx ry C S Dx Dy : K)
    (hDx : Dx * Dx = rx * rx * C * C + ry * ry * S * S) (hDx0 : Dx ≠ 0)
    (hDy : Dy * Dy = rx * rx * S * S + ry * ry * C * C) (hDy0 : Dy ≠ 0) :
    ((rx * C / Dx) * (rx * C / Dx) + (-ry * S / Dx) * (-ry * S / Dx) = 1 ∧
      rx * (rx * C / Dx) * C - ry * (-ry * S / Dx) * S = Dx) ∧
    ((rx * S / Dy) * (rx * S / Dy) + (ry * C / Dy) * (ry * C / Dy) = 1 ∧
      rx * (rx * S / Dy) * S + ry * (ry * C / Dy) * C = Dy) := by
  refine ⟨⟨?_, ?_⟩, ⟨?_, ?_⟩⟩ <;> field_simp <;> nlinarith [hDx, hDy]

theorem extreme_le_radius (rx ry C S D : K) (hrx : 0 ≤ rx) (hry : 0 ≤ ry) (h2 : C * C + S * S = 1)
    (hD : D * D = rx * rx * C * C + ry * ry * S * S) (hD0 : 0 ≤ D) : D ≤ max rx ry := by
  have hm : 0 ≤ max rx ry := hrx.trans (le_max_left _ _)
  have a1 : rx * rx ≤ max rx ry * max rx ry := mul_self_le_mul_self hrx (le_max_left _ _)
  have a2 : ry * ry ≤ max rx ry * max rx ry := mul_self_le_mul_self hry (le_max_right _ _)
  have : |D| ≤ max rx ry := by
    apply abs_le_of_mul_self_le _ _ hm
    nlinarith [mul_nonneg (sub_nonneg.2 a1) (mul_self_nonneg C), mul_nonneg (sub_nonneg.2 a2) (mul_self_nonneg S)]
  exact (le_abs_self D).trans this

/-! ## FastBounds ⊇ Bounds, one command at a time, for every segment kind -/

/-- what an arc command must satisfy at its position in the path: non-negative radii, `sincos` on the
unit circle, `sqrt` exact on the two radicands, and the end point within `max rx ry` of the centre
`ellipseToCenter` computes (true for every point of the ellipse: `ellipse_in_radius_box`). -/
def SegOk (start : Pt K) : Cmd K → Prop
  | .A rx ry phi l sw p =>
    0 ≤ rx ∧ 0 ≤ ry ∧
    (Ops.sincos phi).2 * (Ops.sincos phi).2 + (Ops.sincos phi).1 * (Ops.sincos phi).1 = (1 : K) ∧
    (∀ x : K, 0 ≤ x → Env.sqrt x * Env.sqrt x = x ∧ 0 ≤ Env.sqrt x) ∧
    |p.x - (ellipseToCenter start.x start.y rx ry phi l sw p.x p.y).1| ≤ max rx ry ∧
    |p.y - (ellipseToCenter start.x start.y rx ry phi l sw p.x p.y).2.1| ≤ max rx ry
  | _ => True

def PathOk (start : Pt K) : List (Cmd K) → Prop
  | [] => True
  | c :: cs => SegOk start c ∧ PathOk c.endPt cs

/-- the FastBounds state encloses the Bounds state, both at the same current point, which the
FastBounds state contains -/
def Sim (sf sb : St K) : Prop :=
  sf.start = sb.start ∧ sf.xmin ≤ sb.xmin ∧ sb.xmax ≤ sf.xmax ∧ sf.ymin ≤ sb.ymin ∧ sb.ymax ≤ sf.ymax ∧ StIn sf sf.start

theorem ite_ge (b : Bool) (a c m : K) (h1 : m ≤ a) (h2 : m ≤ c) : m ≤ (if b = true then min a c else a) := by
  split
  · exact le_min h1 h2
  · exact h1
theorem ite_le (b : Bool) (a c m : K) (h1 : a ≤ m) (h2 : c ≤ m) : (if b = true then max a c else a) ≤ m := by
  split
  · exact max_le h1 h2
  · exact h1

theorem step_sim (hε : 0 ≤ (Env.epsilon : K)) (sw : Bool) (sf sb : St K) (c : Cmd K) (hc : SegOk sb.start c)
    (h : Sim sf sb) : Sim (fastStepG max sf c) (boundsStepG sw sb c) := by
  obtain ⟨hst, h1, h2, h3, h4, hin⟩ := h
  have hstart : (fastStepG max sf c).start = (boundsStepG sw sb c).start := by
    rw [(fastStepG_good (K := K) max).start_eq, boundsStep_start]
  cases c with
  | A rx ry phi l sw' p =>
    obtain ⟨hrx, hry, htrig, hsq, hpx, hpy⟩ := hc
    have hm : 0 ≤ max rx ry := hrx.trans (le_max_left _ _)
    rw [abs_le] at hpx hpy
    have dxs := hsq (rx * rx * (Ops.sincos phi).2 * (Ops.sincos phi).2 + ry * ry * (Ops.sincos phi).1 * (Ops.sincos phi).1)
      (by nlinarith [mul_nonneg (mul_self_nonneg rx) (mul_self_nonneg (Ops.sincos phi : K × K).2), mul_nonneg (mul_self_nonneg ry) (mul_self_nonneg (Ops.sincos phi : K × K).1)])
    have dys := hsq (rx * rx * (Ops.sincos phi).1 * (Ops.sincos phi).1 + ry * ry * (Ops.sincos phi).2 * (Ops.sincos phi).2)
      (by nlinarith [mul_nonneg (mul_self_nonneg rx) (mul_self_nonneg (Ops.sincos phi : K × K).1), mul_nonneg (mul_self_nonneg ry) (mul_self_nonneg (Ops.sincos phi : K × K).2)])
    have dx := extreme_le_radius rx ry (Ops.sincos phi).2 (Ops.sincos phi).1 _ hrx hry htrig dxs.1 dxs.2
    have dy := extreme_le_radius rx ry (Ops.sincos phi).1 (Ops.sincos phi).2 _ hrx hry (by linarith [htrig]) dys.1 dys.2
    refine ⟨hstart, ?_, ?_, ?_, ?_, ?_⟩
    all_goals simp only [fastStepG, boundsStepG, StIn, ops_mn, ops_mx, ops_sqrt, hst]
    · exact le_min (ite_ge _ _ _ _ ((min_le_left _ _).trans h1) ((min_le_right _ _).trans (by linarith)))
        ((min_le_right _ _).trans (by linarith [hpx.1]))
    · exact max_le (ite_le _ _ _ _ (h2.trans (le_max_left _ _)) (le_trans (by linarith) (le_max_right _ _)))
        (le_trans (by linarith [hpx.2]) (le_max_right _ _))
    · exact le_min (ite_ge _ _ _ _ ((min_le_left _ _).trans h3) ((min_le_right _ _).trans (by linarith)))
        ((min_le_right _ _).trans (by linarith [hpy.1]))
    · exact max_le (ite_le _ _ _ _ (h4.trans (le_max_left _ _)) (le_trans (by linarith) (le_max_right _ _)))
        (le_trans (by linarith [hpy.2]) (le_max_right _ _))
    · exact ⟨(min_le_right _ _).trans (by linarith [hpx.1]), le_trans (by linarith [hpx.2]) (le_max_right _ _),
        (min_le_right _ _).trans (by linarith [hpy.1]), le_trans (by linarith [hpy.2]) (le_max_right _ _)⟩
  | M p =>
    refine ⟨hstart, ?_, ?_, ?_, ?_, by simp [fastStepG, StIn]⟩ <;> simp only [fastStepG, boundsStepG, ops_mn, ops_mx]
    · exact min_le_min h1 (le_refl _)
    · exact max_le_max h2 (le_refl _)
    · exact min_le_min h3 (le_refl _)
    · exact max_le_max h4 (le_refl _)
  | L p =>
    refine ⟨hstart, ?_, ?_, ?_, ?_, by simp [fastStepG, StIn]⟩ <;> simp only [fastStepG, boundsStepG, ops_mn, ops_mx]
    · exact min_le_min h1 (le_refl _)
    · exact max_le_max h2 (le_refl _)
    · exact min_le_min h3 (le_refl _)
    · exact max_le_max h4 (le_refl _)
  | Z p =>
    refine ⟨hstart, ?_, ?_, ?_, ?_, by simp [fastStepG, StIn]⟩ <;> simp only [fastStepG, boundsStepG, ops_mn, ops_mx]
    · exact min_le_min h1 (le_refl _)
    · exact max_le_max h2 (le_refl _)
    · exact min_le_min h3 (le_refl _)
    · exact max_le_max h4 (le_refl _)
  | Q cp p =>
    have g := fastStepG_good (K := K) max
    have ok : FastOk (max : K → K → K) (.Q cp p) := ⟨rfl, fun h => by simp [Cmd.isCube] at h⟩
    have pe := g.endIn sf (.Q cp p) ok hin
    have pc : ∀ t, 0 < t → t < 1 → StIn (fastStepG max sf (.Q cp p)) (quadraticBezierPos sb.start cp p t) :=
      fun t t0 t1 => g.seg sf _ _ ok hin (by rw [hst]; exact ⟨t, t0.le, t1.le, rfl⟩)
    have l1 : (fastStepG max sf (.Q cp p)).xmin ≤ sb.xmin := (min_le_left _ _).trans h1
    have l2 : sb.xmax ≤ (fastStepG max sf (.Q cp p)).xmax := h2.trans (le_max_left _ _)
    have l3 : (fastStepG max sf (.Q cp p)).ymin ≤ sb.ymin := (min_le_left _ _).trans h3
    have l4 : sb.ymax ≤ (fastStepG max sf (.Q cp p)).ymax := h4.trans (le_max_left _ _)
    exact ⟨hstart,
      (quadAxis_sel hε sb.start.x cp.x p.x (fun t => (Ops.quadPos sb.start cp p t).x) sb.xmin sb.xmax
        (fun v => (fastStepG max sf (.Q cp p)).xmin ≤ v) pe.1 (fun t t0 t1 => (pc t t0 t1).1)).1 l1,
      (quadAxis_sel hε sb.start.x cp.x p.x (fun t => (Ops.quadPos sb.start cp p t).x) sb.xmin sb.xmax
        (fun v => v ≤ (fastStepG max sf (.Q cp p)).xmax) pe.2.1 (fun t t0 t1 => (pc t t0 t1).2.1)).2 l2,
      (quadAxis_sel hε sb.start.y cp.y p.y (fun t => (Ops.quadPos sb.start cp p t).y) sb.ymin sb.ymax
        (fun v => (fastStepG max sf (.Q cp p)).ymin ≤ v) pe.2.2.1 (fun t t0 t1 => (pc t t0 t1).2.2.1)).1 l3,
      (quadAxis_sel hε sb.start.y cp.y p.y (fun t => (Ops.quadPos sb.start cp p t).y) sb.ymin sb.ymax
        (fun v => v ≤ (fastStepG max sf (.Q cp p)).ymax) pe.2.2.2 (fun t t0 t1 => (pc t t0 t1).2.2.2)).2 l4,
      pe⟩
  | C cp1 cp2 p =>
    have g := fastStepG_good (K := K) max
    have ok : FastOk (max : K → K → K) (.C cp1 cp2 p) := ⟨rfl, fun _ a b => ⟨le_max_left a b, le_max_right a b⟩⟩
    have pe := g.endIn sf (.C cp1 cp2 p) ok hin
    have pc : ∀ t, 0 < t → t < 1 → StIn (fastStepG max sf (.C cp1 cp2 p)) (cubicBezierPos sb.start cp1 cp2 p t) :=
      fun t t0 t1 => g.seg sf _ _ ok hin (by rw [hst]; exact ⟨t, t0.le, t1.le, rfl⟩)
    have l1 : (fastStepG max sf (.C cp1 cp2 p)).xmin ≤ sb.xmin := (min_le_left _ _).trans h1
    have l2 : sb.xmax ≤ (fastStepG max sf (.C cp1 cp2 p)).xmax := h2.trans (le_max_left _ _)
    have l3 : (fastStepG max sf (.C cp1 cp2 p)).ymin ≤ sb.ymin := (min_le_left _ _).trans h3
    have l4 : sb.ymax ≤ (fastStepG max sf (.C cp1 cp2 p)).ymax := h4.trans (le_max_left _ _)
    exact ⟨hstart,
      (cubeAxis_sel hε sb.start.x cp1.x cp2.x p.x (fun t => (Ops.cubePos sb.start cp1 cp2 p t).x) sb.xmin sb.xmax
        (fun v => (fastStepG max sf (.C cp1 cp2 p)).xmin ≤ v) pe.1 (fun t t0 t1 => (pc t t0 t1).1)).1 l1,
      (cubeAxis_sel hε sb.start.x cp1.x cp2.x p.x (fun t => (Ops.cubePos sb.start cp1 cp2 p t).x) sb.xmin sb.xmax
        (fun v => v ≤ (fastStepG max sf (.C cp1 cp2 p)).xmax) pe.2.1 (fun t t0 t1 => (pc t t0 t1).2.1)).2 l2,
      (cubeAxis_sel hε sb.start.y cp1.y cp2.y p.y (fun t => (Ops.cubePos sb.start cp1 cp2 p t).y) sb.ymin sb.ymax
        (fun v => (fastStepG max sf (.C cp1 cp2 p)).ymin ≤ v) pe.2.2.1 (fun t t0 t1 => (pc t t0 t1).2.2.1)).1 l3,
      (cubeAxis_sel hε sb.start.y cp1.y cp2.y p.y (fun t => (Ops.cubePos sb.start cp1 cp2 p t).y) sb.ymin sb.ymax
        (fun v => v ≤ (fastStepG max sf (.C cp1 cp2 p)).ymax) pe.2.2.2 (fun t t0 t1 => (pc t t0 t1).2.2.2)).2 l4,
      pe⟩

/-- FastBounds ⊇ Bounds for EVERY path — lines, quadratics, cubics and arcs, any number of subpaths,
any Epsilon ≥ 0 — by simulation of the two folds. -/
theorem fold_sim (hε : 0 ≤ (Env.epsilon : K)) (sw : Bool) (cs : List (Cmd K)) (sf sb : St K)
    (hok : PathOk sb.start cs) (h : Sim sf sb) :
    Sim (cs.foldl (fastStepG max) sf) (cs.foldl (boundsStepG sw) sb) := by
  induction cs generalizing sf sb with
  | nil => exact h
  | cons c cs ih =>
    refine ih _ _ ?_ (step_sim hε sw sf sb c hok.1 h)
    rw [boundsStep_start]; exact hok.2

theorem run_sim (hε : 0 ≤ (Env.epsilon : K)) (sw : Bool) (cs : List (Cmd K))
    (hok : ∀ c cs', cs = c :: cs' → PathOk c.firstPt cs') :
    (run (fastStepG max) cs).x0 ≤ (run (boundsStepG sw) cs).x0 ∧ (run (boundsStepG sw) cs).x1 ≤ (run (fastStepG max) cs).x1 ∧
    (run (fastStepG max) cs).y0 ≤ (run (boundsStepG sw) cs).y0 ∧ (run (boundsStepG sw) cs).y1 ≤ (run (fastStepG max) cs).y1 := by
  cases cs with
  | nil => simp [run]
  | cons c cs =>
    have h := fold_sim hε sw cs (St.init c.firstPt) (St.init c.firstPt) (hok c cs rfl)
      ⟨rfl, le_refl _, le_refl _, le_refl _, le_refl _, stIn_init _⟩
    exact ⟨h.2.1, h.2.2.1, h.2.2.2.1, h.2.2.2.2.1⟩

end C08
