import CanvasModel.C05
import Mathlib.Algebra.Order.Field.Basic
import Mathlib.Tactic.Ring
import Mathlib.Tactic.Linarith

/-! Helper lemmas for C05 (dashing). -/
set_option linter.unusedSectionVars false
namespace C05L
open Canvas.C05

/-! ### index bookkeeping (ℕ) -/

theorem wrap (n J : Nat) (hn : 0 < n) : (if J % n + 1 = n then 0 else J % n + 1) = (J + 1) % n := by
  have h1 : J % n < n := Nat.mod_lt _ hn
  have e : (J + 1) % n = (J % n + 1) % n := (Nat.mod_add_mod J n 1).symm
  rw [e]
  split
  · next h => rw [h, Nat.mod_self]
  · next h => rw [Nat.mod_eq_of_lt (show J % n + 1 < n by omega)]

theorem mem_stepTwo (bound : Nat) : ∀ (fuel j k : Nat), bound ≤ j + 2 * fuel →
    (k ∈ stepTwo bound fuel j ↔ j ≤ k ∧ k < bound ∧ (k - j) % 2 = 0) := by
  intro fuel
  induction fuel with
  | zero => intro j k h; simp [stepTwo]; omega
  | succ f ih =>
    intro j k h
    unfold stepTwo
    split
    · next hj =>
      rw [List.mem_cons, ih (j + 2) k (by omega)]
      omega
    · next hj => simp; omega

variable {K : Type} [Field K] [LinearOrder K] [IsStrictOrderedRing K]

theorem equal_zero_iff (a b : K) : equal 0 a b = true ↔ a = b := by
  unfold equal
  split
  · next h => simp only [decide_eq_true_eq]; constructor <;> intro h' <;> linarith
  · next h =>
    simp only [decide_eq_true_eq]
    constructor
    · intro h'; exact le_antisymm (by linarith) (not_lt.mp h)
    · intro h'; rw [h']; simp

/-! ### pattern semantics -/

theorem cyc_nonneg (d : List K) (h : ∀ x ∈ d, 0 ≤ x) (j : Nat) : 0 ≤ cyc d j := by
  unfold cyc
  rw [List.getD_eq_getElem?_getD]
  cases hh : d[j % d.length]? with
  | none => simp
  | some v => simp only [Option.getD_some]; exact h v (List.mem_of_getElem? hh)

theorem cyc_pos (d : List K) (hne : d ≠ []) (h : ∀ x ∈ d, 0 < x) (j : Nat) : 0 < cyc d j := by
  unfold cyc
  have hl : 0 < d.length := List.length_pos_iff.mpr hne
  have : j % d.length < d.length := Nat.mod_lt _ hl
  rw [List.getD_eq_getElem?_getD, List.getElem?_eq_getElem this]
  exact h _ (List.getElem_mem this)

theorem getElem?_cyc (d : List K) (hne : d ≠ []) (J : Nat) : d[J % d.length]? = some (cyc d J) := by
  have hl : 0 < d.length := List.length_pos_iff.mpr hne
  have : J % d.length < d.length := Nat.mod_lt _ hl
  unfold cyc
  rw [List.getD_eq_getElem?_getD, List.getElem?_eq_getElem this]; rfl

theorem pre_succ (d : List K) (j : Nat) : pre d (j + 1) = pre d j + cyc d j := rfl

theorem pre_mono (d : List K) (h : ∀ x ∈ d, 0 ≤ x) (i j : Nat) (hij : i ≤ j) : pre d i ≤ pre d j := by
  induction hij with
  | refl => exact le_refl _
  | step _ ih => rw [pre_succ]; have := cyc_nonneg d h ‹_›; linarith

theorem cyc_add_length (d : List K) (j : Nat) : cyc d (j + d.length) = cyc d j := by
  unfold cyc; rw [Nat.add_mod_right]

theorem pre_add_length (d : List K) (j : Nat) : pre d (j + d.length) = pre d j + period d := by
  induction j with
  | zero => simp [period, pre]
  | succ j ih =>
    rw [show j + 1 + d.length = (j + d.length) + 1 by omega, pre_succ, pre_succ, ih, cyc_add_length]
    ring

theorem pre_add_mul_length (d : List K) (j m : Nat) : pre d (j + m * d.length) = pre d j + pre d (m * d.length) := by
  induction m with
  | zero => simp [pre]
  | succ m ih =>
    rw [show j + (m + 1) * d.length = (j + m * d.length) + d.length by rw [Nat.succ_mul]; omega,
      pre_add_length, ih, show (m + 1) * d.length = m * d.length + d.length by rw [Nat.succ_mul],
      pre_add_length]
    ring

/-! ### dashStart -/

theorem dashStartLoop_spec (d : List K) (hne : d ≠ []) (_hnn : ∀ x ∈ d, 0 ≤ x) :
    ∀ (fuel J : Nat) (off : K) (i : Nat) (off' : K), 0 ≤ off →
      dashStartLoop d fuel (J % d.length) off = some (i, off') →
      ∃ J', J' % d.length = i ∧ J ≤ J' ∧ off + pre d J = off' + pre d J' ∧ 0 ≤ off' ∧ off' < cyc d J' := by
  intro fuel
  induction fuel with
  | zero => intro J off i off' _ h; simp [dashStartLoop] at h
  | succ f ih =>
    intro J off i off' h0 h
    unfold dashStartLoop at h
    rw [getElem?_cyc d hne J] at h
    simp only at h
    split at h
    · next hle =>
      rw [wrap _ _ (List.length_pos_iff.mpr hne)] at h
      obtain ⟨J', e1, e2, e3, e4, e5⟩ := ih (J + 1) (off - cyc d J) i off' (by linarith) h
      exact ⟨J', e1, by omega, by rw [pre_succ] at e3; linarith, e4, e5⟩
    · next hnle =>
      simp only [Option.some.injEq, Prod.mk.injEq] at h
      obtain ⟨rfl, rfl⟩ := h
      exact ⟨J, rfl, le_refl _, rfl, h0, not_le.mp hnle⟩

theorem dashStartLoop_terminates (d : List K) (hne : d ≠ []) (m : K) (hm : 0 < m) (hd : ∀ x ∈ d, m ≤ x) :
    ∀ (fuel J : Nat) (off : K), off < (fuel : K) * m →
      (dashStartLoop d (fuel + 1) (J % d.length) off).isSome = true := by
  have hc : ∀ j, m ≤ cyc d j := by
    intro j
    have hl : 0 < d.length := List.length_pos_iff.mpr hne
    have : j % d.length < d.length := Nat.mod_lt _ hl
    unfold cyc
    rw [List.getD_eq_getElem?_getD, List.getElem?_eq_getElem this]
    exact hd _ (List.getElem_mem this)
  intro fuel
  induction fuel with
  | zero =>
    intro J off h
    unfold dashStartLoop
    rw [getElem?_cyc d hne J]
    simp only
    split
    · next hle => exfalso; have := hc J; simp only [Nat.cast_zero, zero_mul] at h; linarith
    · rfl
  | succ f ih =>
    intro J off h
    unfold dashStartLoop
    rw [getElem?_cyc d hne J]
    simp only
    split
    · next hle =>
      rw [wrap _ _ (List.length_pos_iff.mpr hne)]
      apply ih
      have := hc J
      have e : ((f + 1 : ℕ) : K) * m = (f : K) * m + m := by push_cast; ring
      rw [e] at h
      linarith
    · rfl

/-! ### the position loop of Dash -/

/-- path position at which the `k`-th piece of the walk starts (the walk starts with piece `J` at `pos`) -/
def cpos (d : List K) (J : Nat) (pos : K) (k : Nat) : K := pos + (pre d (J + k) - pre d J)

theorem cpos_zero (d : List K) (J : Nat) (pos : K) : cpos d J pos 0 = pos := by
  simp [cpos]

theorem cpos_succ (d : List K) (J : Nat) (pos : K) (k : Nat) :
    cpos d J pos (k + 1) = cpos d J pos k + cyc d (J + k) := by
  unfold cpos; rw [show J + (k + 1) = (J + k) + 1 by omega, pre_succ]; ring

theorem cpos_shift (d : List K) (J : Nat) (pos : K) (k : Nat) :
    cpos d (J + 1) (pos + cyc d J) k = cpos d J pos (k + 1) := by
  unfold cpos; rw [show J + 1 + k = J + (k + 1) by omega, pre_succ]; ring

theorem positionsLoop_spec (eps : K) (d : List K) (hne : d ≠ []) (length : K) :
    ∀ (fuel J : Nat) (pos : K) (acc t : List K) (iEnd : Nat),
      positionsLoop eps d length fuel (J % d.length) pos acc = some (t, iEnd) →
      ∃ m, iEnd = (J + m) % d.length ∧
        t = acc ++ ((List.range m).map (fun k => cpos d J pos (k + 1))).filter (fun x => decide (0 < x)) ∧
        (∀ k < m, cpos d J pos k + cyc d (J + k) + eps < length) ∧
        ¬ (cpos d J pos m + cyc d (J + m) + eps < length) := by
  intro fuel
  induction fuel with
  | zero => intro J pos acc t iEnd h; simp [positionsLoop] at h
  | succ f ih =>
    intro J pos acc t iEnd h
    unfold positionsLoop at h
    rw [getElem?_cyc d hne J] at h
    simp only at h
    split at h
    · next hlt =>
      rw [wrap _ _ (List.length_pos_iff.mpr hne)] at h
      obtain ⟨m', e1, e2, e3, e4⟩ := ih (J + 1) _ _ t iEnd h
      refine ⟨m' + 1, by rw [e1]; congr 1; omega, ?_, ?_, ?_⟩
      · rw [e2, List.range_succ_eq_map, List.map_cons, List.map_map, List.filter_cons]
        have hf : (fun k => cpos d (J + 1) (pos + cyc d J) (k + 1)) = ((fun k => cpos d J pos (k + 1)) ∘ Nat.succ) := by
          funext k; simp only [Function.comp, Nat.succ_eq_add_one]; exact cpos_shift d J pos (k + 1)
        have h1 : cpos d J pos (0 + 1) = pos + cyc d J := by rw [cpos_succ, cpos_zero]; simp
        rw [hf, h1]
        by_cases hp : 0 < pos + cyc d J
        · simp [hp]
        · simp [hp]
      · intro k hk
        cases k with
        | zero => rw [cpos_zero]; simpa using hlt
        | succ k =>
          have := e3 k (by omega)
          rw [cpos_shift, show J + 1 + k = J + (k + 1) by omega] at this
          exact this
      · rw [cpos_shift, show J + 1 + m' = J + (m' + 1) by omega] at e4
        exact e4
    · next hnlt =>
      simp only [Option.some.injEq, Prod.mk.injEq] at h
      obtain ⟨rfl, rfl⟩ := h
      exact ⟨0, by simp, by simp, by intro k hk; omega, by rw [cpos_zero]; simpa using hnlt⟩

theorem pre_strictMono (d : List K) (hne : d ≠ []) (h : ∀ x ∈ d, 0 < x) (i j : Nat) (hij : i < j) : pre d i < pre d j := by
  induction hij with
  | refl => rw [pre_succ]; have := cyc_pos d hne h i; linarith
  | step _ ih => rw [pre_succ]; have := cyc_pos d hne h ‹_›; linarith

theorem cpos_strictMono (d : List K) (hne : d ≠ []) (h : ∀ x ∈ d, 0 < x) (J : Nat) (pos : K) (a b : Nat) (hab : a < b) :
    cpos d J pos a < cpos d J pos b := by
  unfold cpos
  have := pre_strictMono d hne h (J + a) (J + b) (by omega)
  linarith

/-! ### uniqueness of the piece containing a phase; period shifts -/

theorem inPiece_unique (d : List K) (hnn : ∀ x ∈ d, 0 ≤ x) (j j' : Nat) (φ : K)
    (h : InPiece d j φ) (h' : InPiece d j' φ) : j = j' := by
  unfold InPiece at h h'
  rcases Nat.lt_trichotomy j j' with hlt | heq | hgt
  · have := pre_mono d hnn (j + 1) j' (by omega); linarith [h.2, h'.1]
  · exact heq
  · have := pre_mono d hnn (j' + 1) j (by omega); linarith [h.1, h'.2]

theorem inPiece_shift (d : List K) (j m : Nat) (φ : K) (h : InPiece d j φ) :
    InPiece d (j + m * d.length) (φ + pre d (m * d.length)) := by
  unfold InPiece at h ⊢
  rw [show j + m * d.length + 1 = (j + 1) + m * d.length by omega, pre_add_mul_length, pre_add_mul_length]
  constructor <;> linarith [h.1, h.2]

theorem add_mul_even_mod (j m n : Nat) (hn : n % 2 = 0) : (j + m * n) % 2 = j % 2 := by
  obtain ⟨c, hc⟩ : ∃ c, n = 2 * c := ⟨n / 2, by omega⟩
  subst hc
  rw [show m * (2 * c) = 2 * (m * c) by ring]
  omega

/-- Once a phase (shifted by whole periods) is known to lie in piece `j`, being drawn is the parity of `j`. -/
theorem drawnE_iff_of_inPiece (d : List K) (hnn : ∀ x ∈ d, 0 ≤ x) (heven : d.length % 2 = 0)
    (j M : Nat) (φ : K) (h : InPiece d j (φ + pre d (M * d.length))) : DrawnE d φ ↔ j % 2 = 0 := by
  constructor
  · rintro ⟨m', j', hj', hin⟩
    have a := inPiece_shift d j m' _ h
    have b := inPiece_shift d j' M _ hin
    have e : φ + pre d (M * d.length) + pre d (m' * d.length) = φ + pre d (m' * d.length) + pre d (M * d.length) := by ring
    rw [e] at a
    have := inPiece_unique d hnn _ _ _ a b
    have h1 := add_mul_even_mod j m' d.length heven
    have h2 := add_mul_even_mod j' M d.length heven
    omega
  · intro hj; exact ⟨M, j, hj, h⟩

theorem reduceRepeat_mem (fuel : Nat) : ∀ (d : List K) (y : K), y ∈ reduceRepeat 0 fuel d → y ∈ d := by
  induction fuel with
  | zero => intro d y h; simpa [reduceRepeat] using h
  | succ f ih =>
    intro d y h
    unfold reduceRepeat at h
    split at h
    · simp only at h
      split at h
      · exact List.mem_of_mem_take (ih _ y h)
      · exact h
    · exact h

end C05L
