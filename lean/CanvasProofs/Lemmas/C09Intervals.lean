import CanvasModel.C09.Intervals
import Mathlib.Algebra.Order.Field.Basic
import Mathlib.Tactic.Ring
import Mathlib.Tactic.Linarith
/-!
C09 helper lemmas: the interval-walk specification of SplitAt over an ordered field with exact
arithmetic: the piece lengths sum to the path length for ANY positions; the k-th piece boundary lies at
arc length t_k; sorted positive positions are consumed exactly up to the path length.
-/
namespace C09L
open Canvas Canvas.Path Canvas.C09
set_option linter.unusedSectionVars false
variable {K : Type} [Field K] [LinearOrder K] [IsStrictOrderedRing K]

/-- the scalar operations of `O` are the exact field operations and order -/
structure ExactOps (O : SplitOps K) : Prop where
  zero : O.zero = 0
  add : ∀ a b, O.add a b = a + b
  sub : ∀ a b, O.sub a b = a - b
  lt : ∀ a b, O.lt a b = decide (a < b)
  le : ∀ a b, O.le a b = decide (a ≤ b)

def ivLen (iv : Iv K) : K := iv.b - iv.a
def pieceLen (p : List (Iv K)) : K := (p.map ivLen).sum
def totalLen (ps : List (List (Iv K))) : K := (ps.map pieceLen).sum

/-- arc length at the end of every finished piece, newest first -/
def boundaries : List (List (Iv K)) → List K
  | [] => []
  | p :: rest => totalLen (p :: rest) :: boundaries rest

@[simp] theorem pieceLen_nil : pieceLen ([] : List (Iv K)) = 0 := rfl
@[simp] theorem pieceLen_cons (iv : Iv K) (p : List (Iv K)) : pieceLen (iv :: p) = (iv.b - iv.a) + pieceLen p := by
  simp [pieceLen, ivLen]
@[simp] theorem totalLen_nil : totalLen ([] : List (List (Iv K))) = 0 := rfl
@[simp] theorem totalLen_cons (p : List (Iv K)) (ps : List (List (Iv K))) :
    totalLen (p :: ps) = pieceLen p + totalLen ps := by
  simp [totalLen]

variable {O : SplitOps K}

/-- the cuts of one record: Φ = total(done) + len(cur) − last is invariant; every push lands at
`Φ + (t − T)`; the consumed positions are recorded -/
theorem ivCut_fold (hO : ExactOps O) (i : Nat) (T : K) (ts : List K) (st : IState K) (last : K) :
    let r := ts.foldl (ivCut O i T) (st, last)
    totalLen r.1.done + pieceLen r.1.cur - r.2 = totalLen st.done + pieceLen st.cur - last ∧
    r.1.rem = st.rem ∧ r.1.T = st.T ∧
    r.1.consumed = ts.reverse ++ st.consumed ∧
    boundaries r.1.done =
      (ts.reverse.map fun t => totalLen st.done + pieceLen st.cur - last + (t - T)) ++ boundaries st.done ∧
    r.1.done.length = st.done.length + ts.length := by
  induction ts generalizing st last with
  | nil => simp
  | cons t ts ih =>
    have h := ih (ivCut O i T (st, last) t).1 (ivCut O i T (st, last) t).2
    have hd : (ivCut O i T (st, last) t).1.done = (⟨i, last, t - T⟩ :: st.cur) :: st.done := by
      simp [ivCut, hO.sub]
    have hc : (ivCut O i T (st, last) t).1.cur = [] := rfl
    have hr : (ivCut O i T (st, last) t).1.rem = st.rem := rfl
    have hT : (ivCut O i T (st, last) t).1.T = st.T := rfl
    have hcons : (ivCut O i T (st, last) t).1.consumed = t :: st.consumed := rfl
    have hl : (ivCut O i T (st, last) t).2 = t - T := by simp [ivCut, hO.sub]
    simp only [List.foldl_cons]
    obtain ⟨h1, h2, h3, h4, h5, h6⟩ := h
    have e : totalLen (ivCut O i T (st, last) t).1.done + pieceLen (ivCut O i T (st, last) t).1.cur
          - (ivCut O i T (st, last) t).2 = totalLen st.done + pieceLen st.cur - last := by
      rw [hd, hc, hl]; simp; ring
    refine ⟨by rw [h1, e], by rw [h2, hr], by rw [h3, hT], by rw [h4, hcons]; simp, ?_,
      by rw [h6, hd]; simp; omega⟩
    rw [h5, e, hd]
    simp only [boundaries, List.reverse_cons, List.map_append, List.map_cons, List.map_nil,
      List.append_assoc, List.singleton_append, List.append_cancel_left_eq, List.cons.injEq, and_true]
    simp; ring

/-- one drawing record of length `d` adds exactly `d` to the total length of the pieces -/
theorem ivSeg_total (hO : ExactOps O) (i : Nat) (d : K) (s : IState K) :
    totalLen (ivSeg O i d s).done + pieceLen (ivSeg O i d s).cur = totalLen s.done + pieceLen s.cur + d := by
  unfold ivSeg
  split
  · simp [hO.zero]; ring
  · have h := (ivCut_fold hO i s.T (selectCuts O s.T d s.rem).1 s O.zero).1
    simp only [pieceLen_cons, hO.zero] at h ⊢
    linarith

/-- sum of the lengths `dT` of the drawing records the walk visits -/
def walkLen : List (Cmd K) → List (SegOracle K) → K
  | [], _ => 0
  | .move _ :: cs, os => walkLen cs os
  | _ :: cs, o :: os => o.dT + walkLen cs os
  | _ :: _, [] => 0

/-- the pieces together have the length of the path, for ANY positions -/
theorem ivWalk_total (hO : ExactOps O) (cs : List (Cmd K)) : ∀ (os : List (SegOracle K)) (i : Nat)
    (s s' : IState K), ivWalk O cs os i s = some s' →
    totalLen s'.done + pieceLen s'.cur = totalLen s.done + pieceLen s.cur + walkLen cs os := by
  induction cs with
  | nil => intro os i s s' h; simp only [ivWalk, Option.some.injEq] at h; subst h; simp [walkLen]
  | cons c cs ih =>
    intro os i s s' h
    cases c with
    | move p => simp only [ivWalk] at h; simpa [walkLen] using ih os i s s' h
    | line p | quad cp p | cube c1 c2 p | arc rx ry phi l sw p | close p =>
      cases os with
      | nil => simp [ivWalk] at h
      | cons o os =>
        simp only [ivWalk] at h
        have := ih os (i + 1) _ s' h
        rw [this, ivSeg_total hO]
        simp [walkLen]; ring

/-! ### where the boundaries lie -/

/-- invariant of the walk from position `T0`: while positions remain, `T` is the arc length walked so
far; every finished piece ends at the arc length of the position that closed it -/
structure IvInv (T0 : K) (s : IState K) : Prop where
  walked : s.rem ≠ [] → totalLen s.done + pieceLen s.cur = s.T - T0
  bounds : boundaries s.done = s.consumed.map (· - T0)
  count : s.done.length = s.consumed.length

theorem ivSeg_inv (hO : ExactOps O) (T0 : K) (i : Nat) (d : K) (s : IState K) (h : IvInv T0 s) :
    IvInv T0 (ivSeg O i d s) := by
  unfold ivSeg
  split
  · rename_i he
    have : s.rem = [] := by simpa using he
    exact ⟨fun hne => absurd this hne, h.bounds, h.count⟩
  · rename_i he
    have hne : s.rem ≠ [] := by intro h0; simp [h0] at he
    obtain ⟨h1, _, _, h4, h5, h6⟩ := ivCut_fold hO i s.T (selectCuts O s.T d s.rem).1 s O.zero
    have hw := h.walked hne
    refine ⟨fun _ => ?_, ?_, ?_⟩
    · simp only [pieceLen_cons, hO.add, hO.zero] at h1 ⊢
      linarith
    · simp only
      rw [h5, h4, h.bounds, hO.zero, hw]
      simp only [List.map_append, List.map_reverse]
      congr 2
      apply List.map_congr_left
      intro t _
      ring
    · simp only
      rw [h6, h4, h.count]
      simp; omega

theorem ivWalk_inv (hO : ExactOps O) (T0 : K) (cs : List (Cmd K)) : ∀ (os : List (SegOracle K)) (i : Nat)
    (s s' : IState K), IvInv T0 s → ivWalk O cs os i s = some s' → IvInv T0 s' := by
  induction cs with
  | nil => intro os i s s' hi h; simp only [ivWalk, Option.some.injEq] at h; subst h; exact hi
  | cons c cs ih =>
    intro os i s s' hi h
    cases c with
    | move p => simp only [ivWalk] at h; exact ih os i s s' hi h
    | line p | quad cp p | cube c1 c2 p | arc rx ry phi l sw p | close p =>
      cases os with
      | nil => simp [ivWalk] at h
      | cons o os =>
        simp only [ivWalk] at h
        exact ih os (i + 1) _ s' (ivSeg_inv hO T0 i o.dT s hi) h

/-! ### which positions cut -/

theorem selectCuts_exact (hO : ExactOps O) (T d : K) (rem : List K)
    (hs : rem.Pairwise (· ≤ ·)) (hpos : ∀ t ∈ rem, T < t) :
    (selectCuts O T d rem).1 ++ (selectCuts O T d rem).2 = rem ∧
    (∀ t ∈ (selectCuts O T d rem).1, T < t ∧ t ≤ T + d) ∧
    (∀ t ∈ (selectCuts O T d rem).2, T + d < t) ∧
    (selectCuts O T d rem).2.Pairwise (· ≤ ·) := by
  induction rem with
  | nil => simp [selectCuts]
  | cons t ts ih =>
    have hts := ih (List.Pairwise.of_cons hs) (fun u hu => hpos u (by simp [hu]))
    have hTt : T < t := hpos t (by simp)
    by_cases h : t ≤ T + d
    · have hc : (O.lt T t && O.le t (O.add T d)) = true := by simp [hO.lt, hO.le, hO.add, hTt, h]
      simp only [selectCuts, hc, if_true, List.cons_append, hts.1, List.mem_cons, true_and]
      refine ⟨?_, hts.2.2.1, hts.2.2.2⟩
      intro u hu
      rcases hu with rfl | hu
      · exact ⟨hTt, h⟩
      · exact hts.2.1 u hu
    · have hc : (O.lt T t && O.le t (O.add T d)) = false := by simp [hO.lt, hO.le, hO.add, h]
      simp only [selectCuts, hc, Bool.false_eq_true, if_false, List.nil_append, List.not_mem_nil,
        false_imp_iff, implies_true, true_and]
      refine ⟨?_, hs⟩
      intro u hu
      have htu : t ≤ u := by
        rcases List.mem_cons.mp hu with rfl | hu'
        · exact le_refl _
        · exact List.rel_of_pairwise_cons hs hu'
      have : T + d < t := lt_of_not_ge h
      exact lt_of_lt_of_le this htu

/-- a position at the head that is not beyond the current position (e.g. a negative position, or a
second 0) is never selected - and, the positions being handled in order, blocks all later ones -/
theorem selectCuts_blocked (hO : ExactOps O) (T d t : K) (ts : List K) (h : t ≤ T) :
    selectCuts O T d (t :: ts) = ([], t :: ts) := by
  have : O.lt T t = false := by simp [hO.lt, h]
  simp [selectCuts, this]

/-- invariant for sorted positions beyond the start -/
structure RangeInv (T0 : K) (ts0 : List K) (s : IState K) : Prop where
  part : s.consumed.reverse ++ s.rem = ts0
  sorted : s.rem.Pairwise (· ≤ ·)
  ahead : ∀ t ∈ s.rem, s.T < t
  behind : ∀ t ∈ s.consumed, t - T0 ≤ totalLen s.done + pieceLen s.cur

theorem ivSeg_fields_empty (i : Nat) (d : K) (s : IState K) (he : s.rem = []) :
    (ivSeg O i d s).consumed = s.consumed ∧ (ivSeg O i d s).rem = s.rem ∧ (ivSeg O i d s).T = s.T := by
  simp [ivSeg, he]

theorem ivSeg_fields (hO : ExactOps O) (i : Nat) (d : K) (s : IState K) (hne : s.rem ≠ []) :
    (ivSeg O i d s).consumed = (selectCuts O s.T d s.rem).1.reverse ++ s.consumed ∧
    (ivSeg O i d s).rem = (selectCuts O s.T d s.rem).2 ∧ (ivSeg O i d s).T = s.T + d := by
  have he : s.rem.isEmpty = false := by cases hs : s.rem <;> simp_all
  obtain ⟨_, _, _, h4, _, _⟩ := ivCut_fold hO i s.T (selectCuts O s.T d s.rem).1 s O.zero
  simp only [ivSeg, he, Bool.false_eq_true, if_false, hO.add, and_self, and_true]
  exact h4

theorem ivSeg_range (hO : ExactOps O) (T0 : K) (ts0 : List K) (i : Nat) (d : K) (hd : 0 ≤ d) (s : IState K)
    (hi : IvInv T0 s) (h : RangeInv T0 ts0 s) : RangeInv T0 ts0 (ivSeg O i d s) := by
  have htot := ivSeg_total hO i d s
  by_cases hne : s.rem = []
  · obtain ⟨f1, f2, f3⟩ := ivSeg_fields_empty (O := O) i d s hne
    refine ⟨by rw [f1, f2]; exact h.part, by rw [f2]; exact h.sorted, by rw [f2, f3]; exact h.ahead, ?_⟩
    intro t ht
    rw [f1] at ht
    have := h.behind t ht
    linarith
  · obtain ⟨f1, f2, f3⟩ := ivSeg_fields hO i d s hne
    obtain ⟨hp, hin, hout, hso⟩ := selectCuts_exact hO s.T d s.rem h.sorted h.ahead
    have hw := hi.walked hne
    refine ⟨?_, by rw [f2]; exact hso, ?_, ?_⟩
    · rw [f1, f2, List.reverse_append, List.reverse_reverse, List.append_assoc, hp, h.part]
    · intro t ht
      rw [f2] at ht
      rw [f3]
      exact hout t ht
    · intro t ht
      rw [f1] at ht
      rcases List.mem_append.mp ht with ht | ht
      · have := (hin t (List.mem_reverse.mp ht)).2
        linarith
      · have := h.behind t ht
        linarith

theorem ivWalk_range (hO : ExactOps O) (T0 : K) (ts0 : List K) (cs : List (Cmd K)) :
    ∀ (os : List (SegOracle K)) (i : Nat) (s s' : IState K), (∀ o ∈ os, 0 ≤ o.dT) →
    IvInv T0 s → RangeInv T0 ts0 s → ivWalk O cs os i s = some s' → RangeInv T0 ts0 s' := by
  induction cs with
  | nil => intro os i s s' _ _ hr h; simp only [ivWalk, Option.some.injEq] at h; subst h; exact hr
  | cons c cs ih =>
    intro os i s s' hd hi hr h
    cases c with
    | move p => simp only [ivWalk] at h; exact ih os i s s' hd hi hr h
    | line p | quad cp p | cube c1 c2 p | arc rx ry phi l sw p | close p =>
      cases os with
      | nil => simp [ivWalk] at h
      | cons o os =>
        simp only [ivWalk] at h
        exact ih os (i + 1) _ s' (fun o' ho' => hd o' (by simp [ho']))
          (ivSeg_inv hO T0 i o.dT s hi)
          (ivSeg_range hO T0 ts0 i o.dT (hd o (by simp)) s hi hr) h

/-- the initial state of the walk for positions `ts` from position `T0` -/
def ivInit (T0 : K) (ts : List K) : IState K := ⟨[], [], ts, T0, []⟩

theorem ivInit_inv (T0 : K) (ts : List K) : IvInv T0 (ivInit T0 ts) :=
  ⟨fun _ => by simp [ivInit], rfl, rfl⟩

theorem ivInit_range (T0 : K) (ts : List K) (hs : ts.Pairwise (· ≤ ·)) (hpos : ∀ t ∈ ts, T0 < t) :
    RangeInv T0 ts (ivInit T0 ts) :=
  ⟨by simp [ivInit], hs, hpos, by simp [ivInit]⟩

/-! ### the monotone clamp of the Bezier cases (deac3eb) -/

theorem monoClamp_mono (t0 : K) (ts : List K) :
    (monoClamp (fun a b => decide (a < b)) t0 ts).Pairwise (· ≤ ·) ∧
      ∀ t ∈ monoClamp (fun a b => decide (a < b)) t0 ts, t0 ≤ t := by
  induction ts generalizing t0 with
  | nil => simp [monoClamp]
  | cons t ts ih =>
    simp only [monoClamp]
    by_cases h : t < t0
    · simp only [h, decide_true, if_true]
      obtain ⟨h1, h2⟩ := ih t0
      exact ⟨List.pairwise_cons.mpr ⟨h2, h1⟩, fun u hu => by
        rcases List.mem_cons.mp hu with rfl | hu
        · exact le_refl _
        · exact h2 u hu⟩
    · simp only [h, decide_false, Bool.false_eq_true, if_false]
      obtain ⟨h1, h2⟩ := ih t
      have htt : t0 ≤ t := le_of_not_gt h
      exact ⟨List.pairwise_cons.mpr ⟨h2, h1⟩, fun u hu => by
        rcases List.mem_cons.mp hu with rfl | hu
        · exact htt
        · exact le_trans htt (h2 u hu)⟩

end C09L
