import CanvasModel.C16
/-! Lemmas for C16 (b): the ai/ag/bi/bg/eolSkip bookkeeping of ToText. -/
namespace Canvas.C16

theorem isz_append (a b : List It) : isz (a ++ b) = isz a + isz b := by
  induction a with
  | nil => simp [isz]
  | cons x r ih => simp [isz, ih]; omega

/-- glyph ranges `(offset, size)` of the box items of `l`, the first item starting at glyph `o` -/
def boxesOf : Nat → List It → List (Nat × Nat)
  | _, [] => []
  | o, it :: r => if it.ty = .box then (o, it.size) :: boxesOf (o + it.size) r else boxesOf (o + it.size) r

theorem boxesOf_append (a b : List It) : ∀ o, boxesOf o (a ++ b) = boxesOf o a ++ boxesOf (o + isz a) b := by
  induction a with
  | nil => intro o; simp [boxesOf, isz]
  | cons x r ih =>
    intro o
    simp only [List.cons_append, boxesOf, isz]
    split <;> simp [ih, Nat.add_assoc]

theorem boxesOf_nobox (l : List It) : ∀ o, (∀ it ∈ l, it.ty ≠ .box) → boxesOf o l = [] := by
  induction l with
  | nil => intro o _; rfl
  | cons x r ih =>
    intro o h
    simp only [boxesOf]
    rw [if_neg (h x (List.mem_cons_self ..))]
    exact ih _ (fun it hit => h it (List.mem_cons_of_mem _ hit))

theorem skipLead_spec (rest : List It) : ∀ k,
    (skipLead rest k).1 ≤ k ∧ (skipLead rest k).1 ≤ rest.length ∧
    (∀ it ∈ rest.take (skipLead rest k).1, it.ty ≠ .box) ∧
    (skipLead rest k).2 = isz (rest.take (skipLead rest k).1) := by
  induction rest with
  | nil => intro k; simp [skipLead, isz]
  | cons x r ih =>
    intro k
    cases k with
    | zero => simp [skipLead, isz]
    | succ k =>
      simp only [skipLead]
      split
      · rename_i hx
        obtain ⟨h1, h2, h3, h4⟩ := ih k
        refine ⟨by simp; omega, by simp; omega, ?_, ?_⟩
        · intro it hit
          simp [List.take_succ_cons] at hit
          rcases hit with hit | hit
          · subst hit; exact hx
          · exact h3 it hit
        · simp [List.take_succ_cons, isz, h4]; omega
      · simp [isz]

theorem eolAcc_le (l : List It) : ∀ e, eolAcc e l ≤ e + isz l := by
  induction l with
  | nil => intro e; simp [eolAcc, isz]
  | cons x r ih =>
    intro e
    simp only [eolAcc, isz]
    split
    · have := ih 0; omega
    · have := ih (e + x.size); omega

/-- a box of the line body lies entirely before the trailing `eolSkip` glyphs -/
theorem eolAcc_box (l : List It) : ∀ (e base o s : Nat), (o, s) ∈ boxesOf base l →
    base ≤ o ∧ o + s + eolAcc e l ≤ base + isz l := by
  induction l with
  | nil => intro e base o s h; simp [boxesOf] at h
  | cons x r ih =>
    intro e base o s h
    simp only [boxesOf] at h
    simp only [eolAcc, isz]
    split at h
    · rename_i hx
      simp only [List.mem_cons, Prod.mk.injEq] at h
      rw [if_pos hx]
      rcases h with ⟨rfl, rfl⟩ | h
      · have := eolAcc_le r 0; omega
      · have := ih 0 _ _ _ h; omega
    · rename_i hx
      rw [if_neg hx]
      have := ih (e + x.size) _ _ _ h; omega

theorem mem_takeWhile_p {α : Type} (p : α → Bool) (l : List α) : ∀ x ∈ l.takeWhile p, p x = true := by
  induction l with
  | nil => intro x h; simp at h
  | cons a r ih =>
    intro x h
    simp only [List.takeWhile] at h
    split at h
    · rename_i ha
      simp only [List.mem_cons] at h
      rcases h with rfl | h
      · exact ha
      · exact ih x h
    · simp at h

/-- what one iteration of the line loop does, as a decomposition of the remaining items -/
theorem sliceLine_spec {shy : Nat → Bool} {n : Nat} {rest : List It} {k ag : Nat} {o : LineOut}
    (h : sliceLine shy n rest k ag = some o) :
    ∃ (L body : List It) (brk : It) (G rest' : List It),
      rest = L ++ (body ++ (brk :: (G ++ rest'))) ∧
      L.length + body.length = k ∧
      (∀ it ∈ L, it.ty ≠ .box) ∧ (∀ it ∈ G, it.ty = .glue) ∧
      o.used = L.length + body.length + 1 + G.length ∧
      o.line.start = ag + isz L ∧
      o.line.hpos = ag + isz L + isz body ∧
      o.ag' = ag + isz L + isz body + brk.size + isz G ∧
      o.line.stop + ((if o.line.hyph then 0 else eolAcc 0 body + brk.size) + isz G) = o.ag' ∧
      (o.line.hyph = true ↔ (brk.ty = .pen ∧ brk.size = 1 ∧ shy (ag + isz L + isz body) = true)) := by
  unfold sliceLine at h
  simp only [] at h
  obtain ⟨hs1, hs2, hs3, hs4⟩ := skipLead_spec rest k
  split at h
  · cases h
  · rename_i brk after heq
    split at h
    · cases h
    · rename_i hng
      injection h with h
      subst h
      have hk1 : k - (skipLead rest k).1 < (rest.drop (skipLead rest k).1).length := by
        apply Classical.byContradiction
        intro hc
        have : (List.drop (k - (skipLead rest k).1) (List.drop (skipLead rest k).1 rest)) = [] :=
          List.drop_eq_nil_of_le (by omega)
        rw [this] at heq; cases heq
      have hle := eolAcc_le ((rest.drop (skipLead rest k).1).take (k - (skipLead rest k).1)) 0
      refine ⟨rest.take (skipLead rest k).1, (rest.drop (skipLead rest k).1).take (k - (skipLead rest k).1), brk,
        after.takeWhile (fun it => it.ty = .glue), after.dropWhile (fun it => it.ty = .glue), ?_, ?_, hs3, ?_, ?_, ?_, ?_, ?_, ?_, ?_⟩
      · rw [List.takeWhile_append_dropWhile, ← heq, List.take_append_drop, List.take_append_drop]
      · simp only [List.length_take, List.length_drop] at *; omega
      · intro it hit
        have := mem_takeWhile_p _ _ it hit
        simpa using this
      · simp only [List.length_take, List.length_drop] at *; omega
      · simp [hs4]
      · simp [hs4]
      · simp [hs4]
      · simp only [hs4]
        split <;> omega
      · simp [hs4]

end Canvas.C16

namespace Canvas.C16

/-- lines are ordered and disjoint: each starts at or after the previous stop -/
def chain : Nat → List Line → Prop
  | _, [] => True
  | a, l :: r => a ≤ l.start ∧ l.start ≤ l.stop ∧ chain l.stop r

theorem chain_mono {a b : Nat} (h : b ≤ a) : ∀ {ls : List Line}, chain a ls → chain b ls := by
  intro ls
  cases ls with
  | nil => intro _; trivial
  | cons l r =>
    intro hc
    simp only [chain] at *
    obtain ⟨h1, h2, h3⟩ := hc
    exact ⟨by omega, h2, h3⟩

theorem take_used {rest X rest' : List It} {u : Nat} (h : rest = X ++ rest') (hu : u = X.length) :
    rest.take u = X ∧ rest.drop u = rest' := by
  subst h; subst hu; simp

theorem sliceLine_bounds {shy : Nat → Bool} {n : Nat} {rest : List It} {k ag : Nat} {o : LineOut}
    (h : sliceLine shy n rest k ag = some o) :
    ag ≤ o.line.start ∧ o.line.start ≤ o.line.stop ∧ o.line.stop ≤ o.ag' ∧
    o.used ≤ rest.length ∧ k + 1 ≤ o.used ∧ o.ag' = ag + isz (rest.take o.used) := by
  obtain ⟨L, body, brk, G, rest', hrest, hk, _, _, hu, hst, _, hag, hstop, _⟩ := sliceLine_spec h
  have hle := eolAcc_le body 0
  have htk := take_used (rest := rest) (X := L ++ (body ++ (brk :: G))) (rest' := rest') (u := o.used)
    (by rw [hrest]; simp) (by simp [hu]; omega)
  refine ⟨by omega, ?_, by omega, ?_, by omega, ?_⟩
  · split at hstop <;> omega
  · rw [hrest]; simp; omega
  · rw [htk.1]; simp [isz_append, isz]; omega

theorem slice_ordered {shy : Nat → Bool} {n : Nat} (ps : List Nat) : ∀ {ai : Nat} {rest : List It} {ag : Nat} {r : SliceOut},
    slice shy n ai rest ag ps = some r →
    chain ag r.lines ∧ (∀ l ∈ r.lines, l.stop ≤ r.ag) ∧ r.lines.length = ps.length ∧
    r.used ≤ rest.length ∧ r.ag = ag + isz (rest.take r.used) := by
  induction ps with
  | nil =>
    intro ai rest ag r h
    simp only [slice] at h
    injection h with h; subst h
    simp [chain, isz]
  | cons p ps ih =>
    intro ai rest ag r h
    simp only [slice] at h
    split at h
    · cases h
    · split at h
      · cases h
      · rename_i o ho
        split at h
        · cases h
        · rename_i r' hr'
          injection h with h; subst h
          obtain ⟨b1, b2, b3, b4, b5, b6⟩ := sliceLine_bounds ho
          obtain ⟨i1, i2, i3, i4, i5⟩ := ih hr'
          simp only [List.length_drop] at i4
          refine ⟨?_, ?_, by simp [i3], by simp; omega, ?_⟩
          · simp only [chain]; exact ⟨b1, b2, chain_mono b3 i1⟩
          · intro l hl
            simp only [List.mem_cons] at hl
            rcases hl with rfl | hl
            · have : chain o.ag' r'.lines := i1
              -- r'.ag ≥ o.ag'
              rw [i5]; omega
            · exact i2 l hl
          · simp only [List.take_add, isz_append]
            rw [i5, b6]; omega

theorem getElem?_split {L body : List It} {brk : It} {T : List It} :
    (L ++ (body ++ (brk :: T)))[L.length + body.length]? = some brk := by
  rw [List.getElem?_append_right (by omega)]
  rw [List.getElem?_append_right (by omega)]
  simp

/-- every box item consumed by the lines has its whole glyph range inside one line -/
theorem slice_covers {shy : Nat → Bool} {n : Nat} (ps : List Nat) : ∀ {ai : Nat} {rest : List It} {ag : Nat} {r : SliceOut},
    slice shy n ai rest ag ps = some r →
    (∀ p ∈ ps, ai ≤ p → ∀ it, rest[p - ai]? = some it → it.ty ≠ .box) →
    ∀ os ∈ boxesOf ag (rest.take r.used), ∃ l ∈ r.lines, l.start ≤ os.1 ∧ os.1 + os.2 ≤ l.stop := by
  induction ps with
  | nil =>
    intro ai rest ag r h _
    simp only [slice] at h
    injection h with h; subst h
    simp [boxesOf]
  | cons p ps ih =>
    intro ai rest ag r h hlegal
    simp only [slice] at h
    split at h
    · cases h
    · rename_i hp
      split at h
      · cases h
      · rename_i o ho
        split at h
        · cases h
        · rename_i r' hr'
          injection h with h; subst h
          obtain ⟨L, body, brk, G, rest', hrest, hk, hL, hG, hu, hst, _, hag, hstop, _⟩ := sliceLine_spec ho
          have hle := eolAcc_le body 0
          have htk := take_used (rest := rest) (X := L ++ (body ++ (brk :: G))) (rest' := rest') (u := o.used)
            (by rw [hrest]; simp) (by simp [hu]; omega)
          have hbrk : brk.ty ≠ .box := by
            apply hlegal p (List.mem_cons_self ..) (by omega) brk
            rw [hrest, ← hk]; exact getElem?_split
          have hlegal' : ∀ p' ∈ ps, ai + o.used ≤ p' → ∀ it, (rest.drop o.used)[p' - (ai + o.used)]? = some it → it.ty ≠ .box := by
            intro p' hp' hle' it hit
            apply hlegal p' (List.mem_cons_of_mem _ hp') (by omega) it
            rw [List.getElem?_drop] at hit
            rw [← hit]; congr 1; omega
          intro os hos
          simp only [List.take_add, boxesOf_append, htk.1, List.mem_append] at hos
          rcases hos with hos | hos
          · -- a box of this line
            refine ⟨o.line, List.mem_cons_self .., ?_⟩
            have hnb : boxesOf (ag + isz L + isz body) (brk :: G) = [] := by
              apply boxesOf_nobox
              intro it hit
              simp only [List.mem_cons] at hit
              rcases hit with rfl | hit
              · exact hbrk
              · rw [hG it hit]; decide
            rcases hos with hos | hos | hos
            · rw [boxesOf_nobox L _ hL] at hos; simp at hos
            · have := eolAcc_box body 0 _ os.1 os.2 hos
              split at hstop <;> omega
            · rw [hnb] at hos; simp at hos
          · have hag' : ag + isz (L ++ (body ++ brk :: G)) = o.ag' := by
              simp [isz_append, isz]; omega
            rw [hag'] at hos
            obtain ⟨l, hl, hl2⟩ := ih hr' hlegal' os hos
            exact ⟨l, List.mem_cons_of_mem _ hl, hl2⟩

/-- a soft hyphen at the break is always the last glyph shown -/
theorem sliceLine_hyphen {shy : Nat → Bool} {n : Nat} {rest : List It} {k ag : Nat} {o : LineOut}
    (h : sliceLine shy n rest k ag = some o) (hy : o.line.hyph = true) :
    o.line.stop = o.line.hpos + 1 ∧ shy o.line.hpos = true := by
  obtain ⟨L, body, brk, G, rest', hrest, hk, _, hG, hu, hst, hhp, hag, hstop, hiff⟩ := sliceLine_spec h
  have hb := hiff.1 hy
  rw [hy] at hstop
  simp only [if_true] at hstop
  refine ⟨by omega, ?_⟩
  rw [hhp]; exact hb.2.2

end Canvas.C16
