import CanvasProofs.Lemmas.C17Inv
/-! C17 helper lemmas, part 3: one iteration of the item loop preserves the invariant. -/
set_option linter.unusedSectionVars false
set_option linter.unusedVariables false
namespace Canvas.C17

section
variable {α : Type} [Add α] [Sub α] [Mul α] [Div α] [Neg α] [LT α] [LE α] [BEq α]
  [DecidableLT α] [DecidableLE α] [NatCast α]

/-- after the reset at the top of the iteration every inactive node contains every forced break < b -/
def StrongI (P : Params α) (items : List (Item α)) (b : Nat) (lb : LB α) : Prop :=
  ∀ n, n ∈ lb.inact → ∀ f, f < b → forcedAt P items f = true → legalAt P items f = true →
    f ∈ nonRootPos (n.d :: n.anc)

theorem clear_inv (P : Params α) (items : List (Item α)) (lineW : α) (tol : Option α) (b : Nat) (lb : LB α)
    (hI : Inv P items lineW tol b lb) :
    Inv P items lineW tol b (clearStale P (prevOf items b) lb) ∧ StrongI P items b (clearStale P (prevOf items b) lb) := by
  have keep : clearStale P (prevOf items b) lb = lb →
      (∀ f, f + 1 = b → forcedAt P items f = false) →
      Inv P items lineW tol b (clearStale P (prevOf items b) lb) ∧ StrongI P items b (clearStale P (prevOf items b) lb) := by
    intro he hnf
    rw [he]
    refine ⟨hI, ?_⟩
    intro n hn f hf hfo hle
    by_cases h1 : f + 1 < b
    · exact hI.forcedI n hn f h1 hfo hle
    · have : f + 1 = b := by omega
      rw [hnf f this] at hfo; cases hfo
  cases b with
  | zero => exact keep rfl (fun f hf => by omega)
  | succ b' =>
    simp only [prevOf]
    cases hp : items[b']? with
    | none =>
      have he : clearStale P (prevOf items (b' + 1)) lb = lb := by simp [prevOf, hp, clearStale]
      have := keep he (fun f hf => by
        have : f = b' := by omega
        subst this; simp [forcedAt, hp])
      simpa [prevOf, hp] using this
    | some p =>
      cases hfp : isForced P p with
      | false =>
        have he : clearStale P (prevOf items (b' + 1)) lb = lb := by simp [prevOf, hp, clearStale, hfp]
        have := keep he (fun f hf => by
          have : f = b' := by omega
          subst this; simp [forcedAt, hp, hfp])
        simpa [prevOf, hp] using this
      | true =>
        simp only [clearStale, hfp, if_true]
        refine ⟨⟨hI.sums, hI.act, ?_, hI.ne, hI.last, hI.forced, ?_, hI.ntol⟩, ?_⟩
        · intro n hn; cases hn
        · intro n hn; cases hn
        · intro n hn; cases hn

/-- the state between `mainLoop` and the additions to the running sums -/
structure Mid (P : Params α) (items : List (Item α)) (lineW : α) (tol : Option α) (b : Nat) (lb lbm : LB α) : Prop where
  sums : (lbm.W, lbm.Y, lbm.Z) = pre items b
  ovf : lbm.ovf = lb.ovf
  act : ∀ n, n ∈ lbm.act → NodeOK P items lineW tol lb.ovf (b + 1) n
  inact : ∀ n, n ∈ lbm.inact → NodeOK P items lineW tol lb.ovf b n
  ne : lbm.act ≠ [] ∨ (legalAt P items b = true ∧ lbm.inact ≠ [])
  last : forcedAt P items b = true → legalAt P items b = true → ∀ n, n ∈ lbm.act → n.d.pos = b ∧ n.anc ≠ []
  forced : ∀ n, n ∈ lbm.act → ∀ f, f < b + 1 → forcedAt P items f = true →
    legalAt P items f = true → f ∈ nonRootPos (n.d :: n.anc)
  forcedI : ∀ n, n ∈ lbm.inact → ∀ f, f < b → forcedAt P items f = true →
    legalAt P items f = true → f ∈ nonRootPos (n.d :: n.anc)
  ntol : lbm.nextTol = none ∨ ∃ r, lbm.nextTol = some r ∧ ltTol tol r = true ∧ InS P items lineW r

theorem mid_of_inv (P : Params α) (items : List (Item α)) (lineW : α) (tol : Option α) (b : Nat)
    (it : Item α) (rest : List (Item α)) (lb lbm : LB α) (hdrop : items.drop b = it :: rest)
    (hI : Inv P items lineW tol b lb) (hS : StrongI P items b lb)
    (hm : (legalAt P items b = false ∧ lbm = lb) ∨
        (legalAt P items b = true ∧ lbm = mainLoop P items lineW tol b it rest lb)) :
    Mid P items lineW tol b lb lbm := by
  have hit : items[b]? = some it := drop_getElem? hdrop
  rcases hm with ⟨hleg, rfl⟩ | ⟨hleg, rfl⟩
  · -- not a legal breakpoint: nothing changes
    refine ⟨hI.sums, rfl, fun n hn => (hI.act n hn).succ, hI.inact, Or.inl hI.ne, ?_, ?_, hS, hI.ntol⟩
    · intro _ hl; rw [hleg] at hl; cases hl
    · intro n hn f hf hfo hle
      rcases Nat.lt_succ_iff_lt_or_eq.mp hf with hf | rfl
      · exact hI.forced n hn f hf hfo hle
      · rw [hleg] at hle; cases hle
  · obtain ⟨⟨hW, hY, hZ, hO⟩, hact, hinact, hkeep, hall, htol⟩ :=
      mainLoop_spec P items lineW tol b it rest lb
    have hem : ∀ n, Emitted (mlCx P items lineW tol b it lb) (mlWidth it lb) (mlS P it rest lb) lb.act n →
        NodeOK P items lineW tol lb.ovf (b + 1) n ∧ n.d.pos = b ∧ ∃ a, a ∈ lb.act ∧ n.anc = a.d :: a.anc :=
      fun n h => emitted_nodeOK hdrop hI.sums hleg hI.act h
    refine ⟨?_, hO, ?_, ?_, ?_, ?_, ?_, ?_, ?_⟩
    · rw [hW, hY, hZ]; exact hI.sums
    · intro n hn
      rcases hact n hn with ⟨h, _⟩ | h
      · exact (hI.act n h).succ
      · exact (hem n h).1
    · intro n hn
      rcases hinact n hn with h | h
      · exact hI.inact n h
      · exact hI.act n h
    · cases hl : lb.act with
      | nil => exact absurd hl hI.ne
      | cons a as =>
        have ha : a ∈ lb.act := by rw [hl]; exact List.mem_cons_self
        rcases hall a ha with h | h
        · left; intro he; rw [he] at h; cases h
        · right; exact ⟨hleg, fun he => by rw [he] at h; cases h⟩
    · intro hfo _ n hn
      rcases hact n hn with ⟨_, hnf⟩ | h
      · rw [forcedAt_eq hit] at hfo; rw [hfo] at hnf; cases hnf
      · obtain ⟨_, hp, a, _, han⟩ := hem n h
        exact ⟨hp, by rw [han]; simp⟩
    · intro n hn f hf hfo hle
      rcases hact n hn with ⟨h, hnf⟩ | h
      · rcases Nat.lt_succ_iff_lt_or_eq.mp hf with hf | rfl
        · exact hI.forced n h f hf hfo hle
        · rw [forcedAt_eq hit] at hfo; rw [hfo] at hnf; cases hnf
      · obtain ⟨_, hp, a, ha, han⟩ := hem n h
        rw [han]
        have : nonRootPos (n.d :: a.d :: a.anc) = n.d.pos :: nonRootPos (a.d :: a.anc) := rfl
        rw [this, hp]
        rcases Nat.lt_succ_iff_lt_or_eq.mp hf with hf | rfl
        · exact List.mem_cons_of_mem _ (hI.forced a ha f hf hfo hle)
        · exact List.mem_cons_self
    · intro n hn f hf hfo hle
      rcases hinact n hn with h | h
      · exact hS n h f hf hfo hle
      · exact hI.forced n h f hf hfo hle
    · rcases htol with h | ⟨a, ha, r, hr, hlt, ht⟩
      · rw [h]; exact hI.ntol
      · right
        refine ⟨r, ht, hlt, b, it, (a.d.w, a.d.y, a.d.z), hit, chain_isT (hI.act a ha).1, ?_⟩
        have hW' : lb.W = (pre items b).1 := congrArg (·.1) hI.sums
        have hY' : lb.Y = (pre items b).2.1 := congrArg (·.2.1) hI.sums
        have hZ' : lb.Z = (pre items b).2.2 := congrArg (·.2.2) hI.sums
        simp only [mlCx] at hr
        rw [← hW', ← hY', ← hZ']; exact hr

/-- one iteration of the item loop (without restart) preserves the invariant -/
theorem step_inv (hrefl : ∀ a : α, (a == a) = true) (P : Params α) (items : List (Item α)) (lineW : α)
    (tol : Option α) (b : Nat) (it : Item α) (rest : List (Item α)) (lb lb1 lb2 : LB α)
    (hdrop : items.drop b = it :: rest) (hI0 : Inv P items lineW tol b lb)
    (h1 : itemStep P items lineW tol b (prevOf items b) it rest (clearStale P (prevOf items b) lb) = some lb1)
    (h2 : drastic P tol b it rest lb1 = some lb2) : Inv P items lineW tol (b + 1) (addGlue it lb2) := by
  have hit : items[b]? = some it := drop_getElem? hdrop
  obtain ⟨hI, hS⟩ := clear_inv P items lineW tol b lb hI0
  generalize clearStale P (prevOf items b) lb = lb0 at h1 hI hS
  obtain ⟨lbm, hm, hs1, ha1, hi1, ht1, ho1⟩ := itemStep_cases P items lineW tol b it rest lb0 lb1 hdrop h1
  have M := mid_of_inv P items lineW tol b it rest lb0 lbm hdrop hI hS hm
  obtain ⟨g1, g2, g3, g4, g5⟩ := addGlue_spec it lb2
  have hsums1 : (lb1.W, lb1.Y, lb1.Z) = boxAdd (pre items b) it := by rw [hs1, M.sums]
  rcases drastic_cases P tol b it rest lb1 lb2 h2 with ⟨hne, heq⟩ | ⟨hnil, hov2, hW2, hY2, hZ2, hin2, hnt2, hfb⟩
  · -- the active list is not empty: nothing drastic
    rw [heq] at g1 g2 g3 g4 g5 ⊢
    have hov : lb1.ovf = lb0.ovf := by rw [ho1, M.ovf]
    refine ⟨?_, ?_, ?_, ?_, ?_, ?_, ?_, ?_⟩
    · rw [g1, hsums1, glueAdd_boxAdd, pre_succ items b it hit]
    · intro n hn; rw [g5, hov]; rw [g2, ha1] at hn; exact M.act n hn
    · intro n hn; rw [g5, hov]; rw [g3, hi1] at hn; exact (M.inact n hn).succ
    · rw [g2]; exact hne
    · intro f hf hfo hle n hn
      have : f = b := by omega
      subst this
      rw [g2, ha1] at hn; exact M.last hfo hle n hn
    · intro n hn f hf hfo hle
      rw [g2, ha1] at hn
      exact M.forced n hn f hf hfo hle
    · intro n hn f hf hfo hle
      rw [g3, hi1] at hn
      exact M.forcedI n hn f (by omega) hfo hle
    · rw [g4, ht1]; exact M.ntol
  · -- overflow fallback
    have hact0 : lbm.act = [] := by rw [← ha1]; exact hnil
    have hlegin : legalAt P items b = true ∧ lbm.inact ≠ [] := by
      rcases M.ne with h | h
      · exact absurd hact0 h
      · exact h
    have hnb := legalAt_not_box hit hlegin.1
    have hsums1' : (lb1.W, lb1.Y, lb1.Z) = pre items b := by rw [hsums1, boxAdd_of_not_box _ _ hnb]
    have hfbnodes : ∃ mw, minWidthOf lb1.W lb1.inact none = some mw ∧
        lb2.act = fallbackNodes b (mlWidth it lb1) (mlS P it rest lb1) lb1.W mw lb1.inact := by
      rcases hfb with ⟨hnone, _⟩ | h
      · exfalso
        cases hl : lb1.inact with
        | nil => rw [hi1] at hl; exact hlegin.2 hl
        | cons q qs =>
          rw [hl] at hnone
          simp only [minWidthOf] at hnone
          obtain ⟨y, hy⟩ := minWidthOf_some lb1.W qs (minOpt none (lb1.W - q.d.w))
          rw [hy] at hnone; cases hnone
      · exact h
    obtain ⟨mw, hmw, hact2⟩ := hfbnodes
    have hW1 : lb1.W = (pre items b).1 := congrArg (·.1) hsums1'
    have hparent : ∀ n, n ∈ lb2.act → ∃ p, p ∈ lbm.inact ∧
        n = ⟨⟨b, p.d.line + 1, 1, mlWidth it lb1, (mlS P it rest lb1).1, (mlS P it rest lb1).2.1,
          (mlS P it rest lb1).2.2, k 0, p.d.dem + k 1000⟩, p.d :: p.anc⟩ := by
      intro n hn
      rw [hact2] at hn
      obtain ⟨p, hp, hn⟩ := fallbackNodes_mem b _ _ lb1.W mw n lb1.inact hn
      rw [hi1] at hp
      exact ⟨p, hp, hn⟩
    have hnodes : ∀ n, n ∈ lb2.act → NodeOK P items lineW tol true (b + 1) n ∧ n.d.pos = b ∧ n.anc ≠ [] := by
      intro n hn
      obtain ⟨p, hp, rfl⟩ := hparent n hn
      have hpok := (M.inact p hp).toFb
      refine ⟨⟨?_, Or.inl (Nat.lt_succ_self b)⟩, rfl, by simp⟩
      refine ChainOK.fallback _ p.d p.anc rfl hlegin.1 rfl hpok.2 ?_ ?_ rfl rfl rfl hpok.1
      · show mlS P it rest lb1 = sumsAfter P items b
        rw [sumsAfter_eq P items b it rest hdrop, ← hsums1']; rfl
      · show mlWidth it lb1 = widthAt items b
        unfold widthAt mlWidth
        rw [hit]; simp only [hW1]
    refine ⟨?_, ?_, ?_, ?_, ?_, ?_, ?_, ?_⟩
    · rw [g1, hW2, hY2, hZ2, hsums1, glueAdd_boxAdd, pre_succ items b it hit]
    · intro n hn; rw [g5, hov2]; rw [g2] at hn; exact (hnodes n hn).1
    · intro n hn; rw [g5, hov2]; rw [g3, hin2, hi1] at hn; exact (M.inact n hn).succ.toFb
    · rw [g2, hact2]
      rcases minWidthOf_spec lb1.W mw lb1.inact none hmw with h | ⟨q, hq, hqm⟩
      · cases h
      · exact fallbackNodes_ne hrefl b _ _ lb1.W mw q lb1.inact hq hqm
    · intro f hf hfo hle n hn
      have : f = b := by omega
      subst this
      rw [g2] at hn
      exact (hnodes n hn).2
    · intro n hn f hf hfo hle
      rw [g2] at hn
      obtain ⟨p, hp, rfl⟩ := hparent n hn
      show f ∈ b :: nonRootPos (p.d :: p.anc)
      rcases Nat.lt_succ_iff_lt_or_eq.mp hf with hf | rfl
      · exact List.mem_cons_of_mem _ (M.forcedI p hp f hf hfo hle)
      · exact List.mem_cons_self
    · intro n hn f hf hfo hle
      rw [g3, hin2, hi1] at hn
      exact M.forcedI n hn f (by omega) hfo hle
    · rw [g4, hnt2, ht1]; exact M.ntol

end
end Canvas.C17
