import CanvasModel.C12
/-!
Helper lemmas for C12: the PDF interpreter simulates every `Set*` of the page-writer cache
(`pdfRun (gOf w.c) ops = (gOf w'.c, [])`), cache post-states under lawful equality, append laws.
-/
namespace Canvas.C12

/-- what the theorems assume about Go's float64 `==`/`<` on the values that occur
(no NaN, no signed zeros): `==` is equality, a positive number is not zero -/
structure Lawful {ν : Type} (N : Num ν) : Prop where
  beq_iff : ∀ x y : ν, N.beq x y = true ↔ x = y
  pos_ne_zero : ∀ x : ν, N.lt N.zero x = true → N.beq x N.zero = false

section
variable {ν : Type} {N : Num ν}

theorem Lawful.beq_false (L : Lawful N) {x y : ν} (h : N.beq x y = false) : x ≠ y := by
  intro e
  have := (L.beq_iff x y).2 e
  simp [this] at h

theorem Lawful.beq_refl (L : Lawful N) (x : ν) : N.beq x x = true := (L.beq_iff x x).2 rfl

theorem listBeq_iff (L : Lawful N) : ∀ a b : List ν, listBeq N a b = true ↔ a = b
  | [], [] => by simp [listBeq]
  | [], _ :: _ => by simp [listBeq]
  | _ :: _, [] => by simp [listBeq]
  | x :: xs, y :: ys => by
    simp [listBeq, L.beq_iff, listBeq_iff L xs ys]

theorem Paint.has_ne' {p : Paint} (h : p.has = true) : p ≠ .none := by
  cases p <;> simp_all [Paint.has]

theorem Paint.eq_iff (p q : Paint) : p.eq q = true ↔ (p = q ∧ p ≠ .none) := by
  cases p <;> cases q <;> simp [Paint.eq]

/-! ### interpreter: append -/

theorem pdfRun_append (g : PG ν) (a b : List (POp ν)) :
    pdfRun g (a ++ b) = ((pdfRun (pdfRun g a).1 b).1, (pdfRun g a).2 ++ (pdfRun (pdfRun g a).1 b).2) := by
  induction a generalizing g with
  | nil => simp [pdfRun]
  | cons o os ih => simp [pdfRun, ih, List.append_assoc]

theorem psRun_append (g : SG ν) (a b : List (SOp ν)) :
    psRun g (a ++ b) = ((psRun (psRun g a).1 b).1, (psRun g a).2 ++ (psRun (psRun g a).1 b).2) := by
  induction a generalizing g with
  | nil => simp [psRun]
  | cons o os ih => simp [psRun, ih, List.append_assoc]

/-- an action is simulated by the interpreter from the state its cache claims, painting `out` -/
def PSim (a : PAct ν) (w : PW ν) (out : List (Painted ν)) : Prop :=
  pdfRun (gOf w.c) (a w).2 = (gOf (a w).1.c, out)

theorem PSim.nil (w : PW ν) : PSim (PAct.seq []) w [] := by
  simp [PSim, PAct.seq, pdfRun]

theorem PSim.cons {a : PAct ν} {as : List (PAct ν)} {w : PW ν} {o1 o2 : List (Painted ν)}
    (h1 : PSim a w o1) (h2 : PSim (PAct.seq as) (a w).1 o2) : PSim (PAct.seq (a :: as)) w (o1 ++ o2) := by
  unfold PSim at *
  simp [PAct.seq, pdfRun_append, h1, h2]

/-! ### every Set* keeps "cache = graphics state" (no assumption on `==`) -/

theorem setAlpha_sim (a : Nat) (w : PW ν) : PSim (setAlpha a) w [] := by
  unfold PSim setAlpha
  split <;> simp [pdfRun, pdfStep, gOf]

theorem gradAlpha_sim (p : Paint) (w : PW ν) : PSim (gradAlpha p) w [] := by
  cases p with
  | grad i => exact setAlpha_sim 255 w
  | none => simp [PSim, gradAlpha, say, pdfRun]
  | col c => simp [PSim, gradAlpha, say, pdfRun]

theorem setFillCore_sim (p : Paint) (hp : p ≠ .none) (w : PW ν) : PSim (setFillCore p) w [] := by
  unfold PSim setFillCore
  split
  · cases p with
    | none => exact absurd rfl hp
    | grad i => simp [pdfRun]
    | col c => exact setAlpha_sim c.a w
  · cases p with
    | none => exact absurd rfl hp
    | grad i => simp [pdfRun, pdfStep, gOf, shadeOf]
    | col c =>
      simp only [setAlpha]
      split <;> split <;> simp_all [pdfRun, pdfStep, gOf, shadeOf] <;> omega

theorem setStrokeCore_sim (p : Paint) (hp : p ≠ .none) (w : PW ν) : PSim (setStrokeCore p) w [] := by
  unfold PSim setStrokeCore
  split
  · cases p with
    | none => exact absurd rfl hp
    | grad i => simp [pdfRun]
    | col c => exact setAlpha_sim c.a w
  · cases p with
    | none => exact absurd rfl hp
    | grad i => simp [pdfRun, pdfStep, gOf, shadeOf]
    | col c =>
      simp only [setAlpha]
      split <;> split <;> simp_all [pdfRun, pdfStep, gOf, shadeOf] <;> omega

theorem PSim.pair {a b : PAct ν} {w : PW ν} (h1 : PSim a w []) (h2 : PSim b (a w).1 []) : PSim (PAct.seq [a, b]) w [] := by
  have h := PSim.cons h1 (PSim.cons h2 (PSim.nil _))
  simpa using h

theorem setFill_sim (p : Paint) (hp : p ≠ .none) (w : PW ν) : PSim (setFill p) w [] :=
  PSim.pair (gradAlpha_sim p w) (setFillCore_sim p hp _)

theorem setStroke_sim (p : Paint) (hp : p ≠ .none) (w : PW ν) : PSim (setStroke p) w [] :=
  PSim.pair (gradAlpha_sim p w) (setStrokeCore_sim p hp _)

theorem setLineWidth_sim (x : ν) (w : PW ν) : PSim (setLineWidth N x) w [] := by
  unfold PSim setLineWidth
  split <;> simp [pdfRun, pdfStep, gOf]

theorem setLineCap_sim (c : Nat) (w : PW ν) : PSim (setLineCap c) w [] := by
  unfold PSim setLineCap
  split <;> simp [pdfRun, pdfStep, gOf]

theorem setLineJoin_sim (jn : Join ν) (h : jn.pdfOk = true) (w : PW ν) : PSim (setLineJoin N jn) w [] := by
  cases jn with
  | bevel => simp only [PSim, setLineJoin]; split <;> simp [pdfRun, pdfStep, gOf]
  | round => simp only [PSim, setLineJoin]; split <;> simp [pdfRun, pdfStep, gOf]
  | arcs g l => simp [Join.pdfOk] at h
  | miter g l =>
    cases l with
    | none => simp [Join.pdfOk] at h
    | some l =>
      simp only [PSim, setLineJoin]
      by_cases h0 : (0 != w.c.join) = true <;> by_cases h1 : N.beq l w.c.ml = true <;>
        simp_all [pdfRun, pdfStep, gOf]

theorem setDashes_sim (ph : ν) (arr : List ν) (w : PW ν) : PSim (setDashes N ph arr) w [] := by
  unfold PSim setDashes
  simp only []
  split
  · split <;> simp [pdfRun, pdfStep, gOf]
  · simp [pdfRun]

theorem say_path_paint_sim (p : PathRef) (k : PK) (w : PW ν) :
    PSim (say [.path p, .paint k]) w (pdfPaint (gOf w.c) p k) := by
  simp [PSim, say, pdfRun, pdfStep, gOf, pdfPaint, PG.fillItem, PG.strokeItem]

end
end Canvas.C12

namespace Canvas.C12
section
variable {ν : Type} {N : Num ν}

/-! ### sequencing -/

theorem PAct.seq_append (as bs : List (PAct ν)) (w : PW ν) :
    PAct.seq (as ++ bs) w =
      ((PAct.seq bs (PAct.seq as w).1).1, (PAct.seq as w).2 ++ (PAct.seq bs (PAct.seq as w).1).2) := by
  induction as generalizing w with
  | nil => simp [PAct.seq]
  | cons a as ih => simp [PAct.seq, ih, List.append_assoc]

theorem PSim.append {as bs : List (PAct ν)} {w : PW ν} {o1 o2 : List (Painted ν)}
    (h1 : PSim (PAct.seq as) w o1) (h2 : PSim (PAct.seq bs) (PAct.seq as w).1 o2) :
    PSim (PAct.seq (as ++ bs)) w (o1 ++ o2) := by
  unfold PSim at *
  simp [PAct.seq_append, pdfRun_append, h1, h2]

theorem PSim.single {a : PAct ν} {w : PW ν} {o : List (Painted ν)} (h : PSim a w o) : PSim (PAct.seq [a]) w o := by
  have := PSim.cons h (PSim.nil (a w).1)
  simpa using this

theorem PAct.seq_single (a : PAct ν) (w : PW ν) : (PAct.seq [a] w).1 = (a w).1 := by simp [PAct.seq]

/-! ### cache after each Set* (lawful `==`) -/

theorem setAlpha_c (a : Nat) (w : PW ν) : (setAlpha a w).1.c = { w.c with alpha := a } := by
  obtain ⟨gs, ps, ⟨al, fl, st, lw, cp, jn, ml, ds, phs⟩⟩ := w
  unfold setAlpha
  split
  · rfl
  · rename_i h
    have : a = al := by simpa using h
    simp_all

theorem gradAlpha_c (p : Paint) (w : PW ν) :
    (gradAlpha p w).1.c = { w.c with alpha := (match p with | .grad _ => 255 | _ => w.c.alpha) } := by
  cases p with
  | grad i => simp [gradAlpha, setAlpha_c]
  | none => simp [gradAlpha, say]
  | col c => simp [gradAlpha, say]

/-- the cache after SetFill / SetStroke: the paint and ITS alpha (no assumption on the cache before) -/
theorem setFill_c (p : Paint) (hp : p ≠ .none) (w : PW ν) :
    (setFill p w).1.c = { w.c with fill := p, alpha := p.alpha } := by
  obtain ⟨gs0, ps0, ⟨al, fl, st, lw, cp, jn, ml, ds, phs⟩⟩ := w
  cases p with
  | none => exact absurd rfl hp
  | col c =>
    simp only [setFill, PAct.seq, gradAlpha, say, setFillCore, Paint.alpha]
    by_cases h : (Paint.col c).eq fl = true
    · have e := ((Paint.eq_iff _ _).1 h).1
      subst e
      simp [h, setAlpha_c]
    · simp [h, setAlpha_c]
  | grad i =>
    simp only [setFill, PAct.seq, gradAlpha, setFillCore, Paint.alpha, setAlpha]
    by_cases ha : (255 != al) = true
    · by_cases h : (Paint.grad i).eq fl = true
      · have e := ((Paint.eq_iff _ _).1 h).1
        subst e
        simp [ha, h]
      · simp [ha, h]
    · have e0 : 255 = al := by simpa using ha
      subst e0
      by_cases h : (Paint.grad i).eq fl = true
      · have e := ((Paint.eq_iff _ _).1 h).1
        subst e
        simp [h]
      · simp [h]

theorem setStroke_c (p : Paint) (hp : p ≠ .none) (w : PW ν) :
    (setStroke p w).1.c = { w.c with stroke := p, alpha := p.alpha } := by
  obtain ⟨gs0, ps0, ⟨al, fl, st, lw, cp, jn, ml, ds, phs⟩⟩ := w
  cases p with
  | none => exact absurd rfl hp
  | col c =>
    simp only [setStroke, PAct.seq, gradAlpha, say, setStrokeCore, Paint.alpha]
    by_cases h : (Paint.col c).eq st = true
    · have e := ((Paint.eq_iff _ _).1 h).1
      subst e
      simp [h, setAlpha_c]
    · simp [h, setAlpha_c]
  | grad i =>
    simp only [setStroke, PAct.seq, gradAlpha, setStrokeCore, Paint.alpha, setAlpha]
    by_cases ha : (255 != al) = true
    · by_cases h : (Paint.grad i).eq st = true
      · have e := ((Paint.eq_iff _ _).1 h).1
        subst e
        simp [ha, h]
      · simp [ha, h]
    · have e0 : 255 = al := by simpa using ha
      subst e0
      by_cases h : (Paint.grad i).eq st = true
      · have e := ((Paint.eq_iff _ _).1 h).1
        subst e
        simp [h]
      · simp [h]

theorem setLineWidth_c (L : Lawful N) (x : ν) (w : PW ν) : (setLineWidth N x w).1.c = { w.c with lw := x } := by
  obtain ⟨gs, ps, ⟨al, fl, st, lw, cp, jn, ml, ds, phs⟩⟩ := w
  unfold setLineWidth
  split
  · rfl
  · rename_i h
    have : x = lw := (L.beq_iff _ _).1 (by simpa using h)
    simp_all

theorem setLineCap_c (c : Nat) (w : PW ν) : (setLineCap c w).1.c = { w.c with cap := c } := by
  obtain ⟨gs, ps, ⟨al, fl, st, lw, cp, jn, ml, ds, phs⟩⟩ := w
  unfold setLineCap
  split
  · rfl
  · rename_i h
    have : c = cp := by simpa using h
    simp_all

theorem setLineJoin_c (L : Lawful N) (jn : Join ν) (h : jn.pdfOk = true) (w : PW ν) :
    (setLineJoin N jn w).1.c =
      { w.c with join := joinCode jn, ml := (match joinLimit jn with | some l => l | none => w.c.ml) } := by
  obtain ⟨gs, ps, ⟨al, fl, st, lw, cp, j0, ml, ds, phs⟩⟩ := w
  cases jn with
  | bevel =>
    simp only [setLineJoin, joinCode, joinLimit]
    split
    · rfl
    · rename_i h; have : 2 = j0 := by simpa using h
      simp_all
  | round =>
    simp only [setLineJoin, joinCode, joinLimit]
    split
    · rfl
    · rename_i h; have : 1 = j0 := by simpa using h
      simp_all
  | arcs g l => simp [Join.pdfOk] at h
  | miter g l =>
    cases l with
    | none => simp [Join.pdfOk] at h
    | some l =>
      simp only [setLineJoin, joinCode, joinLimit]
      by_cases h0 : (0 != j0) = true <;> by_cases h1 : N.beq l ml = true
      · have e := (L.beq_iff _ _).1 h1
        subst e; simp [h0, L.beq_refl]
      · simp [h0, h1]
      · have e := (L.beq_iff _ _).1 h1
        have e0 : 0 = j0 := by simpa using h0
        subst e; subst e0; simp [L.beq_refl]
      · have e0 : 0 = j0 := by simpa using h0
        subst e0; simp [h1]

/-- cache well-formedness: an empty dash array is cached with phase 0 (writer.go 927-929) -/
def PInv (N : Num ν) (c : PC ν) : Prop := c.dashes = [] → c.phase = N.zero

def pdfPhaseOf (N : Num ν) (ph : ν) (arr : List ν) : ν :=
  if (pdfDashArr arr).isEmpty then N.zero else pdfDashPhase N ph arr

theorem setDashes_c (L : Lawful N) (ph : ν) (arr : List ν) (w : PW ν) (hi : PInv N w.c) :
    (setDashes N ph arr w).1.c = { w.c with dashes := pdfDashArr arr, phase := pdfPhaseOf N ph arr } := by
  obtain ⟨gs, ps, ⟨al, fl, st, lw, cp, j0, ml, ds, phs⟩⟩ := w
  unfold setDashes pdfPhaseOf
  simp only []
  split
  · split
    · rename_i h; simp_all
    · rename_i h; simp_all
  · rename_i h
    have h' : listBeq N (pdfDashArr arr) ds = true ∧ N.beq (pdfDashPhase N ph arr) phs = true := by
      simpa using h
    have e1 := (listBeq_iff L _ _).1 h'.1
    have e2 := (L.beq_iff _ _).1 h'.2
    subst e1; subst e2
    by_cases he : (pdfDashArr arr).isEmpty = true
    · have hz : pdfDashPhase N ph arr = N.zero := hi (by simpa using he)
      simp [he, hz]
    · simp [he]

end
end Canvas.C12
