import CanvasProofs.Lemmas.C15Ops
import CanvasProofs.Lemmas.C15Core
import CanvasProofs.Lemmas.C15Replay
import CanvasProofs.Lemmas.C15Fit
import CanvasProofs.C07
import Mathlib.Tactic.Ring
import Mathlib.Tactic.FieldSimp
import Mathlib.Tactic.Linarith

/-! # C15 — Context and Canvas apply views, coordinate systems and state as documented

Theorems about the hand-written model `CanvasModel/C15.lean` of /repo/canvas.go.  The first part is
generic in the scalar type and in the matrix operations (`Ops α`); the second part instantiates the
model with the *generated* translations of /repo/util.go over an arbitrary linearly ordered field
(`opsK`), with `Path.checkDash` (`cd`) and the float→int truncation (`tr`) left arbitrary.
The model is tied to the code by the bit-exact correspondence run of `bin/check C15`. -/
set_option linter.unusedSectionVars false
set_option linter.unusedVariables false
namespace C15
open Canvas Canvas.C15 GenK

/-! ## Part 1 — state discipline, generic -/
section Generic
variable {α : Type} (o : Ops α)

/-- histories in which every Pop matches an earlier Push of the same history -/
inductive Balanced : List (Op α) → Prop
  | nil : Balanced []
  | op (x : Op α) (h : List (Op α)) : x.isStack = false → Balanced h → Balanced (x :: h)
  | nest (h1 h2 : List (Op α)) : Balanced h1 → Balanced h2 → Balanced (Op.push :: h1 ++ Op.pop :: h2)

/-- a balanced history leaves the stack exactly as it found it (any nesting depth) -/
theorem balanced_stack (h : List (Op α)) (hb : Balanced h) : ∀ c : Ctx α, (run o h c).stack = c.stack := by
  induction hb with
  | nil => intro c; rfl
  | op x h hx _ ih => intro c; exact (ih (step o x c)).trans (step_stack o x c hx)
  | nest h1 h2 _ _ ih1 ih2 =>
    intro c
    show (run o (h1 ++ Op.pop :: h2) (step o Op.push c)).stack = c.stack
    rw [run_append]
    show (run o h2 (step o Op.pop (run o h1 (step o Op.push c)))).stack = c.stack
    rw [ih2]
    have h1s : (run o h1 (step o Op.push c)).stack = c.st :: c.stack := ih1 _
    rw [step_pop_of_stack o _ _ _ h1s]

/-- Push … Pop around any balanced history restores style, view, coordinate view and coordinate
system exactly, and leaves the stack unchanged. -/
theorem push_pop_restore (h : List (Op α)) (hb : Balanced h) (c : Ctx α) :
    (run o (Op.push :: h ++ [Op.pop]) c).st = c.st ∧
    (run o (Op.push :: h ++ [Op.pop]) c).stack = c.stack := by
  have e : run o (Op.push :: h ++ [Op.pop]) c = step o Op.pop (run o h (step o Op.push c)) := by
    show run o (h ++ [Op.pop]) (step o Op.push c) = _
    rw [run_append]; rfl
  have hs : (run o h (step o Op.push c)).stack = c.st :: c.stack := balanced_stack o h hb _
  rw [e, step_pop_of_stack o _ _ _ hs]
  exact ⟨rfl, rfl⟩

/-- Pop on an empty stack does nothing. -/
theorem pop_empty_noop (c : Ctx α) (h : c.stack = []) : step o Op.pop c = c := by
  simp only [step, h]

/-- Setters (style, view, coordinate system/view, z-index) and Push/Pop make no renderer call and
change no recorded layer: they affect only subsequent draws. -/
theorem setters_local (op : Op α) (c : Ctx α) (hd : op.isDraw = false) (hc : op.isCanvasOp = false) :
    (step o op c).emitted = c.emitted ∧ (step o op c).cv.layers = c.cv.layers ∧
    (step o op c).cv.log = c.cv.log ∧ (step o op c).cv.W = c.cv.W ∧ (step o op c).cv.H = c.cv.H :=
  ⟨step_emitted_of_not_draw o op c hd, step_cv_of_setter o op c hd hc⟩

/-- Draws and canvas operations do not touch the Context state. -/
theorem draws_leave_state (op : Op α) (c : Ctx α) (h : op.isDraw = true ∨ op.isCanvasOp = true) :
    (step o op c).st = c.st ∧ (step o op c).stack = c.stack := step_st_of_draw o op c h

/-- The calls a renderer has received are never changed by any later history. -/
theorem recorded_calls_immutable (h : List (Op α)) (c : Ctx α) : c.emitted <+: (run o h c).emitted :=
  run_emitted_prefix o h c

/-- A draw records exactly its renderer calls, in order, under the z-index current at that time. -/
theorem draw_recorded (op : Op α) (c : Ctx α) (h : op.isDraw = true) :
    (step o op c).emitted = c.emitted ++ drawCalls o op c ∧
    (step o op c).cv.log = c.cv.log ++ (drawCalls o op c).map (fun k => (c.cv.z, k)) :=
  ⟨step_emitted o op c, step_log_of_draw o op c h⟩

/-- `RenderViewTo` replays exactly the recorded layers (a permutation of the recording-order log,
each pre-multiplied by the view), in ascending z-index, and in drawing order within one z-index —
for the canvas reached by *any* history (arbitrary z changes, Transform/Clip/Fit/Reset in between). -/
theorem replay_order (h : List (Op α)) (W H : α) (view : Mat α) :
    let cv := (run o h (newContext o (newCanvas W H))).cv
    cv.renderViewTo o view = (replayZ o view cv).map (·.2) ∧
    (replayZ o view cv).Perm (cv.log.map (fun zc => (zc.1, Call.pre o view zc.2))) ∧
    (replayZ o view cv).Pairwise (fun a b => a.1 ≤ b.1) ∧
    ∀ k : Int, (replayZ o view cv).filter (fun a => decide (a.1 = k)) =
      (cv.log.filter (fun zc => decide (zc.1 = k))).map (fun zc => (zc.1, Call.pre o view zc.2)) := by
  intro cv
  have hw : WF cv := WF_run o h _ (WF_new W H)
  exact ⟨(replayZ_snd o view cv).symm, replay_perm o view cv hw, replay_sorted o view cv hw,
    fun k => replay_stable o view cv hw k⟩

end Generic

/-! ## Part 2 — matrices: the generated definitions over an ordered field -/
variable {K : Type} [Field K] [LinearOrder K] [IsStrictOrderedRing K] [Env K]
variable (tr : K → K) (cd : K → List K → K → List K × Bool)

/-- the elementary matrix of each view composer, as the code builds it -/
def composerMat : Op K → Option (Mat K)
  | .composeView m => some m
  | .translate x y => some (Matrix.Translate C07.ident x y)
  | .reflectX => some (Matrix.ReflectX C07.ident)
  | .reflectY => some (Matrix.ReflectY C07.ident)
  | .reflectXAbout x => some (Matrix.ReflectXAbout C07.ident x)
  | .reflectYAbout y => some (Matrix.ReflectYAbout C07.ident y)
  | .rotate sn cs => some (Matrix.Mul C07.ident ⟨cs, -sn, 0, sn, cs, 0⟩)
  | .rotateAbout sn cs x y =>
    some (Matrix.Translate (Matrix.Mul (Matrix.Translate C07.ident x y) ⟨cs, -sn, 0, sn, cs, 0⟩) (-x) (-y))
  | .scale sx sy => some (Matrix.Scale C07.ident sx sy)
  | .scaleAbout sx sy x y => some (Matrix.ScaleAbout C07.ident sx sy x y)
  | .shear sx sy => some (Matrix.Shear C07.ident sx sy)
  | .shearAbout sx sy x y => some (Matrix.ShearAbout C07.ident sx sy x y)
  | _ => none

/-- the documented action of each composer on a point -/
def composerAct : Op K → Pt K → Pt K
  | .composeView m, p => Matrix.Dot m p
  | .translate x y, p => ⟨p.x + x, p.y + y⟩
  | .reflectX, p => ⟨-p.x, p.y⟩
  | .reflectY, p => ⟨p.x, -p.y⟩
  | .reflectXAbout x, p => ⟨2 * x - p.x, p.y⟩
  | .reflectYAbout y, p => ⟨p.x, 2 * y - p.y⟩
  | .rotate sn cs, p => ⟨cs * p.x - sn * p.y, sn * p.x + cs * p.y⟩
  | .rotateAbout sn cs x y, p => ⟨x + (cs * (p.x - x) - sn * (p.y - y)), y + (sn * (p.x - x) + cs * (p.y - y))⟩
  | .scale sx sy, p => ⟨sx * p.x, sy * p.y⟩
  | .scaleAbout sx sy x y, p => ⟨x + sx * (p.x - x), y + sy * (p.y - y)⟩
  | .shear sx sy, p => ⟨p.x + sx * p.y, sy * p.x + p.y⟩
  | .shearAbout sx sy x y, p => ⟨x + ((p.x - x) + sx * (p.y - y)), y + (sy * (p.x - x) + (p.y - y))⟩
  | _, p => p

/-- Every view composer post-multiplies: `view := view · E`, nothing else changes, so a drawn point
is first transformed by the new `E` and then by the previous view. -/
theorem views_postmultiply (op : Op K) (E : Mat K) (hE : composerMat op = some E) (c : Ctx K) :
    step (opsK tr cd) op c = c.withView (Matrix.Mul c.st.view E) ∧
    ∀ p, Matrix.Dot (Matrix.Mul c.st.view E) p = Matrix.Dot c.st.view (Matrix.Dot E p) := by
  refine ⟨?_, fun p => C07.dot_mul _ _ _⟩
  cases op <;> simp only [composerMat, Option.some.injEq, reduceCtorEq] at hE <;> subst hE <;> rfl

/-- …and `E` acts on points as documented (Translate, Rotate by the angle whose sine/cosine are
given, Scale, Shear, Reflect, the *About variants about their centre). -/
theorem composer_action (op : Op K) (E : Mat K) (hE : composerMat op = some E) (p : Pt K) :
    Matrix.Dot E p = composerAct op p := by
  cases op <;> simp only [composerMat, Option.some.injEq, reduceCtorEq] at hE <;> subst hE <;>
    simp only [composerAct, C07.ident, Matrix.Translate, Matrix.ReflectX, Matrix.ReflectY, Matrix.ReflectXAbout,
      Matrix.ReflectYAbout, Matrix.Scale, Matrix.ScaleAbout, Matrix.Shear, Matrix.ShearAbout, Matrix.Mul,
      Matrix.Dot] <;>
    first | rfl | (congr 1 <;> ring)

/-- ResetView / SetView replace the view. -/
theorem view_reset_set (c : Ctx K) (m : Mat K) :
    (step (opsK tr cd) .resetView c).st.view = C07.ident ∧ (step (opsK tr cd) (.setView m) c).st.view = m :=
  ⟨rfl, rfl⟩

/-- The coordinate-system matrix puts the origin in the documented corner of the W×H canvas and
flips exactly the documented axes: I bottom-left, II bottom-right (x to the left), III top-right
(both flipped), IV top-left (y downwards). -/
theorem coord_origin (W H : K) (p : Pt K) :
    Matrix.Dot (csv (opsK tr cd) .I W H) p = p ∧
    Matrix.Dot (csv (opsK tr cd) .II W H) p = ⟨W - p.x, p.y⟩ ∧
    Matrix.Dot (csv (opsK tr cd) .III W H) p = ⟨W - p.x, H - p.y⟩ ∧
    Matrix.Dot (csv (opsK tr cd) .IV W H) p = ⟨p.x, H - p.y⟩ := by
  refine ⟨?_, ?_, ?_, ?_⟩ <;>
    simp only [csv, opsK, arithK, Matrix.ReflectXAbout, Matrix.ReflectYAbout, Matrix.Translate, Matrix.Scale,
      Matrix.Mul, Matrix.Dot] <;>
    (cases p; congr 1 <;> ring)

/-- the coordinate-system matrix in one formula -/
theorem csv_dot (cs : CoordSys) (W H : K) (q : Pt K) :
    Matrix.Dot (csv (opsK tr cd) cs W H) q =
      ⟨if cs.flipX then W - q.x else q.x, if cs.flipY then H - q.y else q.y⟩ := by
  have h := coord_origin tr cd W H q
  cases cs
  · simpa [CoordSys.flipX, CoordSys.flipY] using h.1
  · simpa [CoordSys.flipX, CoordSys.flipY] using h.2.1
  · simpa [CoordSys.flipX, CoordSys.flipY] using h.2.2.1
  · simpa [CoordSys.flipX, CoordSys.flipY] using h.2.2.2

theorem dot_ident (q : Pt K) : Matrix.Dot C07.ident q = q := by
  cases q; simp [Matrix.Dot, C07.ident]

/-- the matrix every draw starts from -/
def baseK (c : Ctx K) (x y : K) : Mat K :=
  Matrix.Translate (Matrix.Mul (csv (opsK tr cd) c.st.cs c.cv.W c.cv.H) c.st.view)
    (Matrix.Dot c.st.coordView ⟨x, y⟩).x (Matrix.Dot c.st.coordView ⟨x, y⟩).y

theorem baseK_eq (c : Ctx K) (x y : K) : c.baseMatrix (opsK tr cd) x y = baseK tr cd c x y := rfl

/-- `CoordSystemView × View × Translate(CoordView·(x,y))` applied to a point -/
theorem baseK_dot (c : Ctx K) (x y : K) (p : Pt K) :
    Matrix.Dot (baseK tr cd c x y) p =
      Matrix.Dot (csv (opsK tr cd) c.st.cs c.cv.W c.cv.H)
        (Matrix.Dot c.st.view ⟨p.x + (Matrix.Dot c.st.coordView ⟨x, y⟩).x, p.y + (Matrix.Dot c.st.coordView ⟨x, y⟩).y⟩) := by
  rw [baseK, C07.translate_dot, C07.dot_mul]

def visible (c : Ctx K) : Bool := c.st.style.hasFill || c.st.style.hasStroke (opsK tr cd)

/-- DrawPath(x, y, paths…): one renderer call per path, each with the matrix
`CoordSystemView × View × Translate(CoordView·(x,y))`; nothing when the style neither fills nor strokes. -/
theorem draw_matrix (c : Ctx K) (x y : K) (ps : List (PathRef K)) :
    (∀ k ∈ drawCalls (opsK tr cd) (.drawPath x y ps) c, k.m = baseK tr cd c x y) ∧
    (visible tr cd c = true → (drawCalls (opsK tr cd) (.drawPath x y ps) c).length = ps.length) ∧
    (visible tr cd c = false → drawCalls (opsK tr cd) (.drawPath x y ps) c = []) := by
  unfold visible
  refine ⟨?_, ?_, ?_⟩
  · intro k hk
    simp only [drawCalls] at hk
    split at hk
    · simp at hk
    · exact loopCalls_m _ _ _ _ _ _ k hk
  · intro hv
    simp only [drawCalls]
    split
    · rename_i h; simp_all
    · exact loopCalls_length ..
  · intro hv
    simp only [drawCalls]
    split
    · rfl
    · rename_i h; simp_all

/-- the style a path receives when it is drawn on its own: the current style with the dash pattern
canonicalised by `checkDash` (and no stroke paint when `checkDash` finds that no dash reaches the path) -/
def styleFor (s : Style K) (p : PathRef K) : Style K :=
  { s with dashes := (cd s.dashOff s.dashes p.len).1,
           stroke := if (cd s.dashOff s.dashes p.len).2 then s.stroke else Paint.none }

/-- In `DrawPath(x, y, p₁ … pₙ)` every path is drawn with the current style (dash pattern as
canonicalised by `checkDash` for that path), whatever `checkDash` says about the other paths of the
same call: the renderer calls are exactly one per path, in order. -/
theorem draw_style_loop (s : Style K) (m : Mat K) (ps : List (PathRef K)) :
    loopCalls (opsK tr cd) s.dashOff s.dashes m s ps = ps.map (fun p => ⟨.path p (styleFor cd s p), m⟩) := by
  induction ps with
  | nil => rfl
  | cons p ps ih => simp only [loopCalls, List.map_cons, ih]; rfl

theorem draw_style (c : Ctx K) (x y : K) (ps : List (PathRef K)) (hv : visible tr cd c = true) :
    drawCalls (opsK tr cd) (.drawPath x y ps) c =
      ps.map (fun p => ⟨.path p (styleFor cd c.st.style p), baseK tr cd c x y⟩) := by
  unfold visible at hv
  simp only [drawCalls]
  split
  · rename_i h; simp_all
  · rw [baseK_eq]; exact draw_style_loop tr cd c.st.style _ ps

/-- DrawText: the extra reflections cancel the coordinate system's flips — the text is anchored at
`CoordSystemView × View × CoordView·(x,y)` and, in every coordinate system, for the identity view
it is merely translated (upright, not mirrored). -/
theorem text_upright (c : Ctx K) (x y : K) (t : TextRef K) (ht : t.empty = false) :
    ∃ m, drawCalls (opsK tr cd) (.drawText x y t) c = [⟨.text t, m⟩] ∧
      (∀ p : Pt K, Matrix.Dot m p = Matrix.Dot (baseK tr cd c x y)
        ⟨(if c.st.cs.flipX then -1 else 1) * p.x, (if c.st.cs.flipY then -1 else 1) * p.y⟩) ∧
      (c.st.view = C07.ident → ∀ p : Pt K, Matrix.Dot m p =
        ⟨(Matrix.Dot (baseK tr cd c x y) ⟨0, 0⟩).x + p.x, (Matrix.Dot (baseK tr cd c x y) ⟨0, 0⟩).y + p.y⟩) := by
  refine ⟨(fun m => if c.st.cs.flipX then Matrix.ReflectX m else m)
      ((fun m => if c.st.cs.flipY then Matrix.ReflectY m else m) (baseK tr cd c x y)), ?_, ?_, ?_⟩
  · simp only [drawCalls, ht, Bool.false_eq_true, if_false, baseK_eq]; rfl
  · intro p
    generalize baseK tr cd c x y = b
    cases hcs : c.st.cs <;>
      simp only [CoordSys.flipX, CoordSys.flipY, Matrix.ReflectX, Matrix.ReflectY, Matrix.Scale, Matrix.Mul,
        Matrix.Dot, if_true, if_false, Bool.false_eq_true] <;>
      (congr 1 <;> ring)
  · intro hv p
    have h2 : Matrix.Dot ((fun m => if c.st.cs.flipX then Matrix.ReflectX m else m)
        ((fun m => if c.st.cs.flipY then Matrix.ReflectY m else m) (baseK tr cd c x y))) p =
        Matrix.Dot (baseK tr cd c x y)
          ⟨(if c.st.cs.flipX then -1 else 1) * p.x, (if c.st.cs.flipY then -1 else 1) * p.y⟩ := by
      generalize baseK tr cd c x y = b
      cases hcs : c.st.cs <;>
        simp only [CoordSys.flipX, CoordSys.flipY, Matrix.ReflectX, Matrix.ReflectY, Matrix.Scale, Matrix.Mul,
          Matrix.Dot, if_true, if_false, Bool.false_eq_true] <;>
        (congr 1 <;> ring)
    rw [h2]
    simp only [baseK_dot, hv, dot_ident, csv_dot]
    cases hcs : c.st.cs <;>
      simp only [CoordSys.flipX, CoordSys.flipY, if_true, if_false, Bool.false_eq_true] <;>
      (congr 1 <;> ring)

/-- DrawImage: in every coordinate system the image is upright — for the identity view pixel `p` lands at
`anchor + (p − corner)/res` with the *positive* scale 1/res on both axes, where `anchor` is the
mapped position (x,y) and `corner` the image corner nearest to the system's origin side
(e.g. the top-left corner in CartesianIV). -/
theorem image_upright (c : Ctx K) (x y : K) (i : ImgRef K) (res : K) (hne : ¬ (i.w = 0 ∧ i.h = 0)) :
    ∃ m, drawCalls (opsK tr cd) (.drawImage x y i res) c = [⟨.image i, m⟩] ∧
      (∀ p : Pt K, Matrix.Dot m p = Matrix.Dot (baseK tr cd c x y)
        ⟨(if c.st.cs.flipX then -1 else 1) * (p.x - (if c.st.cs.flipX then i.w else 0)) / res,
         (if c.st.cs.flipY then -1 else 1) * (p.y - (if c.st.cs.flipY then i.h else 0)) / res⟩) ∧
      (c.st.view = C07.ident → ∀ p : Pt K, Matrix.Dot m p =
        ⟨(Matrix.Dot (baseK tr cd c x y) ⟨0, 0⟩).x + (p.x - (if c.st.cs.flipX then i.w else 0)) / res,
         (Matrix.Dot (baseK tr cd c x y) ⟨0, 0⟩).y + (p.y - (if c.st.cs.flipY then i.h else 0)) / res⟩) := by
  have hz : ((opsK tr cd).beq i.w (opsK tr cd).zero && (opsK tr cd).beq i.h (opsK tr cd).zero) = false := by
    simp only [opsK, arithK, Bool.and_eq_false_imp, decide_eq_true_eq, decide_eq_false_iff_not]
    intro h1 h2; exact hne ⟨h1, h2⟩
  refine ⟨imageFlip (opsK tr cd) c.st.cs (Matrix.Scale (baseK tr cd c x y) (1 / res) (1 / res)) i.w i.h, ?_, ?_, ?_⟩
  · simp only [drawCalls, hz, Bool.false_eq_true, if_false, baseK_eq]; rfl
  · intro p
    generalize baseK tr cd c x y = b
    cases hcs : c.st.cs <;>
      simp only [imageFlip, CoordSys.flipX, CoordSys.flipY, opsK, arithK, Matrix.ReflectXAbout, Matrix.ReflectYAbout,
        Matrix.Translate, Matrix.Scale, Matrix.Mul, Matrix.Dot, if_true, if_false, Bool.false_eq_true] <;>
      (congr 1 <;> ring)
  · intro hv p
    have h2 : Matrix.Dot (imageFlip (opsK tr cd) c.st.cs (Matrix.Scale (baseK tr cd c x y) (1 / res) (1 / res)) i.w i.h) p =
        Matrix.Dot (baseK tr cd c x y)
          ⟨(if c.st.cs.flipX then -1 else 1) * (p.x - (if c.st.cs.flipX then i.w else 0)) / res,
           (if c.st.cs.flipY then -1 else 1) * (p.y - (if c.st.cs.flipY then i.h else 0)) / res⟩ := by
      generalize baseK tr cd c x y = b
      cases hcs : c.st.cs <;>
        simp only [imageFlip, CoordSys.flipX, CoordSys.flipY, opsK, arithK, Matrix.ReflectXAbout, Matrix.ReflectYAbout,
          Matrix.Translate, Matrix.Scale, Matrix.Mul, Matrix.Dot, if_true, if_false, Bool.false_eq_true] <;>
        (congr 1 <;> ring)
    rw [h2]
    simp only [baseK_dot, hv, dot_ident, csv_dot]
    cases hcs : c.st.cs <;>
      simp only [CoordSys.flipX, CoordSys.flipY, if_true, if_false, Bool.false_eq_true] <;>
      (congr 1 <;> ring)

/-- Transform moves all layers consistently: replaying the transformed canvas through `view` is
replaying the original canvas through `view · m` (Clip and Fit are Transform by a translation). -/
theorem transform_consistent (m view : Mat K) (cv : Canvas K) :
    (cv.transform (opsK tr cd) m).renderViewTo (opsK tr cd) view
      = cv.renderViewTo (opsK tr cd) (Matrix.Mul view m) := by
  simp only [Canvas.renderViewTo, Canvas.transform, List.map_map]
  have hk : (List.map ((fun x => x.1) ∘ fun kl : Int × List (Call K) => (kl.1, List.map (Call.pre (opsK tr cd) m) kl.2)) cv.layers)
      = List.map (fun x => x.1) cv.layers := by
    apply List.map_congr_left; intro a _; rfl
  rw [hk]
  congr 1
  funext k
  rw [lookupZ_map, List.map_map]
  apply List.map_congr_left
  intro a _
  simp only [Function.comp, Call.pre, opsK]
  rw [C07.mul_assoc]

theorem clip_is_translation (r : Rct K) (cv : Canvas K) :
    (cv.clip (opsK tr cd) r).layers = (cv.transform (opsK tr cd) (Matrix.Translate C07.ident (-r.x0) (-r.y0))).layers ∧
    (cv.clip (opsK tr cd) r).W = r.x1 - r.x0 ∧ (cv.clip (opsK tr cd) r).H = r.y1 - r.y0 := ⟨rfl, rfl, rfl⟩

/-- full statement of fit_inside: every layer with non-empty bounds ends up inside the margins -/
def fit_inside_statement : Prop :=
  ∀ (c : Ctx K) (μ : K),
    let c' := step (opsK tr cd) (.cvFit μ) c
    ∀ kl ∈ c'.cv.layers, ∀ k ∈ kl.2,
      rectEmpty (opsK tr cd) (itemBounds (opsK tr cd) k.item) = false →
      ∀ p : Pt K, (itemBounds (opsK tr cd) k.item).x0 ≤ p.x → p.x ≤ (itemBounds (opsK tr cd) k.item).x1 →
                  (itemBounds (opsK tr cd) k.item).y0 ≤ p.y → p.y ≤ (itemBounds (opsK tr cd) k.item).y1 →
        μ ≤ (Matrix.Dot k.m p).x ∧ (Matrix.Dot k.m p).x ≤ c'.cv.W - μ ∧
        μ ≤ (Matrix.Dot k.m p).y ∧ (Matrix.Dot k.m p).y ≤ c'.cv.H - μ

/-- After `Fit(μ)` every point of the bounds (path bounds ± half the stroke width, text bounds,
image rectangle) of every layer, transformed by the layer's new matrix, lies in
`[μ, W−μ] × [μ, H−μ]` of the new canvas size. Proved for canvases in which no layer's transformed
bounds degenerate to an Epsilon-thin rectangle (such a layer makes `rect.Empty()` true and is
overwritten by the next one: content that is thinner than 1e-10 mm). -/
theorem fit_inside_partial (c : Ctx K) (μ : K) (hnd : NonDegenerate tr cd c.cv) :
    let c' := step (opsK tr cd) (.cvFit μ) c
    ∀ kl ∈ c'.cv.layers, ∀ k ∈ kl.2,
      rectEmpty (opsK tr cd) (itemBounds (opsK tr cd) k.item) = false →
      ∀ p : Pt K, (itemBounds (opsK tr cd) k.item).x0 ≤ p.x → p.x ≤ (itemBounds (opsK tr cd) k.item).x1 →
                  (itemBounds (opsK tr cd) k.item).y0 ≤ p.y → p.y ≤ (itemBounds (opsK tr cd) k.item).y1 →
        μ ≤ (Matrix.Dot k.m p).x ∧ (Matrix.Dot k.m p).x ≤ c'.cv.W - μ ∧
        μ ≤ (Matrix.Dot k.m p).y ∧ (Matrix.Dot k.m p).y ≤ c'.cv.H - μ :=
  fit_inside_layers tr cd c.cv μ hnd

/-- non-vacuity: a canvas with one 1×1 image layer under the identity matrix is non-degenerate
(for any Epsilon below 1) -/
example (heps : (Env.epsilon : K) < 1) :
    NonDegenerate tr cd ({ layers := [(0, [⟨.image ⟨1, 1⟩, C07.ident⟩])], z := 0, W := 10, H := 10, log := [] } : Canvas K) := by
  intro kl hkl k hk _
  simp only [List.mem_singleton] at hkl
  subst hkl
  simp only [List.mem_singleton] at hk
  subst hk
  have h01 : ¬ ((1 : K) < 0) := not_lt.mpr zero_le_one
  have h10 : ¬ ((1 : K) ≤ Env.epsilon) := not_le.mpr heps
  simp [rectEmpty, itemBounds, opsK, arithK, Rect.Transform, Matrix.Dot, C07.ident, Equal, h01, h10]

/-- non-vacuity of `Balanced`: Push; Push; Pop; draw; Pop is balanced when wrapped -/
example : Balanced ([Op.push, Op.pop, Op.resetView] : List (Op K)) :=
  Balanced.nest [] [Op.resetView] Balanced.nil (Balanced.op _ _ rfl Balanced.nil)

end C15
