import CanvasProofs.Lemmas.C15Ops
import CanvasProofs.Lemmas.C15Core
import CanvasProofs.Lemmas.C15Replay
import CanvasProofs.Lemmas.C15Fit
import CanvasProofs.Lemmas.C15Spec
import CanvasProofs.Lemmas.C15HeapLemmas
import CanvasModel.C15Verdict
import CanvasProofs.Lemmas.C15Mat
import Mathlib.Tactic.Ring
import Mathlib.Tactic.FieldSimp
import Mathlib.Tactic.Linarith

/-! # C15 — Context and Canvas apply views, coordinate systems and state as documented

Theorems about the hand-written model `CanvasModel/C15.lean` of /repo/canvas.go.  The first part is
generic in the scalar type and in the matrix operations (`Ops α`); the second part instantiates the
model with the *generated* translations of /repo/util.go over an arbitrary linearly ordered field
(`opsK`), with `Path.checkDash` (`cd`) and the float→int truncation (`tr`) left arbitrary.
The model is tied to the code by the bit-exact correspondence run of `bin/check C15`. -/
set_option linter.unusedSectionVars false
set_option linter.unusedVariables false
namespace C15
open Canvas Canvas.C15 GenK

/-! ## Part 1 — state discipline, generic -/
section Generic
variable {α : Type} (o : Ops α)

/-- histories in which every Pop matches an earlier Push of the same history -/
inductive Balanced : List (Op α) → Prop
  | nil : Balanced []
  | op (x : Op α) (h : List (Op α)) : x.isStack = false → Balanced h → Balanced (x :: h)
  | nest (h1 h2 : List (Op α)) : Balanced h1 → Balanced h2 → Balanced (Op.push :: h1 ++ Op.pop :: h2)

/-- a balanced history leaves the stack exactly as it found it (any nesting depth) -/
theorem balanced_stack (h : List (Op α)) (hb : Balanced h) : ∀ c : Ctx α, (run o h c).stack = c.stack := by
  induction hb with
  | nil => intro c; rfl
  | op x h hx _ ih => intro c; exact (ih (step o x c)).trans (step_stack o x c hx)
  | nest h1 h2 _ _ ih1 ih2 =>
    intro c
    show (run o (h1 ++ Op.pop :: h2) (step o Op.push c)).stack = c.stack
    rw [run_append]
    show (run o h2 (step o Op.pop (run o h1 (step o Op.push c)))).stack = c.stack
    rw [ih2]
    have h1s : (run o h1 (step o Op.push c)).stack = c.st :: c.stack := ih1 _
    rw [step_pop_of_stack o _ _ _ h1s]

/-- Push … Pop around any balanced history restores style, view, coordinate view and coordinate
system exactly, and leaves the stack unchanged. -/
theorem push_pop_restore (h : List (Op α)) (hb : Balanced h) (c : Ctx α) :
    (run o (Op.push :: h ++ [Op.pop]) c).st = c.st ∧
    (run o (Op.push :: h ++ [Op.pop]) c).stack = c.stack := by
  have e : run o (Op.push :: h ++ [Op.pop]) c = step o Op.pop (run o h (step o Op.push c)) := by
    show run o (h ++ [Op.pop]) (step o Op.push c) = _
    rw [run_append]; rfl
  have hs : (run o h (step o Op.push c)).stack = c.st :: c.stack := balanced_stack o h hb _
  rw [e, step_pop_of_stack o _ _ _ hs]
  exact ⟨rfl, rfl⟩

/-- Pop on an empty stack does nothing. -/
theorem pop_empty_noop (c : Ctx α) (h : c.stack = []) : step o Op.pop c = c := by
  simp only [step, h]

/-- Setters (style, view, coordinate system/view, z-index) and Push/Pop make no renderer call and
change no recorded layer: they affect only subsequent draws. -/
theorem setters_local (op : Op α) (c : Ctx α) (hd : op.isDraw = false) (hc : op.isCanvasOp = false) :
    (step o op c).emitted = c.emitted ∧ (step o op c).cv.layers = c.cv.layers ∧
    (step o op c).cv.log = c.cv.log ∧ (step o op c).cv.W = c.cv.W ∧ (step o op c).cv.H = c.cv.H :=
  ⟨step_emitted_of_not_draw o op c hd, step_cv_of_setter o op c hd hc⟩

/-- Draws and canvas operations do not touch the Context state. -/
theorem draws_leave_state (op : Op α) (c : Ctx α) (h : op.isDraw = true ∨ op.isCanvasOp = true) :
    (step o op c).st = c.st ∧ (step o op c).stack = c.stack := step_st_of_draw o op c h

/-- The calls a renderer has received are never changed by any later history. -/
theorem recorded_calls_immutable (h : List (Op α)) (c : Ctx α) : c.emitted <+: (run o h c).emitted :=
  run_emitted_prefix o h c

/-- A draw records exactly its renderer calls, in order, under the z-index current at that time. -/
theorem draw_recorded (op : Op α) (c : Ctx α) (h : op.isDraw = true) :
    (step o op c).emitted = c.emitted ++ drawCalls o op c ∧
    (step o op c).cv.log = c.cv.log ++ (drawCalls o op c).map (fun k => (c.cv.z, k)) :=
  ⟨step_emitted o op c, step_log_of_draw o op c h⟩

/-- `RenderViewTo` replays exactly the recorded layers (a permutation of the recording-order log,
each pre-multiplied by the view), in ascending z-index, and in drawing order within one z-index —
for the canvas reached by *any* history (arbitrary z changes, Transform/Clip/Fit/Reset in between). -/
theorem replay_order (h : List (Op α)) (W H : α) (view : Mat α) :
    let cv := (run o h (newContext o (newCanvas W H))).cv
    cv.renderViewTo o view = (replayZ o view cv).map (·.2) ∧
    (replayZ o view cv).Perm (cv.log.map (fun zc => (zc.1, Call.pre o view zc.2))) ∧
    (replayZ o view cv).Pairwise (fun a b => a.1 ≤ b.1) ∧
    ∀ k : Int, (replayZ o view cv).filter (fun a => decide (a.1 = k)) =
      (cv.log.filter (fun zc => decide (zc.1 = k))).map (fun zc => (zc.1, Call.pre o view zc.2)) := by
  intro cv
  have hw : WF cv := WF_run o h _ (WF_new W H)
  exact ⟨(replayZ_snd o view cv).symm, replay_perm o view cv hw, replay_sorted o view cv hw,
    fun k => replay_stable o view cv hw k⟩

/-! ### refinement to the abstract specification (no map: a canvas is its recording-order log) -/

/-- For the canvas reached by any history (draws under arbitrary z-indices, Transform, Clip, Fit,
Reset, nested RenderViewTo) the association list modelling the Go map `layers` is exactly the
recording-order log grouped by z-index. -/
theorem layers_are_grouped_log (h : List (Op α)) (W H : α) :
    Grouped (run o h (newContext o (newCanvas W H))).cv :=
  Grouped_run o h _ (Grouped_new W H)

/-- The specification's sort is a sort, is stable, and is the only list with these properties. -/
theorem stable_sort_spec {β : Type} (l : List (Int × β)) :
    (stableSortZ l).Perm l ∧ (stableSortZ l).Pairwise (fun a b => a.1 ≤ b.1) ∧
    (∀ k : Int, (stableSortZ l).filter (fun a => decide (a.1 = k)) = l.filter (fun a => decide (a.1 = k))) ∧
    (∀ l' : List (Int × β), l'.Pairwise (fun a b => a.1 ≤ b.1) →
      (∀ k : Int, l'.filter (fun a => decide (a.1 = k)) = l.filter (fun a => decide (a.1 = k))) → l' = stableSortZ l) :=
  ⟨stableSortZ_perm l, stableSortZ_sorted l, stableSortZ_stable l,
   fun l' h1 h2 => sorted_stable_unique l' _ h1 (stableSortZ_sorted l) (fun k => (h2 k).trans (stableSortZ_stable l k).symm)⟩

/-- `RenderViewTo` emits exactly the log stably sorted by z, each call pre-multiplied by the view
(an equation, for the canvas reached by any history). -/
theorem replay_is_stable_sort (h : List (Op α)) (W H : α) (view : Mat α) :
    let cv := (run o h (newContext o (newCanvas W H))).cv
    cv.renderViewTo o view = (stableSortZ cv.log).map (fun zc => Call.pre o view zc.2) := by
  intro cv
  exact renderViewTo_eq_spec o view cv (Grouped_WF cv (layers_are_grouped_log o h W H))

/-- Refinement: projecting the model state to the abstract state (Context state, stack, renderer
calls, and a canvas that is only `(log, z, W, H)`) commutes with every history; the abstract machine
`specStep` appends draws to the log under the current z, maps the log for Transform/Clip/Fit, clears
it for Reset and flattens it for a nested replay. -/
theorem refines_abstract_spec (h : List (Op α)) (W H : α) :
    absCtx (run o h (newContext o (newCanvas W H))) = specRun o h (absCtx (newContext o (newCanvas W H))) :=
  refinement_run o h _ (Grouped_new W H)

/-- …and what `RenderViewTo` emits after any history is the replay of the abstract machine:
the recorded operations in ascending z, then drawing order, each with the style and matrix recorded
for it (moved by the canvas transformations applied since) . -/
theorem replay_refines_spec (h : List (Op α)) (W H : α) (view : Mat α) :
    (run o h (newContext o (newCanvas W H))).cv.renderViewTo o view
      = ACanvas.replay o view (specRun o h (absCtx (newContext o (newCanvas W H)))).cv :=
  replay_refines o h W H view

/-- Nested canvases: replaying a canvas into a fresh canvas records the stably sorted replay in
drawing order under the fresh canvas' z-index 0. -/
theorem nested_canvas_log (h : List (Op α)) (W H W' H' : α) (view : Mat α) :
    let src := (run o h (newContext o (newCanvas W H))).cv
    (src.renderInto o view (newCanvas W' H')).log =
      (stableSortZ src.log).map (fun zc => ((0 : Int), Call.pre o view zc.2)) := by
  intro src
  exact nested_replay_log o src view W' H' (Grouped_WF src (layers_are_grouped_log o h W H))

end Generic

/-! ## Part 2 — matrices: the generated definitions over an ordered field -/
variable {K : Type} [Field K] [LinearOrder K] [IsStrictOrderedRing K] [Env K]
variable (tr : K → K) (cd : K → List K → K → List K × Bool)

/-- the elementary matrix of each view composer, as the code builds it -/
def composerMat : Op K → Option (Mat K)
  | .composeView m => some m
  | .translate x y => some (Matrix.Translate C15M.ident x y)
  | .reflectX => some (Matrix.ReflectX C15M.ident)
  | .reflectY => some (Matrix.ReflectY C15M.ident)
  | .reflectXAbout x => some (Matrix.ReflectXAbout C15M.ident x)
  | .reflectYAbout y => some (Matrix.ReflectYAbout C15M.ident y)
  | .rotate sn cs => some (Matrix.Mul C15M.ident ⟨cs, -sn, 0, sn, cs, 0⟩)
  | .rotateAbout sn cs x y =>
    some (Matrix.Translate (Matrix.Mul (Matrix.Translate C15M.ident x y) ⟨cs, -sn, 0, sn, cs, 0⟩) (-x) (-y))
  | .scale sx sy => some (Matrix.Scale C15M.ident sx sy)
  | .scaleAbout sx sy x y => some (Matrix.ScaleAbout C15M.ident sx sy x y)
  | .shear sx sy => some (Matrix.Shear C15M.ident sx sy)
  | .shearAbout sx sy x y => some (Matrix.ShearAbout C15M.ident sx sy x y)
  | _ => none

/-- the documented action of each composer on a point -/
def composerAct : Op K → Pt K → Pt K
  | .composeView m, p => Matrix.Dot m p
  | .translate x y, p => ⟨p.x + x, p.y + y⟩
  | .reflectX, p => ⟨-p.x, p.y⟩
  | .reflectY, p => ⟨p.x, -p.y⟩
  | .reflectXAbout x, p => ⟨2 * x - p.x, p.y⟩
  | .reflectYAbout y, p => ⟨p.x, 2 * y - p.y⟩
  | .rotate sn cs, p => ⟨cs * p.x - sn * p.y, sn * p.x + cs * p.y⟩
  | .rotateAbout sn cs x y, p => ⟨x + (cs * (p.x - x) - sn * (p.y - y)), y + (sn * (p.x - x) + cs * (p.y - y))⟩
  | .scale sx sy, p => ⟨sx * p.x, sy * p.y⟩
  | .scaleAbout sx sy x y, p => ⟨x + sx * (p.x - x), y + sy * (p.y - y)⟩
  | .shear sx sy, p => ⟨p.x + sx * p.y, sy * p.x + p.y⟩
  | .shearAbout sx sy x y, p => ⟨x + ((p.x - x) + sx * (p.y - y)), y + (sy * (p.x - x) + (p.y - y))⟩
  | _, p => p

/-- Every view composer post-multiplies: `view := view · E`, nothing else changes, so a drawn point
is first transformed by the new `E` and then by the previous view. -/
theorem views_postmultiply (op : Op K) (E : Mat K) (hE : composerMat op = some E) (c : Ctx K) :
    step (opsK tr cd) op c = c.withView (Matrix.Mul c.st.view E) ∧
    ∀ p, Matrix.Dot (Matrix.Mul c.st.view E) p = Matrix.Dot c.st.view (Matrix.Dot E p) := by
  refine ⟨?_, fun p => C15M.dot_mul _ _ _⟩
  cases op <;> simp only [composerMat, Option.some.injEq, reduceCtorEq] at hE <;> subst hE <;> rfl

/-- …and `E` acts on points as documented (Translate, Rotate by the angle whose sine/cosine are
given, Scale, Shear, Reflect, the *About variants about their centre). -/
theorem composer_action (op : Op K) (E : Mat K) (hE : composerMat op = some E) (p : Pt K) :
    Matrix.Dot E p = composerAct op p := by
  cases op <;> simp only [composerMat, Option.some.injEq, reduceCtorEq] at hE <;> subst hE <;>
    simp only [composerAct, C15M.ident, Matrix.Translate, Matrix.ReflectX, Matrix.ReflectY, Matrix.ReflectXAbout,
      Matrix.ReflectYAbout, Matrix.Scale, Matrix.ScaleAbout, Matrix.Shear, Matrix.ShearAbout, Matrix.Mul,
      Matrix.Dot] <;>
    first | rfl | (congr 1 <;> ring)

/-- ResetView / SetView replace the view. -/
theorem view_reset_set (c : Ctx K) (m : Mat K) :
    (step (opsK tr cd) .resetView c).st.view = C15M.ident ∧ (step (opsK tr cd) (.setView m) c).st.view = m :=
  ⟨rfl, rfl⟩

/-- The coordinate-system matrix puts the origin in the documented corner of the W×H canvas and
flips exactly the documented axes: I bottom-left, II bottom-right (x to the left), III top-right
(both flipped), IV top-left (y downwards). -/
theorem coord_origin (W H : K) (p : Pt K) :
    Matrix.Dot (csv (opsK tr cd) .I W H) p = p ∧
    Matrix.Dot (csv (opsK tr cd) .II W H) p = ⟨W - p.x, p.y⟩ ∧
    Matrix.Dot (csv (opsK tr cd) .III W H) p = ⟨W - p.x, H - p.y⟩ ∧
    Matrix.Dot (csv (opsK tr cd) .IV W H) p = ⟨p.x, H - p.y⟩ := by
  refine ⟨?_, ?_, ?_, ?_⟩ <;>
    simp only [csv, opsK, arithK, Matrix.ReflectXAbout, Matrix.ReflectYAbout, Matrix.Translate, Matrix.Scale,
      Matrix.Mul, Matrix.Dot] <;>
    (cases p; congr 1 <;> ring)

/-- the coordinate-system matrix in one formula -/
theorem csv_dot (cs : CoordSys) (W H : K) (q : Pt K) :
    Matrix.Dot (csv (opsK tr cd) cs W H) q =
      ⟨if cs.flipX then W - q.x else q.x, if cs.flipY then H - q.y else q.y⟩ := by
  have h := coord_origin tr cd W H q
  cases cs
  · simpa [CoordSys.flipX, CoordSys.flipY] using h.1
  · simpa [CoordSys.flipX, CoordSys.flipY] using h.2.1
  · simpa [CoordSys.flipX, CoordSys.flipY] using h.2.2.1
  · simpa [CoordSys.flipX, CoordSys.flipY] using h.2.2.2

theorem dot_ident (q : Pt K) : Matrix.Dot C15M.ident q = q := by
  cases q; simp [Matrix.Dot, C15M.ident]

/-- the matrix every draw starts from -/
def baseK (c : Ctx K) (x y : K) : Mat K :=
  Matrix.Translate (Matrix.Mul (csv (opsK tr cd) c.st.cs c.cv.W c.cv.H) c.st.view)
    (Matrix.Dot c.st.coordView ⟨x, y⟩).x (Matrix.Dot c.st.coordView ⟨x, y⟩).y

theorem baseK_eq (c : Ctx K) (x y : K) : c.baseMatrix (opsK tr cd) x y = baseK tr cd c x y := rfl

/-- `CoordSystemView × View × Translate(CoordView·(x,y))` applied to a point -/
theorem baseK_dot (c : Ctx K) (x y : K) (p : Pt K) :
    Matrix.Dot (baseK tr cd c x y) p =
      Matrix.Dot (csv (opsK tr cd) c.st.cs c.cv.W c.cv.H)
        (Matrix.Dot c.st.view ⟨p.x + (Matrix.Dot c.st.coordView ⟨x, y⟩).x, p.y + (Matrix.Dot c.st.coordView ⟨x, y⟩).y⟩) := by
  rw [baseK, C15M.translate_dot, C15M.dot_mul]

def visible (c : Ctx K) : Bool := c.st.style.hasFill || c.st.style.hasStroke (opsK tr cd)

/-- DrawPath(x, y, paths…): one renderer call per path, each with the matrix
`CoordSystemView × View × Translate(CoordView·(x,y))`; nothing when the style neither fills nor strokes. -/
theorem draw_matrix (c : Ctx K) (x y : K) (ps : List (PathRef K)) :
    (∀ k ∈ drawCalls (opsK tr cd) (.drawPath x y ps) c, k.m = baseK tr cd c x y) ∧
    (visible tr cd c = true → (drawCalls (opsK tr cd) (.drawPath x y ps) c).length = ps.length) ∧
    (visible tr cd c = false → drawCalls (opsK tr cd) (.drawPath x y ps) c = []) := by
  unfold visible
  refine ⟨?_, ?_, ?_⟩
  · intro k hk
    simp only [drawCalls, pathCalls] at hk
    split at hk
    · simp at hk
    · exact loopCalls_m _ _ _ _ _ _ k hk
  · intro hv
    simp only [drawCalls, pathCalls]
    split
    · rename_i h; simp_all
    · exact loopCalls_length ..
  · intro hv
    simp only [drawCalls, pathCalls]
    split
    · rfl
    · rename_i h; simp_all

/-- the style a path receives when it is drawn on its own: the current style with the dash pattern
canonicalised by `checkDash` (and no stroke paint when `checkDash` finds that no dash reaches the path) -/
def styleFor (s : Style K) (p : PathRef K) : Style K :=
  { s with dashes := (drawDashes (opsK tr cd) s.width s.dashOff s.dashes p.len).1,
           stroke := if (drawDashes (opsK tr cd) s.width s.dashOff s.dashes p.len).2 then s.stroke else Paint.none }

/-- DrawPath judges the dash pattern in the units the renderers use (7030ab4): `checkDash` sees the
offset and every dash multiplied by the stroke width; the stroke paint is kept iff it says so; the
recorded pattern is empty when it returns none and the canonical *unscaled* pattern otherwise. With
stroke width 1 this is `checkDash` on the pattern itself. -/
theorem draw_dashes_units (w off len : K) (d : List K) :
    (drawDashes (opsK tr cd) w off d len).2 = (cd (off * w) (d.map (· * w)) len).2 ∧
    ((cd (off * w) (d.map (· * w)) len).1 = [] → (drawDashes (opsK tr cd) w off d len).1 = []) ∧
    ((cd (off * w) (d.map (· * w)) len).1 ≠ [] →
      (drawDashes (opsK tr cd) w off d len).1 = (dashCanonical (arithK tr) off d).2) ∧
    (drawDashes (opsK tr cd) 1 off d len).2 = (cd off d len).2 := by
  refine ⟨rfl, ?_, ?_, ?_⟩
  · intro h
    show (if (cd (off * w) (d.map (· * w)) len).1.isEmpty then (cd (off * w) (d.map (· * w)) len).1 else _) = []
    simp [h]
  · intro h
    show (if (cd (off * w) (d.map (· * w)) len).1.isEmpty then _ else _) = _
    have : (cd (off * w) (d.map (· * w)) len).1.isEmpty = false := by
      cases hh : (cd (off * w) (d.map (· * w)) len).1 with
      | nil => exact absurd hh h
      | cons _ _ => rfl
    simp only [this]
    rfl
  · show (cd (off * 1) (d.map (· * 1)) len).2 = _
    simp

/-- In `DrawPath(x, y, p₁ … pₙ)` every path is drawn with the current style (dash pattern as
canonicalised by `checkDash` for that path), whatever `checkDash` says about the other paths of the
same call: the renderer calls are exactly one per path, in order. -/
theorem draw_style_loop (s : Style K) (m : Mat K) (ps : List (PathRef K)) :
    loopCalls (opsK tr cd) s.dashOff s.dashes m s ps = ps.map (fun p => ⟨.path p (styleFor tr cd s p), m⟩) := by
  induction ps with
  | nil => rfl
  | cons p ps ih => simp only [loopCalls, List.map_cons, ih]; rfl

theorem draw_style (c : Ctx K) (x y : K) (ps : List (PathRef K)) (hv : visible tr cd c = true) :
    drawCalls (opsK tr cd) (.drawPath x y ps) c =
      ps.map (fun p => ⟨.path p (styleFor tr cd c.st.style p), baseK tr cd c x y⟩) := by
  unfold visible at hv
  simp only [drawCalls, pathCalls]
  split
  · rename_i h; simp_all
  · rw [baseK_eq]; exact draw_style_loop tr cd c.st.style _ ps

/-- `Fill()`, `Stroke()`, `FillStroke()` draw the current path at (0,0) exactly like `DrawPath` under a
style whose stroke (resp. fill) paint is cleared (resp. the current style), and leave the Context
state — in particular the style — exactly as it was. -/
theorem fill_stroke_semantics (c : Ctx K) (p : PathRef K) :
    drawCalls (opsK tr cd) (.fill p) c =
      drawCalls (opsK tr cd) (.drawPath 0 0 [p]) (c.withStyle { c.st.style with stroke := Paint.none }) ∧
    drawCalls (opsK tr cd) (.stroke p) c =
      drawCalls (opsK tr cd) (.drawPath 0 0 [p]) (c.withStyle { c.st.style with fill := Paint.none }) ∧
    drawCalls (opsK tr cd) (.fillStroke p) c = drawCalls (opsK tr cd) (.drawPath 0 0 [p]) c ∧
    (step (opsK tr cd) (.fill p) c).st = c.st ∧ (step (opsK tr cd) (.stroke p) c).st = c.st ∧
    (step (opsK tr cd) (.fillStroke p) c).st = c.st :=
  ⟨rfl, rfl, rfl, (step_st_of_draw _ _ c (Or.inl rfl)).1, (step_st_of_draw _ _ c (Or.inl rfl)).1,
   (step_st_of_draw _ _ c (Or.inl rfl)).1⟩

/-- what `Fill()` sends to the renderer never carries a stroke paint, what `Stroke()` sends never a fill paint -/
theorem fill_has_no_stroke (c : Ctx K) (p : PathRef K) :
    (∀ k ∈ drawCalls (opsK tr cd) (.fill p) c, ∃ s, k.item = .path p s ∧ s.stroke = Paint.none ∧
        s.fill = c.st.style.fill ∧ k.m = baseK tr cd c 0 0) ∧
    (∀ k ∈ drawCalls (opsK tr cd) (.stroke p) c, ∃ s, k.item = .path p s ∧ s.fill = Paint.none ∧
        k.m = baseK tr cd c 0 0) := by
  constructor
  · intro k hk
    rw [(fill_stroke_semantics tr cd c p).1] at hk
    by_cases hv : visible tr cd (c.withStyle { c.st.style with stroke := Paint.none }) = true
    · rw [draw_style tr cd _ 0 0 [p] hv] at hk
      simp only [List.map_cons, List.map_nil, List.mem_singleton] at hk
      subst hk
      refine ⟨_, rfl, ?_, rfl, rfl⟩
      simp only [styleFor, Ctx.withStyle]
      exact ite_self _
    · have hv' : visible tr cd (c.withStyle { c.st.style with stroke := Paint.none }) = false := by simpa using hv
      rw [(draw_matrix tr cd _ 0 0 [p]).2.2 hv'] at hk
      cases hk
  · intro k hk
    rw [(fill_stroke_semantics tr cd c p).2.1] at hk
    by_cases hv : visible tr cd (c.withStyle { c.st.style with fill := Paint.none }) = true
    · rw [draw_style tr cd _ 0 0 [p] hv] at hk
      simp only [List.map_cons, List.map_nil, List.mem_singleton] at hk
      subst hk
      exact ⟨_, rfl, rfl, rfl⟩
    · have hv' : visible tr cd (c.withStyle { c.st.style with fill := Paint.none }) = false := by simpa using hv
      rw [(draw_matrix tr cd _ 0 0 [p]).2.2 hv'] at hk
      cases hk

/-- DrawText: the extra reflections cancel the coordinate system's flips — the text is anchored at
`CoordSystemView × View × CoordView·(x,y)` and, in every coordinate system, for the identity view
it is merely translated (upright, not mirrored). -/
theorem text_upright (c : Ctx K) (x y : K) (t : TextRef K) (ht : t.empty = false) :
    ∃ m, drawCalls (opsK tr cd) (.drawText x y t) c = [⟨.text t, m⟩] ∧
      (∀ p : Pt K, Matrix.Dot m p = Matrix.Dot (baseK tr cd c x y)
        ⟨(if c.st.cs.flipX then -1 else 1) * p.x, (if c.st.cs.flipY then -1 else 1) * p.y⟩) ∧
      (c.st.view = C15M.ident → ∀ p : Pt K, Matrix.Dot m p =
        ⟨(Matrix.Dot (baseK tr cd c x y) ⟨0, 0⟩).x + p.x, (Matrix.Dot (baseK tr cd c x y) ⟨0, 0⟩).y + p.y⟩) := by
  refine ⟨(fun m => if c.st.cs.flipX then Matrix.ReflectX m else m)
      ((fun m => if c.st.cs.flipY then Matrix.ReflectY m else m) (baseK tr cd c x y)), ?_, ?_, ?_⟩
  · simp only [drawCalls, ht, Bool.false_eq_true, if_false, baseK_eq]; rfl
  · intro p
    generalize baseK tr cd c x y = b
    cases hcs : c.st.cs <;>
      simp only [CoordSys.flipX, CoordSys.flipY, Matrix.ReflectX, Matrix.ReflectY, Matrix.Scale, Matrix.Mul,
        Matrix.Dot, if_true, if_false, Bool.false_eq_true] <;>
      (congr 1 <;> ring)
  · intro hv p
    have h2 : Matrix.Dot ((fun m => if c.st.cs.flipX then Matrix.ReflectX m else m)
        ((fun m => if c.st.cs.flipY then Matrix.ReflectY m else m) (baseK tr cd c x y))) p =
        Matrix.Dot (baseK tr cd c x y)
          ⟨(if c.st.cs.flipX then -1 else 1) * p.x, (if c.st.cs.flipY then -1 else 1) * p.y⟩ := by
      generalize baseK tr cd c x y = b
      cases hcs : c.st.cs <;>
        simp only [CoordSys.flipX, CoordSys.flipY, Matrix.ReflectX, Matrix.ReflectY, Matrix.Scale, Matrix.Mul,
          Matrix.Dot, if_true, if_false, Bool.false_eq_true] <;>
        (congr 1 <;> ring)
    rw [h2]
    simp only [baseK_dot, hv, dot_ident, csv_dot]
    cases hcs : c.st.cs <;>
      simp only [CoordSys.flipX, CoordSys.flipY, if_true, if_false, Bool.false_eq_true] <;>
      (congr 1 <;> ring)

/-- DrawImage: in every coordinate system the image is upright — for the identity view pixel `p` lands at
`anchor + (p − corner)/res` with the *positive* scale 1/res on both axes, where `anchor` is the
mapped position (x,y) and `corner` the image corner nearest to the system's origin side
(e.g. the top-left corner in CartesianIV). -/
theorem image_upright (c : Ctx K) (x y : K) (i : ImgRef K) (res : K) (hne : ¬ (i.w = 0 ∧ i.h = 0)) :
    ∃ m, drawCalls (opsK tr cd) (.drawImage x y i res) c = [⟨.image i, m⟩] ∧
      (∀ p : Pt K, Matrix.Dot m p = Matrix.Dot (baseK tr cd c x y)
        ⟨(if c.st.cs.flipX then -1 else 1) * (p.x - (if c.st.cs.flipX then i.w else 0)) / res,
         (if c.st.cs.flipY then -1 else 1) * (p.y - (if c.st.cs.flipY then i.h else 0)) / res⟩) ∧
      (c.st.view = C15M.ident → ∀ p : Pt K, Matrix.Dot m p =
        ⟨(Matrix.Dot (baseK tr cd c x y) ⟨0, 0⟩).x + (p.x - (if c.st.cs.flipX then i.w else 0)) / res,
         (Matrix.Dot (baseK tr cd c x y) ⟨0, 0⟩).y + (p.y - (if c.st.cs.flipY then i.h else 0)) / res⟩) := by
  have hz : ((opsK tr cd).beq i.w (opsK tr cd).zero && (opsK tr cd).beq i.h (opsK tr cd).zero) = false := by
    simp only [opsK, arithK, Bool.and_eq_false_imp, decide_eq_true_eq, decide_eq_false_iff_not]
    intro h1 h2; exact hne ⟨h1, h2⟩
  refine ⟨imageFlip (opsK tr cd) c.st.cs (Matrix.Scale (baseK tr cd c x y) (1 / res) (1 / res)) i.w i.h, ?_, ?_, ?_⟩
  · simp only [drawCalls, hz, Bool.false_eq_true, if_false, baseK_eq]; rfl
  · intro p
    generalize baseK tr cd c x y = b
    cases hcs : c.st.cs <;>
      simp only [imageFlip, CoordSys.flipX, CoordSys.flipY, opsK, arithK, Matrix.ReflectXAbout, Matrix.ReflectYAbout,
        Matrix.Translate, Matrix.Scale, Matrix.Mul, Matrix.Dot, if_true, if_false, Bool.false_eq_true] <;>
      (congr 1 <;> ring)
  · intro hv p
    have h2 : Matrix.Dot (imageFlip (opsK tr cd) c.st.cs (Matrix.Scale (baseK tr cd c x y) (1 / res) (1 / res)) i.w i.h) p =
        Matrix.Dot (baseK tr cd c x y)
          ⟨(if c.st.cs.flipX then -1 else 1) * (p.x - (if c.st.cs.flipX then i.w else 0)) / res,
           (if c.st.cs.flipY then -1 else 1) * (p.y - (if c.st.cs.flipY then i.h else 0)) / res⟩ := by
      generalize baseK tr cd c x y = b
      cases hcs : c.st.cs <;>
        simp only [imageFlip, CoordSys.flipX, CoordSys.flipY, opsK, arithK, Matrix.ReflectXAbout, Matrix.ReflectYAbout,
          Matrix.Translate, Matrix.Scale, Matrix.Mul, Matrix.Dot, if_true, if_false, Bool.false_eq_true] <;>
        (congr 1 <;> ring)
    rw [h2]
    simp only [baseK_dot, hv, dot_ident, csv_dot]
    cases hcs : c.st.cs <;>
      simp only [CoordSys.flipX, CoordSys.flipY, if_true, if_false, Bool.false_eq_true] <;>
      (congr 1 <;> ring)

/-- Transform moves all layers consistently: replaying the transformed canvas through `view` is
replaying the original canvas through `view · m` (Clip and Fit are Transform by a translation). -/
theorem transform_consistent (m view : Mat K) (cv : Canvas K) :
    (cv.transform (opsK tr cd) m).renderViewTo (opsK tr cd) view
      = cv.renderViewTo (opsK tr cd) (Matrix.Mul view m) := by
  simp only [Canvas.renderViewTo, Canvas.transform, List.map_map]
  have hk : (List.map ((fun x => x.1) ∘ fun kl : Int × List (Call K) => (kl.1, List.map (Call.pre (opsK tr cd) m) kl.2)) cv.layers)
      = List.map (fun x => x.1) cv.layers := by
    apply List.map_congr_left; intro a _; rfl
  rw [hk]
  congr 1
  funext k
  rw [lookupZ_map, List.map_map]
  apply List.map_congr_left
  intro a _
  simp only [Function.comp, Call.pre, opsK]
  rw [C15M.mul_assoc]

/-- Nested canvases flatten: `a.RenderViewTo(b, view)` into a fresh `b`, then `b.RenderViewTo(r, view2)`
sends `r` exactly what `a.RenderViewTo(r, view2 · view)` sends — for the canvas reached by any history. -/
theorem nested_canvas_flattens (h : List (Op K)) (W H W' H' : K) (view view2 : Mat K) :
    let src := (run (opsK tr cd) h (newContext (opsK tr cd) (newCanvas W H))).cv
    (src.renderInto (opsK tr cd) view (newCanvas W' H')).renderViewTo (opsK tr cd) view2
      = src.renderViewTo (opsK tr cd) (Matrix.Mul view2 view) := by
  intro src
  exact nested_replay (opsK tr cd) (fun a b c => C15M.mul_assoc a b c) src view view2 W' H'
    (Grouped_WF src (layers_are_grouped_log (opsK tr cd) h W H))

theorem clip_is_translation (r : Rct K) (cv : Canvas K) :
    (cv.clip (opsK tr cd) r).layers = (cv.transform (opsK tr cd) (Matrix.Translate C15M.ident (-r.x0) (-r.y0))).layers ∧
    (cv.clip (opsK tr cd) r).W = r.x1 - r.x0 ∧ (cv.clip (opsK tr cd) r).H = r.y1 - r.y0 := ⟨rfl, rfl, rfl⟩

/-- the factor of half the stroke width that `Fit` allows for a join with limit `L` -/
def joinReach (join : Nat) (L : K) : K :=
  if (opsK tr cd).joinClips join then Env.hypot (max L (1001 / 1000)) 1 else max L (1001 / 1000)

/-- How far `Fit` lets a stroke reach from the path (the repaired code, 79f3f8c + 2516dea): exactly
half the width for butt/round caps with bevel/round joins (unchanged); at least `max(Limit, 1.001)`
half widths for a miter or arcs join with a finite limit (conservative: the full miter tip lies at
most `Limit` half widths from its vertex), `hypot(max(Limit, 1.001), 1)` half widths when the joiner
clips (MiterClipJoin: the two corners of the cut lie at most one half width beside the bisector at
`Limit` half widths along it); at least √2 half widths for square caps (their corners). -/
theorem stroke_extent (s : Style K) :
    ((opsK tr cd).isSquareCap s.cap = false → (opsK tr cd).joinLimit s.join = none →
        strokeExtent (opsK tr cd) s = s.width / 2) ∧
    (∀ L, (opsK tr cd).joinLimit s.join = some L → joinReach tr cd s.join L * s.width / 2 ≤ strokeExtent (opsK tr cd) s) ∧
    ((opsK tr cd).isSquareCap s.cap = true → s.width / 2 * Env.sqrt 2 ≤ strokeExtent (opsK tr cd) s) ∧
    (1 ≤ (Env.sqrt 2 : K) → 0 ≤ s.width → s.width / 2 ≤ strokeExtent (opsK tr cd) s) := by
  refine ⟨?_, ?_, ?_, ?_⟩
  · intro h1 h2
    simp only [strokeExtent, h1, h2]
    rfl
  · intro L hL
    simp only [strokeExtent, hL, joinReach]
    cases (opsK tr cd).joinClips s.join <;> exact le_max_right _ _
  · intro h1
    simp only [strokeExtent, h1]
    cases (opsK tr cd).joinLimit s.join with
    | none => exact le_refl _
    | some L => exact le_max_left _ _
  · intro h2 hw
    have hhw : 0 ≤ s.width / 2 := div_nonneg hw (by norm_num)
    have hsq : s.width / 2 ≤ s.width / 2 * Env.sqrt 2 := by nlinarith
    simp only [strokeExtent]
    cases hc : (opsK tr cd).isSquareCap s.cap <;> cases hj : (opsK tr cd).joinLimit s.join <;> simp only [if_true, if_false, Bool.false_eq_true]
    · exact le_refl _
    · exact le_max_left _ _
    · exact hsq
    · exact le_trans hsq (le_max_left _ _)

/-- the clipping joiner is identity 4 (MiterClipJoin) and only that one; miter (0), arcs (3) and
miter-clip (4) carry the limit 4 -/
example : (opsK tr cd).joinClips 4 = true ∧ (opsK tr cd).joinClips 0 = false ∧
    (opsK tr cd).joinLimit 4 = some (4 : K) ∧ (opsK tr cd).joinLimit 1 = none := by
  simp [opsK]

/-- The bounds `Fit` uses for a stroked path contain every point whose coordinates are within
`strokeExtent` of a point of the path's bounds — in particular every miter tip (≤ Limit·hw from a
vertex) and every square-cap corner (≤ √2·hw from an end point). -/
theorem stroke_reach_in_bounds (p : PathRef K) (s : Style K) (hs : s.hasStroke (opsK tr cd) = true)
    (q pt : Pt K) (hqx : p.bounds.x0 ≤ q.x ∧ q.x ≤ p.bounds.x1) (hqy : p.bounds.y0 ≤ q.y ∧ q.y ≤ p.bounds.y1)
    (hx : |pt.x - q.x| ≤ strokeExtent (opsK tr cd) s) (hy : |pt.y - q.y| ≤ strokeExtent (opsK tr cd) s) :
    (itemBounds (opsK tr cd) (.path p s)).x0 ≤ pt.x ∧ pt.x ≤ (itemBounds (opsK tr cd) (.path p s)).x1 ∧
    (itemBounds (opsK tr cd) (.path p s)).y0 ≤ pt.y ∧ pt.y ≤ (itemBounds (opsK tr cd) (.path p s)).y1 := by
  simp only [itemBounds, hs, if_true]
  have hx' := abs_le.mp hx
  have hy' := abs_le.mp hy
  show p.bounds.x0 - _ ≤ pt.x ∧ pt.x ≤ p.bounds.x1 + _ ∧ p.bounds.y0 - _ ≤ pt.y ∧ pt.y ≤ p.bounds.y1 + _
  refine ⟨by linarith [hqx.1, hx'.1], by linarith [hqx.2, hx'.2], by linarith [hqy.1, hy'.1], by linarith [hqy.2, hy'.2]⟩

/-- full statement of fit_inside: every layer with non-empty bounds ends up inside the margins -/
def fit_inside_statement : Prop :=
  ∀ (c : Ctx K) (μ : K),
    let c' := step (opsK tr cd) (.cvFit μ) c
    ∀ kl ∈ c'.cv.layers, ∀ k ∈ kl.2,
      rectEmpty (opsK tr cd) (itemBounds (opsK tr cd) k.item) = false →
      ∀ p : Pt K, (itemBounds (opsK tr cd) k.item).x0 ≤ p.x → p.x ≤ (itemBounds (opsK tr cd) k.item).x1 →
                  (itemBounds (opsK tr cd) k.item).y0 ≤ p.y → p.y ≤ (itemBounds (opsK tr cd) k.item).y1 →
        μ ≤ (Matrix.Dot k.m p).x ∧ (Matrix.Dot k.m p).x ≤ c'.cv.W - μ ∧
        μ ≤ (Matrix.Dot k.m p).y ∧ (Matrix.Dot k.m p).y ≤ c'.cv.H - μ

/-- After `Fit(μ)` every point of the bounds (path bounds ± `strokeExtent` — half the stroke width,
√2 half widths with square caps, at least `max(Limit,1.001)` half widths with miter/arcs joins, see
`stroke_extent` and `stroke_reach_in_bounds` —, text bounds, image rectangle) of every layer, transformed by the layer's new matrix, lies in
`[μ, W−μ] × [μ, H−μ]` of the new canvas size. Proved for canvases in which no layer's transformed
bounds degenerate to an Epsilon-thin rectangle (such a layer makes `rect.Empty()` true and is
overwritten by the next one: content that is thinner than 1e-10 mm). -/
theorem fit_inside_partial (c : Ctx K) (μ : K) (hnd : NonDegenerate tr cd c.cv) :
    let c' := step (opsK tr cd) (.cvFit μ) c
    ∀ kl ∈ c'.cv.layers, ∀ k ∈ kl.2,
      rectEmpty (opsK tr cd) (itemBounds (opsK tr cd) k.item) = false →
      ∀ p : Pt K, (itemBounds (opsK tr cd) k.item).x0 ≤ p.x → p.x ≤ (itemBounds (opsK tr cd) k.item).x1 →
                  (itemBounds (opsK tr cd) k.item).y0 ≤ p.y → p.y ≤ (itemBounds (opsK tr cd) k.item).y1 →
        μ ≤ (Matrix.Dot k.m p).x ∧ (Matrix.Dot k.m p).x ≤ c'.cv.W - μ ∧
        μ ≤ (Matrix.Dot k.m p).y ∧ (Matrix.Dot k.m p).y ≤ c'.cv.H - μ :=
  fit_inside_layers tr cd c.cv μ hnd

/-- non-vacuity: a canvas with one 1×1 image layer under the identity matrix is non-degenerate
(for any Epsilon below 1) -/
example (heps : (Env.epsilon : K) < 1) :
    NonDegenerate tr cd ({ layers := [(0, [⟨.image ⟨1, 1⟩, C15M.ident⟩])], z := 0, W := 10, H := 10, log := [] } : Canvas K) := by
  intro kl hkl k hk _
  simp only [List.mem_singleton] at hkl
  subst hkl
  simp only [List.mem_singleton] at hk
  subst hk
  have h01 : ¬ ((1 : K) < 0) := not_lt.mpr zero_le_one
  have h10 : ¬ ((1 : K) ≤ Env.epsilon) := not_le.mpr heps
  simp [rectEmpty, itemBounds, opsK, arithK, Rect.Transform, Matrix.Dot, C15M.ident, Equal, h01, h10]

/-- non-vacuity of `draw_style`/`draw_matrix`: a fresh Context is visible (black fill), and stays so with a stroke -/
example (W H : K) : visible tr cd (newContext (opsK tr cd) (newCanvas W H)) = true := by
  simp [visible, newContext, defaultStyle, Style.hasFill, Paint.has, Paint.color]

/-- non-vacuity of `views_postmultiply`: every composer has a matrix -/
example (x y : K) : composerMat (Op.translate x y) = some (Matrix.Translate C15M.ident x y) := rfl

/-- non-vacuity of `image_upright`: a 4×3 image is not the empty image -/
example : ¬ ((⟨4, 3⟩ : ImgRef K).w = 0 ∧ (⟨4, 3⟩ : ImgRef K).h = 0) := by
  intro h; exact four_ne_zero h.1

/-- non-vacuity of `Balanced`: Push; Push; Pop; draw; Pop is balanced when wrapped -/
example : Balanced ([Op.push, Op.pop, Op.resetView] : List (Op K)) :=
  Balanced.nest [] [Op.resetView] Balanced.nil (Balanced.op _ _ rfl Balanced.nil)

/-! ## Verdict of the replay-order specification (`!` lines of the harness) -/
section VerdictSpec

theorem vInsert_eq {β : Type} (x : Int × β) (l : List (Int × β)) : vInsert x l = insertZ x l := by
  induction l with
  | nil => rfl
  | cons y ys ih => simp only [vInsert, insertZ, ih]

theorem vSort_eq {β : Type} (l : List (Int × β)) : vSort l = stableSortZ l := by
  induction l with
  | nil => rfl
  | cons x xs ih =>
    show vInsert x (vSort xs) = insertZ x (stableSortZ xs)
    rw [ih, vInsert_eq]

theorem firstDiff_none (a b : List Nat) (i : Nat) : firstDiff a b i = none ↔ a = b := by
  induction a generalizing b i with
  | nil => cases b <;> simp [firstDiff]
  | cons x xs ih =>
    cases b with
    | nil => simp [firstDiff]
    | cons y ys =>
      simp only [firstDiff]
      split
      · rename_i h; subst h; simp [ih]
      · rename_i h; simp [h]

/-- Soundness and completeness of the executable verdict: it answers `ok` exactly when the replayed
fingerprints are the recorded ones stably sorted by z — i.e. (by `stable_sort_spec`) a permutation,
in ascending z, in drawing order within each z. -/
theorem verdict_ok_iff (recorded : List (Int × Nat)) (replayed : List Nat) :
    replayVerdict recorded replayed = Verdict.ok ↔ replayed = (stableSortZ recorded).map (·.2) := by
  unfold replayVerdict
  constructor
  · intro h
    split at h
    · cases h
    · split at h
      · rename_i hn
        rw [← vSort_eq]; exact ((firstDiff_none _ _ 0).mp hn).symm
      · cases h
  · intro h
    have hl : recorded.length = replayed.length := by
      rw [h, List.length_map, (stableSortZ_perm recorded).length_eq]
    have hd : firstDiff ((vSort recorded).map (·.2)) replayed 0 = none := by
      rw [firstDiff_none, vSort_eq, h]
    simp [hl, hd]

/-- The model passes the verdict after every history, for any fingerprint that ignores the matrix:
a failing verdict on the real code is therefore a disagreement with the model's proven behaviour. -/
theorem model_passes_verdict {α : Type} (o : Ops α) (h : List (Op α)) (W H : α) (view : Mat α)
    (fp : Call α → Nat) (hfp : ∀ m c, fp (Call.pre o m c) = fp c) :
    let cv := (run o h (newContext o (newCanvas W H))).cv
    replayVerdict (cv.log.map (fun zc => (zc.1, fp zc.2))) ((cv.renderViewTo o view).map fp) = Verdict.ok := by
  intro cv
  rw [verdict_ok_iff, replay_is_stable_sort o h W H view]
  show List.map fp (List.map (fun zc => Call.pre o view zc.2) (stableSortZ cv.log)) = _
  rw [stableSortZ_map fp cv.log, List.map_map, List.map_map]
  apply List.map_congr_left
  intro a _
  simp [Function.comp, hfp]

/-- non-vacuity: the verdict rejects a replay in descending z and one that swaps equal z -/
example : replayVerdict [(1, 10), (0, 20), (1, 30)] [20, 10, 30] = .ok := by decide
example : replayVerdict [(1, 10), (0, 20), (1, 30)] [10, 30, 20] = .order 0 := by decide
example : replayVerdict [(1, 10), (0, 20), (1, 30)] [20, 30, 10] = .order 1 := by decide

end VerdictSpec

/-! ## Part 3 — the slice-typed style field `Dashes` over an explicit heap (CanvasModel/C15Heap.lean)

Slice headers over arrays by identity; `SetDashes` aliases the caller's array, `Push`/`Pop` and the
recorded layer copy headers, `DrawPath` canonicalises into a fresh array; the caller may write into
its own arrays at any time.  Tied to the code by the aliasing probes of harness/c15/alias.go. -/
section HeapModel
open Canvas.C15.Heap
variable {β : Type} (zero : β) (cdv : β → List β → β → List β × Bool)

/-- No Context/Canvas operation writes into an existing array: the heap only grows. -/
theorem dashes_library_never_writes (op : Heap.Op β) (s : Heap.State β) (h : op.isCallerWrite = false) :
    s.heap <+: (Heap.step zero cdv op s).heap := C15.Heap.lib_never_writes zero cdv op s h

/-- A recorded layer reads the same dash pattern after ANY later history — setters, draws, Push/Pop
and writes of the caller into every array it owns included. -/
theorem dashes_recorded_immune (pre ops : List (Heap.Op β)) (l : Heap.HLayer β)
    (hl : l ∈ (Heap.run zero cdv pre (Heap.init zero)).layers) :
    Heap.deref (Heap.run zero cdv (pre ++ ops) (Heap.init zero)).heap l.dashes
      = Heap.deref (Heap.run zero cdv pre (Heap.init zero)).heap l.dashes := by
  rw [C15.Heap.run_append]
  exact C15.Heap.recorded_immune zero cdv ops _ (C15.Heap.Inv_run zero cdv pre _ (C15.Heap.Inv_init zero)) l hl

/-- Value semantics: as long as the caller does not write into an array it has handed over, the
heap machine is observationally the pure value machine (dashes as lists: SetDashes replaces, Push
copies, Pop restores, DrawPath records the canonical pattern) — the semantics of the main model. -/
theorem dashes_value_semantics (ops : List (Heap.Op β)) (hw : ∀ op ∈ ops, op.isCallerWrite = false) :
    C15.Heap.absState (Heap.run zero cdv ops (Heap.init zero)) =
      C15.Heap.vrun zero cdv (C15.Heap.toVs zero cdv ops (Heap.init zero)) (C15.Heap.absState (Heap.init zero)) :=
  C15.Heap.value_semantics_run zero cdv ops _ hw (C15.Heap.Inv_init zero)

/-- Push … Pop around any balanced history restores the dash slice header exactly (always), and the
dash *values* provided the caller wrote to none of its arrays in between. -/
theorem dashes_push_pop_restore (pre ops : List (Heap.Op β)) (hb : C15.Heap.bal 0 ops = true) :
    let s := Heap.run zero cdv pre (Heap.init zero)
    ((Heap.run zero cdv (.push :: ops ++ [.pop]) s).cur = s.cur ∧
     (Heap.run zero cdv (.push :: ops ++ [.pop]) s).stack = s.stack) ∧
    ((∀ op ∈ ops, op.isCallerWrite = false) →
      (C15.Heap.absState (Heap.run zero cdv (.push :: ops ++ [.pop]) s)).cur = (C15.Heap.absState s).cur) := by
  intro s
  refine ⟨C15.Heap.push_pop_header zero cdv s ops hb, fun hw => ?_⟩
  exact (C15.Heap.push_pop_value zero cdv s ops hw hb (C15.Heap.Inv_run zero cdv pre _ (C15.Heap.Inv_init zero))).1

/-- the dash component (offset, pattern) of a Context state of the MAIN model -/
def dashOf {γ : Type} (st : CState γ) : γ × List γ := (st.style.dashOff, st.style.dashes)

/-- which value-machine operation a main-model operation is, as far as the dashes are concerned -/
def dashOp {γ : Type} : Canvas.C15.Op γ → C15.Heap.VOp γ
  | .setDashes off d => .setDashes off d
  | .push => .push
  | .pop => .pop
  | .resetStyle => .resetStyle
  | _ => .nop

/-- Link: on the dash component, the main (value-semantics) model of the Context *is* the value
machine to which the heap model reduces: every operation other than a draw transforms
(current dashes, stack of dashes) exactly as `vstep` does. (What a draw records is `draw_style`.) -/
theorem dashes_main_model_is_value_machine {γ : Type} (o : Ops γ) (cdv' : γ → List γ → γ → List γ × Bool)
    (op : Canvas.C15.Op γ) (c : Ctx γ) (hd : op.isDraw = false) (ls : List (γ × List γ × Bool)) :
    (C15.Heap.vstep o.zero cdv' (dashOp op) ⟨dashOf c.st, c.stack.map dashOf, ls⟩) =
      ⟨dashOf (Canvas.C15.step o op c).st, (Canvas.C15.step o op c).stack.map dashOf, ls⟩ := by
  cases op <;> simp [Op.isDraw] at hd
  case pop =>
    cases hs : c.stack with
    | nil => rw [pop_empty_noop o c hs]; simp [dashOp, C15.Heap.vstep, hs]
    | cons t rest => rw [step_pop_of_stack o c t rest hs]; simp [dashOp, C15.Heap.vstep]
  all_goals rfl

/-- non-vacuity / documentation of Go semantics: `SetDashes` does alias the caller's array (a write
after the call is visible in the current style) while the layer drawn before the write is not affected -/
example :
    Heap.observe (Heap.run (0 : Nat) (fun _ d _ => (d, true))
      [.callerAlloc [1, 2, 3], .setDashes 0 ⟨1, 0, 3⟩, .drawPath 10, .callerWrite 1 0 9] (Heap.init 0))
      = ([9, 2, 3], [([1, 2, 3], true)]) := by decide

example : C15.Heap.bal 0 ([.push, .drawPath 3, .pop, .resetStyle] : List (Heap.Op Nat)) = true := by decide

end HeapModel

end C15
