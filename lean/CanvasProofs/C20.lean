import CanvasProofs.Lemmas.C20Witness
import CanvasProofs.Lemmas.C20Pool
import CanvasGen.FactsC20
/-! # C20 — concurrent use on independent objects is race-free and deterministic
Split (DESIGN §4 C20): a happens-before model with the lockset theorem for all interleavings, a
`decide` over the access table extracted from the current /repo source, and statelessness of the
pooled sweep-line objects. The Go memory model itself is trusted, not modelled. -/
namespace C20
open Canvas.C20 Canvas.FactsC20

/-- thread-local locksets are sound in every well-formed interleaving -/
theorem lockset_sound {tr : Trace} (wf : WF tr) (t : Tid) (tok : Tok) (k : Nat)
    (h : heldBy tr t tok k = true) : holderAt tr tok k = some t :=
  heldBy_holder wf t tok k h

/-- mutual exclusion hand-over: a token held by `t` and later by `u ≠ t` was released by `t` and then
acquired by `u` in between -/
theorem token_handover {tr : Trace} (wf : WF tr) (tok : Tok) (t u : Tid) (htu : t ≠ u) (i j : Nat)
    (hij : i ≤ j) (hi : holderAt tr tok i = some t) (hj : holderAt tr tok j = some u) :
    ∃ c b e e', i ≤ c ∧ c < b ∧ b < j ∧ tr[c]? = some (t, e) ∧ e.rel = some tok ∧
      tr[b]? = some (u, e') ∧ e'.acq = some tok :=
  handover wf tok t u htu i j hij hi hj

/-- **lockset ⇒ data-race freedom**, for every trace (= every schedule of any number of threads):
if every location is protected — all accesses hold a common token (mutex, or ownership of the pooled
object between Get and Put), or it is written only by a once body and read only after that once, or
it is never written — then no two conflicting accesses are unordered by happens-before. -/
theorem lockset_drf (body : String → List String) (prot : String → Prot) (tr : Trace) (wf : WF tr)
    (ob : ∀ x, ObeysAt body (prot x) tr x) : ∀ i j x, ¬ Race body tr i j x :=
  fun i j x => no_race_at body (prot x) wf x (ob x) i j

/-- the same at a single location (other locations may be undisciplined) -/
theorem lockset_drf_at (body : String → List String) (p : Prot) (tr : Trace) (wf : WF tr) (x : String)
    (ob : ObeysAt body p tr x) : ∀ i j, ¬ Race body tr i j x :=
  no_race_at body p wf x ob

/-- the lockset hypothesis is not redundant: an unprotected location read by one goroutine and
written by another is a race of a well-formed trace -/
theorem unprotected_races (x : String) :
    WF [((0 : Tid), Ev.read x), (1, Ev.write x)] ∧
    Race (fun _ => []) [((0 : Tid), Ev.read x), (1, Ev.write x)] 0 1 x :=
  unsync_race x

/-- a location accessed only through sync/atomic operations never races (two atomic accesses are no
data race by definition; the discipline rules out plain accesses) -/
theorem atomic_only_drf (body : String → List String) (tr : Trace) (wf : WF tr) (x : String)
    (ob : ObeysAt body .atomicOnly tr x) : ∀ i j, ¬ Race body tr i j x :=
  no_race_at body .atomicOnly wf x ob

/-- mixing is not allowed: a plain write unordered with an atomic operation on the same location is
a race of a well-formed trace (so `atomicOnly` has to exclude plain accesses) -/
theorem atomic_plain_mix_races (x : String) :
    Race (fun _ => []) [((0 : Tid), Ev.atomicOp x), (1, Ev.write x)] 0 1 x := by
  refine ⟨by decide, by simp [tidAt], Or.inr (Or.inr ⟨0, rfl⟩), Or.inl (Or.inl ⟨1, rfl⟩),
    Or.inr (Or.inl (Or.inl ⟨1, rfl⟩)), ?_, ?_⟩
  · intro ⟨_, ⟨t, h⟩⟩; simp at h
  · intro h
    have := hb_same_thread (tr := [((0 : Tid), Ev.atomicOp x), (1, Ev.write x)]) ?_ 0 1 h
    · simp [tidAt] at this
    · intro p hp
      simp only [List.mem_cons, List.not_mem_nil, or_false] at hp
      rcases hp with rfl | rfl <;> exact ⟨rfl, fun o h => nomatch h⟩

/-! ## The extracted table -/

/-- every package-level variable of canvas, canvas/text and the four renderers is disciplined: never
written outside initialisation, or written only inside one once body and read only inside/after it,
or accessed only under one package-level lock, or accessed only through sync/atomic -/
theorem table_disciplined : ∀ v, v ∈ vars → v.disciplined = true := by
  have h : vars.all (fun v => v.disciplined) = true := by decide +kernel
  intro v hv
  exact List.all_eq_true.mp h v hv

/-- every variable has a protection the model understands -/
theorem table_protected : ∀ v, v ∈ vars → (protOf v).isSome = true := by
  have h : vars.all (fun v => (protOf v).isSome) = true := by decide +kernel
  intro v hv
  exact List.all_eq_true.mp h v hv

/-- the pools are written only by the once body and used only after it; the system-font cache only
under its own mutex; the unnamed-font counter only through sync/atomic -/
theorem table_pools_cache_counter :
    protOf v_canvas_boPointPool = some (.byOnce "canvas.boInitPoolsOnce") ∧
    protOf v_canvas_boNodePool = some (.byOnce "canvas.boInitPoolsOnce") ∧
    protOf v_canvas_boSquarePool = some (.byOnce "canvas.boInitPoolsOnce") ∧
    protOf v_canvas_systemFonts = some (.guarded (.mu "canvas.systemFonts")) ∧
    protOf v_canvas_nonameFonts = some .atomicOnly := by
  decide

/-- the variables that are written at all outside initialisation are exactly these five (a new
mutable global shows up here) -/
theorem table_written_vars :
    (vars.filter (fun v => !v.writes.isEmpty || !v.addrs.isEmpty)).map (·.qname) =
      ["canvas.systemFonts", "canvas.nonameFonts", "canvas.boPointPool", "canvas.boNodePool", "canvas.boSquarePool"] := by
  decide +kernel

/-- **table ⇒ race freedom**: in every well-formed trace whose accesses to a package-level variable
are instances of the extracted sites (with the recorded synchronisation really in force), there is
no data race on that variable — for every variable of the table -/
theorem table_drf (body : String → List String) (tr : Trace) (wf : WF tr)
    (v : VarFact) (hv : v ∈ vars) (hr : Realises body v tr) : ∀ i j, ¬ Race body tr i j v.qname := by
  have hs := table_protected v hv
  cases hp : protOf v with
  | none => rw [hp] at hs; cases hs
  | some p => exact no_race_at body p wf v.qname (disciplined_obeys body v p tr hp hr)

/-- the discipline check is not vacuous: a variable with an unsynchronised `++` is rejected -/
example : ({ qname := "p.n", pkg := "p", name := "n", typ := "int", pos := "", nreads := 1,
             writes := [⟨"f", "", "incdec", .none⟩], addrs := [], reads := [⟨"f", "", "read", .none⟩] } : VarFact).disciplined = false := by
  decide

/-! ## Font-level state -/

/-- **a loaded font carries no mutable cache of canvas's own**: no struct type of canvas, canvas/text
or the renderers that is reachable from canvas.Font, canvas.FontFace or text.Shaper has a container
field (map, sync.Map, sync.Pool, chan) — so none is mutated after construction. A memo table added to
the shaper or the font changes this fact. -/
theorem font_level_state_immutable :
    (∀ f, f ∈ fontLevelFields → f.pkg ≠ "font" → f.container = false ∧ f.writes = []) ∧
    (∀ r, r ∈ fontRoots → r ∈ fontLevelTypes) ∧ "font.SFNT" ∈ fontLevelTypes := by
  have h : fontLevelFields.all (fun f => f.pkg == "font" || (!f.container && f.writes.isEmpty)) = true := by
    decide +kernel
  refine ⟨?_, by decide +kernel, by decide +kernel⟩
  intro f hf hne
  have := List.all_eq_true.mp h f hf
  simp only [Bool.or_eq_true, beq_iff_eq, Bool.and_eq_true, Bool.not_eq_true', List.isEmpty_iff] at this
  rcases this with h1 | h1
  · exact absurd h1 hne
  · exact h1

/-- in the dependency tdewolff/font (same analysis, module cache): every site that mutates a container
field of a type reachable from a loaded font is either inside a `once.Do` body (lazily built, then
immutable) or in one of the two explicit mutator methods Merge / SetGlyphNames -/
theorem font_dependency_container_writes :
    ∀ f, f ∈ fontLevelFields → ∀ w, w ∈ f.writes →
      w.sync = Sync.once "field" ∨ w.fn = "font.SFNT.Merge" ∨ w.fn = "font.SFNT.SetGlyphNames" := by
  have h : fontLevelFields.all (fun f => f.writes.all (fun w =>
      w.sync == Sync.once "field" || w.fn == "font.SFNT.Merge" || w.fn == "font.SFNT.SetGlyphNames")) = true := by
    decide +kernel
  intro f hf w hw
  have := List.all_eq_true.mp (List.all_eq_true.mp h f hf) w hw
  simp only [Bool.or_eq_true, beq_iff_eq] at this
  rcases this with (h1 | h1) | h1
  · exact Or.inl h1
  · exact Or.inr (Or.inl h1)
  · exact Or.inr (Or.inr h1)

/-- **dependency mutators run on a private copy**: the complete list of places where canvas calls a
tdewolff/font method that writes into its receiver — the PDF writer (`CFF.SetGlyphNames(nil)`,
`Subset`) and the SVG writer (`Subset`) — and at every one of them the receiver variable was rebound
before the call, in an enclosing block of the same function, by
`if c, err := ….ParseSFNT(recv.Write(), …); err == nil { recv = c }`. A new call site, or one without
that statement in front of it, falsifies this. (Trusted, not derivable from the syntax: re-parsing a
font program that the library itself wrote succeeds — otherwise the call falls through to the shared
font; and `Write` only reads its receiver. Both are exercised by the SharedFontState observations
and the race-detector runs.) -/
theorem font_mutators_on_private_copy :
    (∀ c, c ∈ fontMutatorCalls → c.privateCopy = true) ∧
    fontMutatorCalls.map (fun c => (c.fn, c.call)) =
      [("pdf.pdfWriter.writeFont", "sfnt.CFF.SetGlyphNames"), ("pdf.pdfWriter.writeFont", "sfnt.Subset"),
       ("svg.SVG.writeFonts", "sfnt.Subset")] := by
  exact ⟨by decide, by decide⟩

/-- why the copy is needed (a fact about the dependency, not about canvas): `Subset` contains exactly
three alias copies `&(*sfntOld.T)` through which it writes into its receiver's Maxp, Head and Hhea
tables. If upstream repairs them this list becomes empty and the statement has to be updated. -/
theorem font_dependency_alias_copies :
    aliasCopies.map (fun c => (c.fn, c.kind)) =
      [("font.SFNT.Subset", "&(*sfntOld.Maxp)"), ("font.SFNT.Subset", "&(*sfntOld.Head)"),
       ("font.SFNT.Subset", "&(*sfntOld.Hhea)")] := by
  decide

/-- non-vacuity of the call-site discipline: a call without the rebinding statement is rejected -/
example : ¬ (∀ c, c ∈ [MutatorCall.mk "pdf.pdfWriter.writeFont" "" "sfnt.Subset" "sfnt" false ""] → c.privateCopy = true) := by
  decide

/-! ## Pooled sweep-line objects -/

/-- **pool statelessness**: if every initialising statement after `Get` reads only fields assigned
before it and in the end every field is assigned, the object's state does not depend on what the
pool held -/
theorem pool_stateless {α : Type} (fields : List String) (ops : List (InitOp α))
    (hres : ∀ op, op ∈ ops → op.Respects) (hreads : readsAssigned fields ops [])
    (hall : ∀ f, f ∈ fields → f ∈ assignedAfter fields ops []) :
    ∀ (stale stale' : String → α) f, f ∈ fields → runInit ops stale f = runInit ops stale' f :=
  fun stale stale' f hf =>
    runInit_agree fields ops [] stale stale' hres hreads (fun g hg => by cases hg) f (hall f hf)

/-- every extracted Get site assigns every field of the pooled struct before the object is used -/
theorem pool_sites_stateless : ∀ g, g ∈ getSites → g.stateless = true := by
  decide

/-- the Get sites cover all three pools, the struct field lists are the declared ones, and the field
`traced` added to SweepPoint by the hole-orientation fix is initialised at every SweepPoint site -/
theorem pool_sites_cover :
    (∀ p, p ∈ ["canvas.boPointPool", "canvas.boNodePool", "canvas.boSquarePool"] →
      ∃ g, g ∈ getSites ∧ g.pool = p) ∧
    (∀ g, g ∈ getSites → pooledStructs.lookup g.typ = some g.fields) ∧
    (∀ g, g ∈ getSites → g.typ = "SweepPoint" → "traced" ∈ g.assigned) ∧
    (∀ g, g ∈ getSites → g.typ = "SweepNode" → g.fields.length = 5) := by
  decide

/-- instantiation: at every extracted Get site, any initialising statement list that assigns (at
least) the extracted set and reads only assigned fields yields a state independent of the pool -/
theorem pool_sites_deterministic {α : Type} (g : GetSite) (hg : g ∈ getSites) (ops : List (InitOp α))
    (hres : ∀ op, op ∈ ops → op.Respects) (hreads : readsAssigned g.fields ops [])
    (hext : ∀ f, f ∈ g.assigned → f ∈ assignedAfter g.fields ops []) :
    ∀ (stale stale' : String → α) f, f ∈ g.fields → runInit ops stale f = runInit ops stale' f := by
  have hs := pool_sites_stateless g hg
  simp only [GetSite.stateless, Bool.and_eq_true, List.all_eq_true, List.contains_iff_mem] at hs
  exact pool_stateless g.fields ops hres hreads (fun f hf => hext f (by simpa using hs.2 f hf))

/-- **release discipline**: every `Put` of the sweep-line pools lies in the release tail of its
function — the trailing statements that do nothing but Put, after the sweep loop and after the
result-tracing loop of bentleyOttmann — so no statement of the function can use an object after it
went back to a pool. No Put is inside the sweep loop or the tracing loop. -/
theorem pool_puts_in_release_tail :
    (∀ p, p ∈ putSites → p.inTail = true) ∧
    (∀ p, p ∈ putSites → p.pool = "canvas.boPointPool" ∨ p.pool = "canvas.boSquarePool" → p.fn = "bentleyOttmann") ∧
    (∀ p, p ∈ putSites → "for 0 < len(*queue)" ∉ p.loops) ∧
    (∀ q, q ∈ ["canvas.boPointPool", "canvas.boNodePool", "canvas.boSquarePool"] → ∃ p, p ∈ putSites ∧ p.pool = q) := by
  decide

/-! ## The pool protocol, verdicts computed in Lean over the raw extracted statement sequences -/

/-- **Get protocol**: at every `pool.Get()` site of the current source, the statement sequence that
follows never reads a field of the object before assigning it, never uses the object as a whole
before all fields are assigned, and has assigned every field of the struct (as declared today) when
the object is first published. A new struct field or a dropped assignment falsifies this. -/
theorem get_protocol_table : ∀ g, g ∈ getSites → initOk g.fields g.steps [] = true := by
  decide

/-- consequently, for ANY meaning of the right-hand sides that depends on the object only through the
fields the statements read, the object's state after the sequence is independent of what the pool
held — at every extracted Get site -/
theorem get_protocol_stateless {α : Type} (g : GetSite) (hg : g ∈ getSites)
    (sem : InitStep → String → (String → α) → α) (hs : SemRespects g.fields sem) :
    ∀ (stale stale' : String → α) f, f ∈ g.fields →
      runInit (toOps g.fields sem g.steps) stale f = runInit (toOps g.fields sem g.steps) stale' f :=
  initOk_stateless g.fields g.steps (get_protocol_table g hg) sem hs

/-- the general statement behind it (all field lists, all statement sequences) -/
theorem get_protocol_sound {α : Type} (fields : List String) (steps : List InitStep)
    (h : initOk fields steps [] = true) (sem : InitStep → String → (String → α) → α)
    (hs : SemRespects fields sem) (stale stale' : String → α) (f : String) (hf : f ∈ fields) :
    runInit (toOps fields sem steps) stale f = runInit (toOps fields sem steps) stale' f :=
  initOk_stateless fields steps h sem hs stale stale' f hf

/-- the Lean-side computation of the assigned set agrees with the extractor's own scan -/
theorem get_protocol_agrees_with_extractor :
    ∀ g, g ∈ getSites → ∀ f, f ∈ g.fields →
      (assignedBy g.fields g.steps []).contains f = g.assigned.contains f := by
  decide

/-- the verdict is not vacuous: newNode without `n.height = 1` is rejected, and so is a statement
that reads a field before it is assigned -/
example : initOk ["parent", "left", "right", "height", "SweepPoint"]
    [⟨"", .set "parent", [], false⟩, ⟨"", .set "left", [], false⟩, ⟨"", .set "right", [], false⟩,
     ⟨"", .set "SweepPoint", [], false⟩, ⟨"", .use, ["SweepPoint"], true⟩] [] = false := by decide
example : initOk ["a", "b"] [⟨"", .set "a", ["b"], false⟩, ⟨"", .set "b", [], false⟩, ⟨"", .use, [], true⟩] [] = false := by
  decide

/-- soundness of the driver's verdict on a junk-pool observation: `ok` means the compiled struct has
exactly the extracted fields, no field differed between the two junk fillings, and the model accepts
the site -/
theorem get_verdict_sound (g : GetSite) (typ : String) (obs : List (String × Bool))
    (h : getObsVerdict g typ obs = .ok) :
    g.typ = typ ∧ obs.map (·.1) = g.fields ∧ (∀ p, p ∈ obs → p.2 = false) ∧ initOk g.fields g.steps [] = true := by
  unfold getObsVerdict at h
  by_cases h1 : (g.typ != typ || obs.map (·.1) != g.fields) = true
  · simp [h1] at h
  · simp only [h1, Bool.false_eq_true, if_false] at h
    simp only [Bool.or_eq_true, bne_iff_ne, ne_eq, not_or, Decidable.not_not] at h1
    cases hf : obs.find? (·.2) with
    | some p =>
      rw [hf] at h
      obtain ⟨f, b⟩ := p
      by_cases hi : initOk g.fields g.steps [] = true <;> simp [hi] at h
    | none =>
      rw [hf] at h
      by_cases hi : initOk g.fields g.steps [] = true
      · refine ⟨h1.1, h1.2, ?_, hi⟩
        intro p hp
        have := List.find?_eq_none.mp hf p hp
        simpa using this
      · simp [hi] at h

/-- **Put protocol**: in every function of the current source that returns objects to a pool, no
statement other than Put-only statements (and the final return) follows the first Put-only
statement -/
theorem put_protocol_table :
    (∀ p, p ∈ putFuncs → tailOk (p.stmts.map (·.2)) = true) ∧
    (∀ s, s ∈ putSites → ∃ p, p ∈ putFuncs ∧ p.fn = s.fn) := by
  decide

/-- consequently every event sequence such a function body can produce (any number of loop
iterations, any objects) has, after its first `put`, only puts and guards of release statements: no
object is fetched or used after anything was released. (Guards — `if !event.left` — read the object
that is about to be put; that they never read an object put by an EARLIER iteration is not
derivable from the syntax and is covered by the race-detector runs only.) -/
theorem put_protocol_safe (p : PutFunc) (hp : p ∈ putFuncs) (tr : List PEv)
    (hg : Gen (p.stmts.map (·.2)) tr) (a b : List PEv) (id : Nat) (h : tr = a ++ PEv.put id :: b) :
    ∀ e, e ∈ b → e.isRelease = true :=
  tailOk_sound _ tr (put_protocol_table.1 p hp) hg a b id h

/-- general form -/
theorem put_protocol_sound (ks : List StmtKind) (tr : List PEv) (hk : tailOk ks = true) (hg : Gen ks tr)
    (a b : List PEv) (id : Nat) (h : tr = a ++ PEv.put id :: b) : ∀ e, e ∈ b → e.isRelease = true :=
  tailOk_sound ks tr hk hg a b id h

/-- non-vacuity: a body `other; release` produces real traces with uses before and puts after, and
the early-release shape `release; other` is rejected and does produce a use after a put -/
example : Gen [.other, .release] [.get 1, .use 1, .guard 1, .put 1] :=
  Gen.other (seg := [.get 1, .use 1]) (by intro e he; simp at he; rcases he with rfl | rfl <;> exact ⟨rfl, rfl⟩)
    (Gen.release (seg := [.guard 1, .put 1]) (by intro e he; simp at he; rcases he with rfl | rfl <;> rfl) Gen.nil)
example : tailOk [.release, .other] = false := by decide
example : Gen [.release, .other] [.put 1, .use 1] :=
  Gen.release (seg := [.put 1]) (by intro e he; simp at he; subst he; rfl)
    (Gen.other (seg := [.use 1]) (by intro e he; simp at he; subst he; exact ⟨rfl, rfl⟩) Gen.nil)

/-- why a double Put matters (model): an object put twice is still in the pool after it has been
handed out once — the next Get can hand the same object to a second owner -/
theorem double_put_hands_out_twice (pool : List Nat) (id : Nat) :
    id ∈ poolAfter [PEv.put id, PEv.put id, PEv.get id] pool := by
  simp [poolAfter]

/-- **deferred releases** (the `removed` list of bentleyOttmann): every site that puts objects on a
list released at the end of the function is followed, in an enclosing block of the same pass, by a
re-slicing deletion from the container the objects came from (`square.Events = append(square.Events[:i-del], …)`
/ `square.Events[:len-del]`), and it puts exactly the pair `event.other, event` of a right end point.
So the final loops release disjoint sets PROVIDED every end point occurs in one square only and once
— that part is not syntactic; it is audited on the running code (VerifC20PutAudit: every object a
call returned to the pools is drained again and must come out once; kind pool:double-put). -/
theorem deferred_releases_deleted_from_container :
    (∀ d, d ∈ deferredReleases → d.deleted = true ∧ d.args = ["event.other", "event"] ∧ d.fn = "bentleyOttmann") ∧
    deferredReleases.length = 2 := by
  decide

/-- the ownership hypothesis of `lockset_drf` (fields of a pooled object are accessed only between
its Get and its Put, `Prot.guarded (Tok.obj p v)`) matters: in the MODEL, an object that is still
read after it was Put races with the initialisation by the next thread that Gets it, in a
well-formed trace (this is why `pool_puts_in_release_tail` is an obligation on the code) -/
theorem use_after_put_races :
    WF useAfterPut ∧ Race (fun _ => []) useAfterPut 3 4 "f" ∧
    ¬ ObeysAt (fun _ => []) (.guarded (.obj "p" 1)) useAfterPut "f" := by
  refine ⟨useAfterPut_wf, useAfterPut_race, ?_⟩
  intro ob
  exact lockset_drf_at _ _ _ useAfterPut_wf "f" ob 3 4 useAfterPut_race

/-- with ownership respected the same hand-over is race free: Put → Get orders the accesses -/
example : ∀ i j, ¬ Race (fun _ => [])
    [(0, Ev.poolGet "p" 1), (0, Ev.write "f"), (0, Ev.poolPut "p" 1), (1, Ev.poolGet "p" 1), (1, Ev.write "f")] i j "f" := by
  apply lockset_drf_at (fun _ => []) (.guarded (.obj "p" 1))
  · intro k t e tok hk
    match k with
    | 0 => simp at hk; obtain ⟨rfl, rfl⟩ := hk
           constructor <;> intro h <;> simp [Ev.acq, Ev.rel] at h; subst h; rfl
    | 1 => simp at hk; obtain ⟨rfl, rfl⟩ := hk
           constructor <;> intro h <;> simp [Ev.acq, Ev.rel] at h
    | 2 => simp at hk; obtain ⟨rfl, rfl⟩ := hk
           constructor <;> intro h <;> simp [Ev.acq, Ev.rel] at h; subst h; simp [holderAt, Ev.acq, Ev.rel]
    | 3 => simp at hk; obtain ⟨rfl, rfl⟩ := hk
           constructor <;> intro h <;> simp [Ev.acq, Ev.rel] at h; subst h; simp [holderAt, Ev.acq, Ev.rel]
    | 4 => simp at hk; obtain ⟨rfl, rfl⟩ := hk
           constructor <;> intro h <;> simp [Ev.acq, Ev.rel] at h
    | k+5 => simp at hk
  · refine ⟨?_, ?_, ?_, ?_, ?_, ?_, ?_, ?_, ?_⟩
    · intro k t tok hk; match k with
      | 0 | 1 | 2 | 3 | 4 => simp at hk
      | k+5 => simp at hk
    · intro k t o _ h; cases h
    · intro k t tok hk hp
      cases hp
      match k with
      | 1 => simp at hk; subst hk; simp [heldBy, Ev.acq]
      | 4 => simp at hk; subst hk; simp [heldBy, Ev.acq]
      | 0 | 2 | 3 => simp at hk
      | k+5 => simp at hk
    · intro k t o _ h; cases h
    · intro k t _ h; cases h
    · intro o h; cases h
    · intro k t _ h; cases h
    · intro k t _ h; cases h
    · intro k t hk; match k with
      | 0 | 1 | 2 | 3 | 4 => simp at hk
      | k+5 => simp at hk

/-- the read-before-assign hypothesis matters: a statement that reads a stale field leaks it -/
example : ∃ (ops : List (InitOp Nat)) (s s' : String → Nat),
    (∀ op, op ∈ ops → op.Respects) ∧ runInit ops s "a" ≠ runInit ops s' "a" :=
  ⟨[{ all := false, f := "a", deps := ["b"], val := fun _ s => s "b" }], fun _ => 0, fun _ => 1,
   by intro op h; simp at h; subst h; intro g s s' hd; exact hd "b" (by simp), by simp [runInit, InitOp.run]⟩

end C20
