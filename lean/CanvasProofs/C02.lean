import CanvasProofs.C01

/-! # C02 — Settle preserves the filled region and returns a canonical simple path (partial)

Proved for all inputs: the Settle row of the edge-selection decision (an edge is kept iff the
subject's fill changes across it, for each of the four rules); rule-independence of canonical
paths (winding ∈ {0,1} ⇒ NonZero, EvenOdd and Positive agree, Negative fills nothing); implicit
closing does not change the specification's winding number; the column induction and the
specification laws are shared with C01. The sweep and the tracer are refined against the exact
specification on generated inputs (region, winding ∈ {0,1}, no proper crossings, re-settling). -/
namespace C02
open Canvas GenK Canvas.Wn

/-- Settle keeps a closed segment iff the subject's fill under the rule changes across it. -/
theorem inResult_settle (s : SweepPoint ℚ) (r : Wn.Rule) (hs : s.open_ = false) :
    SweepPoint.InResult s opSettle (C01.ruleOf r) =
      if r.fills (C01.below s).1 ≠ r.fills (C01.above s).1 then 1 else 0 := by
  obtain ⟨clipping, open_, osw, ow, sw, w⟩ := s
  simp only at hs
  subst hs
  cases clipping <;>
    simp_all [SweepPoint.InResult, C01.fills_agrees, C01.below, C01.above, opSettle]

/-- open subject segments are always kept by Settle -/
theorem inResult_settle_open (s : SweepPoint ℚ) (r : Wn.Rule) (hs : s.open_ = true) :
    SweepPoint.InResult s opSettle (C01.ruleOf r) = 1 := by
  obtain ⟨clipping, open_, osw, ow, sw, w⟩ := s
  simp only at hs
  subst hs
  cases clipping <;> simp [SweepPoint.InResult, opSettle]

/-- A canonical path (every point has winding 0 or 1) fills the same set under NonZero, EvenOdd
and Positive, and nothing under Negative. -/
theorem canonical_rule_independent (w : Int) (h : w = 0 ∨ w = 1) :
    Wn.Rule.nonZero.fills w = decide (w = 1) ∧ Wn.Rule.evenOdd.fills w = decide (w = 1) ∧
    Wn.Rule.positive.fills w = decide (w = 1) ∧ Wn.Rule.negative.fills w = false := by
  rcases h with h | h <;> subst h <;> decide

/-- the converse reading used by the check: if the three rules disagree somewhere the winding is
not in {0,1} -/
theorem rules_agree_of_01 (w : Int) (h : w = 0 ∨ w = 1) :
    Wn.Rule.nonZero.fills w = Wn.Rule.evenOdd.fills w ∧ Wn.Rule.nonZero.fills w = Wn.Rule.positive.fills w := by
  rcases h with h | h <;> subst h <;> decide

/-- Closing an open subpath with an explicit straight segment back to its start does not change
the winding number the specification assigns to the implicitly closed subpath. -/
theorem implicit_close_wn (p a : IPt) (t : List IPt) : wn1 p (a :: t ++ [a]) = wn1 p (a :: t) := by
  have h : ∀ (l : List IPt) (x : IPt), chainW p (l ++ [x, x]) = chainW p (l ++ [x]) := by
    intro l x
    rw [chainW_append_single]
    simp [edgeW, isLeft]
  simp only [wn1]
  have := h (a :: t) a
  simpa using this

/-- Reversal (which Settle may apply to a whole contour to orient it) negates the winding number,
so the NonZero and EvenOdd readings of a contour do not depend on its direction. -/
theorem orientation_irrelevant_nonzero_evenodd (w : Int) :
    Wn.Rule.nonZero.fills (-w) = Wn.Rule.nonZero.fills w ∧ Wn.Rule.evenOdd.fills (-w) = Wn.Rule.evenOdd.fills w := by
  constructor
  · simp [Wn.Rule.fills]
  · simp only [Wn.Rule.fills]
    have : (-w) % 2 = 0 ↔ w % 2 = 0 := by omega
    simp [this]

/-- column induction specialised to Settle (a single polygon: every segment is subject) -/
theorem settle_windings_are_crossing_sums (col : List C01.Seg) (pre below : List (C01.Seg × C01.Fields))
    (s : C01.Seg) (f : C01.Fields) (h : C01.foldColumn col = pre ++ (s, f) :: below) (hc : s.clipping = false) :
    f.w = (C01.sums below).1 := by
  have := C01.sweep_windings_are_crossing_sums col pre below s f h
  simp only [C01.expected, hc] at this
  exact (Prod.mk.inj this).1

example : (0 : Int) = 0 ∨ (0 : Int) = 1 := Or.inl rfl

end C02
