import CanvasProofs.C01
import CanvasGen.SweepF
import CanvasProofs.Lemmas.C02Column
import CanvasProofs.Lemmas.C02Verdict
import CanvasProofs.Lemmas.C02Trace
import CanvasProofs.Lemmas.C02Endpoints

/-! # C02 — Settle preserves the filled region and returns a canonical simple path (partial)

Proved for all inputs: the Settle row of the edge-selection decision (an edge is kept iff the
subject's fill changes across it, for each of the four rules); rule-independence of canonical
paths (winding ∈ {0,1} ⇒ NonZero, EvenOdd and Positive agree, Negative fills nothing); implicit
closing does not change the specification's winding number; the column induction and the
specification laws are shared with C01. The sweep and the tracer are refined against the exact
specification on generated inputs (region, winding ∈ {0,1}, no proper crossings, re-settling).

Second wave (sections A–D below): Settle along a column as a function (region preservation,
winding ∈ {0,1}, alternation, canonical output, idempotence — for all columns, all rules, incl.
columns rewritten by `mergeOverlapping`); soundness, completeness, tolerance monotonicity and
symmetries of the verdict function that judges real outputs; soundness of the checker of the real
final sweep/tracer state and the tracer's hole rule. -/
namespace C02
open Canvas GenK Canvas.Wn

/-- Settle keeps a closed segment iff the subject's fill under the rule changes across it. -/
theorem inResult_settle (s : SweepPoint ℚ) (r : Wn.Rule) (hs : s.open_ = false) :
    SweepPoint.InResult s opSettle (C01.ruleOf r) =
      if r.fills (C01.below s).1 ≠ r.fills (C01.above s).1 then 1 else 0 := by
  obtain ⟨clipping, open_, osw, ow, sw, w⟩ := s
  simp only at hs
  subst hs
  cases clipping <;>
    simp_all [SweepPoint.InResult, C01.fills_agrees, C01.below, C01.above, opSettle]

/-- open subject segments are always kept by Settle -/
theorem inResult_settle_open (s : SweepPoint ℚ) (r : Wn.Rule) (hs : s.open_ = true) :
    SweepPoint.InResult s opSettle (C01.ruleOf r) = 1 := by
  obtain ⟨clipping, open_, osw, ow, sw, w⟩ := s
  simp only at hs
  subst hs
  cases clipping <;> simp [SweepPoint.InResult, opSettle]

/-- A canonical path (every point has winding 0 or 1) fills the same set under NonZero, EvenOdd
and Positive, and nothing under Negative. -/
theorem canonical_rule_independent (w : Int) (h : w = 0 ∨ w = 1) :
    Wn.Rule.nonZero.fills w = decide (w = 1) ∧ Wn.Rule.evenOdd.fills w = decide (w = 1) ∧
    Wn.Rule.positive.fills w = decide (w = 1) ∧ Wn.Rule.negative.fills w = false := by
  rcases h with h | h <;> subst h <;> decide

/-- the converse reading used by the check: if the three rules disagree somewhere the winding is
not in {0,1} -/
theorem rules_agree_of_01 (w : Int) (h : w = 0 ∨ w = 1) :
    Wn.Rule.nonZero.fills w = Wn.Rule.evenOdd.fills w ∧ Wn.Rule.nonZero.fills w = Wn.Rule.positive.fills w := by
  rcases h with h | h <;> subst h <;> decide

/-- Closing an open subpath with an explicit straight segment back to its start does not change
the winding number the specification assigns to the implicitly closed subpath. -/
theorem implicit_close_wn (p a : IPt) (t : List IPt) : wn1 p (a :: t ++ [a]) = wn1 p (a :: t) := by
  have h : ∀ (l : List IPt) (x : IPt), chainW p (l ++ [x, x]) = chainW p (l ++ [x]) := by
    intro l x
    rw [chainW_append_single]
    simp [edgeW, isLeft]
  simp only [wn1]
  have := h (a :: t) a
  simpa using this

/-- Reversal (which Settle may apply to a whole contour to orient it) negates the winding number,
so the NonZero and EvenOdd readings of a contour do not depend on its direction. -/
theorem orientation_irrelevant_nonzero_evenodd (w : Int) :
    Wn.Rule.nonZero.fills (-w) = Wn.Rule.nonZero.fills w ∧ Wn.Rule.evenOdd.fills (-w) = Wn.Rule.evenOdd.fills w := by
  constructor
  · simp [Wn.Rule.fills]
  · simp only [Wn.Rule.fills]
    have : (-w) % 2 = 0 ↔ w % 2 = 0 := by omega
    simp [this]

/-- column induction specialised to Settle (a single polygon: every segment is subject) -/
theorem settle_windings_are_crossing_sums (col : List C01.Seg) (pre below : List (C01.Seg × C01.Fields))
    (s : C01.Seg) (f : C01.Fields) (h : C01.foldColumn col = pre ++ (s, f) :: below) (hc : s.clipping = false) :
    f.w = (C01.sums below).1 := by
  have := C01.sweep_windings_are_crossing_sums col pre below s f h
  simp only [C01.expected, hc] at this
  exact (Prod.mk.inj this).1

example : (0 : Int) = 0 ∨ (0 : Int) = 1 := Or.inl rfl

/-! ## A. the hand-written Settle decision is the generated one; the driver's copy is the proved one -/

/-- the model's `keep` is the Settle row of the generated `InResult`, open segments included -/
theorem keep_is_inResult (r : Wn.Rule) (s : C01.Seg) (f : C01.Fields) (hc : s.clipping = false) :
    SweepPoint.InResult (⟨s.clipping, s.open_, f.osw, f.ow, f.sw, f.w⟩ : SweepPoint ℚ) opSettle (C01.ruleOf r)
      = if Canvas.C02.keep r s f then 1 else 0 := by
  cases ho : s.open_
  · rw [inResult_settle _ r (by simpa using ho)]
    simp [Canvas.C02.keep, ho, C01.below, C01.above, hc]
  · rw [inResult_settle_open _ r (by simpa using ho)]
    simp [Canvas.C02.keep, ho]

/-- the executable `InResult` the drivers run (group Sweep, Float mode) and the one the theorems
are about (field mode) are the same function -/
theorem driver_inResult_is_proved_inResult (c o : Bool) (osw ow sw w op rule : Int) :
    GenF.SweepPoint.InResult (⟨c, o, osw, ow, sw, w⟩ : GenF.SweepPoint Float) op rule
      = GenK.SweepPoint.InResult (⟨c, o, osw, ow, sw, w⟩ : GenK.SweepPoint ℚ) op rule := rfl

/-! ## B. Settle along a column -/
section Column
open Canvas.C02 Canvas.C01

/-- `computeSweepFields` folded up any column of subject segments establishes the Settle invariant -/
theorem settle_invariant_of_sweep (col : List Seg) (hc : ∀ s ∈ col, s.clipping = false) :
    GoodS (foldColumn col) ∧ OpenZero (foldColumn col) := goodS_foldColumn col hc

/-- `mergeOverlapping` anywhere in a column keeps the Settle invariant of the whole column (the
entries above the run included), given that coincident segments agree on being vertical and the
first segment that is not absorbed is not vertical and itself correct -/
theorem settle_invariant_merge (above : List (Seg × Fields)) (s : C01Merge.Ent) (below : List C01Merge.Ent)
    (hg : GoodS (above ++ C01Merge.pairs (s :: below)))
    (hv : ∀ p ∈ below, p.geom = s.geom → p.seg.vertical = s.seg.vertical)
    (hp : ∀ p rest', (C01Merge.absorb s below).2.2 = p :: rest' →
      p.seg.vertical = false ∧ p.f.w = (sums (C01Merge.pairs rest')).1) :
    GoodS (above ++ C01Merge.pairs ((C01Merge.merge s below).s :: (C01Merge.merge s below).below)) :=
  goodS_congr_below above _ _ (C01Merge.merge_sums s below hv).symm
    (goodS_merge s below (goodS_suffix above _ hg) hp) hg

/-- REGION PRESERVATION ALONG A COLUMN. In a column with the Settle invariant (any height, any
self windings — merged overlapping segments included), for each of the four rules, at every
height: if every kept edge is directed with the filled side on its left (`resSW`), the winding
number of the result is 1 exactly where the input is filled under the rule, and 0 elsewhere -/
theorem column_region_preserved (r : Wn.Rule) (pre L : List (Seg × Fields)) (h : GoodS (pre ++ L)) :
    resSum r L = ind (r.fills (sums L).1) := resSum_region r L (goodS_suffix pre L h)

/-- … in particular it is 0 or 1 (winding-01) -/
theorem column_winding_01 (r : Wn.Rule) (pre L : List (Seg × Fields)) (h : GoodS (pre ++ L)) :
    resSum r L = 0 ∨ resSum r L = 1 := resSum_01 r L (goodS_suffix pre L h)

/-- the kept edges alternate: walking down from any height, the first boundary edge is directed
+1 iff the region above it is filled, every boundary edge flips that, and the walk ends unfilled -/
theorem column_kept_edges_alternate (r : Wn.Rule) (pre L : List (Seg × Fields)) (h : GoodS (pre ++ L)) :
    altDown (r.fills (sums L).1) (keptDirs r L) = true := altDown_keptDirs r L (goodS_suffix pre L h)

/-- an edge has a non-zero direction in the canonical result iff Settle keeps it (closed edges) -/
theorem column_kept_iff_boundary (r : Wn.Rule) (s : Seg) (f : Fields) (ho : s.open_ = false) :
    keep r s f = true ↔ resSW r f ≠ 0 := by
  simp only [keep, ho, resSW, ind]
  cases r.fills f.w <;> cases r.fills (f.w + f.sw) <;> simp

/-- for the real sweep: every column of subject segments, every rule, every height -/
theorem sweep_column_region_preserved (r : Wn.Rule) (col : List Seg) (hc : ∀ s ∈ col, s.clipping = false)
    (pre L : List (Seg × Fields)) (h : foldColumn col = pre ++ L) :
    resSum r L = ind (r.fills (sums L).1) ∧ altDown (r.fills (sums L).1) (keptDirs r L) = true := by
  have hg := (goodS_foldColumn col hc).1
  rw [h] at hg
  exact ⟨column_region_preserved r pre L hg, column_kept_edges_alternate r pre L hg⟩

/-- Settle as a function on columns returns a column that (1) carries the crossing sums of its own
edges (`Good`: sweeping it again recomputes the same fields), (2) is canonical: winding 0 or 1
below and above every edge, directions ±1 consistent with the `increasing` flags, and (3) has the
winding number 1 exactly where the input column is filled -/
theorem column_result_canonical (r : Wn.Rule) (L : List (Seg × Fields)) (h : GoodS L) (ho : OpenZero L) :
    Good (outCol r L) ∧ Canonical (outCol r L) ∧ (sums (outCol r L)).1 = ind (r.fills (sums L).1) :=
  ⟨good_outCol r L h ho, canonical_outCol r L h ho, outCol_region r L h ho⟩

/-- a canonical column is a fixed point of Settle under NonZero, EvenOdd and Positive: every edge
is kept with its direction and fields -/
theorem column_canonical_fixed_point (r : Wn.Rule) (hr : threeRules r) (L : List (Seg × Fields))
    (hg : Good L) (hk : Canonical L) : outCol r L = L := outCol_fixed r hr L hg hk

/-- … and has no boundary at all under Negative -/
theorem column_canonical_negative_empty (L : List (Seg × Fields)) (hk : Canonical L) :
    keptDirs .negative L = [] := keptDirs_negative L hk

/-- IDEMPOTENCE ALONG A COLUMN: settling (any rule r) a column of subject segments, feeding the
result's segments to the sweep again and settling with NonZero, EvenOdd or Positive gives back the
same column: same edges, same directions, same winding fields -/
theorem column_settle_idempotent (r r' : Wn.Rule) (hr : threeRules r') (col : List Seg)
    (hc : ∀ s ∈ col, s.clipping = false) :
    settleCol r' (segsOf (settleCol r col)) = settleCol r col := by
  obtain ⟨hg, ho⟩ := goodS_foldColumn col hc
  have h1 := good_outCol r _ hg ho
  have h2 := canonical_outCol r _ hg ho
  unfold settleCol
  rw [refold _ h1 h2]
  exact outCol_fixed r' hr _ h1 h2

end Column

/-! ## C. the verdict function that judges real Settle outputs -/
section Verdict
open Canvas.C02

/-- SOUNDNESS: verdict ok ⇒ for every query point farther than δ from input and result the result
(read NonZero) fills it iff the input fills it under the rule, and its winding number in the result
is 0 or 1; no two result segments cross by more than δ; every query point is accounted for -/
theorem verdict_sound (rule : Wn.Rule) (P R : List (List IPt)) (pts : List IPt) (d2 : Int) (c k : Nat)
    (h : verdict rule P R pts d2 = .ok c k) :
    (∀ p ∈ pts, judged P R d2 p = true →
      rule.fills (wn p P) = Wn.Rule.nonZero.fills (wn p R) ∧ (wn p R = 0 ∨ wn p R = 1)) ∧
    NoCross d2 (allSegs R) ∧ c + k = pts.length := by
  obtain ⟨⟨h1, h2⟩, h3⟩ := verdict_ok_sound rule P R pts d2 c k h
  exact ⟨h1, h2, h3⟩

/-- COMPLETENESS: an observation that satisfies the predicate is never reported -/
theorem verdict_complete (rule : Wn.Rule) (P R : List (List IPt)) (pts : List IPt) (d2 : Int)
    (h : Holds rule P R pts d2) : ∃ c k, verdict rule P R pts d2 = .ok c k :=
  verdict_ok_complete rule P R pts d2 h

/-- a judged point that passes reads the same under NonZero, EvenOdd and Positive (and is empty
under Negative): the "fills the same region under the three rules" clause of the property -/
theorem verdict_point_rule_independent (rule : Wn.Rule) (wp wr : Int) (h : PointOK rule wp wr) :
    Wn.Rule.evenOdd.fills wr = Wn.Rule.nonZero.fills wr ∧ Wn.Rule.positive.fills wr = Wn.Rule.nonZero.fills wr ∧
      Wn.Rule.negative.fills wr = false := by
  obtain ⟨a, b, c⟩ := pointOK_rules_agree rule wp wr h
  exact ⟨by rw [a, h.1], by rw [b, h.1], c⟩

/-- MONOTONE IN THE TOLERANCE: accepted at δ ⇒ accepted at every δ' ≥ δ -/
theorem verdict_tolerance_monotone (rule : Wn.Rule) (P R : List (List IPt)) (pts : List IPt) (d d' : Int)
    (hd : d ≤ d') (c k : Nat) (h : verdict rule P R pts d = .ok c k) :
    ∃ c' k', verdict rule P R pts d' = .ok c' k' :=
  verdict_ok_complete rule P R pts d' (holds_mono rule P R pts d d' hd (verdict_ok_sound rule P R pts d c k h).1)

/-- symmetries of the judgement of one point: reversing the input does not matter under NonZero and
EvenOdd, and exchanges Positive and Negative -/
theorem verdict_point_symmetries (wp wr : Int) :
    pointClass .nonZero (-wp) wr = pointClass .nonZero wp wr ∧
    pointClass .evenOdd (-wp) wr = pointClass .evenOdd wp wr ∧
    pointClass .positive (-wp) wr = pointClass .negative wp wr :=
  ⟨pointClass_input_reversed _ (Or.inl rfl) wp wr, pointClass_input_reversed _ (Or.inr rfl) wp wr,
   pointClass_positive_negative wp wr⟩

end Verdict

/-! ## D. the final sweep state of real runs and the tracer's hole rule -/
section Trace
open Canvas.C02 Canvas.C01

/-- a prev-chain of the real final sweep state accepted by the checker satisfies the Settle
invariant, hence region preservation and winding-01 hold along it at every height -/
theorem trace_chain_sound (r : Wn.Rule) (pre L : List TEnt) (h : chainCheck r (pre ++ L) = none) :
    GoodS (tpairs L) ∧ resSum r (tpairs L) = ind (r.fills (colSum (tpairs L))) ∧
      altDown (r.fills (colSum (tpairs L))) (keptDirs r (tpairs L)) = true := by
  have hk : ChainOK r L := by
    have := (chainCheck_none_iff r _).mp h
    clear h
    induction pre with
    | nil => exact this
    | cons x pre ih => exact ih this.2
  have hg := chainOK_goodS r L hk
  have hs := colSum_eq_sums _ (chainOK_clipping r L hk)
  rw [hs]
  exact ⟨hg, resSum_region r _ hg, altDown_keptDirs r _ hg⟩

/-- an accepted traced closed edge leaves the tracer with the direction of the canonical result,
is kept by the Settle decision, and where its direction could be observed in the returned path it
is that direction -/
theorem trace_edge_direction (r : Wn.Rule) (e : TEnt) (below : List TEnt) (h : chainCheck r (e :: below) = none)
    (ho : e.overlapped = false) (ht : e.traced = true) (hop : e.seg.open_ = false) :
    keep r e.seg e.f = true ∧ dirOfRW e.rw = resSW r e.f ∧ (e.dir = 0 ∨ e.dir = resSW r e.f) := by
  have hk := ((chainCheck_none_iff r _).mp h).1
  exact ⟨by rw [← (entry_live hk ho).2]; exact ht, traced_direction hk ho ht hop, (entry_traced hk ho ht hop).2⟩

/-- HOLE RULE: with `resultWindings = depth + [traversed left-to-right]` and the contour reversed iff
its depth is odd, an edge ends up running left-to-right iff its `resultWindings` is odd — for every
depth and both traversal directions -/
theorem tracer_hole_rule (d : Int) (right : Bool) :
    dirOfRW (tracerRW d right) = if finalRight d right then 1 else -1 := tracer_direction d right

/-- consequently a contour whose first edge lies directly above a region that the result fills
(odd nesting depth below it) is a hole and is reversed, and one above an unfilled region is not -/
theorem tracer_reverses_iff_filled_below (d : Int) : finalRight d true = (d % 2 == 0) := by
  rcases Int.emod_two_eq d with h | h <;> simp [finalRight, h]

/-- CYCLE GUARD (fix d8460b7): on every acyclic chain, for every skip predicate, the guarded nesting
walk returns what the unguarded walk returns — the guard changes nothing except on a cyclic chain,
where it ends the walk (the trace checker rejects such a state as `prev-cycle`) -/
theorem tracer_cycle_guard_noop_on_acyclic (skip : TEnt → Bool) (chain : Array TEnt) (fuel : Nat) :
    walkGuarded skip chain fuel 0 0 0 = walkPlain skip chain fuel 0 :=
  walkGuarded_eq_plain skip chain fuel 0

end Trace

/-! ## E. operand preparation (`AddPathEndpoints`) -/
section Endpoints
open Canvas.C02 Canvas.C01

/-- every sweep segment of a closed subpath is closed, every segment of an open subpath is open
(no closing edge is ever added for the subject), and all are subject segments -/
theorem endpoints_open_flag (seg : Nat) (verts : List IPt) (closed : Bool) :
    ∀ e ∈ addPathEndpoints seg verts closed, e.flags.open_ = !closed ∧ e.flags.clipping = false :=
  epChain_open (!closed) seg _

/-- a closed contour crosses every vertical line that passes through none of its vertices as often
left-to-right as right-to-left — for every contour, self-intersecting or not -/
theorem closed_contour_balanced (c : Int) (seg : Nat) (verts : List IPt) (h : ∀ v ∈ verts, v.x ≠ c) :
    crossSum c (addPathEndpoints seg verts true) = 0 := crossSum_closed c seg verts h

/-- the flags `AddPathEndpoints` stores say the same: a segment crossing the line is not vertical
and the self winding `computeSweepFields` derives from `increasing` is its crossing direction -/
theorem endpoint_flags_are_crossing_direction (c : Int) (seg : Nat) (a b : IPt)
    (h : crossDir c (mkEP false seg a b) ≠ 0) :
    (mkEP false seg a b).flags.vertical = false ∧ selfW (mkEP false seg a b).flags = crossDir c (mkEP false seg a b) :=
  crossDir_flags c seg a b h

/-- hence, in a column whose crossing sum is 0 (any column cut out of closed contours by
`closed_contour_balanced`), the result of Settle is unfilled above the topmost edge, for every rule:
the kept edges pair up, the topmost one is directed −1 -/
theorem balanced_column_closes (r : Wn.Rule) (L : List (Seg × Fields)) (h : GoodS L) (h0 : (sums L).1 = 0) :
    resSum r L = 0 ∧ altDown false (keptDirs r L) = true := by
  have h1 := resSum_region r L h
  have h2 := altDown_keptDirs r L h
  rw [h0, fills_zero] at h1 h2
  exact ⟨by simpa [ind] using h1, h2⟩

end Endpoints

/-! ## non-vacuity -/
section NonVacuity
open Canvas.C02 Canvas.C01

/-- a column with a doubly wound region: two upward edges, then two downward ones -/
def exCol : List Seg := [⟨false, false, true, false⟩, ⟨false, false, true, false⟩, ⟨false, true, true, false⟩,
  ⟨false, false, false, false⟩, ⟨false, false, false, false⟩]

example : ∀ s ∈ exCol, s.clipping = false := by decide
example : keptDirs .nonZero (foldColumn exCol) = [-1, 1] := by decide
example : keptDirs .evenOdd (foldColumn exCol) = [-1, 1, -1, 1] := by decide
example : (settleCol .nonZero exCol).length = 2 ∧ (settleCol .evenOdd exCol).length = 4 := by decide
example : settleCol .positive (segsOf (settleCol .evenOdd exCol)) = settleCol .evenOdd exCol := by decide
/-- a merged entry (|sw| = 2) between winding −1 and +1: kept under Positive, dropped under NonZero -/
example : keep .positive ⟨false, false, true, false⟩ ⟨-1, 0, 2, 0⟩ = true ∧
    keep .nonZero ⟨false, false, true, false⟩ ⟨-1, 0, 2, 0⟩ = false := by decide
example : GoodS [(⟨false, false, true, false⟩, ⟨-1, 0, 2, 0⟩), (⟨false, false, false, false⟩, ⟨0, 0, -1, 0⟩)] := by
  simp [GoodS, sums, contrib]
example : threeRules .evenOdd := Or.inr (Or.inl rfl)
/-- a chain on which `mergeOverlapping` really merges (the receiver absorbs the coincident edge
below it and carries self winding 2 afterwards) and which meets every hypothesis of
`settle_invariant_merge` -/
def exS : C01Merge.Ent := ⟨⟨false, false, true, false⟩, 1, false, ⟨0, 0, 1, 0⟩⟩
def exBelow : List C01Merge.Ent :=
  [⟨⟨false, false, true, false⟩, 1, false, ⟨-1, 0, 1, 0⟩⟩, ⟨⟨false, false, false, false⟩, 2, false, ⟨0, 0, -1, 0⟩⟩]
example : (C01Merge.merge exS exBelow).touched = true ∧ (C01Merge.merge exS exBelow).s.f = ⟨-1, 0, 2, 0⟩ := by decide
example : GoodS ([] ++ C01Merge.pairs ((C01Merge.merge exS exBelow).s :: (C01Merge.merge exS exBelow).below)) := by
  apply settle_invariant_merge [] exS exBelow
  · simp [GoodS, C01Merge.pairs, exS, exBelow, sums, contrib]
  · decide
  · intro p rest' h
    have : (C01Merge.absorb exS exBelow).2.2 = [⟨⟨false, false, false, false⟩, 2, false, ⟨0, 0, -1, 0⟩⟩] := by decide
    rw [this] at h
    obtain ⟨rfl, rfl⟩ := List.cons.inj h
    exact ⟨rfl, rfl⟩
/-- the verdict accepts the unit square settled to itself, judged at its centre (coordinates ×2) -/
example : verdict .nonZero [[⟨0, 0⟩, ⟨4, 0⟩, ⟨4, 4⟩, ⟨0, 4⟩]] [[⟨0, 0⟩, ⟨4, 0⟩, ⟨4, 4⟩, ⟨0, 4⟩]] [⟨2, 2⟩, ⟨9, 9⟩, ⟨0, 1⟩] 1
    = .ok 2 1 := by decide
/-- … and rejects the same square returned clockwise under Positive -/
example : verdict .positive [[⟨0, 0⟩, ⟨4, 0⟩, ⟨4, 4⟩, ⟨0, 4⟩]] [[⟨0, 4⟩, ⟨4, 4⟩, ⟨4, 0⟩, ⟨0, 0⟩]] [⟨2, 2⟩] 1
    = .failPoint "winding-not-01" 0 1 (-1) := by decide
/-- a two-edge chain as the tracer leaves it: bottom edge depth 0 traversed rightwards, top edge leftwards -/
example : chainCheck .nonZero [⟨⟨false, false, false, false⟩, ⟨1, 0, -1, 0⟩, false, true, 0, -1⟩,
    ⟨⟨false, false, true, false⟩, ⟨0, 0, 1, 0⟩, false, true, 1, 1⟩] = none := by decide
/-- … and the same chain with the top edge's nesting count off by one is rejected -/
example : chainCheck .nonZero [⟨⟨false, false, false, false⟩, ⟨1, 0, -1, 0⟩, false, true, 1, 0⟩,
    ⟨⟨false, false, true, false⟩, ⟨0, 0, 1, 0⟩, false, true, 1, 1⟩] = some ("nesting-parity", 0) := by decide

/-- a self-intersecting closed contour (a bow tie) and a line through no vertex -/
example : crossSum 1 (addPathEndpoints 0 [⟨0, 0⟩, ⟨2, 2⟩, ⟨2, 0⟩, ⟨0, 2⟩] true) = 0 := by decide
example : (addPathEndpoints 0 [⟨0, 0⟩, ⟨2, 2⟩, ⟨2, 0⟩, ⟨0, 2⟩] true).map (crossDir 1) = [1, 0, -1, 0] := by decide
/-- the same vertices as an open subpath: no closing edge, the crossings do not balance -/
example : crossSum 1 (addPathEndpoints 0 [⟨0, 0⟩, ⟨2, 2⟩, ⟨2, 0⟩] false) = 1 := by decide
example : crossDir 1 (mkEP false 1 ⟨0, 0⟩ ⟨2, 2⟩) ≠ 0 := by decide
example : (sums (foldColumn exCol)).1 = 0 := by decide

/-- the guarded walk skips two untraced entries and stops at the traced third one -/
example : walkGuarded (fun e => !e.traced) #[⟨⟨false, false, true, false⟩, ⟨0, 0, 1, 0⟩, false, false, 0, 0⟩,
    ⟨⟨false, false, true, false⟩, ⟨0, 0, 1, 0⟩, false, false, 0, 0⟩,
    ⟨⟨false, false, true, false⟩, ⟨0, 0, 1, 0⟩, false, true, 1, 1⟩] 4 0 0 0 = some 2 := by decide

end NonVacuity

end C02
