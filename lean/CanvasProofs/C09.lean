import CanvasProofs.Lemmas.C09Invol
import CanvasProofs.Lemmas.C09Geom
import CanvasProofs.Lemmas.C09Wn
import CanvasProofs.Lemmas.C09Split
import CanvasProofs.Lemmas.C09Cuts
import CanvasProofs.Lemmas.C09GL
import CanvasProofs.Lemmas.C09Parse
import CanvasProofs.Lemmas.C09SplitAt
import CanvasProofs.Lemmas.C09Measure
import CanvasProofs.Lemmas.C09Verdict
import CanvasProofs.Lemmas.C09Intervals
import CanvasProofs.Lemmas.C09Refine
import CanvasProofs.Lemmas.C09Length
import CanvasProofs.Lemmas.C09Polish
/-!
# C09 — Length, SplitAt and Reverse are consistent views of one curve

Property theorems.  `Canvas.C09.reverseF/reverse` model `Path.Reverse`, `Canvas.C09.split` models
`Path.Split` (both compared bit-exactly with the real code on every check); a *structured path* is a
list of subpaths `M start (L|Q|C|A)* [Z start]` (`SubPath`), `flatR` its path model, `flatF` its
records in array order.  `eq` is `Point.Equals` (any relation: the theorems do not look inside),
`z` the zero point.  The cutting loops and the split functions are over any ordered field; the
split functions are regenerated from path_util.go on every check.
-/
namespace C09
open Canvas Canvas.Path Canvas.C09 C09L

variable {α : Type}

/-! ## Reverse -/

/-- `Reverse` returns the subpaths in reverse order, each one reversed (`revSub`: reversed list of
commands, Bézier control points swapped, arc sweep flipped, closing segment made explicit and a first
LineTo turned into the Close).  For all structured paths, any `eq`. -/
theorem reverse_structure (eq : Pt α → Pt α → Bool) (z : Pt α) (subs : List (SubPath α))
    (hd : ∀ s ∈ subs, s.drawOnly = true) :
    reverse eq z (flatR subs) = flatR ((subs.map (revSub eq)).reverse) :=
  reverse_flat eq z subs hd

/-- `Reverse` is an involution, with exact coordinates, on every structured path whose closed subpaths
carry no zero-length LineTo next to the start point (`RevOK`; the builder guarantees it). -/
theorem reverse_involutive (eq : Pt α → Pt α → Bool) (z : Pt α) (subs : List (SubPath α))
    (h : ∀ s ∈ subs, s.RevOK eq) :
    reverse eq z (reverse eq z (flatR subs)) = flatR subs :=
  reverse_reverse_flat eq z subs h

/-- the same two theorems stated on record arrays: every array `cs` (array order) that reads as a
structured path (`toSubs`: subpaths `M (L|Q|C|A)* [Z with the M's coordinates]`) is reversed
subpath-wise, and reversing twice returns the array -/
theorem reverse_array [DecidableEq α] (eq : Pt α → Pt α → Bool) (z : Pt α) (cs : List (Cmd α))
    (subs : List (SubPath α)) (h : toSubs cs = some subs) :
    reverseF eq z cs.reverse = flatF ((subs.map (revSub eq)).reverse) := by
  obtain ⟨hf, hd⟩ := toSubs_flat cs subs h
  rw [← hf]
  exact reverseF_flat eq z subs hd

theorem reverse_involutive_array [DecidableEq α] (eq : Pt α → Pt α → Bool) (z : Pt α) (cs : List (Cmd α))
    (subs : List (SubPath α)) (h : toSubs cs = some subs) (hok : ∀ s ∈ subs, s.RevOK eq) :
    reverse eq z (reverse eq z cs.reverse) = cs.reverse := by
  obtain ⟨hf, _⟩ := toSubs_flat cs subs h
  rw [← hf]
  exact reverse_reverse_flat eq z subs hok

/-- the hypothesis of `reverse_involutive` cannot be dropped: with a LineTo back to the start point
before the Close (`M0 L1 L0 Z0`, which the builder never produces) reversing twice loses a record -/
theorem reverse_involutive_needs_hypothesis :
    let eq : Pt Int → Pt Int → Bool := fun a b => decide (a = b)
    let p : RPath Int := flatR [⟨⟨0, 0⟩, [.line ⟨1, 0⟩, .line ⟨0, 0⟩], true⟩]
    reverse eq ⟨0, 0⟩ (reverse eq ⟨0, 0⟩ p) ≠ p := by
  decide

/-- closedness is preserved: the flags of the subpaths of the reversed path are those of the path,
in reverse order -/
theorem reverse_closed (eq : Pt α → Pt α → Bool) (z : Pt α) (subs : List (SubPath α))
    (hd : ∀ s ∈ subs, s.drawOnly = true) :
    closedFlags (reverseF eq z (flatR subs)) = (closedFlags (flatF subs)).reverse := by
  rw [reverseF_flat eq z subs hd, closedFlags_flat _ (by
      intro t ht
      simp only [List.mem_reverse, List.mem_map] at ht
      obtain ⟨s, hs, rfl⟩ := ht
      exact revSub_drawOnly eq s (hd s hs)),
    closedFlags_flat subs hd, List.map_reverse, List.map_map]
  congr 1
  exact List.map_congr_left (fun s _ => revSub_closed_eq eq s)

/-- same point set, opposite direction: the geometric segments of the reversed path are the segments
of the path in reverse order, each one reversed (end points exchanged, Bézier control points
swapped, arc sweep flag flipped; a closing segment is a line) -/
theorem reverse_points (eq : Pt α → Pt α → Bool) (subs : List (SubPath α)) (h : ∀ s ∈ subs, s.RevOK eq) :
    geom eq ((subs.map (revSub eq)).reverse) = ((geom eq subs).reverse).map Seg.rev :=
  geom_reverse eq subs h

/-- `Reverse` negates the winding number of a flat path around EVERY point (exact integer
coordinates, exact `Equals`), by the laws of the L3 specification (`Canvas.Wn.wn1_reverse`,
`wn1_rotate`, `wn_append`) -/
theorem reverse_negates_wn (q : Wn.IPt) (subs : List (SubPath Int))
    (hl : ∀ s ∈ subs, SubPath.flatLines s = true) (h : ∀ s ∈ subs, s.RevOK eqExact) :
    Wn.wn q (((subs.map (revSub eqExact)).reverse).map contour) = - Wn.wn q (subs.map contour) :=
  wn_reverse_flat q subs hl h

/-- `Reverse` preserves every quantity that is accumulated over the geometric segments by a
commutative, associative operation and does not depend on a segment's direction.  Instances: the arc
length with an exact, direction-independent segment length (`op = +`), the bounding box (`op` = box
union), the set of points. -/
theorem reverse_preserves_measure {M : Type} (eq : Pt α → Pt α → Bool) (op : M → M → M) (e : M)
    (m : Seg α → M) (hassoc : ∀ a b c, op (op a b) c = op a (op b c)) (hcomm : ∀ a b, op a b = op b a)
    (hid : ∀ a, op e a = a) (hrev : ∀ s, m (Seg.rev s) = m s)
    (subs : List (SubPath α)) (h : ∀ s ∈ subs, s.RevOK eq) :
    accum op e m (geom eq ((subs.map (revSub eq)).reverse)) = accum op e m (geom eq subs) :=
  measure_reverse eq op e m hassoc hcomm hid hrev subs h

/-- Length invariance: for any segment-length function into an ordered field that does not depend on
the direction, the reversed path has the same total length -/
theorem reverse_preserves_length {K : Type} [Field K] (eq : Pt α → Pt α → Bool) (len : Seg α → K)
    (hrev : ∀ s, len (Seg.rev s) = len s) (subs : List (SubPath α)) (h : ∀ s ∈ subs, s.RevOK eq) :
    accum (· + ·) 0 len (geom eq ((subs.map (revSub eq)).reverse)) = accum (· + ·) 0 len (geom eq subs) :=
  measure_reverse eq (· + ·) 0 len add_assoc add_comm zero_add hrev subs h

/-- Bounds invariance: for any direction-independent bounding interval per segment (here one
coordinate: lower bound by `min`, upper bound by `max`, over a linear order with bottom/top elements
`lo`, `hi`), the reversed path has the same bounds -/
theorem reverse_preserves_bounds {K : Type} [LinearOrder K] (eq : Pt α → Pt α → Bool) (hi lo : K)
    (hhi : ∀ a, min hi a = a) (hlo : ∀ a, max lo a = a)
    (segMin segMax : Seg α → K) (hmin : ∀ s, segMin (Seg.rev s) = segMin s) (hmax : ∀ s, segMax (Seg.rev s) = segMax s)
    (subs : List (SubPath α)) (h : ∀ s ∈ subs, s.RevOK eq) :
    accum min hi segMin (geom eq ((subs.map (revSub eq)).reverse)) = accum min hi segMin (geom eq subs) ∧
    accum max lo segMax (geom eq ((subs.map (revSub eq)).reverse)) = accum max lo segMax (geom eq subs) :=
  ⟨measure_reverse eq min hi segMin min_assoc min_comm hhi hmin subs h,
   measure_reverse eq max lo segMax max_assoc max_comm hlo hmax subs h⟩

/-- the number of subpaths is preserved -/
theorem reverse_subpath_count (eq : Pt α → Pt α → Bool) (z : Pt α) (subs : List (SubPath α))
    (hd : ∀ s ∈ subs, s.drawOnly = true) :
    (closedFlags (reverseF eq z (flatR subs))).length = subs.length := by
  rw [reverse_closed eq z subs hd, closedFlags_flat subs hd]; simp

/-- the executable specification `reverseVerdict` that judges the REAL output of `Path.Reverse` on every
check (`REVSPEC` verdict lines, exact bit patterns) is sound: `ok` means that input and output read as
structured paths satisfying `RevOK`, with the same number of subpaths, closedness flags in reverse
order and reversed geometric segments in reverse order -/
theorem reverse_verdict_sound [DecidableEq α] (eq : Pt α → Pt α → Bool) (p r : List (Cmd α))
    (h : reverseVerdict eq p r = .ok) :
    ∃ sp sr, toSubs p = some sp ∧ toSubs r = some sr ∧ (∀ s ∈ sp, s.RevOK eq) ∧
      sr.length = sp.length ∧ sr.map (·.closed) = (sp.map (·.closed)).reverse ∧
      geom eq sr = ((geom eq sp).reverse).map Seg.rev :=
  reverseVerdict_sound eq p r h

/-- and it never rejects the model: on every structured path whose subpaths pass the decidable form of
`RevOK` the model's output gets `ok` (with the bit-exact REV correspondence: a FAIL on the real code is a
divergence of the real code, not of the specification) -/
theorem reverse_verdict_complete [DecidableEq α] (eq : Pt α → Pt α → Bool) (z : Pt α)
    (subs : List (SubPath α)) (hok : subs.all (SubPath.revOKb eq) = true) :
    reverseVerdict eq (flatF subs) (reverseF eq z (flatR subs)) = .ok :=
  reverseVerdict_model_ok eq z subs hok

/-- `toSubs` reads back exactly the structured paths (so the array-level theorems cover all of them) -/
theorem toSubs_iff [DecidableEq α] (cs : List (Cmd α)) (subs : List (SubPath α)) :
    toSubs cs = some subs ↔ (flatF subs = cs ∧ ∀ s ∈ subs, s.drawOnly = true) := by
  constructor
  · exact toSubs_flat cs subs
  · rintro ⟨rfl, hd⟩; exact toSubs_complete subs hd

/-! ## Split -/

/-- the pieces of `Split` concatenate to the records of the path, up to a trailing piece of at most
four values (a lone final MoveTo) that `Split` drops -/
theorem split_concat (cs : List (Cmd α)) :
    (split cs).flatten ++ splitRest cs = cs ∧ dataLen (splitRest cs) ≤ 4 :=
  ⟨by simpa [split, splitRest] using splitGo_concat [] cs, splitRestGo_small [] cs⟩

/-- the same on the data arrays -/
theorem split_data_concat (C : Codes α) (cs : List (Cmd α)) :
    ((split cs).map (encodeF C)).flatten ++ encodeF C (splitRest cs) = encodeF C cs := by
  rw [← encodeF_flatten, ← encodeF_append, (split_concat cs).1]

/-- per-subpath behaviour: `Split` of a structured path returns exactly its subpaths -/
theorem split_subpaths (subs : List (SubPath α)) (hd : ∀ s ∈ subs, s.drawOnly = true)
    (hl : lastNontrivial subs) : split (flatF subs) = subs.map SubPath.flat :=
  split_flat subs hd hl

/-! ## SplitAt -/

/-! The structural model `Canvas.C09.splitAt` (CanvasModel/C09/SplitAt.lean) is the whole walk of
`Path.SplitAt` - sorted copy of the positions, subpaths of `Split()`, selection of the cuts per
segment, cutting loops, builder calls, push - with the arc-length inversion abstract (`SegOracle`); it
is compared with the real code on single- and multi-subpath paths on every check. -/

/-- which positions cut a segment: exactly the leading ones in `(T, T+dT]`; the others are kept, in
order, for the following segments -/
theorem splitAt_selects (O : SplitOps α) (T dT : α) (rem : List α) :
    (selectCuts O T dT rem).1 ++ (selectCuts O T dT rem).2 = rem ∧
      ∀ t ∈ (selectCuts O T dT rem).1, O.lt T t = true ∧ O.le t (O.add T dT) = true :=
  selectCuts_spec O T dT rem

/-- Bézier segments: every selected position closes exactly one piece, `T` advances by the segment
length, the selected positions are consumed (whatever the builder and the inversion answer) -/
theorem splitAt_quad_bookkeeping (G : Geo α) (O : SplitOps α) (start cp e : Pt α) (o : SegOracle α)
    (s s' : SState α) (hrem : s.rem ≠ []) (h : quadCase G O start cp e o s = some s') :
    s'.qs.length = s.qs.length + (selectCuts O s.T o.dT s.rem).1.length ∧
    s'.T = O.add s.T o.dT ∧ s'.rem = (selectCuts O s.T o.dT s.rem).2 :=
  quadCase_bookkeeping G O start cp e o s s' hrem h

theorem splitAt_cube_bookkeeping (G : Geo α) (O : SplitOps α) (start c1 c2 e : Pt α) (o : SegOracle α)
    (s s' : SState α) (hrem : s.rem ≠ []) (h : cubeCase G O start c1 c2 e o s = some s') :
    s'.qs.length = s.qs.length + (selectCuts O s.T o.dT s.rem).1.length ∧
    s'.T = O.add s.T o.dT ∧ s'.rem = (selectCuts O s.T o.dT s.rem).2 :=
  cubeCase_bookkeeping G O start c1 c2 e o s s' hrem h

/-- per-subpath behaviour of the repaired walk: the records handed to the walk are those of the
subpath itself (`split_subpaths`), and each MoveTo record (re)starts the current piece at its point -/
theorem splitAt_per_subpath (G : Geo α) (O : SplitOps α) (p start : Pt α) (cs : List (Cmd α))
    (os : List (SegOracle α)) (s : SState α) :
    walkSub G O (.move p :: cs) start os s = walkSub G O cs p os { s with q := moveTo p s.q } :=
  walkSub_move G O p start cs os s

/-- without positions `SplitAt` returns the path -/
theorem splitAt_no_positions (G : Geo α) (O : SplitOps α) (cs : List (Cmd α)) (os : List (SegOracle α)) :
    splitAt G O cs [] os = some [cs] :=
  splitAt_nil G O cs os

/-- Refinement of the structural model to the specification "the pieces are the restrictions of the
path to consecutive arc-length intervals" (`ivWalk`, CanvasModel/C09/Intervals.lean), over an ordered
field with exact operations, for sorted positions beyond 0 and non-negative segment lengths `dT`,
whatever the builder `G` and the inversion (`SegOracle.inv`) answer and for any number of subpaths
(`pss` = the pieces of `Split`, each beginning with a MoveTo).  If the structural walk does not panic:
* the interval walk over the same records succeeds, with the same remaining positions and the same
  number of finished pieces;
* the lengths of all pieces sum to the length of the path (`walkLen` = Σ dT);
* the k-th finished piece ends at arc length t_k (`boundaries` = the consumed positions);
* the consumed positions are exactly those ≤ the length of the path, in order: the remaining ones
  lie beyond it (out-of-range positions are ignored, duplicates give pieces of length 0). -/
theorem splitAt_refines_spec {K : Type} [Field K] [LinearOrder K] [IsStrictOrderedRing K]
    (G : Geo K) (O : SplitOps K) (hO : ExactOps O) (pss : List (List (Cmd K))) (hm : AllStartWithMove pss)
    (os : List (SegOracle K)) (hd : ∀ o ∈ os, 0 ≤ o.dT) (ts : List K) (hs : ts.Pairwise (· ≤ ·))
    (hpos : ∀ t ∈ ts, 0 < t) (q0 : RPath K) (s' : SState K)
    (h : walkSubs G O pss os ⟨q0, [], ts, O.zero⟩ = some s') :
    ∃ t' : IState K, ivWalk O pss.flatten os 0 (ivInit 0 ts) = some t' ∧
      s'.rem = t'.rem ∧ s'.qs.length = t'.done.length ∧
      totalLen t'.done + pieceLen t'.cur = walkLen pss.flatten os ∧
      boundaries t'.done = t'.consumed ∧
      t'.consumed.reverse ++ t'.rem = ts ∧
      (∀ t ∈ t'.consumed, t ≤ walkLen pss.flatten os) ∧ (∀ t ∈ t'.rem, walkLen pss.flatten os < t) := by
  rw [walkSubs_flatten G O pss hm] at h
  cases hw : walkSub G O pss.flatten G.origin os ⟨q0, [], ts, O.zero⟩ with
  | none => rw [hw] at h; exact absurd h (by simp)
  | some res =>
    obtain ⟨s1, os1⟩ := res
    rw [hw] at h
    simp only [Option.map_some, Option.some.injEq] at h
    subst h
    have ha : Agree (⟨q0, [], ts, O.zero⟩ : SState K) (ivInit 0 ts) := ⟨hO.zero, rfl, rfl⟩
    obtain ⟨t', ht, hag⟩ := walkSub_refines G O pss.flatten G.origin os os1 _ s1 (ivInit 0 ts) 0 ha hw
    have htot := ivWalk_total hO pss.flatten os 0 (ivInit 0 ts) t' ht
    have hinv := ivWalk_inv hO 0 pss.flatten os 0 (ivInit 0 ts) t' (ivInit_inv 0 ts) ht
    have hrng := ivWalk_range hO 0 ts pss.flatten os 0 (ivInit 0 ts) t' hd (ivInit_inv 0 ts)
      (ivInit_range 0 ts hs hpos) ht
    have htot' : totalLen t'.done + pieceLen t'.cur = walkLen pss.flatten os := by
      simpa [ivInit] using htot
    refine ⟨t', ht, hag.2.1, hag.2.2, htot', ?_, hrng.part, ?_, ?_⟩
    · rw [hinv.bounds]; simp
    · intro t htc
      have := hrng.behind t htc
      rw [htot'] at this
      linarith
    · intro t htr
      have hne : t'.rem ≠ [] := List.ne_nil_of_mem htr
      have h1 := hinv.walked hne
      have h2 := hrng.ahead t htr
      rw [htot'] at h1
      linarith

/-- the cut parameters the Bezier cases hand to the cutting loop (`monoClamp`, deac3eb) are non-decreasing
from 0, whatever the inverse arc length returns: with `splitAt_pieces_concat_quad/_cube` every piece is
the restriction of the segment to an interval `[t_k, t_(k+1)]` with `t_k ≤ t_(k+1)` - no piece runs
backwards -/
theorem splitAt_bezier_cuts_monotone {K : Type} [Field K] [LinearOrder K] [IsStrictOrderedRing K]
    (inv : List K) :
    (monoClamp (fun a b => decide (a < b)) 0 inv).Pairwise (· ≤ ·) ∧
      ∀ t ∈ monoClamp (fun a b => decide (a < b)) 0 inv, 0 ≤ t :=
  monoClamp_mono 0 inv

/-- The polish loop of `invSpeedApprox` (56b2370; `Canvas.C09.polish`, run bit-exactly against the real
SplitAt inside the SPLITAT correspondence), over an ordered field with exact operations, for ANY length
function `fLength`, speed `fp`, step sign `h`, requested length `L` and tolerance: starting from an
estimate between `tmin` and `tmax`, on exit
* either the residual `|fLength(t) - L|` is within the tolerance (0.001·total in the code), or all 10
  iterations were spent;
* `t` lies between `lo` and `hi`, and `lo`, `hi` lie between `tmin` and `tmax` (bracket invariant, by
  induction over the iterations; `Between` is order-free, so it covers arcs whose angle decreases). -/
theorem polish_exit_and_bracket {K : Type} [Field K] [LinearOrder K] [IsStrictOrderedRing K]
    (P : PolishOps K) (hP : ExactPolish P) (fL fp : K → K) (h L tol tmin tmax est : K)
    (hest : Between tmin tmax est) :
    let r := polishLoop P fL fp h L tol 10 ⟨est, tmin, tmax⟩
    (r.converged = true → |fL r.st.t - L| ≤ tol) ∧ (r.converged = false → r.iters = 10) ∧
      Between r.st.lo r.st.hi r.st.t ∧ Between tmin tmax r.st.lo ∧ Between tmin tmax r.st.hi ∧
      Between tmin tmax (polish P fL fp h L tol tmin tmax est) := by
  have hb : Bracket tmin tmax (⟨est, tmin, tmax⟩ : PState K) :=
    ⟨hest, between_left tmin tmax, between_right tmin tmax⟩
  obtain ⟨h1, h2, h3, _⟩ := polishLoop_spec hP fL fp h L tol tmin tmax 10 _ hb
  exact ⟨h2, h3, h1.t, h1.lo, h1.hi, between_trans tmin tmax _ _ _ h1.lo h1.hi h1.t⟩

/-- a position at the head of the (sorted) list that is not beyond the current position - a negative
position, or a second 0 - is never selected and, the positions being handled in order, suppresses
every later cut: such requests are outside the domain of the property (positions in [0, Length]) -/
theorem splitAt_nonpositive_position_blocks {K : Type} [Field K] [LinearOrder K] [IsStrictOrderedRing K]
    (O : SplitOps K) (hO : ExactOps O) (T d t : K) (ts : List K) (h : t ≤ T) :
    selectCuts O T d (t :: ts) = ([], t :: ts) :=
  selectCuts_blocked hO T d t ts h

/-- Quadratic case of `SplitAt` (the control polygons `quadCase` hands to the builder are `cutsGen`)
for ANY cut parameters `ts` (whatever the inverse arc length
returns, as long as every parameter before the last one is below 1: `okCuts`): the emitted pieces are the curve on the
consecutive parameter intervals `[0,t₁], [t₁,t₂], …` and the remainder is the curve on `[tₙ,1]` —
the pieces concatenate geometrically to the original, each starting where the previous one ends. -/
theorem splitAt_pieces_concat_quad {K : Type} [Field K] [LinearOrder K] [IsStrictOrderedRing K] [Env K]
    (p : Quad K) (ts : List K) (h : okCuts 0 ts) :
    piecesOK Quad.pos p.pos 0 ts (quadCuts p 0 ts).1 ∧
      ∀ s, (quadCuts p 0 ts).2.pos s = p.pos (lastCut 0 ts + (1 - lastCut 0 ts) * s) :=
  quadCuts_ok p.pos ts 0 p h (fun s => by simp)

/-- once a cut parameter has reached 1 (two positions on the end of a Bezier; `t0 < 1.0` fails, 5884f31)
the loop splits at `tsub = 1`: the emitted piece is the whole remainder and the new remainder is its end
point - nothing is divided by `1 - t0 = 0` -/
theorem splitAt_cut_after_end {K : Type} [Field K] [LinearOrder K] [IsStrictOrderedRing K] [Env K]
    (r : Quad K) (t0 t : K) (ts : List K) (h : ¬ t0 < 1) :
    quadCuts r t0 (t :: ts) =
      (C03L.quadL r.1 r.2.1 r.2.2 1 :: (quadCuts (C03L.quadR r.1 r.2.1 r.2.2 1) t ts).1,
        (quadCuts (C03L.quadR r.1 r.2.1 r.2.2 1) t ts).2) ∧
    ∀ s, Quad.pos (C03L.quadL r.1 r.2.1 r.2.2 1) s = r.pos s ∧ Quad.pos (C03L.quadR r.1 r.2.1 r.2.2 1) s = r.pos 1 :=
  ⟨quadCuts_cons_end r t0 t ts h, quad_split_at_one r⟩

/-- the same for the cubic case -/
theorem splitAt_pieces_concat_cube {K : Type} [Field K] [LinearOrder K] [IsStrictOrderedRing K] [Env K]
    (p : Cubic K) (ts : List K) (h : okCuts 0 ts) :
    piecesOK Cubic.pos p.pos 0 ts (cubeCuts p 0 ts).1 ∧
      ∀ s, (cubeCuts p 0 ts).2.pos s = p.pos (lastCut 0 ts + (1 - lastCut 0 ts) * s) :=
  cubeCuts_ok p.pos ts 0 p h (fun s => by simp)

/-- and for straight segments (LineTo and the closing segment) -/
theorem splitAt_pieces_concat_line {K : Type} [Field K] [LinearOrder K] [IsStrictOrderedRing K] [Env K]
    (a b : Pt K) (ts : List K) :
    piecesOK linePos (GenK.Point.Interpolate a b) 0 ts (lineCuts a b a ts).1 ∧
      ∀ s, linePos (lineCuts a b a ts).2 s
        = GenK.Point.Interpolate a b (lastCut 0 ts + (1 - lastCut 0 ts) * s) := by
  have := lineCuts_ok a b ts 0
  rwa [interpolate_zero] at this

/-- `ellipseSplit` (flag logic): for an angle between the end angles of an arc of at most one full
turn, `large0`/`large1` are set exactly when the respective part spans more than π, and never both -/
theorem ellipseSplit_flags {K : Type} [Field K] [LinearOrder K] [IsStrictOrderedRing K]
    (pi th0 th1 th : K) (hb : (th0 ≤ th ∧ th ≤ th1) ∨ (th1 ≤ th ∧ th ≤ th0)) (hext : |th1 - th0| ≤ 2 * pi) :
    ((splitFlags (fun x => decide (pi < x)) |th - th0| |th - th1|).1 = true ↔ pi < |th - th0|) ∧
    ((splitFlags (fun x => decide (pi < x)) |th - th0| |th - th1|).2 = true ↔ pi < |th - th1|) ∧
    ¬ ((splitFlags (fun x => decide (pi < x)) |th - th0| |th - th1|).1 = true ∧
       (splitFlags (fun x => decide (pi < x)) |th - th0| |th - th1|).2 = true) :=
  splitFlags_spec pi th0 th1 th hb hext

/-- never two large halves, whatever the arguments -/
theorem ellipseSplit_flags_never_both (gtPi : α → Bool) (d0 d1 : α) :
    ¬ ((splitFlags gtPi d0 d1).1 = true ∧ (splitFlags gtPi d0 d1).2 = true) := by
  unfold splitFlags
  split
  · simp
  · split <;> simp

/-! ## Length

`Canvas.C09.lengthFrom / pathLength` is the accumulation loop of `Path.Length`; its `Float` instance
with the transcribed segment lengths (math.Hypot, quadratic closed form, cubic 7-point and elliptic
5-point Gauss–Legendre sums from the extracted tables) is compared with the real `Length()` on every
check (`LENGTH`, `HYPOT` lines). -/

/-- Length is additive over concatenation of record arrays when the second one begins with a MoveTo
(any segment-length function, exact addition) -/
theorem length_additive_concat {K : Type} [AddCommMonoid K] (f : Pt K → Cmd K → K) (z p : Pt K)
    (xs ys : List (Cmd K)) :
    pathLength 0 (· + ·) f z (xs ++ .move p :: ys) =
      pathLength 0 (· + ·) f z xs + pathLength 0 (· + ·) f z (.move p :: ys) :=
  pathLength_append f z p xs ys

/-- Length additivity over `Append` (the C10 path model of `p.Append(q)`, including its handling of
empty operands and of a trailing MoveTo of the receiver) -/
theorem length_append {K : Type} [AddCommMonoid K] (f : Pt K → Cmd K → K) (z : Pt K) (p q : RPath K)
    (hp : StartsWithMove p.reverse) (hq : StartsWithMove q.reverse) :
    pathLength 0 (· + ·) f z (Path.append p q).reverse =
      pathLength 0 (· + ·) f z p.reverse + pathLength 0 (· + ·) f z q.reverse :=
  pathLength_appendPath f z p q hp hq

/-- full statement for `Join`: additivity for every pair of well-formed operands.  It needs the exact
Euclidean segment length (at a junction `Join` re-issues the first command of `q` through the builder,
which may merge two collinear LineTos into one) and is not proved. -/
def length_join_statement : Prop :=
  ∀ (K : Type) [AddCommMonoid K] (G : Geo K) (f : Pt K → Cmd K → K) (z : Pt K) (p q : RPath K),
    StartsWithMove p.reverse → StartsWithMove q.reverse →
    pathLength 0 (· + ·) f z (Path.join G p q).reverse =
      pathLength 0 (· + ·) f z p.reverse + pathLength 0 (· + ·) f z q.reverse

/-- proved part: `Join` without a junction (receiver closed, or end point ≠ start of `q`) and with
empty operands -/
theorem length_join_partial {K : Type} [AddCommMonoid K] (G : Geo K) (f : Pt K → Cmd K → K) (z : Pt K)
    (p q : RPath K) (hp : StartsWithMove p.reverse) (hq : StartsWithMove q.reverse)
    (hnoj : ∀ m c1 restf, q.reverse = m :: c1 :: restf →
      (headIsClose p || !G.ptEq (pos G p) m.arg12) = true) :
    pathLength 0 (· + ·) f z (Path.join G p q).reverse =
      pathLength 0 (· + ·) f z p.reverse + pathLength 0 (· + ·) f z q.reverse :=
  pathLength_join_partial G f z p q hp hq hnoj

/-! ## Gauss–Legendre tables (literals extracted from util.go on every check) -/

/-- n = 3, 5, 7: |Σw − 2| < 2·10⁻⁶, nodes and weights symmetric, and Σ wᵢxᵢᵏ within 10⁻⁵ of ∫₋₁¹xᵏ
for every k ≤ 2n−1 -/
theorem gl_tables :
    glAccurate 3 GenC09.gl3 = true ∧ glAccurate 5 GenC09.gl5 = true ∧ glAccurate 7 GenC09.gl7 = true := by
  decide +kernel

/-- every literal is the correctly rounded digit string of the Gauss–Legendre rule: within half a
unit of its last printed digit (9 digits for n = 3, 6 for n = 5, 7; 5.1·10⁻⁷ covers the 5-digit node
0.90618) of the 16-digit reference rule, which itself integrates all monomials of degree ≤ 2n−1 to
10⁻¹⁴.  A changed digit in util.go breaks this theorem. -/
theorem gl_tables_pinned :
    closeTo GenC09.gl3 ref3 (51 / 100000000000) (1 / 100000000000000) = true ∧
    closeTo GenC09.gl5 ref5 (51 / 100000000) (51 / 100000000) = true ∧
    closeTo GenC09.gl7 ref7 (51 / 100000000) (51 / 100000000) = true ∧
    (momentsWithin 3 ref3 (1 / 100000000000000) && glSymmetric ref3 &&
     momentsWithin 5 ref5 (1 / 100000000000000) && glSymmetric ref5 &&
     momentsWithin 7 ref7 (1 / 100000000000000) && glSymmetric ref7) = true := by
  refine ⟨by decide +kernel, by decide +kernel, by decide +kernel, ref_exact⟩

/-! ## Non-vacuity -/

/-- a closed triangle and an open polyline satisfy the hypotheses of the Reverse theorems -/
example : ∀ s ∈ ([⟨⟨0, 0⟩, [.line ⟨4, 0⟩, .line ⟨0, 3⟩], true⟩, ⟨⟨5, 5⟩, [.line ⟨6, 6⟩], false⟩] : List (SubPath Int)),
    s.RevOK eqExact ∧ SubPath.flatLines s = true := by
  intro s hs
  simp only [List.mem_cons, List.mem_nil_iff, or_false] at hs
  rcases hs with rfl | rfl
  · refine ⟨⟨by decide, fun _ => ⟨by decide, ?_, by decide, by decide⟩⟩, by decide⟩
    intro c rest h hl
    simp only [List.cons.injEq] at h
    obtain ⟨rfl, _⟩ := h
    decide
  · exact ⟨⟨by decide, fun h => absurd h (by decide)⟩, by decide⟩

/-- `toSubs` reads the array of `M0 0 L4 0 Q4 3 0 3 Z0 0 M5 5 L6 6` -/
example : toSubs ([.move ⟨0, 0⟩, .line ⟨4, 0⟩, .quad ⟨4, 3⟩ ⟨0, 3⟩, .close ⟨0, 0⟩, .move ⟨5, 5⟩, .line ⟨6, 6⟩] : List (Cmd Int))
    = some [⟨⟨0, 0⟩, [.line ⟨4, 0⟩, .quad ⟨4, 3⟩ ⟨0, 3⟩], true⟩, ⟨⟨5, 5⟩, [.line ⟨6, 6⟩], false⟩] := by
  decide

/-- exact scalar operations over the rationals (the geometric fields are irrelevant for `ExactOps`) -/
def ratOps : SplitOps Rat where
  zero := 0
  one := 1
  add a b := a + b
  sub a b := a - b
  div a b := a / b
  lt a b := decide (a < b)
  le a b := decide (a ≤ b)
  eq a b := decide (a = b)
  interp p _ _ := p
  quadL q _ := q
  quadR q _ := q
  cubeL q _ := q
  cubeR q _ := q
  ellipsePos _ _ _ cx cy _ := ⟨cx, cy⟩
  angleBetween _ _ _ := true
  absSub a b := if a < b then b - a else a - b
  gtPi _ := false

example : ExactOps ratOps := ⟨rfl, fun _ _ => rfl, fun _ _ => rfl, fun _ _ => rfl, fun _ _ => rfl⟩

/-- the interval walk on `M L L M L` with segment lengths 2, 3, 4 and positions 1, 2, 2, 6, 20: cuts at
1 and 2 (twice: an empty piece) in the first record - the second one at its very end -, at 6 in the
third record (second subpath); 20 lies beyond the length 9 and remains -/
example :
    (ivWalk ratOps [.move ⟨0, 0⟩, .line ⟨2, 0⟩, .line ⟨2, 3⟩, .move ⟨9, 9⟩, .line ⟨13, 9⟩]
      [⟨2, [], fun _ e => e, 0, 0, 0, 0⟩, ⟨3, [], fun _ e => e, 0, 0, 0, 0⟩, ⟨4, [], fun _ e => e, 0, 0, 0, 0⟩] 0 (ivInit 0 [1, 2, 2, 6, 20])).map
      (fun s => (s.pieces, s.rem)) =
    some ([[⟨0, 0, 1⟩], [⟨0, 1, 2⟩], [⟨0, 2, 2⟩], [⟨0, 2, 2⟩, ⟨1, 0, 3⟩, ⟨2, 0, 1⟩], [⟨2, 1, 4⟩]], [20]) := by
  decide +kernel

/-- the specification verdict accepts `M0 0 L4 0 L0 3 Z` reversed to `M0 0 L0 3 L4 0 Z` and rejects a
result whose second subpath lost its Close -/
example : reverseVerdict eqExact
    [.move ⟨0, 0⟩, .line ⟨4, 0⟩, .line ⟨0, 3⟩, .close ⟨0, 0⟩]
    [.move ⟨0, 0⟩, .line ⟨0, 3⟩, .line ⟨4, 0⟩, .close ⟨0, 0⟩] = .ok := by decide

example : reverseVerdict eqExact
    [.move ⟨0, 0⟩, .line ⟨4, 0⟩, .line ⟨0, 3⟩, .close ⟨0, 0⟩]
    [.move ⟨0, 0⟩, .line ⟨0, 3⟩, .line ⟨4, 0⟩, .line ⟨0, 0⟩] = .fail "closedness" := by decide

example : ([⟨⟨0, 0⟩, [.line ⟨4, 0⟩, .line ⟨0, 3⟩], true⟩] : List (SubPath Int)).all (SubPath.revOKb eqExact) = true := by
  decide

example : StartsWithMove ([.line ⟨1, (2 : Int)⟩, .move ⟨0, 0⟩] : RPath Int).reverse :=
  Or.inr ⟨⟨0, 0⟩, [.line ⟨1, 2⟩], rfl⟩

/-- Length of `M0 0 L3 0 M1 1 L1 5` with the taxicab segment length: 3 + 4 -/
example : pathLength 0 (· + ·) (fun (a : Pt Int) c => (c.endp.x - a.x).natAbs + (c.endp.y - a.y).natAbs)
    ⟨0, 0⟩ [.move ⟨0, 0⟩, .line ⟨3, 0⟩, .move ⟨1, 1⟩, .line ⟨1, 5⟩] = 7 := by decide

/-- exact polish operations over the rationals -/
def ratPolish : PolishOps Rat where
  zero := 0
  add a b := a + b
  sub a b := a - b
  mul a b := a * b
  div a b := a / b
  abs a := |a|
  le a b := decide (a ≤ b)
  lt a b := decide (a < b)
  half a := a / 2
  copysign x s := if s < 0 then -|x| else |x|

example : ExactPolish ratPolish :=
  ⟨rfl, fun _ _ => rfl, fun _ _ => rfl, fun _ _ => rfl, fun _ => rfl, fun _ _ => rfl, fun _ _ => rfl, fun _ => rfl⟩

/-- Newton on fLength(t) = t² (speed 2t) for L = 1/4 from the estimate 1 in [0,1] with tolerance 1/1000:
converges in 3 steps to 3281/6560 ≈ 0.50015 -/
example : (polishLoop ratPolish (fun t => t * t) (fun t => 2 * t) 1 (1/4) (1/1000) 10 ⟨1, 0, 1⟩).converged = true ∧
    (polishLoop ratPolish (fun t => t * t) (fun t => 2 * t) 1 (1/4) (1/1000) 10 ⟨1, 0, 1⟩).iters = 3 := by
  decide +kernel

example : okCuts (0 : Rat) [1/4, 1/2, 1] :=
  ⟨by decide +kernel, by decide +kernel, by decide +kernel, trivial⟩

end C09
