import CanvasProofs.Lemmas.C09Invol
import CanvasProofs.Lemmas.C09Geom
import CanvasProofs.Lemmas.C09Wn
import CanvasProofs.Lemmas.C09Split
import CanvasProofs.Lemmas.C09Cuts
import CanvasProofs.Lemmas.C09GL
import CanvasProofs.Lemmas.C09Parse
import CanvasProofs.Lemmas.C09SplitAt
/-!
# C09 — Length, SplitAt and Reverse are consistent views of one curve

Property theorems.  `Canvas.C09.reverseF/reverse` model `Path.Reverse`, `Canvas.C09.split` models
`Path.Split` (both compared bit-exactly with the real code on every check); a *structured path* is a
list of subpaths `M start (L|Q|C|A)* [Z start]` (`SubPath`), `flatR` its path model, `flatF` its
records in array order.  `eq` is `Point.Equals` (any relation: the theorems do not look inside),
`z` the zero point.  The cutting loops and the split functions are over any ordered field; the
split functions are regenerated from path_util.go on every check.
-/
namespace C09
open Canvas Canvas.Path Canvas.C09 C09L

variable {α : Type}

/-! ## Reverse -/

/-- `Reverse` returns the subpaths in reverse order, each one reversed (`revSub`: reversed list of
commands, Bézier control points swapped, arc sweep flipped, closing segment made explicit and a first
LineTo turned into the Close).  For all structured paths, any `eq`. -/
theorem reverse_structure (eq : Pt α → Pt α → Bool) (z : Pt α) (subs : List (SubPath α))
    (hd : ∀ s ∈ subs, s.drawOnly = true) :
    reverse eq z (flatR subs) = flatR ((subs.map (revSub eq)).reverse) :=
  reverse_flat eq z subs hd

/-- `Reverse` is an involution, with exact coordinates, on every structured path whose closed subpaths
carry no zero-length LineTo next to the start point (`RevOK`; the builder guarantees it). -/
theorem reverse_involutive (eq : Pt α → Pt α → Bool) (z : Pt α) (subs : List (SubPath α))
    (h : ∀ s ∈ subs, s.RevOK eq) :
    reverse eq z (reverse eq z (flatR subs)) = flatR subs :=
  reverse_reverse_flat eq z subs h

/-- the same two theorems stated on record arrays: every array `cs` (array order) that reads as a
structured path (`toSubs`: subpaths `M (L|Q|C|A)* [Z with the M's coordinates]`) is reversed
subpath-wise, and reversing twice returns the array -/
theorem reverse_array [DecidableEq α] (eq : Pt α → Pt α → Bool) (z : Pt α) (cs : List (Cmd α))
    (subs : List (SubPath α)) (h : toSubs cs = some subs) :
    reverseF eq z cs.reverse = flatF ((subs.map (revSub eq)).reverse) := by
  obtain ⟨hf, hd⟩ := toSubs_flat cs subs h
  rw [← hf]
  exact reverseF_flat eq z subs hd

theorem reverse_involutive_array [DecidableEq α] (eq : Pt α → Pt α → Bool) (z : Pt α) (cs : List (Cmd α))
    (subs : List (SubPath α)) (h : toSubs cs = some subs) (hok : ∀ s ∈ subs, s.RevOK eq) :
    reverse eq z (reverse eq z cs.reverse) = cs.reverse := by
  obtain ⟨hf, _⟩ := toSubs_flat cs subs h
  rw [← hf]
  exact reverse_reverse_flat eq z subs hok

/-- the hypothesis of `reverse_involutive` cannot be dropped: with a LineTo back to the start point
before the Close (`M0 L1 L0 Z0`, which the builder never produces) reversing twice loses a record -/
theorem reverse_involutive_needs_hypothesis :
    let eq : Pt Int → Pt Int → Bool := fun a b => decide (a = b)
    let p : RPath Int := flatR [⟨⟨0, 0⟩, [.line ⟨1, 0⟩, .line ⟨0, 0⟩], true⟩]
    reverse eq ⟨0, 0⟩ (reverse eq ⟨0, 0⟩ p) ≠ p := by
  decide

/-- closedness is preserved: the flags of the subpaths of the reversed path are those of the path,
in reverse order -/
theorem reverse_closed (eq : Pt α → Pt α → Bool) (z : Pt α) (subs : List (SubPath α))
    (hd : ∀ s ∈ subs, s.drawOnly = true) :
    closedFlags (reverseF eq z (flatR subs)) = (closedFlags (flatF subs)).reverse := by
  rw [reverseF_flat eq z subs hd, closedFlags_flat _ (by
      intro t ht
      simp only [List.mem_reverse, List.mem_map] at ht
      obtain ⟨s, hs, rfl⟩ := ht
      exact revSub_drawOnly eq s (hd s hs)),
    closedFlags_flat subs hd, List.map_reverse, List.map_map]
  congr 1
  exact List.map_congr_left (fun s _ => revSub_closed_eq eq s)

/-- same point set, opposite direction: the geometric segments of the reversed path are the segments
of the path in reverse order, each one reversed (end points exchanged, Bézier control points
swapped, arc sweep flag flipped; a closing segment is a line) -/
theorem reverse_points (eq : Pt α → Pt α → Bool) (subs : List (SubPath α)) (h : ∀ s ∈ subs, s.RevOK eq) :
    geom eq ((subs.map (revSub eq)).reverse) = ((geom eq subs).reverse).map Seg.rev :=
  geom_reverse eq subs h

/-- `Reverse` negates the winding number of a flat path around EVERY point (exact integer
coordinates, exact `Equals`), by the laws of the L3 specification (`Canvas.Wn.wn1_reverse`,
`wn1_rotate`, `wn_append`) -/
theorem reverse_negates_wn (q : Wn.IPt) (subs : List (SubPath Int))
    (hl : ∀ s ∈ subs, SubPath.flatLines s = true) (h : ∀ s ∈ subs, s.RevOK eqExact) :
    Wn.wn q (((subs.map (revSub eqExact)).reverse).map contour) = - Wn.wn q (subs.map contour) :=
  wn_reverse_flat q subs hl h

/-! ## Split -/

/-- the pieces of `Split` concatenate to the records of the path, up to a trailing piece of at most
four values (a lone final MoveTo) that `Split` drops -/
theorem split_concat (cs : List (Cmd α)) :
    (split cs).flatten ++ splitRest cs = cs ∧ dataLen (splitRest cs) ≤ 4 :=
  ⟨by simpa [split, splitRest] using splitGo_concat [] cs, splitRestGo_small [] cs⟩

/-- the same on the data arrays -/
theorem split_data_concat (C : Codes α) (cs : List (Cmd α)) :
    ((split cs).map (encodeF C)).flatten ++ encodeF C (splitRest cs) = encodeF C cs := by
  rw [← encodeF_flatten, ← encodeF_append, (split_concat cs).1]

/-- per-subpath behaviour: `Split` of a structured path returns exactly its subpaths -/
theorem split_subpaths (subs : List (SubPath α)) (hd : ∀ s ∈ subs, s.drawOnly = true)
    (hl : lastNontrivial subs) : split (flatF subs) = subs.map SubPath.flat :=
  split_flat subs hd hl

/-! ## SplitAt -/

/-! The structural model `Canvas.C09.splitAt` (CanvasModel/C09/SplitAt.lean) is the whole walk of
`Path.SplitAt` - sorted copy of the positions, subpaths of `Split()`, selection of the cuts per
segment, cutting loops, builder calls, push - with the arc-length inversion abstract (`SegOracle`); it
is compared with the real code on single- and multi-subpath paths on every check. -/

/-- which positions cut a segment: exactly the leading ones in `(T, T+dT]`; the others are kept, in
order, for the following segments -/
theorem splitAt_selects (O : SplitOps α) (T dT : α) (rem : List α) :
    (selectCuts O T dT rem).1 ++ (selectCuts O T dT rem).2 = rem ∧
      ∀ t ∈ (selectCuts O T dT rem).1, O.lt T t = true ∧ O.le t (O.add T dT) = true :=
  selectCuts_spec O T dT rem

/-- Bézier segments: every selected position closes exactly one piece, `T` advances by the segment
length, the selected positions are consumed (whatever the builder and the inversion answer) -/
theorem splitAt_quad_bookkeeping (G : Geo α) (O : SplitOps α) (start cp e : Pt α) (o : SegOracle α)
    (s s' : SState α) (hrem : s.rem ≠ []) (h : quadCase G O start cp e o s = some s') :
    s'.qs.length = s.qs.length + (selectCuts O s.T o.dT s.rem).1.length ∧
    s'.T = O.add s.T o.dT ∧ s'.rem = (selectCuts O s.T o.dT s.rem).2 :=
  quadCase_bookkeeping G O start cp e o s s' hrem h

theorem splitAt_cube_bookkeeping (G : Geo α) (O : SplitOps α) (start c1 c2 e : Pt α) (o : SegOracle α)
    (s s' : SState α) (hrem : s.rem ≠ []) (h : cubeCase G O start c1 c2 e o s = some s') :
    s'.qs.length = s.qs.length + (selectCuts O s.T o.dT s.rem).1.length ∧
    s'.T = O.add s.T o.dT ∧ s'.rem = (selectCuts O s.T o.dT s.rem).2 :=
  cubeCase_bookkeeping G O start c1 c2 e o s s' hrem h

/-- per-subpath behaviour of the repaired walk: the records handed to the walk are those of the
subpath itself (`split_subpaths`), and each MoveTo record (re)starts the current piece at its point -/
theorem splitAt_per_subpath (G : Geo α) (O : SplitOps α) (p start : Pt α) (cs : List (Cmd α))
    (os : List (SegOracle α)) (s : SState α) :
    walkSub G O (.move p :: cs) start os s = walkSub G O cs p os { s with q := moveTo p s.q } :=
  walkSub_move G O p start cs os s

/-- without positions `SplitAt` returns the path -/
theorem splitAt_no_positions (G : Geo α) (O : SplitOps α) (cs : List (Cmd α)) (os : List (SegOracle α)) :
    splitAt G O cs [] os = some [cs] :=
  splitAt_nil G O cs os

/-- Quadratic case of `SplitAt` (the control polygons `quadCase` hands to the builder are `cutsGen`)
for ANY cut parameters `ts` (whatever the inverse arc length
returns, as long as no division by `1 - t0 = 0` occurs): the emitted pieces are the curve on the
consecutive parameter intervals `[0,t₁], [t₁,t₂], …` and the remainder is the curve on `[tₙ,1]` —
the pieces concatenate geometrically to the original, each starting where the previous one ends. -/
theorem splitAt_pieces_concat_quad {K : Type} [Field K] [LinearOrder K] [IsStrictOrderedRing K] [Env K]
    (p : Quad K) (ts : List K) (h : okCuts 0 ts) :
    piecesOK Quad.pos p.pos 0 ts (quadCuts p 0 ts).1 ∧
      ∀ s, (quadCuts p 0 ts).2.pos s = p.pos (lastCut 0 ts + (1 - lastCut 0 ts) * s) :=
  quadCuts_ok p.pos ts 0 p h (fun s => by simp)

/-- the same for the cubic case -/
theorem splitAt_pieces_concat_cube {K : Type} [Field K] [LinearOrder K] [IsStrictOrderedRing K] [Env K]
    (p : Cubic K) (ts : List K) (h : okCuts 0 ts) :
    piecesOK Cubic.pos p.pos 0 ts (cubeCuts p 0 ts).1 ∧
      ∀ s, (cubeCuts p 0 ts).2.pos s = p.pos (lastCut 0 ts + (1 - lastCut 0 ts) * s) :=
  cubeCuts_ok p.pos ts 0 p h (fun s => by simp)

/-- and for straight segments (LineTo and the closing segment) -/
theorem splitAt_pieces_concat_line {K : Type} [Field K] [LinearOrder K] [IsStrictOrderedRing K] [Env K]
    (a b : Pt K) (ts : List K) :
    piecesOK linePos (GenK.Point.Interpolate a b) 0 ts (lineCuts a b a ts).1 ∧
      ∀ s, linePos (lineCuts a b a ts).2 s
        = GenK.Point.Interpolate a b (lastCut 0 ts + (1 - lastCut 0 ts) * s) := by
  have := lineCuts_ok a b ts 0
  rwa [interpolate_zero] at this

/-- `ellipseSplit` (flag logic): for an angle between the end angles of an arc of at most one full
turn, `large0`/`large1` are set exactly when the respective part spans more than π, and never both -/
theorem ellipseSplit_flags {K : Type} [Field K] [LinearOrder K] [IsStrictOrderedRing K]
    (pi th0 th1 th : K) (hb : (th0 ≤ th ∧ th ≤ th1) ∨ (th1 ≤ th ∧ th ≤ th0)) (hext : |th1 - th0| ≤ 2 * pi) :
    ((splitFlags (fun x => decide (pi < x)) |th - th0| |th - th1|).1 = true ↔ pi < |th - th0|) ∧
    ((splitFlags (fun x => decide (pi < x)) |th - th0| |th - th1|).2 = true ↔ pi < |th - th1|) ∧
    ¬ ((splitFlags (fun x => decide (pi < x)) |th - th0| |th - th1|).1 = true ∧
       (splitFlags (fun x => decide (pi < x)) |th - th0| |th - th1|).2 = true) :=
  splitFlags_spec pi th0 th1 th hb hext

/-- never two large halves, whatever the arguments -/
theorem ellipseSplit_flags_never_both (gtPi : α → Bool) (d0 d1 : α) :
    ¬ ((splitFlags gtPi d0 d1).1 = true ∧ (splitFlags gtPi d0 d1).2 = true) := by
  unfold splitFlags
  split
  · simp
  · split <;> simp

/-! ## Gauss–Legendre tables (literals extracted from util.go on every check) -/

/-- n = 3, 5, 7: |Σw − 2| < 2·10⁻⁶, nodes and weights symmetric, and Σ wᵢxᵢᵏ within 10⁻⁵ of ∫₋₁¹xᵏ
for every k ≤ 2n−1 -/
theorem gl_tables :
    glAccurate 3 GenC09.gl3 = true ∧ glAccurate 5 GenC09.gl5 = true ∧ glAccurate 7 GenC09.gl7 = true := by
  decide +kernel

/-- every literal is the correctly rounded digit string of the Gauss–Legendre rule: within half a
unit of its last printed digit (9 digits for n = 3, 6 for n = 5, 7; 5.1·10⁻⁷ covers the 5-digit node
0.90618) of the 16-digit reference rule, which itself integrates all monomials of degree ≤ 2n−1 to
10⁻¹⁴.  A changed digit in util.go breaks this theorem. -/
theorem gl_tables_pinned :
    closeTo GenC09.gl3 ref3 (51 / 100000000000) (1 / 100000000000000) = true ∧
    closeTo GenC09.gl5 ref5 (51 / 100000000) (51 / 100000000) = true ∧
    closeTo GenC09.gl7 ref7 (51 / 100000000) (51 / 100000000) = true ∧
    (momentsWithin 3 ref3 (1 / 100000000000000) && glSymmetric ref3 &&
     momentsWithin 5 ref5 (1 / 100000000000000) && glSymmetric ref5 &&
     momentsWithin 7 ref7 (1 / 100000000000000) && glSymmetric ref7) = true := by
  refine ⟨by decide +kernel, by decide +kernel, by decide +kernel, ref_exact⟩

/-! ## Non-vacuity -/

/-- a closed triangle and an open polyline satisfy the hypotheses of the Reverse theorems -/
example : ∀ s ∈ ([⟨⟨0, 0⟩, [.line ⟨4, 0⟩, .line ⟨0, 3⟩], true⟩, ⟨⟨5, 5⟩, [.line ⟨6, 6⟩], false⟩] : List (SubPath Int)),
    s.RevOK eqExact ∧ SubPath.flatLines s = true := by
  intro s hs
  simp only [List.mem_cons, List.mem_nil_iff, or_false] at hs
  rcases hs with rfl | rfl
  · refine ⟨⟨by decide, fun _ => ⟨by decide, ?_, by decide, by decide⟩⟩, by decide⟩
    intro c rest h hl
    simp only [List.cons.injEq] at h
    obtain ⟨rfl, _⟩ := h
    decide
  · exact ⟨⟨by decide, fun h => absurd h (by decide)⟩, by decide⟩

/-- `toSubs` reads the array of `M0 0 L4 0 Q4 3 0 3 Z0 0 M5 5 L6 6` -/
example : toSubs ([.move ⟨0, 0⟩, .line ⟨4, 0⟩, .quad ⟨4, 3⟩ ⟨0, 3⟩, .close ⟨0, 0⟩, .move ⟨5, 5⟩, .line ⟨6, 6⟩] : List (Cmd Int))
    = some [⟨⟨0, 0⟩, [.line ⟨4, 0⟩, .quad ⟨4, 3⟩ ⟨0, 3⟩], true⟩, ⟨⟨5, 5⟩, [.line ⟨6, 6⟩], false⟩] := by
  decide

example : okCuts (0 : Rat) [1/4, 1/2, 1] := by
  simp [okCuts]

end C09
