import CanvasModel.C13
import CanvasProofs.Lemmas.C13Core
import CanvasProofs.Lemmas.C13Close
import CanvasProofs.Lemmas.C13Num
import CanvasProofs.Lemmas.C13Pages
import CanvasProofs.Lemmas.C13ParseE
import CanvasProofs.Lemmas.C13Res
import CanvasProofs.Lemmas.C13ParseF
import CanvasProofs.Lemmas.C13Refs

/-! # C13 — every PDF produced is structurally valid: theorems about the writer model
`Canvas.C13` (hand-written model of /repo/renderers/pdf/writer.go, tied by correspondence).
All theorems quantify over arbitrary operation histories `ops`, arbitrary values, and an arbitrary
environment `env` (zlib, clock, contents of the font objects). -/
namespace C13
open Canvas.C13 C13L
open Canvas.C13.P (parseVal norm size decShape parseStreamObj normKvs sizeKvs)

/-- `pos` is the number of bytes written, after any history. -/
theorem pos_tracks_length (env : Env) (ops : List Op) (s : St) (h : run env {} ops = some s) :
    s.core.pos = s.core.out.length :=
  (sinv_run env ops sinv_init0 h).inv.pos_eq

/-- After `Close`, for EVERY entry `i` of the object table, byte `objOffsets[i]` of the output begins
"(i+1) 0 obj\n" — including the reserved catalog/info/page-tree slots and the font objects that are
reserved early and written late. -/
theorem offsets_exact (env : Env) (ops : List Op) (s : St) (h : run env {} ops = some s)
    (i : Nat) (hi : i < (close env s).st.core.offs.length) :
    objHeader (i + 1) <+: (close env s).st.core.out.drop ((close env s).st.core.offs[i]) := by
  have hinv := inv_close env (sinv_run env ops sinv_init0 h)
  rcases hinv.filled i hi with hh | hf
  · exact hh
  · exact hf.elim

/-- non-vacuity: histories with pages, text objects, fonts reserved in both writing modes and plain
objects are accepted by the model (and a history that misuses the text state is rejected) -/
example : ∀ env : Env, (run env {} [.newPage [] [] [], .startText, .setFont 0 [] [] false, .endText, .getFont 1 true,
    .writeObj (.int 1), .drawImage 7 [] [] [], .newPage [] [] [], .setAlpha [1] [2]]).isSome = true := by intro env; rfl
example : ∀ env : Env, run env {} [.newPage [] [] [], .endText] = none := by intro env; rfl

/-- every font reference handed out by `getFont` is a slot of the object table (the late write in
`writeFont` indexes `objOffsets[ref-1]` and cannot go out of range) -/
theorem font_refs_in_table (env : Env) (ops : List Op) (s : St) (h : run env {} ops = some s)
    (r : Nat) (hr : r ∈ s.fontsH.map (·.2) ∨ r ∈ s.fontsV.map (·.2)) : 1 ≤ r ∧ r ≤ s.core.offs.length := by
  have hs := sinv_run env ops sinv_init0 h
  rcases hr with hr | hr
  · exact hs.refsH r hr
  · exact hs.refsV r hr

/-- The number after `startxref` is the byte index at which the xref section starts, the section is
built from the final object table, and nothing follows `%%EOF`. -/
theorem startxref_exact (env : Env) (ops : List Op) (s : St) (h : run env {} ops = some s) :
    (close env s).st.core.out.drop (close env s).xrefOffset
      = tailBytes (close env s).st.core.offs (close env s).xrefOffset := by
  have hb := (inv_closeBody env (sinv_run env ops sinv_init0 h)).pos_eq
  unfold close
  simp only [emit_out, emit_offs]
  rw [hb, List.drop_left]

/-- The xref section has one entry per object plus the free entry 0, its header announces
`len+1` entries, and the trailer's `/Size` is the same number. -/
theorem xref_size_agree (offs : List Nat) (x : Nat) :
    tailBytes offs x =
      asc "xref\n0 " ++ natBytes (offs.length + 1) ++ asc "\n0000000000 65535 f \n"
        ++ (offs.map xrefEntry).flatten
        ++ asc "trailer\n"
        ++ ser (.dict [(asc "Root", .ref 1), (asc "Size", .int (offs.length + 1 : Nat)), (asc "Info", .ref 2)])
        ++ asc "\nstartxref\n" ++ natBytes x ++ asc "\n%%EOF\n"
    ∧ (offs.map xrefEntry).length = offs.length := by
  constructor
  · simp [tailBytes, xrefSection, trailerDict]
  · simp

/-- each in-use xref entry is exactly 20 bytes (offsets below 10^10) and its first ten bytes read
back as the recorded offset -/
theorem xref_entry_exact (off : Nat) (h : off < 10 ^ 10) :
    (xrefEntry off).length = 20 ∧ parseNat ((xrefEntry off).take 10) = off := by
  have hl := pad10_length off h
  constructor
  · unfold xrefEntry
    rw [List.length_append, hl]; decide
  · unfold xrefEntry
    rw [List.take_append_of_le_length (by omega), ← hl, List.take_length]
    exact parseNat_pad10 off

/-- object and reference numbers printed in decimal read back as the number -/
theorem decimal_roundtrip (n : Nat) : parseNat (natBytes n) = n := parseNat_natBytes n

/-- `/Length` of a stream object equals the number of bytes between "stream\n" and "\nendstream". -/
theorem length_exact (kvs : List (Bytes × Val)) (body : Bytes) :
    ser (.stream kvs body)
      = dictBytes (setLength (serKvs kvs) body.length) ++ asc "stream\n" ++ body ++ asc "\nendstream\n"
    ∧ findEntry kLength (setLength (serKvs kvs) body.length) = some (kLength, true, natBytes body.length) := by
  constructor
  · rw [ser]; rfl
  · unfold findEntry setLength
    rw [List.find?_append]
    have : List.find? (fun e => e.1 == kLength) (List.filter (fun e => e.1 != kLength) (serKvs kvs)) = none := by
      rw [List.find?_eq_none]
      intro e he
      have := (List.mem_filter.mp he).2
      simpa using this
    rw [this]
    simp

/-! ### page tree -/

/-- The page tree written by `Close` lists exactly one kid per `NewPage` call and `/Count` is that
number. -/
theorem page_count (env : Env) (ops : List Op) (s : St) (h : run env {} ops = some s) :
    (close env s).st.pages.length = ops.countP isNewPage
    ∧ pagesDict (close env s).st.pages =
        .dict [(asc "Type", .name (asc "Pages")), (asc "Kids", .arr ((close env s).st.pages.map Val.ref)),
               (asc "Count", .int (ops.countP isNewPage : Nat))] := by
  have hp := run_pages env ops {} s h
  have hf := flushPage_pages env s
  have e : (close env s).st.pages = (flushPage env s).pages := by simp [close, closeBody]
  have e0 : pagesSoFar ({} : St) = 0 := by simp [pagesSoFar]
  have hl : (close env s).st.pages.length = ops.countP isNewPage := by rw [e, hf.1, hp, e0]; simp
  exact ⟨hl, by simp [pagesDict, hl]⟩

/-! ### every reference the writer generates resolves -/

/-- For any history: after `Close`, with `N` the length of the object table (= number of xref
entries − 1 = `/Size` − 1): every kid `r` of the page tree satisfies `2 ≤ r ≤ N` (its content
stream is object `r − 1`, written just before it), every font and image reference in every written
page's resources is in `1..N`, and the fixed references `/Root 1`, `/Info 2`, `/Pages 3`, `/Parent 3`
are in `1..N`. Together with `offsets_exact` (entry `n` of the table is the byte offset of
"n 0 obj") each of these references resolves to exactly one cross-reference entry, which points at
the object carrying that number. -/
theorem references_resolve (env : Env) (ops : List Op) (s : St) (h : run env {} ops = some s) :
    3 ≤ (close env s).st.core.offs.length
    ∧ (∀ r ∈ (close env s).st.pages, 2 ≤ r ∧ r ≤ (close env s).st.core.offs.length)
    ∧ (∀ p ∈ (close env s).st.done,
        (∀ e ∈ p.fonts, 1 ≤ e.2 ∧ e.2 ≤ (close env s).st.core.offs.length)
        ∧ (∀ e ∈ p.xobjs, 1 ≤ e.2 ∧ e.2 ≤ (close env s).st.core.offs.length)) := by
  have hi := (refinv_flush env (refinv_run env ops refinv_init h)).1
  have hl := close_len env s
  have ep : (close env s).st.pages = (flushPage env s).pages := by simp [close, closeBody]
  refine ⟨(inv_close env (sinv_run env ops sinv_init0 h)).three, ?_, ?_⟩
  · rw [ep]; exact fun r hr => ⟨(hi.pages r hr).1, Nat.le_trans (hi.pages r hr).2 hl⟩
  · rw [close_done]
    intro p hp
    have := (hi.done p hp).mono hl
    exact ⟨fun e he => this.1 e he, fun e he => this.2 e he⟩

/-- `writePage`: the content stream is object `n+1`, the page object is `n+2` and its dictionary
refers to `n+1` as `/Contents` and to 3 as `/Parent` (`n` = table length before). -/
theorem page_contents_ref (env : Env) (compress : Bool) (c : Core) (p : Page) :
    (writePage env compress c p).2 = c.offs.length + 2
    ∧ ∃ v, (writePage env compress c p).1 = (c.writeObject v).writeObject (pageDict p 3 (c.offs.length + 1)) := by
  constructor
  · simp [writePage, writeObject_len]
  · exact ⟨_, by simp only [writePage, writeObject_len]; rfl⟩

/-! ### page-local resource names -/

/-- For any history over any number of pages: every resource name that `SetFont`, `SetAlpha`,
`DrawImage` or `SetFill`/`SetStroke` with a gradient emitted into the content stream of a page
(`/F0 … Tf`, `/A0 gs`, `/Im0 Do`, `/P0 scn`) is defined in the Font / ExtGState / XObject / Pattern
dictionary of THAT page's /Resources — names are allocated per page, also for fonts, images and
gradients that were already used on an earlier page. `done` lists the pages as they were when
`writePage` serialised them, one per page object. -/
theorem resources_page_local (env : Env) (ops : List Op) (s : St) (h : run env {} ops = some s) :
    (∀ p ∈ (close env s).st.done, ∀ u ∈ p.uses, u.2 ∈ p.names u.1)
    ∧ (close env s).st.done.length = (close env s).st.pages.length := by
  have hi := resinv_run env ops resinv_init h
  have hl := donelen_run env ops (s := {}) rfl h
  have e : (close env s).st.pages = (flushPage env s).pages := by simp [close, closeBody]
  rw [close_done, e]
  exact ⟨(resinv_flush env hi).2, flush_done_length env s hl⟩

/-- non-vacuity: one gradient value painted on two pages gets a name in each page's own map -/
example : ∃ s, run ⟨id, fun _ => ([], .bool true), fun _ => [], fun _ => .bool true, [], [1]⟩ {}
      [.newPage [] [] [], .setGradient false [7] [], .newPage [] [] [],
       .setGradient true [9] [], .setGradient false [7] []] = some s
    ∧ (s.done.map (fun p => p.patterns.map (·.1))) = [[[7]]]
    ∧ (s.page.map (fun p => p.patterns.map (·.1))) = some [[9], [7]] := ⟨_, rfl, by decide, by decide⟩

/-! ### text objects -/

/-- Every history the writer accepts without panicking obeys the text-object discipline: `BT` and
`ET` alternate on each page and `Tf`/`Tr` are only emitted inside a text object. -/
theorem text_discipline (env : Env) (ops : List Op) (s : St) (h : run env {} ops = some s) :
    textOK false ops = true := by
  have := text_run env ops {} s h
  simpa [inText] using this

/-! ### strings -/

/-- A conforming reader (§7.3.4.2) reads back EVERY byte string the writer emits (since the repair
7b13040 a CARRIAGE RETURN is written as the escape `\r`). -/
theorem string_roundtrip (s tail : Bytes) : readString (writeString s ++ tail) = some (s, tail) := by
  unfold writeString readString
  simp only [List.cons_append, List.append_assoc, List.singleton_append]
  exact readLit_escStr s tail

/-- the case that used to fail: a raw CR is written as backslash, `r` -/
example : writeString [0x0D] = [0x28, 0x5C, 0x72, 0x29] := by decide

/-- text strings: ASCII as is, otherwise UTF-16BE with BOM; decoding returns the code points -/
theorem text_roundtrip (rs : List Nat) (h : ∀ r ∈ rs, r < 0xD800 ∨ (0xE000 ≤ r ∧ r < 0x110000)) :
    decodeText (encodeText rs) = rs := decodeText_encodeText rs h

/-! ### nested values: serialise, then parse -/

/-- For EVERY value tree of booleans, integers, printed numbers, strings, references, names, arrays
and dictionaries (names of regular characters without `#`, numbers in PDF number syntax, dictionary entries given in the
writer's canonical order), the object parser reads the serialisation back as the same tree
(integers as their text) and stops exactly at the tail, which may be empty or start with a delimiter. -/
theorem value_roundtrip (v : Val) (T : Bytes) (hw : wf v = true)
    (hT : T = [] ∨ ∃ c T', T = c :: T' ∧ Canvas.C13.Rd.isDelim c = true) :
    parseVal (size v) (ser v ++ T) = some (norm v, T) := by
  have ht : Tail T := by
    rcases hT with rfl | ⟨c, T', rfl, hc⟩
    · exact Tail.nil
    · exact Tail.delim c T' hc
  exact rt_val v (size v) T hw ht (Nat.le_refl _)

/-- the canonical-order hypothesis inside `wf` holds for: optional Type entry, optional Subtype
entry, then the remaining keys strictly increasing -/
theorem canonical_order_ok (tE sE : Option Entry) (rest : List Entry)
    (ht : ∀ e, tE = some e → e.1 = kType) (hs : ∀ e, sE = some e → e.1 = kSubtype)
    (hn : noTS rest = true) (hsrt : sortedKeys rest = true) :
    canonOK (optList tE ++ optList sE ++ rest) = true :=
  canonOK_of_canonical tE sE rest ht hs hn hsrt

/-- The number hypothesis inside `wf` holds for everything a decimal printer emits for a finite
number: optional minus sign, integer digits, optional point and fraction digits, at least one digit.
(That the real `dec` prints exactly such texts for finite floats is checked on the real code by the
NUM correspondence lines; NaN/Inf — the repaired defects 22480c8, 276f7ec — are not of this shape.) -/
theorem printed_number_wf (neg : Bool) (ip fr : Bytes) (hip : ip.all Canvas.C13.Rd.isDigit = true)
    (hfr : fr.all Canvas.C13.Rd.isDigit = true) (hne : ip ≠ [] ∨ fr ≠ []) :
    wf (.num (decShape neg ip fr)) = true := by
  simp only [wf]
  exact decShape_isNumTok neg ip fr hip hfr hne

/-- A stream object reads back: its dictionary carries the `/Length` the writer computed and exactly
`body` lies between `stream\n` and `\nendstream` — for any dictionary (entries in canonical order
once `/Length` is set) and ANY byte string `body`, compressed or not. -/
theorem stream_roundtrip (kvs : List (Bytes × Val)) (body T : Bytes)
    (hw : wfKvs (withLen kvs body.length) = true) (hc : canonOK (setLength (serKvs kvs) body.length) = true) :
    parseStreamObj (1 + sizeKvs (withLen kvs body.length)) (ser (.stream kvs body) ++ T)
      = some (normKvs (withLen kvs body.length), body, 0x0A :: T) :=
  rt_stream kvs body T _ hw hc (Nat.le_refl _)

/-- Page content streams as `writePage` writes them. The Flate wrapper is an external function with
the contract `inflate (flate b) = b`: under it a reader recovers exactly the page's content bytes,
with compression (`/Filter/FlateDecode`, `/Length` = compressed size) and without. -/
theorem content_stream_recovered (env : Env) (inflate : Bytes → Bytes) (hz : ∀ b, inflate (env.flate b) = b)
    (b T : Bytes) :
    (∃ d, parseStreamObj 6 (ser (.stream [(kFilter, .name nFlate)] (env.flate b)) ++ T) = some (d, env.flate b, 0x0A :: T)
        ∧ d = [(kFilter, .name nFlate), (kLength, .num (natBytes (env.flate b).length))]
        ∧ inflate (env.flate b) = b)
    ∧ parseStreamObj 4 (ser (.stream [] b) ++ T) = some ([(kLength, .num (natBytes b.length))], b, 0x0A :: T) := by
  have srt : ∀ n : Nat, canonOK (setLength (serKvs [(kFilter, .name nFlate)]) n) = true := by
    intro n
    exact canonOK_of_canonical none none [(kFilter, false, 0x2F :: nFlate), (kLength, true, natBytes n)]
      (fun _ h => by cases h) (fun _ h => by cases h) rfl rfl
  have srt0 : ∀ n : Nat, canonOK (setLength (serKvs []) n) = true := by
    intro n
    exact canonOK_of_canonical none none [(kLength, true, natBytes n)]
      (fun _ h => by cases h) (fun _ h => by cases h) rfl rfl
  constructor
  · refine ⟨_, rt_stream [(kFilter, .name nFlate)] (env.flate b) T 6 rfl (srt _) (Nat.le_refl 6), ?_, hz b⟩
    rfl
  · exact rt_stream [] b T 4 rfl (srt0 _) (Nat.le_refl 4)

/-- Tokens that are not PDF numbers — what Go prints for non-finite floats — are rejected by the
object parser, whatever follows. -/
theorem nonfinite_rejected (f : Nat) :
    parseVal f (asc "NaN") = none ∧ parseVal f (asc "+Inf]") = none ∧ parseVal f (asc "-Inf ") = none := by
  cases f with
  | zero => exact ⟨rfl, rfl, rfl⟩
  | succ f => exact ⟨rfl, rfl, rfl⟩

/-- The unescaped name writer is NOT a round trip for every byte string: a `#` followed by two
hexadecimal digits is read as one byte (7.3.5). `writeVal(pdfName)` does not escape; the names the
library itself emits (resource names, dictionary keys, PostScript font names) contain no `#` and no
delimiter, which is the hypothesis `nameOK` of `value_roundtrip`. -/
theorem name_hash_not_verbatim :
    parseVal 2 (ser (.name (asc "A#42"))) = some (.name (asc "AB"), []) := rfl

/-- non-vacuity: a nested page-like dictionary satisfies the hypotheses -/
example : wf (.dict [(asc "Type", .name (asc "Page")), (asc "Subtype", .name (asc "X")),
    (asc "A", .arr [.num (asc "1.5"), .str [0x28, 0x0D], .bool true, .arr []]),
    (asc "Res", .dict [(asc "F0", .num (asc "-2"))])]) = true := by decide

/-! ### document information -/

def fieldName : Nat → Bytes
  | 0 => asc "Title" | 1 => asc "Subject" | 2 => asc "Keywords" | 3 => asc "Author" | 4 => asc "Creator"
  | _ => asc "Lang"

/-- Every field set by a setter is stored under the key of the same name and under no other value:
the Info dictionary for title … creator, the catalog `/Lang` for the language (repair 585f866). -/
theorem info_verbatim (env : Env) (s : St) :
    (∀ k, k < 5 → metaGet s k ≠ [] → ∀ v, (fieldName k, v) ∈ infoKvs env s ↔ v = .str (encodeText (metaGet s k)))
    ∧ (metaGet s 5 ≠ [] → ∀ v, (asc "Lang", v) ∈ catalogKvs s ↔ v = .str (encodeText (metaGet s 5))) := by
  constructor
  · intro k hk hne v
    unfold infoKvs infoEntries
    simp only [List.mem_append, List.mem_cons, List.not_mem_nil, or_false, mem_infoEntry, Prod.mk.injEq, or_assoc]
    rcases (by omega : k = 0 ∨ k = 1 ∨ k = 2 ∨ k = 3 ∨ k = 4) with rfl | rfl | rfl | rfl | rfl
    all_goals
      simp only [fieldName]
      constructor
      · rintro (⟨a, -⟩ | ⟨a, -⟩ | ⟨-, a, b⟩ | ⟨-, a, b⟩ | ⟨-, a, b⟩ | ⟨-, a, b⟩ | ⟨-, a, b⟩) <;>
          first | exact b | exact absurd a (by decide)
      · intro h
        simp [hne, h]
  · intro hne v
    have hne' : (metaGet s 5).isEmpty = false := by simpa using hne
    unfold catalogKvs
    simp only [hne', Bool.false_eq_true, if_false, List.mem_append, List.mem_cons, List.not_mem_nil, or_false,
      Prod.mk.injEq]
    constructor
    · rintro ((⟨a, -⟩ | ⟨a, -⟩) | ⟨-, b⟩)
      · exact absurd a (by decide)
      · exact absurd a (by decide)
      · exact b
    · intro h; simp [h]

/-- non-vacuity: a language different from the creator is what `/Lang` carries -/
example : (asc "Lang", Val.str [0x65, 0x6E]) ∈ catalogKvs { info := [[], [], [], [], [0x58], [0x65, 0x6E]] } := by
  simp [catalogKvs, metaGet, encodeText]

end C13
