import CanvasModel.C11
import CanvasModel.C11.Builder
import CanvasProofs.Lemmas.C11Parse
import CanvasProofs.Lemmas.C11Interp
import CanvasProofs.Lemmas.C11Algebra
import CanvasProofs.Lemmas.C11Number
import CanvasModel.C11.Number
/-!
# C11 — textual path formats round-trip and parsers never panic

Part A (this section): the byte-level model of `ParseSVGPath` as repaired by commit 91dc4d7
(CanvasModel/C11.lean, tied to /repo by the P-line correspondence of every run).  `lex`, `num`, `B` are the number lexer, the coordinate
arithmetic and the path builder; the theorems hold for all of them, under the one hypothesis that the
lexer never reports more bytes than it was given (`LexBounded`, proved for the modelled lexer).
-/
set_option linter.unusedSectionVars false
namespace C11
open Canvas.C11 C11L

section parser
variable {α P : Type} (lex : List Nat → α × Nat) (num : Num α) (B : Builder α P)

/-- The property's sentence "ParseSVGPath returns a result or an error for every input string; it
never panics" — for every byte string, no exception. -/
theorem parse_total (hlex : LexBounded lex) (s : List Nat) : parseSVGPath lex num B s ≠ .panic := by
  have hsafe : Res.Safe (parseSVGPath lex num B s) := by
    unfold parseSVGPath
    split
    · simp [Res.Safe]
    · rename_i hne
      have hs : s ≠ [] := by intro h; subst h; simp at hne
      rw [skipAt_zero, idx_zero hs]
      simp only [Res.bind]
      split
      · simp [Res.Safe]
      · split
        · simp [Res.Safe]
        · rename_i hlt
          obtain ⟨bi, hbi⟩ := idx_ok (path := s) (i := skipCW s) (by omega)
          rw [hbi]
          simp only []
          split
          · simp [Res.Safe]
          · exact loop_safe lex num B hlex s (s.length + 1) (initSt num B (skipCW s)) (by simp [initSt]; omega) (by simp [initSt]; omega)
  intro h; rw [h] at hsafe; exact hsafe

/-- Never loops: `len(path)+1` iterations of the main loop always suffice (every iteration consumes a
byte or returns), for every byte string. -/
theorem parse_never_out_of_fuel (hlex : LexBounded lex) (s : List Nat) :
    parseSVGPath lex num B s ≠ .fuel := by
  by_cases hd : Defect s
  · have : parseSVGPath lex num B s = .ok B.empty := by
      obtain ⟨hs, hhead, hskip⟩ := hd
      unfold parseSVGPath
      have hne : ¬ (s.length == 0) = true := by cases s <;> simp_all
      rw [if_neg hne, skipAt_zero, idx_zero hs]
      simp only [Res.bind]
      have hh : s.head? = some (s.head hs) := by cases s <;> simp_all
      have hn44 : ¬ (s.head hs == 44) = true := by
        intro h44; apply hhead; rw [hh]; simpa using h44
      rw [if_neg hn44, if_pos (by omega)]
    rw [this]; simp
  · have hagree : parseSVGPath lex num B s = parseSVGPathBefore91dc4d7 lex num B s := by
      unfold parseSVGPath parseSVGPathBefore91dc4d7 Defect at *
      split
      · rfl
      · rename_i hne
        have hs : s ≠ [] := by intro h; subst h; simp at hne
        rw [skipAt_zero, idx_zero hs]
        simp only [Res.bind]
        have hhead : s.head? = some (s.head hs) := by cases s <;> simp_all
        split
        · rfl
        · rename_i h44
          have hn44 : s.head hs ≠ 44 := by simpa using h44
          have hle := skipCW_le s
          have : ¬ s.length ≤ skipCW s := by
            intro hge; apply hd; exact ⟨hs, by simp [hhead, hn44], by omega⟩
          simp [this]
    rw [hagree]
    rcases C11L.parse_spec lex num B hlex s with ⟨_, h⟩ | ⟨h, _⟩
    · exact absurd h hd
    · intro hf; rw [hf] at h; exact h

/-- Whitespace/comma-only input not starting with a comma is the empty path, like `""`
(the class on which the parser before 91dc4d7 read `path[len(path)]`). -/
theorem parse_whitespace_only_is_empty (s : List Nat) (h : Defect s) :
    parseSVGPath lex num B s = .ok B.empty := by
  obtain ⟨hs, hhead, hskip⟩ := h
  unfold parseSVGPath
  have hne : ¬ (s.length == 0) = true := by cases s <;> simp_all
  rw [if_neg hne, skipAt_zero, idx_zero hs]
  simp only [Res.bind]
  have hh : s.head? = some (s.head hs) := by cases s <;> simp_all
  have hn44 : ¬ (s.head hs == 44) = true := by
    intro h44; apply hhead; rw [hh]; simpa using h44
  rw [if_neg hn44, if_pos (by omega)]

/-- What commit 91dc4d7 changed, exactly: the earlier parser panicked on the whitespace-only class
and on nothing else (a statement about the old definition, kept as the regression's signature) … -/
theorem before_91dc4d7_panicked_iff (hlex : LexBounded lex) (s : List Nat) :
    parseSVGPathBefore91dc4d7 lex num B s = .panic ↔ Defect s := by
  rcases C11L.parse_spec lex num B hlex s with ⟨h, hd⟩ | ⟨h, hd⟩
  · exact ⟨fun _ => hd, fun _ => h⟩
  · constructor
    · intro hp; rw [hp] at h; exact h.elim
    · intro hdef; exact absurd hdef hd

/-- … and the repair changed the result of no other input. -/
theorem repair_changes_nothing_else (s : List Nat) (h : ¬ Defect s) :
    parseSVGPath lex num B s = parseSVGPathBefore91dc4d7 lex num B s := by
  unfold parseSVGPath parseSVGPathBefore91dc4d7 Defect at *
  split
  · rfl
  · rename_i hne
    have hs : s ≠ [] := by intro h; subst h; simp at hne
    rw [skipAt_zero, idx_zero hs]
    simp only [Res.bind]
    have hhead : s.head? = some (s.head hs) := by cases s <;> simp_all
    split
    · rfl
    · rename_i h44
      have hn44 : s.head hs ≠ 44 := by simpa using h44
      have hle := skipCW_le s
      have : ¬ s.length ≤ skipCW s := by
        intro hge
        apply h
        exact ⟨hs, by simp [hhead, hn44], by omega⟩
      simp [this]

end parser

/-- The modelled number lexer (`strconv.ParseFloat` of tdewolff/parse: sign, digits with uint64
truncation, one dot, optional exponent through `ParseInt`) never reports more bytes than the slice. -/
theorem lexFloat_bounded : LexBounded lexFloat := C11L.lexFloat_bounded

/-- The executable instance compared with the real code on every run: total, no hypothesis left. -/
theorem parse_total_concrete (s : List Nat) :
    parseSVGPath lexFloat FB.floatNum FB.builder s ≠ .panic :=
  parse_total lexFloat FB.floatNum FB.builder C11L.lexFloat_bounded s


/-! ## Part B — token-level round trips: the specification interpreters invert the printers

`Cmd` lists are data arrays, `Seg`s what they draw (`segsFrom`).  Numerals are abstract values of
any type `α`: rounding to `Precision` digits and lexing are judged on the real code by the oracles
and, for the byte-level parser, by Part A's correspondence. -/
section formats
variable {α : Type} [DecidableEq α] (add refl : α → α → α) (zero : α)

/-- the shape of a builder-made data array that the printers rely on (C10): it starts with a MoveTo,
every Close carries the coordinates of the last MoveTo, and a Close is followed by a MoveTo or ends
the path -/
def WellFormed (p : List (Cmd α)) : Prop :=
  (∃ x y cs, p = .move x y :: cs) ∧ closesOK (zero, zero) p = true ∧ moveAfterClose p = true

/-- ToSVG: interpreting the printed tokens (H/V shorthands, dropped null lines, radii swapped for
rotations of 90° and more, packed flags as flag tokens) gives back the path's segments, for an exact
equality test (`Equal` with Epsilon = 0). -/
theorem tosvg_interp (eq : α → α → Bool) (ge90 : α → Bool) (sub90 : α → α)
    (heq : ∀ a b, eq a b = true → a = b) (p : List (Cmd α)) (h : WellFormed zero p) :
    svgInterp add refl zero (toSVG eq ge90 sub90 (zero, zero) p) =
      some (svgExpected eq ge90 sub90 (zero, zero) p) := by
  obtain ⟨⟨x, y, cs, hp⟩, hwf, hmac⟩ := h
  obtain ⟨s', hrun, hargs, hout⟩ := svg_run_all add refl eq ge90 sub90 heq p (svgInit zero) rfl
    (Or.inr ⟨x, y, cs, hp⟩) hwf hmac (by simp [svgInit, wasClose])
  have hrun' : svgRun add refl (svgInit zero) (toSVG eq ge90 sub90 (zero, zero) p) = some s' := hrun
  simp only [svgInterp, hrun', Option.bind, hargs, if_true, hout]
  simp [svgInit]

/-- Subpath structure survives ToSVG for every multi-subpath path, whatever its MoveTo targets
coincide with (the current point after an open subpath, the start of a closed one, earlier starts):
the decoded segments have the same MoveTo points in the same order and the same number of Closes —
no MoveTo is ever omitted or reused, no two subpaths fuse. -/
theorem tosvg_keeps_subpaths (eq : α → α → Bool) (ge90 : α → Bool) (sub90 : α → α)
    (heq : ∀ a b, eq a b = true → a = b) (p : List (Cmd α)) (h : WellFormed zero p) :
    ∃ segs, svgInterp add refl zero (toSVG eq ge90 sub90 (zero, zero) p) = some segs ∧
      segStarts segs = cmdStarts p ∧ segCloses segs = cmdCloses p :=
  ⟨_, tosvg_interp add refl zero eq ge90 sub90 heq p h,
    (svgExpected_structure eq ge90 sub90 p (zero, zero)).1, (svgExpected_structure eq ge90 sub90 p (zero, zero)).2⟩

/-- String(): `interp (print p) = segments of p`, unconditionally (no shorthand is ever chosen). -/
theorem string_roundtrip (p : List (Cmd α)) (h : WellFormed zero p) :
    svgInterp add refl zero (toStr (zero, zero) p) = some (segsFrom (zero, zero) p) := by
  have := tosvg_interp add refl zero (fun _ _ => false) (fun _ => false) (fun r => r) (by simp) p h
  rw [svgExpected_plain] at this
  exact this

/-- ToPDF (after ReplaceArcs, so without arcs): `m l c h` decode to the path with every quadratic
replaced by the cubic of the 2/3 rule (`quad_elevation`: the same curve). -/
theorem topdf_interp (ip : α → α → α) (center : α × α → α → α → α → Bool → Bool → α → α → Center α)
    (p : List (Cmd α)) (h : WellFormed zero p) (hna : noArcs p = true) :
    opInterp (pdfOp add) zero (toPDF ip (zero, zero) p) = some (segsElev ip center (zero, zero) p) := by
  obtain ⟨_, hwf, _⟩ := h
  obtain ⟨s', hrun, hst, hout⟩ := pdf_run_all ip center add p ⟨(zero, zero), (zero, zero), [], []⟩ rfl hna hwf
  have hrun' : opRun (pdfOp add) ⟨(zero, zero), (zero, zero), [], []⟩ (toPDF ip (zero, zero) p) = some s' := hrun
  simp only [opInterp, hrun', Option.bind, hst, if_true, hout]
  simp

/-- ToPS: `moveto lineto curveto closepath` and `ellipse` (sweep) / `ellipsen` (no sweep) decode to
the path with quadratics elevated and arcs in the centre form `ellipseToCenter` returned, counter-
clockwise exactly when the sweep flag is set — provided that centre form ends at the arc's end point
(trigonometry, judged numerically by the oracle). -/
theorem tops_interp (ip : α → α → α) (center : α × α → α → α → α → Bool → Bool → α → α → Center α)
    (arcEnd : α → α → α → α → α → α → α × α)
    (hend : ∀ cur rx ry phi l sw x y,
      arcEnd (center cur rx ry phi l sw x y).cx (center cur rx ry phi l sw x y).cy rx ry
        (center cur rx ry phi l sw x y).a1 (center cur rx ry phi l sw x y).rot = (x, y))
    (p : List (Cmd α)) (h : WellFormed zero p) :
    opInterp (psOp arcEnd) zero (toPS ip center (zero, zero) p) = some (segsElev ip center (zero, zero) p) := by
  obtain ⟨_, hwf, _⟩ := h
  obtain ⟨s', hrun, hst, hout⟩ := ps_run_all ip center arcEnd hend p ⟨(zero, zero), (zero, zero), [], []⟩ rfl hwf
  have hrun' : opRun (psOp arcEnd) ⟨(zero, zero), (zero, zero), [], []⟩ (toPS ip center (zero, zero) p) = some s' := hrun
  simp only [opInterp, hrun', Option.bind, hst, if_true, hout]
  simp

/-- the direction PostScript draws an arc is the sweep flag: `ellipse` (arc, counter-clockwise) iff sweep -/
theorem tops_arc_direction (ip : α → α → α) (center : α × α → α → α → α → Bool → Bool → α → α → Center α)
    (cur : α × α) (rx ry phi : α) (l sw : Bool) (x y : α) :
    (psCmd ip center cur (.arc rx ry phi l sw x y)).getLast? = some (.op (if sw then "ellipse" else "ellipsen")) := by
  simp [psCmd]

/-! laws of the SVG interpreter itself (it is a specification: these are the grammar's rules) -/

/-- implicit repetition: further coordinate pairs after `L x y` are further `L`s -/
theorem svg_implicit_repeat (s : SvgSt α) (hargs : s.args = []) (ho : s.out ≠ []) (a b c d : α) :
    svgRun add refl s [.cmd 'L', .num a, .num b, .num c, .num d] =
      svgRun add refl s [.cmd 'L', .num a, .num b, .cmd 'L', .num c, .num d] := by
  have aL : svgArity 'L' = some 2 := by decide
  by_cases hw : (s.cmd = some 'z' ∨ s.cmd = some 'Z') <;>
    simp [svgRun, svgTok, hargs, ho, hw, aL, exec_L, Option.bind, wasClose]

/-- coordinate pairs after a moveto are implicit linetos -/
theorem svg_moveto_then_lineto (s : SvgSt α) (hargs : s.args = []) (a b c d : α) :
    svgRun add refl s [.cmd 'M', .num a, .num b, .num c, .num d] =
      svgRun add refl s [.cmd 'M', .num a, .num b, .cmd 'L', .num c, .num d] := by
  have aL : svgArity 'L' = some 2 := by decide
  have aM : svgArity 'M' = some 2 := by decide
  have uM : 'M'.toUpper = 'M' := by decide
  simp [svgRun, svgTok, hargs, aL, aM, uM, exec_M, exec_L, Option.bind, wasClose]

/-- SVG 1.1 §8.3.3: a drawing command right after a closepath starts a new subpath at the closed
subpath's start — it decodes exactly like the same command behind an explicit moveto to the current
point (so a printer may omit that `M`; segments, current point and subpath start all agree). -/
theorem svg_implicit_moveto_after_close (s : SvgSt α) (hargs : s.args = []) (ho : s.out ≠ [])
    (hz : s.cmd = some 'z') (hcur : s.cur = s.start) (x y : α) :
    (svgRun add refl s [.cmd 'L', .num x, .num y]).map (fun t => (t.out, t.cur, t.start)) =
      (svgRun add refl s [.cmd 'M', .num s.cur.1, .num s.cur.2, .cmd 'L', .num x, .num y]).map
        (fun t => (t.out, t.cur, t.start)) := by
  have aL : svgArity 'L' = some 2 := by decide
  have aM : svgArity 'M' = some 2 := by decide
  have uM : 'M'.toUpper = 'M' := by decide
  simp [svgRun, svgTok, hargs, ho, hz, aL, aM, uM, exec_M, exec_L, Option.bind, wasClose, ← hcur]

/-- a relative lineto is the absolute lineto to the translated point -/
theorem svg_relative_lineto (s : SvgSt α) (x y : α) :
    (svgExec add refl s 'l' [.num x, .num y]).map (·.out) =
      (svgExec add refl s 'L' [.num (add x s.cur.1), .num (add y s.cur.2)]).map (·.out) := rfl

/-- `S` after `C`: the first control point is the reflection `2·cur − previous second control point` -/
theorem svg_smooth_reflects (s : SvgSt α) (hargs : s.args = []) (ho : s.out ≠ []) (a b c d x y e f u v : α) :
    (svgRun add refl s [.cmd 'C', .num a, .num b, .num c, .num d, .num x, .num y, .cmd 'S', .num e, .num f, .num u, .num v]).map
        (fun s' => s'.out.head?) =
      some (some (.cube x y (refl x c) (refl y d) e f u v)) := by
  have aC : svgArity 'C' = some 6 := by decide
  have aS : svgArity 'S' = some 4 := by decide
  have eS : ∀ (t : SvgSt α) (k : α × α), t.ctl = some k →
      svgExec add refl t 'S' [.num e, .num f, .num u, .num v] =
        some { t with cur := (u, v), ctl := some (e, f), qctl := none, cmd := some 'S', args := [],
                      out := .cube t.cur.1 t.cur.2 (refl t.cur.1 k.1) (refl t.cur.2 k.2) e f u v :: t.out } := by
    intro t k hk
    simp [svgExec, hk, show 'S'.toUpper = 'S' from by decide, show 'S'.isLower = false from by decide]
  by_cases hw : (s.cmd = some 'z' ∨ s.cmd = some 'Z')
  · simp [svgRun, svgTok, hargs, ho, hw, aC, aS, exec_C, Option.bind, wasClose]
    rw [eS _ (c, d) rfl]
    simp
  · simp [svgRun, svgTok, hargs, ho, hw, aC, aS, exec_C, Option.bind, wasClose]
    rw [eS _ (c, d) rfl]
    simp

end formats

/-! ## the algebra behind "same geometry" (over any ordered field, on the generated definitions) -/
section algebra
open GenK Canvas
variable {K : Type} [Field K] [LinearOrder K] [IsStrictOrderedRing K] [Env K]

/-- ToPDF/ToPS replace a quadratic by the cubic with the control points `quadraticToCubicBezier`
(generated from /repo/path_util.go) returns: it is the same curve, at every parameter. -/
theorem quad_elevation (p0 p1 p2 : Pt K) (t : K) :
    cubicBezierPos p0 (quadraticToCubicBezier p0 p1 p2).1 (quadraticToCubicBezier p0 p1 p2).2 p2 t
      = quadraticBezierPos p0 p1 p2 t := quad_elevation_pt p0 p1 p2 t

/-- the token printers' `elev` with the interpolation `p + (q - p)·2/3` written as in the source is
`quadraticToCubicBezier` coordinate by coordinate -/
theorem elev_is_quadraticToCubicBezier (cur : K × K) (a b x y : K) :
    elev (fun p q => (1 - 2 / 3) * p + 2 / 3 * q) cur a b x y =
      (((quadraticToCubicBezier ⟨cur.1, cur.2⟩ ⟨a, b⟩ ⟨x, y⟩).1.x, (quadraticToCubicBezier ⟨cur.1, cur.2⟩ ⟨a, b⟩ ⟨x, y⟩).1.y),
       ((quadraticToCubicBezier ⟨cur.1, cur.2⟩ ⟨a, b⟩ ⟨x, y⟩).2.x, (quadraticToCubicBezier ⟨cur.1, cur.2⟩ ⟨a, b⟩ ⟨x, y⟩).2.y)) := by
  simp [elev, quadraticToCubicBezier, Point.Interpolate]

/-- ToSVG's rewrite for rotations of 90° and more — radii swapped, rotation reduced by 90° (axis
direction `(c, s)` becomes `(s, -c)`) — describes the same ellipse as a point set. -/
theorem ellipse_swap (rx ry c s : K) (p : K × K) :
    (∃ u v, u * u + v * v = 1 ∧ p = ellipsePoint ry rx s (-c) u v) ↔
    (∃ u v, u * u + v * v = 1 ∧ p = ellipsePoint rx ry c s u v) := by
  constructor
  · rintro ⟨u, v, h, rfl⟩
    refine ⟨v, -u, by rw [← h]; ring, ?_⟩
    have := ellipse_swap_pt rx ry c s v (-u)
    simpa using this
  · rintro ⟨u, v, h, rfl⟩
    exact ⟨-v, u, quarter_turn_unit u v h, (ellipse_swap_pt rx ry c s u v).symm⟩

end algebra

/-! ## Part C — numbers: what the lexer reads back from a printed numeral, exactly

`scan` is the byte-exact model of the scanning part of `strconv.ParseFloat` (tdewolff/parse), tied to
the real lexer by the LX lines.  For every numeral of the forms the printers emit — digits, digits with
a fraction, either with an exponent — whose mantissa fits a uint64 (19 digits always do), it consumes
exactly the numeral and hands `mantissa · 10^(exponent − fraction length)` to the float conversion:
the decimal that was printed, no digit lost.  (The conversion of that decimal to a float64 is Float
arithmetic and outside Lean's reach; its three defect classes are decided from the numeral by the
harness predicate `lexClass` and recorded as known findings, everything else must be read exactly.) -/
section numbers

/-- `123` followed by anything that cannot continue a number -/
theorem lexer_reads_integer_exactly (ip rest : List Nat) (hip : AllDigits ip) (hne : ip ≠ [])
    (hv : digitsVal ip 0 < u64) (hs : Stops rest) :
    scan (ip ++ rest) = ⟨ip.length, false, digitsVal ip 0, 0, 0⟩ :=
  scan_integer ip rest hip hne hv hs

/-- `12.5`, `.5`, `12.` -/
theorem lexer_reads_decimal_exactly (ip fp rest : List Nat) (hip : AllDigits ip) (hfp : AllDigits fp)
    (hne : ip ≠ [] ∨ fp ≠ []) (hv : digitsVal (ip ++ fp) 0 < u64) (hs : Stops rest) :
    scan (ip ++ 46 :: (fp ++ rest)) = ⟨ip.length + 1 + fp.length, false, digitsVal (ip ++ fp) 0, fp.length, 0⟩ :=
  scan_fraction ip fp rest hip hfp hne hv hs

/-- `1.25e-7`, `.5E3`: the exact decimal is `digits · 10^(±exponent − fraction length)` -/
theorem lexer_reads_exponent_form_exactly (ip fp ed rest : List Nat) (eneg : Bool) (ec : Nat)
    (hec : ec = 101 ∨ ec = 69) (hip : AllDigits ip) (hfp : AllDigits fp) (hed : AllDigits ed)
    (hne : ip ≠ [] ∨ fp ≠ []) (hene : ed ≠ []) (hv : digitsVal (ip ++ fp) 0 < u64)
    (hev : digitsVal ed 0 ≤ 9223372036854775807) (hs : StopsDigits rest) :
    scanExact (scan (ip ++ 46 :: (fp ++ ec :: ((if eneg then [45] else []) ++ ed ++ rest)))) =
      (digitsVal (ip ++ fp) 0 : Rat) *
        pow10 ((if eneg then -(digitsVal ed 0 : Int) else (digitsVal ed 0 : Int)) - (fp.length : Int)) := by
  rw [scan_fraction_exponent ip fp ed rest eneg ec hec hip hfp hed hne hene hv hev hs]
  simp [scanExact]

/-- the lexer never reads beyond the numeral it was given: a numeral directly followed by a command
letter, a separator, a sign or the end of the string is consumed completely and nothing more -/
theorem lexer_consumes_exactly_the_numeral (ip fp rest : List Nat) (hip : AllDigits ip) (hfp : AllDigits fp)
    (hne : ip ≠ [] ∨ fp ≠ []) (hv : digitsVal (ip ++ fp) 0 < u64) (hs : Stops rest) :
    (scan (ip ++ 46 :: (fp ++ rest))).len = (ip ++ 46 :: fp).length := by
  rw [scan_fraction ip fp rest hip hfp hne hv hs]
  simp
  omega

/-- Soundness of the verdict the driver takes on every numeral the real `num` prints (NUM lines): `ok`
means it is an SVG number with exact value `p`, the lexer model consumes all of it, reads the same
decimal (when it has at most 19 mantissa digits), and `p` is within the stated tolerance of the float. -/
theorem checkPrinted_ok_sound (bound : Rat → Rat) (x : Float) (s : List Nat)
    (h : (checkPrinted bound x s).ok = true) :
    ∃ xr p, ratOfFloat x = some xr ∧ specNumber s = some p ∧ (scan s).len = s.length ∧
      absR (p - xr) ≤ bound xr ∧ (mantDigits s ≤ 19 → scanExact (scan s) = p) := by
  unfold checkPrinted at h
  cases hx : ratOfFloat x with
  | none =>
    cases hp : specNumber s <;> simp [hx, hp, NumCheck.ok] at h
  | some xr =>
    cases hp : specNumber s with
    | none => simp [hx, hp, NumCheck.ok] at h
    | some p =>
      simp only [hx, hp, NumCheck.ok, Bool.and_eq_true, beq_iff_eq, decide_eq_true_eq] at h
      refine ⟨xr, p, rfl, rfl, h.1.1.2, h.2, ?_⟩
      intro hd
      have := h.1.2
      simpa [hd] using this

end numbers

-- the hypotheses are satisfiable: "12.5e-3 " and "7L"; and the lexer model really reads them so
example : scan [49, 50, 46, 53, 101, 45, 51, 32] = ⟨7, false, 125, 1, -3⟩ := by decide
example : AllDigits [49, 50] := by intro c hc; simp at hc; rcases hc with rfl | rfl <;> decide
example : Stops [76] := by intro c hc; simp at hc; subst hc; simp [isDigit]
example : StopsDigits [32] := by intro c hc; simp at hc; subst hc; simp [isDigit]
example : scan [55, 76] = ⟨1, false, 7, 0, 0⟩ := by decide
-- the whitespace-only class (`Defect`, named after what it was before 91dc4d7) is inhabited and proper
example : ¬ Defect [77, 49, 32, 50] := by decide
example : ¬ Defect [44, 32] := by decide
example : Defect [32, 32] := by decide
example : Defect [10] := by decide
example : Defect [32, 44] := by decide

-- Part B is not vacuous: a well-formed path, and what the interpreter makes of its ToSVG tokens
-- (V for the vertical line, radii swapped and rotation reduced for the arc at 100°)
example : WellFormed (0 : Int) [.move 1 2, .line 1 5, .arc 3 2 100 true false 4 4, .close 1 2] :=
  ⟨⟨1, 2, _, rfl⟩, by decide, by decide⟩
example : WellFormed (0 : Int)
    [.move 0 0, .line 10 0, .line 10 10, .close 0 0, .move 0 0, .line (-5) (-5), .move (-5) (-5), .line (-10) 0] :=
  ⟨⟨0, 0, _, rfl⟩, by decide, by decide⟩
-- a legitimate minifier's output (no `M` after `z`) decodes to the same segments as the explicit form
example : svgInterp (· + ·) (fun p c : Int => 2 * p - c) 0
      [.cmd 'M', .num 0, .num 0, .cmd 'H', .num 10, .cmd 'V', .num 10, .cmd 'z', .cmd 'L', .num (-5), .num (-5)] =
    svgInterp (· + ·) (fun p c : Int => 2 * p - c) 0
      [.cmd 'M', .num 0, .num 0, .cmd 'H', .num 10, .cmd 'V', .num 10, .cmd 'z', .cmd 'M', .num 0, .num 0, .cmd 'L', .num (-5), .num (-5)] := by
  decide
example : toSVG (fun a b : Int => a == b) (fun r => decide (90 ≤ r)) (· - 90) (0, 0)
      [.move 1 2, .line 1 5, .arc 3 2 100 true false 4 4, .close 1 2] =
    [.cmd 'M', .num 1, .num 2, .cmd 'V', .num 5, .cmd 'A', .num 2, .num 3, .num 10, .flag true, .flag false, .num 4, .num 4, .cmd 'z'] := by
  decide
example : svgInterp (· + ·) (fun p c : Int => 2 * p - c) 0
      [.cmd 'M', .num 1, .num 2, .cmd 'V', .num 5, .cmd 'A', .num 2, .num 3, .num 10, .flag true, .flag false, .num 4, .num 4, .cmd 'z'] =
    some [.move 1 2, .line 1 2 1 5, .arc 1 5 2 3 10 true false 4 4, .close 4 4 1 2] := by
  decide
-- coincident MoveTos: closed subpath, open subpath continued from its start, MoveTo onto that
-- subpath's end — three subpaths are printed and three come back
example : (svgInterp (· + ·) (fun p c : Int => 2 * p - c) 0
      (toSVG (fun a b : Int => a == b) (fun r => decide (90 ≤ r)) (· - 90) (0, 0)
        [.move 0 0, .line 10 0, .line 10 10, .close 0 0, .move 0 0, .line (-5) (-5), .move (-5) (-5), .line (-10) 0])).map segStarts =
    some [(0, 0), (0, 0), (-5, -5)] := by
  decide
-- the full grammar: relative commands, implicit repetition, S/T reflection
example : svgInterp (· + ·) (fun p c : Int => 2 * p - c) 0
      [.cmd 'm', .num 1, .num 1, .num 2, .num 0, .cmd 'c', .num 1, .num 1, .num 2, .num 1, .num 3, .num 0, .cmd 's', .num 1, .num (-1), .num 2, .num 0, .cmd 'z'] =
    some [.move 1 1, .line 1 1 3 1, .cube 3 1 4 2 5 2 6 1, .cube 6 1 7 0 7 0 8 1, .close 8 1 1 1] := by
  decide

end C11
