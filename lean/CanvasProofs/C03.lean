import CanvasGen.CoreK
import CanvasGen.BezierK
import CanvasModel.C03
import CanvasProofs.Lemmas.C03Split
import CanvasProofs.Lemmas.C03Loop
import CanvasProofs.Lemmas.C03Chord
import CanvasProofs.Lemmas.C03Replace
import CanvasProofs.Lemmas.C03Whole
import CanvasProofs.Lemmas.C03StepK
import CanvasProofs.Lemmas.C03Real
import CanvasProofs.Lemmas.C03Spec
import CanvasProofs.Lemmas.C03XMono
import CanvasProofs.Lemmas.C03Arc
import CanvasProofs.Lemmas.C03CubicDev
import CanvasProofs.Lemmas.C03CubicWhole
import CanvasProofs.Lemmas.C03CubicStepK
import Mathlib.Tactic.Ring
import Mathlib.Tactic.Linarith
import Mathlib.Tactic.NormNum
import Mathlib.Tactic.FieldSimp

/-! # C03 — flattening: exact splits, vertices on the curve in order, chord deviation, structure

`GenK.*` definitions are regenerated from /repo/path_util.go and /repo/util.go on every check.
`Canvas.C03.*` are the hand-written loop / `replace` models, tied to the real flatteners by the
correspondence run (bit exact for quadratics). All theorems are over an arbitrary linearly ordered
field `K`; the step-size rule of the loops is an ARBITRARY function (`vertices_*`) or is
characterised by the two bounds the repaired code takes the minimum of (`*_within_two_tol`). -/
set_option linter.unusedSectionVars false
namespace C03
open Canvas Canvas.C03 GenK C03L
variable {K : Type} [Field K] [LinearOrder K] [IsStrictOrderedRing K] [Env K]

/-! ## 1. de Casteljau splits are exact reparametrisations -/

/-- the left part of `quadraticBezierSplit` at `t` is the curve on `[0,t]` -/
theorem split_exact_quad_left (p0 p1 p2 : Pt K) (t s : K) :
    quadraticBezierPos (quadL p0 p1 p2 t).1 (quadL p0 p1 p2 t).2.1 (quadL p0 p1 p2 t).2.2 s
      = quadraticBezierPos p0 p1 p2 (t * s) := quad_left p0 p1 p2 t s

/-- … and the right part is the curve on `[t,1]` -/
theorem split_exact_quad_right (p0 p1 p2 : Pt K) (t s : K) :
    quadraticBezierPos (quadR p0 p1 p2 t).1 (quadR p0 p1 p2 t).2.1 (quadR p0 p1 p2 t).2.2 s
      = quadraticBezierPos p0 p1 p2 (t + (1 - t) * s) := quad_right p0 p1 p2 t s

theorem split_exact_cubic_left (p0 p1 p2 p3 : Pt K) (t s : K) :
    cubicBezierPos (cubL p0 p1 p2 p3 t).1 (cubL p0 p1 p2 p3 t).2.1 (cubL p0 p1 p2 p3 t).2.2.1 (cubL p0 p1 p2 p3 t).2.2.2 s
      = cubicBezierPos p0 p1 p2 p3 (t * s) := cub_left p0 p1 p2 p3 t s

theorem split_exact_cubic_right (p0 p1 p2 p3 : Pt K) (t s : K) :
    cubicBezierPos (cubR p0 p1 p2 p3 t).1 (cubR p0 p1 p2 p3 t).2.1 (cubR p0 p1 p2 p3 t).2.2.1 (cubR p0 p1 p2 p3 t).2.2.2 s
      = cubicBezierPos p0 p1 p2 p3 (t + (1 - t) * s) := cub_right p0 p1 p2 p3 t s

/-- the split pieces join where the curve is: left end = right start = B(t) -/
theorem split_joins_on_curve (p0 p1 p2 p3 : Pt K) (t : K) :
    (cubL p0 p1 p2 p3 t).2.2.2 = cubicBezierPos p0 p1 p2 p3 t
      ∧ (cubR p0 p1 p2 p3 t).1 = cubicBezierPos p0 p1 p2 p3 t
      ∧ (quadL p0 p1 p2 t).2.2 = quadraticBezierPos p0 p1 p2 t
      ∧ (quadR p0 p1 p2 t).1 = quadraticBezierPos p0 p1 p2 t := by
  refine ⟨?_, ?_, ?_, ?_⟩
  · have := cub_left p0 p1 p2 p3 t 1; rw [cub_pos_one, mul_one] at this; exact this
  · have := cub_right p0 p1 p2 p3 t 0; rw [cub_pos_zero, mul_zero, add_zero] at this; exact this
  · have := quad_left p0 p1 p2 t 1; rw [quad_pos_one, mul_one] at this; exact this
  · have := quad_right p0 p1 p2 t 0; rw [quad_pos_zero, mul_zero, add_zero] at this; exact this

/-- degree elevation used by `replace`-style callers: the cubic on the control points returned by
`quadraticToCubicBezier` is the same curve -/
theorem quadratic_elevation_exact (p0 p1 p2 : Pt K) (t : K) :
    cubicBezierPos p0 (quadraticToCubicBezier p0 p1 p2).1 (quadraticToCubicBezier p0 p1 p2).2 p2 t
      = quadraticBezierPos p0 p1 p2 t := by
  simp only [quadraticToCubicBezier, cubicBezierPos, quadraticBezierPos, Point.Interpolate, Point.Mul, Point.Add]
  congr 1 <;> ring

/-! ## 2. every vertex the flatteners emit is a curve point; parameters increase; last = end -/

/-- `flattenQuadraticBezier`'s loop with ANY step rule that returns parameters in (0,1): the vertices
are `B(T₁), …, B(T_k), p2` with `0 < T₁ < … < T_k < 1` (all control polygons, all tolerances, any
number of iterations). -/
theorem vertices_on_curve_in_order_quad (step : Pt K → Pt K → Pt K → Option K)
    (hstep : ∀ q0 q1 q2 t, step q0 q1 q2 = some t → 0 < t ∧ t < 1)
    (fuel : Nat) (p0 p1 p2 : Pt K) (vs : List (Pt K))
    (h : flattenQuadLoop step quadSplitR fuel p0 p1 p2 = some vs) :
    ∃ Ts : List K, vs = Ts.map (quadraticBezierPos p0 p1 p2) ++ [p2]
      ∧ Ts.Pairwise (· < ·) ∧ ∀ T ∈ Ts, 0 < T ∧ T < 1 :=
  quad_loop_inv step hstep p0 p1 p2 fuel p0 p1 p2 0 vs (le_refl 0) zero_lt_one rfl
    (fun s => by congr 1; ring) h

/-- `flattenSmoothCubicBezier`'s loop (d = 0), any step rule and any degenerate-piece filter: the
vertices are curve points at increasing parameters in (0,1), optionally followed by the end point. -/
theorem vertices_on_curve_in_order_cubic (step : Cub K → CStep K) (keep : Cub K → Bool)
    (hstep : ∀ q t, step q = .cut t → 0 < t ∧ t < 1)
    (fuel : Nat) (p : Cub K) (vs : List (Pt K))
    (h : flattenCubicLoop step keep cubSplitR fuel p = some vs) :
    ∃ (Ts : List K) (e : List (Pt K)), vs = Ts.map (cubPos p) ++ e ∧ (e = [] ∨ e = [p.p3])
      ∧ Ts.Pairwise (· < ·) ∧ ∀ T ∈ Ts, 0 < T ∧ T < 1 :=
  cub_loop_inv step keep hstep p fuel p 0 vs (le_refl 0) zero_lt_one rfl
    (fun s => by congr 1; ring) h

/-- the curve starts and ends at its first and last control point (first vertex = MoveTo point) -/
theorem curve_end_points (p0 p1 p2 p3 : Pt K) :
    quadraticBezierPos p0 p1 p2 0 = p0 ∧ quadraticBezierPos p0 p1 p2 1 = p2
      ∧ cubicBezierPos p0 p1 p2 p3 0 = p0 ∧ cubicBezierPos p0 p1 p2 p3 1 = p3 :=
  ⟨quad_pos_zero _ _ _, quad_pos_one _ _ _, cub_pos_zero _ _ _ _, cub_pos_one _ _ _ _⟩

/-! ## 3. deviation from the chord -/

/-- B(s) − L(s) = −s(1−s)·(p0 − 2p1 + p2) -/
theorem chord_identity (p0 p1 p2 : Pt K) (s : K) :
    (quadraticBezierPos p0 p1 p2 s).x - (Point.Interpolate p0 p2 s).x = -(s * (1 - s)) * (p0.x - 2 * p1.x + p2.x)
      ∧ (quadraticBezierPos p0 p1 p2 s).y - (Point.Interpolate p0 p2 s).y = -(s * (1 - s)) * (p0.y - 2 * p1.y + p2.y) :=
  ⟨chord_identity_x p0 p1 p2 s, chord_identity_y p0 p1 p2 s⟩

/-- on [0,1] the curve is within |p0 − 2p1 + p2|/4 of the chord point at the same parameter -/
theorem chord_bound (p0 p1 p2 : Pt K) (s : K) (h0 : 0 ≤ s) (h1 : s ≤ 1) :
    |(quadraticBezierPos p0 p1 p2 s).x - (Point.Interpolate p0 p2 s).x| ≤ |p0.x - 2 * p1.x + p2.x| / 4
      ∧ |(quadraticBezierPos p0 p1 p2 s).y - (Point.Interpolate p0 p2 s).y| ≤ |p0.y - 2 * p1.y + p2.y| / 4 := by
  rw [chord_identity_x, chord_identity_y]
  exact ⟨abs_scaled_le _ s h0 h1, abs_scaled_le _ s h0 h1⟩

/-- the piece `[0,t]` cut off by one iteration deviates from its chord by at most `t²·|Δ²p|/4` -/
theorem chord_bound_piece (p0 p1 p2 : Pt K) (t s : K) (h0 : 0 ≤ s) (h1 : s ≤ 1) :
    |(quadraticBezierPos p0 p1 p2 (t * s)).x - (Point.Interpolate p0 (quadraticBezierPos p0 p1 p2 t) s).x|
        ≤ |t * t * (p0.x - 2 * p1.x + p2.x)| / 4
      ∧ |(quadraticBezierPos p0 p1 p2 (t * s)).y - (Point.Interpolate p0 (quadraticBezierPos p0 p1 p2 t) s).y|
        ≤ |t * t * (p0.y - 2 * p1.y + p2.y)| / 4 := by
  have hb := chord_bound (quadL p0 p1 p2 t).1 (quadL p0 p1 p2 t).2.1 (quadL p0 p1 p2 t).2.2 s h0 h1
  rw [quad_left, left_second_difference_x, left_second_difference_y] at hb
  have hend : (quadL p0 p1 p2 t).2.2 = quadraticBezierPos p0 p1 p2 t := (split_joins_on_curve p0 p1 p2 p2 t).2.2.1
  have hstart : (quadL p0 p1 p2 t).1 = p0 := rfl
  rw [hend, hstart] at hb
  exact hb

/-- One iteration of the repaired `flattenQuadraticBezier`. The step is
`t = min(2·sqrt(tol·|denom/s2nom|), D·D/(D·D − turn))` (the second bound only when
`turn = (p1−p0)·(p2−p1) < 0`), so `t²·|s2nom| ≤ 4·tol·denom` with `denom² = |p1−p0|²` and
`t·(D·D − turn) ≤ D·D` (`step_cap_establishes_hypothesis`). Then every point `B(u·t)` of the piece is
within `2·tol` of the chord line through `p0` and `B(t)`:  cross² ≤ (2·tol)²·|chord|².
All control polygons, all tolerances. -/
theorem quad_piece_within_two_tol (p0 p1 p2 : Pt K) (tol d t u : K)
    (hd2 : d * d = dd p0 p1)
    (ht0 : 0 ≤ t) (hu0 : 0 ≤ u) (hu1 : u ≤ 1)
    (hstep : t * t * |s2nom p0 p1 p2| ≤ 4 * tol * d)
    (hcap : t * (dd p0 p1 - turnDot p0 p1 p2) ≤ dd p0 p1) :
    (Point.PerpDot (Point.Sub (quadraticBezierPos p0 p1 p2 (u * t)) p0) (Point.Sub (quadraticBezierPos p0 p1 p2 t) p0)) ^ 2
      ≤ (2 * tol) ^ 2 * Point.Dot (Point.Sub (quadraticBezierPos p0 p1 p2 t) p0) (Point.Sub (quadraticBezierPos p0 p1 p2 t) p0) :=
  piece_two_tol p0 p1 p2 tol d t u hd2 ht0 hu0 hu1 hstep hcap

/-- The two bounds of the code's step give the hypotheses of `quad_piece_within_two_tol`: if the
polygon turns by more than 90° the step is at most `D·D/(D·D − turn)`, otherwise any `t ≤ 1` will do. -/
theorem step_cap_establishes_hypothesis (p0 p1 p2 : Pt K) (t : K) (ht0 : 0 ≤ t) (ht1 : t ≤ 1)
    (hmin : turnDot p0 p1 p2 < 0 → t ≤ dd p0 p1 / (dd p0 p1 - turnDot p0 p1 p2)) :
    t * (dd p0 p1 - turnDot p0 p1 p2) ≤ dd p0 p1 := by
  rcases lt_or_ge (turnDot p0 p1 p2) 0 with h | h
  · exact cap_gives_hcap p0 p1 p2 t h (hmin h)
  · exact no_turn_gives_hcap p0 p1 p2 t ht0 ht1 h

/-- The loop is never left (`t ≥ 1`) while the polygon turns by more than 90°: the cap is below 1.
So at the last piece `turn ≥ 0` holds. -/
theorem step_cap_below_one (p0 p1 p2 : Pt K) (hturn : turnDot p0 p1 p2 < 0) :
    dd p0 p1 / (dd p0 p1 - turnDot p0 p1 p2) < 1 := cap_lt_one p0 p1 p2 hturn

/-- The last piece: the loop is left when `t ≥ 1`, i.e. `|s2nom| ≤ 4·tol·denom` and (by
`step_cap_below_one`) `turn ≥ 0`, or when `p0 = p1` (then `s2nom = 0 = turn` and `d = 0`); the rest of
the curve is replaced by the chord `p0 → p2` and every curve point is within `2·tol` of that chord line. -/
theorem quad_last_piece_within_two_tol (p0 p1 p2 : Pt K) (tol d u : K)
    (hd2 : d * d = dd p0 p1)
    (hu0 : 0 ≤ u) (hu1 : u ≤ 1)
    (hstop : |s2nom p0 p1 p2| ≤ 4 * tol * d)
    (hturn : 0 ≤ turnDot p0 p1 p2) :
    (Point.PerpDot (Point.Sub (quadraticBezierPos p0 p1 p2 u) p0) (Point.Sub p2 p0)) ^ 2
      ≤ (2 * tol) ^ 2 * Point.Dot (Point.Sub p2 p0) (Point.Sub p2 p0) :=
  last_piece_two_tol p0 p1 p2 tol d u hd2 hu0 hu1 hstop hturn

/-- Along a piece cut by the capped step the curve advances monotonically in the direction of its
chord, so the nearest point of the chord LINE lies on the chord SEGMENT (distance to the line =
distance to the polyline edge): B'(x)·(B(t) − p0) ≥ 0 for 0 ≤ x ≤ t. -/
theorem quad_monotone_along_chord (p0 p1 p2 : Pt K) (t x : K) (hx0 : 0 ≤ x) (hxt : x ≤ t)
    (hcap : t * (dd p0 p1 - turnDot p0 p1 p2) ≤ dd p0 p1) :
    0 ≤ Point.Dot (quadraticBezierDeriv p0 p1 p2 x) (Point.Sub (quadraticBezierPos p0 p1 p2 t) p0) :=
  monotone_along_chord p0 p1 p2 t x hx0 hxt hcap

/-- non-vacuity, over ℚ: the hairpin (0,0),(30,40),(1,0) with tol = 1 (|D| = 50, turn = −2470,
s2nom = −40): the cap 2500/4970 is a legal step and satisfies both hypotheses -/
example : (50 : ℚ) * 50 = dd (Pt.mk (0 : ℚ) 0) (Pt.mk 30 40)
    ∧ turnDot (Pt.mk (0 : ℚ) 0) (Pt.mk 30 40) (Pt.mk 1 0) < 0
    ∧ (2500 / 4970 : ℚ) * (2500 / 4970) * |s2nom (Pt.mk (0 : ℚ) 0) (Pt.mk 30 40) (Pt.mk 1 0)| ≤ 4 * 1 * 50
    ∧ (2500 / 4970 : ℚ) * (dd (Pt.mk (0 : ℚ) 0) (Pt.mk 30 40) - turnDot (Pt.mk (0 : ℚ) 0) (Pt.mk 30 40) (Pt.mk 1 0))
        ≤ dd (Pt.mk (0 : ℚ) 0) (Pt.mk 30 40) := by
  simp only [dd, turnDot, s2nom, Point.Dot, Point.Sub, Point.PerpDot]
  norm_num

/-! ## 3b. the whole `flattenQuadraticBezier` loop -/

/-- WHOLE LOOP, any step rule that respects the two bounds (`StepOK`): the emitted polyline
`p0, B(T₁), …, B(T_k), p2` has strictly increasing break parameters in (0,1), consecutive edges are
contiguous pieces of the ORIGINAL curve (`chainOK`: for every edge [a,b] and every parameter x in [a,b]
the curve point B(x) is within 2·tol of the line through B(a), B(b)), and it has at most `fuel`
vertices. All control polygons, all tolerances, any number of iterations. -/
theorem flatten_quad_every_edge_within_two_tol (tol : K) (step : Pt K → Pt K → Pt K → Option K)
    (hstep : ∀ q0 q1 q2 t, step q0 q1 q2 = some t → 0 < t ∧ t < 1 ∧ StepOK tol q0 q1 q2 t)
    (hstop : ∀ q0 q1 q2, step q0 q1 q2 = none → StepOK tol q0 q1 q2 1)
    (fuel : Nat) (p0 p1 p2 : Pt K) (vs : List (Pt K))
    (h : flattenQuadLoop step quadSplitR fuel p0 p1 p2 = some vs) :
    ∃ Ts : List K, vs = Ts.map (quadraticBezierPos p0 p1 p2) ++ [p2]
      ∧ Ts.Pairwise (· < ·) ∧ (∀ T ∈ Ts, 0 < T ∧ T < 1) ∧ chainOK tol p0 p1 p2 0 Ts
      ∧ vs.length ≤ fuel :=
  quad_loop_within tol step hstep hstop p0 p1 p2 fuel p0 p1 p2 0 vs (le_refl 0) zero_lt_one rfl
    (fun s => by congr 1; ring) h

/-- The step rule of path_util.go:724-748 written over K (`quadStepK`: `Env.sqrt`, `Env.hypot`, the
90° cap, `+Inf` for `s2nom = 0`) satisfies both requirements, for every tolerance > 0 — assuming only
that sqrt and hypot are a square root and a Euclidean norm (`SqrtOK`) and that `Point.Equals` is
equality (the Epsilon fuzz is outside the theorem). -/
theorem code_step_rule_respects_bounds (hs : SqrtOK K) (tol : K) (htol : 0 < tol) (eqp : Pt K → Pt K → Bool)
    (heq : ∀ a b, eqp a b = true → a = b) (q0 q1 q2 : Pt K) :
    (∀ t, quadStepK tol eqp q0 q1 q2 = some t → 0 < t ∧ t < 1 ∧ StepOK tol q0 q1 q2 t)
      ∧ (quadStepK tol eqp q0 q1 q2 = none → StepOK tol q0 q1 q2 1) :=
  quadStepK_ok hs tol htol eqp heq q0 q1 q2

/-- Hence: `flattenQuadraticBezier` (model loop + the code's step rule) approximates EVERY quadratic
Bézier within 2·tol, with vertices on the curve in curve order. -/
theorem flatten_quad_within_two_tol (hs : SqrtOK K) (tol : K) (htol : 0 < tol) (eqp : Pt K → Pt K → Bool)
    (heq : ∀ a b, eqp a b = true → a = b) (fuel : Nat) (p0 p1 p2 : Pt K) (vs : List (Pt K))
    (h : flattenQuadLoop (quadStepK tol eqp) quadSplitR fuel p0 p1 p2 = some vs) :
    ∃ Ts : List K, vs = Ts.map (quadraticBezierPos p0 p1 p2) ++ [p2]
      ∧ Ts.Pairwise (· < ·) ∧ (∀ T ∈ Ts, 0 < T ∧ T < 1) ∧ chainOK tol p0 p1 p2 0 Ts
      ∧ vs.length ≤ fuel :=
  flatten_quad_every_edge_within_two_tol tol (quadStepK tol eqp)
    (fun q0 q1 q2 t ht => (quadStepK_ok hs tol htol eqp heq q0 q1 q2).1 t ht)
    (fun q0 q1 q2 hn => (quadStepK_ok hs tol htol eqp heq q0 q1 q2).2 hn) fuel p0 p1 p2 vs h

/-- non-vacuity: the assumptions on sqrt/hypot hold for the real numbers -/
example : @SqrtOK ℝ _ _ _ envReal := sqrtOK_real

/-- non-vacuity of `StepOK` with a genuine step: hairpin (0,0),(30,40),(1,0), tol = 1, t = cap -/
example : StepOK (1 : ℚ) (Pt.mk 0 0) (Pt.mk 30 40) (Pt.mk 1 0) (2500 / 4970) :=
  ⟨50, by simp only [dd, Point.Dot, Point.Sub]; norm_num,
    by simp only [s2nom, Point.Sub, Point.PerpDot]; norm_num,
    by simp only [dd, turnDot, Point.Dot, Point.Sub]; norm_num⟩

/-! ## 3c. the cubic flattener: `cubicBezierDeviation` is a rigorous bound, every piece within 4·tol -/

/-- HULL BOUND (no square roots): if the inner control points of a cubic are within D of points of its
chord segment, every point B(s), 0 ≤ s ≤ 1, is within 3/4·D of a point of the chord segment — the curve is
a convex combination of its control points with weight at most 3/4 on the inner ones. -/
theorem cubic_hull_bound (p0 p1 p2 p3 : Pt K) (l1 l2 D s : K)
    (hl1 : 0 ≤ l1 ∧ l1 ≤ 1) (hl2 : 0 ≤ l2 ∧ l2 ≤ 1) (hD : 0 ≤ D)
    (h1 : dsq p1 (segPt p0 p3 l1) ≤ D * D) (h2 : dsq p2 (segPt p0 p3 l2) ≤ D * D)
    (hs0 : 0 ≤ s) (hs1 : s ≤ 1) :
    ∃ m : K, 0 ≤ m ∧ m ≤ 1 ∧ dsq (cubicBezierPos p0 p1 p2 p3 s) (segPt p0 p3 m) ≤ (3 / 4 * D) * (3 / 4 * D) :=
  cubic_near_chord p0 p1 p2 p3 l1 l2 D s hl1 hl2 hD h1 h2 hs0 hs1

/-- `cubicBezierDeviation(p0,p1,p2,p3, 0)` over K (`devK`: the three-case distance to the chord segment with
`Env.hypot`, times 3/4) bounds the distance of EVERY point of the cubic from its chord segment. -/
theorem cubic_within_deviation_of_chord (hs : SqrtOK K) (c : Cub K) (s : K) (hs0 : 0 ≤ s) (hs1 : s ≤ 1) :
    ∃ m : K, 0 ≤ m ∧ m ≤ 1 ∧ dsq (cubPos c s) (segPt c.p0 c.p3 m) ≤ devK c * devK c :=
  cubic_within_devK hs c s hs0 hs1

/-- WHOLE LOOP of `flattenSmoothCubicBezier` (d = 0), any step function that only returns steps whose cut-off
piece passed the flatness test (the exit condition of the halving loop) and that stops only on a flat rest:
cut parameters strictly increase in (0,1); every piece [T_k, T_k+1] of the ORIGINAL curve, and the rest up
to 1, is within r of the segment between its end points; the emitted vertices are a sublist of the piece
end points followed by p3 (pieces `addCubicBezierLine` calls degenerate add no vertex); at most `fuel`
vertices. All cubics, all tolerances. -/
theorem flatten_cubic_every_piece_within (r : K) (step : Cub K → CStep K) (keep : Cub K → Bool)
    (hcut : ∀ q t, step q = .cut t → 0 < t ∧ t < 1 ∧ PieceFlat r (cubSplitLK q t))
    (hstop : ∀ q, step q = .stop → PieceFlat r q)
    (hstraight : ∀ q, step q = .straight → PieceFlat r q)
    (fuel : Nat) (p : Cub K) (vs : List (Pt K))
    (h : flattenCubicLoop step keep cubSplitR fuel p = some vs) :
    ∃ Ts : List K, Ts.Pairwise (· < ·) ∧ (∀ T ∈ Ts, 0 < T ∧ T < 1) ∧ cubChainOK r p 0 Ts
      ∧ vs.Sublist (Ts.map (cubPos p) ++ [p.p3]) ∧ vs.length ≤ fuel :=
  cub_loop_within r step keep hcut hstop hstraight p fuel p 0 vs (le_refl 0) zero_lt_one rfl
    (fun s => by congr 1; ring) h

/-- With the step of the repaired code (`cubStepK`: ANY positive first estimate, clipped to 1, halved while
`4·tol < cubicBezierDeviation(left piece)`), every piece is within 4·tol of its chord — provided the halving
loop is always left by that test and not by its cap of 20 iterations (`hexit`; the cap is the only way the
code can emit a chord that failed the test). -/
theorem flatten_cubic_within_four_tol (hs : SqrtOK K) (tol : K) (eqp : Pt K → Pt K → Bool) (est : Cub K → K)
    (keep : Cub K → Bool) (heq : ∀ a b, eqp a b = true → a = b) (hest : ∀ q, 0 < est q)
    (hexit : ∀ q, devK (cubSplitLK q (halveK tol q 20 (min (est q) 1))) ≤ 4 * tol)
    (fuel : Nat) (p : Cub K) (vs : List (Pt K))
    (h : flattenCubicLoop (cubStepK tol eqp est) keep cubSplitR fuel p = some vs) :
    ∃ Ts : List K, Ts.Pairwise (· < ·) ∧ (∀ T ∈ Ts, 0 < T ∧ T < 1) ∧ cubChainOK (4 * tol) p 0 Ts
      ∧ vs.Sublist (Ts.map (cubPos p) ++ [p.p3]) ∧ vs.length ≤ fuel :=
  flatten_cubic_every_piece_within (4 * tol) (cubStepK tol eqp est) keep
    (cubStepK_ok hs tol eqp est heq hest hexit).1 (cubStepK_ok hs tol eqp est heq hest hexit).2.1
    (cubStepK_ok hs tol eqp est heq hest hexit).2.2 fuel p vs h

/-- non-vacuity of the hull bound: `M0 0C0 4 4 4 4 0` — inner control points 4 above the chord, D = 4 -/
example : dsq (Pt.mk (0 : ℚ) 4) (segPt (Pt.mk 0 0) (Pt.mk 4 0) 0) ≤ 4 * 4
    ∧ dsq (Pt.mk (4 : ℚ) 4) (segPt (Pt.mk 0 0) (Pt.mk 4 0) 1) ≤ 4 * 4 := by
  simp only [dsq, segPt]; norm_num

/-! ## 4. the `replace` driver keeps the subpath structure -/

/-- `Flatten` on the command-list model, for ANY callbacks: the result consists of MoveTo / LineTo /
Close only and has the same signature — the same number of subpaths and for each the same start
point, the same end point and the same open/closed status. -/
theorem replace_structure {κ : Type} (f : Pt K → κ → Pt K → List (Pt K)) (cur : Pt K) (cs : List (Cmd K κ)) :
    (∀ c ∈ flattenCmds f cur cs, c.isFlat = true)
      ∧ signature (flattenCmds f cur cs) = signature cs :=
  ⟨flatten_isFlat f cs cur, sigGo_flatten f cs none cur⟩

/-- a path that is already flat is returned unchanged -/
theorem replace_flat_unchanged {κ : Type} (f : Pt K → κ → Pt K → List (Pt K)) (cur : Pt K) (cs : List (Cmd K κ))
    (h : ∀ c ∈ cs, c.isFlat = true) : flattenCmds f cur cs = cs :=
  flatten_flat_id f cs h cur

/-- The splice in `Path.replace` never starts a new subpath: `p.LineTo(end)` is skipped only when
LineTo's test says the replacement already ends on `end` (`skip`), `Join` continues the subpath when
its test says the points coincide (`eq`); as long as `skip a b → eq a b` (in the library both are
`Point.Equals`, tolerance Epsilon) and `eq` is reflexive, the number of subpaths of
Flatten / ReplaceArcs / XMonotone equals that of the input — for ANY replacement callbacks, including
ones whose recomputed end point misses the stored end point (elliptic arcs at large coordinates). -/
theorem replace_preserves_subpath_count {κ : Type} (skip eq : Pt K → Pt K → Bool)
    (f : Pt K → κ → Pt K → List (Pt K))
    (hse : ∀ a b, skip a b = true → eq a b = true) (hrefl : ∀ a, eq a a = true)
    (cur : Pt K) (cs : List (Cmd K κ)) :
    subpathCount (replaceCmds skip eq f cur cs) = subpathCount cs :=
  replaceCmds_count skip eq f hse hrefl cs cur

/-- the coupling hypothesis is needed: a skip test that is laxer than Join's test (here: always skip,
exact equality in Join) splits `M(0,0) K(2,0) L(3,0)` whose replacement ends at (1,0) into two subpaths -/
example : subpathCount (replaceCmds (fun _ _ => true) (fun a b => decide (a = b))
      (fun _ (_ : Unit) _ => [Pt.mk (1 : ℚ) 0]) (Pt.mk 0 0)
      [Cmd.M (Pt.mk 0 0), Cmd.Curve () (Pt.mk 2 0), Cmd.L (Pt.mk 3 0)]) = 2 := by
  decide

/-! ## 4b. the executable verdict `coveredBy` (judges the real code's output on `!` lines) is sound -/

/-- verdict ok ⇒ every sample of the curve has a point of some polyline edge within the radius -/
theorem verdict_sound (r2 : K) (samples poly : List (Pt K)) (h : coveredBy r2 samples poly = true) :
    ∀ s ∈ samples, ∃ e ∈ edges poly, ∃ t : K, 0 ≤ t ∧ t ≤ 1 ∧ distSqAt s e.1 e.2 t ≤ r2 :=
  coveredBy_sound r2 samples poly h

/-- a pass at tolerance r stays a pass at any larger tolerance -/
theorem verdict_monotone (r2 r2' : K) (hr : r2 ≤ r2') (samples poly : List (Pt K))
    (h : coveredBy r2 samples poly = true) : coveredBy r2' samples poly = true :=
  coveredBy_mono r2 r2' hr samples poly h

/-- the distance the verdict is built from does not depend on where the drawing is placed -/
theorem verdict_distance_translation_invariant (p a b v : Pt K) :
    distSqPointSeg ⟨p.x + v.x, p.y + v.y⟩ ⟨a.x + v.x, a.y + v.y⟩ ⟨b.x + v.x, b.y + v.y⟩ = distSqPointSeg p a b :=
  distSqPointSeg_translate p a b v

/-- non-vacuity: the chord (0,0)→(2,0) covers the sample (1,1) of `M0 0Q1 2 2 0` within r² = 1 but not 1/2 -/
example : coveredBy (1 : ℚ) [Pt.mk 1 1] [Pt.mk 0 0, Pt.mk 2 0] = true
    ∧ coveredBy (1 / 2 : ℚ) [Pt.mk 1 1] [Pt.mk 0 0, Pt.mk 2 0] = false := by
  constructor <;>
    simp [coveredBy, nearPolyline, edges, distSqPointSeg, footParam, distSqAt] <;> norm_num

/-! ## 5. x-monotone splitting is exact -/

/-- `xmonotoneQuadraticBezier` splits at t = (p0.x − p1.x)/(p0.x − 2p1.x + p2.x): that is the root of
the x-derivative, and by `split_exact_*` the two pieces are the original curve. -/
theorem xmonotone_quad_split_at_extremum (p0 p1 p2 : Pt K) (h : p0.x - 2 * p1.x + p2.x ≠ 0) :
    (quadraticBezierDeriv p0 p1 p2 ((p0.x - p1.x) / (p0.x - 2 * p1.x + p2.x))).x = 0 := by
  simp only [quadraticBezierDeriv, Point.Mul, Point.Add]
  field_simp
  ring

/-- between consecutive roots of a quadratic polynomial-free statement: on a piece whose x-derivative
has no sign change the x-coordinate is monotone; for the quadratic the derivative is affine in s, so
it keeps the sign it has at both ends. -/
theorem xmonotone_quad_piece_monotone (p0 p1 p2 : Pt K) (s : K) (h0 : 0 ≤ s) (h1 : s ≤ 1)
    (ha : 0 ≤ (quadraticBezierDeriv p0 p1 p2 0).x) (hb : 0 ≤ (quadraticBezierDeriv p0 p1 p2 1).x) :
    0 ≤ (quadraticBezierDeriv p0 p1 p2 s).x := by
  simp only [quadraticBezierDeriv, Point.Mul, Point.Add] at *
  have e : (-2 + 2 * s) * p0.x + (2 - 4 * s) * p1.x + 2 * s * p2.x
      = (1 - s) * ((-2 + 2 * 0) * p0.x + (2 - 4 * 0) * p1.x + 2 * 0 * p2.x)
        + s * ((-2 + 2 * 1) * p0.x + (2 - 4 * 1) * p1.x + 2 * 1 * p2.x) := by ring
  rw [e]
  exact add_nonneg (mul_nonneg (by linarith) ha) (mul_nonneg h0 hb)

/-- `xmonotoneQuadraticBezier` over K (`xmonoQuadK`): the result is the curve itself or its two
de Casteljau halves at a parameter t in (0,1) where the x-derivative vanishes — by `split_exact_quad_*`
the pieces trace exactly the original curve in order. -/
theorem xmonotone_quad_pieces_exact (p0 p1 p2 : Pt K) :
    xmonoQuadK p0 p1 p2 = [(p0, p1, p2)] ∨
      ∃ t : K, 0 < t ∧ t < 1 ∧ xmonoQuadK p0 p1 p2 = [quadL p0 p1 p2 t, quadR p0 p1 p2 t]
        ∧ (quadraticBezierDeriv p0 p1 p2 t).x = 0 :=
  xmonoQuadK_exact p0 p1 p2

/-- … and EVERY piece it returns is x-monotone: the x-derivative of the piece has the same sign at any
two parameters of [0,1] (all control polygons). -/
theorem xmonotone_quad_pieces_monotone (p0 p1 p2 : Pt K) : ∀ q ∈ xmonoQuadK p0 p1 p2, XMonotone q :=
  xmonoQuadK_monotone p0 p1 p2

/-- non-vacuity: `M0 0Q2 1 1 2` is split at t = 2/3 -/
example : ∃ t : ℚ, xmonoQuadK (Pt.mk (0 : ℚ) 0) (Pt.mk 2 1) (Pt.mk 1 2) = [quadL (Pt.mk 0 0) (Pt.mk 2 1) (Pt.mk 1 2) t, quadR (Pt.mk 0 0) (Pt.mk 2 1) (Pt.mk 1 2) t] :=
  ⟨2 / 3, by simp only [xmonoQuadK]; norm_num⟩

/-! ## 6. the cubic replacement of arcs (ReplaceArcs) has a fixed small relative error -/

/-- `ellipseToCubicBeziers` on a 90° piece of the unit circle (control length `kappaK 1 √7`, the value
of path_util.go:293 for sin 90° = 1, tan 45° = 1): the midpoint of the cubic lies between 1.9e-3 and
2.0e-3 inside the circle. This is the fixed small relative error of ReplaceArcs that the property allows
and the oracle bounds by 2.0e-3·rx. (Flatten no longer goes through these cubics since f749928.) -/
theorem arc_to_cube_quarter_midpoint_error (a : K) (ha : 0 ≤ a) (ha2 : a * a = 4 + 3 * (1 * 1)) :
    let k := kappaK 1 a
    let m := cubicBezierPos (Pt.mk 1 0) (Pt.mk 1 k) (Pt.mk k 1) (Pt.mk 0 1) (1 / 2)
    (1 - 20 / 10000) ^ 2 ≤ m.x * m.x + m.y * m.y ∧ m.x * m.x + m.y * m.y ≤ (1 - 19 / 10000) ^ 2 :=
  quarter_midpoint_radius a ha ha2

/-- non-vacuity: a nonnegative square root of 7 exists (reals) -/
example : ∃ a : ℝ, 0 ≤ a ∧ a * a = 4 + 3 * (1 * 1) :=
  ⟨Real.sqrt 7, Real.sqrt_nonneg 7, by rw [Real.mul_self_sqrt (by norm_num)]; norm_num⟩

end C03
