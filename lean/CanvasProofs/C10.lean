import CanvasProofs.Lemmas.C10
import CanvasProofs.Lemmas.C10Decode
import CanvasProofs.Lemmas.C10Exact
import CanvasProofs.Lemmas.C10Derive
import CanvasProofs.Lemmas.C10Heap
import CanvasModel.C10
/-!
# C10 — built paths are well-formed

Model: `Canvas.Path` (CanvasModel/Path.lean), a hand-written model of path.go's builder
(`MoveTo … Close`, `Arc`, `Join`, `Append`, `optimizeClose`) tied to the source by bit-level
correspondence of `encode (model state)` with `Path.Data()` on generated histories.

Every geometric predicate (`Equal`, collinearity, radius correction, angle normalisation) is a field
of the oracle `G : Geo α`; all theorems quantify over `G`, i.e. they hold whatever these predicates
answer — in particular for the float64 formulas of the Go code.
-/
set_option linter.unusedSectionVars false
namespace C10
open Canvas Canvas.Path
variable {α : Type} [DecidableEq α]

/-! ## 1. The invariant holds after every history -/

/-- Each single builder call (incl. `Arc` and the internal `optimizeClose`) preserves well-formedness. -/
theorem applyOp_wf (G : Geo α) (cs : RPath α) (o : Op α) (h : WF G.ptEq cs) : WF G.ptEq (applyOp G cs o) := by
  have h' : Ok G.ptEq false cs := Option.isSome_iff_exists.1 h
  apply Option.isSome_iff_exists.2
  cases o with
  | moveTo p => obtain ⟨st, h'⟩ := h'; exact ⟨_, moveTo_state _ _ h' p⟩
  | lineTo p => exact lineTo_ok G _ _ h' p
  | quadTo cp p => exact quadTo_ok G _ _ h' cp p
  | cubeTo c1 c2 p => exact cubeTo_ok G _ _ h' c1 c2 p
  | arcTo rx ry rot l s p => exact arcTo_ok G _ _ h' ..
  | arc rx ry rot t0 t1 => exact arcBy_ok G _ _ h' ..
  | close => exact close_ok_weak G h'
  | optimizeClose => exact optimizeClose_ok G _ _ h'

/-- `p.Join(q)` of two well-formed paths is well-formed (first command re-issued through the builder,
remaining records copied, first Close repaired). -/
theorem join_wf (G : Geo α) (p q : RPath α) (hp : WF G.ptEq p) (hq : WF G.ptEq q) : WF G.ptEq (join G p q) :=
  Option.isSome_iff_exists.2 (join_ok_weak G (Option.isSome_iff_exists.1 hp) (Option.isSome_iff_exists.1 hq))

/-- `p.Append(q)` of two well-formed paths is well-formed. -/
theorem append_wf (G : Geo α) (p q : RPath α) (hp : WF G.ptEq p) (hq : WF G.ptEq q) : WF G.ptEq (append p q) :=
  Option.isSome_iff_exists.2 (append_ok_weak _ (Option.isSome_iff_exists.1 hp) (Option.isSome_iff_exists.1 hq))

/-- Join's close repair never reaches past the next MoveTo: whatever the joined piece `pre` contains,
every record of q from its next MoveTo on — in particular the Close of every later subpath, with the
coordinates of ITS OWN MoveTo — is copied unchanged (array order, as in path.go:337-347). -/
theorem join_repair_stops_at_moveTo (e a : Pt α) (pre t : List (Cmd α)) (h : ∀ c ∈ pre, c.isMove = false) :
    repairClose e (pre ++ .move a :: t) = repairClose e pre ++ .move a :: t := by
  induction pre with
  | nil => rfl
  | cons c rest ih =>
    have hc := h c (List.mem_cons_self ..)
    have ih' := ih (fun c' hc' => h c' (List.mem_cons_of_mem _ hc'))
    cases c with
    | move p => simp [Cmd.isMove] at hc
    | close p => simp [repairClose]
    | line p => simp [repairClose, ih']
    | quad cp p => simp [repairClose, ih']
    | cube c1 c2 p => simp [repairClose, ih']
    | arc rx ry phi l s p => simp [repairClose, ih']

/-- MAIN THEOREM.  Every path reachable through the construction API — any tree of primitive calls,
`Join`s and `Append`s of earlier results — is well-formed, for ARBITRARY answers of the geometric
predicates. -/
theorem builder_wf (G : Geo α) (h : Build α) : WF G.ptEq (h.eval G) := by
  induction h with
  | empty => rfl
  | op b o ih => exact applyOp_wf G _ o ih
  | join p q ihp ihq => exact join_wf G _ _ ihp ihq
  | append p q ihp ihq => exact append_wf G _ _ ihp ihq

/-- The same for a flat list of primitive calls on one path. -/
theorem ops_wf (G : Geo α) (ops : List (Op α)) : WF G.ptEq (ops.foldl (applyOp G) []) := by
  suffices ∀ cs, WF G.ptEq cs → WF G.ptEq (ops.foldl (applyOp G) cs) from this [] rfl
  induction ops with
  | nil => intro cs h; exact h
  | cons o t ih => intro cs h; exact ih _ (applyOp_wf G cs o h)

/-! ## 2. What the invariant says about the data array -/

/-- `WF` is exactly the declarative framing. -/
theorem wf_iff_framed (G : Geo α) (near : Pt α → Pt α → Bool) (cs : RPath α) :
    WF near cs ↔ Framed G near cs := by
  unfold WF
  rw [Option.isSome_iff_exists]
  induction cs with
  | nil =>
    constructor
    · intro _; refine ⟨by simp, ?_, ?_⟩
      · intro a b' rest hs; simp at hs
      · intro c rest hs; simp at hs
    · intro _; exact ⟨_, rfl⟩
  | cons c cs ih =>
    rw [framed_cons]
    constructor
    · rintro ⟨st, h⟩
      obtain ⟨st0, h0, hs⟩ := endState_cons_some near false h
      have hst0 := state_eq G near h0
      refine ⟨ih.1 ⟨st0, h0⟩, ?_⟩
      rcases cmd_trichotomy c with ⟨p, rfl⟩ | ⟨p, rfl⟩ | hc
      · simp [Cmd.isMove]
      · rw [step_close_iff] at hs
        obtain ⟨_, s, hs0, hnear⟩ := hs
        have hsp : startPos G cs = s := startPos_of_state G near false h0 s (by
          rcases hs0 with hs0 | ⟨hs0, _⟩ <;> simp [hs0])
        refine ⟨?_, ?_, ?_⟩
        · intro hnil; subst hnil; simp [endState] at h0; subst h0
          rcases hs0 with hs0 | ⟨hs0, _⟩ <;> simp at hs0
        · intro a rest hcs hcl; subst hcs
          obtain ⟨q, rfl⟩ : ∃ q, a = .close q := by cases a <;> simp [Cmd.isClose] at hcl; exact ⟨_, rfl⟩
          rw [hst0] at hs0; rcases hs0 with hs0 | ⟨hs0, _⟩ <;> simp [stateOf] at hs0
        · intro p' hp'; simp only [Cmd.close.injEq] at hp'; subst hp'; rw [hsp]; exact hnear
      · rw [step_draw_iff near false hc] at hs
        obtain ⟨s, hs0, _⟩ := hs
        refine ⟨?_, ?_, ?_⟩
        · intro hnil; subst hnil; simp [endState] at h0; subst h0; simp at hs0
        · intro a rest hcs hcl; subst hcs
          obtain ⟨q, rfl⟩ : ∃ q, a = .close q := by cases a <;> simp [Cmd.isClose] at hcl; exact ⟨_, rfl⟩
          rw [hst0] at hs0; simp [stateOf] at hs0
        · intro p' hp'; subst hp'; simp [Cmd.isDraw] at hc
    · rintro ⟨hf, l1, l2, l3⟩
      obtain ⟨st0, h0⟩ := ih.2 hf
      have hst0 := state_eq G near h0
      rcases cmd_trichotomy c with ⟨p, rfl⟩ | ⟨p, rfl⟩ | hc
      · exact ⟨_, endState_cons_of near false h0 ((step_move_iff near false).2 ⟨rfl, by simp⟩)⟩
      · refine ⟨.closed, endState_cons_of near false h0 ((step_close_iff near false).2 ⟨rfl, startPos G cs, ?_, l3 p rfl⟩)⟩
        cases cs with
        | nil => have := l1 rfl; simp [Cmd.isMove] at this
        | cons a rest =>
          rcases cmd_trichotomy a with ⟨q, rfl⟩ | ⟨q, rfl⟩ | ha
          · right; simp [hst0, stateOf, startPos]
          · have := l2 _ rest rfl rfl; simp [Cmd.isMove] at this
          · left; rw [hst0, startPos_draw G ha]; cases a <;> simp [Cmd.isDraw] at ha <;> rfl
      · cases cs with
        | nil => have := l1 rfl; cases c <;> simp [Cmd.isDraw] at hc <;> simp [Cmd.isMove] at this
        | cons a rest =>
          rcases cmd_trichotomy a with ⟨q, rfl⟩ | ⟨q, rfl⟩ | ha
          · exact ⟨_, endState_cons_of near false h0 ((step_draw_iff near false hc).2 ⟨q, by simp [hst0, stateOf], rfl⟩)⟩
          · have := l2 _ rest rfl rfl
            cases c <;> simp [Cmd.isDraw] at hc <;> simp [Cmd.isMove] at this
          · refine ⟨_, endState_cons_of near false h0 ((step_draw_iff near false hc).2 ⟨startPos G rest, ?_, rfl⟩)⟩
            right; rw [hst0]; cases a <;> simp [Cmd.isDraw] at ha <;> rfl

/-- `WF` ⇔ the encoded data array decodes forward (`i += cmdLen(d[i])`, head and tail command of every
record agree, arc flag ∈ {0,1,2,3}) into records that are framed as above. -/
theorem wf_iff_decodes (G : Geo α) (C : Codes α) (hC : C.Distinct) (near : Pt α → Pt α → Bool) (cs : RPath α) :
    WF near cs ↔ ∃ recs, decode C (encode C cs) = some recs ∧ Framed G near recs.reverse := by
  rw [wf_iff_framed G, decode_encode' C hC]
  constructor
  · intro h; exact ⟨_, rfl, by simpa using h⟩
  · rintro ⟨recs, h1, h2⟩
    simp only [Option.some.injEq] at h1; subst h1; simpa using h2

/-- The array decodes from both ends into the same records: the forward scan yields them oldest
first, the backward scan (`i -= cmdLen(d[i-1])`, reading `d[i-3], d[i-2]`) newest first, with every
index access in range (a failed access is `none` in the decoders); `Pos()` reads the model's pen. -/
theorem decode_both_ends (G : Geo α) (C : Codes α) (hC : C.Distinct) (cs : RPath α) :
    decode C (encode C cs) = some cs.reverse ∧
    decodeBwd C (encode C cs).reverse = some cs ∧
    posRaw G (encode C cs).reverse = some (pos G cs) :=
  ⟨decode_encode' C hC cs, decodeBwd_encode' C hC cs, posRaw_encode C G cs⟩

/-- The hypothesis `Codes.Distinct` is satisfiable: the command values 1,2,4,8,16,32 and flags 0..3. -/
example : intCodes.Distinct := by unfold Codes.Distinct; decide

/-- Corollary for the builder: the data array of every constructed path decodes from both ends into
framed records. -/
theorem builder_decodes (G : Geo α) (C : Codes α) (hC : C.Distinct) (h : Build α) :
    ∃ recs, decode C (encode C (h.eval G)) = some recs ∧
      decodeBwd C (encode C (h.eval G)).reverse = some recs.reverse ∧ Framed G G.ptEq recs.reverse := by
  obtain ⟨recs, h1, h2⟩ := (wf_iff_decodes G C hC G.ptEq _).1 (builder_wf G h)
  refine ⟨recs, h1, ?_, h2⟩
  rw [decode_encode' C hC] at h1
  simp only [Option.some.injEq] at h1; subst h1
  simpa using decodeBwd_encode' C hC (h.eval G)

/-! ## 3. Strict form and zero-length segments (partial: explicit oracle hypotheses) -/

/-- Full statement: after public builder calls there are no consecutive MoveTos, no Close directly
after a MoveTo and no zero-length drawing record.  It cannot hold for ARBITRARY oracle answers (see
`strict_needs_merge_soundness`); it is proved under explicit oracle hypotheses
(`builder_strict_partial`) and, without hypotheses, for the Go formulas in exact arithmetic
(`builder_strict_exact`).  For float64 the hypotheses fail only inside the Epsilon band
(`Equal` is not transitive there); that step is covered by the validator oracle, not by a theorem. -/
def builder_strict_statement (α : Type) [DecidableEq α] : Prop :=
  ∀ (G : Geo α) (ops : List (Op α)), (∀ o ∈ ops, o.isPublic = true) →
    Strict G.ptEq (ops.foldl (applyOp G) []) ∧ noZero G (ops.foldl (applyOp G) []) = true

/-- PARTIAL.  If `Point.Equals` is symmetric, a vector is never at angle 0 with its reverse (`Sane`)
and LineTo's merge test is sound (`MergeSound`), then every history of public builder calls yields a
strictly well-formed path (no `M M`, no `M Z`) without zero-length records. -/
theorem builder_strict_partial (G : Geo α) (hS : Sane G) (hM : MergeSound G) (ops : List (Op α))
    (hpub : ∀ o ∈ ops, o.isPublic = true) :
    Strict G.ptEq (ops.foldl (applyOp G) []) ∧ noZero G (ops.foldl (applyOp G) []) = true := by
  suffices ∀ cs, (Ok G.ptEq true cs ∧ noZero G cs = true) →
      (Ok G.ptEq true (ops.foldl (applyOp G) cs) ∧ noZero G (ops.foldl (applyOp G) cs) = true) by
    obtain ⟨h1, h2⟩ := this [] ⟨⟨_, rfl⟩, rfl⟩
    exact ⟨Option.isSome_iff_exists.2 h1, h2⟩
  induction ops with
  | nil => intro cs h; exact h
  | cons o t ih =>
    intro cs h
    exact ih (fun o' ho' => hpub o' (List.mem_cons_of_mem _ ho')) _
      (applyOp_strict G hS hM cs o (hpub o (List.mem_cons_self ..)) h)

/-- The Go formulas satisfy both hypotheses in exact arithmetic; in particular the dominant-axis
sign test of `LineTo` (path.go after 219108c: `|da.Y| < |da.X|`) never merges a reversing line. -/
theorem goGeo_sound : Sane goGeo ∧ MergeSound goGeo := ⟨goGeo_sane, goGeo_mergeSound⟩

/-- Hence, with exact arithmetic and the formulas of path.go, EVERY history of public builder calls is
strictly well-formed and free of zero-length records — no hypotheses left. -/
theorem builder_strict_exact (ops : List (Op Int)) (hpub : ∀ o ∈ ops, o.isPublic = true) :
    Strict goGeo.ptEq (ops.foldl (applyOp goGeo) []) ∧ noZero goGeo (ops.foldl (applyOp goGeo) []) = true :=
  builder_strict_partial goGeo goGeo_sane goGeo_mergeSound ops hpub

/-- The hypothesis `MergeSound` cannot be dropped from `builder_strict_partial`: for an (artificial)
oracle that answers "extends" to every parallel line — NOT the Go code — a reversing LineTo is merged
and a zero-length record remains, so `builder_strict_statement` is false for arbitrary answers. -/
theorem strict_needs_merge_soundness : ¬ builder_strict_statement Int := by
  intro h
  have := (h { goGeo with sameDir := fun _ _ => true }
    [Op.moveTo ⟨0, 0⟩, .lineTo ⟨-2, 0⟩, .lineTo ⟨0, 0⟩] (by decide)).2
  revert this; decide

/-- Regression anchors for the repaired LineTo: reversing collinear lines (axis-parallel and
diagonal, both directions) stay two records in the exact model of the current code. -/
example : [Op.moveTo ⟨0, 0⟩, .lineTo ⟨-2, 0⟩, .lineTo ⟨0, 0⟩].foldl (applyOp goGeo) []
    = [.line ⟨0, 0⟩, .line ⟨-2, 0⟩, .move ⟨0, 0⟩] := by decide
example : [Op.moveTo ⟨0, 0⟩, .lineTo ⟨0, -2⟩, .lineTo ⟨0, 3⟩].foldl (applyOp goGeo) []
    = [.line ⟨0, 3⟩, .line ⟨0, -2⟩, .move ⟨0, 0⟩] := by decide
example : [Op.moveTo ⟨0, 0⟩, .lineTo ⟨-2, -3⟩, .lineTo ⟨2, 3⟩].foldl (applyOp goGeo) []
    = [.line ⟨2, 3⟩, .line ⟨-2, -3⟩, .move ⟨0, 0⟩] := by decide
example : [Op.moveTo ⟨0, 0⟩, .lineTo ⟨-2, 0⟩, .lineTo ⟨-5, 0⟩].foldl (applyOp goGeo) []
    = [.line ⟨-5, 0⟩, .move ⟨0, 0⟩] := by decide

/-- The hypotheses of `builder_strict_partial` are also satisfied by the dot-product direction test. -/
example : Sane fixedGeo ∧ MergeSound fixedGeo := ⟨fixedGeo_sane, fixedGeo_mergeSound⟩

/-- `Append` preserves STRICT well-formedness: a trailing MoveTo of the receiver is dropped before
the argument (which starts with its own MoveTo) is copied, so no two consecutive MoveTos arise. -/
theorem append_strict (near : Pt α → Pt α → Bool) (p q : RPath α) (hp : Strict near p) (hq : Strict near q) :
    Strict near (append p q) :=
  Option.isSome_iff_exists.2
    (append_ok_strict near (Option.isSome_iff_exists.1 hp) (Option.isSome_iff_exists.1 hq))

/-- `Join` still copies the argument verbatim when it falls back to appending (p closed, or q does not
start at p's end): a receiver that ends in a MoveTo then yields two consecutive MoveTos — well-formed,
but not strictly so (exact arithmetic, formulas of path.go). -/
theorem join_after_moveTo_not_strict :
    ∃ p q : RPath Int, Strict goGeo.ptEq p ∧ Strict goGeo.ptEq q ∧ WF goGeo.ptEq (join goGeo p q) ∧
      ¬ Strict goGeo.ptEq (join goGeo p q) :=
  ⟨[.move ⟨5, 5⟩, .line ⟨1, 1⟩, .move ⟨0, 0⟩], [.line ⟨3, 3⟩, .move ⟨2, 2⟩], by unfold Strict; decide,
    by unfold Strict; decide, by unfold WF; decide, by unfold Strict; decide⟩

/-! ## 4. The pen -/

/-- end point requested by a primitive call -/
def Op.target : Op α → Option (Pt α)
  | .moveTo p => some p
  | .lineTo p => some p
  | .quadTo _ p => some p
  | .cubeTo _ _ p => some p
  | .arcTo _ _ _ _ _ p => some p
  | _ => none

/-- After `MoveTo/LineTo/QuadTo/CubeTo/ArcTo(…, e)` the pen is at `e`, or the call was dropped and the
pen was already `Equal` to `e`: only zero-length commands are dropped, and merging or converting to
a line never moves the requested end point. -/
theorem pos_requested (G : Geo α) (cs : RPath α) (o : Op α) (e : Pt α) (ht : Op.target o = some e) :
    pos G (applyOp G cs o) = e ∨ (applyOp G cs o = cs ∧ G.ptEq (pos G cs) e = true) := by
  cases o with
  | moveTo p =>
    simp only [Op.target, Option.some.injEq] at ht; subst ht
    left; cases cs with
    | nil => rfl
    | cons c rest => cases c <;> rfl
  | lineTo p => simp only [Op.target, Option.some.injEq] at ht; subst ht; exact lineTo_pos G _ cs
  | quadTo cp p =>
    simp only [Op.target, Option.some.injEq] at ht; subst ht
    simp only [applyOp, quadTo]
    split
    · rename_i h; simp only [Bool.and_eq_true] at h; exact Or.inr ⟨rfl, h.1⟩
    · split
      · exact lineTo_pos G _ cs
      · left; rfl
  | cubeTo c1 c2 p =>
    simp only [Op.target, Option.some.injEq] at ht; subst ht
    simp only [applyOp, cubeTo]
    split
    · rename_i h; simp only [Bool.and_eq_true] at h; exact Or.inr ⟨rfl, h.1.1⟩
    · split
      · exact lineTo_pos G _ cs
      · left; rfl
  | arcTo rx ry rot l s p =>
    simp only [Op.target, Option.some.injEq] at ht; subst ht
    simp only [applyOp, arcTo]
    split
    · rename_i h; exact Or.inr ⟨rfl, h⟩
    · split
      · exact lineTo_pos G _ cs
      · left; rfl
  | arc rx ry rot t0 t1 => simp [Op.target] at ht
  | close => simp [Op.target] at ht
  | optimizeClose => simp [Op.target] at ht

/-- `Close` directly after `MoveTo` on top of an OPEN subpath is a no-op: the MoveTo stays and the pen
stays at its point, so the next drawing call starts a new subpath there (repaired behaviour,
/repo 58c03cc). -/
theorem close_after_moveTo_keeps_pen (G : Geo α) (p : Pt α) (c : Cmd α) (rest : RPath α)
    (hc : c.isDraw = true) :
    close G (moveTo p (c :: rest)) = .move p :: c :: rest ∧ pos G (close G (moveTo p (c :: rest))) = p := by
  cases c <;> simp [Cmd.isDraw] at hc <;> simp [moveTo, close, headIsClose, pos, Cmd.endp]

/-- WITNESS of the remaining part of known finding C10-moveto-close-forgets-pen: on an empty path or
after a closed subpath, `Close` directly after `MoveTo` still removes the MoveTo, so path and pen are
exactly what they were before the MoveTo. -/
theorem close_after_moveTo_forgets (G : Geo α) (p : Pt α) (cs : RPath α)
    (h : cs = [] ∨ headIsClose cs = true) : close G (moveTo p cs) = cs := by
  rcases h with rfl | h
  · rfl
  · cases cs with
    | nil => rfl
    | cons c rest =>
      cases c <;> simp [headIsClose] at h
      simp [moveTo, close, headIsClose]

/-! ## 5. Arc records -/

/-- The radii stored by ArcTo are the absolute values of the arguments, exchanged when `rx < ry`
(then the rotation gains 90°) and possibly both multiplied by the correction factor; the stored
rotation is always a value of `phiOf` (the normalisation into [0, π)); flags are stored as two
booleans, i.e. the flag value is one of the four codes. -/
theorem arc_canonical (G : Geo α) (start p : Pt α) (rx ry rot : α) :
    ∃ a b r, ((a = G.abs rx ∧ b = G.abs ry) ∨ (a = G.abs ry ∧ b = G.abs rx)) ∧
      (arcCanon G start rx ry rot p = (a, b, G.phiOf r) ∨
        ∃ lam, arcCanon G start rx ry rot p = (G.mul a lam, G.mul b lam, G.phiOf r)) := by
  have key : ∀ t : α × α × α,
      (if G.gtOne (G.lambda start t.1 t.2.1 (G.phiOf t.2.2) p) = true then
          (G.mul t.1 (G.lambda start t.1 t.2.1 (G.phiOf t.2.2) p),
            G.mul t.2.1 (G.lambda start t.1 t.2.1 (G.phiOf t.2.2) p), G.phiOf t.2.2)
        else (t.1, t.2.1, G.phiOf t.2.2)) = (t.1, t.2.1, G.phiOf t.2.2) ∨
      ∃ lam, (if G.gtOne (G.lambda start t.1 t.2.1 (G.phiOf t.2.2) p) = true then
          (G.mul t.1 (G.lambda start t.1 t.2.1 (G.phiOf t.2.2) p),
            G.mul t.2.1 (G.lambda start t.1 t.2.1 (G.phiOf t.2.2) p), G.phiOf t.2.2)
        else (t.1, t.2.1, G.phiOf t.2.2)) = (G.mul t.1 lam, G.mul t.2.1 lam, G.phiOf t.2.2) := by
    intro t
    by_cases h : G.gtOne (G.lambda start t.1 t.2.1 (G.phiOf t.2.2) p) = true
    · right; exact ⟨_, by rw [if_pos h]⟩
    · left; rw [if_neg h]
  unfold arcCanon
  simp only
  by_cases h1 : G.eq (G.abs rx) (G.abs ry) = true
  · rw [if_pos h1]; exact ⟨_, _, _, Or.inl ⟨rfl, rfl⟩, key (G.abs rx, G.abs ry, G.zero)⟩
  · rw [if_neg h1]
    by_cases h2 : G.lt (G.abs rx) (G.abs ry) = true
    · rw [if_pos h2]; exact ⟨_, _, _, Or.inr ⟨rfl, rfl⟩, key (G.abs ry, G.abs rx, G.rotPlus90 rot)⟩
    · rw [if_neg h2]; exact ⟨_, _, _, Or.inl ⟨rfl, rfl⟩, key (G.abs rx, G.abs ry, rot)⟩

/-! ## 6. Derivers: Split, Reverse, Transform, replace -/

/-- Every path returned by `Split` is well-formed. -/
theorem split_wf (near : Pt α → Pt α → Bool) (cs : RPath α) (h : WF near cs) : ∀ p ∈ split cs, WF near p := by
  intro p hp
  obtain ⟨st, hst⟩ := Option.isSome_iff_exists.1 h
  obtain ⟨s, hs⟩ := (splitRuns_state near hst).1 p (split_subset cs p hp)
  exact Option.isSome_iff_exists.2 ⟨s, hs⟩

/-- `Split` partitions the records: the pieces, in array order, concatenate back to the path, except
that a last piece of at most four values (a trailing lone MoveTo) is left out. -/
theorem split_partition (cs : RPath α) :
    ∃ dropped : List (RPath α), (dropped = [] ∨ ∃ r, dropped = [r] ∧ isEmpty r = true) ∧
      (dropped ++ (split cs).reverse).flatten = cs := by
  have hf := splitRuns_flatten cs
  unfold split
  cases h : splitRuns cs with
  | nil => rw [h] at hf; exact ⟨[], Or.inl rfl, by simpa using hf⟩
  | cons p ps =>
    rw [h] at hf
    simp only
    by_cases he : isEmpty p = true
    · rw [if_pos he]; exact ⟨[p], Or.inr ⟨p, rfl, he⟩, by simpa using hf⟩
    · rw [if_neg he]; exact ⟨[], Or.inl rfl, by simpa using hf⟩

/-- `Reverse` returns a well-formed path for EVERY input (no hypothesis): the pending Close is emitted
exactly when the first LineTo of a closed subpath is reached, so nothing but a MoveTo follows a Close,
and every Close carries the first point written for its subpath. -/
theorem reverse_wf (G : Geo α) (near : Pt α → Pt α → Bool) (cs : RPath α) : WF near (reverse G cs) := by
  apply Option.isSome_iff_exists.2
  unfold reverse
  cases cs with
  | nil => exact ⟨_, rfl⟩
  | cons c rest =>
    apply revGo_ok
    left; left
    simp [endState, step]

/-- `Reverse` keeps the number of subpaths of a well-formed path. -/
theorem reverse_subpaths (G : Geo α) (near : Pt α → Pt α → Bool) (cs : RPath α) (h : WF near cs) :
    countMoves (reverse G cs) = countMoves cs := by
  have hold : ∀ cs : RPath α, (∃ st, endState near false cs = some st) → cs ≠ [] → oldestMove cs = 1 := by
    intro cs
    induction cs with
    | nil => intro _ hne; exact absurd rfl hne
    | cons c rest ih =>
      intro ⟨st, hst⟩ _
      obtain ⟨st0, h0, hs⟩ := endState_cons_some near false hst
      cases rest with
      | nil =>
        simp [endState] at h0; subst h0
        rcases cmd_trichotomy c with ⟨p, rfl⟩ | ⟨p, rfl⟩ | hc
        · simp [oldestMove, Cmd.isMove]
        · rw [step_close_iff] at hs; obtain ⟨_, s, hs', _⟩ := hs; rcases hs' with hs' | ⟨hs', _⟩ <;> simp at hs'
        · rw [step_draw_iff near false hc] at hs; obtain ⟨s, hs', _⟩ := hs; simp at hs'
      | cons d t => rw [oldestMove_cons]; exact ih ⟨st0, h0⟩ (by simp)
  unfold reverse
  cases cs with
  | nil => rfl
  | cons c rest =>
    have h1 := revGo_moves G (c :: rest) false c.endp c.endp [.move c.endp]
    have h2 := hold (c :: rest) (Option.isSome_iff_exists.1 h) (by simp)
    rw [h2, countMoves_move] at h1
    simp only [countMoves] at h1 ⊢
    omega

/-- `Transform` with a matrix that keeps arcs arcs (in particular `Translate`, `Scale`) maps every
point through `f`: the result is well-formed (also strictly) whenever `f` respects the closing tolerance. -/
theorem transform_wf (near near' : Pt α → Pt α → Bool) (f : Pt α → Pt α)
    (g : α × α × α × Bool × Bool → α × α × α × Bool × Bool)
    (hn : ∀ a b, near a b = true → near' (f a) (f b) = true) (cs : RPath α) :
    (WF near cs → WF near' (cs.map (mapCmd f g))) ∧ (Strict near cs → Strict near' (cs.map (mapCmd f g))) := by
  constructor
  · intro h
    obtain ⟨st, hst⟩ := Option.isSome_iff_exists.1 h
    exact Option.isSome_iff_exists.2 ⟨_, map_state near f g near' hn false hst⟩
  · intro h
    obtain ⟨st, hst⟩ := Option.isSome_iff_exists.1 h
    exact Option.isSome_iff_exists.2 ⟨_, map_state near f g near' hn true hst⟩

/-- the hypothesis of `transform_wf` holds for a translation in exact arithmetic -/
example : ∀ a b : Pt Int, goGeo.ptEq a b = true →
    goGeo.ptEq (⟨a.x + 3, a.y - 2⟩ : Pt Int) ⟨b.x + 3, b.y - 2⟩ = true := by
  intro a b h; rw [goGeo_ptEq] at h ⊢; subst h; rfl

/-- `replace` with callbacks that replace nothing returns the path unchanged. -/
theorem replace_none (G : Geo α) (cs : RPath α) : replace G (fun _ _ _ => none) cs = cs := by
  have key : ∀ (n j : Nat) (acc : RPath α) (todo : List (Cmd α)),
      replaceGo G (fun _ _ _ => none) n j acc todo = todo.reverse ++ acc := by
    intro n
    induction n with
    | zero => intro j acc todo; rfl
    | succ n ih =>
      intro j acc todo
      cases todo with
      | nil => rfl
      | cons c rest =>
        simp only [replaceGo]
        split <;> rw [ih] <;> simp
  unfold replace
  rw [key]; simp

/-- A raw data array is accepted by the executable verdict `wfArray` (the `W` lines of the check)
exactly when it is the encoding of a well-formed command list — hence, by `wf_iff_framed`, exactly when
it is framed: first record a MoveTo, only a MoveTo after a Close, every Close at its own subpath's start. -/
theorem wfArray_iff (C : Codes α) (hC : C.Distinct) (near : Pt α → Pt α → Bool) (d : List α) :
    wfArray C near d = true ↔ ∃ cs, encode C cs = d ∧ WF near cs := by
  unfold wfArray
  constructor
  · intro h
    cases hd : decode C d with
    | none => simp [hd] at h
    | some recs =>
      simp only [hd] at h
      exact ⟨recs.reverse, decode_sound C hd, h⟩
  · rintro ⟨cs, rfl, h⟩
    rw [decode_encode' C hC]
    simp only [List.reverse_reverse]
    exact h

/-- the instance the driver runs: IEEE bit patterns of the command and flag values are distinct -/
example : Canvas.C10.bitsCodes.Distinct := by unfold Codes.Distinct; decide

/-! ## 7. Purity and aliasing over an explicit heap of cells -/

open Canvas.Heap in
/-- Appending to a capacity-limited view (`p.d[i:j:j]`, as `Split` and `replace` hand out) allocates:
no cell that existed before is written, so the parent array — and every other slice — reads the same
afterwards; the result lives in fresh cells and reads `old ++ vs`. -/
theorem view_append_pure (h : Heap α) (parent other : Slice) (i j : Nat) (vs : List α) (hv : vs ≠ [])
    (hp : parent.Allocated h) (ho : other.Allocated h) (hij : i ≤ j ∧ j ≤ parent.len) :
    let r := appendGo h (parent.sub3 i j j) vs
    read r.1 parent = read h parent ∧ read r.1 other = read h other ∧ r.2.base = h.next ∧
      read r.1 r.2 = read h (parent.sub3 i j j) ++ vs := by
  have hfull : ¬ (parent.sub3 i j j).len + vs.length ≤ (parent.sub3 i j j).cap := by
    have : 0 < vs.length := List.length_pos_iff.2 hv
    simp only [Slice.sub3]; omega
  have hview : (parent.sub3 i j j).Allocated h := by
    obtain ⟨h1, h2⟩ := hp
    simp only [Slice.sub3, Slice.Allocated]; constructor <;> omega
  refine ⟨?_, ?_, append_realloc_base h _ vs hfull, append_read h _ vs hview⟩
  · apply read_eq_of_cells
    intro x _ hx2
    exact append_realloc_cells h _ vs hfull x (by obtain ⟨h1, h2⟩ := hp; omega)
  · apply read_eq_of_cells
    intro x _ hx2
    exact append_realloc_cells h _ vs hfull x (by obtain ⟨h1, h2⟩ := ho; omega)

open Canvas.Heap in
/-- `Copy` (make + copy): the result reads the same values, occupies fresh cells only, and no existing
cell changes — result and argument share no cell and the argument is unchanged. -/
theorem copy_fresh (h : Heap α) (s other : Slice) (ho : other.Allocated h) :
    let r := copyGo h s
    read r.1 r.2 = read h s ∧ h.next ≤ r.2.base ∧ read r.1 other = read h other := by
  refine ⟨copy_read h s, Nat.le_refl _, ?_⟩
  apply read_eq_of_cells
  intro x _ hx2
  exact copy_cells h s x (by obtain ⟨h1, h2⟩ := ho; omega)

open Canvas.Heap in
/-- Why the capacity limit matters (the mechanism of seeded defect split-shared-capacity, NOT the
current code): a plain view `p.d[i:j]` of a non-last piece has spare capacity over the parent's next
record, and `append` then overwrites the parent's cell `j`. -/
theorem plain_view_append_clobbers (h : Heap α) (parent : Slice) (i j : Nat) (v : α) (vs : List α)
    (hij : i ≤ j) (hroom : j + (v :: vs).length ≤ parent.cap) :
    (appendGo h (parent.sub2 i j) (v :: vs)).1.cells (parent.base + j) = v := by
  have hfit : (parent.sub2 i j).len + (v :: vs).length ≤ (parent.sub2 i j).cap := by
    simp only [Slice.sub2] at *; omega
  have := append_inplace_writes h (parent.sub2 i j) v vs hfit
  have e : (parent.sub2 i j).base + (parent.sub2 i j).len = parent.base + j := by
    simp only [Slice.sub2]; omega
  rwa [e] at this

/-- the hypotheses of `view_append_pure` are satisfiable -/
example : (⟨0, 8, 8⟩ : Canvas.Heap.Slice).Allocated (⟨fun _ => (0 : Int), 8⟩ : Canvas.Heap.Heap Int) ∧ (0 ≤ 4 ∧ 4 ≤ 8) := by
  simp [Canvas.Heap.Slice.Allocated]

end C10
