import CanvasGen.SweepK
import CanvasModel.Wn
import CanvasProofs.Lemmas.Wn
import CanvasProofs.Lemmas.C01Column

/-! # C01 — Boolean path operations compute the set algebra of the filled regions (partial)

Proved here, for all inputs:
* the decision `SweepPoint.InResult` (generated from /repo/path_intersection.go) keeps an edge
  exactly when the region algebra of the L3 specification changes across it;
* the winding bookkeeping of `computeSweepFields`, folded up any column, yields the signed crossing
  sums per polygon (induction over columns of any height);
* the laws of the specification itself (reversal, start vertex, additivity, translation, dyadic
  rescaling; commutativity and idempotence of the region operations).
Not proved (refined against the specification by the correspondence run): event order, snap
rounding, segment break-up, contour tracing. -/
namespace C01
open Canvas GenK Canvas.Wn

def ruleOf : Wn.Rule → Int
  | .nonZero => NonZero | .evenOdd => EvenOdd | .positive => Positive | .negative => Negative

def opOf : Wn.Op → Int
  | .and => opAND | .or => opOR | .not => opNOT | .xor => opXOR | .div => opDIV

theorem tmod2 (w : Int) : (w.tmod 2 = 0) ↔ (w % 2 = 0) := by
  rw [← Int.dvd_iff_tmod_eq_zero, Int.dvd_iff_emod_eq_zero]

/-- The library's `FillRule.Fills` is the specification's fill rule. -/
theorem fills_agrees (r : Wn.Rule) (w : Int) : FillRule.Fills (ruleOf r) w = r.fills w := by
  cases r <;> simp [FillRule.Fills, ruleOf, Wn.Rule.fills, NonZero, EvenOdd, Positive, Negative, tmod2]

/-- windings (subject, clipping) just below / just above a closed segment -/
def below (s : SweepPoint ℚ) : Int × Int :=
  if s.clipping then (s.otherWindings, s.windings) else (s.windings, s.otherWindings)
def above (s : SweepPoint ℚ) : Int × Int :=
  if s.clipping then (s.otherWindings + s.otherSelfWindings, s.windings + s.selfWindings)
  else (s.windings + s.selfWindings, s.otherWindings + s.otherSelfWindings)

/-- AND/OR/NOT/XOR: a closed segment is kept iff `regionOp` differs on its two sides. -/
theorem inResult_iff_boundary (s : SweepPoint ℚ) (op : Wn.Op) (hop : op ≠ .div) (r : Wn.Rule)
    (hs : s.open_ = false) :
    SweepPoint.InResult s (opOf op) (ruleOf r) =
      if regionOp op (r.fills (below s).1) (r.fills (below s).2)
          ≠ regionOp op (r.fills (above s).1) (r.fills (above s).2) then 1 else 0 := by
  obtain ⟨clipping, open_, osw, ow, sw, w⟩ := s
  simp only at hs
  subst hs
  cases clipping <;> cases op <;>
    simp_all [SweepPoint.InResult, fills_agrees, below, above, opOf, opAND, opOR, opNOT, opXOR, opSettle, regionOp] <;>
    (cases r.fills w <;> cases r.fills ow <;> cases r.fills (w + sw) <;> cases r.fills (ow + osw) <;> decide)

/-- DIV: the value is the number of subject-filled sides (0, 1 or 2). -/
theorem inResult_div (s : SweepPoint ℚ) (r : Wn.Rule) (hs : s.open_ = false) :
    SweepPoint.InResult s opDIV (ruleOf r) =
      (if r.fills (below s).1 then 1 else 0) + (if r.fills (above s).1 then 1 else 0) := by
  obtain ⟨clipping, open_, osw, ow, sw, w⟩ := s
  simp only at hs
  subst hs
  cases clipping <;>
    simp_all [SweepPoint.InResult, fills_agrees, below, above, opSettle, opDIV, opAND, opOR, opNOT, opXOR] <;>
    (cases r.fills w <;> cases r.fills ow <;> cases r.fills (w + sw) <;> cases r.fills (ow + osw) <;> decide)

/-- Open subject segments: kept for Settle/OR/DIV; for AND iff the clipping path fills a side;
for NOT/XOR iff the clipping path leaves a side unfilled. -/
theorem inResult_open (s : SweepPoint ℚ) (op : Wn.Op) (r : Wn.Rule) (hs : s.open_ = true) :
    SweepPoint.InResult s (opOf op) (ruleOf r) =
      match op with
      | .or | .div => 1
      | .and => if r.fills (below s).2 ∨ r.fills (above s).2 then 1 else 0
      | .not | .xor => if ¬ r.fills (below s).2 ∨ ¬ r.fills (above s).2 then 1 else 0 := by
  obtain ⟨clipping, open_, osw, ow, sw, w⟩ := s
  simp only at hs
  subst hs
  cases clipping <;> cases op <;>
    simp_all [SweepPoint.InResult, fills_agrees, below, above, opOf, opAND, opOR, opNOT, opXOR, opSettle, opDIV]

/-- Folding `computeSweepFields` up ANY column gives every segment the signed crossing sums of
the non-vertical segments below it: own polygon in `windings`, the other in `otherWindings`. -/
theorem sweep_windings_are_crossing_sums (col : List C01.Seg) (pre below : List (C01.Seg × C01.Fields))
    (s : C01.Seg) (f : C01.Fields) (h : C01.foldColumn col = pre ++ (s, f) :: below) :
    (f.w, f.ow) = C01.expected s (C01.sums below) := by
  have := C01.good_foldColumn col
  rw [h] at this
  exact C01.good_at pre s f below this

/-! ## laws of the specification -/

theorem spec_reverse_negates (p : IPt) (polys : List (List IPt)) :
    wn p (polys.map List.reverse) = - wn p polys := wn_reverse p polys

theorem spec_start_vertex_irrelevant (p a : IPt) (l : List IPt) : wn1 p (l ++ [a]) = wn1 p (a :: l) :=
  wn1_rotate p a l

theorem spec_additive (p : IPt) (a b : List (List IPt)) : wn p (a ++ b) = wn p a + wn p b :=
  wn_append p a b

theorem spec_translation_invariant (p t : IPt) (poly : List IPt) :
    wn1 (p.add t) (poly.map (·.add t)) = wn1 p poly := wn1_translate p t poly

/-- the integer decoding of dyadic rationals at a common exponent is faithful -/
theorem spec_rescaling_invariant (k : Int) (hk : 0 < k) (p : IPt) (poly : List IPt) :
    wn1 (IPt.smul k p) (poly.map (IPt.smul k)) = wn1 p poly := wn1_smul k hk p poly

/-- region algebra: commutativity of AND/OR/XOR, idempotence (P op P), and the NonZero reading of
a reversed path (|w| ≠ 0 ↔ |-w| ≠ 0). -/
theorem regionOp_comm (op : Wn.Op) (h : op = .and ∨ op = .or ∨ op = .xor) (a b : Bool) :
    regionOp op a b = regionOp op b a := by
  rcases h with h | h | h <;> subst h <;> cases a <;> cases b <;> rfl

theorem regionOp_self (a : Bool) :
    regionOp .and a a = a ∧ regionOp .or a a = a ∧ regionOp .xor a a = false ∧ regionOp .not a a = false := by
  cases a <;> simp [regionOp]

theorem nonzero_fill_reverse (w : Int) : Wn.Rule.nonZero.fills (-w) = Wn.Rule.nonZero.fills w := by
  simp [Wn.Rule.fills]

/-- inclusion–exclusion at a point: the indicator of OR plus that of AND equals the sum of the
operands' indicators (integrating it gives the area law checked on the implementation). -/
theorem inclusion_exclusion (a b : Bool) :
    (if regionOp .or a b then 1 else 0) + (if regionOp .and a b then 1 else 0)
      = (if a then 1 else 0) + (if b then (1 : Int) else 0) := by
  cases a <;> cases b <;> rfl

/-- non-vacuity: a closed segment with different fills on both sides exists and is kept by OR -/
example : SweepPoint.InResult (⟨false, false, 0, 0, 1, 0⟩ : SweepPoint ℚ) opOR NonZero = 1 := by decide

example : C01.foldColumn [⟨false, false, true, false⟩, ⟨true, true, true, false⟩, ⟨false, false, false, false⟩]
    = [(⟨false, false, false, false⟩, ⟨1, 0, -1, 0⟩), (⟨true, true, true, false⟩, ⟨0, 1, 1, 0⟩),
       (⟨false, false, true, false⟩, ⟨0, 0, 1, 0⟩)] := by decide

end C01
