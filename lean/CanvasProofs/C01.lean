import CanvasGen.SweepK
import CanvasModel.Wn
import CanvasProofs.Lemmas.Wn
import CanvasProofs.Lemmas.C01Column
import CanvasProofs.Lemmas.C01Avl
import CanvasProofs.Lemmas.C01Heap
import CanvasProofs.Lemmas.C01Cmp
import CanvasProofs.Lemmas.C01Merge
import CanvasProofs.Lemmas.C01Split

/-! # C01 — Boolean path operations compute the set algebra of the filled regions (partial)

Proved here, for all inputs:
* the decision `SweepPoint.InResult` (generated from /repo/path_intersection.go) keeps an edge
  exactly when the region algebra of the L3 specification changes across it;
* the winding bookkeeping of `computeSweepFields`, folded up any column, yields the signed crossing
  sums per polygon (induction over columns of any height);
* the laws of the specification itself (reversal, start vertex, additivity, translation, dyadic
  rescaling; commutativity and idempotence of the region operations).
Not proved (refined against the specification by the correspondence run): event order, snap
rounding, segment break-up, contour tracing. -/
namespace C01
open Canvas GenK Canvas.Wn

def ruleOf : Wn.Rule → Int
  | .nonZero => NonZero | .evenOdd => EvenOdd | .positive => Positive | .negative => Negative

def opOf : Wn.Op → Int
  | .and => opAND | .or => opOR | .not => opNOT | .xor => opXOR | .div => opDIV

theorem tmod2 (w : Int) : (w.tmod 2 = 0) ↔ (w % 2 = 0) := by
  rw [← Int.dvd_iff_tmod_eq_zero, Int.dvd_iff_emod_eq_zero]

/-- The library's `FillRule.Fills` is the specification's fill rule. -/
theorem fills_agrees (r : Wn.Rule) (w : Int) : FillRule.Fills (ruleOf r) w = r.fills w := by
  cases r <;> simp [FillRule.Fills, ruleOf, Wn.Rule.fills, NonZero, EvenOdd, Positive, Negative, tmod2]

/-- windings (subject, clipping) just below / just above a closed segment -/
def below (s : SweepPoint ℚ) : Int × Int :=
  if s.clipping then (s.otherWindings, s.windings) else (s.windings, s.otherWindings)
def above (s : SweepPoint ℚ) : Int × Int :=
  if s.clipping then (s.otherWindings + s.otherSelfWindings, s.windings + s.selfWindings)
  else (s.windings + s.selfWindings, s.otherWindings + s.otherSelfWindings)

/-- AND/OR/NOT/XOR: a closed segment is kept iff `regionOp` differs on its two sides. -/
theorem inResult_iff_boundary (s : SweepPoint ℚ) (op : Wn.Op) (hop : op ≠ .div) (r : Wn.Rule)
    (hs : s.open_ = false) :
    SweepPoint.InResult s (opOf op) (ruleOf r) =
      if regionOp op (r.fills (below s).1) (r.fills (below s).2)
          ≠ regionOp op (r.fills (above s).1) (r.fills (above s).2) then 1 else 0 := by
  obtain ⟨clipping, open_, osw, ow, sw, w⟩ := s
  simp only at hs
  subst hs
  cases clipping <;> cases op <;>
    simp_all [SweepPoint.InResult, fills_agrees, below, above, opOf, opAND, opOR, opNOT, opXOR, opSettle, regionOp] <;>
    (cases r.fills w <;> cases r.fills ow <;> cases r.fills (w + sw) <;> cases r.fills (ow + osw) <;> decide)

/-- DIV: the value is the number of subject-filled sides (0, 1 or 2). -/
theorem inResult_div (s : SweepPoint ℚ) (r : Wn.Rule) (hs : s.open_ = false) :
    SweepPoint.InResult s opDIV (ruleOf r) =
      (if r.fills (below s).1 then 1 else 0) + (if r.fills (above s).1 then 1 else 0) := by
  obtain ⟨clipping, open_, osw, ow, sw, w⟩ := s
  simp only at hs
  subst hs
  cases clipping <;>
    simp_all [SweepPoint.InResult, fills_agrees, below, above, opSettle, opDIV, opAND, opOR, opNOT, opXOR] <;>
    (cases r.fills w <;> cases r.fills ow <;> cases r.fills (w + sw) <;> cases r.fills (ow + osw) <;> decide)

/-- Open subject segments: kept for Settle/OR/DIV; for AND iff the clipping path fills a side;
for NOT/XOR iff the clipping path leaves a side unfilled. -/
theorem inResult_open (s : SweepPoint ℚ) (op : Wn.Op) (r : Wn.Rule) (hs : s.open_ = true) :
    SweepPoint.InResult s (opOf op) (ruleOf r) =
      match op with
      | .or | .div => 1
      | .and => if r.fills (below s).2 ∨ r.fills (above s).2 then 1 else 0
      | .not | .xor => if ¬ r.fills (below s).2 ∨ ¬ r.fills (above s).2 then 1 else 0 := by
  obtain ⟨clipping, open_, osw, ow, sw, w⟩ := s
  simp only at hs
  subst hs
  cases clipping <;> cases op <;>
    simp_all [SweepPoint.InResult, fills_agrees, below, above, opOf, opAND, opOR, opNOT, opXOR, opSettle, opDIV]

/-- Folding `computeSweepFields` up ANY column gives every segment the signed crossing sums of
the non-vertical segments below it: own polygon in `windings`, the other in `otherWindings`. -/
theorem sweep_windings_are_crossing_sums (col : List C01.Seg) (pre below : List (C01.Seg × C01.Fields))
    (s : C01.Seg) (f : C01.Fields) (h : C01.foldColumn col = pre ++ (s, f) :: below) :
    (f.w, f.ow) = C01.expected s (C01.sums below) := by
  have := C01.good_foldColumn col
  rw [h] at this
  exact C01.good_at pre s f below this

/-! ## laws of the specification -/

theorem spec_reverse_negates (p : IPt) (polys : List (List IPt)) :
    wn p (polys.map List.reverse) = - wn p polys := wn_reverse p polys

theorem spec_start_vertex_irrelevant (p a : IPt) (l : List IPt) : wn1 p (l ++ [a]) = wn1 p (a :: l) :=
  wn1_rotate p a l

theorem spec_additive (p : IPt) (a b : List (List IPt)) : wn p (a ++ b) = wn p a + wn p b :=
  wn_append p a b

theorem spec_translation_invariant (p t : IPt) (poly : List IPt) :
    wn1 (p.add t) (poly.map (·.add t)) = wn1 p poly := wn1_translate p t poly

/-- the integer decoding of dyadic rationals at a common exponent is faithful -/
theorem spec_rescaling_invariant (k : Int) (hk : 0 < k) (p : IPt) (poly : List IPt) :
    wn1 (IPt.smul k p) (poly.map (IPt.smul k)) = wn1 p poly := wn1_smul k hk p poly

/-- region algebra: commutativity of AND/OR/XOR, idempotence (P op P), and the NonZero reading of
a reversed path (|w| ≠ 0 ↔ |-w| ≠ 0). -/
theorem regionOp_comm (op : Wn.Op) (h : op = .and ∨ op = .or ∨ op = .xor) (a b : Bool) :
    regionOp op a b = regionOp op b a := by
  rcases h with h | h | h <;> subst h <;> cases a <;> cases b <;> rfl

theorem regionOp_self (a : Bool) :
    regionOp .and a a = a ∧ regionOp .or a a = a ∧ regionOp .xor a a = false ∧ regionOp .not a a = false := by
  cases a <;> simp [regionOp]

theorem nonzero_fill_reverse (w : Int) : Wn.Rule.nonZero.fills (-w) = Wn.Rule.nonZero.fills w := by
  simp [Wn.Rule.fills]

/-- inclusion–exclusion at a point: the indicator of OR plus that of AND equals the sum of the
operands' indicators (integrating it gives the area law checked on the implementation). -/
theorem inclusion_exclusion (a b : Bool) :
    (if regionOp .or a b then 1 else 0) + (if regionOp .and a b then 1 else 0)
      = (if a then 1 else 0) + (if b then (1 : Int) else 0) := by
  cases a <;> cases b <;> rfl

/-- non-vacuity: a closed segment with different fills on both sides exists and is kept by OR -/
example : SweepPoint.InResult (⟨false, false, 0, 0, 1, 0⟩ : SweepPoint ℚ) opOR NonZero = 1 := by decide

example : C01.foldColumn [⟨false, false, true, false⟩, ⟨true, true, true, false⟩, ⟨false, false, false, false⟩]
    = [(⟨false, false, false, false⟩, ⟨1, 0, -1, 0⟩), (⟨true, true, true, false⟩, ⟨0, 1, 1, 0⟩),
       (⟨false, false, true, false⟩, ⟨0, 0, 1, 0⟩)] := by decide

/-! # Second wave: the sweep-line data structures of path_intersection.go

Each model below is tied to the real code by line-protocol correspondence through the hooks of
/repo/verif_hooks_c01b*.go (tags AVLI/AVLR/AVLQ, HEAP, CMP, MRG of the C01 driver). -/

/-! ## (A) `SweepStatus`: the AVL tree (model `Canvas.C01Avl`) -/
section Avl
open Canvas.C01Avl Canvas.C01Avl.Tree

/-- `rotateLeft` keeps the in-order sequence (bottom-to-top order of the status) -/
theorem avl_rotateLeft_inorder (t t' : Tree) (h : rotL t = some t') : t'.toList = t.toList :=
  rotL_toList h

/-- `rotateRight` keeps the in-order sequence -/
theorem avl_rotateRight_inorder (t t' : Tree) (h : rotR t = some t') : t'.toList = t.toList :=
  rotR_toList h

/-- the loop body of `rebalance` (single or double rotation + height updates) keeps the in-order
sequence — on ANY tree, balanced or not -/
theorem avl_rebalance_inorder (t t' : Tree) (h : step t = some t') : t'.toList = t.toList :=
  step_toList h

/-- `InsertAfter(node k-1, x)` on a tree satisfying the invariant does not panic, puts `x`
directly after element `k-1` of the in-order sequence and re-establishes the invariant -/
theorem avl_insertAfter (t : Tree) (k x : Nat) (hk : k ≤ t.size) (i : Inv t) :
    ∃ t', insertAt t k x = some t' ∧ Inv t' ∧
      t'.toList = t.toList.take k ++ x :: t.toList.drop k :=
  insertAt_spec t k x hk i

/-- `Remove(node k)` does not panic, deletes exactly element `k` and re-establishes the invariant -/
theorem avl_remove (t : Tree) (k : Nat) (hk : k < t.size) (i : Inv t) :
    ∃ t', remove t k = some t' ∧ Inv t' ∧ t'.toList = t.toList.eraseIdx k := by
  obtain ⟨t', e, i', el, _⟩ := rem_spec t k hk i
  exact ⟨t', e, i', el⟩

/-- For EVERY history of InsertAfter/Remove calls starting from the empty status: no call panics
(neither "Tree too far out of shape!" nor a nil dereference), the invariant holds afterwards, and
the in-order sequence is the one obtained by performing the same history on a plain list. -/
theorem avl_no_panic_any_history (ops : List Canvas.C01Avl.Op) :
    ∃ t, run .nil ops = some t ∧ Inv t ∧ t.toList = runSpec [] ops :=
  run_spec ops .nil trivial

/-- the invariant means: every node is AVL balanced w.r.t. TRUE heights (|balance| ≤ 1) … -/
theorem avl_invariant_balanced (t : Tree) (i : Inv t) : Balanced t := inv_balanced i

/-- … and every stored height below the root is the true height (the root's own stored height may
be stale, see `avl_root_height_can_be_stale`) -/
theorem avl_stored_heights_correct (l r : Tree) (x h : Nat) (i : Inv (.node l x h r)) :
    Good l ∧ Good r ∧ l.ht = realHt l ∧ r.ht = realHt r :=
  ⟨i.1, i.2.1, good_ht_real i.1, good_ht_real i.2.1⟩

/-- hence `balance()` never leaves [-1,1] before an operation and the loop body of `rebalance` meets
|balance| ≤ 2 only: on a node with good subtrees whose heights differ by at most 2 it succeeds -/
theorem avl_rebalance_total (l r : Tree) (x h : Nat) (gl : Good l) (gr : Good r)
    (h1 : l.ht ≤ r.ht + 2) (h2 : r.ht ≤ l.ht + 2) : ∃ t', step (.node l x h r) = some t' ∧ Good t' := by
  obtain ⟨t', e, g, _⟩ := step_spec l r x h gl gr h1 h2
  exact ⟨t', e, g⟩

/-- re-running the loop body on an already good node changes nothing: Go's overlapping
`for ancestor … { s.rebalance(ancestor) }` passes equal one pass up the spine -/
theorem avl_rebalance_idempotent (l r : Tree) (x h : Nat) (g : Good (.node l x h r)) :
    step (.node l x h r) = some (.node l x h r) := step_noop_on_good l r x h g

/-- a reachable status whose ROOT stores a stale height (hanging a child under a leaf root skips
`n.height++` because of `&& n.parent != nil`); harmless, since the root's height is never read
before it is recomputed — but "all stored heights are correct" is false as stated -/
theorem avl_root_height_can_be_stale :
    ∃ ops t, run .nil ops = some t ∧ ¬ Good t := by
  refine ⟨[.ins 0 1, .ins 1 2], .node .nil 1 1 (leaf 2), by decide, ?_⟩
  simp [Good, leaf, ht]

/-- `First`/`Last` are the ends of the in-order sequence -/
theorem avl_first_last (t : Tree) : first t = t.toList.head? ∧ last t = t.toList.getLast? :=
  ⟨first_spec t, last_spec t⟩

/-- `Next()` is the in-order successor -/
theorem avl_next_is_successor (t : Tree) (k : Nat) (hk : k < t.size) :
    nextIn t k = t.toList[k + 1]? := nextIn_spec t k hk

/-- `Prev()` is the in-order predecessor (nil for the first element) -/
theorem avl_prev_is_predecessor (t : Tree) (k : Nat) (hk : k < t.size) :
    prevIn t k = if k = 0 then none else t.toList[k - 1]? := prevIn_spec t k hk

/-- non-vacuity: a sorted insertion run that forces a left rotation; a removal with two children -/
example : run .nil [.ins 0 1, .ins 1 2, .ins 2 3] = some (.node (leaf 1) 2 2 (leaf 3)) := by decide
example : run .nil [.ins 0 1, .ins 1 2, .ins 2 3, .del 1] = some (.node (leaf 1) 3 2 .nil) := by decide

end Avl

/-! ## (B) `SweepEvents`: the binary heap (model `Canvas.C01Heap`), for any strict weak order -/
section Heap
open Canvas.C01Heap
variable {α : Type} {less : α → α → Bool}

/-- `Init` turns ANY array into a heap -/
theorem heap_init_establishes (sw : StrictWeak less) (a : Array α) : IsHeap less (init less a) :=
  heap_init sw a

theorem heap_push_preserves (sw : StrictWeak less) (a : Array α) (x : α) (h : IsHeap less a) :
    IsHeap less (push less a x) := heap_push sw a x h

theorem heap_pop_preserves (sw : StrictWeak less) (a : Array α) (m : α) (b : Array α)
    (h : IsHeap less a) (hp : pop less a = some (m, b)) : IsHeap less b := heap_pop sw a m b h hp

/-- `q[i] = x; q.Fix(i)` restores the heap for an arbitrary new key -/
theorem heap_fix_preserves (sw : StrictWeak less) (a : Array α) (i : Nat) (x : α) (b : Array α)
    (h : IsHeap less a) (hf : setFix less a i x = some b) : IsHeap less b := heap_fix sw a i x b h hf

/-- `Pop` returns a `less`-minimal element of the queue -/
theorem heap_pop_min (sw : StrictWeak less) (a : Array α) (m : α) (b : Array α)
    (h : IsHeap less a) (hp : pop less a = some (m, b)) : m ∈ a ∧ ∀ x ∈ a, less x m = false :=
  Canvas.C01Heap.heap_pop_min sw a m b h hp

theorem heap_top_min (sw : StrictWeak less) (a : Array α) (m : α)
    (h : IsHeap less a) (ht : top a = some m) : m ∈ a ∧ ∀ x ∈ a, less x m = false :=
  Canvas.C01Heap.heap_top_min sw a m h ht

/-- no event is lost or duplicated: the operations permute the multiset of queued events -/
theorem heap_multiset_preserved (a : Array α) (x m : α) (b : Array α) (i : Nat) :
    (push less a x).toList.Perm (x :: a.toList) ∧
    (pop less a = some (m, b) → a.toList.Perm (m :: b.toList)) ∧
    (setFix less a i x = some b → b.toList.Perm (a.toList.set i x)) ∧
    (init less a).toList.Perm a.toList :=
  ⟨heap_perm_push less a x, heap_perm_pop less a m b, heap_perm_fix less a i x b, heap_perm_init less a⟩

/-- `Pop`/`Top` panic exactly on the empty queue, `Fix` exactly out of range -/
theorem heap_panics_characterised (a : Array α) (i : Nat) (x : α) :
    ((pop less a).isSome ↔ 0 < a.size) ∧ ((setFix less a i x).isSome ↔ i < a.size) :=
  ⟨pop_isSome less a, setFix_isSome less a i x⟩

/-- After `Init` on any array and ANY history of push/pop/fix: the queue is a heap and every pop
returned a minimal element of the queue it was applied to. -/
theorem heap_any_history (sw : StrictWeak less) (a0 : Array α) (ops : List (Canvas.C01Heap.Op α))
    (c : Array α) (recs : List (PopRec α)) (hr : Canvas.C01Heap.run less (init less a0) ops = some (c, recs)) :
    IsHeap less c ∧
    ∀ r ∈ recs, IsHeap less r.before ∧ r.popped ∈ r.before ∧ ∀ x ∈ r.before, less x r.popped = false :=
  heap_history sw a0 ops c recs hr

example : StrictWeak ltInt := strictWeak_ltInt

end Heap

/-! ## (C) the comparators (model `Canvas.C01Cmp`), over any linearly ordered field with exact
`InterpolateY` -/
section Cmp
open Canvas.C01Cmp
variable {K : Type} [Field K] [LinearOrder K]

omit [Field K] [LinearOrder K] in
theorem compareOverlaps_antisymm (a b : SP K) : compareOverlapsV b a = - compareOverlapsV a b :=
  compareOverlapsV_antisymm a b

omit [Field K] [LinearOrder K] in
/-- `compareOverlapsV` is a total three-way comparison of (clipping, segment): values in {-1,0,1}
and 0 exactly for the same path and segment index -/
theorem compareOverlaps_total (a b : SP K) :
    (compareOverlapsV a b = -1 ∨ compareOverlapsV a b = 0 ∨ compareOverlapsV a b = 1) ∧
    (compareOverlapsV a b = 0 ↔ a.clipping = b.clipping ∧ a.segment = b.segment) :=
  ⟨compareOverlapsV_range a b, compareOverlapsV_eq_zero_iff a b⟩

/-- `compareTangentsV` is antisymmetric for endpoints of the same kind (`WF`: the vertical flag is
set iff x = other.x) -/
theorem compareTangents_antisymm (a b : SP K) (hl : a.left = b.left) (ha : WF a) (hb : WF b) :
    compareTangentsV b a = - compareTangentsV a b := compareTangentsV_antisymm a b hl ha hb

/-- `CompareH b a = −CompareH a b` -/
theorem cmp_antisymm (a b : SP K) (ha : WF a) (hb : WF b) : compareH b a = - compareH a b :=
  compareH_antisymm a b ha hb

/-- `LessH a b ↔ CompareH a b < 0` (the queue order and the sort order agree) -/
theorem lessH_iff_compareH_neg (a b : SP K) : lessH a b = true ↔ compareH a b < 0 :=
  Canvas.C01Cmp.lessH_iff_compareH_neg a b

/-- `LessH` is irreflexive and asymmetric (transitivity is NOT proved, see the evidence) -/
theorem lessH_strict (a b : SP K) (ha : WF a) (hb : WF b) :
    lessH a a = false ∧ (lessH a b = true → lessH b a = false) :=
  ⟨lessH_irrefl a, lessH_asymm a b ha hb⟩

/-- `CompareV` is antisymmetric under its documented precondition `CompareVPre` (both left
endpoints, well-formed flags, compared at max(a.x, b.x) inside both x-ranges) -/
theorem compareV_antisymm (a b : SP K) (h : CompareVPre a b) : CompareV b a = - CompareV a b :=
  CompareV_antisymm a b h

/-- meaning of `CompareV`: the sign of the difference of the exact y-values at max(a.x, b.x);
ties are broken by `compareTangentsV` -/
theorem compareV_orders_by_y (a b : SP K) :
    (yAt a (max a.x b.x) < yAt b (max a.x b.x) → CompareV a b = -1) ∧
    (yAt b (max a.x b.x) < yAt a (max a.x b.x) → CompareV a b = 1) ∧
    (yAt a (max a.x b.x) = yAt b (max a.x b.x) →
      CompareV a b = if a.x < b.x then - compareTangentsV b a else compareTangentsV a b) :=
  CompareV_spec_y a b

end Cmp

/-! ## (D) `mergeOverlapping` over a run of coincident segments (model `Canvas.C01Merge`) -/
section Merge
open Canvas.C01Merge

/-- `mergeOverlapping` leaves the crossing sums of `sweep_windings_are_crossing_sums` unchanged for
every segment above the run (the sums over the receiver and everything below it are the same
before and after), given that coincident segments agree on being vertical -/
theorem merge_preserves_sums (s : Ent) (below : List Ent)
    (hv : ∀ p ∈ below, p.geom = s.geom → p.seg.vertical = s.seg.vertical) :
    C01.sums (pairs ((merge s below).s :: (merge s below).below)) = C01.sums (pairs (s :: below)) :=
  merge_sums s below hv

/-- the absorbed segments are zeroed and marked `overlapped`; the chain below them is untouched -/
theorem merge_zeroes_absorbed (s : Ent) (below : List Ent) (ht : (merge s below).touched = true) :
    (merge s below).below = (absorb s below).2.1 ++ (absorb s below).2.2 ∧
    (∀ e ∈ (absorb s below).2.1, e.f = zeroF ∧ e.overlapped = true) ∧
    ∃ pre, below = pre ++ (absorb s below).2.2 ∧ pre.length = (absorb s below).2.1.length :=
  merge_below s below ht

/-- the receiver's recomputed windings are the crossing sums of what lies below it, provided the
first segment that was not absorbed is correct and NOT vertical (`mergeOverlapping` does not skip
vertical segments as `computeSweepFields` does) -/
theorem merge_receiver_windings (s : Ent) (below : List Ent) (ht : (merge s below).touched = true)
    (hp : ∀ p rest', (absorb s below).2.2 = p :: rest' →
      p.seg.vertical = false ∧ (p.f.w, p.f.ow) = C01.expected p.seg (C01.sums (pairs rest'))) :
    ((merge s below).s.f.w, (merge s below).s.f.ow)
      = C01.expected (merge s below).s.seg (C01.sums (pairs (merge s below).below)) :=
  merge_fields_expected s below ht hp

/-- 51f64dd: after `mergeOverlapping` the receiver is open only if it was open and every absorbed
segment was open — an open segment that lies on a closed segment disappears in it, not the other
way round (an equivalence whenever segments were absorbed); clipping / vertical / increasing of the
receiver never change -/
theorem merge_open_on_closed (s : Ent) (below : List Ent) :
    ((merge s below).s.seg.open_ = true → s.seg.open_ = true) ∧
    ((merge s below).touched = true →
      ((merge s below).s.seg.open_ = true ↔
        s.seg.open_ = true ∧ ∀ e ∈ (absorb s below).2.1, e.seg.open_ = true)) ∧
    (merge s below).s.seg.clipping = s.seg.clipping ∧ (merge s below).s.seg.vertical = s.seg.vertical ∧
    (merge s below).s.seg.increasing = s.seg.increasing :=
  merge_open s below

/-- non-vacuity: an open receiver on a closed coincident segment comes out closed -/
example : (merge ⟨⟨false, false, true, true⟩, 0, false, ⟨0, 0, 0, 0⟩⟩
    [⟨⟨false, false, true, false⟩, 0, false, ⟨0, 0, 1, 0⟩⟩]).s.seg.open_ = false := by decide

end Merge

namespace Split
open Canvas.C01Split Canvas.Wn

/-- `addIntersections` raises its flag (on which `bentleyOttmann` re-sorts the events of the square)
exactly when `splitAtIntersections` pushed new events onto the queue: whenever EITHER segment was
split -/
theorem resort_flag_iff_events_pushed (aIn bIn : Bool) (zs : List IPt) (a0 a1 b0 b1 : IPt) :
    addRet aIn bIn zs a0 a1 b0 b1 = true ↔ 0 < pushed aIn bIn zs a0 a1 b0 b1 :=
  addRet_iff_pushed aIn bIn zs a0 a1 b0 b1

/-- a one-sided split (T-junction, or the second of two coincident segments cut by a third) is
reported -/
theorem resort_flag_of_one_sided_split (aIn bIn : Bool) (zs : List IPt) (a0 a1 b0 b1 : IPt)
    (h : 0 < splits aIn (keepZ aIn bIn a0 b0 zs).reverse a0 a1 ∨ 0 < splits bIn (keepZ aIn bIn a0 b0 zs).reverse b0 b1) :
    addRet aIn bIn zs a0 a1 b0 b1 = true :=
  addRet_of_one_sided aIn bIn zs a0 a1 b0 b1 h

/-- events come in pairs (the two end points created by a split) -/
theorem pushed_events_even (aIn bIn : Bool) (zs : List IPt) (a0 a1 b0 b1 : IPt) :
    pushed aIn bIn zs a0 a1 b0 b1 % 2 = 0 :=
  pushed_even aIn bIn zs a0 a1 b0 b1

/-- a segment that is in the sweep status is never split directly below its left end point -/
theorem status_segment_not_split_below_left_end (zs : List IPt) (s0 s1 : IPt)
    (h : ∀ z ∈ zs, z.x = s0.x ∧ z.y < s0.y) : splits true zs s0 s1 = 0 :=
  no_split_below_left_end zs s0 s1 h

end Split

end C01
