import CanvasGen.CoreK
import CanvasGen.BezierK
import Mathlib.Tactic.Ring
import Mathlib.Tactic.FieldSimp
import Mathlib.Tactic.Linarith
import Mathlib.Tactic.Positivity

/-! # C07 — Matrix algebra and affine images of Bézier segments
All definitions are the *generated* translations of /repo/util.go and /repo/path_util.go
(`GenK`), over an arbitrary linearly ordered field `K`. -/
set_option linter.unusedSectionVars false
namespace C07
open Canvas GenK
variable {K : Type} [Field K] [LinearOrder K] [IsStrictOrderedRing K] [Env K]

def ident : Mat K := Mat.mk 1 0 0 0 1 0

theorem mul_assoc (m q r : Mat K) : Matrix.Mul (Matrix.Mul m q) r = Matrix.Mul m (Matrix.Mul q r) := by
  simp only [Matrix.Mul]; congr 1 <;> ring

theorem identity_mul (m : Mat K) : Matrix.Mul ident m = m := by
  cases m; simp [Matrix.Mul, ident]

theorem mul_identity (m : Mat K) : Matrix.Mul m ident = m := by
  cases m; simp [Matrix.Mul, ident]

/-- Mul composes right-to-left: (m·q)·p = m·(q·p). -/
theorem dot_mul (m q : Mat K) (p : Pt K) : Matrix.Dot (Matrix.Mul m q) p = Matrix.Dot m (Matrix.Dot q p) := by
  simp only [Matrix.Mul, Matrix.Dot]; congr 1 <;> ring

theorem det_mul (m q : Mat K) : Matrix.Det (Matrix.Mul m q) = Matrix.Det m * Matrix.Det q := by
  simp only [Matrix.Mul, Matrix.Det]; ring

theorem inv_mul (m : Mat K) (h : Matrix.Det m ≠ 0) : Matrix.Mul (Matrix.Inv m) m = ident := by
  cases m with | mk a b c d e f =>
  simp only [Matrix.Det] at h
  simp only [Matrix.Mul, Matrix.Inv, Matrix.Det, ident]
  generalize hD : a * e - b * d = D at h ⊢
  congr 1 <;> field_simp <;> rw [← hD] <;> ring

theorem mul_inv (m : Mat K) (h : Matrix.Det m ≠ 0) : Matrix.Mul m (Matrix.Inv m) = ident := by
  cases m with | mk a b c d e f =>
  simp only [Matrix.Det] at h
  simp only [Matrix.Mul, Matrix.Inv, Matrix.Det, ident]
  generalize hD : a * e - b * d = D at h ⊢
  congr 1 <;> field_simp <;> rw [← hD] <;> ring

/-- Inv inverts: applying m then Inv m returns every point. -/
theorem inv_dot (m : Mat K) (p : Pt K) (h : Matrix.Det m ≠ 0) : Matrix.Dot (Matrix.Inv m) (Matrix.Dot m p) = p := by
  rw [← dot_mul, inv_mul m h]; cases p; simp [Matrix.Dot, ident]

theorem dot_inv (m : Mat K) (p : Pt K) (h : Matrix.Det m ≠ 0) : Matrix.Dot m (Matrix.Dot (Matrix.Inv m) p) = p := by
  rw [← dot_mul, mul_inv m h]; cases p; simp [Matrix.Dot, ident]

/-- T transposes the linear part and is an involution. -/
theorem T_T (m : Mat K) : Matrix.T (Matrix.T m) = m := by
  cases m; simp [Matrix.T]

theorem T_entries (m : Mat K) : (Matrix.T m).a = m.a ∧ (Matrix.T m).b = m.d ∧ (Matrix.T m).d = m.b ∧ (Matrix.T m).e = m.e := by
  cases m; simp [Matrix.T]

theorem det_T (m : Mat K) : Matrix.Det (Matrix.T m) = Matrix.Det m := by
  cases m; simp [Matrix.T, Matrix.Det]; ring

/-- the elementary transformations act on points as documented, and post-multiply -/
theorem translate_dot (m : Mat K) (x y : K) (p : Pt K) :
    Matrix.Dot (Matrix.Translate m x y) p = Matrix.Dot m (Pt.mk (p.x + x) (p.y + y)) := by
  simp only [Matrix.Translate, Matrix.Mul, Matrix.Dot]; congr 1 <;> ring

theorem scale_dot (m : Mat K) (sx sy : K) (p : Pt K) :
    Matrix.Dot (Matrix.Scale m sx sy) p = Matrix.Dot m (Pt.mk (sx * p.x) (sy * p.y)) := by
  simp only [Matrix.Scale, Matrix.Mul, Matrix.Dot]; congr 1 <;> ring

theorem shear_dot (m : Mat K) (sx sy : K) (p : Pt K) :
    Matrix.Dot (Matrix.Shear m sx sy) p = Matrix.Dot m (Pt.mk (p.x + sx * p.y) (sy * p.x + p.y)) := by
  simp only [Matrix.Shear, Matrix.Mul, Matrix.Dot]; congr 1 <;> ring

theorem reflectX_dot (m : Mat K) (p : Pt K) :
    Matrix.Dot (Matrix.ReflectX m) p = Matrix.Dot m (Pt.mk (-p.x) p.y) := by
  simp only [Matrix.ReflectX, Matrix.Scale, Matrix.Mul, Matrix.Dot]; congr 1 <;> ring

theorem reflectY_dot (m : Mat K) (p : Pt K) :
    Matrix.Dot (Matrix.ReflectY m) p = Matrix.Dot m (Pt.mk p.x (-p.y)) := by
  simp only [Matrix.ReflectY, Matrix.Scale, Matrix.Mul, Matrix.Dot]; congr 1 <;> ring

/-- `*About` variants fix their centre. -/
theorem scaleAbout_fixes (sx sy x y : K) :
    Matrix.Dot (Matrix.ScaleAbout ident sx sy x y) (Pt.mk x y) = Pt.mk x y := by
  simp only [Matrix.ScaleAbout, Matrix.Translate, Matrix.Scale, Matrix.Mul, Matrix.Dot, ident]; congr 1 <;> ring

theorem shearAbout_fixes (sx sy x y : K) :
    Matrix.Dot (Matrix.ShearAbout ident sx sy x y) (Pt.mk x y) = Pt.mk x y := by
  simp only [Matrix.ShearAbout, Matrix.Translate, Matrix.Shear, Matrix.Mul, Matrix.Dot, ident]; congr 1 <;> ring

theorem reflectXAbout_dot (x : K) (p : Pt K) :
    Matrix.Dot (Matrix.ReflectXAbout ident x) p = Pt.mk (2 * x - p.x) p.y := by
  simp only [Matrix.ReflectXAbout, Matrix.Translate, Matrix.Scale, Matrix.Mul, Matrix.Dot, ident]; congr 1 <;> ring

theorem reflectYAbout_dot (y : K) (p : Pt K) :
    Matrix.Dot (Matrix.ReflectYAbout ident y) p = Pt.mk p.x (2 * y - p.y) := by
  simp only [Matrix.ReflectYAbout, Matrix.Translate, Matrix.Scale, Matrix.Mul, Matrix.Dot, ident]; congr 1 <;> ring

/-- Affine maps commute with Bézier evaluation: the transformed control polygon traces exactly
the image of the segment, at the same parameter (so in the same direction). -/
theorem quad_bezier_affine (m : Mat K) (p0 p1 p2 : Pt K) (t : K) :
    quadraticBezierPos (Matrix.Dot m p0) (Matrix.Dot m p1) (Matrix.Dot m p2) t
      = Matrix.Dot m (quadraticBezierPos p0 p1 p2 t) := by
  simp only [quadraticBezierPos, Point.Mul, Point.Add, Matrix.Dot]; congr 1 <;> ring

theorem cube_bezier_affine (m : Mat K) (p0 p1 p2 p3 : Pt K) (t : K) :
    cubicBezierPos (Matrix.Dot m p0) (Matrix.Dot m p1) (Matrix.Dot m p2) (Matrix.Dot m p3) t
      = Matrix.Dot m (cubicBezierPos p0 p1 p2 p3 t) := by
  simp only [cubicBezierPos, Point.Mul, Point.Add, Matrix.Dot]; congr 1 <;> ring

theorem line_affine (m : Mat K) (p q : Pt K) (t : K) :
    Point.Interpolate (Matrix.Dot m p) (Matrix.Dot m q) t = Matrix.Dot m (Point.Interpolate p q t) := by
  simp only [Point.Interpolate, Matrix.Dot]; congr 1 <;> ring

/-- The sweep flag of an arc is flipped exactly for orientation-reversing maps: `Path.Transform`
tests `xscale*yscale < 0` with the scales of `Decompose`, and that product is the determinant
(for any `sqrt` with `sqrt(x)^2 = x` on non-negative arguments). -/
theorem decompose_scale_product (m : Mat K)
    (hs : ∀ x : K, 0 ≤ x → Env.sqrt x * Env.sqrt x = x) :
    (Matrix.Decompose m).2.2.2.1 * (Matrix.Decompose m).2.2.2.2.1 = Matrix.Det m := by
  cases m with | mk a b c d e f =>
  simp only [Matrix.Decompose, Matrix.Det]
  have h1 := hs (((a + e) / 2) * ((a + e) / 2) + ((d - b) / 2) * ((d - b) / 2)) (add_nonneg (mul_self_nonneg _) (mul_self_nonneg _))
  have h2 := hs (((a - e) / 2) * ((a - e) / 2) + ((d + b) / 2) * ((d + b) / 2)) (add_nonneg (mul_self_nonneg _) (mul_self_nonneg _))
  have : ∀ Q R : K, (Q + R) * (Q - R) = Q * Q - R * R := by intros; ring
  rw [this, h1, h2]; ring

/-- `Rect.Transform` returns a box containing the image of every point of the rectangle. -/
theorem rect_transform_contains (m : Mat K) (r : Rct K) (p : Pt K)
    (hx : r.x0 ≤ p.x ∧ p.x ≤ r.x1) (hy : r.y0 ≤ p.y ∧ p.y ≤ r.y1) :
    (Rect.Transform r m).x0 ≤ (Matrix.Dot m p).x ∧ (Matrix.Dot m p).x ≤ (Rect.Transform r m).x1 ∧
    (Rect.Transform r m).y0 ≤ (Matrix.Dot m p).y ∧ (Matrix.Dot m p).y ≤ (Rect.Transform r m).y1 := by
  obtain ⟨hx0, hx1⟩ := hx
  obtain ⟨hy0, hy1⟩ := hy
  simp only [Rect.Transform, Matrix.Dot]
  -- a bilinear form on a box is bounded by its corner values
  have key : ∀ (u v w : K), min (u * r.x0 + v * r.y0 + w) (min (u * r.x1 + v * r.y0 + w) (min (u * r.x1 + v * r.y1 + w) (u * r.x0 + v * r.y1 + w))) ≤ u * p.x + v * p.y + w
      ∧ u * p.x + v * p.y + w ≤ max (u * r.x0 + v * r.y0 + w) (max (u * r.x1 + v * r.y0 + w) (max (u * r.x1 + v * r.y1 + w) (u * r.x0 + v * r.y1 + w))) := by
    intro u v w
    rcases le_total 0 u with hu | hu <;> rcases le_total 0 v with hv | hv
    · constructor
      · exact (min_le_left _ _).trans (by nlinarith)
      · exact le_trans (by nlinarith) (le_max_of_le_right (le_max_of_le_right (le_max_left _ _)))
    · constructor
      · exact (min_le_of_right_le (min_le_of_right_le (min_le_right _ _))).trans (by nlinarith)
      · exact le_trans (by nlinarith) (le_max_of_le_right (le_max_left _ _))
    · constructor
      · exact (min_le_of_right_le (min_le_left _ _)).trans (by nlinarith)
      · exact le_trans (by nlinarith) (le_max_of_le_right (le_max_of_le_right (le_max_right _ _)))
    · constructor
      · exact (min_le_of_right_le (min_le_of_right_le (min_le_left _ _))).trans (by nlinarith)
      · exact le_trans (by nlinarith) (le_max_left _ _)
  exact ⟨(key m.a m.b m.c).1, (key m.a m.b m.c).2, (key m.d m.e m.f).1, (key m.d m.e m.f).2⟩

/-- non-vacuity: an invertible matrix exists and `inv_dot` applies to it -/
example : Matrix.Det (Mat.mk (2 : ℚ) 1 0 0 1 3) ≠ 0 := by simp [Matrix.Det]

end C07
