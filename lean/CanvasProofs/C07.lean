import CanvasGen.CoreK
import CanvasGen.BezierK
import CanvasProofs.Lemmas.C07Basics
import CanvasProofs.Lemmas.C07Eigen
import CanvasProofs.Lemmas.C07Arc
import CanvasProofs.Lemmas.C07Decompose
import CanvasProofs.Lemmas.C07Pred
import CanvasProofs.Lemmas.C07Form
import CanvasProofs.Lemmas.C07Svg
import CanvasProofs.Lemmas.C07Real
import Mathlib.Tactic.Ring
import Mathlib.Tactic.FieldSimp
import Mathlib.Tactic.Linarith
import Mathlib.Tactic.Positivity

/-! # C07 — Matrix algebra and affine images of Bézier segments
The first part is about the *generated* translations of /repo/util.go and /repo/path_util.go (`GenK`),
over an arbitrary linearly ordered field `K`. The second part (from `rotate_dot` on) is about the
hand-written model `Canvas.C07` (CanvasModel/C07.lean) of `Matrix.Rotate`, `solveQuadraticFormula`,
`Matrix.Eigen`, the ArcTo case and the loop of `Path.Transform`, and `Matrix.ToSVG`, instantiated with the
generated definitions (`C07.opsK`); that model is compared with the real functions on every run.
Hypotheses used: `Laws K` (CanvasProofs/Lemmas/C07Basics.lean: `sqrt(x)² = x` for `x ≥ 0`,
`hypot(x,y)² = x²+y²`, addition formulas, `atan2` is the angle of a vector, `π ≠ 0` — satisfied by the
real functions, `C07.lawsReal`) and, where stated, exact comparisons `Env.epsilon = 0`. -/
set_option linter.unusedSectionVars false
namespace C07
open Canvas GenK Canvas.C07
variable {K : Type} [Field K] [LinearOrder K] [IsStrictOrderedRing K] [Env K]

def ident : Mat K := Mat.mk 1 0 0 0 1 0

theorem mul_assoc (m q r : Mat K) : Matrix.Mul (Matrix.Mul m q) r = Matrix.Mul m (Matrix.Mul q r) := by
  simp only [Matrix.Mul]; congr 1 <;> ring

theorem identity_mul (m : Mat K) : Matrix.Mul ident m = m := by
  cases m; simp [Matrix.Mul, ident]

theorem mul_identity (m : Mat K) : Matrix.Mul m ident = m := by
  cases m; simp [Matrix.Mul, ident]

/-- Mul composes right-to-left: (m·q)·p = m·(q·p). -/
theorem dot_mul (m q : Mat K) (p : Pt K) : Matrix.Dot (Matrix.Mul m q) p = Matrix.Dot m (Matrix.Dot q p) := by
  simp only [Matrix.Mul, Matrix.Dot]; congr 1 <;> ring

theorem det_mul (m q : Mat K) : Matrix.Det (Matrix.Mul m q) = Matrix.Det m * Matrix.Det q := by
  simp only [Matrix.Mul, Matrix.Det]; ring

theorem inv_mul (m : Mat K) (h : Matrix.Det m ≠ 0) : Matrix.Mul (Matrix.Inv m) m = ident := by
  cases m with | mk a b c d e f =>
  simp only [Matrix.Det] at h
  simp only [Matrix.Mul, Matrix.Inv, Matrix.Det, ident]
  generalize hD : a * e - b * d = D at h ⊢
  congr 1 <;> field_simp <;> rw [← hD] <;> ring

theorem mul_inv (m : Mat K) (h : Matrix.Det m ≠ 0) : Matrix.Mul m (Matrix.Inv m) = ident := by
  cases m with | mk a b c d e f =>
  simp only [Matrix.Det] at h
  simp only [Matrix.Mul, Matrix.Inv, Matrix.Det, ident]
  generalize hD : a * e - b * d = D at h ⊢
  congr 1 <;> field_simp <;> rw [← hD] <;> ring

/-- Inv inverts: applying m then Inv m returns every point. -/
theorem inv_dot (m : Mat K) (p : Pt K) (h : Matrix.Det m ≠ 0) : Matrix.Dot (Matrix.Inv m) (Matrix.Dot m p) = p := by
  rw [← dot_mul, inv_mul m h]; cases p; simp [Matrix.Dot, ident]

theorem dot_inv (m : Mat K) (p : Pt K) (h : Matrix.Det m ≠ 0) : Matrix.Dot m (Matrix.Dot (Matrix.Inv m) p) = p := by
  rw [← dot_mul, mul_inv m h]; cases p; simp [Matrix.Dot, ident]

/-- T transposes the linear part and is an involution. -/
theorem T_T (m : Mat K) : Matrix.T (Matrix.T m) = m := by
  cases m; simp [Matrix.T]

theorem T_entries (m : Mat K) : (Matrix.T m).a = m.a ∧ (Matrix.T m).b = m.d ∧ (Matrix.T m).d = m.b ∧ (Matrix.T m).e = m.e := by
  cases m; simp [Matrix.T]

theorem det_T (m : Mat K) : Matrix.Det (Matrix.T m) = Matrix.Det m := by
  cases m; simp [Matrix.T, Matrix.Det]; ring

/-- the elementary transformations act on points as documented, and post-multiply -/
theorem translate_dot (m : Mat K) (x y : K) (p : Pt K) :
    Matrix.Dot (Matrix.Translate m x y) p = Matrix.Dot m (Pt.mk (p.x + x) (p.y + y)) := by
  simp only [Matrix.Translate, Matrix.Mul, Matrix.Dot]; congr 1 <;> ring

theorem scale_dot (m : Mat K) (sx sy : K) (p : Pt K) :
    Matrix.Dot (Matrix.Scale m sx sy) p = Matrix.Dot m (Pt.mk (sx * p.x) (sy * p.y)) := by
  simp only [Matrix.Scale, Matrix.Mul, Matrix.Dot]; congr 1 <;> ring

theorem shear_dot (m : Mat K) (sx sy : K) (p : Pt K) :
    Matrix.Dot (Matrix.Shear m sx sy) p = Matrix.Dot m (Pt.mk (p.x + sx * p.y) (sy * p.x + p.y)) := by
  simp only [Matrix.Shear, Matrix.Mul, Matrix.Dot]; congr 1 <;> ring

theorem reflectX_dot (m : Mat K) (p : Pt K) :
    Matrix.Dot (Matrix.ReflectX m) p = Matrix.Dot m (Pt.mk (-p.x) p.y) := by
  simp only [Matrix.ReflectX, Matrix.Scale, Matrix.Mul, Matrix.Dot]; congr 1 <;> ring

theorem reflectY_dot (m : Mat K) (p : Pt K) :
    Matrix.Dot (Matrix.ReflectY m) p = Matrix.Dot m (Pt.mk p.x (-p.y)) := by
  simp only [Matrix.ReflectY, Matrix.Scale, Matrix.Mul, Matrix.Dot]; congr 1 <;> ring

/-- `*About` variants fix their centre. -/
theorem scaleAbout_fixes (sx sy x y : K) :
    Matrix.Dot (Matrix.ScaleAbout ident sx sy x y) (Pt.mk x y) = Pt.mk x y := by
  simp only [Matrix.ScaleAbout, Matrix.Translate, Matrix.Scale, Matrix.Mul, Matrix.Dot, ident]; congr 1 <;> ring

theorem shearAbout_fixes (sx sy x y : K) :
    Matrix.Dot (Matrix.ShearAbout ident sx sy x y) (Pt.mk x y) = Pt.mk x y := by
  simp only [Matrix.ShearAbout, Matrix.Translate, Matrix.Shear, Matrix.Mul, Matrix.Dot, ident]; congr 1 <;> ring

theorem reflectXAbout_dot (x : K) (p : Pt K) :
    Matrix.Dot (Matrix.ReflectXAbout ident x) p = Pt.mk (2 * x - p.x) p.y := by
  simp only [Matrix.ReflectXAbout, Matrix.Translate, Matrix.Scale, Matrix.Mul, Matrix.Dot, ident]; congr 1 <;> ring

theorem reflectYAbout_dot (y : K) (p : Pt K) :
    Matrix.Dot (Matrix.ReflectYAbout ident y) p = Pt.mk p.x (2 * y - p.y) := by
  simp only [Matrix.ReflectYAbout, Matrix.Translate, Matrix.Scale, Matrix.Mul, Matrix.Dot, ident]; congr 1 <;> ring

/-- Affine maps commute with Bézier evaluation: the transformed control polygon traces exactly
the image of the segment, at the same parameter (so in the same direction). -/
theorem quad_bezier_affine (m : Mat K) (p0 p1 p2 : Pt K) (t : K) :
    quadraticBezierPos (Matrix.Dot m p0) (Matrix.Dot m p1) (Matrix.Dot m p2) t
      = Matrix.Dot m (quadraticBezierPos p0 p1 p2 t) := by
  simp only [quadraticBezierPos, Point.Mul, Point.Add, Matrix.Dot]; congr 1 <;> ring

theorem cube_bezier_affine (m : Mat K) (p0 p1 p2 p3 : Pt K) (t : K) :
    cubicBezierPos (Matrix.Dot m p0) (Matrix.Dot m p1) (Matrix.Dot m p2) (Matrix.Dot m p3) t
      = Matrix.Dot m (cubicBezierPos p0 p1 p2 p3 t) := by
  simp only [cubicBezierPos, Point.Mul, Point.Add, Matrix.Dot]; congr 1 <;> ring

theorem line_affine (m : Mat K) (p q : Pt K) (t : K) :
    Point.Interpolate (Matrix.Dot m p) (Matrix.Dot m q) t = Matrix.Dot m (Point.Interpolate p q t) := by
  simp only [Point.Interpolate, Matrix.Dot]; congr 1 <;> ring

/-- The sweep flag of an arc is flipped exactly for orientation-reversing maps: `Path.Transform`
tests `xscale*yscale < 0` with the scales of `Decompose`, and that product is the determinant
(for any `sqrt` with `sqrt(x)^2 = x` on non-negative arguments). -/
theorem decompose_scale_product (m : Mat K)
    (hs : ∀ x : K, 0 ≤ x → Env.sqrt x * Env.sqrt x = x) :
    (Matrix.Decompose m).2.2.2.1 * (Matrix.Decompose m).2.2.2.2.1 = Matrix.Det m := by
  cases m with | mk a b c d e f =>
  simp only [Matrix.Decompose, Matrix.Det]
  have h1 := hs (((a + e) / 2) * ((a + e) / 2) + ((d - b) / 2) * ((d - b) / 2)) (add_nonneg (mul_self_nonneg _) (mul_self_nonneg _))
  have h2 := hs (((a - e) / 2) * ((a - e) / 2) + ((d + b) / 2) * ((d + b) / 2)) (add_nonneg (mul_self_nonneg _) (mul_self_nonneg _))
  have : ∀ Q R : K, (Q + R) * (Q - R) = Q * Q - R * R := by intros; ring
  rw [this, h1, h2]; ring

/-- `Rect.Transform` returns a box containing the image of every point of the rectangle. -/
theorem rect_transform_contains (m : Mat K) (r : Rct K) (p : Pt K)
    (hx : r.x0 ≤ p.x ∧ p.x ≤ r.x1) (hy : r.y0 ≤ p.y ∧ p.y ≤ r.y1) :
    (Rect.Transform r m).x0 ≤ (Matrix.Dot m p).x ∧ (Matrix.Dot m p).x ≤ (Rect.Transform r m).x1 ∧
    (Rect.Transform r m).y0 ≤ (Matrix.Dot m p).y ∧ (Matrix.Dot m p).y ≤ (Rect.Transform r m).y1 := by
  obtain ⟨hx0, hx1⟩ := hx
  obtain ⟨hy0, hy1⟩ := hy
  simp only [Rect.Transform, Matrix.Dot]
  -- a bilinear form on a box is bounded by its corner values
  have key : ∀ (u v w : K), min (u * r.x0 + v * r.y0 + w) (min (u * r.x1 + v * r.y0 + w) (min (u * r.x1 + v * r.y1 + w) (u * r.x0 + v * r.y1 + w))) ≤ u * p.x + v * p.y + w
      ∧ u * p.x + v * p.y + w ≤ max (u * r.x0 + v * r.y0 + w) (max (u * r.x1 + v * r.y0 + w) (max (u * r.x1 + v * r.y1 + w) (u * r.x0 + v * r.y1 + w))) := by
    intro u v w
    rcases le_total 0 u with hu | hu <;> rcases le_total 0 v with hv | hv
    · constructor
      · exact (min_le_left _ _).trans (by nlinarith)
      · exact le_trans (by nlinarith) (le_max_of_le_right (le_max_of_le_right (le_max_left _ _)))
    · constructor
      · exact (min_le_of_right_le (min_le_of_right_le (min_le_right _ _))).trans (by nlinarith)
      · exact le_trans (by nlinarith) (le_max_of_le_right (le_max_left _ _))
    · constructor
      · exact (min_le_of_right_le (min_le_left _ _)).trans (by nlinarith)
      · exact le_trans (by nlinarith) (le_max_of_le_right (le_max_of_le_right (le_max_right _ _)))
    · constructor
      · exact (min_le_of_right_le (min_le_of_right_le (min_le_left _ _))).trans (by nlinarith)
      · exact le_trans (by nlinarith) (le_max_left _ _)
  exact ⟨(key m.a m.b m.c).1, (key m.a m.b m.c).2, (key m.d m.e m.f).1, (key m.d m.e m.f).2⟩


/-! ## Inverse, determinant -/

theorem det_inv (m : Mat K) (h : Matrix.Det m ≠ 0) : Matrix.Det (Matrix.Inv m) = 1 / Matrix.Det m := by
  cases m with | mk a b c d e f =>
  simp only [Matrix.Det] at h
  simp only [Matrix.Inv, Matrix.Det]
  generalize hD : a * e - b * d = D at h ⊢
  field_simp
  rw [← hD]; ring

/-- the inverse is unique: any left inverse is `Inv m` -/
theorem inv_unique (m q : Mat K) (h : Matrix.Det m ≠ 0) (hq : Matrix.Mul q m = ident) : q = Matrix.Inv m := by
  have h1 : Matrix.Mul (Matrix.Mul q m) (Matrix.Inv m) = Matrix.Inv m := by rw [hq, identity_mul]
  rw [mul_assoc, mul_inv m h, mul_identity] at h1
  exact h1

theorem inv_inv (m : Mat K) (h : Matrix.Det m ≠ 0) : Matrix.Inv (Matrix.Inv m) = m := by
  have hd : Matrix.Det (Matrix.Inv m) ≠ 0 := by
    rw [det_inv m h]; exact one_div_ne_zero h
  exact (inv_unique (Matrix.Inv m) m hd (mul_inv m h)).symm

/-- the inverse of a product is the product of the inverses in the opposite order (undoing a composed
view/transform stack) -/
theorem inv_of_mul (m q : Mat K) (hm : Matrix.Det m ≠ 0) (hq : Matrix.Det q ≠ 0) :
    Matrix.Inv (Matrix.Mul m q) = Matrix.Mul (Matrix.Inv q) (Matrix.Inv m) := by
  have hd : Matrix.Det (Matrix.Mul m q) ≠ 0 := by rw [det_mul]; exact mul_ne_zero hm hq
  refine (inv_unique (Matrix.Mul m q) _ hd ?_).symm
  rw [mul_assoc, ← mul_assoc (Matrix.Inv m) m q, inv_mul m hm, identity_mul, inv_mul q hq]

/-- an invertible matrix is injective on points: distinct points never collapse -/
theorem dot_injective (m : Mat K) (hm : Matrix.Det m ≠ 0) (p q : Pt K)
    (h : Matrix.Dot m p = Matrix.Dot m q) : p = q := by
  have := congrArg (Matrix.Dot (Matrix.Inv m)) h
  rwa [inv_dot m p hm, inv_dot m q hm] at this

theorem pos_translate (x y : K) : Matrix.Pos (Matrix.Translate ident x y) = (x, y) := by
  simp [Matrix.Pos, Matrix.Translate, Matrix.Mul, ident]

/-! ## `Matrix.Rotate` (model `rotateSC`: the matrix product after `math.Sincos`) -/

/-- Rotate post-multiplies by the rotation matrix: the point is rotated first, then mapped by `m` -/
theorem rotate_dot (m : Mat K) (s c : K) (p : Pt K) :
    Matrix.Dot (rotateSC m s c) p = Matrix.Dot m (Pt.mk (c * p.x - s * p.y) (s * p.x + c * p.y)) := by
  rw [rotateSC_eq]; simp only [Matrix.Dot]; congr 1 <;> ring

theorem rotate_det (m : Mat K) (s c : K) (h : c * c + s * s = 1) : Matrix.Det (rotateSC m s c) = Matrix.Det m := by
  rw [rotateSC_eq]; simp only [Matrix.Det]
  linear_combination (m.a * m.e - m.b * m.d) * h

/-- two rotations compose by the angle-addition formulas -/
theorem rotate_compose (m : Mat K) (s1 c1 s2 c2 : K) :
    rotateSC (rotateSC m s1 c1) s2 c2 = rotateSC m (s1 * c2 + c1 * s2) (c1 * c2 - s1 * s2) := by
  simp only [rotateSC_eq]; congr 1 <;> ring

/-- `RotateAbout(rot, x, y)` fixes `(x, y)`, whatever the sine and cosine are -/
theorem rotateAbout_fixes (rot x y : K) :
    Matrix.Dot (rotateAbout (Canvas.C07.identity : Mat K) rot x y) (Pt.mk x y) = Pt.mk x y := by
  simp only [rotateAbout, rotate, rotateSC_eq, ops_mtranslate, ops_sin, ops_cos, Canvas.C07.identity,
    Matrix.Translate, Matrix.Mul, Matrix.Dot]
  congr 1 <;> ring

/-- a rotation is recognised as rigid for every tolerance `Epsilon ≥ 0` -/
theorem rotate_isRigid (h0 : (0 : K) ≤ Env.epsilon) (s c : K) (h : c * c + s * s = 1) :
    Matrix.IsRigid (rotateSC (Canvas.C07.identity : Mat K) s c) = true := by
  apply (predicates_complete' h0 _).2.1
  rw [rotateSC_eq]
  simp only [Canvas.C07.identity]
  refine ⟨by linear_combination h, by linear_combination h, by ring⟩

/-! ## `solveQuadraticFormula`, `Matrix.Eigen` -/

/-- the Go function never returns `(NaN, x)`: the model's NaN test on the first result is complete -/
theorem solveQuadratic_fst_none (a b c : K) (h : (solveQuadratic a b c).1 = none) : (solveQuadratic a b c).2 = none :=
  solveQuadratic_fst_none' a b c h

/-- monic polynomial with positive discriminant: two results, both roots, sum `-B`, product `C` -/
theorem solveQuadratic_monic_roots (L : Laws K) (h0 : (Env.epsilon : K) = 0) (B C : K) (hd : 0 < B * B - 4 * C) :
    ∃ x1 x2 : K, solveQuadratic 1 B C = (some x1, some x2) ∧ x1 + x2 = -B ∧ x1 * x2 = C ∧
      x1 * x1 + B * x1 + C = 0 ∧ x2 * x2 + B * x2 + C = 0 := by
  obtain ⟨x1, x2, h, hs, hp⟩ := solveQuadratic_monic L h0 B C hd
  exact ⟨x1, x2, h, hs, hp, by linear_combination x1 * hs - hp, by linear_combination x2 * hs - hp⟩

/-- `Eigen` of a symmetric matrix: real eigenvalues (trace and determinant as sum and product), unit
eigenvectors with `Q v = λ v`, and the spectral decomposition. -/
theorem eigen_symmetric (L : Laws K) (h0 : (Env.epsilon : K) = 0) (m : Mat K) (hsym : m.b = m.d) :
    ∃ l1 l2 : K, (eigen m).l1 = some l1 ∧ (eigen m).l2 = some l2 ∧ l1 + l2 = m.a + m.e ∧ l1 * l2 = Matrix.Det m ∧
      SpecAt m l1 l2 (eigen m).v1 ∧ SpecAt m l2 l1 (eigen m).v2 ∧
      (m.a * (eigen m).v1.x + m.b * (eigen m).v1.y = l1 * (eigen m).v1.x ∧ m.d * (eigen m).v1.x + m.e * (eigen m).v1.y = l1 * (eigen m).v1.y) ∧
      (m.a * (eigen m).v2.x + m.b * (eigen m).v2.y = l2 * (eigen m).v2.x ∧ m.d * (eigen m).v2.x + m.e * (eigen m).v2.y = l2 * (eigen m).v2.y) := by
  obtain ⟨l1, l2, h1, h2, hs, hp, S1, S2⟩ := eigen_spectral L h0 m hsym
  refine ⟨l1, l2, h1, h2, hs, hp, S1, S2, ?_, ?_⟩
  · obtain ⟨sa, sb, se, su⟩ := S1
    generalize (eigen m).v1 = v at sa sb se su ⊢
    constructor
    · rw [sa, sb]; linear_combination (l1 * v.x) * su
    · rw [← hsym, sb, se]; linear_combination (l1 * v.y) * su
  · obtain ⟨sa, sb, se, su⟩ := S2
    generalize (eigen m).v2 = v at sa sb se su ⊢
    constructor
    · rw [sa, sb]; linear_combination (l2 * v.x) * su
    · rw [← hsym, sb, se]; linear_combination (l2 * v.y) * su

/-- branch 4 of the model of `Eigen` (neither off-diagonal entry usable although the diagonal test failed)
is unreachable, for every tolerance: the `else` after the two `if !Equal(..)` of the Go code is dead -/
theorem eigen_branch_ne_4 (m : Mat K) : (eigen m).branch ≠ 4 := by
  unfold eigen
  simp only [ops_equal]
  by_cases hd : Equal m.d 0 = true <;> by_cases hb : Equal m.b 0 = true
  · simp [hd, hb]
  · simp only [hd, hb, Bool.not_eq_true] at *
    simp only [Bool.and_false, Bool.false_eq_true, if_false, Bool.not_true, Bool.not_false, if_true]
    split <;> simp
  · simp only [hd, hb, Bool.not_eq_true] at *
    simp only [Bool.false_and, Bool.false_eq_true, if_false, Bool.not_false, if_true]
    split <;> simp
  · simp only [hd, hb, Bool.not_eq_true] at *
    simp only [Bool.false_and, Bool.false_eq_true, if_false, Bool.not_false, if_true]
    split <;> simp

/-- **Real eigenvalues whenever the off-diagonal entries have the same sign** (in particular for every
symmetric matrix), for every tolerance and without any assumption on `sqrt`: `Eigen` never answers "no real
eigenvalue" there, whatever `solveQuadraticFormula` made of the discriminant (repaired by 2c3bd2a; before,
a discriminant rounded below zero gave NaN radii in `Path.Transform`). -/
theorem eigen_real_of_same_sign (m : Mat K) (h : 0 ≤ m.b * m.d) :
    (eigenvalues m).1 ≠ none ∧ (eigen m).l1 ≠ none := by
  have hv : (eigenvalues m).1 ≠ none := by
    unfold eigenvalues
    simp only []
    split
    · simp [h]
    · rename_i x hx; rw [hx]; simp
  refine ⟨hv, ?_⟩
  unfold eigen
  simp only [ops_equal]
  cases hr : (eigenvalues m).1 with
  | none => exact absurd hr hv
  | some l1 => split_ifs <;> simp

/-! ## The ArcTo case of `Path.Transform` -/

/-- **Arc re-parametrisation is exact.** For invertible `m`, positive radii and a unit axis `(c, s)` the
new radii and axis returned by the model of the Go code describe the ellipse whose quadratic form is the
push-forward `M⁻ᵀ q M⁻¹` of the original one. Hypotheses: exact comparisons, `sqrt(x)² = x` (x ≥ 0),
`hypot(x,y)² = x² + y²` (fields of `L`). -/
theorem arc_transform_form (L : Laws K) (h0 : (Env.epsilon : K) = 0) (m : Mat K) (rx ry s c : K)
    (hcs : c * c + s * s = 1) (hdet : Matrix.Det m ≠ 0) (hrx : 0 < rx) (hry : 0 < ry) :
    ∃ r : ArcR K, arcCore m rx ry (s, c) = some r ∧
      ellipseForm r.rx r.ry r.v.x r.v.y = (ellipseForm rx ry c s).push m.a m.b m.d m.e ∧
      r.v.x * r.v.x + r.v.y * r.v.y = 1 :=
  arcCore_image L h0 m rx ry s c hcs hdet hrx hry

/-- **Point-set equality.** `p` (relative to the centre) lies on the original ellipse iff its image under the
linear part of `m` lies on the ellipse `Path.Transform` writes (relative to the mapped centre). -/
theorem arc_transform_points (L : Laws K) (h0 : (Env.epsilon : K) = 0) (m : Mat K) (rx ry s c : K)
    (hcs : c * c + s * s = 1) (hdet : Matrix.Det m ≠ 0) (hrx : 0 < rx) (hry : 0 < ry) :
    ∃ r : ArcR K, arcCore m rx ry (s, c) = some r ∧ ∀ x y : K,
      ((ellipseForm rx ry c s).eval x y = 1 ↔
        (ellipseForm r.rx r.ry r.v.x r.v.y).eval (m.a * x + m.b * y) (m.d * x + m.e * y) = 1) := by
  obtain ⟨r, hr, hf, _⟩ := arcCore_image L h0 m rx ry s c hcs hdet hrx hry
  refine ⟨r, hr, fun x y => ?_⟩
  rw [hf, push_eval _ _ _ _ _ _ _ (by simpa [Matrix.Det] using hdet)]

/-- the sweep flag flips exactly for orientation-reversing maps -/
theorem flips_iff_det_neg (L : Laws K) (m : Mat K) : flips m = true ↔ Matrix.Det m < 0 := by
  simp only [flips, ops_decompose, decide_eq_true_iff]
  rw [decompose_scale_product m L.sqrt_sq]

/-! ## The loop of `Path.Transform` (model `transform`: one `transformCmd` per command) -/

def cmdKind : Cmd K → Nat
  | .M _ => 1 | .L _ => 2 | .Q _ _ => 4 | .C _ _ _ => 8 | .A .. => 16 | .Z _ => 32

def cmdEnd : Cmd K → Pt K
  | .M p => p | .L p => p | .Z p => p | .Q _ p => p | .C _ _ p => p | .A _ _ _ _ _ _ p => p

def cmdIsArc : Cmd K → Bool
  | .A .. => true
  | _ => false

/-- point of the segment a non-arc drawing command traces from `p0`, at parameter `t` -/
def segPos (p0 : Pt K) : Cmd K → K → Option (Pt K)
  | .L p, t => some (Point.Interpolate p0 p t)
  | .Z p, t => some (Point.Interpolate p0 p t)
  | .Q cp p, t => some (quadraticBezierPos p0 cp p t)
  | .C cp1 cp2 p, t => some (cubicBezierPos p0 cp1 cp2 p t)
  | _, _ => none

theorem transform_length (m : Mat K) (cs : List (Cmd K)) : (transform m cs).length = cs.length := by
  simp [transform]

/-- the command structure is preserved -/
theorem transform_kinds (m : Mat K) (cs : List (Cmd K)) : (transform m cs).map cmdKind = cs.map cmdKind := by
  simp only [transform, List.map_map]
  apply List.map_congr_left
  intro c _
  cases c with
  | A rx ry phi sc large sweep p =>
    simp only [Function.comp, transformCmd]
    cases arcCore m rx ry sc <;> rfl
  | _ => rfl

/-- every command's end point is mapped by `m` (arcs included) -/
theorem transform_endpoints (m : Mat K) (cs : List (Cmd K)) :
    (transform m cs).map cmdEnd = cs.map (fun c => Matrix.Dot m (cmdEnd c)) := by
  simp only [transform, List.map_map]
  apply List.map_congr_left
  intro c _
  cases c with
  | A rx ry phi sc large sweep p =>
    simp only [Function.comp, transformCmd]
    cases arcCore m rx ry sc <;> rfl
  | _ => rfl

/-- **Segment by segment, same direction**: the transformed line/quadratic/cubic command traced from the
mapped start point passes, at every parameter `t`, through the image of the original point at `t`. -/
theorem transform_segment_points (m : Mat K) (fl : Bool) (p0 : Pt K) (c : Cmd K) (t : K) :
    segPos (Matrix.Dot m p0) (transformCmd m fl c) t = (segPos p0 c t).map (Matrix.Dot m) := by
  cases c with
  | M p => rfl
  | L p => simp only [transformCmd, segPos, ops_mdot, Option.map, line_affine]
  | Z p => simp only [transformCmd, segPos, ops_mdot, Option.map, line_affine]
  | Q cp p => simp only [transformCmd, segPos, ops_mdot, Option.map, quad_bezier_affine]
  | C cp1 cp2 p => simp only [transformCmd, segPos, ops_mdot, Option.map, cube_bezier_affine]
  | A rx ry phi sc large sweep p =>
    simp only [transformCmd]
    cases arcCore m rx ry sc <;> rfl

/-- transforming by a product is transforming twice (paths without arcs: exact, command by command) -/
theorem transform_comp_noarc (m q : Mat K) (cs : List (Cmd K)) (h : ∀ c ∈ cs, cmdIsArc c = false) :
    transform (Matrix.Mul m q) cs = transform m (transform q cs) := by
  simp only [transform, List.map_map]
  apply List.map_congr_left
  intro c hc
  have := h c hc
  cases c <;> simp_all [transformCmd, cmdIsArc, dot_mul]

theorem transform_identity_noarc (cs : List (Cmd K)) (h : ∀ c ∈ cs, cmdIsArc c = false) :
    transform (ident : Mat K) cs = cs := by
  simp only [transform]
  conv_rhs => rw [← List.map_id cs]
  apply List.map_congr_left
  intro c hc
  have := h c hc
  have hd : ∀ p : Pt K, Matrix.Dot (ident : Mat K) p = p := by
    intro p; cases p; simp [Matrix.Dot, ident]
  cases c <;> simp_all [transformCmd, cmdIsArc]

/-- `Path.Transform` works command by command: transforming a concatenation (what `Path.Append`/`Join`
build from raw arrays) is concatenating the transforms -/
theorem transform_append (m : Mat K) (cs ds : List (Cmd K)) :
    transform m (cs ++ ds) = transform m cs ++ transform m ds := by
  simp [transform]

/-- a path without arcs stays without arcs -/
theorem transform_noarc (m : Mat K) (cs : List (Cmd K)) (h : ∀ c ∈ cs, cmdIsArc c = false) :
    ∀ c ∈ transform m cs, cmdIsArc c = false := by
  intro c hc
  simp only [transform, List.mem_map] at hc
  obtain ⟨c0, hc0, rfl⟩ := hc
  have := h c0 hc0
  cases c0 <;> simp_all [transformCmd, cmdIsArc]

/-- **Round trip**: transforming by an invertible `m` and then by `m.Inv()` gives the path back
(paths without arcs: exact, command by command) -/
theorem transform_inv_noarc (m : Mat K) (hd : Matrix.Det m ≠ 0) (cs : List (Cmd K))
    (h : ∀ c ∈ cs, cmdIsArc c = false) :
    transform (Matrix.Inv m) (transform m cs) = cs := by
  rw [← transform_comp_noarc _ _ _ h, inv_mul m hd, transform_identity_noarc _ h]

/-- and the other way round -/
theorem transform_after_inv_noarc (m : Mat K) (hd : Matrix.Det m ≠ 0) (cs : List (Cmd K))
    (h : ∀ c ∈ cs, cmdIsArc c = false) :
    transform m (transform (Matrix.Inv m) cs) = cs := by
  rw [← transform_comp_noarc _ _ _ h, mul_inv m hd, transform_identity_noarc _ h]

/-- **An ArcTo command under `Path.Transform`**: the large-arc flag is kept, the sweep flag flips iff
`det m < 0`, the end point is mapped by `m`, and the new radii/axis describe exactly the image ellipse. -/
theorem transform_arc (L : Laws K) (h0 : (Env.epsilon : K) = 0) (m : Mat K) (rx ry phi s c : K) (large sweep : Bool) (p : Pt K)
    (hcs : c * c + s * s = 1) (hdet : Matrix.Det m ≠ 0) (hrx : 0 < rx) (hry : 0 < ry) :
    ∃ r : ArcR K,
      transformCmd m (flips m) (.A rx ry phi (s, c) large sweep p) =
        .A r.rx r.ry (canonPhi r.v) (r.v.y, r.v.x) large (if Matrix.Det m < 0 then !sweep else sweep) (Matrix.Dot m p) ∧
      ellipseForm r.rx r.ry r.v.x r.v.y = (ellipseForm rx ry c s).push m.a m.b m.d m.e ∧
      r.v.x * r.v.x + r.v.y * r.v.y = 1 := by
  obtain ⟨r, hr, hf, hu⟩ := arcCore_image L h0 m rx ry s c hcs hdet hrx hry
  refine ⟨r, ?_, hf, hu⟩
  simp only [transformCmd, hr, ops_mdot]
  by_cases hd : Matrix.Det m < 0
  · have : flips m = true := (flips_iff_det_neg L m).mpr hd
    simp [this, hd]
  · have : flips m = false := by
      rcases hfl : flips m with _ | _
      · rfl
      · exact absurd ((flips_iff_det_neg L m).mp hfl) hd
    simp [this, hd]

/-! ## The executable arc verdict (`arcOK`, run over exact rationals by the driver) -/

/-- **Soundness**: if the verdict accepts with tolerance `rel`, then every point of the original ellipse
(`centre + R(c,s)·(rx·x, ry·y)`, `x² + y² = 1`) is mapped by `M` to a point where the produced ellipse's
form is within `2·rel` of 1. -/
theorem arcOK_sound (ma mb md me rx ry c s rx' ry' c' s' rel : K)
    (h : arcOK ma mb md me rx ry c s rx' ry' c' s' rel = true) (x y : K) (hxy : x * x + y * y = 1) :
    |(ellipseForm rx' ry' c' s').eval (ma * (c * (rx * x) - s * (ry * y)) + mb * (s * (rx * x) + c * (ry * y)))
        (md * (c * (rx * x) - s * (ry * y)) + me * (s * (rx * x) + c * (ry * y))) - 1| ≤ 2 * rel := by
  unfold arcOK at h
  have := nearId_eval _ rel x y h hxy
  rw [pull_eval] at this
  simp only [frame] at this
  have hx : (ma * c + mb * s) * rx * x + (mb * c - ma * s) * ry * y =
      ma * (c * (rx * x) - s * (ry * y)) + mb * (s * (rx * x) + c * (ry * y)) := by ring
  have hy : (md * c + me * s) * rx * x + (me * c - md * s) * ry * y =
      md * (c * (rx * x) - s * (ry * y)) + me * (s * (rx * x) + c * (ry * y)) := by ring
  rw [hx, hy] at this
  exact this

/-- the verdict is monotone in the tolerance -/
theorem arcOK_mono (ma mb md me rx ry c s rx' ry' c' s' rel rel' : K) (hle : rel ≤ rel')
    (h : arcOK ma mb md me rx ry c s rx' ry' c' s' rel = true) : arcOK ma mb md me rx ry c s rx' ry' c' s' rel' = true := by
  unfold arcOK at h ⊢
  rw [nearId_iff] at h ⊢
  exact ⟨h.1.trans hle, h.2.1.trans hle, h.2.2.trans hle⟩

/-- **Completeness at tolerance 0**: what the model of `Path.Transform` returns passes the verdict exactly. -/
theorem arcOK_complete (L : Laws K) (h0 : (Env.epsilon : K) = 0) (m : Mat K) (rx ry s c : K)
    (hcs : c * c + s * s = 1) (hdet : Matrix.Det m ≠ 0) (hrx : 0 < rx) (hry : 0 < ry) :
    ∃ r : ArcR K, arcCore m rx ry (s, c) = some r ∧
      arcOK m.a m.b m.d m.e rx ry c s r.rx r.ry r.v.x r.v.y 0 = true := by
  obtain ⟨r, hr, hf, _⟩ := arcCore_image L h0 m rx ry s c hcs hdet hrx hry
  exact ⟨r, hr, arcOK_of_image _ _ _ _ _ _ _ _ _ _ _ _ hcs (by simpa [Matrix.Det] using hdet) hrx.ne' hry.ne' hf⟩

/-! ## `Decompose` and `ToSVG` describe the same transformation -/

/-- **Full recomposition** (exact comparisons): for every matrix — singular ones, reflections and the
merged-rotation branch included — `Identity.Translate(tx,ty).Rotate(phi).Scale(sx,sy).Rotate(theta) = m`. -/
theorem decompose_recompose (L : Laws K) (h0 : (Env.epsilon : K) = 0) (m : Mat K) :
    recompose (Matrix.Decompose m) = m := decompose_recompose' L h0 m

/-- the same for any tolerance `Epsilon ≥ 0`: every entry is within `2·Epsilon` -/
theorem decompose_recompose_within (L : Laws K) (h0 : (0 : K) ≤ Env.epsilon) (m : Mat K) :
    MatWithin (recompose (Matrix.Decompose m)) m (2 * Env.epsilon) := decompose_recompose_within' L h0 m

/-- the `matrix(...)` notation of `ToSVG(h)` denotes `T(0,h)·G·m·G` -/
theorem toSVG_matrix_target (m : Mat K) (h : K) : svgInterp [toSVGMatrix m h] = svgTarget m h :=
  svg_matrix_target' m h

/-- full statement: the decomposed notation of `ToSVG(h)` denotes `T(0,h)·G·m·G` for every `m`, `h` -/
def toSVG_decomposed_target_statement (K : Type) [Field K] [LinearOrder K] [IsStrictOrderedRing K] [Env K] : Prop :=
  ∀ (m : Mat K) (h : K), svgInterp (toSVGParts m h) = svgTarget m h

/-- proved part: all `m`, `h` except zero translation with non-zero height (known defect
C07-tosvg-height-dropped: `translate(0,h)` is not written) -/
theorem toSVG_decomposed_target_partial (L : Laws K) (h0 : (Env.epsilon : K) = 0) (m : Mat K) (h : K)
    (hcls : ¬ (m.c = 0 ∧ m.f = 0) ∨ h = 0) : svgInterp (toSVGParts m h) = svgTarget m h :=
  toSVGParts_target' L h0 m h hcls

/-- witness of the defect: for zero translation the decomposed notation leaves the origin where it is,
the target moves it to `(0, h)` -/
theorem toSVG_drops_height (h0 : (Env.epsilon : K) = 0) (m : Mat K) (h : K) (hc : m.c = 0) (hf : m.f = 0) (hh : h ≠ 0) :
    svgInterp (toSVGParts m h) ≠ svgTarget m h := by
  obtain ⟨h1, _, h3⟩ := toSVGParts_drops_height' h0 m h hc hf
  intro heq
  rw [heq, h3] at h1
  exact hh h1

/-! ## `IsTranslation`, `IsRigid`, `IsSimilarity`, `Equals` (generated definitions) -/

theorem isTranslation_iff (h0 : (Env.epsilon : K) = 0) (m : Mat K) :
    Matrix.IsTranslation m = true ↔ ∀ p : Pt K, Matrix.Dot m p = Pt.mk (p.x + m.c) (p.y + m.f) :=
  isTranslation_iff' h0 m

/-- `IsRigid` ⇔ every distance is preserved -/
theorem isRigid_iff_isometry (h0 : (Env.epsilon : K) = 0) (m : Mat K) :
    Matrix.IsRigid m = true ↔ ∀ p q : Pt K, dist2 (Matrix.Dot m p) (Matrix.Dot m q) = dist2 p q :=
  isRigid_iff_isometry' h0 m

/-- `IsSimilarity` ⇔ all squared distances are scaled by one factor -/
theorem isSimilarity_iff_scaling (h0 : (Env.epsilon : K) = 0) (m : Mat K) :
    Matrix.IsSimilarity m = true ↔ ∃ k : K, ∀ p q : Pt K, dist2 (Matrix.Dot m p) (Matrix.Dot m q) = k * dist2 p q :=
  isSimilarity_iff_scaling' h0 m

theorem equals_iff (h0 : (Env.epsilon : K) = 0) (m q : Mat K) : Matrix.Equals m q = true ↔ m = q := equals_iff' h0 m q

/-- for any tolerance `Epsilon ≥ 0` exact translations / rigid maps / similarities are recognised, and
`Equals` is reflexive -/
theorem predicates_complete (h0 : (0 : K) ≤ Env.epsilon) (m : Mat K) :
    (m.a = 1 ∧ m.b = 0 ∧ m.d = 0 ∧ m.e = 1 → Matrix.IsTranslation m = true) ∧
    (m.a * m.a + m.b * m.b = 1 ∧ m.d * m.d + m.e * m.e = 1 ∧ m.a * m.d + m.b * m.e = 0 → Matrix.IsRigid m = true) ∧
    (m.a * m.a + m.b * m.b = m.d * m.d + m.e * m.e ∧ m.a * m.d + m.b * m.e = 0 → Matrix.IsSimilarity m = true) ∧
    Matrix.Equals m m = true := predicates_complete' h0 m

/-- a rigid map has determinant ±1 and is a similarity -/
theorem isRigid_det_and_similarity (h0 : (Env.epsilon : K) = 0) (m : Mat K) (h : Matrix.IsRigid m = true) :
    Matrix.Det m * Matrix.Det m = 1 ∧ Matrix.IsSimilarity m = true := by
  rw [isRigid_iff_rows h0] at h
  obtain ⟨h1, h2, h3⟩ := h
  constructor
  · simp only [Matrix.Det]
    linear_combination (m.d * m.d + m.e * m.e) * h1 + h2 - (m.a * m.d + m.b * m.e) * h3
  · rw [isSimilarity_iff_rows h0]
    exact ⟨by rw [h1, h2], h3⟩

/-! ## Non-vacuity: the hypotheses are satisfiable (real numbers) and the hypotheses of the individual
theorems have concrete non-trivial instances -/
section NonVacuity
attribute [local instance] envReal

/-- `Laws` holds of the real functions, with exact comparisons -/
example : Laws ℝ ∧ (Env.epsilon : ℝ) = 0 := ⟨lawsReal, epsReal⟩

/-- `arc_transform_form`: a shear with a reflection applied to a 2×1 ellipse rotated by a 3-4-5 angle -/
example : ∃ r : ArcR ℝ, arcCore (Mat.mk (-1) 2 5 0 1 7) 2 1 (3 / 5, 4 / 5) = some r ∧
    ellipseForm r.rx r.ry r.v.x r.v.y = (ellipseForm 2 1 (4 / 5) (3 / 5)).push (-1) 2 0 1 :=
  let ⟨r, h1, h2, _⟩ := arc_transform_form lawsReal epsReal (Mat.mk (-1) 2 5 0 1 7) 2 1 (3 / 5) (4 / 5)
    (by norm_num) (by simp [Matrix.Det]) (by norm_num) (by norm_num)
  ⟨r, h1, h2⟩

/-- `eigen_symmetric`: a symmetric non-diagonal matrix -/
example : (Mat.mk (2 : ℝ) 1 0 1 3 0).b = (Mat.mk (2 : ℝ) 1 0 1 3 0).d := rfl

/-- `decompose_recompose` applies to a reflection: `ReflectX` recomposes to itself -/
example : recompose (Matrix.Decompose (Mat.mk (-1 : ℝ) 0 0 0 1 0)) = Mat.mk (-1) 0 0 0 1 0 :=
  decompose_recompose lawsReal epsReal _

/-- `toSVG_decomposed_target_partial`: the excluded class is not everything (a translation satisfies the hypothesis) -/
example : ¬ ((Mat.mk (1 : ℝ) 0 3 0 1 4).c = 0 ∧ (Mat.mk (1 : ℝ) 0 3 0 1 4).f = 0) ∨ (10 : ℝ) = 0 := by
  left; simp

/-- `toSVG_drops_height`: the defect class is inhabited (`Rotate(90)` with `h = 10`) -/
example : svgInterp (toSVGParts (Mat.mk (0 : ℝ) (-1) 0 1 0 0) 10) ≠ svgTarget (Mat.mk (0 : ℝ) (-1) 0 1 0 0) 10 :=
  toSVG_drops_height epsReal _ 10 rfl rfl (by norm_num)

/-- `solveQuadratic_monic_roots`: `x² - 5x + 6` has positive discriminant -/
example : (0 : ℝ) < (-5) * (-5) - 4 * 6 := by norm_num

/-- `rotate_det`, `rotate_isRigid`, `arc_*`: a unit axis vector that is not a coordinate axis -/
example : ((4 : ℚ) / 5) * (4 / 5) + (3 / 5) * (3 / 5) = 1 := by norm_num

end NonVacuity

/-- `isRigid_iff_isometry`: a reflection is rigid (over ℚ with `Epsilon = 0`) -/
example : (1 : ℚ) * 1 + 0 * 0 = 1 ∧ (0 : ℚ) * 0 + (-1) * (-1) = 1 ∧ (1 : ℚ) * 0 + 0 * (-1) = 0 := by norm_num

/-- `transform_comp_noarc`: the hypothesis holds of a path with a line and a cubic -/
example : ∀ c ∈ ([Cmd.M ⟨0, 0⟩, Cmd.L ⟨1, 2⟩, Cmd.C ⟨1, 3⟩ ⟨2, 3⟩ ⟨3, 0⟩] : List (Cmd ℚ)), cmdIsArc c = false := by
  intro c hc
  simp only [List.mem_cons, List.mem_nil_iff, or_false] at hc
  rcases hc with rfl | rfl | rfl <;> rfl

/-- `arcOK_sound`: the verdict accepts the exact image of the unit circle under `diag(2, 3)` -/
example : arcOK (2 : ℚ) 0 0 3 1 1 1 0 2 3 1 0 0 = true := by
  simp [arcOK, frame, ellipseForm, Form.pull, Form.nearId]

/-- non-vacuity: an invertible matrix exists and `inv_dot` applies to it (with the no-arc path above: the
hypotheses of `transform_inv_noarc`) -/
example : Matrix.Det (Mat.mk (2 : ℚ) 1 0 0 1 3) ≠ 0 := by simp [Matrix.Det]

end C07
