import CanvasProofs.Lemmas.C05
import CanvasProofs.Lemmas.C05FixStart
import CanvasProofs.Lemmas.C05Scale
import CanvasProofs.Lemmas.C05Refine

/-! # C05 — dashing cuts the path by arc length according to the pattern

Theorems about the hand-written model `CanvasModel/C05.lean` of `dashStart`, `dashCanonical` and the
per-subpath bookkeeping of `Path.Dash` (/repo/path.go:1661-1811), over an arbitrary linearly ordered
field `K` with `Epsilon = 0` (exact arithmetic), against the pattern semantics `Drawn`.
The model is tied to the real code by bit-exact correspondence (`Drv/C05.lean`, `harness/c05`). -/
set_option linter.unusedSectionVars false
namespace C05
open Canvas.C05 C05L
variable {K : Type} [Field K] [LinearOrder K] [IsStrictOrderedRing K]

/-- With `Epsilon = 0`, `Equal` is equality. -/
theorem equal_exact (a b : K) : equal 0 a b = true ↔ a = b := equal_zero_iff a b

/-- `dashStart` for EVERY offset (negative, beyond one or many periods — repaired by e14817f): piece
`i0` of the pattern starts at path position `pos0 ≤ 0`, the start of the path lies inside that piece
(`-pos0 < d[i0]`), and the position has the right phase: `offset + pos0` is the start phase of a
piece `J ≡ i0 (mod n)` up to `m` whole periods (`m = 0` for `offset ≥ 0`). `fmod` is `math.Mod`, of
which only `FmodSpec` is used. -/
theorem start_invariant (fmod : K → K → K) (d : List K) (hne : d ≠ []) (hnn : ∀ x ∈ d, 0 ≤ x)
    (hmod : FmodSpec fmod d) (fuel : Nat) (offset : K) (i0 : Nat) (pos0 : K)
    (h : dashStart fmod fuel offset d = some (i0, pos0)) :
    pos0 ≤ 0 ∧ i0 < d.length ∧
      ∃ J m : Nat, J % d.length = i0 ∧ -pos0 < cyc d J ∧
        offset + pos0 + pre d (m * d.length) = pre d J ∧ (0 ≤ offset → m = 0) :=
  C05L.start_invariant fmod d hne hnn hmod fuel offset i0 pos0 h

/-- The loop of `dashStart` terminates: `fuel+1` iterations suffice as soon as `fuel · m` exceeds the
offset and one period, for a positive lower bound `m` of the pattern entries (in an Archimedean field
such a `fuel` exists; `dashCanonical` guarantees `m > 0`). For negative offsets the bound does not
depend on how many periods the offset lies below zero. -/
theorem start_terminates (fmod : K → K → K) (d : List K) (hne : d ≠ []) (m : K) (hm : 0 < m)
    (hd : ∀ x ∈ d, m ≤ x) (hmod : FmodSpec fmod d)
    (fuel : Nat) (offset : K) (h : offset < (fuel : K) * m) (hp : period d ≤ (fuel : K) * m) :
    (dashStart fmod (fuel + 1) offset d).isSome = true := by
  have hr : reducedOffset fmod offset d < (fuel : K) * m := by
    by_cases hneg : offset < 0
    · have := reducedOffset_lt_period fmod d hmod offset hneg; linarith
    · unfold reducedOffset; rw [if_neg hneg]; exact h
  have := dashStartLoop_terminates d hne m hm hd fuel 0 _ hr
  rw [Nat.zero_mod] at this
  unfold dashStart
  cases hloop : dashStartLoop d (fuel + 1) 0 (reducedOffset fmod offset d) with
  | none => rw [hloop] at this; simp at this
  | some r => rfl

/-- Purity of `dashCanonical` (repaired by a6207f9, finding C05-impure-dashCanonical): for every
pattern and every `Epsilon` the caller's array holds the same values after the call as before. The
model's `canonArg` is compared bit-exactly with the real argument slice after the call on every
run, and the harness compares the slice before/after independently. -/
theorem canonical_pure (eps : K) (d : List K) : canonArg eps d = d := rfl

/-- Selection of the pieces `pd[0..nt]` (path.go:1790-1807, `j0`/`endsInDash`): piece `k` is kept iff
its distance to the last piece has the parity that makes its pattern index even, where `i` is the
pattern index of the last piece. -/
theorem kept_iff (nt i k : Nat) : kept nt i k = true ↔ k ≤ nt ∧ (nt - k + i) % 2 = 0 := by
  unfold kept keptMiddle
  rw [Bool.or_eq_true, List.contains_iff_mem, mem_stepTwo nt (nt + 1) (j0 nt i) k (by omega)]
  unfold j0 endsInDash
  simp only [Bool.and_eq_true, decide_eq_true_eq, beq_iff_eq]
  split <;> omega

/-- The position list `t` of `Dash` (path.go:1777-1788): started with pattern piece `J0` at path
position `pos0`, the loop makes `m` steps; step `k` ends at `cpos (k+1) = cpos k + d[(J0+k) mod n]`
(consecutive gaps follow `d` cyclically from `i0 = J0 mod n`), `t` is exactly the list of the
positive ones among these positions, every step satisfied `pos + d[i] + ε < length`, the next one
does not, the final index is `(J0+m) mod n`; `t` is strictly increasing and lies inside `(0,length)`. -/
theorem positions_follow_pattern (eps : K) (heps : 0 ≤ eps) (d : List K) (hne : d ≠ [])
    (hpos : ∀ x ∈ d, 0 < x) (length : K) (fuel J0 : Nat) (pos0 : K) (t : List K) (iEnd : Nat)
    (h : positionsLoop eps d length fuel (J0 % d.length) pos0 [] = some (t, iEnd)) :
    ∃ m, iEnd = (J0 + m) % d.length ∧
      t = ((List.range m).map (fun k => cpos d J0 pos0 (k + 1))).filter (fun x => decide (0 < x)) ∧
      (∀ k, cpos d J0 pos0 (k + 1) = cpos d J0 pos0 k + cyc d (J0 + k)) ∧
      (∀ k < m, cpos d J0 pos0 (k + 1) + eps < length) ∧
      ¬ (cpos d J0 pos0 (m + 1) + eps < length) ∧
      t.Pairwise (· < ·) ∧ (∀ x ∈ t, 0 < x ∧ x < length) ∧ t.length ≤ m := by
  obtain ⟨m, e1, e2, e3, e4⟩ := positionsLoop_spec eps d hne length fuel J0 pos0 [] t iEnd h
  rw [List.nil_append] at e2
  refine ⟨m, e1, e2, fun k => cpos_succ d J0 pos0 k, ?_, ?_, ?_, ?_, ?_⟩
  · intro k hk; rw [cpos_succ]; exact e3 k hk
  · rw [cpos_succ]; exact e4
  · rw [e2]
    apply List.Pairwise.filter
    apply List.Pairwise.map _ _ (List.pairwise_lt_range)
    intro a b hab
    exact cpos_strictMono d hne hpos J0 pos0 _ _ (by omega)
  · intro x hx
    rw [e2, List.mem_filter, List.mem_map] at hx
    obtain ⟨⟨k, hk, rfl⟩, hx0⟩ := hx
    rw [List.mem_range] at hk
    have := e3 k hk
    rw [← cpos_succ] at this
    exact ⟨by simpa using hx0, by linarith⟩
  · rw [e2]
    calc _ ≤ ((List.range m).map (fun k => cpos d J0 pos0 (k + 1))).length := List.length_filter_le _ _
      _ = m := by simp

/-- A point `x` of the `k`-th piece of the walk lies in pattern piece `J0+k`, provided the start is
phase-aligned (`start_invariant` supplies the alignment hypothesis). -/
theorem walk_piece_in_pattern (d : List K) (offset pos0 : K) (J0 M : Nat)
    (hal : offset + pos0 + pre d (M * d.length) = pre d J0) (k : Nat) (x : K)
    (hx : cpos d J0 pos0 k ≤ x ∧ x < cpos d J0 pos0 (k + 1)) :
    InPiece d (J0 + k) (offset + x + pre d (M * d.length)) := by
  unfold InPiece
  unfold cpos at hx
  rw [show J0 + (k + 1) = J0 + k + 1 by omega] at hx
  constructor <;> linarith [hx.1, hx.2]

/-- `Dash` keeps exactly the drawn pieces (even-length pattern `d` with non-negative entries, exact
cuts): piece `k` of the `nt+1` pieces that `SplitAt` returns is the walk piece `(m - nt) + k` (the
first `m - nt` positions were ≤ 0 and dropped), every point `x` of it is drawn by the pattern iff
`kept` selects the piece. `iEnd` is the pattern index used for the last piece; only its parity
matters (`iEnd = (J0+m) mod n` from `positions_follow_pattern` when every cut is made). -/
theorem kept_pieces_are_drawn (d : List K) (hnn : ∀ x ∈ d, 0 ≤ x) (heven : d.length % 2 = 0)
    (offset pos0 : K) (J0 M m nt iEnd : Nat)
    (hal : offset + pos0 + pre d (M * d.length) = pre d J0)
    (hend : iEnd % 2 = (J0 + m) % 2) (hnt : nt ≤ m) (k : Nat) (hk : k ≤ nt) (x : K)
    (hx : cpos d J0 pos0 (m - nt + k) ≤ x ∧ x < cpos d J0 pos0 (m - nt + k + 1)) :
    kept nt iEnd k = true ↔ DrawnE d (offset + x) := by
  have hin := walk_piece_in_pattern d offset pos0 J0 M hal (m - nt + k) x hx
  rw [drawnE_iff_of_inPiece d hnn heven _ M _ hin, kept_iff]
  omega

/-- The final index of the position loop has the parity `kept_pieces_are_drawn` asks for. -/
theorem end_index_parity (n J0 m iEnd : Nat) (heven : n % 2 = 0) (hend : iEnd = (J0 + m) % n) :
    iEnd % 2 = (J0 + m) % 2 := by
  rw [hend]; exact Nat.mod_mod_of_dvd _ (Nat.dvd_of_mod_eq_zero heven)

/-- 8a98a46: when `SplitAt` makes only the first `made ≤ nt` of the `nt` requested cuts (the others
lie beyond the end it measures), `Dash` selects among the `made+1` returned pieces with the pattern
index stepped back by the cuts not made, `iEnd + nt - made`. The selection is still right on every
stretch between two requested cuts: piece `k ≤ made` (up to the first cut not made, for `k = made`)
is kept iff it is drawn. -/
theorem kept_pieces_are_drawn_cuts_made (d : List K) (hnn : ∀ x ∈ d, 0 ≤ x) (heven : d.length % 2 = 0)
    (offset pos0 : K) (J0 M m nt made iEnd : Nat)
    (hal : offset + pos0 + pre d (M * d.length) = pre d J0)
    (hend : iEnd % 2 = (J0 + m) % 2) (hnt : nt ≤ m) (hmade : made ≤ nt) (k : Nat) (hk : k ≤ made) (x : K)
    (hx : cpos d J0 pos0 (m - nt + k) ≤ x ∧ x < cpos d J0 pos0 (m - nt + k + 1)) :
    kept made (iEnd + nt - made) k = true ↔ DrawnE d (offset + x) := by
  have e : m - (nt - made) - made + k = m - nt + k := by omega
  apply kept_pieces_are_drawn d hnn heven offset pos0 J0 M (m - (nt - made)) made _ hal (by omega) (by omega) k hk x
  rw [e]; exact hx

/-- REFINEMENT of the per-subpath part of `Dash` (position loop, selection of the pieces, join over
the start point of a closed subpath, output order) to the pattern semantics, for every pattern with
positive entries and even length, every phase-aligned start `(J0, pos0)` with `pos0 ≤ 0`, every
subpath length, open or closed, with exact cuts and `Epsilon = 0`: the set of arc-length positions
covered by the returned pieces is exactly the pattern's drawn set inside `[0, length)`. -/
theorem subpath_refines_pattern (d : List K) (hne : d ≠ []) (hpos : ∀ x ∈ d, 0 < x)
    (heven : d.length % 2 = 0) (offset pos0 : K) (J0 M : Nat)
    (hal : offset + pos0 + pre d (M * d.length) = pre d J0) (hp0 : pos0 ≤ 0)
    (length : K) (fuel : Nat) (closed : Bool) (out : List (K × K))
    (h : subpathIntervals 0 fuel d (J0 % d.length) pos0 length closed = some out)
    (x : K) (hx0 : 0 ≤ x) (hxl : x < length) :
    DrawnBy length out x ↔ DrawnE d (offset + x) := by
  have hnn : ∀ y ∈ d, 0 ≤ y := fun y hy => le_of_lt (hpos y hy)
  unfold subpathIntervals at h
  cases hloop : positionsLoop 0 d length fuel (J0 % d.length) pos0 [] with
  | none => rw [hloop] at h; simp at h
  | some r =>
    obtain ⟨t, iEnd⟩ := r
    rw [hloop] at h
    simp only [Option.some.injEq] at h
    subst h
    obtain ⟨m, e1, e2, _, e4, e5, _, _, hnt⟩ :=
      positions_follow_pattern 0 (le_refl _) d hne hpos length fuel J0 pos0 t iEnd hloop
    have R : Run d J0 pos0 length t m :=
      { hne := hne, hpos := hpos, hp0 := hp0, ht := e2,
        hlt := fun k hk => by have := e4 k hk; rwa [add_zero] at this,
        hstop := by rw [add_zero] at e5; exact not_lt.mp e5 }
    have hlen : 0 < length := lt_of_le_of_lt hx0 hxl
    have hend := end_index_parity d.length J0 m iEnd heven e1
    rw [assemble_covers t iEnd length closed x (fun k hk => R.lo_lt_hi hlen k hk) (fun h2 => R.first_lt_last h2)]
    constructor
    · rintro ⟨k, hk, hin⟩
      have hkn : k ≤ t.length := ((kept_iff _ _ _).mp hk).1
      have hw := R.inB_walk k hkn x hx0 hxl hin
      exact (kept_pieces_are_drawn d hnn heven offset pos0 J0 M m t.length iEnd hal hend hnt k hkn x hw).mp hk
    · intro hd
      obtain ⟨k, hkn, hin⟩ := R.exists_piece x hx0 hxl
      have hw := R.inB_walk k hkn x hx0 hxl hin
      exact ⟨k, (kept_pieces_are_drawn d hnn heven offset pos0 J0 M m t.length iEnd hal hend hnt k hkn x hw).mpr hd, hin⟩

/-- Since `dashStart` returns a start inside piece `i0` (`-pos0 < d[i0]`, `start_invariant`), the
first position of the loop is already positive: the `if 0.0 < pos` filter of path.go never drops a
position (the branch is unreachable since 8d5b47c; the generators cannot reach it either), and the
final pattern index is the start index advanced by the number of cuts. -/
theorem positions_none_skipped (d : List K) (hne : d ≠ []) (hpos : ∀ x ∈ d, 0 < x) (length : K)
    (fuel J0 : Nat) (pos0 : K) (t : List K) (iEnd : Nat) (hp0 : pos0 ≤ 0) (hin : -pos0 < cyc d J0)
    (h : positionsLoop 0 d length fuel (J0 % d.length) pos0 [] = some (t, iEnd)) :
    iEnd = (J0 + t.length) % d.length := by
  obtain ⟨m, e1, e2, _, e4, e5, _, _, hnt⟩ :=
    positions_follow_pattern 0 (le_refl _) d hne hpos length fuel J0 pos0 t iEnd h
  have R : Run d J0 pos0 length t m :=
    { hne := hne, hpos := hpos, hp0 := hp0, ht := e2,
      hlt := fun k hk => by have := e4 k hk; rwa [add_zero] at this,
      hstop := by rw [add_zero] at e5; exact not_lt.mp e5 }
  have hm : t.length = m := by
    by_contra hne'
    have h1 : 1 ≤ m - t.length := by omega
    have hs := R.start_le
    have hmono : cpos d J0 pos0 1 ≤ cpos d J0 pos0 (m - t.length) := by
      rcases Nat.eq_or_lt_of_le h1 with heq | hlt
      · rw [← heq]
      · exact le_of_lt (cpos_strictMono d hne hpos J0 pos0 _ _ hlt)
    have hc1 : cpos d J0 pos0 1 = pos0 + cyc d J0 := by
      rw [show (1 : Nat) = 0 + 1 from rfl, cpos_succ, cpos_zero]; simp
    linarith
  rw [hm]; exact e1

/-- `Dash` on one subpath, from the offset: with the start computed by `dashStart` (any offset, also
negative or many periods) the returned pieces cover exactly the points `x ∈ [0, length)` whose
phase `offset + x` the (canonical, even-length, positive) pattern draws. This is the composition of
`start_invariant` and `subpath_refines_pattern`; it holds for every subpath independently because
`Dash` restarts every subpath from the same `(i0, pos0)`. -/
theorem dash_subpath_refines_pattern (fmod : K → K → K) (d : List K) (hne : d ≠ []) (hpos : ∀ x ∈ d, 0 < x)
    (heven : d.length % 2 = 0) (hmod : FmodSpec fmod d) (offset : K) (fuel : Nat) (i0 : Nat) (pos0 : K)
    (hs : dashStart fmod fuel offset d = some (i0, pos0))
    (length : K) (closed : Bool) (out : List (K × K))
    (h : subpathIntervals 0 fuel d i0 pos0 length closed = some out)
    (x : K) (hx0 : 0 ≤ x) (hxl : x < length) :
    DrawnBy length out x ↔ DrawnE d (offset + x) := by
  obtain ⟨hp0, _, J, M, hJ, _, hal, _⟩ :=
    start_invariant fmod d hne (fun y hy => le_of_lt (hpos y hy)) hmod fuel offset i0 pos0 hs
  rw [← hJ] at h
  exact subpath_refines_pattern d hne hpos heven offset pos0 J M hal hp0 length fuel closed out h x hx0 hxl

/-- Soundness of the executable verdict's classifier: `drawnAt` (the parity of the piece index that
`dashStart` finds for the phase) decides the pattern semantics `DrawnE`, for every phase. -/
theorem phase_drawn_iff (fmod : K → K → K) (d : List K) (hne : d ≠ []) (hnn : ∀ x ∈ d, 0 ≤ x)
    (heven : d.length % 2 = 0) (hmod : FmodSpec fmod d) (fuel : Nat) (φ : K) (b : Bool)
    (h : drawnAt fmod fuel d φ = some b) : b = true ↔ DrawnE d φ := by
  unfold drawnAt at h
  cases hs : dashStart fmod fuel φ d with
  | none => rw [hs] at h; simp at h
  | some r =>
    obtain ⟨i0, pos0⟩ := r
    rw [hs] at h
    simp only [Option.some.injEq] at h
    obtain ⟨hp0, _, J, M, hJ, hlt, hal, _⟩ := start_invariant fmod d hne hnn hmod fuel φ i0 pos0 hs
    have hin : InPiece d J (φ + pre d (M * d.length)) := by
      unfold InPiece; rw [pre_succ]; constructor <;> linarith
    rw [drawnE_iff_of_inPiece d hnn heven J M φ hin, ← h]
    have h2 : i0 % 2 = J % 2 := by
      rw [← hJ]; exact Nat.mod_mod_of_dvd _ (Nat.dvd_of_mod_eq_zero heven)
    simp only [beq_iff_eq]
    omega

/-- The verdict is monotone in the tolerance: a sample point accepted with `τ` is accepted with
every `τ' ≥ τ`. -/
theorem sampleOk_mono (fmod : K → K → K) (fuel : Nat) (offset : K) (d : List K) (length τ τ' : K)
    (obs : List (K × K)) (ends : List K) (x : K) (hτ : τ ≤ τ')
    (h : sampleOk fmod fuel offset d length τ obs ends x = true) :
    sampleOk fmod fuel offset d length τ' obs ends x = true := by
  unfold sampleOk at h ⊢
  cases hd : drawnAt fmod fuel d (offset + x) with
  | none => rw [hd] at h; simp at h
  | some b =>
    rw [hd] at h
    simp only [Bool.or_eq_true] at h ⊢
    rcases h with h | h
    · exact Or.inl h
    · right
      unfold nearB at h ⊢
      rw [List.any_eq_true] at h ⊢
      obtain ⟨e, he, hc⟩ := h
      refine ⟨e, he, ?_⟩
      simp only [Bool.and_eq_true, decide_eq_true_eq] at hc ⊢
      exact ⟨by linarith [hc.1], by linarith [hc.2]⟩

/-- `coversB` is the executable form of `Covers`. -/
theorem coversB_iff (length : K) (ab : K × K) (x : K) : coversB length ab x = true ↔ Covers length ab x := by
  unfold coversB Covers
  simp only [Bool.or_eq_true, Bool.and_eq_true, decide_eq_true_eq, and_assoc]

/-- Unit independence of the position list (exact arithmetic): with pattern, start position and
subpath length multiplied by `s > 0`, `Dash` computes `s` times the same cut positions and the same
final index. Together with `start_scale_invariant`: the bookkeeping of `Dash` does not depend on
the unit of the coordinates, so `Dash(s·p, s·offset, s·d) = s·Dash(p, offset, d)` can only fail
through `SplitAt`/`Length` or the absolute `Epsilon` — the harness checks that law on the real code
for `s = 2^k`. -/
theorem positions_scale_invariant (s : K) (hs : 0 < s) (d : List K) (length : K) (fuel i : Nat) (pos : K) :
    positionsLoop 0 (d.map (s * ·)) (s * length) fuel i (s * pos) [] =
      (positionsLoop 0 d length fuel i pos []).map (fun r => (r.1.map (s * ·), r.2)) := by
  simpa using positionsLoop_scale s hs d length fuel i pos []

/-- Unit independence of the loop of `dashStart`: same piece index, remaining offset times `s`. -/
theorem start_scale_invariant (s : K) (hs : 0 < s) (d : List K) (fuel i : Nat) (off : K) :
    dashStartLoop (d.map (s * ·)) fuel i (s * off) =
      (dashStartLoop d fuel i off).map (fun r => (r.1, s * r.2)) :=
  dashStartLoop_scale s hs d fuel i off

/-- The pattern `Dash` walks over (after the odd-length doubling) has even length, as
`kept_pieces_are_drawn` requires. -/
theorem doubled_even (d : List K) : (doubled d).length % 2 = 0 := by
  unfold doubled
  split
  · rw [List.length_append]; omega
  · omega

/-- Full statement of C05.canonical_preserves_pattern. Not proved in general (the zero-merging
rewriting steps are checked on the real function by the harness oracle `checkCanonSemantics`);
`canonical_shape_partial` proves the shape of the result. -/
def canonical_preserves_pattern_statement : Prop :=
  ∀ (d : List K) (offset o' : K) (d' : List K), (∀ x ∈ d, 0 ≤ x) →
    dashCanonical 0 offset d = some (o', d') →
      (d' = [] ∧ (d = [] ∨ ∀ x, Drawn offset d x)) ∨
      (d' = [0] ∧ ∀ x, ¬ Drawn offset d x) ∨
      ((∀ y ∈ d', 0 < y) ∧ ∀ x, Drawn offset d x ↔ Drawn o' d' x)

/-- Shape of the canonical pattern: `dashCanonical` returns the documented degenerate results `[]`
(solid) / `[0]` (nothing), or a pattern whose entries are all positive — which is what
`start_terminates`, `positions_follow_pattern` and `kept_pieces_are_drawn` need. -/
theorem canonical_shape_partial (d : List K) (offset o' : K) (d' : List K)
    (h : dashCanonical 0 offset d = some (o', d')) :
    d' = [] ∨ d' = [0] ∨ (d' ≠ [] ∧ ∀ y ∈ d', 0 < y) := by
  unfold dashCanonical at h
  split at h
  · simp only [Option.some.injEq, Prod.mk.injEq] at h; exact Or.inl h.2.symm
  · split at h
    · next hfz =>
      simp only [Option.some.injEq, Prod.mk.injEq] at h
      obtain ⟨_, rfl⟩ := h
      unfold firstZero at hfz
      split at hfz
      · cases hfz
      · split at hfz
        · split at hfz
          · cases hfz
          · cases hfz; exact Or.inr (Or.inl rfl)
        · cases hfz
    · split at h
      · cases h
      · next hlz =>
        simp only [Option.some.injEq, Prod.mk.injEq] at h
        obtain ⟨_, rfl⟩ := h
        unfold lastZero at hlz
        split at hlz
        · cases hlz
        · split at hlz
          · split at hlz
            · cases hlz; exact Or.inl rfl
            · split at hlz <;> cases hlz
          · cases hlz
      · next d2 _ =>
        split at h
        · simp only [Option.some.injEq, Prod.mk.injEq] at h; exact Or.inr (Or.inl h.2.symm)
        · next hnp =>
          simp only [Option.some.injEq, Prod.mk.injEq] at h
          obtain ⟨_, rfl⟩ := h
          have hall : ∀ y ∈ d2, 0 < y := by
            intro y hy
            by_contra hc
            apply hnp
            unfold hasNonPositive
            rw [List.any_eq_true]
            refine ⟨y, hy, ?_⟩
            rw [Bool.or_eq_true, decide_eq_true_eq, equal_zero_iff]
            rcases lt_or_eq_of_le (not_lt.mp hc) with h1 | h1
            · exact Or.inl h1
            · exact Or.inr h1
          by_cases hne : reduceRepeat 0 d2.length d2 = []
          · exact Or.inl hne
          · exact Or.inr (Or.inr ⟨hne, fun y hy => hall y (reduceRepeat_mem _ _ _ hy)⟩)

/-! ### non-vacuity: the model computes the documented example (`Dash(7, 2, 2)` on a line of length
10 draws [1,3], [5,7], [9,10]); all hypotheses of the theorems above are satisfiable. -/
example : dashCanonical (0 : Int) 7 [2, 3, 2, 3] = some (7, [2, 3]) := by decide
example : dashStart Int.tmod 10 (7 : Int) [2, 2] = some (1, -1) := by decide
example : dashStart Int.tmod 10 (-5 : Int) [2, 2] = some (1, -1) := by decide
example : dashStart Int.tmod 10 (-154 : Int) [2, 2] = some (1, 0) := by decide
example : positionsLoop (0 : Int) [2, 2] 10 20 1 (-1) [] = some ([1, 3, 5, 7, 9], 0) := by decide
example : (List.range 6).filter (kept 5 0) = [1, 3, 5] := by decide
example : dash Int.tmod (0 : Int) 50 (-1) [2, 2] [(10, false)] = .pieces [(0, 1, 3), (0, 5, 7), (0, 9, 10)] := by decide
example : dash Int.tmod (0 : Int) 50 (-5) [2, 2] [(10, false)] = .pieces [(0, 1, 3), (0, 5, 7), (0, 9, 10)] := by decide
example : subpathIntervals (0 : Int) 50 [2, 2] 1 (-1) 12 true = some [(1, 3), (5, 7), (9, 11)] := by decide
example : subpathIntervals (0 : Int) 50 [2, 2] 1 (-1) 10 true = some [(9, 10), (1, 3), (5, 7)] := by decide
example : subpathIntervals (0 : Int) 50 [2, 2] 0 (-1) 12 true = some [(11, 1), (3, 5), (7, 9)] := by decide
example : dash Int.tmod (0 : Int) 50 0 [1, 0, 2, 3] [(10, false)] = .pieces [(0, 0, 3), (0, 6, 9)] := by decide

end C05
