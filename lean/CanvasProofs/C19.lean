import CanvasProofs.Lemmas.C19State
import CanvasProofs.Lemmas.C19Ops
import CanvasProofs.Lemmas.C19Geom
import CanvasProofs.C07
import Mathlib.Tactic.Ring
import Mathlib.Tactic.FieldSimp
import Mathlib.Tactic.Linarith
import Mathlib.Tactic.NormNum

/-! # C19 — Imported SVG documents draw the geometry the SVG specifies

Theorems about the hand-written model `CanvasModel/C19.lean` of the semantic layer of `ParseSVG`
(/repo/svg.go) over lexed element trees.  Part 1 is generic in the scalar type and in all matrix /
builder operations (`Ops α`) and is proved by structural induction over arbitrary trees.  Part 2
instantiates the model with the *generated* translations of /repo/util.go over an arbitrary linearly
ordered field (`opsK`, `Path.checkDash` arbitrary) and compares what the importer does with what
SVG 1.1 assigns.  Where the unchanged code deviates from SVG 1.1 the full statement is kept as a
`def …_statement`, the proved theorem is `…_partial` with the excluded class as a hypothesis, and a
witness theorem exhibits the defect (known findings C19-*).
The model is tied to the code by the correspondence run of `bin/check C19`. -/
set_option linter.unusedSectionVars false
set_option linter.unusedVariables false
namespace C19
open Canvas Canvas.C19 GenK

/-! ## Part 1 — the document walk, generic -/
section Generic
variable {α : Type} (o : Ops α)

/-- everything push/pop must restore: the current context state, the importer's own state, both
stacks, the element stack and the document dimensions -/
def frame (p : P α) : CState α × SState α × Outer α := (p.ctx, p.st, outer p)

theorem frame_pop_push (p q : P α) (tag : String) (attrs : List (Attr α))
    (h : outer q = outer (push p tag attrs)) : frame (pop q) = frame p := by
  have h1 : q.stStack = p.st :: p.stStack := congrArg Outer.stStack h
  have h2 : q.ctxStack = p.ctx :: p.ctxStack := congrArg Outer.ctxStack h
  have h3 : q.elems = elemOf tag attrs :: p.elems := congrArg Outer.elems h
  have h4 : q.cw = p.cw := congrArg Outer.cw h
  have h5 : q.ch = p.ch := congrArg Outer.ch h
  have h6 : q.width = p.width := congrArg Outer.width h
  have h7 : q.height = p.height := congrArg Outer.height h
  have h8 : q.diagonal = p.diagonal := congrArg Outer.diagonal h
  unfold pop
  simp only [h1, h2]
  simp only [frame, outer, h3, h4, h5, h6, h7, h8, List.tail_cons]

mutual
/-- **state_balanced**: for EVERY element tree (arbitrary nesting, any attributes, any style rules) the
parser state after the element equals the state before it: context style and view, the importer's own
state, both stacks, the element stack and the document dimensions. -/
theorem state_balanced : ∀ (t : Canvas.C19.Tree α) (p : P α), frame (walk o t p) = frame p
  | .elem tag attrs children, p => by
    rw [walk]
    apply frame_pop_push
    have hl := congrArg (fun f => f.2.2) (walkList_balanced children (drawShape o (setStyling o (push p tag attrs) attrs) tag attrs))
    simp only [frame] at hl
    rw [hl]
    have hd := congrArg Inner.out (inner_drawShape o (setStyling o (push p tag attrs) attrs) tag attrs)
    simp only [inner] at hd
    rw [hd, outer_setStyling]
  | .css rules, p => by rw [walk]; rfl
theorem walkList_balanced : ∀ (ts : List (Canvas.C19.Tree α)) (p : P α), frame (walkList o ts p) = frame p
  | [], p => by rw [walkList]
  | t :: ts, p => by rw [walkList, walkList_balanced ts, state_balanced t]
end

mutual
/-- **painting order**: walking a tree only puts new layers on top of the existing ones (document
order = painting order, nothing already painted is touched). -/
theorem layers_extend : ∀ (t : Canvas.C19.Tree α) (p : P α), ∃ new, (walk o t p).layers = new ++ p.layers
  | .elem tag attrs children, p => by
    rw [walk]
    obtain ⟨n2, h2⟩ := layersList_extend children (drawShape o (setStyling o (push p tag attrs) attrs) tag attrs)
    obtain ⟨n1, h1, _⟩ := layers_drawShape o (setStyling o (push p tag attrs) attrs) tag attrs
    refine ⟨n2 ++ n1, ?_⟩
    have hp : ∀ q : P α, (pop q).layers = q.layers := by
      intro q; unfold pop; split
      · rfl
      · simp only []; split <;> rfl
    rw [hp, h2, h1, layers_setStyling]
    simp [push]
  | .css rules, p => by rw [walk]; exact ⟨[], rfl⟩
theorem layersList_extend : ∀ (ts : List (Canvas.C19.Tree α)) (p : P α), ∃ new, (walkList o ts p).layers = new ++ p.layers
  | [], p => by rw [walkList]; exact ⟨[], rfl⟩
  | t :: ts, p => by
    rw [walkList]
    obtain ⟨n2, h2⟩ := layersList_extend ts (walk o t p)
    obtain ⟨n1, h1⟩ := layers_extend t p
    exact ⟨n2 ++ n1, by rw [h2, h1, List.append_assoc]⟩
end

/-- a leaf that is not a shape (e.g. an empty group) draws nothing -/
theorem group_draws_nothing (p : P α) (attrs : List (Attr α)) :
    (walk o (.elem "g" attrs []) p).layers = p.layers := by
  rw [walk, walkList]
  have hp : ∀ q : P α, (pop q).layers = q.layers := by
    intro q; unfold pop; split
    · rfl
    · simp only []; split <;> rfl
  rw [hp]
  have : drawShape o (setStyling o (push p "g" attrs) attrs) "g" attrs = setStyling o (push p "g" attrs) attrs := by
    unfold drawShape; rfl
  rw [this, layers_setStyling]; rfl

/-- **precedence, as implemented**: whatever the style rules say, a presentation attribute `fill`
that comes last among the attributes decides the fill (in SVG 1.1 a matching rule would win: known
finding C19-css-vs-attr). -/
theorem last_fill_attribute_wins (p : P α) (attrs : List (Attr α)) (c : RGBA) :
    (setStyling o p (attrs ++ [.plain "fill" (.color c)])).ctx.fill = c := by
  unfold setStyling
  rw [List.foldl_append]
  simp [applyAttr, setAttribute]

end Generic

/-! ## Part 2 — against SVG 1.1, over an ordered field with the generated matrix definitions -/
section Field
variable {K : Type} [Field K] [LinearOrder K] [IsStrictOrderedRing K] [Env K]
variable (cd : K → List K → K → List K × Bool)

/-! ### transform lists (SVG 1.1 §7.6) -/

/-- the matrix of a transform list is the product of the matrices of its parts, in order -/
theorem transform_append (l1 l2 : List (String × List K)) :
    (parseTransform (opsK cd) (l1 ++ l2)).1 =
      Matrix.Mul (parseTransform (opsK cd) l1).1 (parseTransform (opsK cd) l2).1 := by
  unfold parseTransform
  rw [List.foldl_append]
  have h : List.foldl (xformStep (opsK cd)) ((opsK cd).ident, false) l1 =
      ((List.foldl (xformStep (opsK cd)) ((opsK cd).ident, false) l1).1, (List.foldl (xformStep (opsK cd)) ((opsK cd).ident, false) l1).2) := rfl
  rw [h]
  exact foldl_xform cd l2 _ _

/-- **transform_list**: the list "A B" acts on a point as A∘B — B first, then A (SVG 1.1 §7.6:
the transformations are applied as if nested, right to left on the coordinates) -/
theorem transform_list (a b : List (String × List K)) (p : Pt K) :
    Matrix.Dot (parseTransform (opsK cd) (a ++ b)).1 p =
      Matrix.Dot (parseTransform (opsK cd) a).1 (Matrix.Dot (parseTransform (opsK cd) b).1 p) := by
  rw [transform_append, C07.dot_mul]

/-- the transform attribute is composed onto the inherited view: a point is first transformed by the
element's own list, then by everything inherited -/
theorem transform_nests (q : P K) (l : List (String × List K)) (pt : Pt K) :
    Matrix.Dot (setAttribute (opsK cd) q "transform" (.xform l)).ctx.view pt =
      Matrix.Dot q.ctx.view (Matrix.Dot (parseTransform (opsK cd) l).1 pt) := by
  simp only [setAttribute]
  exact C07.dot_mul _ _ _

/-- each supported function acts on user coordinates as SVG 1.1 §7.6 defines it; `matrix(a b c d e f)`
is x' = a x + c y + e, y' = b x + d y + f; `rotate` uses (sin, cos) of the angle in degrees -/
theorem transform_functions (x y a b c d e f tx ty sx sy : K) :
    Matrix.Dot (fnMatrix cd ("translate", [tx, ty])) ⟨x, y⟩ = ⟨x + tx, y + ty⟩ ∧
    Matrix.Dot (fnMatrix cd ("translate", [tx])) ⟨x, y⟩ = ⟨x + tx, y⟩ ∧
    Matrix.Dot (fnMatrix cd ("scale", [sx, sy])) ⟨x, y⟩ = ⟨sx * x, sy * y⟩ ∧
    Matrix.Dot (fnMatrix cd ("scale", [sx])) ⟨x, y⟩ = ⟨sx * x, sx * y⟩ ∧
    Matrix.Dot (fnMatrix cd ("matrix", [a, b, c, d, e, f])) ⟨x, y⟩ = ⟨a * x + c * y + e, b * x + d * y + f⟩ ∧
    Matrix.Dot (fnMatrix cd ("rotate", [a])) ⟨x, y⟩ =
      ⟨Env.cos (a * Env.pi / 180) * x - Env.sin (a * Env.pi / 180) * y,
       Env.sin (a * Env.pi / 180) * x + Env.cos (a * Env.pi / 180) * y⟩ ∧
    Matrix.Dot (fnMatrix cd ("rotate", [a, tx, ty])) ⟨tx, ty⟩ = ⟨tx, ty⟩ := by
  refine ⟨?_, ?_, ?_, ?_, ?_, ?_, ?_⟩ <;>
    simp only [fnMatrix, xformStep, identK, opsK, arithK, rotate, Matrix.Translate, Matrix.Scale, Matrix.Mul, Matrix.Dot,
      Nat.cast_ofNat] <;>
    congr 1 <;> ring

/-- SVG 1.1: skewX(a) is x' = x + tan(a) y -/
def skew_statement : Prop :=
  ∀ (a x y : K) (tan : K → K), Matrix.Dot (fnMatrix cd ("skewx", [a])) ⟨x, y⟩ = ⟨x + tan (a * Env.pi / 180) * y, y⟩

/-- witness (known finding C19-skew-ignored): skewX/skewY are the identity in the importer -/
theorem skew_ignored_defect (a : K) :
    fnMatrix cd ("skewx", [a]) = identK ∧ fnMatrix cd ("skewy", [a]) = identK := by
  constructor <;> simp [fnMatrix, xformStep]

/-! ### viewBox → canvas (SVG 1.1 §7.7) -/

/-- the matrix under which `drawPath` places user coordinates on the canvas (before the shape's own
translation): flip about the middle of the canvas ∘ view -/
def canvasMatrix (p : P K) : Mat K := Matrix.Mul (Matrix.ReflectYAbout identK (p.ch / 2)) p.ctx.view

/-- SVG 1.1: a viewBox `x y W H` is mapped onto the viewport; on the canvas (y up) its top-left
corner lands on (0, h) and its bottom-right corner on (w, 0) -/
def viewbox_maps_statement : Prop :=
  ∀ (w h x y W H : K) (e : Bool) (lens : List K), 0 < W → 0 < H →
    Matrix.Dot (canvasMatrix (init (opsK cd) w h (x, y, W, H) e lens)) ⟨x, y⟩ = ⟨0, h⟩ ∧
    Matrix.Dot (canvasMatrix (init (opsK cd) w h (x, y, W, H) e lens)) ⟨x + W, y + H⟩ = ⟨w, 0⟩

/-- **viewbox_maps** (partial: viewBox at the origin): the view maps the viewBox rectangle onto the
canvas rectangle with the y axis pointing down — all four corners, hence (affine map) every point -/
theorem viewbox_maps_partial (w h W H : K) (e : Bool) (lens : List K) (hW : 0 < W) (hH : 0 < H) :
    let m := canvasMatrix (init (opsK cd) w h (0, 0, W, H) e lens)
    Matrix.Dot m ⟨0, 0⟩ = ⟨0, h⟩ ∧ Matrix.Dot m ⟨W, 0⟩ = ⟨w, h⟩ ∧
    Matrix.Dot m ⟨0, H⟩ = ⟨0, 0⟩ ∧ Matrix.Dot m ⟨W, H⟩ = ⟨w, 0⟩ := by
  have W0 : W ≠ 0 := ne_of_gt hW
  have H0 : H ≠ 0 := ne_of_gt hH
  simp only [canvasMatrix, init, defaultCtx, opsK, arithK, identK, sub_zero, hW, hH, decide_true, Bool.and_self, if_true,
    Matrix.Translate, Matrix.Scale, Matrix.ReflectYAbout, Matrix.Mul, Matrix.Dot]
  refine ⟨?_, ?_, ?_, ?_⟩ <;> congr 1 <;> field_simp <;> ring

/-- witness (known finding C19-viewbox-origin): the four numbers are read as x0 y0 x1 y1, so with
viewBox="10 10 200 100" on a 200 x 100 canvas the bottom-right corner (210,110) of the viewBox does
not land on the canvas corner -/
theorem viewbox_origin_defect (e : Bool) (lens : List K) :
    Matrix.Dot (canvasMatrix (init (opsK cd) (200 : K) 100 (10, 10, 200, 100) e lens)) ⟨210, 110⟩ ≠ ⟨200, 0⟩ := by
  simp only [canvasMatrix, init, defaultCtx, opsK, arithK, identK,
    Matrix.Translate, Matrix.Scale, Matrix.ReflectYAbout, Matrix.Mul, Matrix.Dot]
  norm_num

/-! ### units (SVG 1.1 §7.10, CSS absolute units at 96 px per inch) -/

/-- **units**: the whole table of `parseDimension`: 1in = 2.54cm = 25.4mm = 101.6Q = 72pt = 6pc = 96px,
unitless = px = user units, percentages of the reference length, angles to degrees, anything else is an error -/
theorem units (n parent : K) :
    parseDimension (opsK cd) 1 "in" parent = (96, false) ∧
    parseDimension (opsK cd) (254 / 100) "cm" parent = (96, false) ∧
    parseDimension (opsK cd) (254 / 10) "mm" parent = (96, false) ∧
    parseDimension (opsK cd) (1016 / 10) "q" parent = (96, false) ∧
    parseDimension (opsK cd) 72 "pt" parent = (96, false) ∧
    parseDimension (opsK cd) 6 "pc" parent = (96, false) ∧
    parseDimension (opsK cd) n "px" parent = (n, false) ∧
    parseDimension (opsK cd) n "" parent = (n, false) ∧
    parseDimension (opsK cd) n "%" parent = (n * parent / 100, false) ∧
    parseDimension (opsK cd) n "deg" parent = (n, false) ∧
    parseDimension (opsK cd) 400 "grad" parent = (360, false) ∧
    parseDimension (opsK cd) 1 "turn" parent = (360, false) ∧
    (parseDimension (opsK cd) n "em" parent).2 = true := by
  refine ⟨?_, ?_, ?_, ?_, ?_, ?_, ?_, ?_, ?_, ?_, ?_, ?_, by simp [parseDimension]⟩ <;>
    simp only [parseDimension, opsK, arithK, Nat.cast_ofNat] <;> norm_num

/-- all length units are linear: `k` units are `k` times one unit -/
theorem units_linear (k parent : K) (u : String) (hu : u ∈ ["in", "cm", "mm", "q", "pt", "pc", "px", ""]) :
    (parseDimension (opsK cd) k u parent).1 = k * (parseDimension (opsK cd) 1 u parent).1 := by
  simp only [List.mem_cons, List.mem_nil_iff, or_false] at hu
  rcases hu with h | h | h | h | h | h | h | h <;> subst h <;>
    simp only [parseDimension, opsK, arithK] <;> ring

/-! ### document size -/

/-- without width/height the canvas is the viewBox size converted from px to mm, and percentages
refer to the viewBox width/height -/
theorem size_from_viewbox (W H : K) (e : Bool) (lens : List K) :
    let r := parseViewBox (opsK cd) ⟨none, none, some (0, 0, W, H)⟩
    r.1 = W * (254 / 10) / 96 ∧ r.2.1 = H * (254 / 10) / 96 ∧
    (init (opsK cd) r.1 r.2.1 r.2.2.1 e lens).width = W ∧ (init (opsK cd) r.1 r.2.1 r.2.2.1 e lens).height = H := by
  simp only [parseViewBox, init, opsK, arithK, Option.getD_some, sub_zero, Nat.cast_ofNat]
  refine ⟨trivial, trivial, ?_, ?_⟩ <;> field_simp

/-- SVG 1.1: width="100mm" is a canvas 100 mm wide -/
def size_statement : Prop :=
  (parseViewBox (opsK cd) ⟨some ((100 : K), "mm"), some (50, "mm"), none⟩).1 = 100

/-- witness (known finding C19-size-px-as-mm): width="100mm" is converted to px (377.95…) and that
number is then used as millimetres -/
theorem size_px_as_mm_defect :
    (parseViewBox (opsK cd) ⟨some ((100 : K), "mm"), some (50, "mm"), none⟩).1 = 100 * 96 / (254 / 10) ∧
    ¬ size_statement cd := by
  have h : (parseViewBox (opsK cd) ⟨some ((100 : K), "mm"), some (50, "mm"), none⟩).1 = 100 * 96 / (254 / 10) := by
    simp [parseViewBox, parseDimension, opsK, arithK]
  refine ⟨h, ?_⟩
  unfold size_statement
  rw [h]
  norm_num

/-! ### shapes (SVG 1.1 §9) — the command lists handed to the renderer, in shape-local coordinates
(the matrix carries the translation by (x, y) resp. (cx, cy)) -/

/-- **shape_geometry (rect)**: a rect of non-degenerate size is the closed polygon (0,0) (w,0) (w,h) (0,h) -/
theorem shape_rect (w h : K) (heps : (0 : K) ≤ Env.epsilon)
    (hw : GenK.Equal w 0 = false) (hh : GenK.Equal h 0 = false) :
    (rectangle (opsK cd) w h).reverse =
      [.move ⟨0, 0⟩, .line ⟨w, 0⟩, .line ⟨w, h⟩, .line ⟨0, h⟩, .close ⟨0, 0⟩] :=
  rectangle_path cd w h heps hw hh

/-- **shape_geometry (circle)**: a circle of radius r > 0 is two half-circle arcs of radius r from (r,0)
through (-r,0) back to (r,0), closed -/
theorem shape_circle (r : K) (hr : 0 < r) (heps : (0 : K) ≤ Env.epsilon) (h0 : GenK.Equal r 0 = false) :
    (ellipse (opsK cd) r r).reverse =
      [.move ⟨r, 0⟩, .arc r r 0 false true ⟨-r, 0⟩, .arc r r 0 false true ⟨r, 0⟩, .close ⟨r, 0⟩] := by
  rw [ellipse_path cd r r heps h0 h0, arcFix_circle _ _ r hr heps, arcFix_circle _ _ r hr heps]

/-- **shape_geometry (ellipse)**: two half-ellipse arcs with the radii in canonical order (the larger
first, rotated by 90° when rx < ry), through (-rx,0) back to (rx,0), closed -/
theorem shape_ellipse (rx ry : K) (hx : 0 < rx) (hy : 0 < ry) (heps : (0 : K) ≤ Env.epsilon)
    (hx0 : GenK.Equal rx 0 = false) (hy0 : GenK.Equal ry 0 = false) (hne : GenK.Equal rx ry = false) :
    ∃ a b phi, (a, b, phi) = (if rx < ry then (ry, rx, 90 * Env.pi / 180) else (rx, ry, (0 : K))) ∧
    (ellipse (opsK cd) rx ry).reverse =
      [.move ⟨rx, 0⟩, .arc a b phi false true ⟨-rx, 0⟩, .arc a b phi false true ⟨rx, 0⟩, .close ⟨rx, 0⟩] := by
  have hf : ∀ s e : Pt K, arcFixK s rx ry e = (if rx < ry then (ry, rx, 90 * Env.pi / 180) else (rx, ry, (0 : K))) := by
    intro s e; unfold arcFixK; simp [abs_of_pos hx, abs_of_pos hy, hne]
  rw [ellipse_path cd rx ry heps hx0 hy0, hf, hf]
  exact ⟨_, _, _, rfl, rfl⟩

/-- **shape_geometry (line)** -/
theorem shape_line (x1 y1 x2 y2 : K) (hne : ptEquals (opsK cd) ⟨x1, y1⟩ ⟨x2, y2⟩ = false) :
    (lineTo (opsK cd) ⟨x2, y2⟩ (moveTo ⟨x1, y1⟩ [])).reverse = [.move ⟨x1, y1⟩, .line ⟨x2, y2⟩] :=
  line_path cd _ _ hne

/-- **shape_geometry (polygon, three points in general position)** -/
theorem shape_triangle (ax ay bx by' cx cy : K)
    (hab : (GenK.Equal ax bx && GenK.Equal ay by') = false)
    (hbc : (GenK.Equal bx cx && GenK.Equal by' cy) = false)
    (hca : (GenK.Equal cx ax && GenK.Equal cy ay) = false)
    (hncol : Point.PerpDot (psub ⟨bx, by'⟩ ⟨ax, ay⟩) (psub ⟨cx, cy⟩ ⟨bx, by'⟩) ≠ 0) :
    (close (opsK cd) (polyPoints (opsK cd) true [ax, ay, bx, by', cx, cy] [])).reverse =
      [.move ⟨ax, ay⟩, .line ⟨bx, by'⟩, .line ⟨cx, cy⟩, .close ⟨ax, ay⟩] :=
  triangle_path cd ax ay bx by' cx cy hab hbc hca hncol

/-! ### stroke properties in user units (SVG 1.1 §11.4) -/

/-- the dash lengths a canvas layer means: `Dashes` are multiples of the stroke width (canvas.go ScaleDash) -/
def effectiveDashes (l : Layer K) : List K := l.dashes.map (fun d => d * l.sw)

/-- SVG 1.1: the numbers of stroke-dasharray are user-unit lengths whatever the stroke width -/
def dash_units_statement : Prop :=
  ∀ (q : P K) (ds : List K) (path : RPath K), hasFill q.ctx = true →
    (∀ off len, cd off ds len = (ds, true)) →
    ∀ L, (drawPath (opsK cd) (setAttribute (opsK cd) q "stroke-dasharray" (.nums ds)) 0 0 path).layers = L :: q.layers →
      effectiveDashes L = ds

/-- **dash units** (partial: stroke-width 1): the rendered dash lengths are the SVG numbers -/
theorem dash_units_partial (q : P K) (ds : List K) (path : RPath K) (hf : hasFill q.ctx = true)
    (hcd : ∀ off len, cd off ds len = (ds, true)) (hsw : q.ctx.sw = 1) :
    ∀ L, (drawPath (opsK cd) (setAttribute (opsK cd) q "stroke-dasharray" (.nums ds)) 0 0 path).layers = L :: q.layers →
      effectiveDashes L = ds := by
  intro L hL
  have hs : setAttribute (opsK cd) q "stroke-dasharray" (.nums ds) = { q with ctx := { q.ctx with dashes := ds } } := by
    simp [setAttribute]
  rw [hs] at hL
  have hf' : hasFill ({ q.ctx with dashes := ds } : CState K) = true := hf
  simp only [drawPath, hf', Bool.not_true, Bool.false_and] at hL
  have := (List.cons.inj hL).1
  subst this
  simp only [effectiveDashes, opsK, hcd, hsw, mul_one, List.map_id']

/-- witness (known finding C19-dash-user-units, the expected finding): with stroke-width 2 the dash
array "4 2" is rendered as 8 / 4 user units -/
theorem dash_user_units_defect : ¬ dash_units_statement (K := K) (fun _ d _ => (d, true)) := by
  intro h
  let q : P K := { init (opsK (fun _ d _ => (d, true))) 100 100 (0, 0, 0, 0) false [] with
    ctx := { defaultCtx (opsK (fun _ d _ => (d, true))) with sw := 2 } }
  have hq := h q [4, 2] [] rfl (fun _ _ => rfl)
  have hs : setAttribute (opsK (fun _ d _ => (d, true))) q "stroke-dasharray" (.nums [4, 2]) =
      { q with ctx := { q.ctx with dashes := [4, 2] } } := by simp [setAttribute]
  rw [hs] at hq
  have hf' : hasFill ({ q.ctx with dashes := [4, 2] } : CState K) = true := rfl
  simp only [drawPath, hf', Bool.not_true, Bool.false_and] at hq
  have h2 := hq _ rfl
  simp only [effectiveDashes, q, opsK, defaultCtx, List.map_cons, List.map_nil] at h2
  have h3 := (List.cons.inj h2).1
  norm_num at h3

/-! ### a whole document against SVG 1.1 -/

/-- `<svg viewBox="0 0 W H"><g transform="translate(tx,ty)"><rect x y width height fill=c/></g></svg>` -/
def rectDoc (tx ty x y w h : K) (c : RGBA) : List (Canvas.C19.Tree K) :=
  [.elem "g" [.plain "transform" (.xform [("translate", [tx, ty])])]
    [.elem "rect" [.plain "x" (.dim x ""), .plain "y" (.dim y ""), .plain "width" (.dim w ""),
                   .plain "height" (.dim h ""), .plain "fill" (.color c)] []]]

/-- **refines_spec (fill / transform / viewBox document)**: the canvas has the viewBox size in mm
(1 px = 25.4/96 mm), exactly one layer is painted, with the specified fill, the rect outline, and a
matrix that puts the local point (u,v) of the rect where SVG 1.1 puts user point
(tx + x + u, ty + y + v): scaled to mm, y measured downwards from the top edge of the canvas. -/
theorem refines_spec_rect (W H tx ty x y w h : K) (c : RGBA) (hc : c.a ≠ 0) (hW : 0 < W) (hH : 0 < H) (lens : List K) :
    let p := parseSVG (opsK cd) ⟨none, none, some (0, 0, W, H)⟩ [] (rectDoc tx ty x y w h c) lens
    p.cw = W * (254 / 10) / 96 ∧ p.ch = H * (254 / 10) / 96 ∧ p.err = false ∧
    ∃ L, p.layers = [L] ∧ L.fill = c ∧ L.path = (rectangle (opsK cd) w h).reverse ∧
      ∀ u v : K, Matrix.Dot L.m ⟨u, v⟩ = ⟨(tx + x + u) * (254 / 10) / 96, (H - (ty + y + v)) * (254 / 10) / 96⟩ := by
  intro p
  have hp : p = parseSVG (opsK cd) ⟨none, none, some (0, 0, W, H)⟩ [] (rectDoc tx ty x y w h c) lens := rfl
  simp [parseSVG, parseViewBox, init, rectDoc, walk, walkList, push, pop, setStyling, applyRules, applyAttr,
    setAttribute, drawShape, dimAttr, lookup, parseDimension, drawPath, hasFill, hasStroke, parseTransform, xformStep,
    defaultCtx, opsK, arithK, hW, hH, hc, transparent, black] at hp
  have W0 : W ≠ 0 := ne_of_gt hW
  have H0 : H ≠ 0 := ne_of_gt hH
  rw [hp]
  refine ⟨rfl, rfl, rfl, _, rfl, rfl, by simp [opsK, arithK], ?_⟩
  intro u v
  simp only [Matrix.Translate, Matrix.Scale, Matrix.ReflectYAbout, Matrix.Mul, Matrix.Dot]
  congr 1 <;> field_simp <;> ring

end Field

/-! ## Part 3 — witnesses of the remaining recorded deviations (generic) -/
section Witnesses
variable {α : Type} (o : Ops α)

/-- witness (C19-miterlimit-ignored): stroke-miterlimit never reaches the context's joiner -/
theorem miterlimit_ignored_defect (q : P α) (n : α) (u : String) :
    (setAttribute o q "stroke-miterlimit" (.dim n u)).ctx.join = q.ctx.join := by
  simp [setAttribute]

/-- witness (C19-fill-rule-ignored): fill-rule (like every key without a case) changes nothing -/
theorem fill_rule_ignored_defect (q : P α) (v : Val α) : setAttribute o q "fill-rule" v = q := by
  simp [setAttribute]

/-- witness (C19-css-on-ancestor): the rule `.anc {…}` applies to a rect two levels below the group
that carries the class — the selector's subject need not be the element itself -/
theorem selector_matches_descendant_defect (props : List (String × Val α)) :
    ruleApplies (⟨[[⟨false, "", [⟨2, "class", "anc"⟩]⟩]], props⟩ : Rule α)
      [⟨"rect", [], "", []⟩, ⟨"g", ["class"], "", ["inn"]⟩, ⟨"g", ["class"], "", ["anc"]⟩, ⟨"svg", [], "", []⟩] = true := by
  simp [ruleApplies, selApplies, attempt, scan, scanList, SelNode.applies, AttrSel.applies]

/-- witness (C19-css-vs-attr): with a matching rule `.a {fill: blue}` the element is blue without a
fill attribute, but red with `fill="red"` (SVG 1.1: the rule wins over the presentation attribute) -/
theorem css_rule_loses_to_attribute_defect (q : P α) (red blue : RGBA)
    (hr : q.rules = [⟨[[⟨false, "", [⟨2, "class", "a"⟩]⟩]], [("fill", .color blue)]⟩])
    (he : q.elems = [⟨"rect", ["class"], "", ["a"]⟩]) :
    (setStyling o q []).ctx.fill = blue ∧ (setStyling o q [.plain "fill" (.color red)]).ctx.fill = red := by
  constructor <;>
    simp [setStyling, applyRules, hr, he, ruleApplies, selApplies, attempt, scan, scanList, SelNode.applies,
      AttrSel.applies, setProps, setAttribute, applyAttr]

end Witnesses

end C19
