import CanvasProofs.Lemmas.C19State
import CanvasProofs.Lemmas.C19Ops
import CanvasProofs.Lemmas.C19Geom
import CanvasProofs.Lemmas.C19Cascade
import Mathlib.Tactic.Ring
import Mathlib.Tactic.FieldSimp
import Mathlib.Tactic.Linarith
import Mathlib.Tactic.NormNum

/-! # C19 — Imported SVG documents draw the geometry the SVG specifies

Theorems about the hand-written model `CanvasModel/C19.lean` of the semantic layer of `ParseSVG`
(/repo/svg.go) over lexed element trees.  Part 1 is generic in the scalar type and in all matrix /
builder operations (`Ops α`) and is proved by structural induction over arbitrary trees.  Part 2
instantiates the model with the *generated* translations of /repo/util.go over an arbitrary linearly
ordered field (`opsK`, DrawPath's dash decision arbitrary) and compares what the importer does with what
SVG 1.1 assigns (state of /repo after the ParseSVG repairs a9d372e … 9d54694: dash lengths in user
units, px→mm size, viewBox as min-x min-y width height, fill-rule, skew, both rect radii, miter limit,
cascade order and specificity, selector subject, #id/[attr] lexing, comma-separated transforms, default
preserveAspectRatio).
The model is tied to the code by the correspondence run of `bin/check C19`. -/
set_option linter.unusedSectionVars false
set_option linter.unusedVariables false
namespace C19
open Canvas Canvas.C19 GenK

/-! ## Part 1 — the document walk, generic -/
section Generic
variable {α : Type} (o : Ops α)

/-- everything push/pop must restore: the current context state, the importer's own state, both
stacks, the element stack and the document dimensions -/
def frame (p : P α) : CState α × SState α × Outer α := (p.ctx, p.st, outer p)

theorem frame_pop_push (p q : P α) (tag : String) (attrs : List (Attr α))
    (h : outer q = outer (push p tag attrs)) : frame (pop q) = frame p := by
  have h1 : q.stStack = p.st :: p.stStack := congrArg Outer.stStack h
  have h2 : q.ctxStack = p.ctx :: p.ctxStack := congrArg Outer.ctxStack h
  have h3 : q.elems = elemOf tag attrs :: p.elems := congrArg Outer.elems h
  have h4 : q.cw = p.cw := congrArg Outer.cw h
  have h5 : q.ch = p.ch := congrArg Outer.ch h
  have h6 : q.width = p.width := congrArg Outer.width h
  have h7 : q.height = p.height := congrArg Outer.height h
  have h8 : q.diagonal = p.diagonal := congrArg Outer.diagonal h
  unfold pop
  simp only [h1, h2]
  simp only [frame, outer, h3, h4, h5, h6, h7, h8, List.tail_cons]

mutual
/-- **state_balanced**: for EVERY element tree (arbitrary nesting, any attributes, any style rules) the
parser state after the element equals the state before it: context style and view, the importer's own
state, both stacks, the element stack and the document dimensions. -/
theorem state_balanced : ∀ (t : Canvas.C19.Tree α) (p : P α), frame (walk o t p) = frame p
  | .elem tag attrs children, p => by
    rw [walk]
    apply frame_pop_push
    have hl := congrArg (fun f => f.2.2) (walkList_balanced children (drawShape o (setStyling o (push p tag attrs) attrs) tag attrs))
    simp only [frame] at hl
    rw [hl]
    have hd := congrArg Inner.out (inner_drawShape o (setStyling o (push p tag attrs) attrs) tag attrs)
    simp only [inner] at hd
    rw [hd, outer_setStyling]
  | .css rules, p => by rw [walk]; rfl
theorem walkList_balanced : ∀ (ts : List (Canvas.C19.Tree α)) (p : P α), frame (walkList o ts p) = frame p
  | [], p => by rw [walkList]
  | t :: ts, p => by rw [walkList, walkList_balanced ts, state_balanced t]
end

mutual
/-- **painting order**: walking a tree only puts new layers on top of the existing ones (document
order = painting order, nothing already painted is touched). -/
theorem layers_extend : ∀ (t : Canvas.C19.Tree α) (p : P α), ∃ new, (walk o t p).layers = new ++ p.layers
  | .elem tag attrs children, p => by
    rw [walk]
    obtain ⟨n2, h2⟩ := layersList_extend children (drawShape o (setStyling o (push p tag attrs) attrs) tag attrs)
    obtain ⟨n1, h1, _⟩ := layers_drawShape o (setStyling o (push p tag attrs) attrs) tag attrs
    refine ⟨n2 ++ n1, ?_⟩
    have hp : ∀ q : P α, (pop q).layers = q.layers := by
      intro q; unfold pop; split
      · rfl
      · simp only []; split <;> rfl
    rw [hp, h2, h1, layers_setStyling]
    simp [push]
  | .css rules, p => by rw [walk]; exact ⟨[], rfl⟩
theorem layersList_extend : ∀ (ts : List (Canvas.C19.Tree α)) (p : P α), ∃ new, (walkList o ts p).layers = new ++ p.layers
  | [], p => by rw [walkList]; exact ⟨[], rfl⟩
  | t :: ts, p => by
    rw [walkList]
    obtain ⟨n2, h2⟩ := layersList_extend ts (walk o t p)
    obtain ⟨n1, h1⟩ := layers_extend t p
    exact ⟨n2 ++ n1, by rw [h2, h1, List.append_assoc]⟩
end

/-- a leaf that is not a shape (e.g. an empty group) draws nothing -/
theorem group_draws_nothing (p : P α) (attrs : List (Attr α)) :
    (walk o (.elem "g" attrs []) p).layers = p.layers := by
  rw [walk, walkList]
  have hp : ∀ q : P α, (pop q).layers = q.layers := by
    intro q; unfold pop; split
    · rfl
    · simp only []; split <;> rfl
  rw [hp]
  have : (drawShape o (setStyling o (push p "g" attrs) attrs) "g" attrs).layers = (setStyling o (push p "g" attrs) attrs).layers := by
    unfold drawShape
    simp only []
    split <;> (unfold drawShapeCore; rfl)
  rw [this, layers_setStyling]; rfl

/-- **precedence**: whatever the presentation attributes and the style rules say, a declaration in the
style attribute decides (SVG 1.1 §6.4: presentation attributes < style sheet < style attribute). -/
theorem style_attribute_wins (p : P α) (attrs : List (Attr α)) (c : RGBA) :
    (setStyling o p (attrs ++ [.style [("fill", .color c)]])).ctx.fill = c := by
  unfold setStyling
  simp only []
  rw [List.foldl_append]
  simp [applyStyle, setProps, setAttribute, attrCore, withSty, sty, attrCore, withSty, sty]

/-- the selector's subject must be the element itself: a rule that applies to the stack `e :: es`
(innermost first) has a selector whose last compound matches `e` (fcebf43) -/
theorem rule_subject_matches (r : Rule α) (e : Elem) (es : List Elem) (h : ruleApplies r (e :: es) = true) :
    ∃ s ∈ r.selectors, ∃ n, s.getLast? = some n ∧ n.applies e = true := by
  unfold ruleApplies at h
  simp only [List.any_eq_true, Bool.and_eq_true] at h
  obtain ⟨s, hs, hm, _⟩ := h
  refine ⟨s, hs, ?_⟩
  cases hl : s.getLast? with
  | none => simp [hl] at hm
  | some n => exact ⟨n, rfl, by simpa [hl] using hm⟩

/-! ### the cascade and inheritance as pure functions (CanvasModel/C19/Spec.lean) -/

/-- **styling_is_cascade**: for every state and attribute list, `setStyling` changes nothing but style/view,
importer state and error flag, and computes them as the pure function `cascade` of the inherited
values and the element's own declarations: presentation attributes in order, then the matching rules
in order of appearance, then the style attribute -/
theorem styling_is_cascade (p : P α) (attrs : List (Attr α)) :
    setStyling o p attrs = withSty p (cascade o p.diagonal p.rules p.elems (sty p) attrs) :=
  setStyling_eq_cascade o p attrs

/-- **walk_eq_render**: for EVERY tree the stack machine (push at the start tag, pop at the end tag) computes
exactly the environment-passing specification `render`, in which every child subtree receives the same
inherited environment as argument and only rules, layers, path lengths and the error flag are threaded
in document order; the caller's environment is untouched -/
theorem walk_eq_render (t : Canvas.C19.Tree α) (p : P α) :
    walk o t p = mkP (inhOf p) (render o t (inhOf p) (thrOf p)) := by
  have := walk_eq_render_aux o t (inhOf p) (thrOf p)
  rwa [mkP_inh_thr] at this

/-- **sibling_isolation**: what a subtree `t2` paints after an arbitrary preceding sibling `t1` is what it
paints from the ORIGINAL environment, given only the threaded outputs of `t1`: the first sibling cannot
leak style, view, importer state, stacks or dimensions into the second -/
theorem sibling_isolation (t1 t2 : Canvas.C19.Tree α) (p : P α) :
    walk o t2 (walk o t1 p) = mkP (inhOf p) (render o t2 (inhOf p) (render o t1 (inhOf p) (thrOf p))) := by
  rw [walk_eq_render o t1 p, walk_eq_render_aux]

/-- **child_style**: the style with which a child element `<tag attrs>` of an element is drawn is
`cascade(inherited, own declarations)`, where "inherited" is the parent's environment `i` (its computed
style, view and importer state), whatever was drawn before (the threaded `t` contributes only the rules
seen so far and the error flag) -/
theorem child_style (i : Inh α) (t : Thr α) (tag : String) (attrs : List (Attr α)) :
    sty (setStyling o (push (mkP i t) tag attrs) attrs) =
      cascade o i.diagonal t.rules (elemOf tag attrs :: i.elems) ⟨i.ctx, i.st, t.err⟩ attrs := by
  rw [styling_is_cascade]; rfl

/-- and the environment the grandchildren inherit is that computed style (drawing the shape changes none of it) -/
theorem children_inherit_computed (i : Inh α) (t : Thr α) (tag : String) (attrs : List (Attr α)) :
    (inhOf (enter o i t tag attrs)).ctx =
      (cascade o i.diagonal t.rules (elemOf tag attrs :: i.elems) ⟨i.ctx, i.st, t.err⟩ attrs).ctx ∧
    (inhOf (enter o i t tag attrs)).st =
      (cascade o i.diagonal t.rules (elemOf tag attrs :: i.elems) ⟨i.ctx, i.st, t.err⟩ attrs).st := by
  have h := inner_drawShape o (setStyling o (push (mkP i t) tag attrs) attrs) tag attrs
  have hc := child_style o i t tag attrs
  constructor
  · have := congrArg Inner.ctx h
    simp only [inner] at this
    show (enter o i t tag attrs).ctx = _
    unfold enter; rw [this, ← hc]; rfl
  · have := congrArg Inner.st h
    simp only [inner] at this
    show (enter o i t tag attrs).st = _
    unfold enter; rw [this, ← hc]; rfl

/-- **cascade_refines_spec** (aecc30a): for every element stack, rule list and declaration list the importer's
cascade is the cascade of SVG 1.1 §6.4 / CSS2 §6.4.3 — presentation attributes, then the matching rules by
specificity (ids, then classes/attributes, then types; the highest among the rule's applying selectors) and for
equal specificity by order of appearance, then the style attribute -/
theorem cascade_refines_spec (diag : α) (rules : List (Rule α)) (elems : List Elem) (s : Sty α)
    (attrs : List (Attr α)) :
    cascade o diag rules elems s attrs = specCascade o diag rules elems s attrs := rfl

/-- the order in which the matching rules apply is sorted by specificity … -/
theorem stableSort_sorted_out {β : Type} (key : β → Nat) (l : List β) :
    (stableSort key l).Pairwise (fun a b => key a ≤ key b) := by
  induction l with
  | nil => exact List.Pairwise.nil
  | cons x t ih =>
    show (insFront key x (stableSort key t)).Pairwise _
    generalize stableSort key t = u at ih
    induction u with
    | nil => simp [insFront]
    | cons y ys ihu =>
      have hy := List.pairwise_cons.mp ih
      unfold insFront
      split
      · rename_i hxy
        refine List.pairwise_cons.mpr ⟨?_, ih⟩
        intro z hz
        rcases List.mem_cons.mp hz with rfl | hz
        · exact hxy
        · exact Nat.le_trans hxy (hy.1 z hz)
      · rename_i hxy
        refine List.pairwise_cons.mpr ⟨?_, ihu hy.2⟩
        intro z hz
        have hyx : key y ≤ key x := Nat.le_of_lt (Nat.lt_of_not_le hxy)
        -- z is x or an element of ys
        have : z = x ∨ z ∈ ys := by
          clear ihu
          induction ys with
          | nil => simp [insFront] at hz; exact Or.inl hz
          | cons w ws ihw =>
            unfold insFront at hz
            split at hz
            · rcases List.mem_cons.mp hz with h | h
              · exact Or.inl h
              · exact Or.inr h
            · rcases List.mem_cons.mp hz with h | h
              · exact Or.inr (h ▸ List.mem_cons_self)
              · have hy' : List.Pairwise (fun a b => key a ≤ key b) (y :: ws) :=
                  List.pairwise_cons.mpr ⟨fun q hq => hy.1 q (List.mem_cons_of_mem _ hq), (List.pairwise_cons.mp hy.2).2⟩
                rcases ihw hy' (List.pairwise_cons.mp hy') h with h' | h'
                · exact Or.inl h'
                · exact Or.inr (List.mem_cons_of_mem _ h')
        rcases this with rfl | hz'
        · exact hyx
        · exact hy.1 z hz'

/-- … and a list that is already in specificity order is left alone (so equal specificities keep their order of
appearance) -/
theorem stableSort_of_sorted {β : Type} (key : β → Nat) (l : List β)
    (h : l.Pairwise (fun a b => key a ≤ key b)) : stableSort key l = l :=
  stableSort_sorted key l h

end Generic

/-! ## Part 2 — against SVG 1.1, over an ordered field with the generated matrix definitions -/
section Field
variable {K : Type} [Field K] [LinearOrder K] [IsStrictOrderedRing K] [Env K]
variable (cd : K → K → List K → K → List K × Bool)

/-! ### transform lists (SVG 1.1 §7.6) -/

/-- the matrix of a transform list is the product of the matrices of its parts, in order -/
theorem transform_append (l1 l2 : List (String × List K)) :
    (parseTransform (opsK cd) (l1 ++ l2)).1 =
      Matrix.Mul (parseTransform (opsK cd) l1).1 (parseTransform (opsK cd) l2).1 := by
  unfold parseTransform
  rw [List.foldl_append]
  have h : List.foldl (xformStep (opsK cd)) ((opsK cd).ident, false) l1 =
      ((List.foldl (xformStep (opsK cd)) ((opsK cd).ident, false) l1).1, (List.foldl (xformStep (opsK cd)) ((opsK cd).ident, false) l1).2) := rfl
  rw [h]
  exact foldl_xform cd l2 _ _

/-- **transform_list**: the list "A B" acts on a point as A∘B — B first, then A (SVG 1.1 §7.6:
the transformations are applied as if nested, right to left on the coordinates) -/
theorem transform_list (a b : List (String × List K)) (p : Pt K) :
    Matrix.Dot (parseTransform (opsK cd) (a ++ b)).1 p =
      Matrix.Dot (parseTransform (opsK cd) a).1 (Matrix.Dot (parseTransform (opsK cd) b).1 p) := by
  rw [transform_append, M.dot_mul]

/-- **transform_product**: the matrix of a transform list is the ordered product (C07 `Matrix.Mul`) of the
matrices of its functions, starting from the identity — for lists of any length over all six kinds with
their optional arguments (`fnMatrix`, see `transform_functions`); functions with a wrong number of
arguments and unknown names contribute the identity -/
theorem transform_product (l : List (String × List K)) :
    (parseTransform (opsK cd) l).1 = (l.map (fnMatrix cd)).foldl Matrix.Mul identK :=
  (transform_product_aux cd l identK false).1

/-- **transform_error**: a transform list is in error exactly when one of its functions has a number of
arguments outside the table matrix 6, translate 1|2, scale 1|2, rotate 1|3, skewX 1, skewY 1 -/
theorem transform_error (l : List (String × List K)) :
    (parseTransform (opsK cd) l).2 = l.any badArity := by
  have := (transform_product_aux cd l identK false).2
  simp only [Bool.false_or] at this
  exact this

/-- the argument defaults: translate(tx) = translate(tx, 0), scale(s) = scale(s, s),
rotate(a, cx, cy) = translate(cx, cy) rotate(a) translate(-cx, -cy) -/
theorem transform_defaults (a tx sx cx cy : K) :
    fnMatrix cd ("translate", [tx]) = fnMatrix cd ("translate", [tx, 0]) ∧
    fnMatrix cd ("scale", [sx]) = fnMatrix cd ("scale", [sx, sx]) ∧
    fnMatrix cd ("rotate", [a, cx, cy]) =
      Matrix.Mul (Matrix.Mul (fnMatrix cd ("translate", [cx, cy])) (fnMatrix cd ("rotate", [a])))
        (fnMatrix cd ("translate", [-cx, -cy])) := by
  refine ⟨rfl, rfl, ?_⟩
  simp only [fnMatrix, xformStep, identK, opsK, arithK, rotate, Matrix.Translate, Matrix.Mul]
  congr 1 <;> ring

/-- the transform attribute is composed onto the inherited view: a point is first transformed by the
element's own list, then by everything inherited -/
theorem transform_nests (q : P K) (l : List (String × List K)) (pt : Pt K) :
    Matrix.Dot (setAttribute (opsK cd) q "transform" (.xform l)).ctx.view pt =
      Matrix.Dot q.ctx.view (Matrix.Dot (parseTransform (opsK cd) l).1 pt) := by
  simp only [setAttribute, attrCore, withSty, sty, attrCore, withSty, sty]
  exact M.dot_mul _ _ _

/-- each supported function acts on user coordinates as SVG 1.1 §7.6 defines it; `matrix(a b c d e f)`
is x' = a x + c y + e, y' = b x + d y + f; `rotate` uses (sin, cos) of the angle in degrees;
skewX(a) is x' = x + tan(a) y and skewY(a) is y' = tan(a) x + y with tan = sin / cos (3e2eccb) -/
theorem transform_functions (x y a b c d e f tx ty sx sy : K) :
    Matrix.Dot (fnMatrix cd ("translate", [tx, ty])) ⟨x, y⟩ = ⟨x + tx, y + ty⟩ ∧
    Matrix.Dot (fnMatrix cd ("translate", [tx])) ⟨x, y⟩ = ⟨x + tx, y⟩ ∧
    Matrix.Dot (fnMatrix cd ("scale", [sx, sy])) ⟨x, y⟩ = ⟨sx * x, sy * y⟩ ∧
    Matrix.Dot (fnMatrix cd ("scale", [sx])) ⟨x, y⟩ = ⟨sx * x, sx * y⟩ ∧
    Matrix.Dot (fnMatrix cd ("matrix", [a, b, c, d, e, f])) ⟨x, y⟩ = ⟨a * x + c * y + e, b * x + d * y + f⟩ ∧
    Matrix.Dot (fnMatrix cd ("rotate", [a])) ⟨x, y⟩ =
      ⟨Env.cos (a * Env.pi / 180) * x - Env.sin (a * Env.pi / 180) * y,
       Env.sin (a * Env.pi / 180) * x + Env.cos (a * Env.pi / 180) * y⟩ ∧
    Matrix.Dot (fnMatrix cd ("rotate", [a, tx, ty])) ⟨tx, ty⟩ = ⟨tx, ty⟩ ∧
    Matrix.Dot (fnMatrix cd ("skewx", [a])) ⟨x, y⟩ =
      ⟨x + Env.sin (a * Env.pi / 180) / Env.cos (a * Env.pi / 180) * y, y⟩ ∧
    Matrix.Dot (fnMatrix cd ("skewy", [a])) ⟨x, y⟩ =
      ⟨x, Env.sin (a * Env.pi / 180) / Env.cos (a * Env.pi / 180) * x + y⟩ := by
  refine ⟨?_, ?_, ?_, ?_, ?_, ?_, ?_, ?_, ?_⟩ <;>
    simp only [fnMatrix, xformStep, identK, opsK, arithK, rotate, Matrix.Translate, Matrix.Scale, Matrix.Mul, Matrix.Dot,
      Nat.cast_ofNat] <;>
    congr 1 <;> ring

/-! ### viewBox → canvas (SVG 1.1 §7.7) -/

/-- the matrix under which `drawPath` places user coordinates on the canvas (before the shape's own
translation): flip about the middle of the canvas ∘ view -/
def canvasMatrix (p : P K) : Mat K := Matrix.Mul (Matrix.ReflectYAbout identK (p.ch / 2)) p.ctx.view

/-- **viewbox_maps**: a viewBox `x y W H` (min-x, min-y, width, height; any origin, 32efa25) is mapped
onto the canvas rectangle with the y axis pointing down — all four corners, hence (affine map) every
point: the top-left corner (x, y) lands on (0, h), the bottom-right corner (x+W, y+H) on (w, 0) -/
theorem viewbox_maps (w h x y W H : K) (e : Bool) (lens : List K) (hW : 0 < W) (hH : 0 < H) :
    let m := canvasMatrix (init (opsK cd) w h (x, y, W, H) e lens)
    Matrix.Dot m ⟨x, y⟩ = ⟨0, h⟩ ∧ Matrix.Dot m ⟨x + W, y⟩ = ⟨w, h⟩ ∧
    Matrix.Dot m ⟨x, y + H⟩ = ⟨0, 0⟩ ∧ Matrix.Dot m ⟨x + W, y + H⟩ = ⟨w, 0⟩ := by
  have W0 : W ≠ 0 := ne_of_gt hW
  have H0 : H ≠ 0 := ne_of_gt hH
  simp only [canvasMatrix, init, defaultCtx, opsK, arithK, identK, hW, hH, decide_true, Bool.and_self, if_true,
    Matrix.Translate, Matrix.Scale, Matrix.ReflectYAbout, Matrix.Mul, Matrix.Dot]
  refine ⟨?_, ?_, ?_, ?_⟩ <;> congr 1 <;> field_simp <;> ring

/-- **aspect_meet** (94ad01a; SVG 1.1 §7.8, default preserveAspectRatio = xMidYMid meet): for every viewport w x h and
viewBox x y W H, after `fitViewBox` the view has ONE scale factor s = min(w/W, h/H) and the viewBox is centred:
the point (x+u, y+v) lands at ((w - sW)/2 + s u, h - ((h - sH)/2 + s v)) on the canvas (y up) -/
theorem aspect_meet (w h x y W H u v : K) (e : Bool) (lens : List K) (hW : 0 < W) (hH : 0 < H) (hw : 0 < w) (hh : 0 < h) :
    Matrix.Dot (canvasMatrix (init (opsK cd) w h (fitViewBox (opsK cd) w h (x, y, W, H)) e lens)) ⟨x + u, y + v⟩ =
      ⟨(w - min (w / W) (h / H) * W) / 2 + min (w / W) (h / H) * u,
       h - ((h - min (w / W) (h / H) * H) / 2 + min (w / W) (h / H) * v)⟩ := by
  have W0 : W ≠ 0 := ne_of_gt hW
  have H0 : H ≠ 0 := ne_of_gt hH
  have w0 : w ≠ 0 := ne_of_gt hw
  have h0 : h ≠ 0 := ne_of_gt hh
  have sx0 : 0 < w / W := div_pos hw hW
  have sy0 : 0 < h / H := div_pos hh hH
  rcases lt_trichotomy (w / W) (h / H) with hlt | heq | hgt
  · -- the width binds: s = w/W, the view box grows in y
    have hm : min (w / W) (h / H) = w / W := min_eq_left (le_of_lt hlt)
    have hpos : 0 < h / (w / W) := div_pos hh sx0
    have hn : ¬ (h / H < w / W) := not_lt.mpr (le_of_lt hlt)
    rw [hm]
    simp only [fitViewBox, canvasMatrix, init, defaultCtx, opsK, arithK, identK, hW, hH, hw, hh, hlt, hpos, decide_true,
      Bool.and_self, if_true, Nat.cast_ofNat,
      Matrix.Translate, Matrix.Scale, Matrix.ReflectYAbout, Matrix.Mul, Matrix.Dot]
    congr 1 <;> field_simp <;> ring
  · have hm : min (w / W) (h / H) = w / W := by rw [heq, min_self]
    have hn1 : ¬ (w / W < h / H) := by rw [heq]; exact lt_irrefl _
    have hn2 : ¬ (h / H < w / W) := by rw [heq]; exact lt_irrefl _
    have hh' : h = w / W * H := by rw [heq]; field_simp
    rw [hm]
    simp only [fitViewBox, canvasMatrix, init, defaultCtx, opsK, arithK, identK, hW, hH, hw, hh, hn1, hn2, decide_true,
      decide_false, Bool.and_self, if_true, if_false, Bool.false_eq_true,
      Matrix.Translate, Matrix.Scale, Matrix.ReflectYAbout, Matrix.Mul, Matrix.Dot]
    congr 1
    · field_simp; ring
    · rw [hh']; field_simp; ring
  · have hm : min (w / W) (h / H) = h / H := min_eq_right (le_of_lt hgt)
    have hpos : 0 < w / (h / H) := div_pos hw sy0
    have hn : ¬ (w / W < h / H) := not_lt.mpr (le_of_lt hgt)
    rw [hm]
    simp only [fitViewBox, canvasMatrix, init, defaultCtx, opsK, arithK, identK, hW, hH, hw, hh, hgt, hn, hpos, decide_true,
      decide_false, Bool.and_self, if_true, if_false, Bool.false_eq_true, Nat.cast_ofNat,
      Matrix.Translate, Matrix.Scale, Matrix.ReflectYAbout, Matrix.Mul, Matrix.Dot]
    congr 1 <;> field_simp <;> ring

/-- a view box that already has the aspect ratio of the viewport is left alone -/
theorem fitViewBox_same (w h x y W H : K) (hsame : w / W = h / H) :
    fitViewBox (opsK cd) w h (x, y, W, H) = (x, y, W, H) := by
  have hn : ¬ (h / H < h / H) := lt_irrefl _
  simp only [fitViewBox, opsK, arithK, hsame, hn, decide_false, Bool.false_eq_true, if_false, ite_self]

/-! ### units (SVG 1.1 §7.10, CSS absolute units at 96 px per inch) -/

/-- **units**: the whole table of `parseDimension`: 1in = 2.54cm = 25.4mm = 101.6Q = 72pt = 6pc = 96px,
unitless = px = user units, percentages of the reference length, angles to degrees, anything else is an error -/
theorem units (n parent : K) :
    parseDimension (opsK cd) 1 "in" parent = (96, false) ∧
    parseDimension (opsK cd) (254 / 100) "cm" parent = (96, false) ∧
    parseDimension (opsK cd) (254 / 10) "mm" parent = (96, false) ∧
    parseDimension (opsK cd) (1016 / 10) "q" parent = (96, false) ∧
    parseDimension (opsK cd) 72 "pt" parent = (96, false) ∧
    parseDimension (opsK cd) 6 "pc" parent = (96, false) ∧
    parseDimension (opsK cd) n "px" parent = (n, false) ∧
    parseDimension (opsK cd) n "" parent = (n, false) ∧
    parseDimension (opsK cd) n "%" parent = (n * parent / 100, false) ∧
    parseDimension (opsK cd) n "deg" parent = (n, false) ∧
    parseDimension (opsK cd) 400 "grad" parent = (360, false) ∧
    parseDimension (opsK cd) 1 "turn" parent = (360, false) ∧
    (parseDimension (opsK cd) n "em" parent).2 = true := by
  refine ⟨?_, ?_, ?_, ?_, ?_, ?_, ?_, ?_, ?_, ?_, ?_, ?_, by simp [parseDimension]⟩ <;>
    simp only [parseDimension, opsK, arithK, Nat.cast_ofNat] <;> norm_num

/-- all length units are linear: `k` units are `k` times one unit -/
theorem units_linear (k parent : K) (u : String) (hu : u ∈ ["in", "cm", "mm", "q", "pt", "pc", "px", ""]) :
    (parseDimension (opsK cd) k u parent).1 = k * (parseDimension (opsK cd) 1 u parent).1 := by
  simp only [List.mem_cons, List.mem_nil_iff, or_false] at hu
  rcases hu with h | h | h | h | h | h | h | h <;> subst h <;>
    simp only [parseDimension, opsK, arithK] <;> ring

/-! ### document size -/

/-- without width/height the canvas is the viewBox size converted from px to mm, and percentages
refer to the viewBox width/height (any origin) -/
theorem size_from_viewbox (x y W H : K) (e : Bool) (lens : List K) :
    let r := parseViewBox (opsK cd) ⟨none, none, some (x, y, W, H), ""⟩
    r.1 = W * (254 / 10) / 96 ∧ r.2.1 = H * (254 / 10) / 96 ∧
    (init (opsK cd) r.1 r.2.1 r.2.2.1 e lens).width = W ∧ (init (opsK cd) r.1 r.2.1 r.2.2.1 e lens).height = H := by
  simp only [parseViewBox, init, opsK, arithK, Option.getD_some, Nat.cast_ofNat]
  refine ⟨trivial, trivial, ?_, ?_⟩ <;> field_simp

/-- **size**: a width/height attribute gives the canvas size: `width="n mm"` is a canvas n mm wide, a plain
number is px = 25.4/96 mm, and without viewBox the user unit is the px (percentages refer to the px size) (6cc843f) -/
theorem size_width_height (n m : K) (lens : List K) :
    (parseSVG (opsK cd) ⟨some (n, "mm"), some (m, "mm"), none, ""⟩ [] [] lens).cw = n ∧
    (parseSVG (opsK cd) ⟨some (n, "mm"), some (m, "mm"), none, ""⟩ [] [] lens).ch = m ∧
    (parseSVG (opsK cd) ⟨some (n, ""), some (m, "px"), none, ""⟩ [] [] lens).cw = n * (254 / 10) / 96 ∧
    (parseSVG (opsK cd) ⟨some (n, ""), some (m, "px"), none, ""⟩ [] [] lens).ch = m * (254 / 10) / 96 ∧
    (parseSVG (opsK cd) ⟨some (n, ""), some (m, "px"), none, ""⟩ [] [] lens).width = n := by
  have hc : ∀ q : P K, (walk (opsK cd) (.elem "svg" [] []) q).cw = q.cw ∧ (walk (opsK cd) (.elem "svg" [] []) q).ch = q.ch
      ∧ (walk (opsK cd) (.elem "svg" [] []) q).width = q.width := by
    intro q
    have := congrArg (fun f => f.2.2) (state_balanced (opsK cd) (.elem "svg" [] []) q)
    simp only [frame] at this
    exact ⟨congrArg Outer.cw this, congrArg Outer.ch this, congrArg Outer.width this⟩
  simp only [parseSVG, hc]
  refine ⟨?_, ?_, ?_, ?_, ?_⟩ <;>
    simp [parseViewBox, parseDimension, init, opsK, arithK] <;> (try split) <;> (try simp [init]) <;> field_simp

/-! ### shapes (SVG 1.1 §9) — the command lists handed to the renderer, in shape-local coordinates
(the matrix carries the translation by (x, y) resp. (cx, cy)) -/

/-- **shape_geometry (rect)**: a rect of non-degenerate size is the closed polygon (0,0) (w,0) (w,h) (0,h) -/
theorem shape_rect (w h : K) (heps : (0 : K) ≤ Env.epsilon)
    (hw : GenK.Equal w 0 = false) (hh : GenK.Equal h 0 = false) :
    (rectangle (opsK cd) w h).reverse =
      [.move ⟨0, 0⟩, .line ⟨w, 0⟩, .line ⟨w, h⟩, .line ⟨0, h⟩, .close ⟨0, 0⟩] :=
  rectangle_path cd w h heps hw hh

/-- **shape_geometry (circle)**: a circle of radius r > 0 is two half-circle arcs of radius r from (r,0)
through (-r,0) back to (r,0), closed -/
theorem shape_circle (r : K) (hr : 0 < r) (heps : (0 : K) ≤ Env.epsilon) (h0 : GenK.Equal r 0 = false) :
    (ellipse (opsK cd) r r).reverse =
      [.move ⟨r, 0⟩, .arc r r 0 false true ⟨-r, 0⟩, .arc r r 0 false true ⟨r, 0⟩, .close ⟨r, 0⟩] := by
  rw [ellipse_path cd r r heps h0 h0, arcFix_circle _ _ r hr heps, arcFix_circle _ _ r hr heps]

/-- **shape_geometry (ellipse)**: two half-ellipse arcs with the radii in canonical order (the larger
first, rotated by 90° when rx < ry), through (-rx,0) back to (rx,0), closed -/
theorem shape_ellipse (rx ry : K) (hx : 0 < rx) (hy : 0 < ry) (heps : (0 : K) ≤ Env.epsilon)
    (hx0 : GenK.Equal rx 0 = false) (hy0 : GenK.Equal ry 0 = false) (hne : GenK.Equal rx ry = false) :
    ∃ a b phi, (a, b, phi) = (if rx < ry then (ry, rx, 90 * Env.pi / 180) else (rx, ry, (0 : K))) ∧
    (ellipse (opsK cd) rx ry).reverse =
      [.move ⟨rx, 0⟩, .arc a b phi false true ⟨-rx, 0⟩, .arc a b phi false true ⟨rx, 0⟩, .close ⟨rx, 0⟩] := by
  have hf : ∀ s e : Pt K, arcFixK s rx ry e = (if rx < ry then (ry, rx, 90 * Env.pi / 180) else (rx, ry, (0 : K))) := by
    intro s e; unfold arcFixK; simp [abs_of_pos hx, abs_of_pos hy, hne]
  rw [ellipse_path cd rx ry heps hx0 hy0, hf, hf]
  exact ⟨_, _, _, rfl, rfl⟩

/-- **shape_geometry (rect with rx, ry)** (c530d1e): the importer draws a circular-corner rectangle of width
w·ry/rx with radius ry and scales it by rx/ry in x; the result is the SVG 1.1 §9.2 outline: straight edges
between (rx,0)…(w-rx,0), (w,ry)…(w,h-ry), (w-rx,h)…(rx,h), (0,h-ry)…(0,ry) joined by quarter arcs of the
ellipse rx x ry (canonical form: larger radius first, rotated by 90° when rx < ry) -/
theorem shape_rounded_rect (w h rx ry : K) (hx : 0 < rx) (hy : 0 < ry) (heps : (0 : K) ≤ Env.epsilon)
    (hW0 : GenK.Equal (w * ry / rx) 0 = false) (hh0 : GenK.Equal h 0 = false) (hr0 : GenK.Equal ry 0 = false)
    (hA : GenK.Equal ry (w * ry / rx - ry) = false) (hB : GenK.Equal ry (h - ry) = false)
    (hC : GenK.Equal (h - ry) h = false)
    (hrW : rx ≤ w / 2) (hrh : ry ≤ h / 2) :
    ∃ a b phi, (a, b, phi) = (if rx < ry then (ry, rx, Env.pi / 2) else (rx, ry, (0 : K))) ∧
    (transformPath (opsK cd) (Matrix.Scale identK (rx / ry) 1) (roundedRectangle (opsK cd) (w * ry / rx) h ry)).reverse =
      [.move ⟨0, ry⟩, .arc a b phi false true ⟨rx, 0⟩, .line ⟨w - rx, 0⟩, .arc a b phi false true ⟨w, ry⟩,
       .line ⟨w, h - ry⟩, .arc a b phi false true ⟨w - rx, h⟩, .line ⟨rx, h⟩, .arc a b phi false true ⟨0, h - ry⟩,
       .close ⟨0, ry⟩] := by
  have x0 : rx ≠ 0 := ne_of_gt hx
  have y0 : ry ≠ 0 := ne_of_gt hy
  have hs : 0 < rx / ry := div_pos hx hy
  have hrW' : ry ≤ w * ry / rx / 2 := by
    rw [div_div, le_div_iff₀ (by positivity)]
    have : rx * 2 ≤ w := by linarith
    nlinarith
  have hsr : rx / ry * ry = rx := by field_simp
  have ha := transformArc_scaleX (rx / ry) ry hs hy true
  rw [hsr] at ha
  have hd : ∀ x y : K, Matrix.Dot (Matrix.Scale identK (rx / ry) 1) ⟨x, y⟩ = ⟨rx / ry * x, y⟩ := by
    intro x y; simp only [Matrix.Dot, Matrix.Scale, Matrix.Mul, identK]; congr 1 <;> ring
  have e1 : rx / ry * (w * ry / rx - ry) = w - rx := by field_simp
  have e2 : rx / ry * (w * ry / rx) = w := by field_simp
  by_cases hlt : rx < ry
  · refine ⟨ry, rx, Env.pi / 2, by simp [hlt], ?_⟩
    rw [transformPath_reverse, roundedRectangle_path cd _ h ry hy heps hW0 hh0 hr0 hA hB hC hrW' hrh]
    simp only [transformPath, List.map_cons, List.map_nil, opsK, ha, hd, hsr, e1, e2, mul_zero, hlt, if_true]
  · refine ⟨rx, ry, 0, by simp [hlt], ?_⟩
    rw [transformPath_reverse, roundedRectangle_path cd _ h ry hy heps hW0 hh0 hr0 hA hB hC hrW' hrh]
    simp only [transformPath, List.map_cons, List.map_nil, opsK, ha, hd, hsr, e1, e2, mul_zero, hlt, if_false]

/-- **shape_geometry (line)** -/
theorem shape_line (x1 y1 x2 y2 : K) (hne : ptEquals (opsK cd) ⟨x1, y1⟩ ⟨x2, y2⟩ = false) :
    (lineTo (opsK cd) ⟨x2, y2⟩ (moveTo ⟨x1, y1⟩ [])).reverse = [.move ⟨x1, y1⟩, .line ⟨x2, y2⟩] :=
  line_path cd _ _ hne

/-- **shape_geometry (polygon, three points in general position)** -/
theorem shape_triangle (ax ay bx by' cx cy : K)
    (hab : (GenK.Equal ax bx && GenK.Equal ay by') = false)
    (hbc : (GenK.Equal bx cx && GenK.Equal by' cy) = false)
    (hca : (GenK.Equal cx ax && GenK.Equal cy ay) = false)
    (hncol : Point.PerpDot (psub ⟨bx, by'⟩ ⟨ax, ay⟩) (psub ⟨cx, cy⟩ ⟨bx, by'⟩) ≠ 0) :
    (close (opsK cd) (polyPoints (opsK cd) true [ax, ay, bx, by', cx, cy] [])).reverse =
      [.move ⟨ax, ay⟩, .line ⟨bx, by'⟩, .line ⟨cx, cy⟩, .close ⟨ax, ay⟩] :=
  triangle_path cd ax ay bx by' cx cy hab hbc hca hncol

/-! ### stroke properties in user units (SVG 1.1 §11.4) -/

/-- the dash lengths a canvas layer means: `Dashes` are multiples of the stroke width (canvas.go ScaleDash) -/
def effectiveDashes (l : Layer K) : List K := l.dashes.map (fun d => d * l.sw)

/-- **dash units** (a9d372e): whatever the stroke width w > 0, the dash lengths of the layer a `<path>`
element records are the numbers the context holds for `stroke-dasharray`, i.e. user units (canvas dash
lengths are multiples of the stroke width: the importer divides by it); and the context keeps the SVG
numbers for the descendants -/
theorem dash_units (q : P K) (d : List (PCmd K)) (hf : hasFill q.ctx = true) (hw : 0 < q.ctx.sw)
    (hcd : ∀ w off l len, cd w off l len = (l, true)) :
    let r := drawShape (opsK cd) q "path" [.plain "d" (.path d)]
    (∀ L, r.layers = L :: q.layers → effectiveDashes L = q.ctx.dashes) ∧ r.ctx.dashes = q.ctx.dashes := by
  intro r
  have w0 : q.ctx.sw ≠ 0 := ne_of_gt hw
  have hf' : ∀ (a : K) (l : List K), hasFill ({ q.ctx with dashOff := a, dashes := l } : CState K) = true := fun _ _ => hf
  have hcore : ∀ p : P K, hasFill p.ctx = true →
      ∃ L, (drawShapeCore (opsK cd) p "path" [.plain "d" (.path d)]).layers = L :: p.layers ∧
        L.dashes = p.ctx.dashes ∧ L.sw = p.ctx.sw ∧
        (drawShapeCore (opsK cd) p "path" [.plain "d" (.path d)]).ctx = p.ctx := by
    intro p hp
    simp [drawShapeCore, lookup, drawPath, hp, opsK, hcd]
  simp only [r, drawShape]
  split
  · obtain ⟨L, h1, h2, h3, h4⟩ := hcore { q with ctx := { q.ctx with dashOff := (opsK cd).mul q.ctx.dashOff ((opsK cd).div (opsK cd).one q.ctx.sw), dashes := q.ctx.dashes.map (fun d => (opsK cd).mul d ((opsK cd).div (opsK cd).one q.ctx.sw)) } } (hf' _ _)
    refine ⟨?_, rfl⟩
    intro L' hL'
    rw [h1] at hL'
    have := (List.cons.inj hL').1
    subst this
    simp only [effectiveDashes, h2, h3, opsK, arithK, List.map_map]
    conv_rhs => rw [← List.map_id q.ctx.dashes]
    apply List.map_congr_left
    intro a _
    simp only [Function.comp, id]
    field_simp
  · rename_i hcond
    obtain ⟨L, h1, h2, h3, h4⟩ := hcore q hf
    refine ⟨?_, by rw [h4]⟩
    intro L' hL'
    rw [h1] at hL'
    have := (List.cons.inj hL').1
    subst this
    simp only [effectiveDashes, h2, h3]
    simp only [opsK, arithK, hw, decide_true, Bool.true_and, Bool.and_true] at hcond
    by_cases he : q.ctx.dashes = []
    · rw [he]; rfl
    · have h1' : q.ctx.sw = 1 := by
        by_contra hne
        apply hcond
        simp [he, hne]
      rw [h1']; simp

/-- `stroke-dasharray` stores the SVG numbers in the context (where `dash_units` finds them) -/
theorem dasharray_stored (q : P K) (ds : List K) :
    (setAttribute (opsK cd) q "stroke-dasharray" (.nums ds)).ctx.dashes = ds ∧
    (setAttribute (opsK cd) q "stroke-dasharray" (.nums ds)).ctx.sw = q.ctx.sw := by
  simp [setAttribute, attrCore, withSty, sty, attrCore, withSty, sty]

/-! ### a whole document against SVG 1.1 -/

/-- `<svg viewBox="x0 y0 W H" preserveAspectRatio="none"><g transform="translate(tx,ty)"><rect x y width height fill=c/></g></svg>` -/
def rectDoc (tx ty x y w h : K) (c : RGBA) : List (Canvas.C19.Tree K) :=
  [.elem "g" [.plain "transform" (.xform [("translate", [tx, ty])])]
    [.elem "rect" [.plain "x" (.dim x ""), .plain "y" (.dim y ""), .plain "width" (.dim w ""),
                   .plain "height" (.dim h ""), .plain "fill" (.color c)] []]]

/-- **refines_spec (fill / transform / viewBox document)**: the canvas has the viewBox size in mm
(1 px = 25.4/96 mm), exactly one layer is painted, with the specified fill, nonzero rule, the rect
outline, and a matrix that puts the local point (u,v) of the rect where SVG 1.1 puts user point
(tx + x + u, ty + y + v): relative to the viewBox origin, scaled to mm, y measured downwards from the
top edge of the canvas. -/
theorem refines_spec_rect (x0 y0 W H tx ty x y w h : K) (c : RGBA) (hc : c.a ≠ 0) (hW : 0 < W) (hH : 0 < H) (lens : List K) :
    let p := parseSVG (opsK cd) ⟨none, none, some (x0, y0, W, H), "none"⟩ [] (rectDoc tx ty x y w h c) lens
    p.cw = W * (254 / 10) / 96 ∧ p.ch = H * (254 / 10) / 96 ∧ p.err = false ∧
    ∃ L, p.layers = [L] ∧ L.fill = c ∧ L.evenOdd = false ∧ L.path = (rectangle (opsK cd) w h).reverse ∧
      ∀ u v : K, Matrix.Dot L.m ⟨u, v⟩ =
        ⟨(tx + x + u - x0) * (254 / 10) / 96, (H - (ty + y + v - y0)) * (254 / 10) / 96⟩ := by
  intro p
  have hp : p = parseSVG (opsK cd) ⟨none, none, some (x0, y0, W, H), "none"⟩ [] (rectDoc tx ty x y w h c) lens := rfl
  clear_value p
  simp [parseSVG, parseViewBox, init, rectDoc, walk, walkList, push, pop, setStyling, applyRules, matching, stableSort, applyPlain, applyStyle,
    setAttribute, attrCore, withSty, sty, drawShape, drawShapeCore, dimAttr, lookup, parseDimension, drawPath, hasFill, hasStroke, parseTransform,
    xformStep, defaultCtx, opsK, arithK, hW, hH, hc, transparent, black] at hp
  have W0 : W ≠ 0 := ne_of_gt hW
  have H0 : H ≠ 0 := ne_of_gt hH
  rw [hp]
  refine ⟨rfl, rfl, rfl, _, rfl, rfl, rfl, by simp [opsK, arithK], ?_⟩
  intro u v
  simp only [Matrix.Translate, Matrix.Scale, Matrix.ReflectYAbout, Matrix.Mul, Matrix.Dot]
  congr 1 <;> field_simp <;> ring

end Field

/-! ## Part 3 — the repaired attribute and cascade behaviour (generic) -/
section Cascade
variable {α : Type} (o : Ops α)

/-- stroke-miterlimit reaches a miter joiner that is in use (5728eb2) -/
theorem miterlimit_sets_join (q : P α) (n l : α) (h : q.ctx.join = .miter l) :
    (setAttribute o q "stroke-miterlimit" (.dim n "")).ctx.join = .miter n := by
  simp [setAttribute, attrCore, withSty, sty, parseDimension, h]

/-- fill-rule is imported and recorded with the layer (03856b4) -/
theorem fill_rule_set (q : P α) (x y : α) (path : RPath α) (hf : hasFill q.ctx = true) :
    (setAttribute o q "fill-rule" (.kw "evenodd")).ctx.evenOdd = true ∧
    (setAttribute o q "fill-rule" (.kw "nonzero")).ctx.evenOdd = false ∧
    ∀ L, (drawPath o q x y path).layers = L :: q.layers → L.evenOdd = q.ctx.evenOdd := by
  refine ⟨by simp [setAttribute, attrCore, withSty, sty, attrCore, withSty, sty], by simp [setAttribute, attrCore, withSty, sty, attrCore, withSty, sty], ?_⟩
  intro L hL
  simp only [drawPath, hf, Bool.not_true, Bool.false_and] at hL
  have := (List.cons.inj hL).1
  subst this; rfl

/-- the rule `.anc {…}` applies to the group that carries the class, not to a rect two levels below it:
the selector's subject is the element itself (fcebf43) -/
theorem selector_subject_is_element (props : List (String × Val α)) :
    ruleApplies (⟨[[⟨false, "", [⟨2, "class", "anc"⟩]⟩]], props⟩ : Rule α)
      [⟨"rect", [], [], []⟩, ⟨"g", ["class"], [("class", "inn")], [("class", ["inn"])]⟩, ⟨"g", ["class"], [("class", "anc")], [("class", ["anc"])]⟩, ⟨"svg", [], [], []⟩] = false ∧
    ruleApplies (⟨[[⟨false, "", [⟨2, "class", "anc"⟩]⟩]], props⟩ : Rule α)
      [⟨"g", ["class"], [("class", "anc")], [("class", ["anc"])]⟩, ⟨"svg", [], [], []⟩] = true := by
  constructor <;>
    simp [ruleApplies, selApplies, attempt, scan, scanList, SelNode.applies, AttrSel.applies]

/-- **cascade** (873dabd): with a matching rule `.a {fill: blue}` the element is blue whether or not it has a
`fill="red"` attribute (the rule beats the presentation attribute), and a style attribute `fill:lime`
beats the rule, wherever it stands among the attributes -/
theorem rule_beats_attribute (q : P α) (red blue lime : RGBA)
    (hr : q.rules = [⟨[[⟨false, "", [⟨2, "class", "a"⟩]⟩]], [("fill", .color blue)]⟩])
    (he : q.elems = [⟨"rect", ["class"], [("class", "a")], [("class", ["a"])]⟩]) :
    (setStyling o q []).ctx.fill = blue ∧ (setStyling o q [.plain "fill" (.color red)]).ctx.fill = blue := by
  have h1 : ∀ p : P α, (setAttribute o p "fill" (.color red)).rules = p.rules ∧ (setAttribute o p "fill" (.color red)).elems = p.elems := by
    intro p; simp [setAttribute, attrCore, withSty, sty, attrCore, withSty, sty]
  constructor <;>
    simp [setStyling, applyRules, matching, ruleSpec, specificity, stableSort, insFront, hr, he, h1, ruleApplies, selApplies, attempt, scan, scanList, SelNode.applies,
      AttrSel.applies, setProps, setAttribute, attrCore, withSty, sty, applyPlain, applyStyle]

theorem style_beats_rule (q : P α) (red blue lime : RGBA)
    (hr : q.rules = [⟨[[⟨false, "", [⟨2, "class", "a"⟩]⟩]], [("fill", .color blue)]⟩])
    (he : q.elems = [⟨"rect", ["class"], [("class", "a")], [("class", ["a"])]⟩]) :
    (setStyling o q [.style [("fill", .color lime)], .plain "fill" (.color red)]).ctx.fill = lime ∧
    (setStyling o q [.plain "fill" (.color red), .style [("fill", .color lime)]]).ctx.fill = lime := by
  constructor <;>
    simp [setStyling, applyRules, matching, ruleSpec, specificity, stableSort, insFront, hr, he, ruleApplies, selApplies, attempt, scan, scanList, SelNode.applies,
      AttrSel.applies, setProps, setAttribute, attrCore, withSty, sty, applyPlain, applyStyle]

/-- **specificity** (aecc30a): a class rule `.k {fill: red}` beats a type rule `rect {fill: blue}` on `<rect class="k">`
in either order of appearance -/
theorem more_specific_rule_wins (q : P α) (red blue : RGBA) (he : q.elems = [⟨"rect", ["class"], [("class", "k")], [("class", ["k"])]⟩]) :
    (q.rules = [⟨[[⟨false, "", [⟨2, "class", "k"⟩]⟩]], [("fill", .color red)]⟩,
                ⟨[[⟨false, "rect", []⟩]], [("fill", .color blue)]⟩] → (setStyling o q []).ctx.fill = red) ∧
    (q.rules = [⟨[[⟨false, "rect", []⟩]], [("fill", .color blue)]⟩,
                ⟨[[⟨false, "", [⟨2, "class", "k"⟩]⟩]], [("fill", .color red)]⟩] → (setStyling o q []).ctx.fill = red) := by
  constructor <;> intro hr <;>
    simp [setStyling, applyRules, matching, ruleSpec, specificity, stableSort, insFront, hr, he, ruleApplies, selApplies,
      attempt, scan, scanList, SelNode.applies, AttrSel.applies, setProps, setAttribute, attrCore, withSty, sty]

end Cascade

/-! ## Non-vacuity: concrete instances of the hypotheses (over ℚ, Epsilon = 0) -/
section NonVacuity
@[instance_reducible] def envQ : Env ℚ := ⟨0, 0, 0, id, id, id, fun _ _ => 0, id, fun _ _ => 0, id, id, fun _ _ => 0, fun _ => false⟩
attribute [local instance] envQ

def cdId : ℚ → ℚ → List ℚ → ℚ → List ℚ × Bool := fun _ _ l _ => (l, true)
theorem epsQ : (Env.epsilon : ℚ) = 0 := rfl

-- shape_rect / shape_circle / shape_ellipse / shape_line: a 30 x 40 rect, radii 5 and 3
example : (0 : ℚ) ≤ Env.epsilon ∧ GenK.Equal (30 : ℚ) 0 = false ∧ GenK.Equal (40 : ℚ) 0 = false := by
  refine ⟨le_refl _, ?_, ?_⟩ <;> simp [GenK.Equal, epsQ]
example : (0 : ℚ) < 5 ∧ GenK.Equal (5 : ℚ) 0 = false ∧ GenK.Equal (5 : ℚ) 3 = false := by
  refine ⟨by norm_num, ?_, ?_⟩ <;> simp [GenK.Equal, epsQ] <;> norm_num
example : ptEquals (opsK cdId) (⟨1, 2⟩ : Pt ℚ) ⟨4, 6⟩ = false := by
  simp [ptEquals, opsK, arithK, GenK.Equal, epsQ]
-- shape_rounded_rect: <rect width="40" height="20" rx="4" ry="8"/>: W = 40·8/4 = 80
example : GenK.Equal ((40 : ℚ) * 8 / 4) 0 = false ∧ GenK.Equal (8 : ℚ) ((40 : ℚ) * 8 / 4 - 8) = false ∧
    GenK.Equal (8 : ℚ) (20 - 8) = false ∧ GenK.Equal ((20 : ℚ) - 8) 20 = false ∧ (4 : ℚ) ≤ 40 / 2 ∧ (8 : ℚ) ≤ 20 / 2 := by
  refine ⟨?_, ?_, ?_, ?_, by norm_num, by norm_num⟩ <;> simp [GenK.Equal, epsQ] <;> norm_num
-- shape_triangle: (0,0) (4,0) (0,3)
example : Point.PerpDot (psub (⟨4, 0⟩ : Pt ℚ) ⟨0, 0⟩) (psub ⟨0, 3⟩ ⟨4, 0⟩) ≠ 0 := by
  simp [Point.PerpDot, psub]
-- dash_units: the default context with width 2 has a fill and a positive width; checkDash keeping the pattern exists
example : hasFill ({ defaultCtx (opsK cdId) with sw := 2 } : CState ℚ) = true ∧
    (∀ w off l len, cdId w off l len = (l, true)) := ⟨rfl, fun _ _ _ _ => rfl⟩
-- fitViewBox_same: 200 x 100 viewport, viewBox 0 0 100 50
example : (200 : ℚ) / 100 = 100 / 50 := by norm_num
-- stableSort_of_sorted: `rect {…}` before `.k {…}` on <rect class="k">: specificities 1 ≤ 1024
example : (matching ([⟨[[⟨false, "rect", []⟩]], []⟩, ⟨[[⟨false, "", [⟨2, "class", "k"⟩]⟩]], []⟩] : List (Rule ℚ))
      [⟨"rect", ["class"], [("class", "k")], [("class", ["k"])]⟩]).Pairwise (fun a b => a.1 ≤ b.1) := by
  simp [matching, ruleSpec, ruleApplies, selApplies, attempt, scan, scanList, SelNode.applies, AttrSel.applies, specificity]
-- miterlimit_sets_join: the default context joins with a miter
example : (defaultCtx (opsK cdId) : CState ℚ).join = .miter 4 := by simp [defaultCtx, opsK, arithK]
-- and the statement the importer still violates is not empty talk: the two cascades differ on `.k` before `rect`
example : ¬ (matching ([⟨[[⟨false, "", [⟨2, "class", "k"⟩]⟩]], []⟩, ⟨[[⟨false, "rect", []⟩]], []⟩] : List (Rule ℚ))
      [⟨"rect", ["class"], [("class", "k")], [("class", ["k"])]⟩]).Pairwise (fun a b => a.1 ≤ b.1) := by
  simp [matching, ruleSpec, ruleApplies, selApplies, attempt, scan, scanList, SelNode.applies, AttrSel.applies, specificity]
end NonVacuity

end C19
