import CanvasModel.C14
import CanvasProofs.Lemmas.C14
import CanvasProofs.Lemmas.C14Box
import CanvasProofs.Lemmas.C14Far
import CanvasProofs.Lemmas.C14Pipe
import CanvasProofs.Lemmas.Wn

/-! # C14 — Rasterization paints exactly the pixels inside (partial)

The third-party scan converter (srwiley/scanx) is not modelled. Proved here, for all inputs, about
hand-written models tied to the code by exact ('=') correspondence:

* the 26.6 fixed-point conversions of util.go / path.go (`fixed_point*`, `scan_rounding*`),
* the image size and the y flip of `rasterizer.Draw/New` and `Path.ToScanxScanner` (`image_size*`,
  `yflip*`, `yaxis_up`, `canvas_rows`, `flatten_pixel_tol`),
* a Go-slice aliasing model: `SetColorSpace` (which copies the stops since 1d02f0f) leaves every
  slice the caller holds unchanged (`gradients_unchanged`, full strength) and returns the converted
  stops (`setColorSpace_result`); `append_aliases` records why the copy is needed,
* draw order of the replay (`draw_order`, `later_covers_earlier`, `untouched`) and the agreement of
  the pixel specification's `owner` with that replay (`owner_replay`),
* the gradient lookup of the rasterizer: pixel (c, r) evaluates its gradient at the canvas point
  whose image is the pixel centre (`gradient_lookup_centre`, tied by the GRAD correspondence).
Pixel coverage itself is refined against the exact winding-number specification (`PIX` verdicts). -/
namespace C14
open Canvas Canvas.C14 Canvas.Wn

/-! ## tie: the generic definitions the driver runs at `Float` against the real code are, at `Rat`,
the definitions the theorems below are about -/

theorem gen_toI26_6 (x : Rat) : G.toI26_6 x = some (toI26_6 x) := rfl
theorem gen_fromI26_6 (i : Int) : (G.fromI26_6 i : Rat) = fromI26_6 i := rfl
theorem gen_fixedPoint (x : Rat) : G.fixedPoint x = some (fixedPoint x) := rfl
theorem gen_imageDim (w d : Rat) : G.imageDim w d = some (imageDim w d) := rfl
theorem gen_pixelX (d x : Rat) : G.pixelX d x = pixelX d x := rfl
theorem gen_pixelY (hpx : Int) (d y : Rat) : G.pixelY (Scalar.ofInt hpx) d y = pixelY hpx d y := rfl

/-! ## (a) fixed point -/

/-- x ≥ 0: the round trip loses less than one unit of 1/64, downwards -/
theorem fixed_point_nonneg (x : Rat) (hx : 0 ≤ x) :
    0 ≤ x - fromI26_6 (toI26_6 x) ∧ x - fromI26_6 (toI26_6 x) < 1 / 64 := by
  have h64 : (0 : Rat) ≤ x * 64 := by positivity
  obtain ⟨h1, h2⟩ := truncQ_nonneg_bounds h64
  unfold fromI26_6 toI26_6
  constructor <;> linarith

/-- the headline bound: |fromI(toI x) − x| ≤ 1/64 for x ≥ 0 -/
theorem fixed_point (x : Rat) (hx : 0 ≤ x) : |fromI26_6 (toI26_6 x) - x| ≤ 1 / 64 := by
  obtain ⟨h1, h2⟩ := fixed_point_nonneg x hx
  rw [abs_le]; constructor <;> linarith

/-- x < 0: truncation is toward zero, so the error has the other sign: exactly the set [0, 1/64) -/
theorem fixed_point_neg (x : Rat) (hx : x < 0) :
    0 ≤ fromI26_6 (toI26_6 x) - x ∧ fromI26_6 (toI26_6 x) - x < 1 / 64 := by
  have h64 : x * 64 < 0 := by linarith
  obtain ⟨h1, h2⟩ := truncQ_neg_bounds h64
  unfold fromI26_6 toI26_6
  constructor <;> linarith

/-- every error in [0, 1/64) is attained on the negative side (the error set is exact) -/
theorem fixed_point_neg_attained (e : Rat) (h0 : 0 ≤ e) (h1 : e < 1 / 64) :
    fromI26_6 (toI26_6 (-1 - e)) - (-1 - e) = e := by
  have hneg : (-1 - e) * 64 < 0 := by linarith
  have hfl : (-((-1 - e) * 64)).floor = 64 := by
    have hle : ((64 : Int) : Rat) ≤ -((-1 - e) * 64) := by push_cast; linarith
    have hlt : -((-1 - e) * 64) < ((65 : Int) : Rat) := by push_cast; linarith
    have a := Rat.le_floor_iff.mpr hle
    have b := Rat.floor_lt_iff.mpr hlt
    omega
  unfold fromI26_6 toI26_6
  rw [truncQ_of_neg hneg, hfl]
  push_cast
  ring

/-- in both cases the result is no farther from zero than x -/
theorem fixed_point_toward_zero (x : Rat) : |fromI26_6 (toI26_6 x)| ≤ |x| := by
  by_cases hx : 0 ≤ x
  · obtain ⟨h1, h2⟩ := fixed_point_nonneg x hx
    have h64 : (0 : Rat) ≤ x * 64 := by positivity
    have hn : (0 : Rat) ≤ ((toI26_6 x : Int) : Rat) := by
      have := truncQ_nonneg_of_nonneg h64
      unfold toI26_6; exact_mod_cast this
    have : 0 ≤ fromI26_6 (toI26_6 x) := by unfold fromI26_6; positivity
    rw [abs_of_nonneg this, abs_of_nonneg hx]; linarith
  · have hx' : x < 0 := not_le.mp hx
    obtain ⟨h1, h2⟩ := fixed_point_neg x hx'
    have h64 : x * 64 < 0 := by linarith
    have hn : ((toI26_6 x : Int) : Rat) ≤ 0 := by
      have := truncQ_nonpos_of_neg h64
      unfold toI26_6; exact_mod_cast this
    have : fromI26_6 (toI26_6 x) ≤ 0 := by unfold fromI26_6; linarith
    rw [abs_of_nonpos this, abs_of_neg hx']; linarith

/-- values on the 1/64 grid survive exactly -/
theorem fixed_point_exact (i : Int) : toI26_6 (fromI26_6 i) = i := by
  unfold toI26_6 fromI26_6
  have : (i : Rat) / 64 * 64 = (i : Rat) := by ring
  rw [this]; exact truncQ_intCast i

/-- the conversion in front of the scan converter rounds to nearest for pixel coordinates ≥ −1/128 -/
theorem scan_rounding (x : Rat) (hx : 0 ≤ x * 64 + 1 / 2) :
    |(fixedPoint x : Rat) / 64 - x| ≤ 1 / 128 := by
  obtain ⟨h1, h2⟩ := truncQ_nonneg_bounds hx
  unfold fixedPoint
  rw [abs_le]; constructor <;> linarith

/-- left of / above the image (pixel coordinate < −1/128) the same code rounds upwards by up to 3/128 -/
theorem scan_rounding_neg (x : Rat) (hx : x * 64 + 1 / 2 < 0) :
    1 / 128 ≤ (fixedPoint x : Rat) / 64 - x ∧ (fixedPoint x : Rat) / 64 - x < 3 / 128 := by
  obtain ⟨h1, h2⟩ := truncQ_neg_bounds hx
  unfold fixedPoint
  constructor <;> linarith

/-! ## (b) image size, y flip -/

/-- the image has W·dpmm pixels up to rounding to nearest -/
theorem image_size (w dpmm : Rat) (h : 0 ≤ w * dpmm) : |(imageDim w dpmm : Rat) - w * dpmm| ≤ 1 / 2 := by
  have h0 : (0 : Rat) ≤ w * dpmm + 1 / 2 := by linarith
  obtain ⟨h1, h2⟩ := truncQ_nonneg_bounds h0
  unfold imageDim
  rw [abs_le]; constructor <;> linarith

/-- and exactly W·dpmm when that is a whole number -/
theorem image_size_exact (w dpmm : Rat) (n : Nat) (h : w * dpmm = n) : imageDim w dpmm = n := by
  unfold imageDim
  rw [h]
  have hn : (0 : Rat) ≤ (n : Rat) + 1 / 2 := by positivity
  rw [truncQ_of_nonneg hn]
  have hle : (((n : Int)) : Rat) ≤ (n : Rat) + 1 / 2 := by push_cast; linarith
  have hlt : (n : Rat) + 1 / 2 < (((n : Int) + 1 : Int) : Rat) := by push_cast; linarith
  have a := Rat.le_floor_iff.mpr hle
  have b := Rat.floor_lt_iff.mpr hlt
  omega

/-- pixel row r shows canvas y = (H_px − r)/dpmm … -/
theorem yflip (hpx : Int) (dpmm r : Rat) (hd : dpmm ≠ 0) : pixelY hpx dpmm (canvasY hpx dpmm r) = r := by
  unfold pixelY canvasY
  field_simp
  ring

/-- … and conversely canvas y is drawn at row H_px − y·dpmm -/
theorem yflip_inv (hpx : Int) (dpmm y : Rat) (hd : dpmm ≠ 0) : canvasY hpx dpmm (pixelY hpx dpmm y) = y := by
  unfold pixelY canvasY
  field_simp
  ring

theorem xscale (dpmm c : Rat) (hd : dpmm ≠ 0) : pixelX dpmm (canvasX dpmm c) = c := by
  unfold pixelX canvasX
  field_simp

/-- the vertical axis points up in canvas space: larger y, smaller row -/
theorem yaxis_up (hpx : Int) (dpmm y1 y2 : Rat) (hd : 0 < dpmm) (h : y1 < y2) :
    pixelY hpx dpmm y2 < pixelY hpx dpmm y1 := by
  unfold pixelY
  have : y1 * dpmm < y2 * dpmm := by nlinarith
  linarith

/-- canvas y = 0 is the bottom edge of the last row, canvas y = H lies within half a pixel of the
top edge of row 0 -/
theorem canvas_rows (H dpmm : Rat) (h : 0 ≤ H * dpmm) :
    pixelY (imageDim H dpmm) dpmm 0 = imageDim H dpmm ∧ |pixelY (imageDim H dpmm) dpmm H| ≤ 1 / 2 := by
  have := image_size H dpmm h
  unfold pixelY
  constructor
  · ring
  · simpa using this

/-- flattening at PixelTolerance/dpmm millimetres deviates by at most PixelTolerance pixels -/
theorem flatten_pixel_tol (tol dpmm dev : Rat) (hd : 0 < dpmm) (h : dev ≤ tol / dpmm) : dev * dpmm ≤ tol := by
  have : dev * dpmm ≤ tol / dpmm * dpmm := by nlinarith
  have e : tol / dpmm * dpmm = tol := by field_simp
  linarith

/-! ## (c) slice aliasing: SetColorSpace leaves the caller's gradient unchanged -/

/-- "leaves … its gradients unchanged", full strength: whatever the colour space and the conversion,
every slice header anybody holds into the memory before the call (the receiver's `Stops` in
particular) shows the same contents afterwards -/
theorem gradients_unchanged {α} (linear : Bool) (f : α → α) (m : Mem α) (s : Slice) (t : Slice)
    (ht : t.arr < m.length) :
    view (setColorSpace linear f m s).1 t = view m t := by
  cases linear with
  | true => simp [setColorSpace]
  | false =>
    simp only [setColorSpace, Bool.false_eq_true, if_false]
    unfold view mapInPlace
    have hne : t.arr ≠ (copySlice m s).2.arr := by simp only [copySlice]; omega
    rw [mapInPlaceFrom_getD_other f _ _ hne]
    simp only [copySlice, getD_append_left _ _ _ ht]

/-- the receiver's own stops, as the special case the property names -/
theorem gradients_unchanged_receiver {α} (linear : Bool) (f : α → α) (m : Mem α) (s : Slice)
    (ha : s.arr < m.length) : view (setColorSpace linear f m s).1 s = view m s :=
  gradients_unchanged linear f m s s ha

/-- and the returned gradient carries the converted stops (non-linear colour space) … -/
theorem setColorSpace_result {α} (f : α → α) (m : Mem α) (s : Slice)
    (hl : s.off + s.len ≤ (m.getD s.arr []).length) :
    view (setColorSpace false f m s).1 (setColorSpace false f m s).2 = (view m s).map f := by
  simp only [setColorSpace, Bool.false_eq_true, if_false]
  have hlen : (view m s).length = s.len := view_length m s hl
  rw [mapInPlace_view f (copySlice m s).1 (copySlice m s).2]
  · rw [view_copySlice]
  · simp [copySlice]
  · simp only [copySlice, getD_append_new]
    omega

/-- … or is the receiver itself (linear colour space: early return) -/
theorem setColorSpace_linear {α} (f : α → α) (m : Mem α) (s : Slice) : setColorSpace true f m s = (m, s) := rfl

example : view (setColorSpace false (· + 1) [[7, 128, 64]] ⟨0, 1, 2, 2⟩).1 ⟨0, 1, 2, 2⟩ = [128, 64]
    ∧ view (setColorSpace false (· + 1) [[7, 128, 64]] ⟨0, 1, 2, 2⟩).1 (setColorSpace false (· + 1) [[7, 128, 64]] ⟨0, 1, 2, 2⟩).2 = [129, 65] := by decide

/-- the VALUE of the gradient returned by `SetColorSpace` is the pure function `scsValue` of the
receiver's value and the colour space — whatever else the memory holds -/
theorem setColorSpace_value {γ α} (linear : Bool) (f : α → α) (m : Mem α) (g : Grad γ)
    (hl : g.stops.off + g.stops.len ≤ (m.getD g.stops.arr []).length) :
    (gradSetColorSpace linear f m g).2.value (gradSetColorSpace linear f m g).1 = scsValue linear f (g.value m) := by
  cases linear with
  | true => rfl
  | false =>
    simp only [gradSetColorSpace, Grad.value, scsValue, Bool.false_eq_true, if_false]
    rw [setColorSpace_result f m g.stops hl]

/-- `SetColorSpace` is pure: equal gradient values and equal colour spaces give equal results,
independent of the call history (of the memories the two calls happen in, of earlier calls on the
same object, of which object carries the value) -/
theorem setColorSpace_pure {γ α} (linear : Bool) (f : α → α) (m₁ m₂ : Mem α) (g₁ g₂ : Grad γ)
    (h₁ : g₁.stops.off + g₁.stops.len ≤ (m₁.getD g₁.stops.arr []).length)
    (h₂ : g₂.stops.off + g₂.stops.len ≤ (m₂.getD g₂.stops.arr []).length)
    (hv : g₁.value m₁ = g₂.value m₂) :
    (gradSetColorSpace linear f m₁ g₁).2.value (gradSetColorSpace linear f m₁ g₁).1
      = (gradSetColorSpace linear f m₂ g₂).2.value (gradSetColorSpace linear f m₂ g₂).1 := by
  rw [setColorSpace_value linear f m₁ g₁ h₁, setColorSpace_value linear f m₂ g₂ h₂, hv]

/-- in particular a second call on the same object after a first one sees only the receiver's current
value: the first call leaves the receiver's value unchanged and nothing else is consulted -/
theorem setColorSpace_second_call {γ α} (l₁ l₂ : Bool) (f₁ f₂ : α → α) (m : Mem α) (g : Grad γ)
    (ha : g.stops.arr < m.length) (hl : g.stops.off + g.stops.len ≤ (m.getD g.stops.arr []).length) :
    let m' := (gradSetColorSpace l₁ f₁ m g).1
    (gradSetColorSpace l₂ f₂ m' g).2.value (gradSetColorSpace l₂ f₂ m' g).1 = scsValue l₂ f₂ (g.value m) := by
  intro m'
  have hview : view m' g.stops = view m g.stops := gradients_unchanged l₁ f₁ m g.stops g.stops ha
  have hlen : g.stops.off + g.stops.len ≤ (m'.getD g.stops.arr []).length := by
    have e : m'.getD g.stops.arr [] = m.getD g.stops.arr [] := by
      show (setColorSpace l₁ f₁ m g.stops).1.getD g.stops.arr [] = _
      cases l₁ with
      | true => rfl
      | false =>
        simp only [setColorSpace, Bool.false_eq_true, if_false, mapInPlace]
        rw [mapInPlaceFrom_getD_other f₁ _ _ (by simp only [copySlice]; omega)]
        simp only [copySlice, getD_append_left _ _ _ ha]
    rw [e]; exact hl
  rw [setColorSpace_value l₂ f₂ m' g hlen]
  simp only [Grad.value, hview]

/-- Go `append` writes in place when len < cap: a sibling header over the same array sees the write -/
theorem append_aliases :
    let m : Mem Nat := [[1, 2, 3, 4]]
    let a : Slice := ⟨0, 0, 2, 4⟩          -- a := arr[0:2]
    let b : Slice := ⟨0, 0, 3, 4⟩          -- b := arr[0:3]
    view (append m a 9).1 b = [1, 2, 9] ∧ view m b = [1, 2, 3] := by decide

/-! ## (d) draw order -/

/-- the colour of a pixel after replaying opaque draws is the paint of the LAST draw covering it,
or the initial colour if none does -/
theorem draw_order {Px Col} (ds : List (Draw Px Col)) (img : Px → Col) (p : Px) :
    replay ds img p = (lastCover ds p).getD (img p) := by
  unfold lastCover
  exact (lastCover_foldl ds p none (img p) img (by simp)).symm

theorem later_covers_earlier {Px Col} (pre post : List (Draw Px Col)) (d : Draw Px Col) (img : Px → Col) (p : Px)
    (hd : d.covers p = true) (hpost : ∀ e ∈ post, e.covers p = false) :
    replay (pre ++ d :: post) img p = d.paint := by
  rw [draw_order]
  unfold lastCover
  rw [List.foldl_append, List.foldl_cons]
  simp only [hd, if_true]
  have : ∀ (acc : Option Col), post.foldl (fun acc e => if e.covers p then some e.paint else acc) acc = acc := by
    induction post with
    | nil => intro acc; rfl
    | cons e es ih =>
      intro acc
      have he : e.covers p = false := hpost e (by simp)
      simp only [List.foldl_cons, he]
      exact ih (fun x hx => hpost x (by simp [hx])) acc
  rw [this]; rfl

theorem untouched {Px Col} (ds : List (Draw Px Col)) (img : Px → Col) (p : Px)
    (h : ∀ e ∈ ds, e.covers p = false) : replay ds img p = img p := by
  induction ds generalizing img with
  | nil => rfl
  | cons e es ih =>
    simp only [replay]
    rw [ih _ (fun x hx => h x (by simp [hx]))]
    simp [paintOne, h e (by simp)]

/-- draws numbered from k, painting their own number -/
def numbered : Nat → List IDraw → List (Draw IPt Nat)
  | _, [] => []
  | k, d :: ds => ⟨fun p => filled d.rule d.polys p, k⟩ :: numbered (k + 1) ds

/-- the `owner` the pixel specification expects is the result of replaying the draws (each
painting its 1-based index) over the untouched image 0 -/
theorem owner_replay (ds : List IDraw) (p : IPt) : owner ds p = replay (numbered 1 ds) (fun _ => 0) p := by
  unfold owner
  have : ∀ (ds : List IDraw) (k acc : Nat) (img : IPt → Nat), img p = acc →
      ownerAux p ds k acc = replay (numbered k ds) img p := by
    intro ds
    induction ds with
    | nil => intro k acc img h; simp [ownerAux, numbered, replay, h]
    | cons d ds ih =>
      intro k acc img h
      simp only [ownerAux, numbered, replay]
      apply ih
      simp only [paintOne]
      by_cases hf : filled d.rule d.polys p <;> simp [hf, h]
  exact this ds 1 0 _ rfl

/-- the bounding-box shortcuts the verdict handler uses (`ownerFast` over boxed contours) compute
exactly the specification's `owner` -/
theorem ownerFast_eq_owner (ds : List IDraw) (p : IPt) : ownerFast (ds.map mkBDraw) p = owner ds p :=
  ownerFastAux_eq p ds 1 0

/-- the "more than d from every edge" test behind the bounding boxes is the exact test of the
specification (`Wn.farFromPoly`, squared distances, no rounding) -/
theorem far_prefilter_exact (pts : List IPt) (p : IPt) (d : Int) (hd : 0 ≤ d) :
    (mkBPoly pts).far p d = farFromPoly p (d * d) pts := by
  unfold BPoly.far
  rw [mkBPoly_pts, ← farPolyFast_eq p d hd pts]
  by_cases h : (decide (p.x + d < (mkBPoly pts).xmin) || decide ((mkBPoly pts).xmax + d < p.x) || decide (p.y + d < (mkBPoly pts).ymin) || decide ((mkBPoly pts).ymax + d < p.y)) = true
  · rw [if_pos h]
    simp only [Bool.or_eq_true, decide_eq_true_eq] at h
    symm
    apply farPolyFast_of_outside p d (d * d) (mkBPoly pts).xmin (mkBPoly pts).xmax (mkBPoly pts).ymin (mkBPoly pts).ymax
    · unfold outsideBox; omega
    · exact mkBPoly_bounds pts
  · rw [if_neg h]

/-- a contour entirely above, below or to the left of a point does not wind around it -/
theorem wn1_outside_box (pts : List IPt) (p : IPt) : (mkBPoly pts).wn1 p = wn1 p pts := BPoly_wn1 pts p

/-- reversing every contour of a draw does not change its EvenOdd/NonZero ownership (from the
winding-number law `wn_reverse`): the specification does not depend on orientation conventions -/
theorem filled_reverse (r : Rule) (hr : r = .nonZero ∨ r = .evenOdd) (polys : List (List IPt)) (p : IPt) :
    filled r (polys.map List.reverse) p = filled r polys p := by
  unfold filled
  rw [wn_reverse]
  rcases hr with h | h <;> subst h <;> simp [Rule.fills]

/-! ## gradient lookup -/

theorem gen_gradArgX (d : Rat) (c : Int) : G.gradArgX d c = gradX d c := rfl
theorem gen_gradArgY (hpx : Int) (d : Rat) (r : Int) : G.gradArgY (Scalar.ofInt hpx) d r = gradY hpx d r := rfl

/-- pixel (c, r) takes its gradient colour at the canvas point whose image under the path map
(x·dpmm, H_px − y·dpmm) is the centre (c + 1/2, r + 1/2) of that pixel: gradients and paths live in
the same frame (millimetres, y up), at every resolution -/
theorem gradient_lookup_centre (hpx : Int) (dpmm : Rat) (c r : Int) (hd : dpmm ≠ 0) :
    pixelX dpmm (gradX dpmm c) = (c : Rat) + 1 / 2 ∧ pixelY hpx dpmm (gradY hpx dpmm r) = (r : Rat) + 1 / 2 := by
  unfold pixelX pixelY gradX gradY
  constructor
  · field_simp
  · field_simp
    ring

/-- and it is the canvas point shown at that pixel centre (`yflip`) -/
theorem gradient_lookup_canvas (hpx : Int) (dpmm : Rat) (c r : Int) :
    gradX dpmm c = canvasX dpmm ((c : Rat) + 1 / 2) ∧ gradY hpx dpmm r = canvasY hpx dpmm ((r : Rat) + 1 / 2) := by
  unfold gradX gradY canvasX canvasY
  constructor
  · rfl
  · ring

/-! ## the canvas → pixel pipeline (over the L1 translations of Matrix.Mul / Matrix.Dot) -/

section Pipeline
open GenK
variable {K : Type} [Field K] [LinearOrder K] [IsStrictOrderedRing K] [Env K]

/-- RenderViewTo (`view.Mul(l.m)`), Path.Transform (`Dot`) and ToScanxScanner's pixel map compose to
ONE affine map: the matrix pixelAff · view · m -/
theorem pipeline_single_affine (view m : Mat K) (h d : K) (p : Pt K) :
    pipelinePt Matrix.Mul Matrix.Dot pxK pyK view m h d p
      = Matrix.Dot (Matrix.Mul (pixelAff d h) (Matrix.Mul view m)) p := by
  rw [dot_mulK, pixelAff_dot]
  rfl

/-- … which acts as: layer matrix first, then the render view, then the pixel map (x·dpmm, H_px − y·dpmm) -/
theorem pipeline_composes (view m : Mat K) (h d : K) (p : Pt K) :
    pipelinePt Matrix.Mul Matrix.Dot pxK pyK view m h d p
      = ⟨pxK d (Matrix.Dot view (Matrix.Dot m p)).x, pyK h d (Matrix.Dot view (Matrix.Dot m p)).y⟩ := by
  simp only [pipelinePt, dot_mulK]

/-- canvas point ↔ pixel position is a bijection when view and layer matrix are invertible and the
resolution is not zero: the inverse matrix takes the pixel position back -/
theorem pipeline_bijective (view m : Mat K) (h d : K) (p : Pt K)
    (hv : Matrix.Det view ≠ 0) (hm : Matrix.Det m ≠ 0) (hd : d ≠ 0) :
    Matrix.Dot (Matrix.Inv (Matrix.Mul (pixelAff d h) (Matrix.Mul view m)))
      (pipelinePt Matrix.Mul Matrix.Dot pxK pyK view m h d p) = p := by
  rw [pipeline_single_affine]
  apply inv_dotK
  rw [det_mulK, det_mulK, pixelAff_det]
  have : d * d ≠ 0 := mul_ne_zero hd hd
  exact mul_ne_zero (neg_ne_zero.mpr this) (mul_ne_zero hv hm)

theorem pipeline_injective (view m : Mat K) (h d : K) (p q : Pt K)
    (hv : Matrix.Det view ≠ 0) (hm : Matrix.Det m ≠ 0) (hd : d ≠ 0)
    (he : pipelinePt Matrix.Mul Matrix.Dot pxK pyK view m h d p = pipelinePt Matrix.Mul Matrix.Dot pxK pyK view m h d q) :
    p = q := by
  rw [← pipeline_bijective view m h d p hv hm hd, he, pipeline_bijective view m h d q hv hm hd]

/-- Context.CoordSystemView: where each coordinate system puts a point of a W × H canvas -/
theorem coordSystem_dot (W H : K) (p : Pt K) :
    Matrix.Dot (coordSystemView identK Matrix.ReflectXAbout Matrix.ReflectYAbout (W / 2) (H / 2) 0) p = p
    ∧ Matrix.Dot (coordSystemView identK Matrix.ReflectXAbout Matrix.ReflectYAbout (W / 2) (H / 2) 1) p = ⟨W - p.x, p.y⟩
    ∧ Matrix.Dot (coordSystemView identK Matrix.ReflectXAbout Matrix.ReflectYAbout (W / 2) (H / 2) 2) p = ⟨W - p.x, H - p.y⟩
    ∧ Matrix.Dot (coordSystemView identK Matrix.ReflectXAbout Matrix.ReflectYAbout (W / 2) (H / 2) 3) p = ⟨p.x, H - p.y⟩ := by
  refine ⟨?_, ?_, ?_, ?_⟩ <;>
  · cases p
    simp only [coordSystemView, identK, Matrix.ReflectXAbout, Matrix.ReflectYAbout, Matrix.Translate, Matrix.Scale, Matrix.Mul, Matrix.Dot]
    congr 1 <;> ring

/-- every coordinate system view is an involution of the canvas rectangle -/
theorem coordSystem_involutive (W H : K) (cs : Nat) (p : Pt K) :
    Matrix.Dot (coordSystemView identK Matrix.ReflectXAbout Matrix.ReflectYAbout (W / 2) (H / 2) cs)
      (Matrix.Dot (coordSystemView identK Matrix.ReflectXAbout Matrix.ReflectYAbout (W / 2) (H / 2) cs) p) = p := by
  obtain ⟨h0, h1, h2, h3⟩ := coordSystem_dot W H p
  match cs with
  | 0 => rw [(coordSystem_dot W H p).1, (coordSystem_dot W H p).1]
  | 1 => rw [(coordSystem_dot W H p).2.1, (coordSystem_dot W H _).2.1]; cases p; simp
  | 2 => rw [(coordSystem_dot W H p).2.2.1, (coordSystem_dot W H _).2.2.1]; cases p; simp
  | 3 => rw [(coordSystem_dot W H p).2.2.2, (coordSystem_dot W H _).2.2.2]; cases p; simp
  | n + 4 =>
    have : coordSystemView identK Matrix.ReflectXAbout Matrix.ReflectYAbout (W / 2) (H / 2) (n + 4) = (identK : Mat K) := rfl
    rw [this]; cases p; simp [Matrix.Dot, identK]

end Pipeline

/-! ## image size is monotone, canvas points land inside the image -/

theorem image_size_mono_resolution (w d₁ d₂ : Rat) (hw : 0 ≤ w) (hd : 0 ≤ d₁) (h : d₁ ≤ d₂) :
    imageDim w d₁ ≤ imageDim w d₂ := by
  unfold imageDim
  apply truncQ_mono_nonneg
  · have : 0 ≤ w * d₁ := mul_nonneg hw hd
    linarith
  · have : w * d₁ ≤ w * d₂ := mul_le_mul_of_nonneg_left h hw
    linarith

theorem image_size_mono_size (w₁ w₂ d : Rat) (hw : 0 ≤ w₁) (hd : 0 ≤ d) (h : w₁ ≤ w₂) :
    imageDim w₁ d ≤ imageDim w₂ d := by
  unfold imageDim
  apply truncQ_mono_nonneg
  · have : 0 ≤ w₁ * d := mul_nonneg hw hd
    linarith
  · have : w₁ * d ≤ w₂ * d := mul_le_mul_of_nonneg_right h hd
    linarith

/-- the conversion in front of the scanner is monotone for pixel coordinates ≥ 0 -/
theorem fixedPoint_mono (x y : Rat) (hx : 0 ≤ x) (h : x ≤ y) : fixedPoint x ≤ fixedPoint y := by
  unfold fixedPoint
  apply truncQ_mono_nonneg <;> linarith

/-- a canvas abscissa in [0, W] reaches the scanner inside the image, up to the rounding of the image
size (at most half a pixel) and of the 26.6 grid (1/128) -/
theorem canvas_x_inside_image (W d x : Rat) (hd : 0 ≤ d) (h0 : 0 ≤ x) (h1 : x ≤ W) :
    0 ≤ fixedPoint (pixelX d x) ∧ (fixedPoint (pixelX d x) : Rat) / 64 ≤ (imageDim W d : Rat) + 1 / 2 + 1 / 128 := by
  have hxd : 0 ≤ x * d := mul_nonneg h0 hd
  have hWd : x * d ≤ W * d := mul_le_mul_of_nonneg_right h1 hd
  have hs := scan_rounding (x * d) (by linarith)
  have hi := image_size W d (le_trans hxd hWd)
  rw [abs_le] at hs hi
  unfold pixelX
  constructor
  · unfold fixedPoint
    exact truncQ_nonneg_of_nonneg (by linarith)
  · linarith [hs.1, hs.2, hi.1, hi.2]

/-- and exactly inside [0, W_px] (in 1/64 pixels) when W·dpmm is a whole number of pixels -/
theorem canvas_x_inside_image_exact (W d x : Rat) (n : Nat) (hn : W * d = n) (hd : 0 ≤ d) (h0 : 0 ≤ x) (h1 : x ≤ W) :
    0 ≤ fixedPoint (pixelX d x) ∧ fixedPoint (pixelX d x) ≤ 64 * imageDim W d := by
  have hxd : 0 ≤ x * d := mul_nonneg h0 hd
  have hWd : x * d ≤ W * d := mul_le_mul_of_nonneg_right h1 hd
  unfold pixelX
  refine ⟨by unfold fixedPoint; exact truncQ_nonneg_of_nonneg (by linarith), ?_⟩
  rw [image_size_exact W d n hn]
  have hm := fixedPoint_mono (x * d) (W * d) hxd hWd
  have : fixedPoint (W * d) = 64 * (n : Int) := by
    unfold fixedPoint
    rw [hn]
    have e : (n : Rat) * 64 + 1 / 2 = (((64 * (n : Int)) : Int) : Rat) + 1 / 2 := by push_cast; ring
    rw [e]
    exact truncQ_int_add_half _ (by omega)
  omega

/-- a canvas ordinate in [0, H]: the bottom edge y = 0 is row H_px exactly, the rest lies above it and not
more than the size rounding above row 0 -/
theorem canvas_y_inside_image (H d y : Rat) (hd : 0 ≤ d) (h0 : 0 ≤ y) (h1 : y ≤ H) :
    pixelY (imageDim H d) d y ≤ (imageDim H d : Rat) ∧ -(1 / 2) ≤ pixelY (imageDim H d) d y := by
  have hyd : 0 ≤ y * d := mul_nonneg h0 hd
  have hHd : y * d ≤ H * d := mul_le_mul_of_nonneg_right h1 hd
  have hi := image_size H d (le_trans hyd hHd)
  rw [abs_le] at hi
  unfold pixelY
  constructor <;> linarith [hi.1, hi.2]

/-! ## compositing (srwiley/scanx ImgSpanner.SpanFgColor, one channel) -/

/-- an opaque paint at full coverage replaces the destination exactly -/
theorem spanBlend_opaque_full (c8 d : Nat) (h : c8 < 256) : spanBlend (c8 * 257) m16 m16 d = c8 := by
  unfold spanBlend m16 mp16
  simp only [if_true]
  omega

/-- zero coverage leaves the destination unchanged … -/
theorem spanBlend_zero_coverage (c ca d : Nat) (h : d < 256) : spanBlend c ca 0 d = d := by
  unfold spanBlend m16 mp16
  simp only [Nat.mul_zero, Nat.zero_div, Nat.sub_zero, Nat.add_zero]
  have : ¬ (0 = 65535 * 65535) := by decide
  simp only [this, if_false]
  omega

/-- … and so does a fully transparent paint at any coverage (identity of source-over) -/
theorem spanBlend_transparent (ma d : Nat) (h : d < 256) : spanBlend 0 0 ma d = d := by
  unfold spanBlend m16 mp16
  simp only [Nat.zero_mul, Nat.zero_div, Nat.sub_zero, Nat.add_zero]
  have : ¬ (0 = 65535 * 65535) := by decide
  simp only [this, if_false]
  omega

/-- the uint32 arithmetic of the blend cannot overflow for premultiplied paints … -/
theorem spanBlend_no_overflow (c ca ma d : Nat) (hc : c ≤ ca) (hca : ca ≤ 65535) (hma : ma ≤ 65535) (hd : d ≤ 255) :
    spanBlendNum c ca ma d < 2 ^ 32 := by
  have := spanBlendNum_lt c ca ma d hc hca hma hd
  omega

/-- … and its result fits the 8-bit channel (the `uint8(…)` conversion never wraps) -/
theorem spanBlend_le_255 (c ca ma d : Nat) (hc : c ≤ ca) (hca : ca ≤ 65535) (hma : ma ≤ 65535) (hd : d ≤ 255) :
    spanBlend c ca ma d ≤ 255 := by
  unfold spanBlend
  split
  · rename_i h
    have hx : c * ma ≤ ca * ma := Nat.mul_le_mul_right ma hc
    unfold m16 at h
    unfold mp16
    omega
  · have := spanBlendNum_lt c ca ma d hc hca hma hd
    unfold spanBlendNum at this
    unfold mp16
    omega

/-- replaying fully covering draws: an opaque draw hides everything drawn before it -/
theorem composite_opaque_last (ds : List Px8) (s : Px8) (hr : s.r < 256) (hg : s.g < 256) (hb : s.b < 256) (ha : s.a = 255) :
    composite (ds ++ [s]) = s := by
  unfold composite
  rw [List.foldl_append]
  generalize List.foldl (fun d s => blendPx s m16 d) ⟨0, 0, 0, 0⟩ ds = acc
  simp only [List.foldl_cons, List.foldl_nil, blendPx, ha]
  have e : (255 * 257 : Nat) = m16 := by decide
  rw [e, spanBlend_opaque_full s.r _ hr, spanBlend_opaque_full s.g _ hg, spanBlend_opaque_full s.b _ hb]
  have : spanBlend m16 m16 m16 acc.a = 255 := by
    have := spanBlend_opaque_full 255 acc.a (by decide)
    rw [e] at this; exact this
  rw [this]
  cases s; simp_all

/-- the ideal operator the integer blend approximates: source-over of premultiplied (colour, alpha)
pairs is associative, has the transparent pixel as identity on both sides, and an opaque source absorbs -/
theorem over_assoc (a b c : Rat × Rat) : over a (over b c) = over (over a b) c := by
  simp only [over]; ext <;> simp <;> ring

theorem over_transparent_left (d : Rat × Rat) : over (0, 0) d = d := by
  simp [over]

theorem over_transparent_right (s : Rat × Rat) : over s (0, 0) = s := by
  simp [over]

theorem over_opaque (c : Rat) (d : Rat × Rat) : over (c, 1) d = (c, 1) := by
  simp [over]

/-! ## colour-space conversions of opaque colours (complete 8-bit tables of colors.go)

Each statement is decided over the COMPLETE table (256 entries, `decide +kernel`), and the tables
are compared entry by entry with the real `ToLinear`/`FromLinear` on every run (CSP lines). -/

open Canvas.C14.Tables

def allTables : List (Array Nat) := [srgbToLinear, srgbFromLinear, gamma22ToLinear, gamma22FromLinear]

def monoCheck (t : Array Nat) : Bool := t.size == 256 && (List.range 255).all fun i => t[i]! ≤ t[i + 1]!
def endCheck (t : Array Nat) : Bool := t[0]! == 0 && t[255]! == 255 && (List.range 256).all fun i => t[i]! ≤ 255
def rtCheck (f g : Array Nat) (lo e : Nat) : Bool :=
  (List.range 256).all fun c => decide (lo ≤ c → g[f[c]!]! ≤ c + e ∧ c ≤ g[f[c]!]! + e)

/-- both directions of both colour spaces are monotone (non-decreasing) on 0..255 -/
theorem colourspace_monotone (t : Array Nat) (ht : t ∈ allTables) (i : Nat) (hi : i < 255) : t[i]! ≤ t[i + 1]! := by
  have h : allTables.all monoCheck = true := by decide +kernel
  have ht' := List.all_eq_true.mp h t ht
  simp only [monoCheck, Bool.and_eq_true, List.all_eq_true, List.mem_range, decide_eq_true_eq] at ht'
  exact ht'.2 i hi

/-- black and white are fixed, and every entry is a channel value -/
theorem colourspace_endpoints (t : Array Nat) (ht : t ∈ allTables) : t[0]! = 0 ∧ t[255]! = 255 ∧ ∀ i < 256, t[i]! ≤ 255 := by
  have h : allTables.all endCheck = true := by decide +kernel
  have ht' := List.all_eq_true.mp h t ht
  simp only [endCheck, Bool.and_eq_true, List.all_eq_true, List.mem_range, decide_eq_true_eq, beq_iff_eq] at ht'
  exact ⟨ht'.1.1, ht'.1.2, ht'.2⟩

/-- linear light is never brighter than the encoded value -/
theorem colourspace_toLinear_le (i : Nat) (hi : i < 256) : srgbToLinear[i]! ≤ i ∧ gamma22ToLinear[i]! ≤ i := by
  have h : ((List.range 256).all fun i => decide (srgbToLinear[i]! ≤ i ∧ gamma22ToLinear[i]! ≤ i)) = true := by decide +kernel
  have := List.all_eq_true.mp h i (List.mem_range.mpr hi)
  simpa using this

/-- round trip colour → linear → colour of an opaque sRGB channel: off by at most 6 (attained in the dark
range), at most 1 from 64 upwards -/
theorem srgb_roundtrip (c : Nat) (hc : c < 256) :
    (srgbFromLinear[srgbToLinear[c]!]! ≤ c + 6 ∧ c ≤ srgbFromLinear[srgbToLinear[c]!]! + 6)
    ∧ (64 ≤ c → srgbFromLinear[srgbToLinear[c]!]! ≤ c + 1 ∧ c ≤ srgbFromLinear[srgbToLinear[c]!]! + 1) := by
  have h1 : rtCheck srgbToLinear srgbFromLinear 0 6 = true := by decide +kernel
  have h2 : rtCheck srgbToLinear srgbFromLinear 64 1 = true := by decide +kernel
  have a := List.all_eq_true.mp h1 c (List.mem_range.mpr hc)
  have b := List.all_eq_true.mp h2 c (List.mem_range.mpr hc)
  simp only [decide_eq_true_eq] at a b
  exact ⟨a (Nat.zero_le c), b⟩

/-- the same for gamma 2.2: at most 14, at most 1 from 64 upwards -/
theorem gamma22_roundtrip (c : Nat) (hc : c < 256) :
    (gamma22FromLinear[gamma22ToLinear[c]!]! ≤ c + 14 ∧ c ≤ gamma22FromLinear[gamma22ToLinear[c]!]! + 14)
    ∧ (64 ≤ c → gamma22FromLinear[gamma22ToLinear[c]!]! ≤ c + 1 ∧ c ≤ gamma22FromLinear[gamma22ToLinear[c]!]! + 1) := by
  have h1 : rtCheck gamma22ToLinear gamma22FromLinear 0 14 = true := by decide +kernel
  have h2 : rtCheck gamma22ToLinear gamma22FromLinear 64 1 = true := by decide +kernel
  have a := List.all_eq_true.mp h1 c (List.mem_range.mpr hc)
  have b := List.all_eq_true.mp h2 c (List.mem_range.mpr hc)
  simp only [decide_eq_true_eq] at a b
  exact ⟨a (Nat.zero_le c), b⟩

/-- the bounds 6 and 14 are attained (the error set is not smaller) -/
theorem roundtrip_bounds_attained :
    (∃ c < 256, c = srgbFromLinear[srgbToLinear[c]!]! + 6 ∨ srgbFromLinear[srgbToLinear[c]!]! = c + 6)
    ∧ (∃ c < 256, c = gamma22FromLinear[gamma22ToLinear[c]!]! + 14 ∨ gamma22FromLinear[gamma22ToLinear[c]!]! = c + 14) := by
  have h : ((List.range 256).any fun c => decide (c = srgbFromLinear[srgbToLinear[c]!]! + 6 ∨ srgbFromLinear[srgbToLinear[c]!]! = c + 6)) = true
      ∧ ((List.range 256).any fun c => decide (c = gamma22FromLinear[gamma22ToLinear[c]!]! + 14 ∨ gamma22FromLinear[gamma22ToLinear[c]!]! = c + 14)) = true := by
    decide +kernel
  obtain ⟨h1, h2⟩ := h
  obtain ⟨c1, m1, p1⟩ := List.any_eq_true.mp h1
  obtain ⟨c2, m2, p2⟩ := List.any_eq_true.mp h2
  exact ⟨⟨c1, List.mem_range.mp m1, by simpa using p1⟩, ⟨c2, List.mem_range.mp m2, by simpa using p2⟩⟩

/-- linear → colour → linear loses at most 1 in both spaces -/
theorem linear_roundtrip (l : Nat) (hl : l < 256) :
    (srgbToLinear[srgbFromLinear[l]!]! ≤ l + 1 ∧ l ≤ srgbToLinear[srgbFromLinear[l]!]! + 1)
    ∧ (gamma22ToLinear[gamma22FromLinear[l]!]! ≤ l + 1 ∧ l ≤ gamma22ToLinear[gamma22FromLinear[l]!]! + 1) := by
  have h1 : rtCheck srgbFromLinear srgbToLinear 0 1 = true := by decide +kernel
  have h2 : rtCheck gamma22FromLinear gamma22ToLinear 0 1 = true := by decide +kernel
  have a := List.all_eq_true.mp h1 l (List.mem_range.mpr hl)
  have b := List.all_eq_true.mp h2 l (List.mem_range.mpr hl)
  simp only [decide_eq_true_eq] at a b
  exact ⟨a (Nat.zero_le l), b (Nat.zero_le l)⟩

/-! ## non-vacuity: concrete, non-trivial instances of the hypotheses used above -/

@[instance_reducible] def envQ14 : Env ℚ := ⟨0, 0, 0, id, id, id, fun _ _ => 0, id, fun _ _ => 0, id, id, fun _ _ => 0, fun _ => false⟩

section NonVacuity
attribute [local instance] envQ14
open GenK

/-- a rotated, scaled layer through a translating view at 4.5 px/mm: all three hypotheses of `pipeline_bijective` hold -/
example : Matrix.Det (⟨1, 0, 3, 0, 1, -2⟩ : Mat ℚ) ≠ 0 ∧ Matrix.Det (⟨0, -2, 5, 2, 0, 1⟩ : Mat ℚ) ≠ 0 ∧ ((9 : ℚ) / 2) ≠ 0 := by
  refine ⟨?_, ?_, ?_⟩ <;> norm_num [Matrix.Det]

/-- and the pipeline really moves points: (1, 1) of that layer lands at pixel position (27, 85.5) on a 90 px high image -/
example : pipelinePt Matrix.Mul Matrix.Dot pxK pyK (⟨1, 0, 3, 0, 1, -2⟩ : Mat ℚ) ⟨0, -2, 5, 2, 0, 1⟩ 90 (9 / 2) ⟨1, 1⟩ = ⟨27, 171 / 2⟩ := by
  simp only [pipelinePt, Matrix.Mul, Matrix.Dot, pxK, pyK]; norm_num
end NonVacuity

/-- `image_size_mono_resolution`, `canvas_x_inside_image`: a 10.3 mm canvas at 2 and 4.5 px/mm, x = 7 -/
example : (0 : Rat) ≤ 103 / 10 ∧ (0 : Rat) ≤ 2 ∧ (2 : Rat) ≤ 9 / 2 ∧ (0 : Rat) ≤ 7 ∧ (7 : Rat) ≤ 103 / 10 := by norm_num
example : imageDim (103 / 10) 2 = 21 ∧ imageDim (103 / 10) (9 / 2) = 46 := by decide +kernel
/-- `canvas_x_inside_image_exact`: 10 mm at 4.5 px/mm is exactly 45 px -/
example : (10 : Rat) * (9 / 2) = (45 : Nat) := by norm_num
/-- `fixed_point_neg_attained`, `scan_rounding_neg`: hypotheses satisfiable -/
example : (0 : Rat) ≤ 1 / 100 ∧ (1 / 100 : Rat) < 1 / 64 ∧ ((-3 / 10 : Rat)) * 64 + 1 / 2 < 0 := by norm_num
/-- `spanBlend_le_255` / `spanBlend_no_overflow`: a half-transparent premultiplied paint at partial coverage over white -/
example : (100 * 257 : Nat) ≤ 128 * 257 ∧ 128 * 257 ≤ 65535 ∧ 40000 ≤ 65535 ∧ (255 : Nat) ≤ 255
    ∧ spanBlend (100 * 257) (128 * 257) 40000 255 = 238 := by decide
/-- `composite_opaque_last` and a genuinely blended case: half-transparent red over opaque blue -/
example : composite [⟨0, 0, 255, 255⟩, ⟨128, 0, 0, 128⟩] = ⟨128, 0, 127, 255⟩ := by decide
/-- `gradients_unchanged`, `setColorSpace_value`: a receiver whose stops sit inside a larger array -/
example : (⟨0, 1, 2, 3⟩ : Slice).arr < ([[7, 128, 64, 9]] : Mem Nat).length
    ∧ (⟨0, 1, 2, 3⟩ : Slice).off + (⟨0, 1, 2, 3⟩ : Slice).len ≤ (([[7, 128, 64, 9]] : Mem Nat).getD 0 []).length := by decide
/-- `later_covers_earlier`: two draws, the second covering the pixel -/
example : replay [⟨fun p : Nat => p < 5, 1⟩, ⟨fun p : Nat => 3 ≤ p, 2⟩] (fun _ => 0) 4 = 2
    ∧ replay [⟨fun p : Nat => p < 5, 1⟩, ⟨fun p : Nat => 3 ≤ p, 2⟩] (fun _ => 0) 1 = 1 := by decide

end C14
