import CanvasModel.C14
import CanvasProofs.Lemmas.C14
import CanvasProofs.Lemmas.C14Box
import CanvasProofs.Lemmas.C14Far
import CanvasProofs.Lemmas.Wn

/-! # C14 — Rasterization paints exactly the pixels inside (partial)

The third-party scan converter (srwiley/scanx) is not modelled. Proved here, for all inputs, about
hand-written models tied to the code by exact ('=') correspondence:

* the 26.6 fixed-point conversions of util.go / path.go (`fixed_point*`, `scan_rounding*`),
* the image size and the y flip of `rasterizer.Draw/New` and `Path.ToScanxScanner` (`image_size*`,
  `yflip*`, `yaxis_up`, `canvas_rows`, `flatten_pixel_tol`),
* a Go-slice aliasing model: `SetColorSpace` (which copies the stops since 1d02f0f) leaves every
  slice the caller holds unchanged (`gradients_unchanged`, full strength) and returns the converted
  stops (`setColorSpace_result`); `append_aliases` records why the copy is needed,
* draw order of the replay (`draw_order`, `later_covers_earlier`, `untouched`) and the agreement of
  the pixel specification's `owner` with that replay (`owner_replay`),
* the gradient lookup of the rasterizer: pixel (c, r) evaluates its gradient at the canvas point
  whose image is the pixel centre (`gradient_lookup_centre`, tied by the GRAD correspondence).
Pixel coverage itself is refined against the exact winding-number specification (`PIX` verdicts). -/
namespace C14
open Canvas Canvas.C14 Canvas.Wn

/-! ## tie: the generic definitions the driver runs at `Float` against the real code are, at `Rat`,
the definitions the theorems below are about -/

theorem gen_toI26_6 (x : Rat) : G.toI26_6 x = some (toI26_6 x) := rfl
theorem gen_fromI26_6 (i : Int) : (G.fromI26_6 i : Rat) = fromI26_6 i := rfl
theorem gen_fixedPoint (x : Rat) : G.fixedPoint x = some (fixedPoint x) := rfl
theorem gen_imageDim (w d : Rat) : G.imageDim w d = some (imageDim w d) := rfl
theorem gen_pixelX (d x : Rat) : G.pixelX d x = pixelX d x := rfl
theorem gen_pixelY (hpx : Int) (d y : Rat) : G.pixelY (Scalar.ofInt hpx) d y = pixelY hpx d y := rfl

/-! ## (a) fixed point -/

/-- x ≥ 0: the round trip loses less than one unit of 1/64, downwards -/
theorem fixed_point_nonneg (x : Rat) (hx : 0 ≤ x) :
    0 ≤ x - fromI26_6 (toI26_6 x) ∧ x - fromI26_6 (toI26_6 x) < 1 / 64 := by
  have h64 : (0 : Rat) ≤ x * 64 := by positivity
  obtain ⟨h1, h2⟩ := truncQ_nonneg_bounds h64
  unfold fromI26_6 toI26_6
  constructor <;> linarith

/-- the headline bound: |fromI(toI x) − x| ≤ 1/64 for x ≥ 0 -/
theorem fixed_point (x : Rat) (hx : 0 ≤ x) : |fromI26_6 (toI26_6 x) - x| ≤ 1 / 64 := by
  obtain ⟨h1, h2⟩ := fixed_point_nonneg x hx
  rw [abs_le]; constructor <;> linarith

/-- x < 0: truncation is toward zero, so the error has the other sign: exactly the set [0, 1/64) -/
theorem fixed_point_neg (x : Rat) (hx : x < 0) :
    0 ≤ fromI26_6 (toI26_6 x) - x ∧ fromI26_6 (toI26_6 x) - x < 1 / 64 := by
  have h64 : x * 64 < 0 := by linarith
  obtain ⟨h1, h2⟩ := truncQ_neg_bounds h64
  unfold fromI26_6 toI26_6
  constructor <;> linarith

/-- every error in [0, 1/64) is attained on the negative side (the error set is exact) -/
theorem fixed_point_neg_attained (e : Rat) (h0 : 0 ≤ e) (h1 : e < 1 / 64) :
    fromI26_6 (toI26_6 (-1 - e)) - (-1 - e) = e := by
  have hneg : (-1 - e) * 64 < 0 := by linarith
  have hfl : (-((-1 - e) * 64)).floor = 64 := by
    have hle : ((64 : Int) : Rat) ≤ -((-1 - e) * 64) := by push_cast; linarith
    have hlt : -((-1 - e) * 64) < ((65 : Int) : Rat) := by push_cast; linarith
    have a := Rat.le_floor_iff.mpr hle
    have b := Rat.floor_lt_iff.mpr hlt
    omega
  unfold fromI26_6 toI26_6
  rw [truncQ_of_neg hneg, hfl]
  push_cast
  ring

/-- in both cases the result is no farther from zero than x -/
theorem fixed_point_toward_zero (x : Rat) : |fromI26_6 (toI26_6 x)| ≤ |x| := by
  by_cases hx : 0 ≤ x
  · obtain ⟨h1, h2⟩ := fixed_point_nonneg x hx
    have h64 : (0 : Rat) ≤ x * 64 := by positivity
    have hn : (0 : Rat) ≤ ((toI26_6 x : Int) : Rat) := by
      have := truncQ_nonneg_of_nonneg h64
      unfold toI26_6; exact_mod_cast this
    have : 0 ≤ fromI26_6 (toI26_6 x) := by unfold fromI26_6; positivity
    rw [abs_of_nonneg this, abs_of_nonneg hx]; linarith
  · have hx' : x < 0 := not_le.mp hx
    obtain ⟨h1, h2⟩ := fixed_point_neg x hx'
    have h64 : x * 64 < 0 := by linarith
    have hn : ((toI26_6 x : Int) : Rat) ≤ 0 := by
      have := truncQ_nonpos_of_neg h64
      unfold toI26_6; exact_mod_cast this
    have : fromI26_6 (toI26_6 x) ≤ 0 := by unfold fromI26_6; linarith
    rw [abs_of_nonpos this, abs_of_neg hx']; linarith

/-- values on the 1/64 grid survive exactly -/
theorem fixed_point_exact (i : Int) : toI26_6 (fromI26_6 i) = i := by
  unfold toI26_6 fromI26_6
  have : (i : Rat) / 64 * 64 = (i : Rat) := by ring
  rw [this]; exact truncQ_intCast i

/-- the conversion in front of the scan converter rounds to nearest for pixel coordinates ≥ −1/128 -/
theorem scan_rounding (x : Rat) (hx : 0 ≤ x * 64 + 1 / 2) :
    |(fixedPoint x : Rat) / 64 - x| ≤ 1 / 128 := by
  obtain ⟨h1, h2⟩ := truncQ_nonneg_bounds hx
  unfold fixedPoint
  rw [abs_le]; constructor <;> linarith

/-- left of / above the image (pixel coordinate < −1/128) the same code rounds upwards by up to 3/128 -/
theorem scan_rounding_neg (x : Rat) (hx : x * 64 + 1 / 2 < 0) :
    1 / 128 ≤ (fixedPoint x : Rat) / 64 - x ∧ (fixedPoint x : Rat) / 64 - x < 3 / 128 := by
  obtain ⟨h1, h2⟩ := truncQ_neg_bounds hx
  unfold fixedPoint
  constructor <;> linarith

/-! ## (b) image size, y flip -/

/-- the image has W·dpmm pixels up to rounding to nearest -/
theorem image_size (w dpmm : Rat) (h : 0 ≤ w * dpmm) : |(imageDim w dpmm : Rat) - w * dpmm| ≤ 1 / 2 := by
  have h0 : (0 : Rat) ≤ w * dpmm + 1 / 2 := by linarith
  obtain ⟨h1, h2⟩ := truncQ_nonneg_bounds h0
  unfold imageDim
  rw [abs_le]; constructor <;> linarith

/-- and exactly W·dpmm when that is a whole number -/
theorem image_size_exact (w dpmm : Rat) (n : Nat) (h : w * dpmm = n) : imageDim w dpmm = n := by
  unfold imageDim
  rw [h]
  have hn : (0 : Rat) ≤ (n : Rat) + 1 / 2 := by positivity
  rw [truncQ_of_nonneg hn]
  have hle : (((n : Int)) : Rat) ≤ (n : Rat) + 1 / 2 := by push_cast; linarith
  have hlt : (n : Rat) + 1 / 2 < (((n : Int) + 1 : Int) : Rat) := by push_cast; linarith
  have a := Rat.le_floor_iff.mpr hle
  have b := Rat.floor_lt_iff.mpr hlt
  omega

/-- pixel row r shows canvas y = (H_px − r)/dpmm … -/
theorem yflip (hpx : Int) (dpmm r : Rat) (hd : dpmm ≠ 0) : pixelY hpx dpmm (canvasY hpx dpmm r) = r := by
  unfold pixelY canvasY
  field_simp
  ring

/-- … and conversely canvas y is drawn at row H_px − y·dpmm -/
theorem yflip_inv (hpx : Int) (dpmm y : Rat) (hd : dpmm ≠ 0) : canvasY hpx dpmm (pixelY hpx dpmm y) = y := by
  unfold pixelY canvasY
  field_simp
  ring

theorem xscale (dpmm c : Rat) (hd : dpmm ≠ 0) : pixelX dpmm (canvasX dpmm c) = c := by
  unfold pixelX canvasX
  field_simp

/-- the vertical axis points up in canvas space: larger y, smaller row -/
theorem yaxis_up (hpx : Int) (dpmm y1 y2 : Rat) (hd : 0 < dpmm) (h : y1 < y2) :
    pixelY hpx dpmm y2 < pixelY hpx dpmm y1 := by
  unfold pixelY
  have : y1 * dpmm < y2 * dpmm := by nlinarith
  linarith

/-- canvas y = 0 is the bottom edge of the last row, canvas y = H lies within half a pixel of the
top edge of row 0 -/
theorem canvas_rows (H dpmm : Rat) (h : 0 ≤ H * dpmm) :
    pixelY (imageDim H dpmm) dpmm 0 = imageDim H dpmm ∧ |pixelY (imageDim H dpmm) dpmm H| ≤ 1 / 2 := by
  have := image_size H dpmm h
  unfold pixelY
  constructor
  · ring
  · simpa using this

/-- flattening at PixelTolerance/dpmm millimetres deviates by at most PixelTolerance pixels -/
theorem flatten_pixel_tol (tol dpmm dev : Rat) (hd : 0 < dpmm) (h : dev ≤ tol / dpmm) : dev * dpmm ≤ tol := by
  have : dev * dpmm ≤ tol / dpmm * dpmm := by nlinarith
  have e : tol / dpmm * dpmm = tol := by field_simp
  linarith

/-! ## (c) slice aliasing: SetColorSpace leaves the caller's gradient unchanged -/

/-- "leaves … its gradients unchanged", full strength: whatever the colour space and the conversion,
every slice header anybody holds into the memory before the call (the receiver's `Stops` in
particular) shows the same contents afterwards -/
theorem gradients_unchanged {α} (linear : Bool) (f : α → α) (m : Mem α) (s : Slice) (t : Slice)
    (ht : t.arr < m.length) :
    view (setColorSpace linear f m s).1 t = view m t := by
  cases linear with
  | true => simp [setColorSpace]
  | false =>
    simp only [setColorSpace, Bool.false_eq_true, if_false]
    unfold view mapInPlace
    have hne : t.arr ≠ (copySlice m s).2.arr := by simp only [copySlice]; omega
    rw [mapInPlaceFrom_getD_other f _ _ hne]
    simp only [copySlice, getD_append_left _ _ _ ht]

/-- the receiver's own stops, as the special case the property names -/
theorem gradients_unchanged_receiver {α} (linear : Bool) (f : α → α) (m : Mem α) (s : Slice)
    (ha : s.arr < m.length) : view (setColorSpace linear f m s).1 s = view m s :=
  gradients_unchanged linear f m s s ha

/-- and the returned gradient carries the converted stops (non-linear colour space) … -/
theorem setColorSpace_result {α} (f : α → α) (m : Mem α) (s : Slice)
    (hl : s.off + s.len ≤ (m.getD s.arr []).length) :
    view (setColorSpace false f m s).1 (setColorSpace false f m s).2 = (view m s).map f := by
  simp only [setColorSpace, Bool.false_eq_true, if_false]
  have hlen : (view m s).length = s.len := view_length m s hl
  rw [mapInPlace_view f (copySlice m s).1 (copySlice m s).2]
  · rw [view_copySlice]
  · simp [copySlice]
  · simp only [copySlice, getD_append_new]
    omega

/-- … or is the receiver itself (linear colour space: early return) -/
theorem setColorSpace_linear {α} (f : α → α) (m : Mem α) (s : Slice) : setColorSpace true f m s = (m, s) := rfl

example : view (setColorSpace false (· + 1) [[7, 128, 64]] ⟨0, 1, 2, 2⟩).1 ⟨0, 1, 2, 2⟩ = [128, 64]
    ∧ view (setColorSpace false (· + 1) [[7, 128, 64]] ⟨0, 1, 2, 2⟩).1 (setColorSpace false (· + 1) [[7, 128, 64]] ⟨0, 1, 2, 2⟩).2 = [129, 65] := by decide

/-- the VALUE of the gradient returned by `SetColorSpace` is the pure function `scsValue` of the
receiver's value and the colour space — whatever else the memory holds -/
theorem setColorSpace_value {γ α} (linear : Bool) (f : α → α) (m : Mem α) (g : Grad γ)
    (hl : g.stops.off + g.stops.len ≤ (m.getD g.stops.arr []).length) :
    (gradSetColorSpace linear f m g).2.value (gradSetColorSpace linear f m g).1 = scsValue linear f (g.value m) := by
  cases linear with
  | true => rfl
  | false =>
    simp only [gradSetColorSpace, Grad.value, scsValue, Bool.false_eq_true, if_false]
    rw [setColorSpace_result f m g.stops hl]

/-- `SetColorSpace` is pure: equal gradient values and equal colour spaces give equal results,
independent of the call history (of the memories the two calls happen in, of earlier calls on the
same object, of which object carries the value) -/
theorem setColorSpace_pure {γ α} (linear : Bool) (f : α → α) (m₁ m₂ : Mem α) (g₁ g₂ : Grad γ)
    (h₁ : g₁.stops.off + g₁.stops.len ≤ (m₁.getD g₁.stops.arr []).length)
    (h₂ : g₂.stops.off + g₂.stops.len ≤ (m₂.getD g₂.stops.arr []).length)
    (hv : g₁.value m₁ = g₂.value m₂) :
    (gradSetColorSpace linear f m₁ g₁).2.value (gradSetColorSpace linear f m₁ g₁).1
      = (gradSetColorSpace linear f m₂ g₂).2.value (gradSetColorSpace linear f m₂ g₂).1 := by
  rw [setColorSpace_value linear f m₁ g₁ h₁, setColorSpace_value linear f m₂ g₂ h₂, hv]

/-- in particular a second call on the same object after a first one sees only the receiver's current
value: the first call leaves the receiver's value unchanged and nothing else is consulted -/
theorem setColorSpace_second_call {γ α} (l₁ l₂ : Bool) (f₁ f₂ : α → α) (m : Mem α) (g : Grad γ)
    (ha : g.stops.arr < m.length) (hl : g.stops.off + g.stops.len ≤ (m.getD g.stops.arr []).length) :
    let m' := (gradSetColorSpace l₁ f₁ m g).1
    (gradSetColorSpace l₂ f₂ m' g).2.value (gradSetColorSpace l₂ f₂ m' g).1 = scsValue l₂ f₂ (g.value m) := by
  intro m'
  have hview : view m' g.stops = view m g.stops := gradients_unchanged l₁ f₁ m g.stops g.stops ha
  have hlen : g.stops.off + g.stops.len ≤ (m'.getD g.stops.arr []).length := by
    have e : m'.getD g.stops.arr [] = m.getD g.stops.arr [] := by
      show (setColorSpace l₁ f₁ m g.stops).1.getD g.stops.arr [] = _
      cases l₁ with
      | true => rfl
      | false =>
        simp only [setColorSpace, Bool.false_eq_true, if_false, mapInPlace]
        rw [mapInPlaceFrom_getD_other f₁ _ _ (by simp only [copySlice]; omega)]
        simp only [copySlice, getD_append_left _ _ _ ha]
    rw [e]; exact hl
  rw [setColorSpace_value l₂ f₂ m' g hlen]
  simp only [Grad.value, hview]

/-- Go `append` writes in place when len < cap: a sibling header over the same array sees the write -/
theorem append_aliases :
    let m : Mem Nat := [[1, 2, 3, 4]]
    let a : Slice := ⟨0, 0, 2, 4⟩          -- a := arr[0:2]
    let b : Slice := ⟨0, 0, 3, 4⟩          -- b := arr[0:3]
    view (append m a 9).1 b = [1, 2, 9] ∧ view m b = [1, 2, 3] := by decide

/-! ## (d) draw order -/

/-- the colour of a pixel after replaying opaque draws is the paint of the LAST draw covering it,
or the initial colour if none does -/
theorem draw_order {Px Col} (ds : List (Draw Px Col)) (img : Px → Col) (p : Px) :
    replay ds img p = (lastCover ds p).getD (img p) := by
  unfold lastCover
  exact (lastCover_foldl ds p none (img p) img (by simp)).symm

theorem later_covers_earlier {Px Col} (pre post : List (Draw Px Col)) (d : Draw Px Col) (img : Px → Col) (p : Px)
    (hd : d.covers p = true) (hpost : ∀ e ∈ post, e.covers p = false) :
    replay (pre ++ d :: post) img p = d.paint := by
  rw [draw_order]
  unfold lastCover
  rw [List.foldl_append, List.foldl_cons]
  simp only [hd, if_true]
  have : ∀ (acc : Option Col), post.foldl (fun acc e => if e.covers p then some e.paint else acc) acc = acc := by
    induction post with
    | nil => intro acc; rfl
    | cons e es ih =>
      intro acc
      have he : e.covers p = false := hpost e (by simp)
      simp only [List.foldl_cons, he]
      exact ih (fun x hx => hpost x (by simp [hx])) acc
  rw [this]; rfl

theorem untouched {Px Col} (ds : List (Draw Px Col)) (img : Px → Col) (p : Px)
    (h : ∀ e ∈ ds, e.covers p = false) : replay ds img p = img p := by
  induction ds generalizing img with
  | nil => rfl
  | cons e es ih =>
    simp only [replay]
    rw [ih _ (fun x hx => h x (by simp [hx]))]
    simp [paintOne, h e (by simp)]

/-- draws numbered from k, painting their own number -/
def numbered : Nat → List IDraw → List (Draw IPt Nat)
  | _, [] => []
  | k, d :: ds => ⟨fun p => filled d.rule d.polys p, k⟩ :: numbered (k + 1) ds

/-- the `owner` the pixel specification expects is the result of replaying the draws (each
painting its 1-based index) over the untouched image 0 -/
theorem owner_replay (ds : List IDraw) (p : IPt) : owner ds p = replay (numbered 1 ds) (fun _ => 0) p := by
  unfold owner
  have : ∀ (ds : List IDraw) (k acc : Nat) (img : IPt → Nat), img p = acc →
      ownerAux p ds k acc = replay (numbered k ds) img p := by
    intro ds
    induction ds with
    | nil => intro k acc img h; simp [ownerAux, numbered, replay, h]
    | cons d ds ih =>
      intro k acc img h
      simp only [ownerAux, numbered, replay]
      apply ih
      simp only [paintOne]
      by_cases hf : filled d.rule d.polys p <;> simp [hf, h]
  exact this ds 1 0 _ rfl

/-- the bounding-box shortcuts the verdict handler uses (`ownerFast` over boxed contours) compute
exactly the specification's `owner` -/
theorem ownerFast_eq_owner (ds : List IDraw) (p : IPt) : ownerFast (ds.map mkBDraw) p = owner ds p :=
  ownerFastAux_eq p ds 1 0

/-- the "more than d from every edge" test behind the bounding boxes is the exact test of the
specification (`Wn.farFromPoly`, squared distances, no rounding) -/
theorem far_prefilter_exact (pts : List IPt) (p : IPt) (d : Int) (hd : 0 ≤ d) :
    (mkBPoly pts).far p d = farFromPoly p (d * d) pts := by
  unfold BPoly.far
  rw [mkBPoly_pts, ← farPolyFast_eq p d hd pts]
  by_cases h : (decide (p.x + d < (mkBPoly pts).xmin) || decide ((mkBPoly pts).xmax + d < p.x) || decide (p.y + d < (mkBPoly pts).ymin) || decide ((mkBPoly pts).ymax + d < p.y)) = true
  · rw [if_pos h]
    simp only [Bool.or_eq_true, decide_eq_true_eq] at h
    symm
    apply farPolyFast_of_outside p d (d * d) (mkBPoly pts).xmin (mkBPoly pts).xmax (mkBPoly pts).ymin (mkBPoly pts).ymax
    · unfold outsideBox; omega
    · exact mkBPoly_bounds pts
  · rw [if_neg h]

/-- a contour entirely above, below or to the left of a point does not wind around it -/
theorem wn1_outside_box (pts : List IPt) (p : IPt) : (mkBPoly pts).wn1 p = wn1 p pts := BPoly_wn1 pts p

/-- reversing every contour of a draw does not change its EvenOdd/NonZero ownership (from the
winding-number law `wn_reverse`): the specification does not depend on orientation conventions -/
theorem filled_reverse (r : Rule) (hr : r = .nonZero ∨ r = .evenOdd) (polys : List (List IPt)) (p : IPt) :
    filled r (polys.map List.reverse) p = filled r polys p := by
  unfold filled
  rw [wn_reverse]
  rcases hr with h | h <;> subst h <;> simp [Rule.fills]

/-! ## gradient lookup -/

theorem gen_gradArgX (d : Rat) (c : Int) : G.gradArgX d c = gradX d c := rfl
theorem gen_gradArgY (hpx : Int) (d : Rat) (r : Int) : G.gradArgY (Scalar.ofInt hpx) d r = gradY hpx d r := rfl

/-- pixel (c, r) takes its gradient colour at the canvas point whose image under the path map
(x·dpmm, H_px − y·dpmm) is the centre (c + 1/2, r + 1/2) of that pixel: gradients and paths live in
the same frame (millimetres, y up), at every resolution -/
theorem gradient_lookup_centre (hpx : Int) (dpmm : Rat) (c r : Int) (hd : dpmm ≠ 0) :
    pixelX dpmm (gradX dpmm c) = (c : Rat) + 1 / 2 ∧ pixelY hpx dpmm (gradY hpx dpmm r) = (r : Rat) + 1 / 2 := by
  unfold pixelX pixelY gradX gradY
  constructor
  · field_simp
  · field_simp
    ring

/-- and it is the canvas point shown at that pixel centre (`yflip`) -/
theorem gradient_lookup_canvas (hpx : Int) (dpmm : Rat) (c r : Int) :
    gradX dpmm c = canvasX dpmm ((c : Rat) + 1 / 2) ∧ gradY hpx dpmm r = canvasY hpx dpmm ((r : Rat) + 1 / 2) := by
  unfold gradX gradY canvasX canvasY
  constructor
  · rfl
  · ring

end C14
