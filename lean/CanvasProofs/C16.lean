import CanvasProofs.Lemmas.C16Items
import CanvasProofs.Lemmas.C16Slice
import CanvasProofs.Lemmas.C16Reorder
import CanvasProofs.Lemmas.C16Tiles
import CanvasProofs.Lemmas.C16Itemize
import CanvasProofs.Lemmas.C16Arith
/-!
# C16 — text layout places every character once, inside the box, on ordered lines

Theorems about the hand-written models in `CanvasModel/C16.lean` (tied to /repo by the line-protocol
correspondence of `Drv/C16.lean` against the real functions on every run). Shaping, bidi level
assignment and font metrics are not modelled.
-/
set_option linter.unusedSectionVars false
namespace C16
open Canvas.C16

/-! ## (a) GlyphsToItems accounts for every glyph -/

/-- full statement: for every alignment the item sizes add up to the number of glyphs -/
def sizes_cover_glyphs_statement : Prop :=
  ∀ (al : Align) (indent : Float) (gs : List G), sizes (toItems al indent gs) = gs.length

/-- proved for Left, Right and Justified, and for Centered when the text has no U+00AD / U+200B -/
theorem sizes_cover_glyphs_partial (al : Align) (indent : Float) (gs : List G)
    (h : al = .centered → ∀ g ∈ gs, g.k ≠ .shy ∧ g.k ≠ .zwsp) :
    sizes (toItems al indent gs) = gs.length :=
  toItems_sizes al indent gs h

/-- the alignments ToText uses (Left, Justified) and Right are covered without side condition -/
theorem sizes_cover_glyphs_noncentered (al : Align) (indent : Float) (gs : List G) (h : al ≠ .centered) :
    sizes (toItems al indent gs) = gs.length :=
  toItems_sizes al indent gs (fun hc => absurd hc h)

example : ∃ (al : Align) (gs : List G), (al = .centered → ∀ g ∈ gs, g.k ≠ .shy ∧ g.k ≠ .zwsp) ∧ gs ≠ [] :=
  ⟨.left, [⟨.shy, false, false, 0, 1.0, 1.0⟩], by simp, by simp⟩

def gch : G := ⟨.ch, false, false, 0, 1.0, 0.0⟩
def gshy : G := ⟨.shy, false, false, 0, 0.0, 1.0⟩

/-- defect witness: under `Centered` an optional hyphen produces no item, so a glyph is unaccounted for -/
theorem centered_loses_optional_hyphen : sizes (toItems .centered 0.0 [gch, gshy, gch]) = 2 := by
  decide

theorem sizes_cover_glyphs_statement_false : ¬ sizes_cover_glyphs_statement := by
  intro h
  have := h .centered 0.0 [gch, gshy, gch]
  rw [centered_loses_optional_hyphen] at this
  simp at this

/-! ## (b) line slicing: the glyph ranges of the lines -/

/-- whenever the slicing does not panic: one line per break, the lines are ordered and disjoint
(`start ≤ stop ≤ next start`), end before the final glyph index, and the glyph index stays in step
with the item index (`ag = Σ sizes of the items consumed`) -/
theorem slices_ordered (shy : Nat → Bool) (n : Nat) (items : List It) (ps : List Nat) (r : SliceOut)
    (h : slice shy n 0 items 0 ps = some r) :
    chain 0 r.lines ∧ (∀ l ∈ r.lines, l.stop ≤ r.ag) ∧ r.lines.length = ps.length ∧
    r.used ≤ items.length ∧ r.ag = isz (items.take r.used) := by
  have := slice_ordered ps h
  simpa using this

/-- for legal breakpoints (never at a box) every box item that was consumed lies with its whole glyph
range inside one line: only glyphs of glue and penalties at line edges are dropped -/
theorem slices_cover_boxes (shy : Nat → Bool) (n : Nat) (items : List It) (ps : List Nat) (r : SliceOut)
    (h : slice shy n 0 items 0 ps = some r)
    (hlegal : ∀ p ∈ ps, ∀ it, items[p]? = some it → it.ty ≠ .box) :
    ∀ os ∈ boxesOf 0 (items.take r.used), ∃ l ∈ r.lines, l.start ≤ os.1 ∧ os.1 + os.2 ≤ l.stop :=
  slice_covers ps h (fun p hp _ it hit => hlegal p hp it (by simpa using hit))

/-- one line: it consumes the break item, so the last line of a paragraph ending in the final forced
break consumes every item -/
theorem slice_line_consumes_break (shy : Nat → Bool) (n : Nat) (rest : List It) (k ag : Nat) (o : LineOut)
    (h : sliceLine shy n rest k ag = some o) :
    k + 1 ≤ o.used ∧ o.used ≤ rest.length ∧ o.ag' = ag + isz (rest.take o.used) :=
  let b := sliceLine_bounds h
  ⟨b.2.2.2.2.1, b.2.2.2.1, b.2.2.2.2.2⟩

/-- full statement: a soft hyphen at the break is always the last glyph shown -/
def hyphen_shown_statement : Prop :=
  ∀ (shy : Nat → Bool) (n : Nat) (rest : List It) (k ag : Nat) (o : LineOut),
    sliceLine shy n rest k ag = some o → o.line.hyph = true → o.line.stop = o.line.hpos + 1

/-- proved when no glue/penalty carrying glyphs lies between the line start and the break -/
theorem hyphen_shown_partial (shy : Nat → Bool) (n : Nat) (rest : List It) (k ag : Nat) (o : LineOut)
    (h : sliceLine shy n rest k ag = some o) (hy : o.line.hyph = true)
    (hz : ∀ it ∈ rest.take k, it.ty ≠ .box → it.size = 0) :
    o.line.stop = o.line.hpos + 1 ∧ shy o.line.hpos = true :=
  sliceLine_hyphen h hy hz

example : ∃ o, sliceLine (fun g => g == 1) 2 [⟨.box, 1⟩, ⟨.pen, 1⟩] 1 0 = some o ∧ o.line.hyph = true ∧
    o.line.stop = 2 := ⟨_, rfl, rfl, rfl⟩

/-- defect witness: `Box Glue(1 glyph) Penalty(U+00AD)` broken at the penalty shows glyphs [0,2): the
space is kept and the hyphen written at glyph 2 is cut off -/
theorem hyphen_hidden_after_sized_glue :
    (slice (fun g => g == 2) 3 0 [⟨.box, 1⟩, ⟨.glue, 1⟩, ⟨.pen, 1⟩] 0 [2]).map (·.lines)
      = some [⟨0, 2, true, 2⟩] := by
  decide

theorem hyphen_shown_statement_false : ¬ hyphen_shown_statement := by
  intro h
  have := h (fun g => g == 2) 3 [⟨.box, 1⟩, ⟨.glue, 1⟩, ⟨.pen, 1⟩] 2 0 ⟨⟨0, 2, true, 2⟩, 3, 3⟩ rfl rfl
  simp at this

/-! ## (c) reorderSpans -/

/-- for all inputs: reorderSpans keeps the spans, their logical order, levels and widths (only X changes) -/
theorem reorder_keeps_spans {α : Type} [Add α] (l : List (Span α)) :
    (reorder l).map (fun s => (s.level, s.w)) = l.map (fun s => (s.level, s.w)) :=
  reorder_lw l

/-- full statement: the moved spans always tile the interval the input spans tiled -/
def reorder_tiles_statement : Prop :=
  ∀ (x0 : Int) (l : List (Span Int)), Contig x0 l → Tiles x0 (reorder l)

/-- proved for embedding levels 0 and 1: the output is a rearrangement (`List.Perm`) of spans laid
contiguously from the same start, hence without overlap and with the same total width -/
theorem reorder_perm_partial (x0 : Int) (l : List (Span Int)) (hc : Contig x0 l)
    (hl : ∀ s ∈ l, s.level ≤ 1) : Tiles x0 (reorder l) :=
  reorder_tiles x0 l hc hl

example : Contig (0 : Int) [⟨1, 0, 3⟩, ⟨1, 3, 4⟩, ⟨0, 7, 5⟩] ∧ ∀ s ∈ [(⟨1, 0, 3⟩ : Span Int), ⟨1, 3, 4⟩, ⟨0, 7, 5⟩], s.level ≤ 1 := by
  simp [Contig]

/-- defect witness: a line starting with two level-2 spans followed by level 1: span 0 is moved onto
span 2 (both at x = 7) and nothing is left at x = 0 -/
theorem reorder_overlap_level2_start :
    (reorder [(⟨2, 0, 3⟩ : Span Int), ⟨2, 3, 4⟩, ⟨1, 7, 5⟩]).map (·.x) = [7, 3, 7] := by
  decide

/-- defect witness: levels 1 2 3 3 2 1 — the inner odd run is laid out from the wrong end -/
theorem reorder_overlap_level3 :
    (reorder [(⟨1, 0, 1⟩ : Span Int), ⟨2, 1, 1⟩, ⟨3, 2, 1⟩, ⟨3, 3, 1⟩, ⟨2, 4, 1⟩, ⟨1, 5, 1⟩]).map (·.x) = [5, 4, 4, 3, 1, 0] := by
  decide

/-- defect witness (visual order): levels 0 2 1 0 — the level-1 run that starts with a level-2 span
is never reversed (rule L2 of the bidi algorithm gives positions 0 4 1 5) -/
theorem reorder_misses_run_starting_at_level2 :
    (reorder [(⟨0, 0, 1⟩ : Span Int), ⟨2, 1, 2⟩, ⟨1, 3, 1⟩, ⟨0, 4, 1⟩]).map (·.x) = [0, 1, 3, 4] := by
  decide

theorem reorder_tiles_statement_false : ¬ reorder_tiles_statement := by
  intro h
  have ht := h 0 [⟨2, 0, 3⟩, ⟨2, 3, 4⟩, ⟨1, 7, 5⟩] (by simp [Contig])
  exact tiles_witness_false ht

/-! ## (d) ScriptItemizer -/

/-- the item texts concatenate to the input, for every rune and level sequence -/
theorem itemizer_partitions (rs : List R) : ((itemize rs).map (·.text)).flatten = rs :=
  itemize_flatten rs

theorem itemizer_no_empty_item (rs : List R) : ∀ it ∈ itemize rs, it.text ≠ [] :=
  itemize_nonempty rs

/-- indexer.index: number of leading starts ≤ loc, minus one -/
theorem indexer_spec (ix : List Int) (loc : Int) :
    indexOf ix loc = (ix.takeWhile (fun s => decide (s ≤ loc))).length - 1 :=
  indexOf_spec ix loc

/-! ## (e) horizontal alignment, (f) line stacking -/
variable {K : Type} [Field K] [LinearOrder K] [IsStrictOrderedRing K]

theorem align_left (width W indent : K) (first : Bool) :
    lineX0 HAlign.left width W indent first = ind indent first := lineX0_left ..

theorem align_justify_start (width W indent : K) (first : Bool) :
    lineX0 HAlign.justify width W indent first = ind indent first := lineX0_justify ..

theorem align_right (width W indent : K) (first : Bool) :
    lineX0 HAlign.right width W indent first + (W - ind indent first) = width := lineX0_right ..

theorem align_center (width W indent : K) (first : Bool) :
    (lineX0 HAlign.center width W indent first + (lineX0 HAlign.center width W indent first + (W - ind indent first))) / 2
      = (ind indent first + width) / 2 := lineX0_center ..

theorem align_justified_width (natural stretch width : K) (hs : stretch ≠ 0) :
    natural + (width - natural) / stretch * stretch = width := justified_width natural stretch width hs

theorem lines_monotone (y : K) (hs : List (LH K)) (h : ∀ l ∈ hs, 0 ≤ l.asc ∧ 0 ≤ l.bot) :
    (stack y hs).Pairwise (· ≤ ·) := stack_sorted hs y h

theorem lines_gap (y : K) (h1 h2 : LH K) (r : List (LH K)) :
    ∃ t, stack y (h1 :: h2 :: r) = (y + h1.asc) :: (y + h1.asc + (h1.bot + h2.asc)) :: t := stack_gap y h1 h2 r

end C16
