import CanvasProofs.Lemmas.C16Items
import CanvasProofs.Lemmas.C16Slice
import CanvasProofs.Lemmas.C16Reorder
import CanvasProofs.Lemmas.C16Tiles
import CanvasProofs.Lemmas.C16ReorderFix
import CanvasProofs.Lemmas.C16Itemize
import CanvasProofs.Lemmas.C16Arith
import CanvasProofs.Lemmas.C16Stack
import CanvasProofs.Lemmas.C16GlueSum
import CanvasProofs.Lemmas.C16Conserve
/-!
# C16 — text layout places every character once, inside the box, on ordered lines

Theorems about the hand-written models in `CanvasModel/C16.lean` (tied to /repo by the line-protocol
correspondence of `Drv/C16.lean` against the real functions on every run). Shaping, bidi level
assignment and font metrics are not modelled.
-/
set_option linter.unusedSectionVars false
namespace C16
open Canvas.C16

/-! ## (a) GlyphsToItems accounts for every glyph -/

/-- for every alignment, indent, glyph-class list and advance the item sizes add up to the number of
glyphs (CR LF counts two: the LF is added to the penalty of the CR) -/
theorem sizes_cover_glyphs (al : Align) (indent : Float) (gs : List G) :
    sizes (toItems al indent gs) = gs.length :=
  toItems_sizes al indent gs

def gch : G := ⟨.ch, false, false, 0, 1.0, 0.0⟩
def gshy : G := ⟨.shy, false, false, 0, 0.0, 1.0⟩

example : sizes (toItems .centered 0.0 [gch, gshy, gch]) = 3 := by decide

/-! ## (b) line slicing: the glyph ranges of the lines -/

/-- whenever the slicing does not panic: one line per break, the lines are ordered and disjoint
(`start ≤ stop ≤ next start`), end before the final glyph index, and the glyph index stays in step
with the item index (`ag = Σ sizes of the items consumed`) -/
theorem slices_ordered (shy : Nat → Bool) (n : Nat) (items : List It) (ps : List Nat) (r : SliceOut)
    (h : slice shy n 0 items 0 ps = some r) :
    chain 0 r.lines ∧ (∀ l ∈ r.lines, l.stop ≤ r.ag) ∧ r.lines.length = ps.length ∧
    r.used ≤ items.length ∧ r.ag = isz (items.take r.used) := by
  have := slice_ordered ps h
  simpa using this

/-- for legal breakpoints (never at a box) every box item that was consumed lies with its whole glyph
range inside one line: only glyphs of glue and penalties at line edges are dropped -/
theorem slices_cover_boxes (shy : Nat → Bool) (n : Nat) (items : List It) (ps : List Nat) (r : SliceOut)
    (h : slice shy n 0 items 0 ps = some r)
    (hlegal : ∀ p ∈ ps, ∀ it, items[p]? = some it → it.ty ≠ .box) :
    ∀ os ∈ boxesOf 0 (items.take r.used), ∃ l ∈ r.lines, l.start ≤ os.1 ∧ os.1 + os.2 ≤ l.stop :=
  slice_covers ps h (fun p hp _ it hit => hlegal p hp it (by simpa using hit))

/-- one line: it consumes the break item, so the last line of a paragraph ending in the final forced
break consumes every item -/
theorem slice_line_consumes_break (shy : Nat → Bool) (n : Nat) (rest : List It) (k ag : Nat) (o : LineOut)
    (h : sliceLine shy n rest k ag = some o) :
    k + 1 ≤ o.used ∧ o.used ≤ rest.length ∧ o.ag' = ag + isz (rest.take o.used) :=
  let b := sliceLine_bounds h
  ⟨b.2.2.2.2.1, b.2.2.2.1, b.2.2.2.2.2⟩

/-- a soft hyphen at the break is always the last glyph shown (and it is the break glyph) -/
theorem hyphen_shown (shy : Nat → Bool) (n : Nat) (rest : List It) (k ag : Nat) (o : LineOut)
    (h : sliceLine shy n rest k ag = some o) (hy : o.line.hyph = true) :
    o.line.stop = o.line.hpos + 1 ∧ shy o.line.hpos = true :=
  sliceLine_hyphen h hy

example : ∃ o, sliceLine (fun g => g == 1) 2 [⟨.box, 1⟩, ⟨.pen, 1⟩] 1 0 = some o ∧ o.line.hyph = true ∧
    o.line.stop = 2 := ⟨_, rfl, rfl, rfl⟩

/-- `Box Glue(1 glyph) Penalty(U+00AD)` broken at the penalty shows glyphs [0,3): space and hyphen -/
example : (slice (fun g => g == 2) 3 0 [⟨.box, 1⟩, ⟨.glue, 1⟩, ⟨.pen, 1⟩] 0 [2]).map (·.lines)
    = some [⟨0, 3, true, 2⟩] := by decide

/-! ## (c) reorderSpans -/

/-- for all inputs: reorderSpans keeps the spans, their logical order, levels and widths (only X changes) -/
theorem reorder_keeps_spans {α : Type} [Add α] [Sub α] [LT α] [∀ a b : α, Decidable (a < b)] (l : List (Span α)) :
    (reorder l).map (fun s => (s.level, s.w)) = l.map (fun s => (s.level, s.w)) :=
  reorder_lw l

/-- for ALL embedding levels: from spans laid out contiguously (non-negative widths) the output is a
rearrangement (`List.Perm`) of spans laid contiguously from the same start — no overlap, no hole,
same total width -/
theorem reorder_perm (x0 : Int) (l : List (Span Int)) (hc : Contig x0 l) (hw : ∀ s ∈ l, 0 ≤ s.w) :
    Tiles x0 (reorder l) :=
  Fix.fix_tiles x0 l hc hw

example : Contig (0 : Int) [⟨2, 0, 3⟩, ⟨2, 3, 4⟩, ⟨1, 7, 5⟩] ∧ ∀ s ∈ [(⟨2, 0, 3⟩ : Span Int), ⟨2, 3, 4⟩, ⟨1, 7, 5⟩], 0 ≤ s.w := by
  simp [Contig]

/-- rule L2 on the inputs the unrepaired code got wrong: levels 2 2 1 → visual order c a b;
1 2 3 3 2 1 → f b d c e a; 0 2 1 0 → a c b d -/
example : (reorder [(⟨2, 0, 3⟩ : Span Int), ⟨2, 3, 4⟩, ⟨1, 7, 5⟩]).map (·.x) = [5, 8, 0] := by decide
example : (reorder [(⟨1, 0, 1⟩ : Span Int), ⟨2, 1, 1⟩, ⟨3, 2, 1⟩, ⟨3, 3, 1⟩, ⟨2, 4, 1⟩, ⟨1, 5, 1⟩]).map (·.x) = [5, 1, 3, 2, 4, 0] := by decide
example : (reorder [(⟨0, 0, 1⟩ : Span Int), ⟨2, 1, 2⟩, ⟨1, 3, 1⟩, ⟨0, 4, 1⟩]).map (·.x) = [0, 2, 1, 4] := by decide

/-! ## (d) ScriptItemizer -/

/-- the item texts concatenate to the input, for every rune and level sequence -/
theorem itemizer_partitions (rs : List R) : ((itemize rs).map (·.text)).flatten = rs :=
  itemize_flatten rs

theorem itemizer_no_empty_item (rs : List R) : ∀ it ∈ itemize rs, it.text ≠ [] :=
  itemize_nonempty rs

/-- indexer.index: number of leading starts ≤ loc, minus one -/
theorem indexer_spec (ix : List Int) (loc : Int) :
    indexOf ix loc = (ix.takeWhile (fun s => decide (s ≤ loc))).length - 1 :=
  indexOf_spec ix loc

/-! ## (e) horizontal placement: `alignLine` (tied to ToText by the `AL` lines) -/
variable {K : Type} [Field K] [LinearOrder K] [IsStrictOrderedRing K]

/-- left-aligned and justified lines: the spans follow each other from the indent (first line) / from 0 -/
theorem align_left (width indent : K) (first : Bool) (ws : List K) :
    Follows (ind indent first) (alignLine HAlign.left width indent first ws) ws (ind indent first + ws.sum) :=
  alignLine_left ..

theorem align_justify_start (width indent : K) (first : Bool) (ws : List K) :
    Follows (ind indent first) (alignLine HAlign.justify width indent first ws) ws (ind indent first + ws.sum) :=
  alignLine_justify ..

/-- right-aligned lines: the spans follow each other and end at the box width, for every list of widths -/
theorem align_right (width indent : K) (first : Bool) (ws : List K) :
    Follows (width - ws.sum) (alignLine HAlign.right width indent first ws) ws width :=
  alignLine_right ..

/-- centred lines are centred between the indent (first line) and the width -/
theorem align_center (width indent : K) (first : Bool) (ws : List K) :
    ∃ a b, Follows a (alignLine HAlign.center width indent first ws) ws b ∧ b - a = ws.sum ∧
      (a + b) / 2 = (ind indent first + width) / 2 :=
  alignLine_center ..

/-! ### glue adjustment: `adjustLine` (tied by the `GA` lines; exact arithmetic, rounding to font units outside) -/

/-- a stretched line is its natural width plus ratio · (sum of the glue stretch), whatever the items are,
provided the glyphs of every glue item add up to its positive width and those of penalties to 0 -/
theorem glue_stretch_sum (ratio : K) (hr : 0 < ratio) (items : List (GItem K)) (gs : List K) (hf : Fits items gs) :
    (adjustLine noInf idealInc (fun r => decide (r = 0)) ratio items gs).sum
      = (gs.take (totSize items)).sum + ratio * glueY items :=
  adjustLine_sum_stretch ratio hr items gs hf

theorem glue_shrink_sum (ratio : K) (hr : ratio < 0) (items : List (GItem K)) (gs : List K) (hf : Fits items gs) :
    (adjustLine noInf idealInc (fun r => decide (r = 0)) ratio items gs).sum
      = (gs.take (totSize items)).sum + ratio * glueZ items :=
  adjustLine_sum_shrink ratio hr items gs hf

/-- sum of the span widths + distributed glue = box width -/
theorem justified_line_ends_at_width (width : K) (items : List (GItem K)) (gs : List K) (hf : Fits items gs)
    (hy : 0 < glueY items) (hshort : (gs.take (totSize items)).sum < width) :
    (adjustLine noInf idealInc (fun r => decide (r = 0)) ((width - (gs.take (totSize items)).sum) / glueY items) items gs).sum = width :=
  justified_line_width width items gs hf hy hshort

example : Fits (K := Rat) [⟨.box, 2, 7, 0, 0⟩, ⟨.glue, 1, 3, 2, 1⟩, ⟨.pen, 1, 0, 0, 0⟩, ⟨.box, 1, 5, 0, 0⟩] [4, 3, 3, 0, 5] ∧
    0 < glueY (K := Rat) [⟨.box, 2, 7, 0, 0⟩, ⟨.glue, 1, 3, 2, 1⟩, ⟨.pen, 1, 0, 0, 0⟩, ⟨.box, 1, 5, 0, 0⟩] := by
  simp [Fits, glueY]

theorem align_justified_width (natural stretch width : K) (hs : stretch ≠ 0) :
    natural + (width - natural) / stretch * stretch = width := justified_width natural stretch width hs

/-! ## (f) line stacking: `stackFit` / `stackLines` (tied by the `ST` lines), Text.Bounds (`BD` lines) -/

/-- lines are stacked monotonically, for every list of lines, box height and start -/
theorem lines_monotone (ls height : K) (h0 : 0 ≤ ls) (lines : List (LM K)) (hn : ∀ l ∈ lines, 0 ≤ l.asc ∧ 0 ≤ l.bot)
    (first : Bool) (y : K) : (stackFit ls height first y lines).1.Pairwise (· ≤ ·) :=
  fit_sorted ls height h0 lines hn first y

/-- consecutive baselines are exactly bottom·spacing of the upper + ascent·spacing of the lower line apart -/
theorem lines_gap (ls height : K) (lines : List (LM K)) (first : Bool) (y : K) :
    Gapped ls (stackFit ls height first y lines).1 lines :=
  fit_gapped ls height lines first y

/-- with a spacing ≥ 1 no two lines overlap vertically (first line against every later one; apply to suffixes) -/
theorem lines_disjoint (ls : K) (h1 : 1 ≤ ls) (ys : List K) (lines : List (LM K))
    (hn : ∀ l ∈ lines, 0 ≤ l.asc ∧ 0 ≤ l.desc ∧ l.desc ≤ l.bot) (hlen : ys.length ≤ lines.length) (hg : Gapped ls ys lines)
    (y1 : K) (l1 : LM K) (hh : (ys.zip lines).head? = some (y1, l1)) :
    ∀ p ∈ (ys.zip lines).tail, y1 ≤ p.1 - p.2.asc ∧ y1 + l1.desc ≤ p.1 :=
  gapped_disjoint h1 ys lines hn hlen hg y1 l1 hh

/-- the lines kept are a prefix of the lines asked for; all of them without a box height -/
theorem lines_kept_prefix (ls height : K) (lines : List (LM K)) (first : Bool) (y : K) :
    (stackFit ls height first y lines).1.length ≤ lines.length := fit_length ls height lines first y

theorem lines_all_kept_unbounded (ls : K) (lines : List (LM K)) (first : Bool) (y : K) :
    (stackFit ls 0 first y lines).1.length = lines.length := fit_unbounded ls lines first y

/-- every line kept lies inside the box height -/
theorem lines_inside_box (ls height : K) (hh : height ≠ 0) (lines : List (LM K)) (first : Bool) (y : K) (j : Nat) (v : K) (l : LM K)
    (hv : (stackFit ls height first y lines).1[j]? = some v) (hl : lines[j]? = some l) : v + l.desc ≤ height :=
  fit_in_box ls height hh lines first y j v l hv hl

/-- vertical alignment Bottom: the last line's descent touches the bottom of the box -/
theorem valign_bottom_touches (cast : Nat → K) (ls height : K) (lines : List (LM K)) (v : K) (l : LM K)
    (hv : (stackFit ls height true 0 lines).1.getLast? = some v)
    (hl : (lines.take (stackFit ls height true 0 lines).1.length).getLast? = some l) (he : l.empty = false) :
    ∃ w, (stackLines cast ls height .bottom lines).ys.getLast? = some w ∧ w + l.desc = height :=
  valign_bottom cast ls height lines v l hv hl he

/-- vertical alignment Center: equal margins above the first and below the last line -/
theorem valign_center_margins (cast : Nat → K) (ls height : K) (lines : List (LM K)) (v : K) (l l0 : LM K)
    (hv : (stackFit ls height true 0 lines).1.getLast? = some v)
    (hl : (lines.take (stackFit ls height true 0 lines).1.length).getLast? = some l) (he : l.empty = false)
    (h0 : lines.head? = some l0) :
    ∃ f w, (stackLines cast ls height .center lines).ys.head? = some f ∧
      (stackLines cast ls height .center lines).ys.getLast? = some w ∧ f - l0.asc = height - (w + l.desc) :=
  valign_center cast ls height lines v l l0 hv hl he h0

/-- vertical alignment Justify: first line stays, last line touches the bottom (two lines or more) -/
theorem valign_justify_fills (ls height : K) (lines : List (LM K)) (v : K) (l : LM K)
    (hv : (stackFit ls height true 0 lines).1.getLast? = some v)
    (hl : (lines.take (stackFit ls height true 0 lines).1.length).getLast? = some l) (he : l.empty = false)
    (h2 : 2 ≤ (stackFit ls height true 0 lines).1.length) :
    (stackLines (fun n => (n : K)) ls height .justify lines).ys.head? = (stackFit ls height true 0 lines).1.head? ∧
    ∃ w, (stackLines (fun n => (n : K)) ls height .justify lines).ys.getLast? = some w ∧ w + l.desc = height :=
  valign_justify ls height lines v l hv hl he h2

example : (stackFit (α := Int) 1 0 true 0 [⟨3, 1, 2, false⟩, ⟨3, 1, 2, false⟩]).1 = [3, 8] := by decide

/-- the hypotheses of the vertical alignment theorems hold for two ordinary lines in a box of height 20 -/
example : (stackFit (α := ℚ) 1 20 true 0 [⟨3, 1, 2, false⟩, ⟨3, 1, 2, false⟩]).1.getLast? = some 8 ∧
    ([(⟨3, 1, 2, false⟩ : LM ℚ), ⟨3, 1, 2, false⟩].take (stackFit (α := ℚ) 1 20 true 0 [⟨3, 1, 2, false⟩, ⟨3, 1, 2, false⟩]).1.length).getLast?.map (·.empty) = some false ∧
    2 ≤ (stackFit (α := ℚ) 1 20 true 0 [⟨3, 1, 2, false⟩, ⟨3, 1, 2, false⟩]).1.length := by
  norm_num [stackFit]

/-- Text.Bounds contains the rectangle of every span -/
theorem bounds_enclose_spans (rs : List (R4 K)) : ∀ r ∈ rs,
    (boundsOf min max rs).x0 ≤ r.x0 ∧ (boundsOf min max rs).y0 ≤ r.y0 ∧ r.x1 ≤ (boundsOf min max rs).x1 ∧ r.y1 ≤ (boundsOf min max rs).y1 :=
  bounds_encloses rs

/-! ## character conservation: soundness of the verdict `conserve` the check applies to every laid-out text -/

/-- verdict ok ⇒ every rune that is not white space, a line separator or an optional break lies in
exactly one span -/
theorem conserve_ok_exactly_once (cls : List RC) (lines : List (List (Nat × Nat))) (h : conserve cls lines = .ok) :
    ∀ i c, cls[i]? = some c → c.droppable = false → cover lines.flatten i = 1 :=
  conserve_sound cls lines h

/-- verdict ok ⇒ no rune at all lies in two spans -/
theorem conserve_ok_at_most_once (cls : List RC) (lines : List (List (Nat × Nat))) (h : conserve cls lines = .ok) :
    ∀ i, cover lines.flatten i ≤ 1 :=
  conserve_atmost cls lines h

example : conserve [.ch, .ch, .sp, .ch, .lf, .ch] [[(0, 2)], [(3, 4)], [(5, 6)]] = .ok := by decide
example : conserve [.ch, .ch, .sp, .ch] [[(0, 2)], [(1, 4)]] ≠ .ok := by decide
example : conserve [.ch, .ch, .sp, .ch] [[(0, 1)], [(3, 4)]] ≠ .ok := by decide

end C16
