import CanvasProofs.Lemmas.C16Items
import CanvasProofs.Lemmas.C16Slice
import CanvasProofs.Lemmas.C16Reorder
import CanvasProofs.Lemmas.C16Tiles
import CanvasProofs.Lemmas.C16ReorderFix
import CanvasProofs.Lemmas.C16Itemize
import CanvasProofs.Lemmas.C16Arith
/-!
# C16 — text layout places every character once, inside the box, on ordered lines

Theorems about the hand-written models in `CanvasModel/C16.lean` (tied to /repo by the line-protocol
correspondence of `Drv/C16.lean` against the real functions on every run). Shaping, bidi level
assignment and font metrics are not modelled.
-/
set_option linter.unusedSectionVars false
namespace C16
open Canvas.C16

/-! ## (a) GlyphsToItems accounts for every glyph -/

/-- for every alignment, indent, glyph-class list and advance the item sizes add up to the number of
glyphs (CR LF counts two: the LF is added to the penalty of the CR) -/
theorem sizes_cover_glyphs (al : Align) (indent : Float) (gs : List G) :
    sizes (toItems al indent gs) = gs.length :=
  toItems_sizes al indent gs

def gch : G := ⟨.ch, false, false, 0, 1.0, 0.0⟩
def gshy : G := ⟨.shy, false, false, 0, 0.0, 1.0⟩

example : sizes (toItems .centered 0.0 [gch, gshy, gch]) = 3 := by decide

/-! ## (b) line slicing: the glyph ranges of the lines -/

/-- whenever the slicing does not panic: one line per break, the lines are ordered and disjoint
(`start ≤ stop ≤ next start`), end before the final glyph index, and the glyph index stays in step
with the item index (`ag = Σ sizes of the items consumed`) -/
theorem slices_ordered (shy : Nat → Bool) (n : Nat) (items : List It) (ps : List Nat) (r : SliceOut)
    (h : slice shy n 0 items 0 ps = some r) :
    chain 0 r.lines ∧ (∀ l ∈ r.lines, l.stop ≤ r.ag) ∧ r.lines.length = ps.length ∧
    r.used ≤ items.length ∧ r.ag = isz (items.take r.used) := by
  have := slice_ordered ps h
  simpa using this

/-- for legal breakpoints (never at a box) every box item that was consumed lies with its whole glyph
range inside one line: only glyphs of glue and penalties at line edges are dropped -/
theorem slices_cover_boxes (shy : Nat → Bool) (n : Nat) (items : List It) (ps : List Nat) (r : SliceOut)
    (h : slice shy n 0 items 0 ps = some r)
    (hlegal : ∀ p ∈ ps, ∀ it, items[p]? = some it → it.ty ≠ .box) :
    ∀ os ∈ boxesOf 0 (items.take r.used), ∃ l ∈ r.lines, l.start ≤ os.1 ∧ os.1 + os.2 ≤ l.stop :=
  slice_covers ps h (fun p hp _ it hit => hlegal p hp it (by simpa using hit))

/-- one line: it consumes the break item, so the last line of a paragraph ending in the final forced
break consumes every item -/
theorem slice_line_consumes_break (shy : Nat → Bool) (n : Nat) (rest : List It) (k ag : Nat) (o : LineOut)
    (h : sliceLine shy n rest k ag = some o) :
    k + 1 ≤ o.used ∧ o.used ≤ rest.length ∧ o.ag' = ag + isz (rest.take o.used) :=
  let b := sliceLine_bounds h
  ⟨b.2.2.2.2.1, b.2.2.2.1, b.2.2.2.2.2⟩

/-- a soft hyphen at the break is always the last glyph shown (and it is the break glyph) -/
theorem hyphen_shown (shy : Nat → Bool) (n : Nat) (rest : List It) (k ag : Nat) (o : LineOut)
    (h : sliceLine shy n rest k ag = some o) (hy : o.line.hyph = true) :
    o.line.stop = o.line.hpos + 1 ∧ shy o.line.hpos = true :=
  sliceLine_hyphen h hy

example : ∃ o, sliceLine (fun g => g == 1) 2 [⟨.box, 1⟩, ⟨.pen, 1⟩] 1 0 = some o ∧ o.line.hyph = true ∧
    o.line.stop = 2 := ⟨_, rfl, rfl, rfl⟩

/-- `Box Glue(1 glyph) Penalty(U+00AD)` broken at the penalty shows glyphs [0,3): space and hyphen -/
example : (slice (fun g => g == 2) 3 0 [⟨.box, 1⟩, ⟨.glue, 1⟩, ⟨.pen, 1⟩] 0 [2]).map (·.lines)
    = some [⟨0, 3, true, 2⟩] := by decide

/-! ## (c) reorderSpans -/

/-- for all inputs: reorderSpans keeps the spans, their logical order, levels and widths (only X changes) -/
theorem reorder_keeps_spans {α : Type} [Add α] [Sub α] [LT α] [∀ a b : α, Decidable (a < b)] (l : List (Span α)) :
    (reorder l).map (fun s => (s.level, s.w)) = l.map (fun s => (s.level, s.w)) :=
  reorder_lw l

/-- for ALL embedding levels: from spans laid out contiguously (non-negative widths) the output is a
rearrangement (`List.Perm`) of spans laid contiguously from the same start — no overlap, no hole,
same total width -/
theorem reorder_perm (x0 : Int) (l : List (Span Int)) (hc : Contig x0 l) (hw : ∀ s ∈ l, 0 ≤ s.w) :
    Tiles x0 (reorder l) :=
  Fix.fix_tiles x0 l hc hw

example : Contig (0 : Int) [⟨2, 0, 3⟩, ⟨2, 3, 4⟩, ⟨1, 7, 5⟩] ∧ ∀ s ∈ [(⟨2, 0, 3⟩ : Span Int), ⟨2, 3, 4⟩, ⟨1, 7, 5⟩], 0 ≤ s.w := by
  simp [Contig]

/-- rule L2 on the inputs the unrepaired code got wrong: levels 2 2 1 → visual order c a b;
1 2 3 3 2 1 → f b d c e a; 0 2 1 0 → a c b d -/
example : (reorder [(⟨2, 0, 3⟩ : Span Int), ⟨2, 3, 4⟩, ⟨1, 7, 5⟩]).map (·.x) = [5, 8, 0] := by decide
example : (reorder [(⟨1, 0, 1⟩ : Span Int), ⟨2, 1, 1⟩, ⟨3, 2, 1⟩, ⟨3, 3, 1⟩, ⟨2, 4, 1⟩, ⟨1, 5, 1⟩]).map (·.x) = [5, 1, 3, 2, 4, 0] := by decide
example : (reorder [(⟨0, 0, 1⟩ : Span Int), ⟨2, 1, 2⟩, ⟨1, 3, 1⟩, ⟨0, 4, 1⟩]).map (·.x) = [0, 2, 1, 4] := by decide

/-! ## (d) ScriptItemizer -/

/-- the item texts concatenate to the input, for every rune and level sequence -/
theorem itemizer_partitions (rs : List R) : ((itemize rs).map (·.text)).flatten = rs :=
  itemize_flatten rs

theorem itemizer_no_empty_item (rs : List R) : ∀ it ∈ itemize rs, it.text ≠ [] :=
  itemize_nonempty rs

/-- indexer.index: number of leading starts ≤ loc, minus one -/
theorem indexer_spec (ix : List Int) (loc : Int) :
    indexOf ix loc = (ix.takeWhile (fun s => decide (s ≤ loc))).length - 1 :=
  indexOf_spec ix loc

/-! ## (e) horizontal alignment, (f) line stacking -/
variable {K : Type} [Field K] [LinearOrder K] [IsStrictOrderedRing K]

theorem align_left (width tw indent : K) (first : Bool) :
    lineX0 HAlign.left width tw indent first = ind indent first := lineX0_left ..

theorem align_justify_start (width tw indent : K) (first : Bool) :
    lineX0 HAlign.justify width tw indent first = ind indent first := lineX0_justify ..

/-- right-aligned lines end at the width, for every shown width -/
theorem align_right (width tw indent : K) (first : Bool) :
    lineX0 HAlign.right width tw indent first + tw = width := lineX0_right ..

/-- centred lines are centred between the indent (first line) and the width -/
theorem align_center (width tw indent : K) (first : Bool) :
    (lineX0 HAlign.center width tw indent first + (lineX0 HAlign.center width tw indent first + tw)) / 2
      = (ind indent first + width) / 2 := lineX0_center ..

theorem align_justified_width (natural stretch width : K) (hs : stretch ≠ 0) :
    natural + (width - natural) / stretch * stretch = width := justified_width natural stretch width hs

theorem lines_monotone (y : K) (hs : List (LH K)) (h : ∀ l ∈ hs, 0 ≤ l.asc ∧ 0 ≤ l.bot) :
    (stack y hs).Pairwise (· ≤ ·) := stack_sorted hs y h

theorem lines_gap (y : K) (h1 h2 : LH K) (r : List (LH K)) :
    ∃ t, stack y (h1 :: h2 :: r) = (y + h1.asc) :: (y + h1.asc + (h1.bot + h2.asc)) :: t := stack_gap y h1 h2 r

end C16
