import CanvasProofs.Lemmas.C04
import CanvasProofs.Lemmas.C04Proto
import CanvasProofs.Lemmas.C04Spec
/-! # C04 — Stroke / Offset: offset normals, cappers, joiners, miter limit, call protocol of `offset()`

Kernels and skeleton are the hand-written `Canvas.C04` definitions (tied to /repo/path_stroke.go by
correspondence with the real cappers/joiners and with `offset()` run under recording
`Capper`/`Joiner`s); `offsetNormal` is proved equal to the *generated* `Point.Norm ∘ Rot90CW ∘ Sub`.
Scalars: an arbitrary ordered field; `hypot`/`sqrt` enter only through `HypotSpec` / `SqrtSpec`. -/
set_option linter.unusedSectionVars false
set_option linter.unusedVariables false
namespace C04
open Canvas Canvas.C04 C04L
variable {K : Type} [Field K] [LinearOrder K] [IsStrictOrderedRing K] [Env K]

def endOf : Cmd K → Pt K
  | .L p => p
  | .A _ _ p => p

/-! ## offset of a line segment -/

/-- the model's normal is the generated translation of `end.Sub(start).Rot90CW().Norm(halfWidth)` -/
theorem normal_is_generated (a b : Pt K) (hw : K) :
    offsetNormal a b hw = GenK.Point.Norm (GenK.Point.Rot90CW (GenK.Point.Sub b a)) hw :=
  offsetNormal_eq_generated a b hw

/-- The offset of a segment by `n = Rot90CW(dir)·hw/|dir|` is the segment translated by `n`, with
`|n|² = hw²` and `n ⟂ dir`: parallel, at distance exactly `hw`, pointwise. -/
theorem line_offset_exact (hH : HypotSpec K) (a b : Pt K) (hw : K) (hab : a.x ≠ b.x ∨ a.y ≠ b.y) :
    dot (offsetNormal a b hw) (offsetNormal a b hw) = hw * hw ∧
    dot (offsetNormal a b hw) (psub b a) = 0 ∧
    (∀ t : K, psub (lerp (padd a (offsetNormal a b hw)) (padd b (offsetNormal a b hw)) t) (lerp a b t)
        = offsetNormal a b hw) ∧
    (∀ t : K, dist2 (lerp (padd a (offsetNormal a b hw)) (padd b (offsetNormal a b hw)) t) (lerp a b t)
        = hw * hw) := by
  have hsq := offsetNormal_sq hH a b hw hab
  refine ⟨hsq, offsetNormal_perp hH a b hw hab, ?_, ?_⟩
  · intro t
    generalize offsetNormal a b hw = n
    cases n
    simp only [lerp, padd, psub]
    congr 1 <;> ring
  · intro t
    generalize offsetNormal a b hw = n at hsq ⊢
    cases n
    simp only [lerp, padd, dist2, dot] at hsq ⊢
    linear_combination hsq

/-- positive half width puts `rhs` on the right-hand side of the direction of travel — the outer
side of a counter-clockwise contour (`Offset` takes `rhs` for `w > 0`). -/
theorem offset_side (hH : HypotSpec K) (a b : Pt K) (hw : K) (hab : a.x ≠ b.x ∨ a.y ≠ b.y) (hpos : 0 < hw) :
    (b.x - a.x) * (offsetNormal a b hw).y - (b.y - a.y) * (offsetNormal a b hw).x < 0 := by
  rw [offsetNormal_right hH a b hw hab]
  have : 0 < (Env.hypot (b.y - a.y) (-(b.x - a.x)) : K) := by
    apply hypot_pos hH
    rcases hab with h | h
    · right; intro h0; apply h; linarith
    · left; intro h0; apply h; linarith
  have := mul_pos hpos this
  linarith

/-! ## cappers -/

/-- every capper ends at `pivot − n0` (where the other side of the stroke continues) -/
theorem caps_connect (hw : K) (pivot n0 : Pt K) :
    (buttCap pivot n0).getLast?.map endOf = some (psub pivot n0) ∧
    (roundCap hw pivot n0).getLast?.map endOf = some (psub pivot n0) ∧
    (squareCap pivot n0).getLast?.map endOf = some (psub pivot n0) := by
  simp [buttCap, roundCap, squareCap, endOf]

/-- Square cap: the two corners are the cut corners `pivot ± n0` moved by `e = Rot90CCW(n0)`, which is
perpendicular to the cut and as long as `n0` (= hw): they lie exactly `hw` beyond the end. -/
theorem square_cap_corners (pivot n0 : Pt K) :
    ∃ c1 c2, squareCap pivot n0 = [.L c1, .L c2, .L (psub pivot n0)] ∧
      psub c1 (padd pivot n0) = rotCCW n0 ∧ psub c2 (psub pivot n0) = rotCCW n0 ∧
      dot (rotCCW n0) n0 = 0 ∧ dot (rotCCW n0) (rotCCW n0) = dot n0 n0 := by
  refine ⟨_, _, rfl, ?_, ?_, ?_, ?_⟩
  · cases pivot; cases n0; simp only [padd, psub, rotCCW]; congr 1 <;> ring
  · cases pivot; cases n0; simp only [padd, psub, rotCCW]; congr 1 <;> ring
  · simp only [dot, rotCCW]; ring
  · simp only [dot, rotCCW]; ring

/-- with the normal of a segment, the square cap extends along the direction of travel by `hw` -/
theorem square_cap_extends_forward (hH : HypotSpec K) (a b : Pt K) (hw : K) (hab : a.x ≠ b.x ∨ a.y ≠ b.y) :
    rotCCW (offsetNormal a b hw) = smul (hw / Env.hypot (b.y - a.y) (-(b.x - a.x))) (psub b a) :=
  rotCCW_offsetNormal hH a b hw hab

/-- Butt cap: the single line from `pivot + n0` to `pivot − n0` stays on the cut — no point of it has
any extent along the direction of travel. -/
theorem butt_cap_adds_nothing_beyond (pivot n0 : Pt K) (t : K) :
    buttCap pivot n0 = [.L (psub pivot n0)] ∧
    dot (psub (lerp (padd pivot n0) (psub pivot n0) t) pivot) (rotCCW n0) = 0 := by
  refine ⟨rfl, ?_⟩
  simp only [dot, psub, padd, lerp, rotCCW]; ring

/-- Round cap: an arc of radius `hw` whose end points are both at distance `|n0|` from the pivot -/
theorem round_cap_radius (hw : K) (pivot n0 : Pt K) :
    roundCap hw pivot n0 = [.A hw true (psub pivot n0)] ∧
    dist2 (padd pivot n0) pivot = dot n0 n0 ∧ dist2 (psub pivot n0) pivot = dot n0 n0 := by
  refine ⟨rfl, ?_, ?_⟩ <;> simp only [dist2, dot, padd, psub] <;> ring

/-! ## joiners -/

/-- every joiner leaves `rhs` at `pivot + n1` and `lhs` at `pivot − n1` -/
theorem joins_connect (gap : Bool) (limit hw : K) (pivot n0 n1 rpos lpos : Pt K) :
    ((bevelJoin pivot n1).1.getLast?.map endOf = some (padd pivot n1) ∧
     (bevelJoin pivot n1).2.getLast?.map endOf = some (psub pivot n1)) ∧
    ((roundJoin hw pivot n0 n1).1.getLast?.map endOf = some (padd pivot n1) ∧
     (roundJoin hw pivot n0 n1).2.getLast?.map endOf = some (psub pivot n1)) ∧
    ((miterJoin gap limit hw pivot n0 n1 rpos lpos).1.getLast?.map endOf = some (padd pivot n1) ∧
     (miterJoin gap limit hw pivot n0 n1 rpos lpos).2.getLast?.map endOf = some (psub pivot n1)) := by
  refine ⟨by simp [bevelJoin, endOf], ?_, ?_⟩
  · unfold roundJoin
    split <;> simp [endOf]
  · unfold miterJoin bevelJoin
    split
    · simp [endOf]
    · simp only []
      split
      · simp [endOf]
      · split <;> split <;> simp [endOf]

/-- Round join: the arc (radius `hw`) is put on the outer side of the bend, the inner side gets a line -/
theorem round_join_side (hw : K) (pivot n0 n1 : Pt K) :
    (cwTurn n0 n1 = true → roundJoin hw pivot n0 n1 = ([.L (padd pivot n1)], [.A hw false (psub pivot n1)])) ∧
    (cwTurn n0 n1 = false → roundJoin hw pivot n0 n1 = ([.A hw true (padd pivot n1)], [.L (psub pivot n1)])) := by
  constructor <;> intro h <;> simp [roundJoin, h]

/-- The miter tip is the intersection of the two outer offset lines: it lies on the line through
`pivot ± n0` perpendicular to `n0` and on the line through `pivot ± n1` perpendicular to `n1`
(`+` for a left bend, `−` for a right bend). -/
theorem miter_is_line_intersection (hw : K) (pivot n0 n1 : Pt K)
    (h0 : dot n0 n0 = hw * hw) (h1 : dot n1 n1 = hw * hw) (hden : miterDen hw n0 n1 ≠ 0) :
    (cwTurn n0 n1 = false →
      dot (psub (miterTip hw pivot n0 n1) (padd pivot n0)) n0 = 0 ∧
      dot (psub (miterTip hw pivot n0 n1) (padd pivot n1)) n1 = 0) ∧
    (cwTurn n0 n1 = true →
      dot (psub (miterTip hw pivot n0 n1) (psub pivot n0)) n0 = 0 ∧
      dot (psub (miterTip hw pivot n0 n1) (psub pivot n1)) n1 = 0) :=
  ⟨miter_tip_on_lines_left hw pivot n0 n1 h0 h1 hden, miter_tip_on_lines_right hw pivot n0 n1 h0 h1 hden⟩

/-- The clip decision is exactly "the tip is farther than `limit·hw` from the vertex". -/
theorem miter_limit_decision (lim hw : K) (pivot n0 n1 : Pt K) (hhw : 0 < hw)
    (h0 : dot n0 n0 = hw * hw) (h1 : dot n1 n1 = hw * hw) (hden : 0 < miterDen hw n0 n1) :
    (miterClipped lim hw n0 n1 = true ↔ (lim * hw) ^ 2 < dist2 (miterTip hw pivot n0 n1) pivot) := by
  rw [miter_tip_dist2 hw pivot n0 n1 h0 h1 (ne_of_gt hden), lt_div_iff₀ hden]
  simp only [miterClipped, decide_eq_true_eq]
  have hw2 : 0 < hw * hw := mul_pos hhw hhw
  constructor
  · intro h
    have := mul_lt_mul_of_pos_right h hw2
    nlinarith [this]
  · intro h
    by_contra hc
    push Not at hc
    have := mul_le_mul_of_nonneg_right hc (le_of_lt hw2)
    nlinarith [this]

/-- not clipped ⇒ the tip is at most `limit·hw` from the vertex -/
theorem miter_tip_within_limit (lim hw : K) (pivot n0 n1 : Pt K) (hhw : 0 < hw)
    (h0 : dot n0 n0 = hw * hw) (h1 : dot n1 n1 = hw * hw) (hden : 0 < miterDen hw n0 n1)
    (hnc : miterClipped lim hw n0 n1 = false) :
    dist2 (miterTip hw pivot n0 n1) pivot ≤ (lim * hw) ^ 2 := by
  by_contra hc
  push Not at hc
  have := (miter_limit_decision lim hw pivot n0 n1 hhw h0 h1 hden).mpr hc
  rw [hnc] at this
  exact Bool.false_ne_true this

/-- the limit in force is never below 1.001 -/
theorem effLimit_ge (limit : K) : (1001 / 1000 : K) ≤ effLimit limit := by
  unfold effLimit
  split
  · exact le_refl _
  · next h => exact not_lt.mp h

/-! ### miter-clip: the cut perpendicular to the bisector at `limit·hw` from the vertex

`path_stroke.go` MiterJoiner.Join, clip branch: `mid0 := rhs.Pos().Interpolate(mid, t)` and
`mid1 := rEnd.Interpolate(mid, t)` with `t = (limit·hw·|d| − hw²)/(d² − hw²)`. Along the bisector the
offset corners are at `hw²/|d|` and the tip at `|d|`, so both cut corners are at exactly `limit·hw`
(the SVG 2 `miter-clip` shape). Components along the bisector are written as dot products with
`tip − pivot`, whose length is `|d| = miterAbsD`. -/

/-- both end normals have the component `hw²/|d|` along the bisector: `n·(tip − pivot) = hw²` (left bend) -/
theorem miter_normal_dot_tip (hw : K) (pivot n0 n1 : Pt K)
    (h0 : dot n0 n0 = hw * hw) (h1 : dot n1 n1 = hw * hw) (hden : miterDen hw n0 n1 ≠ 0)
    (hcw : cwTurn n0 n1 = false) :
    dot n0 (psub (miterTip hw pivot n0 n1) pivot) = hw * hw ∧
    dot n1 (psub (miterTip hw pivot n0 n1) pivot) = hw * hw := by
  have hs : hw * hw / miterDen hw n0 n1 * miterDen hw n0 n1 = hw * hw := div_mul_cancel₀ _ hden
  have hD : miterDen hw n0 n1 = hw * hw + (n0.x * n1.x + n0.y * n1.y) := rfl
  simp only [miterTip, hcw, Bool.false_eq_true, if_false]
  generalize hw * hw / miterDen hw n0 n1 = s at *
  generalize miterDen hw n0 n1 = D at *
  simp only [dot, psub, padd, smul] at *
  constructor
  · linear_combination s * h0 + hs - s * hD
  · linear_combination s * h1 + hs - s * hD

/-- `|tip − pivot|² = dist2 tip pivot` as a dot product -/
theorem tip_dot_self (hw : K) (pivot n0 n1 : Pt K) :
    dot (psub (miterTip hw pivot n0 n1) pivot) (psub (miterTip hw pivot n0 n1) pivot)
      = dist2 (miterTip hw pivot n0 n1) pivot := by
  simp only [dot, psub, dist2]; ring

/-- component along the bisector (times `|d|`) of the point at fraction `t` of a miter edge -/
theorem miter_edge_point_bisector (t : K) (pivot n q : Pt K) :
    dot (psub (lerp (padd pivot n) q t) pivot) (psub q pivot)
      = (1 - t) * dot n (psub q pivot) + t * dot (psub q pivot) (psub q pivot) := by
  simp only [dot, psub, padd, lerp]; ring

/-- squared distance from the vertex of a point at fraction `t` of the edge corner → tip (left bend) -/
theorem miter_edge_point_dist2 (hw t : K) (pivot n0 n1 : Pt K)
    (h0 : dot n0 n0 = hw * hw) (h1 : dot n1 n1 = hw * hw) (hden : miterDen hw n0 n1 ≠ 0)
    (hcw : cwTurn n0 n1 = false) :
    dist2 (lerp (padd pivot n0) (miterTip hw pivot n0 n1) t) pivot
      = hw * hw * (1 - t ^ 2) + t ^ 2 * dist2 (miterTip hw pivot n0 n1) pivot := by
  have hs : hw * hw / miterDen hw n0 n1 * miterDen hw n0 n1 = hw * hw := div_mul_cancel₀ _ hden
  have hD : miterDen hw n0 n1 = hw * hw + (n0.x * n1.x + n0.y * n1.y) := rfl
  simp only [miterTip, dist2, hcw, Bool.false_eq_true, if_false]
  generalize hw * hw / miterDen hw n0 n1 = s at *
  generalize miterDen hw n0 n1 = D at *
  simp only [dot, padd, smul, lerp] at *
  linear_combination ((1 - t) ^ 2 + 2 * t * (1 - t) * s) * h0 + 2 * t * (1 - t) * hs
    - 2 * t * (1 - t) * s * hD

/-- what `SqrtSpec` gives for `|d|`: non-negative, `|d|² = |tip − pivot|²`, and `|d| ≥ hw` -/
theorem miterAbsD_spec (hS : SqrtSpec K) (hw : K) (pivot n0 n1 : Pt K) (hhw : 0 < hw)
    (h0 : dot n0 n0 = hw * hw) (h1 : dot n1 n1 = hw * hw) (hden : 0 < miterDen hw n0 n1) :
    0 ≤ miterAbsD hw n0 n1 ∧
    miterAbsD hw n0 n1 * miterAbsD hw n0 n1 = dist2 (miterTip hw pivot n0 n1) pivot ∧
    hw ≤ miterAbsD hw n0 n1 := by
  have hd2 := miter_tip_dist2 hw pivot n0 n1 h0 h1 (ne_of_gt hden)
  have hnn : 0 ≤ 2 * (hw * hw) * (hw * hw) / miterDen hw n0 n1 := by positivity
  obtain ⟨hs0, hs2⟩ := hS _ hnn
  have hD2 : miterAbsD hw n0 n1 * miterAbsD hw n0 n1 = dist2 (miterTip hw pivot n0 n1) pivot := by
    rw [hd2]; unfold miterAbsD; simp only [Ops.sqrt]; rw [← pow_two]; exact hs2
  refine ⟨hs0, hD2, ?_⟩
  -- den ≤ 2hw² (Cauchy–Schwarz for two vectors of length hw), hence |d|² ≥ hw²
  have hcs : miterDen hw n0 n1 ≤ 2 * (hw * hw) := by
    simp only [miterDen, dot] at h0 h1 ⊢
    nlinarith [sq_nonneg (n0.x - n1.x), sq_nonneg (n0.y - n1.y)]
  have hT : hw * hw ≤ dist2 (miterTip hw pivot n0 n1) pivot := by
    rw [hd2, le_div_iff₀ hden]
    have hw2 : 0 ≤ hw * hw := le_of_lt (mul_pos hhw hhw)
    nlinarith [mul_le_mul_of_nonneg_left hcs hw2]
  by_contra hlt
  push Not at hlt
  have : miterAbsD hw n0 n1 * miterAbsD hw n0 n1 < hw * hw := mul_self_lt_mul_self hs0 hlt
  linarith

/-- Both corners of a clipped left-bend miter-clip join lie exactly `limit·hw` from the vertex along the
bisector: `(c − pivot)·(tip − pivot) = limit·hw·|d|`. -/
theorem miterclip_cut_at_limit (hS : SqrtSpec K) (limit hw : K) (pivot n0 n1 : Pt K) (hhw : 0 < hw)
    (h0 : dot n0 n0 = hw * hw) (h1 : dot n1 n1 = hw * hw) (hden : 0 < miterDen hw n0 n1)
    (hcw : cwTurn n0 n1 = false) (hne : pointEquals n0 (pneg n1) = false)
    (hclip : miterClipped (effLimit limit) hw n0 n1 = true) :
    ∃ c0 c1, (miterJoin false limit hw pivot n0 n1 (padd pivot n0) (psub pivot n0)).1
        = [.L c0, .L c1, .L (padd pivot n1)] ∧
      dot (psub c0 pivot) (psub (miterTip hw pivot n0 n1) pivot) = effLimit limit * hw * miterAbsD hw n0 n1 ∧
      dot (psub c1 pivot) (psub (miterTip hw pivot n0 n1) pivot) = effLimit limit * hw * miterAbsD hw n0 n1 := by
  obtain ⟨hn0, hn1⟩ := miter_normal_dot_tip hw pivot n0 n1 h0 h1 (ne_of_gt hden) hcw
  obtain ⟨hD0, hD2, hDhw⟩ := miterAbsD_spec hS hw pivot n0 n1 hhw h0 h1 hden
  have hdec := (miter_limit_decision (effLimit limit) hw pivot n0 n1 hhw h0 h1 hden).mp hclip
  have hl : (1 : K) < effLimit limit := lt_of_lt_of_le (by norm_num) (effLimit_ge limit)
  -- |d|² − hw² ≠ 0 : clipped means |d| > limit·hw > hw
  have hne' : miterAbsD hw n0 n1 * miterAbsD hw n0 n1 - hw * hw ≠ 0 := by
    rw [hD2]
    have h2 : 1 < effLimit limit * effLimit limit := by nlinarith
    have h3 := mul_lt_mul_of_pos_left h2 (mul_pos hhw hhw)
    have h4 : (effLimit limit * hw) ^ 2 = hw * hw * (effLimit limit * effLimit limit) := by ring
    linarith
  refine ⟨lerp (padd pivot n0) (miterTip hw pivot n0 n1) (clipT (effLimit limit) hw n0 n1),
    lerp (padd pivot n1) (miterTip hw pivot n0 n1) (clipT (effLimit limit) hw n0 n1), ?_, ?_, ?_⟩
  · simp [miterJoin, hne, hclip, hcw]
  · rw [miter_edge_point_bisector, hn0, tip_dot_self, ← hD2]
    have ht : clipT (effLimit limit) hw n0 n1 * (miterAbsD hw n0 n1 * miterAbsD hw n0 n1 - hw * hw)
        = effLimit limit * hw * miterAbsD hw n0 n1 - hw * hw := by
      simp only [clipT]; exact div_mul_cancel₀ _ hne'
    linear_combination ht
  · rw [miter_edge_point_bisector, hn1, tip_dot_self, ← hD2]
    have ht : clipT (effLimit limit) hw n0 n1 * (miterAbsD hw n0 n1 * miterAbsD hw n0 n1 - hw * hw)
        = effLimit limit * hw * miterAbsD hw n0 n1 - hw * hw := by
      simp only [clipT]; exact div_mul_cancel₀ _ hne'
    linear_combination ht

/-- Inside the disc: no point emitted by a miter-type joiner is farther than `limit·hw` from the vertex,
except the two cut corners of a clipping joiner (which are at `limit·hw` along the bisector,
`miterclip_cut_at_limit`, and off the bisector by half the length of the cut). -/
theorem miter_within_disc_unless_clipped (gap : Bool) (limit hw : K) (pivot n0 n1 : Pt K) (hhw : 0 < hw)
    (h0 : dot n0 n0 = hw * hw) (h1 : dot n1 n1 = hw * hw) (hden : 0 < miterDen hw n0 n1)
    (hclass : ¬(miterClipped (effLimit limit) hw n0 n1 = true ∧ gap = false)) :
    ∀ c ∈ (miterJoin gap limit hw pivot n0 n1 (padd pivot n0) (psub pivot n0)).1 ++
          (miterJoin gap limit hw pivot n0 n1 (padd pivot n0) (psub pivot n0)).2,
      dist2 (endOf c) pivot ≤ (effLimit limit * hw) ^ 2 := by
  have hl : (1 : K) ≤ effLimit limit := le_trans (by norm_num) (effLimit_ge limit)
  have hw2 : 0 ≤ hw * hw := le_of_lt (mul_pos hhw hhw)
  have hbase : hw * hw ≤ (effLimit limit * hw) ^ 2 := by
    have : 1 ≤ effLimit limit * effLimit limit := by nlinarith
    nlinarith [mul_le_mul_of_nonneg_right this hw2]
  have hr : dist2 (padd pivot n1) pivot ≤ (effLimit limit * hw) ^ 2 := by
    have : dist2 (padd pivot n1) pivot = hw * hw := by
      simp only [dist2, padd, dot] at h1 ⊢; linear_combination h1
    rw [this]; exact hbase
  have hlft : dist2 (psub pivot n1) pivot ≤ (effLimit limit * hw) ^ 2 := by
    have : dist2 (psub pivot n1) pivot = hw * hw := by
      simp only [dist2, psub, dot] at h1 ⊢; linear_combination h1
    rw [this]; exact hbase
  intro c hc
  unfold miterJoin bevelJoin at hc
  split at hc
  · simp at hc; rcases hc with rfl | rfl <;> simpa [endOf]
  · simp only [] at hc
    split at hc
    · simp at hc; rcases hc with rfl | rfl <;> simpa [endOf]
    · next hng =>
      have hnc : miterClipped (effLimit limit) hw n0 n1 = false := by
        cases hcl : miterClipped (effLimit limit) hw n0 n1
        · rfl
        · exfalso
          cases gap
          · exact hclass ⟨hcl, rfl⟩
          · simp [hcl] at hng
      have htip := miter_tip_within_limit (effLimit limit) hw pivot n0 n1 hhw h0 h1 hden hnc
      rw [hnc] at hc
      simp only [Bool.false_eq_true, if_false] at hc
      split at hc <;> simp at hc <;> rcases hc with rfl | rfl | rfl <;> simpa [endOf]

/-- Along the bisector EVERY point a miter-type joiner puts on the outer side of a left bend — bevel,
tip, cut corners, end point; clipped or not, `MiterJoin` or `MiterClipJoin` — is at most `limit·hw` from
the vertex: `(c − pivot)·(tip − pivot) ≤ limit·hw·|d|`. -/
theorem miter_bisector_within_limit (hS : SqrtSpec K) (gap : Bool) (limit hw : K) (pivot n0 n1 : Pt K)
    (hhw : 0 < hw) (h0 : dot n0 n0 = hw * hw) (h1 : dot n1 n1 = hw * hw) (hden : 0 < miterDen hw n0 n1)
    (hcw : cwTurn n0 n1 = false) :
    ∀ c ∈ (miterJoin gap limit hw pivot n0 n1 (padd pivot n0) (psub pivot n0)).1,
      dot (psub (endOf c) pivot) (psub (miterTip hw pivot n0 n1) pivot)
        ≤ effLimit limit * hw * miterAbsD hw n0 n1 := by
  obtain ⟨hn0, hn1⟩ := miter_normal_dot_tip hw pivot n0 n1 h0 h1 (ne_of_gt hden) hcw
  obtain ⟨hD0, hD2, hDhw⟩ := miterAbsD_spec hS hw pivot n0 n1 hhw h0 h1 hden
  have hl : (1 : K) ≤ effLimit limit := le_trans (by norm_num) (effLimit_ge limit)
  -- the end point pivot + n1 : hw² ≤ limit·hw·|d|
  have hend : dot (psub (padd pivot n1) pivot) (psub (miterTip hw pivot n0 n1) pivot)
      ≤ effLimit limit * hw * miterAbsD hw n0 n1 := by
    have : dot (psub (padd pivot n1) pivot) (psub (miterTip hw pivot n0 n1) pivot) = hw * hw := by
      rw [← hn1]; simp only [dot, psub, padd]; ring
    rw [this]
    have h1' : hw * hw ≤ hw * miterAbsD hw n0 n1 := mul_le_mul_of_nonneg_left hDhw (le_of_lt hhw)
    have h2' : hw * miterAbsD hw n0 n1 ≤ effLimit limit * (hw * miterAbsD hw n0 n1) :=
      le_mul_of_one_le_left (mul_nonneg (le_of_lt hhw) hD0) hl
    nlinarith
  intro c hc
  unfold miterJoin bevelJoin at hc
  split at hc
  · simp at hc; subst hc; simpa [endOf] using hend
  · simp only [] at hc
    split at hc
    · simp at hc; subst hc; simpa [endOf] using hend
    · next hng =>
      cases hcl : miterClipped (effLimit limit) hw n0 n1
      · -- not clipped: tip and end point
        have htip := miter_tip_within_limit (effLimit limit) hw pivot n0 n1 hhw h0 h1 hden hcl
        rw [hcl] at hc
        simp only [Bool.false_eq_true, if_false, hcw] at hc
        simp at hc
        rcases hc with rfl | rfl
        · simp only [endOf]
          rw [tip_dot_self, ← hD2]
          -- |d|² ≤ limit·hw·|d|  from  |d|² ≤ (limit·hw)²
          have hLH : 0 ≤ effLimit limit * hw := mul_nonneg (le_trans zero_le_one hl) (le_of_lt hhw)
          have hle : miterAbsD hw n0 n1 ≤ effLimit limit * hw := by
            by_contra hgt
            push Not at hgt
            have : (effLimit limit * hw) ^ 2 < miterAbsD hw n0 n1 * miterAbsD hw n0 n1 := by nlinarith
            rw [hD2] at this
            linarith
          nlinarith [mul_le_mul_of_nonneg_right hle hD0]
        · simpa [endOf] using hend
      · -- clipped (then gap = false): the two cut corners and the end point
        have hgap : gap = false := by
          cases gap
          · rfl
          · simp [hcl] at hng
        subst hgap
        have hne : pointEquals n0 (pneg n1) = false := by
          cases h : pointEquals n0 (pneg n1)
          · rfl
          · rename_i hne'; exact absurd h hne'
        obtain ⟨c0, c1, hlist, hc0, hc1⟩ :=
          miterclip_cut_at_limit hS limit hw pivot n0 n1 hhw h0 h1 hden hcw hne hcl
        have hc' : c ∈ (miterJoin false limit hw pivot n0 n1 (padd pivot n0) (psub pivot n0)).1 := by
          unfold miterJoin bevelJoin
          simp only [hne, Bool.false_eq_true, if_false, hcl, Bool.and_false]
          simpa [hcl, hcw] using hc
        rw [hlist] at hc'
        simp at hc'
        rcases hc' with rfl | rfl | rfl
        · simp only [endOf]; exact le_of_eq hc0
        · simp only [endOf]; exact le_of_eq hc1
        · simpa [endOf] using hend

/-! ## call protocol of `offset()` -/
section protocol
variable {α : Type} [Neg α]

/-- For every non-empty state list `offset()` produces a result whose requests are: one join per
corner among the adjacent pairs (cyclically adjacent when closed), no caps when closed or when only
offsetting, exactly two caps when stroking an open subpath; `rhs` is closed iff the input is closed or
an open subpath is stroked; `lhs` is closed iff the input is closed and is absent (merged into `rhs`)
iff an open subpath is stroked. -/
theorem protocol (eqN : Pt α → Pt α → Bool) (first : Seg α) (rest : List (Seg α)) (closed strokeOpen : Bool) :
    ∃ pr, offsetProto eqN (first :: rest) closed strokeOpen = some pr ∧
      (pr.events.filter Ev.isJoin).length
        = (adjPairs first closed (first :: rest)).countP (isCorner eqN) ∧
      (pr.events.filter Ev.isCap).length = (if closed then 0 else if strokeOpen then 2 else 0) ∧
      pr.rhsClosed = (closed || strokeOpen) ∧
      pr.lhs = (if closed then some true else if strokeOpen then none else some false) := by
  have hj := joinsFrom_all_join eqN first closed (first :: rest)
  have hl := joinsFrom_length eqN first closed (first :: rest)
  cases closed
  · cases strokeOpen
    · refine ⟨_, rfl, ?_, ?_, rfl, rfl⟩
      · simp only [filter_isJoin_of_all _ hj]; exact hl
      · simp only [filter_isCap_of_all _ hj]; rfl
    · refine ⟨_, rfl, ?_, ?_, rfl, rfl⟩
      · simp only [List.filter_append, filter_isJoin_of_all _ hj]
        simp [Ev.isJoin, hl]
      · simp only [List.filter_append, filter_isCap_of_all _ hj]
        rfl
  · refine ⟨_, rfl, ?_, ?_, rfl, rfl⟩
    · simp only [filter_isJoin_of_all _ hj]; exact hl
    · simp only [filter_isCap_of_all _ hj]; rfl

/-- number of candidate pairs: closed ⇒ n, open ⇒ n − 1 -/
theorem protocol_pairs (first : Seg α) (rest : List (Seg α)) (closed : Bool) :
    (adjPairs first closed (first :: rest)).length
      = if closed then rest.length + 1 else rest.length := by
  have := adjPairs_length first closed (first :: rest) (by simp)
  simpa using this

/-- when every junction is a corner: closed ⇒ 0 caps and n joins, open ⇒ 2 caps and n − 1 joins -/
theorem protocol_all_corners (eqN : Pt α → Pt α → Bool) (first : Seg α) (rest : List (Seg α))
    (closed : Bool)
    (hall : ∀ p ∈ adjPairs first closed (first :: rest), isCorner eqN p = true) :
    ∃ pr, offsetProto eqN (first :: rest) closed true = some pr ∧
      (pr.events.filter Ev.isJoin).length = (if closed then rest.length + 1 else rest.length) ∧
      (pr.events.filter Ev.isCap).length = (if closed then 0 else 2) := by
  obtain ⟨pr, hpr, hjn, hcp, _, _⟩ := protocol eqN first rest closed true
  refine ⟨pr, hpr, ?_, ?_⟩
  · rw [hjn, List.countP_eq_length.mpr hall, protocol_pairs]
  · rw [hcp]; cases closed <;> rfl

/-- A closed subpath of `n ≥ 1` segments all of whose junctions are corners gets exactly `n` joins and
no cap — for Stroke and for Offset alike; `n = 1` (a single cubic returning to its start point) included. -/
theorem closed_join_count (eqN : Pt α → Pt α → Bool) (first : Seg α) (rest : List (Seg α))
    (strokeOpen : Bool)
    (hall : ∀ p ∈ adjPairs first true (first :: rest), isCorner eqN p = true) :
    ∃ pr, offsetProto eqN (first :: rest) true strokeOpen = some pr ∧
      (pr.events.filter Ev.isJoin).length = (first :: rest).length ∧
      (pr.events.filter Ev.isCap).length = 0 := by
  obtain ⟨pr, hpr, hjn, hcp, _, _⟩ := protocol eqN first rest true strokeOpen
  refine ⟨pr, hpr, ?_, ?_⟩
  · rw [hjn, List.countP_eq_length.mpr hall, protocol_pairs]; simp
  · rw [hcp]; rfl

/-- The one-segment closed subpath: the segment is joined with itself (`next = states[0]`) at its
single vertex, with end normal → start normal and end radius → start radius; this is the only request. -/
theorem closed_single_segment_join (eqN : Pt α → Pt α → Bool) (s : Seg α) (strokeOpen : Bool)
    (hcorner : eqN s.n1 s.n0 = false) :
    offsetProto eqN [s] true strokeOpen =
      some ⟨[.join s.p1 s.n1 s.n0 s.r1 s.r0], true, some true⟩ := by
  simp [offsetProto, joinsFrom, joinOf, hcorner]

/-- both sides come back closed iff the input subpath is closed -/
theorem both_sides_closed_iff (eqN : Pt α → Pt α → Bool) (first : Seg α) (rest : List (Seg α))
    (closed strokeOpen : Bool) :
    ∀ pr, offsetProto eqN (first :: rest) closed strokeOpen = some pr →
      ((pr.rhsClosed = true ∧ pr.lhs = some true) ↔ closed = true) := by
  intro pr h
  obtain ⟨pr', hpr', _, _, hr, hlh⟩ := protocol eqN first rest closed strokeOpen
  rw [h] at hpr'
  cases hpr'
  rw [hr, hlh]
  cases closed <;> cases strokeOpen <;> simp

/-- the caps of an open stroke are requested after all joins: first the end (pivot = last end point,
normal = last end normal), then the start (pivot = first start point, normal = −first start normal) -/
theorem caps_after_joins (eqN : Pt α → Pt α → Bool) (first : Seg α) (rest : List (Seg α)) :
    ∃ pr, offsetProto eqN (first :: rest) false true = some pr ∧
      pr.events = joinsFrom eqN first false (first :: rest) ++
        [.cap (lastSeg first (first :: rest)).p1 (lastSeg first (first :: rest)).n1,
         .cap first.p0 (pneg first.n0)] :=
  ⟨_, rfl, rfl⟩

/-- nothing is produced only for an empty state list (`return nil, nil`) -/
theorem proto_none_iff (eqN : Pt α → Pt α → Bool) (segs : List (Seg α)) (closed strokeOpen : Bool) :
    offsetProto eqN segs closed strokeOpen = none ↔ segs = [] := by
  cases segs with
  | nil => simp [offsetProto]
  | cons s tl =>
    simp only [offsetProto, reduceCtorEq, iff_false]
    cases closed <;> cases strokeOpen <;> simp

end protocol

/-! ## Offset is one side of the stroke; paths with several subpaths (dashes) -/
section wholepath
variable {α : Type} [Neg α]

/-- `Offset` (strokeOpen = false) requests exactly the joins `Stroke` requests, and never a cap: the
offset contour is the `rhs` / `lhs` side of the stroke outline. -/
theorem offset_is_one_side (eqN : Pt α → Pt α → Bool) (first : Seg α) (rest : List (Seg α)) (closed : Bool) :
    ∃ po ps, offsetProto eqN (first :: rest) closed false = some po ∧
      offsetProto eqN (first :: rest) closed true = some ps ∧
      po.events = ps.events.filter Ev.isJoin ∧ po.events.filter Ev.isCap = [] := by
  have hj := joinsFrom_all_join eqN first closed (first :: rest)
  cases closed
  · refine ⟨_, _, rfl, rfl, ?_, ?_⟩
    · simp only [List.filter_append, filter_isJoin_of_all _ hj]
      simp [Ev.isJoin]
    · exact filter_isCap_of_all _ hj
  · refine ⟨_, _, rfl, rfl, ?_, ?_⟩
    · exact (filter_isJoin_of_all _ hj).symm
    · exact filter_isCap_of_all _ hj

/-- caps requested for one subpath -/
theorem sub_caps (eqN : Pt α → Pt α → Bool) (s : SubPath α) (strokeOpen : Bool) :
    ((subEvents eqN strokeOpen s).filter Ev.isCap).length
      = if s.1.isEmpty || s.2 || !strokeOpen then 0 else 2 := by
  obtain ⟨segs, closed⟩ := s
  cases segs with
  | nil => simp [subEvents, offsetProto]
  | cons first rest =>
    obtain ⟨pr, hpr, _, hc, _, _⟩ := protocol eqN first rest closed strokeOpen
    simp only [subEvents, hpr, hc]
    cases closed <;> cases strokeOpen <;> simp

/-- Stroking a path with several subpaths (e.g. the dashes produced by `Dash`): the cappers are called
exactly twice for every open, non-empty subpath and never for a closed one. -/
theorem path_caps (eqN : Pt α → Pt α → Bool) (subs : List (SubPath α)) (strokeOpen : Bool) :
    ((pathEvents eqN subs strokeOpen).filter Ev.isCap).length
      = (subs.map fun s => if s.1.isEmpty || s.2 || !strokeOpen then 0 else 2).sum := by
  induction subs with
  | nil => simp [pathEvents]
  | cons s tl ih =>
    simp only [pathEvents, List.flatMap_cons, List.filter_append, List.length_append, List.map_cons,
      List.sum_cons] at ih ⊢
    rw [sub_caps eqN s strokeOpen, ih]

/-- dashes → stroke: when every subpath is open and non-empty (what `Dash` produces from an open path)
the stroke has `2·k` caps and `k` contours for `k` dashes. -/
theorem dashed_stroke (eqN : Pt α → Pt α → Bool) (subs : List (SubPath α))
    (hopen : ∀ s ∈ subs, s.1.isEmpty = false ∧ s.2 = false) :
    ((pathEvents eqN subs true).filter Ev.isCap).length = 2 * subs.length ∧
    pathContours subs true = subs.length := by
  constructor
  · rw [path_caps]
    induction subs with
    | nil => simp
    | cons s tl ih =>
      have h := hopen s (by simp)
      have := ih (fun t ht => hopen t (List.mem_cons_of_mem _ ht))
      simp only [List.map_cons, List.sum_cons, List.length_cons, h.1, h.2] at this ⊢
      simp at this ⊢
      omega
  · unfold pathContours
    induction subs with
    | nil => simp
    | cons s tl ih =>
      have h := hopen s (by simp)
      have := ih (fun t ht => hopen t (List.mem_cons_of_mem _ ht))
      simp only [List.map_cons, List.sum_cons, List.length_cons, h.1, h.2] at this ⊢
      simp at this ⊢
      omega

end wholepath

/-! ## exact region specification (flat paths): the verdict functions decide the property's predicate -/
section exactspec
open Canvas.Wn Canvas.C04.Spec C04S

/-- `nearSeg p a b d2` ⇔ some point `a + t(b−a)`, `0 ≤ t ≤ 1`, is at squared distance `< d2` from `p` -/
theorem near_verdict_exact (p a b : IPt) (d2 : Int) :
    nearSeg p a b d2 = true ↔ ∃ t : ℚ, 0 ≤ t ∧ t ≤ 1 ∧ segDist2 p a b t < d2 := nearSeg_iff p a b d2

/-- `farFromSeg p a b d2` ⇔ every point of the segment is at squared distance `> d2` from `p` -/
theorem far_verdict_exact (p a b : IPt) (d2 : Int) :
    farFromSeg p a b d2 = true ↔ ∀ t : ℚ, 0 ≤ t → t ≤ 1 → (d2 : ℚ) < segDist2 p a b t :=
  farFromSeg_iff p a b d2

/-- the verdict "closer than `w/2 − tol` to the path" is exact for polylines -/
theorem near_path_exact (p : IPt) (d : Int) (chains : List (List IPt)) :
    nearPath p d chains = true ↔
      ∃ c ∈ chains, ∃ s ∈ consec c, ∃ t : ℚ, 0 ≤ t ∧ t ≤ 1 ∧ segDist2 p s.1 s.2 t < d :=
  nearPath_iff p d chains

/-- the verdict "farther than `w/2 + tol` from the path" is exact for polylines -/
theorem far_path_exact (p : IPt) (d : Int) (chains : List (List IPt)) :
    farPath p d chains = true ↔
      ∀ c ∈ chains, ∀ s ∈ consec c, ∀ t : ℚ, 0 ≤ t → t ≤ 1 → (d : ℚ) < segDist2 p s.1 s.2 t :=
  farPath_iff p d chains

/-- no point is demanded filled (below `lo²`) and demanded empty (above `hi²`) at once when `lo ≤ hi` -/
theorem verdicts_exclusive (p a b : IPt) (lo2 hi2 : Int) (h : lo2 ≤ hi2) :
    ¬(nearSeg p a b lo2 = true ∧ farFromSeg p a b hi2 = true) :=
  fun hh => near_far_exclusive p a b lo2 hi2 h hh.1 hh.2

/-- a larger tolerance band only removes demands: both verdicts are monotone -/
theorem verdicts_monotone (p a b : IPt) (d d' : Int) (h : d ≤ d') :
    (nearSeg p a b d = true → nearSeg p a b d' = true) ∧
    (farFromSeg p a b d' = true → farFromSeg p a b d = true) :=
  ⟨nearSeg_mono p a b d d' h, farFromSeg_anti p a b d d' h⟩

/-- the verdicts do not depend on where the drawing sits (translation invariance) -/
theorem verdicts_translation_invariant (u p a b : IPt) (d : Int) :
    nearSeg (shift u p) (shift u a) (shift u b) d = nearSeg p a b d ∧
    farFromSeg (shift u p) (shift u a) (shift u b) d = farFromSeg p a b d :=
  ⟨nearSeg_translate u p a b d, farFromSeg_translate u p a b d⟩

/-- the slab the stroker must fill lies within `lo` of its segment -/
theorem slab_demand_sound (p a b : IPt) (lo band : Int) (h : inSlab p a b lo band = true) :
    nearSeg p a b (lo * lo) = true := inSlab_near p a b lo band h

/-- the bevel triangle at a join lies in the open disc of radius `lo` around the vertex -/
theorem bevel_triangle_in_disc (qx qy r0x r0y r1x r1y lo : Int)
    (h : bevelCore qx qy r0x r0y r1x r1y lo = true) : qx * qx + qy * qy < lo * lo :=
  bevelCore_disc qx qy r0x r0y r1x r1y lo h

/-- Bevel / Round joins and Round / Square caps: every point the specification demands is within `lo` of
a segment of the path — the exact specification never demands more than the property does. -/
theorem spec_demands_only_near_points (st : Style) (g : Geo) (L : Lens) (p : IPt) (hj : st.join ≤ 1)
    (h : mustFill st g L p = true) :
    (∃ s ∈ g.segs, nearSeg p s.1 s.2 (L.lo * L.lo) = true) ∨
    (∃ t ∈ g.joins, nearSeg p t.1 t.2.1 (L.lo * L.lo) = true) ∨
    (∃ e ∈ g.ends, nearSeg p e.1 e.2 (L.lo * L.lo) = true) := mustFill_near st g L p hj h

/-- non-vacuity: concrete points in a slab, a bevel triangle, a round sector and a round cap -/
example : inSlab ⟨5, 2⟩ ⟨0, 0⟩ ⟨10, 0⟩ 3 1 = true := by decide
example : inBevel ⟨11, -1⟩ ⟨0, 0⟩ ⟨10, 0⟩ ⟨10, 10⟩ 4 = true := by decide
example : joinFilled ⟨0, 1, 4, 1⟩ ⟨12, -2⟩ ⟨0, 0⟩ ⟨10, 0⟩ ⟨10, 10⟩ 4 = true := by decide
example : capFilled ⟨1, 1, 4, 1⟩ ⟨12, 1⟩ ⟨0, 0⟩ ⟨10, 0⟩ 4 = true := by decide
example : nearSeg ⟨5, 2⟩ ⟨0, 0⟩ ⟨10, 0⟩ 9 = true ∧ farFromSeg ⟨5, 4⟩ ⟨0, 0⟩ ⟨10, 0⟩ 9 = true := by decide
example : mustFill ⟨0, 1, 4, 1⟩ (geoOf [([⟨0, 0⟩, ⟨10, 0⟩, ⟨10, 10⟩], false)]) ⟨4, 6, 5, 1⟩ ⟨12, -2⟩ = true := by
  decide

end exactspec

/-! ## the first loop on flat subpaths -/

/-- a `Close` whose start and end coincide adds no state, any other `Close` adds a line state; `closed`
is set by any `Close` -/
theorem flatStates_close (hw nan : K) (start p : Pt K) :
    flatStates hw nan start [.Z p] =
      (if pointEquals start p then [] else [lineSeg hw nan start p], true) := by
  simp [flatStates]

theorem flatStates_open_lines (hw nan : K) (start p q : Pt K) :
    flatStates hw nan start [.M p, .L q] = ([lineSeg hw nan p q], false) := by
  simp [flatStates]

/-! ## non-vacuity -/

/-- a left right-angle bend with unit half width satisfies the hypotheses of the miter theorems -/
example : ∃ n0 n1 : Pt K, dot n0 n0 = (1 : K) * 1 ∧ dot n1 n1 = (1 : K) * 1 ∧ 0 < miterDen (1 : K) n0 n1 ∧
    cwTurn n0 n1 = false :=
  ⟨⟨0, -1⟩, ⟨1, 0⟩, by simp [dot], by simp [dot], by simp [miterDen, dot], by simp [cwTurn, dot, rotCW]⟩

/-- limit 1.001 clips the right-angle miter (tip at distance √2): the excluded class is inhabited -/
example : miterClipped (effLimit (1 : K)) (1 : K) ⟨0, -1⟩ ⟨1, 0⟩ = true := by
  have : effLimit (1 : K) = 1001 / 1000 := by
    unfold effLimit; rw [if_pos]; · rfl
    · show (1 : K) < 1001 / 1000; norm_num
  rw [this]
  simp only [miterClipped, miterDen, dot, decide_eq_true_eq]
  norm_num

end C04
