import CanvasProofs.Lemmas.C08
import CanvasProofs.Lemmas.C08Equiv
import CanvasProofs.Lemmas.C08Cubic
import CanvasProofs.Lemmas.C08Sym
import CanvasProofs.Lemmas.C08Arc
import CanvasProofs.Lemmas.C08Angle
import CanvasProofs.Lemmas.C08Real
import CanvasProofs.Lemmas.C08Verdict
import CanvasProofs.Lemmas.C08Fixed

/-! # C08 — Bounds is the tight bounding box and FastBounds contains it

Model: `Canvas.C08.fastBounds` / `Canvas.C08.bounds` (CanvasModel/C08.lean, hand-written fold over the
command list, compared with the real `Path.FastBounds()/Path.Bounds()` on every run), instantiated
over an arbitrary linearly ordered field `K` with `min`/`max` and the *generated* definitions
`GenK.Equal`, `GenK.IntervalExclusive`, `GenK.quadraticBezierPos`, `GenK.cubicBezierPos`. -/
set_option linter.unusedSectionVars false
set_option linter.unusedVariables false
namespace C08
open Canvas Canvas.C08 GenK
variable {K : Type} [Field K] [LinearOrder K] [IsStrictOrderedRing K] [Env K] [ArcFns K]

/-- Every point of a quadratic Bézier at `t ∈ [0,1]` lies within min/max of its control points. -/
theorem bernstein_hull_quad (p0 p1 p2 : Pt K) (t : K) (h0 : 0 ≤ t) (h1 : t ≤ 1) :
    InRect ⟨min p0.x (min p1.x p2.x), min p0.y (min p1.y p2.y), max p0.x (max p1.x p2.x), max p0.y (max p1.y p2.y)⟩
      (quadraticBezierPos p0 p1 p2 t) := by
  simp only [InRect, quadPos_x, quadPos_y]
  exact ⟨hull3_lo _ _ _ _ t (min_le_left _ _) ((min_le_right _ _).trans (min_le_left _ _)) ((min_le_right _ _).trans (min_le_right _ _)) h0 h1,
    hull3_hi _ _ _ _ t (le_max_left _ _) ((le_max_left _ _).trans (le_max_right _ _)) ((le_max_right _ _).trans (le_max_right _ _)) h0 h1,
    hull3_lo _ _ _ _ t (min_le_left _ _) ((min_le_right _ _).trans (min_le_left _ _)) ((min_le_right _ _).trans (min_le_right _ _)) h0 h1,
    hull3_hi _ _ _ _ t (le_max_left _ _) ((le_max_left _ _).trans (le_max_right _ _)) ((le_max_right _ _).trans (le_max_right _ _)) h0 h1⟩

/-- Every point of a cubic Bézier at `t ∈ [0,1]` lies within min/max of its control points. -/
theorem bernstein_hull_cube (p0 p1 p2 p3 : Pt K) (t : K) (h0 : 0 ≤ t) (h1 : t ≤ 1) :
    InRect ⟨min p0.x (min p1.x (min p2.x p3.x)), min p0.y (min p1.y (min p2.y p3.y)),
            max p0.x (max p1.x (max p2.x p3.x)), max p0.y (max p1.y (max p2.y p3.y))⟩
      (cubicBezierPos p0 p1 p2 p3 t) := by
  simp only [InRect, cubePos_x, cubePos_y]
  exact ⟨hull4_lo _ _ _ _ _ t (min_le_left _ _) ((min_le_right _ _).trans (min_le_left _ _))
      ((min_le_right _ _).trans ((min_le_right _ _).trans (min_le_left _ _))) ((min_le_right _ _).trans ((min_le_right _ _).trans (min_le_right _ _))) h0 h1,
    hull4_hi _ _ _ _ _ t (le_max_left _ _) ((le_max_left _ _).trans (le_max_right _ _))
      ((le_max_left _ _).trans ((le_max_right _ _).trans (le_max_right _ _))) ((le_max_right _ _).trans ((le_max_right _ _).trans (le_max_right _ _))) h0 h1,
    hull4_lo _ _ _ _ _ t (min_le_left _ _) ((min_le_right _ _).trans (min_le_left _ _))
      ((min_le_right _ _).trans ((min_le_right _ _).trans (min_le_left _ _))) ((min_le_right _ _).trans ((min_le_right _ _).trans (min_le_right _ _))) h0 h1,
    hull4_hi _ _ _ _ _ t (le_max_left _ _) ((le_max_left _ _).trans (le_max_right _ _))
      ((le_max_left _ _).trans ((le_max_right _ _).trans (le_max_right _ _))) ((le_max_right _ _).trans ((le_max_right _ _).trans (le_max_right _ _))) h0 h1⟩

/-! ## Bounds -/

/-- The stationary parameter used by `Bounds` for a quadratic, `t* = (p0−p1)/(p0−2p1+p2)`, zeroes the
derivative, and `B(t) − B(t*) = (p0−2p1+p2)·(t−t*)²` (per coordinate): the extreme is exactly `B(t*)`. -/
theorem quad_extremum (p0 p1 p2 : Pt K) (t : K) :
    (p0.x - 2 * p1.x + p2.x ≠ 0 →
      (quadraticBezierDeriv p0 p1 p2 ((p0.x - p1.x) / (p0.x - 2 * p1.x + p2.x))).x = 0 ∧
      (quadraticBezierPos p0 p1 p2 t).x - (quadraticBezierPos p0 p1 p2 ((p0.x - p1.x) / (p0.x - 2 * p1.x + p2.x))).x
        = (p0.x - 2 * p1.x + p2.x) * (t - (p0.x - p1.x) / (p0.x - 2 * p1.x + p2.x)) ^ 2) ∧
    (p0.y - 2 * p1.y + p2.y ≠ 0 →
      (quadraticBezierDeriv p0 p1 p2 ((p0.y - p1.y) / (p0.y - 2 * p1.y + p2.y))).y = 0 ∧
      (quadraticBezierPos p0 p1 p2 t).y - (quadraticBezierPos p0 p1 p2 ((p0.y - p1.y) / (p0.y - 2 * p1.y + p2.y))).y
        = (p0.y - 2 * p1.y + p2.y) * (t - (p0.y - p1.y) / (p0.y - 2 * p1.y + p2.y)) ^ 2) := by
  constructor <;> intro h <;>
    simp only [quadraticBezierDeriv, quadraticBezierPos, Point.Mul, Point.Add] <;>
    constructor <;> field_simp <;> ring

/-- Bounds contains every point of every M/L/Q/C/Z path, exactly (Epsilon = 0, `sqrt` an exact square
root on non-negatives): lines, quadratics AND cubics. For a cubic coordinate `f` with `f' = 3g`,
`solveQuadratic` returns every sign change of `g` inside (0,1) (`solveQuadratic_spec`, all seven
branches of the code), and `f` is monotone between consecutive candidates by Simpson's identity — no
calculus, any ordered field. -/
theorem bounds_contains_curve (hε : (Env.epsilon : K) = 0) (hs : ∀ x : K, 0 ≤ x → Env.sqrt x * Env.sqrt x = x)
    (cs : List (Cmd K)) (q : Pt K) (harc : ∀ c ∈ cs, c.isArc = false) (h : OnPath cs q) :
    InRect (bounds cs) q :=
  run_contains (boundsStep_good_full hε hs _) cs q (fun c hc => harc c (List.mem_of_mem_tail hc)) h

/-- the per-axis core of it: the interval `Bounds` computes for one cubic contains `B(t)`, `t ∈ [0,1]` -/
theorem cubic_axis_contains (hε : (Env.epsilon : K) = 0) (hs : ∀ x : K, 0 ≤ x → Env.sqrt x * Env.sqrt x = x)
    (a0 a1 a2 a3 lo hi t : K) (hlo : lo ≤ a0) (hhi : a0 ≤ hi) (t0 : 0 ≤ t) (t1 : t ≤ 1) :
    (cubeAxis a0 a1 a2 a3 (cb a0 a1 a2 a3) lo hi).1 ≤ cb a0 a1 a2 a3 t ∧
    cb a0 a1 a2 a3 t ≤ (cubeAxis a0 a1 a2 a3 (cb a0 a1 a2 a3) lo hi).2 :=
  cubeAxis_contains hε hs a0 a1 a2 a3 _ lo hi t (fun _ => rfl) hlo hhi t0 t1

/-- `solveQuadraticFormula` is complete for the purpose of `Bounds`: there are two points such that
`a u² + b u + c` keeps one sign on every interval avoiding them, and each of them lying in (0,1) is
returned. -/
theorem solveQuadratic_complete (hε : (Env.epsilon : K) = 0)
    (hs : ∀ x : K, 0 ≤ x → Env.sqrt x * Env.sqrt x = x) (a b c : K) :
    ∃ r1 r2 : K,
      (∀ p q, p ≤ q → (r1 ≤ p ∨ q ≤ r1) → (r2 ≤ p ∨ q ≤ r2) → SC (fun u => a * u * u + b * u + c) p q) ∧
      (∀ r, (r = r1 ∨ r = r2) → 0 < r → r < 1 →
        ((solveQuadratic a b c).1 = some r ∨ (solveQuadratic a b c).2 = some r)) :=
  solveQuadratic_spec hε hs a b c

/-- Bounds contains every point of every line and quadratic segment (paths of M/L/Q/Z commands, any
number of subpaths), exactly, at Epsilon = 0. -/
theorem bounds_contains_curve_quadratic (hε : (Env.epsilon : K) = 0) (cs : List (Cmd K)) (q : Pt K)
    (harc : ∀ c ∈ cs, c.isArc = false) (hcube : ∀ c ∈ cs, c.isCube = false) (h : OnPath cs q) :
    InRect (bounds cs) q :=
  run_contains (boundsStep_good hε _) cs q
    (fun c hc => ⟨harc c (List.mem_of_mem_tail hc), hcube c (List.mem_of_mem_tail hc)⟩) h

/-- Every side of Bounds is the coordinate of an actual point of the path (M/L/Q/C/Z paths, any
Epsilon ≥ 0): the box is never larger than necessary. -/
theorem bounds_sides_attained (hε : 0 ≤ (Env.epsilon : K)) (cs : List (Cmd K)) (hne : cs ≠ [])
    (harc : ∀ c ∈ cs, c.isArc = false) :
    (∃ q, OnPath cs q ∧ q.x = (bounds cs).x0) ∧ (∃ q, OnPath cs q ∧ q.x = (bounds cs).x1) ∧
    (∃ q, OnPath cs q ∧ q.y = (bounds cs).y0) ∧ (∃ q, OnPath cs q ∧ q.y = (bounds cs).y1) := by
  cases cs with
  | nil => exact absurd rfl hne
  | cons c cs =>
    have h0 : Att (fun q => q = c.firstPt) (St.init c.firstPt : St K) :=
      ⟨⟨_, rfl, rfl⟩, ⟨_, rfl, rfl⟩, ⟨_, rfl, rfl⟩, ⟨_, rfl, rfl⟩⟩
    have h : Att _ (cs.foldl boundsStep (St.init c.firstPt)) :=
      fold_att hε _ cs _ _ (fun c' hc' => harc c' (List.mem_cons_of_mem _ hc')) h0
    obtain ⟨⟨q1, p1, e1⟩, ⟨q2, p2, e2⟩, ⟨q3, p3, e3⟩, ⟨q4, p4, e4⟩⟩ := h
    exact ⟨⟨q1, p1, e1⟩, ⟨q2, p2, e2⟩, ⟨q3, p3, e3⟩, ⟨q4, p4, e4⟩⟩

/-- Bounds is below every box that contains the path: together with containment it is the smallest
axis-aligned box. -/
theorem bounds_smallest (hε : 0 ≤ (Env.epsilon : K)) (cs : List (Cmd K)) (hne : cs ≠ [])
    (harc : ∀ c ∈ cs, c.isArc = false) (r : Rct K) (hr : ∀ q, OnPath cs q → InRect r q) :
    r.x0 ≤ (bounds cs).x0 ∧ (bounds cs).x1 ≤ r.x1 ∧ r.y0 ≤ (bounds cs).y0 ∧ (bounds cs).y1 ≤ r.y1 := by
  obtain ⟨⟨q1, p1, e1⟩, ⟨q2, p2, e2⟩, ⟨q3, p3, e3⟩, ⟨q4, p4, e4⟩⟩ := bounds_sides_attained hε cs hne harc
  exact ⟨e1 ▸ (hr q1 p1).1, e2 ▸ (hr q2 p2).2.1, e3 ▸ (hr q3 p3).2.2.1, e4 ▸ (hr q4 p4).2.2.2⟩

/-- `solveQuadraticFormula` (model, Epsilon = 0, `sqrt` a square root on non-negatives): every value it
returns is a root of `a t² + b t + c`. These are the parameters at which `Bounds` evaluates a cubic. -/
theorem solveQuadratic_roots (hε : (Env.epsilon : K) = 0)
    (hs : ∀ x : K, 0 ≤ x → Env.sqrt x * Env.sqrt x = x) (a b c t : K)
    (h : (solveQuadratic a b c).1 = some t ∨ (solveQuadratic a b c).2 = some t) :
    a * t * t + b * t + c = 0 :=
  solveQuadratic_sound hε hs a b c t h

/-- The coefficients `Bounds` hands to `solveQuadraticFormula` for a cubic are those of its derivative:
`B'(t) = 3 (a t² + b t + c)`. Hence the candidates are exactly stationary points of the coordinate. -/
theorem cubic_derivative_coefficients (p0 p1 p2 p3 : Pt K) (t : K) :
    (cubicBezierDeriv p0 p1 p2 p3 t).x
      = 3 * ((-p0.x + 3 * p1.x - 3 * p2.x + p3.x) * t * t + (2 * p0.x - 4 * p1.x + 2 * p2.x) * t + (-p0.x + p1.x)) ∧
    (cubicBezierDeriv p0 p1 p2 p3 t).y
      = 3 * ((-p0.y + 3 * p1.y - 3 * p2.y + p3.y) * t * t + (2 * p0.y - 4 * p1.y + 2 * p2.y) * t + (-p0.y + p1.y)) := by
  simp only [cubicBezierDeriv, Point.Mul, Point.Add]; constructor <;> ring

/-! ## arcs: the algebra behind the extreme angles and the radius box

An arc point is `(cx + rx·cosθ·cosφ − ry·sinθ·sinφ, cy + rx·cosθ·sinφ + ry·sinθ·cosφ)`. Writing
`(u, v)` for a direction proportional to `(sinθ, cosθ)`, `dx/dθ ∝ −rx·u·cosφ − ry·v·sinφ` and
`dy/dθ ∝ −rx·u·sinφ + ry·v·cosφ`. `Bounds` takes `θ = atan2(u, v)`. -/

/-- `thetaRight = atan2(−ry·sinφ, rx·cosφ)` is a stationary direction of x. -/
theorem arc_x_extreme_direction (rx ry s c : K) : -rx * (-ry * s) * c - ry * (rx * c) * s = 0 := by ring

/-- the corrected `thetaTop = atan2(ry·cosφ, rx·sinφ)` is a stationary direction of y. -/
theorem arc_y_extreme_direction_fixed (rx ry s c : K) : -rx * (ry * c) * s + ry * (rx * s) * c = 0 := by ring

/-- DEFECT (known finding `bounds-arc-thetatop`): the source's `thetaTop = atan2(rx·cosφ, ry·sinφ)` is
stationary for y only if `(ry² − rx²)·sinφ·cosφ = 0`, i.e. for circles and unrotated ellipses. -/
theorem arc_y_extreme_direction_defect (rx ry s c : K) :
    -rx * (rx * c) * s + ry * (ry * s) * c = (ry * ry - rx * rx) * s * c := by ring

/-- …and it is not stationary on a concrete rotated ellipse (rx = 2, ry = 1, sinφ = 3/5, cosφ = 4/5). -/
theorem arc_y_extreme_direction_defect_witness :
    -(2 : ℚ) * (2 * (4 / 5)) * (3 / 5) + 1 * (1 * (3 / 5)) * (4 / 5) ≠ 0 := by norm_num

-- after-fix thetatop
/-- After the fix of `bounds-arc-thetatop`: the angle the model of `Bounds` tests for the top extreme
of an arc is `atan2 (ry·cosφ) (rx·sinφ)`, the stationary direction of y (`arc_y_extreme_direction_fixed`). -/
theorem bounds_arc_top_angle (s : St K) (rx ry phi : K) (l sw : Bool) (p : Pt K) :
    (boundsStep s (.A rx ry phi l sw p)).ymax =
      max (if angleBetween (Ops.atan2 (ry * (Ops.sincos phi).2) (rx * (Ops.sincos phi).1))
              (ellipseToCenter s.start.x s.start.y rx ry phi l sw p.x p.y).2.2.1
              (ellipseToCenter s.start.x s.start.y rx ry phi l sw p.x p.y).2.2.2 = true
           then max s.ymax ((ellipseToCenter s.start.x s.start.y rx ry phi l sw p.x p.y).2.1 +
              Ops.sqrt (rx * rx * (Ops.sincos phi).1 * (Ops.sincos phi).1 + ry * ry * (Ops.sincos phi).2 * (Ops.sincos phi).2))
           else s.ymax) p.y := rfl


/-- the radius box of FastBounds' ArcTo case: a point of the ellipse is within `max rx ry` of the
centre in each coordinate (`c,s` = cos/sin of the parameter, `C,S` = cos/sin of the rotation). -/
theorem ellipse_in_radius_box (rx ry c s C S : K) (hrx : 0 ≤ rx) (hry : 0 ≤ ry)
    (h1 : c * c + s * s = 1) (h2 : C * C + S * S = 1) :
    |rx * c * C - ry * s * S| ≤ max rx ry ∧ |rx * c * S + ry * s * C| ≤ max rx ry := by
  have hm : 0 ≤ max rx ry := hrx.trans (le_max_left _ _)
  have bound : ∀ u v : K, |u| + |v| ≤ 1 → |rx * u - ry * v| ≤ max rx ry ∧ |rx * u + ry * v| ≤ max rx ry := by
    intro u v huv
    have a1 : |rx * u| ≤ max rx ry * |u| := by
      rw [abs_mul, abs_of_nonneg hrx]; exact mul_le_mul_of_nonneg_right (le_max_left _ _) (abs_nonneg _)
    have a2 : |ry * v| ≤ max rx ry * |v| := by
      rw [abs_mul, abs_of_nonneg hry]; exact mul_le_mul_of_nonneg_right (le_max_right _ _) (abs_nonneg _)
    have tot : max rx ry * |u| + max rx ry * |v| ≤ max rx ry := by nlinarith [abs_nonneg u, abs_nonneg v]
    exact ⟨(abs_sub _ _).trans ((add_le_add a1 a2).trans tot), (abs_add_le _ _).trans ((add_le_add a1 a2).trans tot)⟩
  -- |cC| + |sS| ≤ 1 and |cS| + |sC| ≤ 1 by Cauchy–Schwarz in the form 2|xy| ≤ x² + y²
  have cs1 : |c * C| + |s * S| ≤ 1 := by
    rw [abs_mul, abs_mul]
    nlinarith [sq_nonneg (|c| - |C|), sq_nonneg (|s| - |S|), abs_mul_abs_self c, abs_mul_abs_self s, abs_mul_abs_self C, abs_mul_abs_self S]
  have cs2 : |c * S| + |s * C| ≤ 1 := by
    rw [abs_mul, abs_mul]
    nlinarith [sq_nonneg (|c| - |S|), sq_nonneg (|s| - |C|), abs_mul_abs_self c, abs_mul_abs_self s, abs_mul_abs_self C, abs_mul_abs_self S]
  constructor
  · have := (bound (c * C) (s * S) cs1).1; rwa [← mul_assoc, ← mul_assoc] at this
  · have := (bound (c * S) (s * C) cs2).2; rwa [← mul_assoc, ← mul_assoc] at this

/-! ## equivariance under translation and reflection (Bézier paths) -/

/-- Bounds of the translated path is the translated Bounds (lines, quadratics and cubics; any Epsilon). -/
theorem bounds_translate (d : Pt K) (cs : List (Cmd K)) (hne : cs ≠ []) (harc : ∀ c ∈ cs, c.isArc = false) :
    bounds (cs.map (Cmd.mapP (trP d))) = trR d (bounds cs) :=
  run_equiv boundsStep (trP d) (trS d) (trR d) (fun c => c.isArc = false)
    (fun s c hc => boundsStepG_tr _ d s c hc)
    (fun c hc => firstPt_mapP _ c hc) (init_tr d) (fun s => rfl) cs hne harc

/-- Bounds commutes with both reflections on paths of lines and quadratics (any Epsilon).
(For cubics the two roots may be returned in either slot of `solveQuadraticFormula`; refined only.) -/
theorem bounds_reflect_quadratic (cs : List (Cmd K)) (hne : cs ≠ [])
    (harc : ∀ c ∈ cs, c.isArc = false) (hcube : ∀ c ∈ cs, c.isCube = false) :
    bounds (cs.map (Cmd.mapP rxP)) = rxR (bounds cs) ∧ bounds (cs.map (Cmd.mapP ryP)) = ryR (bounds cs) := by
  have hok : ∀ c ∈ cs, BoundsOk c := fun c hc => ⟨harc c hc, hcube c hc⟩
  constructor
  · exact run_equiv boundsStep rxP rxS rxR BoundsOk (fun s c hc => boundsStepG_rx _ s c hc)
      (fun c hc => firstPt_mapP _ c hc.1) init_rx (fun s => rfl) cs hne hok
  · exact run_equiv boundsStep ryP ryS ryR BoundsOk (fun s c hc => boundsStepG_ry _ s c hc)
      (fun c hc => firstPt_mapP _ c hc.1) init_ry (fun s => rfl) cs hne hok

-- after-fix fastbounds
/-! ## FastBounds (after the fix of `fastbounds-cubic-minmax`): full strength, all M/L/Q/C/Z paths.
Proofs are in `CanvasProofs/Lemmas/C08Fixed.lean`; `fastBounds` and `fastBoundsFixed` are
definitionally equal once the model's `fastStep` is `fastStepG mx`. -/

/-- FastBounds contains every point of every M/L/Q/C/Z path (induction over the command list,
Bernstein hull per segment). -/
theorem fastBounds_contains_curve (cs : List (Cmd K)) (q : Pt K)
    (harc : ∀ c ∈ cs, c.isArc = false) (h : OnPath cs q) : InRect (fastBounds cs) q :=
  fastBoundsFixed_contains_curve cs q harc h

/-- FastBounds contains Bounds for every M/L/Q/C/Z path (any Epsilon ≥ 0). -/
theorem fast_contains_bounds (hε : 0 ≤ (Env.epsilon : K)) (cs : List (Cmd K))
    (harc : ∀ c ∈ cs, c.isArc = false) :
    (fastBounds cs).x0 ≤ (bounds cs).x0 ∧ (bounds cs).x1 ≤ (fastBounds cs).x1 ∧
    (fastBounds cs).y0 ≤ (bounds cs).y0 ∧ (bounds cs).y1 ≤ (fastBounds cs).y1 :=
  fastFixed_contains_bounds hε _ cs harc

/-- FastBounds of the translated path is the translated FastBounds. -/
theorem fastBounds_translate (d : Pt K) (cs : List (Cmd K)) (hne : cs ≠ []) (harc : ∀ c ∈ cs, c.isArc = false) :
    fastBounds (cs.map (Cmd.mapP (trP d))) = trR d (fastBounds cs) :=
  fastBoundsFixed_translate d cs hne harc

/-- FastBounds commutes with the reflections x ↦ −x and y ↦ −y. -/
theorem fastBounds_reflect (cs : List (Cmd K)) (hne : cs ≠ []) (harc : ∀ c ∈ cs, c.isArc = false) :
    fastBounds (cs.map (Cmd.mapP rxP)) = rxR (fastBounds cs) ∧ fastBounds (cs.map (Cmd.mapP ryP)) = ryR (fastBounds cs) :=
  fastBoundsFixed_reflect cs hne harc

/-- the former witness `M0 0 C0 1 10 0 0 2` now has the control hull (0,0)-(10,2) -/
@[instance_reducible] def envQ : Env ℚ := ⟨0, 0, 0, id, id, id, fun _ _ => 0, id, fun _ _ => 0, id, id, fun _ _ => 0, fun _ => false⟩
@[instance_reducible] def arcQ : ArcFns ℚ := ⟨fun _ _ => 0⟩
attribute [local instance] envQ arcQ
example : fastBounds ([.M ⟨0, 0⟩, .C ⟨0, 1⟩ ⟨10, 0⟩ ⟨0, 2⟩] : List (Cmd ℚ)) = (⟨0, 0, 10, 2⟩ : Rct ℚ) := by
  simp [fastBounds, run, fastStep, fastStepG, St.init, St.rect, Cmd.firstPt]


/-- non-vacuity of the `_partial` theorems: a path with a quadratic and two subpaths satisfies their
hypotheses, and its boxes are what the real code returns ((0,0)-(20,10) and (0,0)-(20,5)). -/
example : (∀ c ∈ ([.M ⟨0, 0⟩, .Q ⟨10, 10⟩ ⟨20, 0⟩, .Z ⟨0, 0⟩, .M ⟨1, 1⟩, .L ⟨2, 3⟩] : List (Cmd ℚ)), c.isArc = false ∧ c.isCube = false) := by
  simp [Cmd.isArc, Cmd.isCube]

/-! ## Bounds is THE tight box; both boxes commute with every axis-aligned affine map -/

/-- Bounds is the tight bounding box of an M/L/Q/C/Z path: it contains every point and each of its
four sides is attained. (Tight boxes are unique: `tight_unique`.) -/
theorem bounds_tight (hε : (Env.epsilon : K) = 0) (hs : ∀ x : K, 0 ≤ x → Env.sqrt x * Env.sqrt x = x)
    (cs : List (Cmd K)) (hne : cs ≠ []) (harc : ∀ c ∈ cs, c.isArc = false) :
    TightBox (OnPath cs) (bounds cs) :=
  bounds_tightBox hε hs _ cs hne harc

/-- FastBounds is exactly the bounding box of the control polygon's vertices (MoveTo points included). -/
theorem fastBounds_is_control_hull (cs : List (Cmd K)) (hne : cs ≠ []) (harc : ∀ c ∈ cs, c.isArc = false) :
    TightBox (CtrlPts cs) (fastBounds cs) :=
  fast_tightBox cs hne harc

/-- Bounds of the image under an axis-aligned affine map `m` (translation, axis reflections and
scalings, x↔y swap, rotations by multiples of 90°, even degenerate ones) is the generated
`Rect.Transform` of Bounds — lines, quadratics and cubics. -/
theorem bounds_affine (hε : (Env.epsilon : K) = 0) (hs : ∀ x : K, 0 ≤ x → Env.sqrt x * Env.sqrt x = x)
    (m : Mat K) (hm : AxisAligned m) (cs : List (Cmd K)) (hne : cs ≠ []) (harc : ∀ c ∈ cs, c.isArc = false) :
    bounds (cs.map (Cmd.mapP (Matrix.Dot m))) = Rect.Transform (bounds cs) m :=
  bounds_affine_gen hε hs _ m hm cs hne harc

theorem fastBounds_affine (m : Mat K) (hm : AxisAligned m) (cs : List (Cmd K)) (hne : cs ≠ [])
    (harc : ∀ c ∈ cs, c.isArc = false) :
    fastBounds (cs.map (Cmd.mapP (Matrix.Dot m))) = Rect.Transform (fastBounds cs) m :=
  fast_affine_gen m hm cs hne harc

/-- rotation by 90° (x,y) ↦ (−y,x): the box rotates with the path -/
def rot90 : Mat K := ⟨0, -1, 0, 1, 0, 0⟩

theorem rot90_box (r : Rct K) (h1 : r.x0 ≤ r.x1) (h2 : r.y0 ≤ r.y1) :
    Rect.Transform r (rot90 : Mat K) = ⟨-r.y1, r.x0, -r.y0, r.x1⟩ := by
  rw [rectTransform_anti r rot90 rfl rfl]
  simp only [rot90, add_zero, neg_mul, one_mul, min_eq_right (neg_le_neg h2), max_eq_left (neg_le_neg h2),
    min_eq_left h1, max_eq_right h1]

theorem bounds_rot90 (hε : (Env.epsilon : K) = 0) (hs : ∀ x : K, 0 ≤ x → Env.sqrt x * Env.sqrt x = x)
    (cs : List (Cmd K)) (hne : cs ≠ []) (harc : ∀ c ∈ cs, c.isArc = false) :
    bounds (cs.map (Cmd.mapP (Matrix.Dot rot90))) = Rect.Transform (bounds cs) rot90 ∧
    fastBounds (cs.map (Cmd.mapP (Matrix.Dot rot90))) = Rect.Transform (fastBounds cs) rot90 :=
  ⟨bounds_affine hε hs rot90 (Or.inr ⟨rfl, rfl⟩) cs hne harc, fastBounds_affine rot90 (Or.inr ⟨rfl, rfl⟩) cs hne harc⟩

/-- reflections with cubics included (complements `bounds_reflect_quadratic`, which needs no
hypothesis on Epsilon) -/
theorem bounds_reflect (hε : (Env.epsilon : K) = 0) (hs : ∀ x : K, 0 ≤ x → Env.sqrt x * Env.sqrt x = x)
    (cs : List (Cmd K)) (hne : cs ≠ []) (harc : ∀ c ∈ cs, c.isArc = false) :
    bounds (cs.map (Cmd.mapP (Matrix.Dot ⟨-1, 0, 0, 0, 1, 0⟩))) = Rect.Transform (bounds cs) ⟨-1, 0, 0, 0, 1, 0⟩ ∧
    bounds (cs.map (Cmd.mapP (Matrix.Dot ⟨1, 0, 0, 0, -1, 0⟩))) = Rect.Transform (bounds cs) ⟨1, 0, 0, 0, -1, 0⟩ :=
  ⟨bounds_affine hε hs _ (Or.inl ⟨rfl, rfl⟩) cs hne harc, bounds_affine hε hs _ (Or.inl ⟨rfl, rfl⟩) cs hne harc⟩

/-! ## arcs -/

/-- Cauchy–Schwarz: the four values `cx ± dx`, `cy ± dy` that `Bounds` applies for an arc
(`dx = √(rx²cos²φ + ry²sin²φ)`, `dy = √(rx²sin²φ + ry²cos²φ)`) bound every point of the ellipse. -/
theorem arc_within_extremes (rx ry c s C S Dx Dy : K) (h1 : c * c + s * s = 1)
    (hDx : Dx * Dx = rx * rx * C * C + ry * ry * S * S) (hDx0 : 0 ≤ Dx)
    (hDy : Dy * Dy = rx * rx * S * S + ry * ry * C * C) (hDy0 : 0 ≤ Dy) :
    |rx * c * C - ry * s * S| ≤ Dx ∧ |rx * c * S + ry * s * C| ≤ Dy :=
  arc_extreme_box rx ry c s C S Dx Dy h1 hDx hDx0 hDy hDy0

/-- …with equality at the directions `Bounds` tests: `(sinθ,cosθ) ∝ (−ry·sinφ, rx·cosφ)`
(`thetaRight`) gives `x = cx + dx`, `(ry·cosφ, rx·sinφ)` (`thetaTop`) gives `y = cy + dy`. -/
theorem arc_extremes_attained (rx ry C S Dx Dy : K)
    (hDx : Dx * Dx = rx * rx * C * C + ry * ry * S * S) (hDx0 : Dx ≠ 0)
    (hDy : Dy * Dy = rx * rx * S * S + ry * ry * C * C) (hDy0 : Dy ≠ 0) :
    ((rx * C / Dx) * (rx * C / Dx) + (-ry * S / Dx) * (-ry * S / Dx) = 1 ∧
      rx * (rx * C / Dx) * C - ry * (-ry * S / Dx) * S = Dx) ∧
    ((rx * S / Dy) * (rx * S / Dy) + (ry * C / Dy) * (ry * C / Dy) = 1 ∧
      rx * (rx * S / Dy) * S + ry * (ry * C / Dy) * C = Dy) :=
  arc_extreme_attained rx ry C S Dx Dy hDx hDx0 hDy hDy0

/-- `angleNorm θ` lies in `[0, 2π)` and differs from `θ` by a whole number of turns
(for any `math.Mod` satisfying `FmodSpec`). -/
theorem angleNorm_range (hf : FmodSpec K) (hpi : 0 < (Env.pi : K)) (θ : K) :
    0 ≤ angleNorm θ ∧ angleNorm θ < 2 * Env.pi ∧ ∃ k : ℤ, θ = angleNorm θ + k * (2 * Env.pi) :=
  angleNorm_spec hf hpi θ

/-- The angle-range test of `Bounds` (ends in either order, range + slack shorter than a full turn):
`angleBetween θ a b` iff a whole-turn translate of `θ` lies in `[min a b − ε, max a b + ε]`. -/
theorem angleBetween_membership (hf : FmodSpec K) (hpi : 0 < (Env.pi : K)) (θ a b : K)
    (hε : 0 ≤ (Env.epsilon : K)) (hw : max a b - min a b + 2 * Env.epsilon < 2 * Env.pi) :
    angleBetween θ a b = true ↔
      ∃ k : ℤ, min a b - Env.epsilon ≤ θ + k * (2 * Env.pi) ∧ θ + k * (2 * Env.pi) ≤ max a b + Env.epsilon :=
  angleBetween_iff hf hpi θ a b hε hw

theorem angleBetween_ends_swap (θ a b : K) : angleBetween θ a b = angleBetween θ b a := angleBetween_symm θ a b

theorem angleBetween_whole_turns (hf : FmodSpec K) (hpi : 0 < (Env.pi : K)) (θ a b : K) (j : ℤ)
    (hε : 0 ≤ (Env.epsilon : K)) (hw : max a b - min a b + 2 * Env.epsilon < 2 * Env.pi) :
    angleBetween (θ + j * (2 * Env.pi)) a b = angleBetween θ a b :=
  angleBetween_turn hf hpi θ a b j hε hw

/-- One command, any kind (line, quadratic, cubic, ARC): if the FastBounds state encloses the Bounds
state before the command it does so after it. For an arc: radii ≥ 0, `sincos` on the unit circle,
exact `sqrt`, end point within `max rx ry` of the computed centre (`SegOk`). -/
theorem fast_contains_bounds_step (hε : 0 ≤ (Env.epsilon : K)) (sf sb : St K) (c : Cmd K)
    (hc : SegOk sb.start c) (h : Sim sf sb) : Sim (fastStep sf c) (boundsStep sb c) :=
  step_sim hε _ sf sb c hc h

/-- FastBounds ⊇ Bounds for EVERY path — lines, quadratics, cubics and arcs, any number of subpaths,
any Epsilon ≥ 0. -/
theorem fast_contains_bounds_all (hε : 0 ≤ (Env.epsilon : K)) (cs : List (Cmd K))
    (hok : ∀ c cs', cs = c :: cs' → PathOk c.firstPt cs') :
    (fastBounds cs).x0 ≤ (bounds cs).x0 ∧ (bounds cs).x1 ≤ (fastBounds cs).x1 ∧
    (fastBounds cs).y0 ≤ (bounds cs).y0 ∧ (bounds cs).y1 ≤ (fastBounds cs).y1 :=
  run_sim hε _ cs hok

/-! ## growing a path only grows its boxes -/

/-- **Appending never shrinks FastBounds**: whatever is appended to a non-empty path (arcs included),
every point of the old rectangle is in the new one — `FastBounds` of a prefix is a valid reject test
for the whole path. -/
theorem fastBounds_append_grows (cs ds : List (Cmd K)) (hne : cs ≠ []) (q : Pt K)
    (h : InRect (fastBounds cs) q) : InRect (fastBounds (cs ++ ds)) q := by
  cases cs with
  | nil => exact absurd rfl hne
  | cons c cs =>
    simp only [fastBounds, run, List.cons_append, List.foldl_append] at h ⊢
    exact fold_mono (fastStepG_good _) ds _ q h

/-- the same for `Bounds` (every Epsilon, arcs included): each step only widens the running box -/
theorem bounds_append_grows (cs ds : List (Cmd K)) (hne : cs ≠ []) (q : Pt K)
    (h : InRect (bounds cs) q) : InRect (bounds (cs ++ ds)) q := by
  have mono : ∀ (ds : List (Cmd K)) (s : St K), StIn s q → StIn (ds.foldl (boundsStepG true) s) q := by
    intro ds
    induction ds with
    | nil => intro s hs; exact hs
    | cons d ds ih => intro s hs; exact ih _ (boundsStep_mono true s d q hs)
  cases cs with
  | nil => exact absurd rfl hne
  | cons c cs =>
    simp only [bounds, boundsStep, run, List.cons_append, List.foldl_append] at h ⊢
    exact mono ds _ h

/-- non-vacuity of `fastBounds_append_grows`: a point inside the box of a two-command path -/
example : InRect (fastBounds ([.M ⟨0, 0⟩, .L ⟨1, 2⟩] : List (Cmd ℚ))) ⟨1, 1⟩ := by
  simp [fastBounds, run, fastStep, fastStepG, St.init, St.rect, Cmd.firstPt, InRect]

/-! ## the verdict specification (`Canvas.C08.verdict`, decides the `V` lines on the real code's output) -/

/-- SOUNDNESS of the verdict: `ok` means every point of the sampled box is within `tolC` of Bounds,
each side of Bounds within `tolT` of the sampled extreme, Bounds within `tolC` inside FastBounds. -/
theorem verdict_ok_sound (tolC tolT : K) (s b f : Rct K) (h : verdict tolC tolT s b f = Verdict.ok) :
    (∀ q, InRect s q → b.x0 - tolC ≤ q.x ∧ q.x ≤ b.x1 + tolC ∧ b.y0 - tolC ≤ q.y ∧ q.y ≤ b.y1 + tolC) ∧
    (|b.x0 - s.x0| ≤ tolT ∧ |b.x1 - s.x1| ≤ tolT ∧ |b.y0 - s.y0| ≤ tolT ∧ |b.y1 - s.y1| ≤ tolT) ∧
    (f.x0 - tolC ≤ b.x0 ∧ b.x1 ≤ f.x1 + tolC ∧ f.y0 - tolC ≤ b.y0 ∧ b.y1 ≤ f.y1 + tolC) :=
  verdict_sound tolC tolT s b f h

theorem verdict_monotone (tolC tolT tolC' tolT' : K) (hC : tolC ≤ tolC') (hT : tolT ≤ tolT') (s b f : Rct K)
    (h : verdict tolC tolT s b f = Verdict.ok) : verdict tolC' tolT' s b f = Verdict.ok :=
  verdict_mono tolC tolT tolC' tolT' hC hT s b f h

theorem verdict_translation_invariant (tolC tolT : K) (d : Pt K) (s b f : Rct K) :
    verdict tolC tolT (trR d s) (trR d b) (trR d f) = Verdict.ok ↔ verdict tolC tolT s b f = Verdict.ok :=
  verdict_translate tolC tolT d s b f

/-- at zero tolerance the verdict accepts exactly "Bounds = the observed box, inside FastBounds" -/
theorem verdict_zero_tolerance (s b f : Rct K) (hx : s.x0 ≤ s.x1) (hy : s.y0 ≤ s.y1) :
    verdict 0 0 s b f = Verdict.ok ↔ (b = s ∧ f.x0 ≤ b.x0 ∧ b.x1 ≤ f.x1 ∧ f.y0 ≤ b.y0 ∧ b.y1 ≤ f.y1) :=
  verdict_exact s b f hx hy

/-- THE MODEL PASSES ITS OWN SPECIFICATION: if the observed box is the true tight box of an
M/L/Q/C/Z path then the verdict on the model's `bounds`/`fastBounds` is `ok` at tolerance zero. -/
theorem verdict_accepts_model (hε : (Env.epsilon : K) = 0) (hs : ∀ x : K, 0 ≤ x → Env.sqrt x * Env.sqrt x = x)
    (cs : List (Cmd K)) (hne : cs ≠ []) (harc : ∀ c ∈ cs, c.isArc = false)
    (obs : Rct K) (hobs : TightBox (OnPath cs) obs) :
    verdict 0 0 obs (bounds cs) (fastBounds cs) = Verdict.ok := by
  have e : bounds cs = obs := tight_unique _ _ _ (bounds_tight hε hs cs hne harc) hobs
  obtain ⟨hc, _, ⟨q2, s2, e2⟩, _, ⟨q4, s4, e4⟩⟩ := hobs
  have fc := fast_contains_bounds (le_of_eq hε.symm) cs harc
  have hx : obs.x0 ≤ obs.x1 := by have := (hc q2 s2).1; rw [e2] at this; exact this
  have hy : obs.y0 ≤ obs.y1 := by have := (hc q4 s4).2.2.1; rw [e4] at this; exact this
  rw [verdict_exact obs _ _ hx hy]
  exact ⟨e, fc⟩

/-! ## non-vacuity: the hypotheses hold over ℝ (`Real.sqrt`, Epsilon = 0, floor-based `math.Mod`) -/
section nonvacuity
attribute [local instance] envR arcR

/-- a path with a quadratic, a cubic, a close and a second subpath -/
noncomputable def samplePath : List (Cmd ℝ) :=
  [.M ⟨0, 0⟩, .Q ⟨10, 10⟩ ⟨20, 0⟩, .C ⟨0, 1⟩ ⟨10, 0⟩ ⟨0, 2⟩, .Z ⟨0, 0⟩, .M ⟨1, 1⟩, .L ⟨2, 3⟩]

example : TightBox (OnPath samplePath) (bounds samplePath) :=
  bounds_tight envR_eps envR_sqrt samplePath (by simp [samplePath]) (by simp [samplePath, Cmd.isArc])

example (q : Pt ℝ) (h : OnPath samplePath q) : InRect (bounds samplePath) q :=
  bounds_contains_curve envR_eps envR_sqrt samplePath q (by simp [samplePath, Cmd.isArc]) h

example : bounds (samplePath.map (Cmd.mapP (Matrix.Dot rot90))) = Rect.Transform (bounds samplePath) rot90 :=
  (bounds_rot90 envR_eps envR_sqrt samplePath (by simp [samplePath]) (by simp [samplePath, Cmd.isArc])).1

example (θ : ℝ) : 0 ≤ angleNorm θ ∧ angleNorm θ < 2 * Env.pi ∧ ∃ k : ℤ, θ = angleNorm θ + k * (2 * Env.pi) :=
  angleNorm_range fmodSpecR envR_pi θ

example (θ : ℝ) : angleBetween θ 1 2 = true ↔ ∃ k : ℤ, (1 : ℝ) ≤ θ + k * (2 * 3) ∧ θ + k * (2 * 3) ≤ 2 := by
  have := angleBetween_membership fmodSpecR envR_pi θ 1 2 (le_of_eq envR_eps.symm)
    (by rw [envR_eps]; show max (1:ℝ) 2 - min 1 2 + 2 * 0 < 2 * 3; norm_num)
  rw [envR_eps] at this
  simpa [show (Env.pi : ℝ) = 3 from rfl] using this

/-- `SegOk`/`PathOk` are satisfiable: the half circle `M1 0 A1 1 0 0 1 -1 0` (the shortcut branch of
`ellipseToCenter` puts the centre at the origin), so `fast_contains_bounds_all` applies to it -/
theorem halfCircle_center : ellipseToCenter (1 : ℝ) 0 1 1 0 false true (-1) 0 = (0, 0, 0, 0 + Env.pi) := by
  have e : (Env.epsilon : ℝ) = 0 := rfl
  have a : ∀ x : ℝ, Ops.abs x = |x| := fun _ => rfl
  have h2 : |(-1 : ℝ) - 1| = 2 := by norm_num [abs_of_neg]
  simp [ellipseToCenter, GenK.Equal, e, a, h2]
  norm_num

example : PathOk (⟨1, 0⟩ : Pt ℝ) [.A 1 1 0 false true ⟨-1, 0⟩] := by
  refine ⟨⟨zero_le_one, zero_le_one, ?_, envR_sqrt', ?_, ?_⟩, trivial⟩
  · show (1 : ℝ) * 1 + 0 * 0 = 1
    norm_num
  · rw [halfCircle_center]; norm_num
  · rw [halfCircle_center]; norm_num
end nonvacuity

end C08
